(* Proofs/SpansUtf8.v — C14, character boundaries, part 1: every parser consumes whole characters.

     uP p   if the remaining input is well-formed UTF-8 and p succeeds, what remains after p is
            well-formed UTF-8 (so the cursor sits on a character boundary again).

   Token boundaries are ASCII delimiters or ends of UTF-8-checked chunks:
     * a parser that consumes ASCII bytes only is uP (`uP_of_ascii`, from the class judgement `monoC ascii`);
     * take_while over a class that contains every byte >= 0x80 stops before an ASCII byte or at the end:
       a well-formed text cut before a non-continuation byte leaves a well-formed text (`valid_suffix`);
     * `from_utf8(...take())` / `from_utf8_unchecked` hand over exactly the consumed text, which is checked:
       a well-formed prefix of a well-formed text leaves a well-formed text (`valid_cancel`). *)
From TV Require Import Base.Prelude Base.Utf8 Base.Winnow Gen.Consts Spec.Abnf Spec.Lex.
From TV Require Import Model.Trivia Model.Strings Model.Datetime Model.Numbers Model.Tree Model.Parse Model.Document.
From TV Require Import Proofs.ConstsOk Proofs.LexEquivBase Proofs.LexEquivUtf8.
From TV Require Import Proofs.NoPanicBase Proofs.NoPanicLex Proofs.NoPanicValue Proofs.NoPanicState Proofs.NoPanicDoc.
From TV Require Import Proofs.SpansDefs Proofs.SpansBase Proofs.SpansLex.
Require Import Lia ZifyBool ZifyN ZifyNat.

(* ---- well-formed texts ------------------------------------------------------------------------------------ *)
Lemma valid_cons_ascii b s : ascii b = true -> utf8_valid_b (b :: s) = utf8_valid_b s.
Proof. intro H. cbn [utf8_valid_b]. unfold ascii in H. rewrite H. reflexivity. Qed.
Lemma valid_drop_ascii t r : forallb ascii t = true -> utf8_valid_b (t ++ r) = utf8_valid_b r.
Proof.
  induction t as [|b t IH]; [reflexivity|]. cbn [forallb app]. intro H. apply andb_true_iff in H as [H1 H2].
  rewrite valid_cons_ascii by exact H1. apply IH, H2.
Qed.
Lemma cont_not_ascii b : is_cont b = true -> ascii b = false.
Proof. unfold is_cont, ascii. lia. Qed.
Lemma second3_cont b0 b1 : second3 b0 b1 = true -> is_cont b1 = true.
Proof. unfold second3, is_cont, inr. destruct (b2n b0 =? 224)%N; [lia|]. destruct (b2n b0 =? 237)%N; lia. Qed.
Lemma second4_cont b0 b1 : second4 b0 b1 = true -> is_cont b1 = true.
Proof. unfold second4, is_cont, inr. destruct (b2n b0 =? 240)%N; [lia|]. destruct (b2n b0 =? 244)%N; lia. Qed.

Definition starts_char (r : bytes) : Prop := match r with [] => True | b :: _ => is_cont b = false end.

(* a well-formed text cut before a non-continuation byte (or at its end) leaves a well-formed text *)
Lemma valid_suffix_n : forall n a r, length a <= n -> utf8_valid_b (a ++ r) = true -> starts_char r -> utf8_valid_b r = true.
Proof.
  induction n as [|n IH]; intros a r Hn V S.
  - destruct a; [exact V|cbn in Hn; lia].
  - destruct a as [|x0 a]; [exact V|].
    destruct (utf8_valid_cases _ V) as [E | [(b & s' & E & Hb & V') | [(b0 & b1 & s' & E & H0 & H1 & V')
      | [(b0 & b1 & b2 & s' & E & H0 & H1 & H2 & V') | (b0 & b1 & b2 & b3 & s' & E & H0 & H1 & H2 & H3 & V')]]]].
    + discriminate E.
    + cbn [app] in E. inversion E; subst. apply (IH a r); [cbn in Hn; lia|exact V'|exact S].
    + cbn [app] in E. inversion E as [[X0 X1]]. subst b0. destruct a as [|x1 a].
      * cbn [app] in X1. subst r. cbn [starts_char] in S. congruence.
      * cbn [app] in X1. inversion X1; subst. apply (IH a r); [cbn in Hn; lia|exact V'|exact S].
    + apply second3_cont in H1. cbn [app] in E. inversion E as [[X0 X1]]. subst b0. destruct a as [|x1 a].
      * cbn [app] in X1. subst r. cbn [starts_char] in S. congruence.
      * cbn [app] in X1. inversion X1 as [[Y0 Y1]]. subst b1. destruct a as [|x2 a].
        -- cbn [app] in Y1. subst r. cbn [starts_char] in S. congruence.
        -- cbn [app] in Y1. inversion Y1; subst. apply (IH a r); [cbn in Hn; lia|exact V'|exact S].
    + apply second4_cont in H1. cbn [app] in E. inversion E as [[X0 X1]]. subst b0. destruct a as [|x1 a].
      * cbn [app] in X1. subst r. cbn [starts_char] in S. congruence.
      * cbn [app] in X1. inversion X1 as [[Y0 Y1]]. subst b1. destruct a as [|x2 a].
        -- cbn [app] in Y1. subst r. cbn [starts_char] in S. congruence.
        -- cbn [app] in Y1. inversion Y1 as [[Z0 Z1]]. subst b2. destruct a as [|x3 a].
           ++ cbn [app] in Z1. subst r. cbn [starts_char] in S. congruence.
           ++ cbn [app] in Z1. inversion Z1; subst. apply (IH a r); [cbn in Hn; lia|exact V'|exact S].
Qed.
Lemma valid_suffix a r : utf8_valid_b (a ++ r) = true -> starts_char r -> utf8_valid_b r = true.
Proof. apply (valid_suffix_n (length a)). lia. Qed.

Lemma valid_starts_char r : utf8_valid_b r = true -> starts_char r.
Proof.
  intro V. destruct r as [|b r]; [exact I|]. cbn [starts_char].
  destruct (utf8_valid_cases _ V) as [E | [(b' & s' & E & Hb & _) | [(b0 & b1 & s' & E & H0 & _)
    | [(b0 & b1 & b2 & s' & E & H0 & _) | (b0 & b1 & b2 & b3 & s' & E & H0 & _)]]]];
    try discriminate E; inversion E; subst; unfold is_cont, LexEquivBase.ascii, inr in *; lia.
Qed.
(* a well-formed prefix of a well-formed text leaves a well-formed text *)
Lemma valid_cancel_n : forall n t r, length t <= n -> utf8_valid_b t = true -> utf8_valid_b (t ++ r) = true -> utf8_valid_b r = true.
Proof.
  induction n as [|n IH]; intros t r Hn Vt V.
  - destruct t; [exact V|cbn in Hn; lia].
  - destruct (utf8_valid_cases _ Vt) as [E | [(b & s' & E & Hb & V') | [(b0 & b1 & s' & E & H0 & H1 & V')
      | [(b0 & b1 & b2 & s' & E & H0 & H1 & H2 & V') | (b0 & b1 & b2 & b3 & s' & E & H0 & H1 & H2 & H3 & V')]]]]; subst t.
    + exact V.
    + cbn [app] in V. rewrite valid_cons_ascii in V by exact Hb. apply (IH s' r); [cbn in Hn; lia|exact V'|exact V].
    + cbn [app] in V. rewrite utf8_seq2 in V by assumption. apply (IH s' r); [cbn in Hn; lia|exact V'|exact V].
    + cbn [app] in V. rewrite utf8_seq3 in V by assumption. apply (IH s' r); [cbn in Hn; lia|exact V'|exact V].
    + cbn [app] in V. rewrite utf8_seq4 in V by assumption. apply (IH s' r); [cbn in Hn; lia|exact V'|exact V].
Qed.
Lemma valid_cancel t r : utf8_valid_b t = true -> utf8_valid_b (t ++ r) = true -> utf8_valid_b r = true.
Proof. apply (valid_cancel_n (length t)). lia. Qed.

(* ---- the judgement ------------------------------------------------------------------------------------------ *)
Definition vin (i : input) : Prop := utf8_valid_b (rest i) = true.
Definition uP {A} (p : parser A) : Prop := forall i a i', vin i -> p i = Ok a i' -> vin i'.

Lemma uP_of_ascii {A} (p : parser A) : monoC ascii p -> uP p.
Proof.
  intros Hp i a i' V E. apply Hp in E as (t & R & _ & _ & F). unfold vin in *. rewrite R, valid_drop_ascii in V by exact F. exact V.
Qed.
(* the value handed over is exactly the consumed text, and it is well-formed *)
Definition hands_over (p : parser bytes) : Prop :=
  forall i b i', p i = Ok b i' -> exists pre, forallb ascii pre = true /\ rest i = pre ++ b ++ rest i'.
Lemma uP_checked (p : parser bytes) :
  hands_over p -> (forall i b i', p i = Ok b i' -> utf8_valid_b b = true) -> uP p.
Proof.
  intros Hh Hv i b i' V E. destruct (Hh _ _ _ E) as (pre & F & R). unfold vin in *.
  rewrite R, valid_drop_ascii in V by exact F. eapply valid_cancel; [eapply Hv, E|exact V].
Qed.
Lemma uP_unchecked_hands w (p : parser bytes) : hands_over p -> uP (unchecked_utf8 w p).
Proof.
  intro Hh. apply uP_checked.
  - intros i b i' E. unfold unchecked_utf8 in E. destruct (p i) as [x j|? ?|? ?|?] eqn:E1; try discriminate.
    destruct (utf8_valid_b x); inversion E; subst. eapply Hh, E1.
  - intros i b i' E. unfold unchecked_utf8 in E. destruct (p i) as [x j|? ?|? ?|?] eqn:E1; try discriminate.
    destruct (utf8_valid_b x) eqn:V; inversion E; subst. exact V.
Qed.
Lemma uP_from_utf8_hands (p : parser bytes) : hands_over p -> uP (from_utf8 p).
Proof.
  intro Hh. apply uP_checked.
  - intros i b i' E. unfold from_utf8 in E. apply try_map_ok in E as (x & E & G). destruct (utf8_valid_b x); inversion G; subst.
    eapply Hh, E.
  - intros i b i' E. unfold from_utf8 in E. apply try_map_ok in E as (x & E & G). destruct (utf8_valid_b x) eqn:V; inversion G; subst.
    exact V.
Qed.
Lemma hands_take_while m n f : hands_over (take_while_mn m n f).
Proof. intros i b i' E. apply take_while_inv in E as (R & _). exists []. split; [reflexivity|exact R]. Qed.
Lemma hands_taken {A} (p : parser A) : mono p -> hands_over (taken p).
Proof.
  intros Mp i b i' E. unfold taken in E. destruct (p i) as [x j|? ?|? ?|?] eqn:E1; try discriminate. inversion E; subst.
  apply Mp in E1 as (t & R & P & _). exists []. split; [reflexivity|]. cbn [app].
  assert (F : firstn (N.to_nat (pos i' - pos i)) (rest i) = t).
  { rewrite R, P. replace (N.to_nat (pos i + N.of_nat (length t) - pos i)) with (length t) by lia.
    rewrite firstn_app, Nat.sub_diag, firstn_all. cbn [firstn]. apply app_nil_r. }
  rewrite F. exact R.
Qed.
Lemma hands_verify f (p : parser bytes) : hands_over p -> hands_over (verify f p).
Proof.
  intros Hh i b i' E. unfold verify in E. destruct (p i) as [x j|? ?|? ?|?] eqn:E1; try discriminate.
  destruct (f x); inversion E; subst. eapply Hh, E1.
Qed.
Lemma hands_preceded_lit l (p : parser bytes) : forallb ascii l = true -> hands_over p -> hands_over (preceded (lit l) p).
Proof.
  intros Hl Hh i b i' E. unfold preceded in E. apply bind_ok in E as (x & j & E0 & E). apply lit_inv in E0 as (_ & _ & R).
  destruct (Hh _ _ _ E) as (pre & F & R2). exists (l ++ pre). split; [rewrite forallb_app, Hl, F; reflexivity|].
  rewrite R, R2, app_assoc. reflexivity.
Qed.

(* ---- combinators ------------------------------------------------------------------------------------------------ *)
Section Combs.
  Context {A B : Type}.
  Lemma uP_ret (a : A) : uP (ret a).
  Proof. intros i x i' V E. apply ret_ok in E as [_ ->]. exact V. Qed.
  Lemma uP_fail : uP (@fail A). Proof. intros i x i' V E. discriminate. Qed.
  Lemma uP_const_panic s : uP (fun _ : input => @Panic A s). Proof. intros i x i' V E. discriminate. Qed.
  Lemma uP_const_cut e j : uP (fun _ : input => @Cut A e j). Proof. intros i x i' V E. discriminate. Qed.
  Lemma uP_bind (p : parser A) (f : A -> parser B) : uP p -> (forall a, uP (f a)) -> uP (bind p f).
  Proof. intros Hp Hf i b i' V E. apply bind_ok in E as (a & j & E1 & E2). eapply Hf; [|exact E2]. eapply Hp; eauto. Qed.
  Lemma uP_pmap (g : A -> B) (p : parser A) : uP p -> uP (pmap g p).
  Proof. intros Hp i b i' V E. apply pmap_ok in E as (a & E & _). eapply Hp; eauto. Qed.
  Lemma uP_try_map (g : A -> tm B) (p : parser A) : uP p -> uP (try_map g p).
  Proof. intros Hp i b i' V E. apply try_map_ok in E as (a & E & _). eapply Hp; eauto. Qed.
  Lemma uP_verify_map (g : A -> option B) (p : parser A) : uP p -> uP (verify_map g p).
  Proof.
    intros Hp i b i' V E. unfold verify_map in E. destruct (p i) as [x j|? ?|? ?|?] eqn:E1; try discriminate.
    destruct (g x); inversion E; subst. eapply Hp; eauto.
  Qed.
  Lemma uP_and_then (p : parser A) (g : A -> sub B) : uP p -> uP (and_then p g).
  Proof.
    intros Hp i b i' V E. unfold and_then in E. destruct (p i) as [x j|? ?|? ?|?] eqn:E1; try discriminate.
    destruct (g x); inversion E; subst. eapply Hp; eauto.
  Qed.
End Combs.
Section Combs1.
  Context {A : Type}.
  Lemma uP_pvalue {B} (b : B) (p : parser A) : uP p -> uP (pvalue b p). Proof. apply uP_pmap. Qed.
  Lemma uP_pvoid (p : parser A) : uP p -> uP (pvoid p). Proof. apply uP_pmap. Qed.
  Lemma uP_peek (p : parser A) : uP (peek p).
  Proof. intros i a i' V E. apply peek_ok in E as (-> & _). exact V. Qed.
  Lemma uP_opt (p : parser A) : uP p -> uP (opt p).
  Proof.
    intros Hp i a i' V E. unfold opt in E. destruct (p i) as [x j|? ?|? ?|?] eqn:E1; try discriminate; inversion E; subst;
      [eapply Hp; eauto|exact V].
  Qed.
  Lemma uP_cut_err (p : parser A) : uP p -> uP (cut_err p).
  Proof. intros Hp i a i' V E. apply cut_err_ok in E. eapply Hp; eauto. Qed.
  Lemma uP_context (p : parser A) : uP p -> uP (context p).
  Proof. intros Hp i a i' V E. apply context_ok in E. eapply Hp; eauto. Qed.
  Lemma uP_alt (p q : parser A) : uP p -> uP q -> uP (alt p q).
  Proof.
    intros Hp Hq i a i' V E. unfold alt in E. destruct (p i) eqn:E1; try discriminate.
    - eapply Hp; [exact V|]. rewrite E1. exact E.
    - eapply Hq; eauto.
  Qed.
  Lemma uP_verify f (p : parser A) : uP p -> uP (verify f p).
  Proof.
    intros Hp i a i' V E. unfold verify in E. destruct (p i) as [x j|? ?|? ?|?] eqn:E1; try discriminate.
    destruct (f x); inversion E; subst. eapply Hp; eauto.
  Qed.
  Lemma uP_span_ (p : parser A) : uP p -> uP (span_ p).
  Proof. intros Hp i a i' V E. apply span_ok in E as (_ & x & E). eapply Hp; eauto. Qed.
  Lemma uP_with_span (p : parser A) : uP p -> uP (with_span p).
  Proof. intros Hp i a i' V E. apply with_span_ok in E as (_ & E). eapply Hp; eauto. Qed.
  Lemma uP_taken (p : parser A) : uP p -> uP (taken p).
  Proof.
    intros Hp i a i' V E. unfold taken in E. destruct (p i) as [x j|? ?|? ?|?] eqn:E1; try discriminate. inversion E; subst.
    eapply Hp; eauto.
  Qed.
  Lemma uP_diag (h : input -> parser A) : (forall j, uP (h j)) -> uP (fun j => h j j).
  Proof. intros H i a i' V E. eapply H; eauto. Qed.
  Lemma uP_eof : uP eof.
  Proof. intros i a i' V E. unfold eof in E. destruct (rest i); inversion E; subst. exact V. Qed.

  Lemma uP_repeat0_f (p : parser A) : uP p -> forall fuel acc, uP (repeat0_f fuel p acc).
  Proof.
    intros Hp. induction fuel as [|f IH]; intros acc i l i' V E; cbn [repeat0_f] in E; [discriminate|].
    destruct (p i) as [x j|? ?|? ?|?] eqn:E1; try discriminate.
    - destruct (Nat.eqb _ _); [discriminate|]. eapply IH; [|exact E]. eapply Hp; eauto.
    - inversion E; subst. exact V.
  Qed.
  Lemma uP_repeat0 (p : parser A) : uP p -> uP (repeat0 p).
  Proof. intros Hp i l i' V E. eapply uP_repeat0_f; eauto. Qed.
  Lemma uP_repeat1 (p : parser A) : uP p -> uP (repeat1 p).
  Proof.
    intros Hp i l i' V E. unfold repeat1 in E. destruct (p i) as [x j|? ?|? ?|?] eqn:E1; try discriminate.
    eapply uP_repeat0_f; [exact Hp| |exact E]. eapply Hp; eauto.
  Qed.
  Lemma uP_separated_loop {Sp} (p : parser A) (sep : parser Sp) : uP p -> uP sep ->
    forall fuel acc, uP (separated_loop fuel p sep acc).
  Proof.
    intros Hp Hs. induction fuel as [|f IH]; intros acc i l i' V E; cbn [separated_loop] in E; [discriminate|].
    destruct (sep i) as [x i1|? ?|? ?|?] eqn:E1; try discriminate.
    - destruct (Nat.eqb _ _); [discriminate|]. destruct (p i1) as [a i2|? ?|? ?|?] eqn:E2; try discriminate.
      + eapply IH; [|exact E]. eapply Hp; [|exact E2]. eapply Hs; eauto.
      + inversion E; subst. exact V.
    - inversion E; subst. exact V.
  Qed.
  Lemma uP_separated0 {Sp} (p : parser A) (sep : parser Sp) : uP p -> uP sep -> uP (separated0 p sep).
  Proof.
    intros Hp Hs i l i' V E. unfold separated0 in E. destruct (p i) as [a i1|? ?|? ?|?] eqn:E1; try discriminate.
    - eapply uP_separated_loop; [exact Hp|exact Hs| |exact E]. eapply Hp; eauto.
    - inversion E; subst. exact V.
  Qed.
  Lemma uP_separated1 {Sp} (p : parser A) (sep : parser Sp) : uP p -> uP sep -> uP (separated1 p sep).
  Proof.
    intros Hp Hs i l i' V E. unfold separated1 in E. destruct (p i) as [a i1|? ?|? ?|?] eqn:E1; try discriminate.
    eapply uP_separated_loop; [exact Hp|exact Hs| |exact E]. eapply Hp; eauto.
  Qed.
End Combs1.
Lemma uP_preceded {A B} (p : parser A) (q : parser B) : uP p -> uP q -> uP (preceded p q).
Proof. intros. apply uP_bind; auto. Qed.
Lemma uP_terminated {A B} (p : parser A) (q : parser B) : uP p -> uP q -> uP (terminated p q).
Proof. intros. apply uP_bind; auto. intro. apply uP_bind; auto. intro. apply uP_ret. Qed.
Lemma uP_delimited {A B D} (p : parser A) (q : parser B) (r : parser D) : uP p -> uP q -> uP r -> uP (delimited p q r).
Proof. intros. apply uP_bind; auto. intro. apply uP_bind; auto. intro. apply uP_bind; auto. intro. apply uP_ret. Qed.
Lemma uP_pair_ {A B} (p : parser A) (q : parser B) : uP p -> uP q -> uP (pair_ p q).
Proof. intros. apply uP_bind; auto. intro. apply uP_bind; auto. intro. apply uP_ret. Qed.
Lemma uP_unchecked w (p : parser bytes) : uP p -> uP (unchecked_utf8 w p).
Proof.
  intros Hp i a i' V E. unfold unchecked_utf8 in E. destruct (p i) as [x j|? ?|? ?|?] eqn:E1; try discriminate.
  destruct (utf8_valid_b x); inversion E; subst. eapply Hp; eauto.
Qed.
Lemma uP_from_utf8 (p : parser bytes) : uP p -> uP (from_utf8 p).
Proof. apply uP_try_map. Qed.

(* primitives *)
Lemma uP_one_of f : (forall b, f b = true -> ascii b = true) -> uP (one_of f).
Proof. intro H. apply uP_of_ascii, monoC_one_of, H. Qed.
Lemma uP_byte_ x : ascii x = true -> uP (byte_ x).
Proof. intro H. apply uP_of_ascii, monoC_byte_, H. Qed.
Lemma uP_lit l : forallb ascii l = true -> uP (lit l).
Proof. intro H. apply uP_of_ascii, monoC_lit, H. Qed.
Lemma uP_take_while_ascii m n f : (forall b, f b = true -> ascii b = true) -> uP (take_while_mn m n f).
Proof. intro H. apply uP_of_ascii, monoC_take_while, H. Qed.
(* a class that contains every byte >= 0x80: the run ends before an ASCII byte or at the end of the input *)
Lemma uP_take_while_wide m f : (forall b, f b = false -> ascii b = true) -> uP (take_while_mn m None f).
Proof.
  intros H i a i' V E. unfold take_while_mn in E. destruct (Nat.ltb _ _); [discriminate|]. inversion E; subst. clear E.
  unfold vin in *. unfold advance; cbn [rest].
  destruct (span_while_split f (rest i)) as (a & r & R & Fa & St & Sw). rewrite Sw. cbn [fst].
  rewrite R. rewrite skipn_app_len. rewrite R in V. eapply valid_suffix; [exact V|].
  unfold stops in St. destruct r as [|b r]; [exact I|]. cbn [starts_char]. apply H in St.
  destruct (is_cont b) eqn:C; [|reflexivity]. apply cont_not_ascii in C. congruence.
Qed.

Create HintDb up discriminated.
#[export] Hint Resolve uP_ret uP_fail uP_const_panic uP_const_cut uP_bind uP_pmap uP_try_map uP_verify_map uP_and_then
  uP_pvalue uP_pvoid uP_peek uP_opt uP_cut_err uP_context uP_alt uP_verify uP_span_ uP_with_span uP_taken uP_eof
  uP_repeat0 uP_repeat1 uP_separated0 uP_separated1 uP_preceded uP_terminated uP_delimited uP_pair_ uP_unchecked uP_from_utf8
  uP_one_of uP_byte_ uP_lit uP_take_while_ascii : up.
#[export] Hint Resolve WSCHAR_ascii HEXDIG_ascii DIGIT_ascii DT_DIGIT_ascii DIGIT1_9_ascii DIGIT0_7_ascii DIGIT0_1_ascii
  UNQUOTED_CHAR_ascii sign_ascii e_ascii : up.
#[export] Hint Extern 1 (ascii _ = true) => reflexivity : up.
#[export] Hint Extern 1 (forallb ascii _ = true) => reflexivity : up.
#[export] Hint Extern 1 (uP (if ?c then _ else _)) => destruct c : up.
#[export] Hint Extern 1 (uP (match ?x with _ => _ end)) => destruct x : up.
Ltac up := auto 40 with up.
