(* Proofs/GrammarValueSound.v — C01/C02 layer L2, values, soundness: whatever `value_` accepts is
   a `val` of the grammar (Spec/Syntax.v val_tok), the tree value carries exactly the data the
   abstract value denotes, every inline table in it obeys the definition rules, and the
   nesting / number limits hold (`vrel`).  Induction on the fuel of the value / array /
   inline-table knot; `separated` is read through Proofs/GrammarSep.v. *)
From TV Require Import Base.Prelude Base.Utf8 Base.Winnow Gen.Consts Spec.Abnf Spec.Lex Spec.Defs Spec.Syntax.
From TV Require Import Model.Trivia Model.Strings Model.Datetime Model.Numbers Model.Tree Model.Parse.
From TV Require Import Proofs.ConstsOk Proofs.NoPanicBase Proofs.NoPanicLex Proofs.NoPanicValue Proofs.NumbersRT_Value.
From TV Require Import Proofs.DefsEquivBase Proofs.DefsEquivInline.
From TV Require Import Proofs.LexEquivBase Proofs.LexEquivTrivia Proofs.LexEquivInt Proofs.LexEquivFloat
                       Proofs.LexEquivStrings Proofs.LexEquivString Proofs.LexEquivBool Proofs.LexEquivDatetime
                       Proofs.LexEquivKey Proofs.GrammarSep Proofs.GrammarBase Proofs.GrammarValueBase
                       Proofs.GrammarValueTok.
Require Import Lia ZifyBool ZifyN ZifyNat.

Lemma splits_depth i t i' : splits i t i' -> depth i' = depth i.
Proof. intros [_ ->]. apply depth_adv. Qed.

Lemma span_ws_inv i sp i' : span_ ws i = Ok sp i' -> exists w, ws_tok w /\ splits i w i' /\ stops wschar (rest i').
Proof. intro H. apply span_inv in H as (w & H & _). apply ws_sound in H. eauto. Qed.

Lemma span_wscn_inv i sp i' : span_ ws_comment_newline i = Ok sp i' -> exists w, wscn_tok w /\ splits i w i'.
Proof. intro H. apply span_inv in H as (u & H & _). apply wscn_sound in H. exact H. Qed.

(* check_recursion: the sub-parser runs one level deeper and hands the counter back *)
Lemma check_recursion_splits {A} (p : parser A) i a i' : check_recursion p i = Ok a i' ->
  S (depth i) < LIMIT /\
  exists i2, p (set_depth (S (depth i)) i) = Ok a i2 /\
             forall t, splits (set_depth (S (depth i)) i) t i2 -> splits i t i'.
Proof.
  intro H. split; [apply (DepthBase.check_recursion_inside _ _ _ _ H)|].
  apply check_recursion_inv in H as (i2 & d & E & D & ->). exists i2. split; [exact E|].
  intros t [R ->]. destruct i as [s p0 d0]. unfold adv, advance, set_depth in *. cbn [rest pos depth] in *.
  injection D as <-. split; [exact R|reflexivity].
Qed.

Definition vsound_at (p : parser value) : Prop :=
  forall i v i', p i = Ok v i' -> exists t a, val_tok t a /\ splits i t i' /\ vrel (depth i) v a.

Section Sound.
  Variable vr : parser value.
  Hypothesis Hvr : vsound_at vr.

  (* ---- arrays ---------------------------------------------------------------------------------- *)
  Lemma array_value_sound i it i1 : array_value vr i = Ok it i1 ->
    exists w1 t a w2, wscn_tok w1 /\ val_tok t a /\ wscn_tok w2 /\ splits i (w1 ++ t ++ w2) i1 /\ irel (depth i) it a.
  Proof.
    unfold array_value. intro H.
    apply bind_inv in H as (pre & j1 & H1 & H). apply span_wscn_inv in H1 as (w1 & Hw1 & S1).
    apply bind_inv in H as (v & j2 & H2 & H). apply Hvr in H2 as (t & a & Ht & S2 & Hv).
    apply bind_inv in H as (suf & j3 & H3 & H). apply span_wscn_inv in H3 as (w2 & Hw2 & S3).
    apply ret_inv in H as [-> ->]. exists w1, t, a, w2. repeat (split; [assumption|]). split.
    - exact (splits_trans _ _ _ _ _ S1 (splits_trans _ _ _ _ _ S2 S3)).
    - eexists. split; [reflexivity|]. apply vrel_decorate. rewrite <- (splits_depth _ _ _ S1). exact Hv.
  Qed.

  Lemma array_value_shrinking : shrinking (array_value vr).
  Proof.
    apply splits_shrinking. intros i a i' H. apply array_value_sound in H as (w1 & t & x & w2 & _ & _ & _ & S & _). eauto.
  Qed.
  Lemma byte_shrinking x : shrinking (byte_ x).
  Proof. apply splits_shrinking. intros i a i' H. apply byte_inv in H as [_ S]. eauto. Qed.

  Lemma array_seps_sound i1 items i2 : seps (array_value vr) (byte_ ARRAY_SEP) i1 items i2 ->
    forall w1 t a w2 c, wscn_tok w1 -> val_tok t a -> wscn_tok w2 -> (c = [] \/ c = [x2c]) ->
    exists u l, array_values_tok (w1 ++ t ++ w2 ++ u ++ c) (a :: l) /\ splits i1 u i2
                /\ Forall2 (irel (depth i1)) items l.
  Proof.
    induction 1 as [i F|i x j E Hlt F|i x j it j2 items i3 E Hlt E2 Hle R IH]; intros w1 t a w2 c Hw1 Ht Hw2 Hc.
    - exists [], []. split; [apply av_last; assumption|]. split; [apply splits_nil|constructor].
    - exists [], []. split; [apply av_last; assumption|]. split; [apply splits_nil|constructor].
    - apply byte_inv in E as [_ S1]. apply array_value_sound in E2 as (w1' & t' & a' & w2' & Hw1' & Ht' & Hw2' & S2 & Hit).
      destruct (IH w1' t' a' w2' c Hw1' Ht' Hw2' Hc) as (u & l & Hav & S3 & HF).
      pose proof (splits_trans _ _ _ _ _ S1 S2) as S12.
      exists ([x2c] ++ (w1' ++ t' ++ w2') ++ u), (a' :: l). split; [|split].
      + replace (w1 ++ t ++ w2 ++ ([x2c] ++ (w1' ++ t' ++ w2') ++ u) ++ c)
          with (w1 ++ t ++ w2 ++ [x2c] ++ (w1' ++ t' ++ w2' ++ u ++ c)) by (rewrite <- !app_assoc; reflexivity).
        apply av_more; assumption.
      + exact (splits_trans _ _ _ _ _ S12 S3).
      + rewrite (splits_depth _ _ _ S1) in Hit. rewrite (splits_depth _ _ _ S12) in HF. constructor; assumption.
  Qed.

  Lemma array_values_sound i v i' : array_values vr i = Ok v i' ->
    exists body l items tr c dec sp,
      v = VArray items tr c dec sp /\ splits i body i' /\ Forall2 (irel (depth i)) items l
      /\ val_tok ([x5b] ++ body ++ [x5d]) (AArr l).
  Proof.
    unfold array_values. intro H. apply bind_inv in H as (c & j & H1 & H). apply peek_inv in H1 as [-> _].
    destruct c as [x|].
    - apply ret_inv in H as [-> ->]. exists [], [], [], REmpty, false, decor_default, None.
      split; [reflexivity|]. split; [apply splits_nil|]. split; [constructor|]. apply (v_array_empty [] wscn_nil).
    - apply bind_inv in H as (vals & j1 & H1 & H).
      apply bind_inv in H as (comma & j2 & H2 & H). apply bind_inv in H as (tr & j3 & H3 & H).
      apply span_wscn_inv in H3 as (w & Hw & S3). apply ret_inv in H as [-> ->].
      apply (separated0_inv _ _ _ _ _ array_value_shrinking (byte_shrinking _)) in H1
        as [(-> & -> & _) | (it & i1 & items & -> & E & R)].
      + apply ret_inv in H2 as [_ ->]. exists w, [], [], (raw_with_span tr), comma, decor_default, None.
        split; [reflexivity|]. split; [exact S3|]. split; [constructor|]. apply (v_array_empty w Hw).
      + apply pmap_inv in H2 as (o & H2 & _).
        assert (Hc : exists c, (c = [] \/ c = [x2c]) /\ splits j1 c j2).
        { apply opt_inv in H2 as [(x & -> & H2) | (-> & -> & _)].
          - apply byte_inv in H2 as [_ S]. exists [x2c]. auto.
          - exists []. split; [auto|apply splits_nil]. }
        destruct Hc as (c & Hc & S2).
        apply array_value_sound in E as (w1 & t & a & w2 & Hw1 & Ht & Hw2 & S1 & Hit).
        destruct (array_seps_sound _ _ _ R w1 t a w2 c Hw1 Ht Hw2 Hc) as (u & l & Hav & Su & HF).
        exists (((w1 ++ t ++ w2) ++ u ++ c) ++ w), (a :: l), (it :: items), (raw_with_span tr), comma, decor_default, None.
        split; [reflexivity|]. split; [|split].
        * exact (splits_trans _ _ _ _ _ (splits_trans _ _ _ _ _ S1 (splits_trans _ _ _ _ _ Su S2)) S3).
        * rewrite (splits_depth _ _ _ S1) in HF. constructor; assumption.
        * replace ([x5b] ++ (((w1 ++ t ++ w2) ++ u ++ c) ++ w) ++ [x5d])
            with ([x5b] ++ (w1 ++ t ++ w2 ++ u ++ c) ++ w ++ [x5d]) by (rewrite <- !app_assoc; reflexivity).
          apply v_array; assumption.
  Qed.

  Lemma array_sound i v i' : array vr i = Ok v i' ->
    exists t l items tr c dec sp,
      v = VArray items tr c dec sp /\ splits i t i' /\ Forall2 (irel (depth i)) items l /\ val_tok t (AArr l).
  Proof.
    unfold array. intro H. apply bind_inv in H as (x & j1 & H1 & H). apply byte_inv in H1 as [_ S1].
    apply bind_inv in H as (a & j2 & H2 & H). apply cut_err_inv in H2.
    apply array_values_sound in H2 as (body & l & items & tr & c & dec & sp & -> & S2 & HF & Hv).
    apply bind_inv in H as (y & j3 & H3 & H). apply context_inv, cut_err_inv, byte_inv in H3 as [_ S3].
    apply ret_inv in H as [-> ->]. exists ([x5b] ++ body ++ [x5d]), l, items, tr, c, dec, sp.
    split; [reflexivity|]. split; [|split; [|exact Hv]].
    - exact (splits_trans _ _ _ _ _ S1 (splits_trans _ _ _ _ _ S2 S3)).
    - rewrite (splits_depth _ _ _ S1) in HF. exact HF.
  Qed.

  (* ---- inline tables ------------------------------------------------------------------------------ *)
  Lemma inline_keyval_sound i x i1 : inline_keyval vr i = Ok x i1 ->
    exists w0 kt p w1 w2 t a w3,
      ws_tok w0 /\ key_tok kt p /\ ws_tok w1 /\ ws_tok w2 /\ val_tok t a /\ ws_tok w3
      /\ splits i (w0 ++ (kt ++ w1 ++ [x3d] ++ w2 ++ t) ++ w3) i1 /\ prel (depth i) x (p, a).
  Proof.
    rewrite inline_keyval_eq. intro H. apply bind_inv in H as (kp & j1 & H1 & H).
    apply key_sound in H1 as (w0 & kt & w1 & Hw0 & Hkt & Hw1 & S1 & _).
    apply bind_inv in H as ([[pre v] suf] & j2 & H2 & H). unfold inline_kv_rhs in H2.
    apply cut_err_inv in H2. apply bind_inv in H2 as (y & k1 & E1 & H2). apply context_inv, byte_inv in E1 as [_ Se].
    apply bind_inv in H2 as (pre' & k2 & E2 & H2). apply span_ws_inv in E2 as (w2 & Hw2 & S2 & _).
    apply bind_inv in H2 as (v' & k3 & E3 & H2). apply Hvr in E3 as (t & a & Ht & S3 & Hv).
    apply bind_inv in H2 as (suf' & k4 & E4 & H2). apply span_ws_inv in E4 as (w3 & Hw3 & S4 & _).
    apply ret_inv in H2 as [E ->]. injection E as -> -> ->.
    destruct (pop_key kp) as [[path k]|] eqn:Ep; [|discriminate]. apply ret_inv in H as [-> ->].
    exists w0, kt, (map k_key kp), w1, w2, t, a, w3. repeat (split; [assumption|]). split.
    - pose proof (splits_trans _ _ _ _ _ S1 (splits_trans _ _ _ _ _ Se (splits_trans _ _ _ _ _ S2 (splits_trans _ _ _ _ _ S3 S4)))) as S.
      rewrite <- !app_assoc in *. exact S.
    - split; cbn [fst snd]; [apply (pop_key_keys _ _ _ Ep)|]. eexists. split; [reflexivity|]. apply vrel_decorate.
      rewrite <- (splits_depth _ _ _ (splits_trans _ _ _ _ _ S1 (splits_trans _ _ _ _ _ Se S2))). exact Hv.
  Qed.

  Lemma inline_keyval_shrinking : shrinking (inline_keyval vr).
  Proof.
    apply splits_shrinking. intros i a i' H.
    apply inline_keyval_sound in H as (w0 & kt & p & w1 & w2 & t & x & w3 & _ & _ & _ & _ & _ & _ & S & _). eauto.
  Qed.

  Lemma inline_seps_sound i1 prs i2 : seps (inline_keyval vr) (byte_ INLINE_TABLE_SEP) i1 prs i2 ->
    forall kt p w1 w2 t a w3, key_tok kt p -> ws_tok w1 -> ws_tok w2 -> val_tok t a -> ws_tok w3 ->
    exists u l wl x, splits i1 x i2 /\ w3 ++ x = u ++ wl /\ ws_tok wl
                     /\ inline_keyvals_tok (kt ++ w1 ++ [x3d] ++ w2 ++ t ++ u) ((p, a) :: l)
                     /\ Forall2 (prel (depth i1)) prs l.
  Proof.
    induction 1 as [i F|i x j E Hlt F|i x j pr j2 prs i3 E Hlt E2 Hle R IH]; intros kt p w1 w2 t a w3 Hkt Hw1 Hw2 Ht Hw3.
    - exists [], [], w3, []. split; [apply splits_nil|]. split; [rewrite app_nil_r; reflexivity|]. split; [exact Hw3|].
      split; [rewrite app_nil_r; apply ik_last; assumption|constructor].
    - exists [], [], w3, []. split; [apply splits_nil|]. split; [rewrite app_nil_r; reflexivity|]. split; [exact Hw3|].
      split; [rewrite app_nil_r; apply ik_last; assumption|constructor].
    - apply byte_inv in E as [_ S1].
      apply inline_keyval_sound in E2 as (w0' & kt' & p' & w1' & w2' & t' & a' & w3' & Hw0' & Hkt' & Hw1' & Hw2' & Ht' & Hw3' & S2 & Hpr).
      destruct (IH kt' p' w1' w2' t' a' w3' Hkt' Hw1' Hw2' Ht' Hw3') as (u & l & wl & x' & Sx & Ex & Hwl & Hkv & HF).
      pose proof (splits_trans _ _ _ _ _ S1 S2) as S12.
      exists (w3 ++ [x2c] ++ w0' ++ (kt' ++ w1' ++ [x3d] ++ w2' ++ t' ++ u)), ((p', a') :: l), wl,
             (([x2c] ++ w0' ++ (kt' ++ w1' ++ [x3d] ++ w2' ++ t') ++ w3') ++ x').
      split; [exact (splits_trans _ _ _ _ _ S12 Sx)|]. split; [|split; [exact Hwl|split]].
      + rewrite <- !app_assoc. rewrite Ex. reflexivity.
      + apply ik_more; assumption.
      + rewrite (splits_depth _ _ _ S1) in Hpr. rewrite (splits_depth _ _ _ S12) in HF. constructor; assumption.
  Qed.

  Lemma ws_tok_app a b : ws_tok a -> ws_tok b -> ws_tok (a ++ b).
  Proof. unfold ws_tok, all. intros Ha Hb. rewrite forallb_app, Ha, Hb. reflexivity. Qed.

  Lemma inline_kvs_sound i pairs pre i' : inline_kvs vr i = Ok (pairs, pre) i' ->
    exists body kvs, splits i body i' /\ Forall2 (prel (depth i)) pairs kvs
                     /\ val_tok ([x7b] ++ body ++ [x7d]) (AInl kvs).
  Proof.
    unfold inline_kvs. intro H. apply bind_inv in H as (kv & j1 & H1 & H).
    apply bind_inv in H as (sp & j2 & H2 & H). apply span_ws_inv in H2 as (w & Hw & S2 & _).
    apply ret_inv in H as [E ->]. injection E as -> _.
    apply (separated0_inv _ _ _ _ _ inline_keyval_shrinking (byte_shrinking _)) in H1
      as [(-> & -> & _) | (pr & i1 & prs & -> & E & R)].
    - exists w, []. split; [exact S2|]. split; [constructor|]. apply (v_inline_empty w Hw).
    - apply inline_keyval_sound in E as (w0 & kt & p & w1 & w2 & t & a & w3 & Hw0 & Hkt & Hw1 & Hw2 & Ht & Hw3 & S1 & Hpr).
      destruct (inline_seps_sound _ _ _ R kt p w1 w2 t a w3 Hkt Hw1 Hw2 Ht Hw3) as (u & l & wl & x & Sx & Ex & Hwl & Hkv & HF).
      exists (((w0 ++ (kt ++ w1 ++ [x3d] ++ w2 ++ t) ++ w3) ++ x) ++ w), ((p, a) :: l).
      split; [exact (splits_trans _ _ _ _ _ (splits_trans _ _ _ _ _ S1 Sx) S2)|]. split.
      + rewrite (splits_depth _ _ _ S1) in HF. constructor; assumption.
      + replace ([x7b] ++ (((w0 ++ (kt ++ w1 ++ [x3d] ++ w2 ++ t) ++ w3) ++ x) ++ w) ++ [x7d])
          with ([x7b] ++ w0 ++ (kt ++ w1 ++ [x3d] ++ w2 ++ t ++ u) ++ (wl ++ w) ++ [x7d]).
        * apply v_inline; [exact Hw0|exact Hkv|apply ws_tok_app; assumption].
        * assert (E2 : forall z, w3 ++ x ++ z = u ++ wl ++ z) by (intro z; rewrite !app_assoc, Ex; reflexivity).
          rewrite <- !app_assoc. rewrite E2. reflexivity.
  Qed.

  Lemma inline_table_sound i v i' : inline_table vr i = Ok v i' ->
    forall d0, depth i = S d0 -> S d0 < LIMIT ->
    exists t kvs, splits i t i' /\ val_tok t (AInl kvs) /\ vrel d0 v (AInl kvs).
  Proof.
    rewrite inline_table_eq. intros H d0 Hd Hlim. apply bind_inv in H as (x & j1 & H1 & H). apply byte_inv in H1 as [_ S1].
    apply bind_inv in H as (tv & j2 & H2 & H). apply cut_err_inv in H2. unfold inline_body in H2.
    apply try_map_inv in H2 as ([pairs pre] & H2 & Htm).
    apply inline_kvs_sound in H2 as (body & kvs & S2 & HF & Hv).
    apply bind_inv in H as (y & j3 & H3 & H). apply context_inv, cut_err_inv, byte_inv in H3 as [_ S3].
    apply ret_inv in H as [-> ->]. exists ([x7b] ++ body ++ [x7d]), kvs.
    split; [exact (splits_trans _ _ _ _ _ S1 (splits_trans _ _ _ _ _ S2 S3))|]. split; [exact Hv|].
    rewrite (splits_depth _ _ _ S1), Hd in HF.
    destruct (prel_ipairs _ _ _ HF) as (l & -> & Hl).
    apply (inline_bridge_sound (S d0) l kvs Hl d0 pre tv eq_refl Hlim Htm).
  Qed.

  (* ---- scalars ------------------------------------------------------------------------------------- *)
  Lemma scalar_sound {A} (p : parser A) (mk : A -> scalar) (tok : bytes -> aval -> Prop) :
    (forall i x i', p i = Ok x i' -> exists t a, tok t a /\ splits i t i' /\ abs_scalar (mk x) = den a
                                                 /\ aval_ok a = true /\ forall d, within d a = true) ->
    (forall t a, tok t a -> val_tok t a) ->
    vsound_at (pmap (fun x => scalar_value (mk x)) p).
  Proof.
    intros Hp Hv i v i' H. apply pmap_inv in H as (x & H & ->). apply Hp in H as (t & a & Ht & S & E & Hok & Hwi).
    exists t, a. split; [apply Hv, Ht|]. split; [exact S|]. apply vrel_scalar; auto.
  Qed.

  Ltac fin_scalar :=
    split; [eexists; split; [reflexivity|eassumption]|]; split; [eassumption|];
    split; [reflexivity|]; split; [reflexivity|].

  Lemma string_arm_sound : vsound_at (pmap (fun s => scalar_value (SString s)) string_).
  Proof.
    apply (scalar_sound string_ SString (fun t a => exists s, a = AStr s /\ string_tok t s)).
    - intros i x i' H. apply string_sound in H as (t & Ht & S). exists t, (AStr x). fin_scalar. reflexivity.
    - intros t a (s & -> & H). apply v_string, H.
  Qed.

  Lemma integer_arm_sound : vsound_at (pmap (fun z => scalar_value (SInt z)) integer).
  Proof.
    apply (scalar_sound integer SInt (fun t a => exists z, a = AInt z /\ integer_tok t z)).
    - intros i x i' H. apply integer_sound in H as (t & Ht & S & Hz). exists t, (AInt x). fin_scalar. intro d. exact Hz.
    - intros t a (z & -> & H). apply v_integer, H.
  Qed.

  Lemma finite_within d f : finite f -> within d (AFloat f) = true.
  Proof. destruct f as [n|n|n m e]; try reflexivity. cbn [finite within]. intros ->. reflexivity. Qed.

  Lemma float_arm_sound : vsound_at (pmap (fun f => scalar_value (SFloat f)) float).
  Proof.
    apply (scalar_sound float SFloat (fun t a => exists f, a = AFloat f /\ float_tok t f)).
    - intros i x i' H. apply float_sound in H as (t & Ht & Hf & S). exists t, (AFloat x).
      fin_scalar. intro d. apply finite_within, Hf.
    - intros t a (f & -> & H). apply v_float, H.
  Qed.

  Lemma date_time_arm_sound : vsound_at (pmap (fun d => scalar_value (SDatetime d)) date_time).
  Proof.
    apply (scalar_sound date_time SDatetime (fun t a => exists d, a = ADate d /\ date_time_tok t d)).
    - intros i x i' H. apply date_time_sound in H as (t & Ht & S). exists t, (ADate x). fin_scalar. reflexivity.
    - intros t a (d & -> & H). apply v_date_time, H.
  Qed.

  Lemma true_arm_sound : vsound_at (pmap (fun v => scalar_value (SBool v)) true_).
  Proof.
    apply (scalar_sound true_ SBool (fun t a => exists b, a = ABool b /\ boolean_tok t b)).
    - intros i x i' H. apply true_sound in H as [-> S]. assert (Hb : boolean_tok t_true true) by (left; auto).
      exists t_true, (ABool true). fin_scalar. reflexivity.
    - intros t a (b & -> & H). apply v_boolean, H.
  Qed.
  Lemma false_arm_sound : vsound_at (pmap (fun v => scalar_value (SBool v)) false_).
  Proof.
    apply (scalar_sound false_ SBool (fun t a => exists b, a = ABool b /\ boolean_tok t b)).
    - intros i x i' H. apply false_sound in H as [-> S]. assert (Hb : boolean_tok t_false false) by (right; auto).
      exists t_false, (ABool false). fin_scalar. reflexivity.
    - intros t a (b & -> & H). apply v_boolean, H.
  Qed.

  Lemma inf_arm_sound : vsound_at (pmap (fun f => scalar_value (SFloat f)) inf).
  Proof.
    apply (scalar_sound inf SFloat (fun t a => exists f, a = AFloat f /\ float_tok t f)).
    - intros i x i' H. unfold inf in H. apply pvalue_inv in H as (-> & y & H). apply lit_inv in H as [_ S].
      assert (Hf : float_tok t_inf (FInf false)) by (apply (float_inf [] false); left; auto).
      exists t_inf, (AFloat (FInf false)). fin_scalar. reflexivity.
    - intros t a (f & -> & H). apply v_float, H.
  Qed.
  Lemma nan_arm_sound : vsound_at (pmap (fun f => scalar_value (SFloat f)) nan).
  Proof.
    apply (scalar_sound nan SFloat (fun t a => exists f, a = AFloat f /\ float_tok t f)).
    - intros i x i' H. unfold nan in H. apply pvalue_inv in H as (-> & y & H). apply lit_inv in H as [_ S].
      assert (Hf : float_tok t_nan (FNan false)) by (apply (float_nan [] false); left; auto).
      exists t_nan, (AFloat (FNan false)). fin_scalar. reflexivity.
    - intros t a (f & -> & H). apply v_float, H.
  Qed.

  Lemma vsound_context p : vsound_at p -> vsound_at (context p).
  Proof. intros Hp i v i' H. apply context_inv in H. apply Hp, H. Qed.
  Lemma vsound_alt p q : vsound_at p -> vsound_at q -> vsound_at (p <|> q).
  Proof. intros Hp Hq i v i' H. apply alt_inv in H as [H | [_ H]]; [apply Hp, H|apply Hq, H]. Qed.
  Lemma vsound_fail : vsound_at (context fail).
  Proof. intros i v i' H. apply context_inv in H. discriminate. Qed.

  Lemma array_arm_sound : vsound_at (check_recursion (array vr)).
  Proof.
    intros i v i' H. apply check_recursion_splits in H as (Hlim & i2 & H & Hs).
    apply array_sound in H as (t & l & items & tr & c & dec & sp & -> & S & HF & Hv). cbn [set_depth depth] in HF.
    exists t, (AArr l). split; [exact Hv|]. split; [apply Hs, S|]. apply vrel_array; assumption.
  Qed.

  Lemma inline_arm_sound : vsound_at (check_recursion (inline_table vr)).
  Proof.
    intros i v i' H. apply check_recursion_splits in H as (Hlim & i2 & H & Hs).
    destruct (inline_table_sound _ _ _ H (depth i) eq_refl Hlim) as (t & kvs & S & Hv & Hr).
    exists t, (AInl kvs). split; [exact Hv|]. split; [apply Hs, S|exact Hr].
  Qed.

  Lemma value_arm_sound b : vsound_at (value_arm vr b).
  Proof.
    unfold value_arm.
    repeat match goal with |- vsound_at (if ?c then _ else _) => destruct c end;
      first [ apply string_arm_sound | apply array_arm_sound | apply inline_arm_sound
            | apply vsound_fail
            | apply vsound_context; first [apply integer_arm_sound | apply float_arm_sound | apply true_arm_sound
                                          | apply false_arm_sound | apply inf_arm_sound | apply nan_arm_sound]
            | idtac ].
    unfold number_arm. apply vsound_alt; [apply date_time_arm_sound|]. apply vsound_alt; [apply float_arm_sound|apply integer_arm_sound].
  Qed.

  Lemma value_body_sound : vsound_at (value_body vr).
  Proof.
    intros i v i' H. pose proof H as H0. unfold value_body in H0. apply bind_inv in H0 as (b & j & H1 & _).
    apply context_inv, peek_inv in H1 as [_ (j' & H1)]. apply any_inv in H1 as [R _]. cbn [app] in R.
    rewrite (value_body_arm vr i b _ R) in H. apply (value_arm_sound b), H.
  Qed.

  Lemma value_step_sound : vsound_at (value_step vr).
  Proof.
    intros i v i' H. unfold value_step in H. apply pmap_inv in H as ([v0 sp] & H & ->).
    apply with_span_inv in H as (a & H & E). injection E as <- _. apply value_body_sound in H as (t & x & Ht & S & Hv).
    exists t, x. split; [exact Ht|]. split; [exact S|]. apply vrel_apply_raw, Hv.
  Qed.
End Sound.

Lemma value_f_sound n : vsound_at (value_f n).
Proof.
  induction n as [|n IH]; [intros i v i' H; discriminate|].
  change (value_f (S n)) with (value_step (value_f n)). apply value_step_sound, IH.
Qed.

Theorem value_sound i v i' : value_ i = Ok v i' ->
  exists t a, val_tok t a /\ splits i t i' /\ vrel (depth i) v a.
Proof. apply value_f_sound. Qed.
