(* Proofs/NoPanicValue.v — C04, part 3: the value / array / inline-table knot (value.rs, array.rs,
   inline_table.rs) never panics.  Discharges
     P_depth_underflow   (RecursionCheck::exit: the sub-parser preserves `depth`, part of `mono`),
     P_out_of_fuel       in value_f (one unit of fuel per nesting level; a nested value starts after
                         the `[` / `{` of its parent, so `S (length text)` levels always suffice)
                         and in the separated(0..) loops of arrays and inline tables,
     P_key_path_empty    (inline_table.rs: path.pop().expect("grammar ensures at least 1")),
     P_other 2           (table_from_pairs only ever meets values: the parser stores `IValue` items). *)
From TV Require Import Base.Prelude Base.Utf8 Base.Winnow Gen.Consts Spec.Abnf.
From TV Require Import Model.Trivia Model.Strings Model.Datetime Model.Numbers Model.Tree Model.Parse.
From TV Require Import Proofs.ConstsOk Proofs.NoPanicBase Proofs.NoPanicLex.
Require Import Lia ZifyBool ZifyN ZifyNat.

(* sub-parsers already known to be safe everywhere are safe on any set of inputs *)
#[export] Hint Extern 9 (safe_on (shorter _) _) => (apply safe_safe_on; solve [auto 40 with np]) : np.

(* ---- check_recursion ------------------------------------------------------------------------------ *)
Lemma check_recursion_inv {A} (p : parser A) i a i' :
  check_recursion p i = Ok a i' ->
  exists i2 d, p (set_depth (S (depth i)) i) = Ok a i2 /\ depth i2 = S d /\ i' = set_depth d i2.
Proof.
  unfold check_recursion. cbv zeta. destruct (Nat.leb LIMIT _); [discriminate|].
  destruct (p (set_depth (S (depth i)) i)) as [x i2|? ?|? ?|?] eqn:E; try discriminate.
  destruct (depth i2) as [|d] eqn:D; [discriminate|]. intro H; inversion H; subst. eauto.
Qed.

Lemma monoC_check_recursion C {A} (p : parser A) : monoC C p -> monoC C (check_recursion p).
Proof.
  intros Hp i a i' H. apply check_recursion_inv in H as (i2 & d & E & D & ->).
  apply Hp in E as (t & R & Po & De & F). exists t. cbn [set_depth rest pos depth] in *.
  repeat split; auto. lia.
Qed.
Lemma progress_check_recursion {A} (p : parser A) : progress p -> progress (check_recursion p).
Proof.
  intros Hp i a i' H. apply check_recursion_inv in H as (i2 & d & E & D & ->). apply Hp in E. exact E.
Qed.
Lemma valP_check_recursion {A} (V : A -> Prop) (p : parser A) : valP V p -> valP V (check_recursion p).
Proof. intros Hp i a i' H. apply check_recursion_inv in H as (i2 & d & E & D & ->). eapply Hp, E. Qed.
(* RecursionCheck::exit never underflows: the sub-parser hands back the depth it was given *)
Lemma safe_check_recursion P {A} (p : parser A) :
  closed P -> mono p -> safe_on P p -> safe_on P (check_recursion p).
Proof.
  intros Pc Hm Hs i Hi. unfold check_recursion. cbv zeta. destruct (Nat.leb LIMIT _); [exact I|].
  assert (P1 : P (set_depth (S (depth i)) i)) by (eapply Pc; [exact Hi|cbn; lia]).
  specialize (Hs _ P1). destruct (p (set_depth (S (depth i)) i)) as [x i2|? ?|? ?|?] eqn:E; auto.
  apply Hm, ext_depth in E. cbn [set_depth depth] in E. rewrite E. exact I.
Qed.
#[export] Hint Resolve monoC_check_recursion progress_check_recursion safe_check_recursion : np.

(* a parser that first consumes a byte may hand a strictly shorter input to its continuation *)
Lemma safe_bind_shorter n {A B} (p : parser A) (f : A -> parser B) :
  mono p -> progress p -> safe p -> (forall a, safe_on (shorter n) (f a)) -> safe_on (shorter (S n)) (bind p f).
Proof.
  intros Hm Hg Hs Hf i Hi. unfold bind. specialize (Hs i I). destruct (p i) as [a i1|? ?|? ?|?] eqn:E; auto.
  apply Hf. apply Hg in E. unfold shorter in *. lia.
Qed.

(* ---- values stored by the parser: inline tables hold values only, hereditarily ----------------------- *)
Fixpoint vgood (v : value) : bool :=
  match v with
  | VInline items _ _ _ _ _ =>
    forallb (fun kv => match snd kv with IValue v' => vgood v' | _ => false end) items
  | _ => true
  end.
Definition igood (it : item) : bool := match it with IValue v => vgood v | _ => false end.
Definition items_good (m : kvs) : bool := forallb (fun kv => igood (snd kv)) m.

Lemma vgood_inline items pre im dt d sp : vgood (VInline items pre im dt d sp) = items_good items.
Proof. reflexivity. Qed.

Lemma items_good_get m k k' it : items_good m = true -> kv_get m k = Some (k', it) -> igood it = true.
Proof.
  induction m as [|[k0 v0] m IH]; cbn [kv_get items_good forallb snd]; [discriminate|].
  intros H E. apply andb_true_iff in H as [H1 H2]. destruct (bytes_eqb _ _); [inversion E; subst; exact H1|].
  apply IH; assumption.
Qed.
Lemma items_good_push m k v : items_good m = true -> igood v = true -> items_good (kv_push m k v) = true.
Proof. intros H1 H2. unfold kv_push, items_good. rewrite forallb_app. cbn. rewrite H2. unfold items_good in H1. rewrite H1. reflexivity. Qed.
Lemma items_good_set m k v : items_good m = true -> igood v = true -> items_good (kv_set m k v) = true.
Proof.
  intros H1 H2. induction m as [|[k0 v0] m IH]; [reflexivity|]. cbn [kv_set items_good forallb snd] in *.
  apply andb_true_iff in H1 as [Ha Hb]. destruct (bytes_eqb _ _); cbn [forallb snd].
  - rewrite H2. exact Hb.
  - rewrite Ha. apply IH, Hb.
Qed.

(* inline_table.rs descend_path: `entry_format` never meets a non-value item *)
Lemma inline_insert_ok : forall path m dh pe k v,
  items_good m = true -> igood v = true ->
  match inline_insert m dh path pe k v with
  | COk m' => items_good m' = true | CErr _ => True | CPanic _ => False end.
Proof.
  induction path as [|pk ptl IH]; intros m dh pe k v Hm Hv; cbn [inline_insert].
  - destruct (Bool.eqb dh pe); [exact I|]. destruct (kv_get m (k_key k)); [exact I|].
    apply items_good_push; assumption.
  - destruct (kv_get m (k_key pk)) as [[k' it]|] eqn:G.
    + pose proof (items_good_get _ _ _ _ Hm G) as Hit. destruct it as [|val| |]; try discriminate Hit.
      destruct val as [s r d|vals tr c d sp|sub pre imp dt dec sp]; try exact I.
      destruct (negb imp); [exact I|]. cbn [igood] in Hit. rewrite vgood_inline in Hit.
      specialize (IH sub dt pe k v Hit Hv). destruct (inline_insert sub dt ptl pe k v); auto.
      apply items_good_set; [exact Hm|]. cbn [igood]. rewrite vgood_inline. exact IH.
    + specialize (IH [] true pe k v eq_refl Hv). destruct (inline_insert [] true ptl pe k v); auto.
      apply items_good_push; [exact Hm|]. cbn [igood]. rewrite vgood_inline. exact IH.
Qed.

Definition pair_good (x : list key * (key * item)) : Prop := igood (snd (snd x)) = true.

Lemma table_from_pairs_loop_d_ok : forall pairs m,
  items_good m = true -> Forall pair_good pairs ->
  match table_from_pairs_loop_d m pairs with
  | COk m' => items_good m' = true | CErr _ => True | CPanic _ => False end.
Proof.
  induction pairs as [|[path [k v]] tl IH]; intros m Hm Hp; cbn [table_from_pairs_loop_d]; [exact Hm|].
  inversion Hp as [|? ? Hx Htl]; subst. unfold pair_good in Hx; cbn [snd] in Hx.
  destruct (check_depth _); [exact I|].
  pose proof (inline_insert_ok path m false (match path with [] => true | _ => false end) k v Hm Hx) as H.
  destruct (inline_insert m false path _ k v) as [m'|c|st]; [apply IH; assumption|exact I|exact H].
Qed.

(* the span bookkeeping of dotted inline tables only rewrites spans *)
Lemma inline_set_spans_good : forall path m ve, items_good m = true -> items_good (inline_set_spans m path ve) = true.
Proof.
  induction path as [|k ptl IH]; intros m ve Hm; cbn [inline_set_spans]; [exact Hm|].
  destruct (kv_get m (k_key k)) as [[k' it]|] eqn:G; [|exact Hm].
  pose proof (items_good_get _ _ _ _ Hm G) as Hit. destruct it as [|val| |]; try exact Hm.
  destruct val as [s r d|vals tr c d sp|sub pre imp dt dec sp]; try exact Hm.
  cbn [igood] in Hit. rewrite vgood_inline in Hit.
  apply items_good_set; [exact Hm|]. cbn [igood]. rewrite vgood_inline. apply IH, Hit.
Qed.
Lemma inline_spans_pass_good : forall pairs m, items_good m = true -> items_good (inline_spans_pass m pairs) = true.
Proof.
  unfold inline_spans_pass. induction pairs as [|[path [k v]] tl IH]; intros m Hm; cbn [fold_left]; [exact Hm|].
  apply IH, inline_set_spans_good, Hm.
Qed.

Lemma table_from_pairs_ok pairs pre : Forall pair_good pairs ->
  match table_from_pairs pairs pre with
  | TmOk v => vgood v = true | TmErr _ => True | TmPanic _ => False end.
Proof.
  intro H. unfold table_from_pairs. pose proof (table_from_pairs_loop_d_ok pairs [] eq_refl H) as R.
  destruct (table_from_pairs_loop_d [] pairs); auto. rewrite vgood_inline. apply inline_spans_pass_good, R.
Qed.

Lemma vgood_decorate v p s : vgood (value_decorate v p s) = vgood v.
Proof. destruct v; reflexivity. Qed.
Lemma vgood_apply_raw v sp : vgood (apply_raw v sp) = vgood v.
Proof. unfold apply_raw. rewrite vgood_decorate. destruct v; reflexivity. Qed.

Lemma pop_key_some (p : list key) : p <> [] -> exists path k, pop_key p = Some (path, k).
Proof.
  intro H. unfold pop_key. destruct (rev p) as [|last rinit] eqn:R; [|eauto].
  apply (f_equal (@length key)) in R. rewrite rev_length in R. destruct p; [congruence|discriminate].
Qed.

(* ---- one level of the knot --------------------------------------------------------------------------- *)
Definition Vg (v : value) : Prop := vgood v = true.

Section Knot.
  Variable value_rec : parser value.
  Variable n : nat.
  Hypothesis Hm : mono value_rec.
  Hypothesis Hs : safe_on (shorter n) value_rec.
  Hypothesis Hv : valP Vg value_rec.

  Lemma array_value_mono : mono (array_value value_rec). Proof. unfold array_value. np. Qed.
  Lemma array_value_safe : safe_on (shorter n) (array_value value_rec). Proof. unfold array_value. np. Qed.
  Local Hint Resolve array_value_mono array_value_safe : np.

  Lemma array_values_mono : mono (array_values value_rec). Proof. unfold array_values. np. Qed.
  Lemma array_values_safe : safe_on (shorter n) (array_values value_rec). Proof. unfold array_values. np. Qed.
  Lemma array_values_val : valP Vg (array_values value_rec).
  Proof.
    unfold array_values. apply valP_bind. intros [c|]; [apply valP_ret; reflexivity|].
    apply valP_bind; intro vals. apply valP_bind; intro comma. apply valP_bind; intro tr.
    apply valP_ret. reflexivity.
  Qed.
  Local Hint Resolve array_values_mono array_values_safe : np.

  Lemma array_mono : mono (array value_rec). Proof. unfold array. np. Qed.
  Lemma array_safe : safe_on (shorter (S n)) (array value_rec).
  Proof. unfold array. apply safe_bind_shorter; np. Qed.
  Lemma array_val : valP Vg (array value_rec).
  Proof.
    unfold array. apply valP_bind; intros _. eapply valP_bind_val; [apply valP_cut_err, array_values_val|].
    intros a Ha. apply valP_bind; intros _. apply valP_ret, Ha.
  Qed.

  Definition inline_kv_rhs : parser ((N * N) * value * (N * N)) :=
    cut_err (context (byte_ KEYVAL_SEP) ;;;
             pre <- span_ ws ;; v <- value_rec ;; suf <- span_ ws ;; ret (pre, v, suf)).
  Lemma inline_kv_rhs_mono : mono inline_kv_rhs. Proof. unfold inline_kv_rhs. np. Qed.
  Lemma inline_kv_rhs_safe : safe_on (shorter n) inline_kv_rhs. Proof. unfold inline_kv_rhs. np. Qed.
  Lemma inline_kv_rhs_val : valP (fun x => Vg (snd (fst x))) inline_kv_rhs.
  Proof.
    unfold inline_kv_rhs. apply valP_cut_err. apply valP_bind; intros _. apply valP_bind; intro pre.
    eapply valP_bind_val; [exact Hv|]. intros v Hgv. apply valP_bind; intro suf. apply valP_ret. exact Hgv.
  Qed.
  Lemma inline_keyval_eq :
    inline_keyval value_rec =
    (kp <- key_ ;;
     '(pre, v, suf) <- inline_kv_rhs ;;
     match pop_key kp with
     | None => fun _ => Panic P_key_path_empty
     | Some (path, k) => ret (path, (k, IValue (value_decorate v (raw_with_span pre) (raw_with_span suf))))
     end).
  Proof. reflexivity. Qed.
  Lemma inline_keyval_mono : mono (inline_keyval value_rec).
  Proof. rewrite inline_keyval_eq. pose proof inline_kv_rhs_mono. np. Qed.
  Lemma inline_keyval_safe : safe_on (shorter n) (inline_keyval value_rec).
  Proof.
    rewrite inline_keyval_eq. eapply safe_bind_val; [np|np|np|apply key_val|]. intros kp Hkp.
    destruct (pop_key_some kp Hkp) as (path & k & ->).
    apply safe_bind; [np|apply inline_kv_rhs_mono|apply inline_kv_rhs_safe|]. intros [[pre v] suf]. np.
  Qed.
  Lemma inline_keyval_val : valP pair_good (inline_keyval value_rec).
  Proof.
    rewrite inline_keyval_eq. apply valP_bind; intro kp.
    eapply valP_bind_val; [apply inline_kv_rhs_val|]. intros [[pre v] suf] Hx. cbn [fst snd] in Hx.
    destruct (pop_key kp) as [[path k]|]; [|apply valP_const_panic]. apply valP_ret.
    unfold pair_good. cbn [snd igood]. rewrite vgood_decorate. exact Hx.
  Qed.
  Local Hint Resolve inline_keyval_mono inline_keyval_safe : np.

  Definition inline_kvs : parser (list (list key * (key * item)) * raw) :=
    kv <- separated0 (inline_keyval value_rec) (byte_ INLINE_TABLE_SEP) ;;
    p <- span_ ws ;;
    ret (kv, raw_with_span p).
  Lemma inline_kvs_mono : mono inline_kvs. Proof. unfold inline_kvs. np. Qed.
  Lemma inline_kvs_safe : safe_on (shorter n) inline_kvs. Proof. unfold inline_kvs. np. Qed.
  Lemma inline_kvs_val : valP (fun x => Forall pair_good (fst x)) inline_kvs.
  Proof.
    unfold inline_kvs. eapply valP_bind_val; [apply valP_separated0_all, inline_keyval_val|].
    intros kv Hkv. apply valP_bind; intro p. apply valP_ret. exact Hkv.
  Qed.
  Definition inline_body : parser value := try_map (fun '(kv, p) => table_from_pairs kv p) inline_kvs.
  Lemma inline_body_mono : mono inline_body. Proof. unfold inline_body. pose proof inline_kvs_mono. np. Qed.
  Lemma inline_body_safe : safe_on (shorter n) inline_body.
  Proof.
    unfold inline_body. eapply safe_try_map; [apply inline_kvs_safe|apply inline_kvs_val|].
    intros [kv p] Hkv s E. cbn [fst] in Hkv. pose proof (table_from_pairs_ok kv p Hkv) as R.
    rewrite E in R. exact R.
  Qed.
  Lemma inline_body_val : valP Vg inline_body.
  Proof.
    unfold inline_body. eapply valP_try_map; [apply inline_kvs_val|].
    intros [kv p] b Hkv E. cbn [fst] in Hkv. pose proof (table_from_pairs_ok kv p Hkv) as R.
    rewrite E in R. exact R.
  Qed.
  Lemma inline_table_eq :
    inline_table value_rec =
    (byte_ INLINE_TABLE_OPEN ;;; t <- cut_err inline_body ;; context (cut_err (byte_ INLINE_TABLE_CLOSE)) ;;; ret t).
  Proof. reflexivity. Qed.
  Lemma inline_table_mono : mono (inline_table value_rec).
  Proof. rewrite inline_table_eq. pose proof inline_body_mono. np. Qed.
  Lemma inline_table_safe : safe_on (shorter (S n)) (inline_table value_rec).
  Proof.
    rewrite inline_table_eq. pose proof inline_body_mono. pose proof inline_body_safe.
    apply safe_bind_shorter; np.
  Qed.
  Lemma inline_table_val : valP Vg (inline_table value_rec).
  Proof.
    rewrite inline_table_eq. apply valP_bind; intros _.
    eapply valP_bind_val; [apply valP_cut_err, inline_body_val|].
    intros a Ha. apply valP_bind; intros _. apply valP_ret, Ha.
  Qed.

  Lemma value_body_mono : mono (value_body value_rec).
  Proof. unfold value_body. pose proof array_mono. pose proof inline_table_mono. np. Qed.
  Lemma value_body_safe : safe_on (shorter (S n)) (value_body value_rec).
  Proof.
    unfold value_body. pose proof array_mono. pose proof inline_table_mono.
    pose proof array_safe. pose proof inline_table_safe. np.
  Qed.
  Lemma valP_scalar {A} (p : parser A) (f : A -> scalar) : valP Vg (pmap (fun x => scalar_value (f x)) p).
  Proof. eapply valP_pmap; [apply valP_true|]. reflexivity. Qed.
  Lemma value_body_val : valP Vg (value_body value_rec).
  Proof.
    unfold value_body. apply valP_bind; intro b.
    repeat match goal with |- valP _ (if ?c then _ else _) => destruct c end;
      repeat apply valP_context; repeat apply valP_alt;
      try (apply valP_scalar); try apply valP_fail.
    - apply valP_check_recursion, array_val.
    - apply valP_check_recursion, inline_table_val.
  Qed.

  Lemma value_step_mono : mono (value_step value_rec).
  Proof. unfold value_step. pose proof value_body_mono. np. Qed.
  Lemma value_step_safe : safe_on (shorter (S n)) (value_step value_rec).
  Proof. unfold value_step. pose proof value_body_safe. np. Qed.
  Lemma value_step_val : valP Vg (value_step value_rec).
  Proof.
    unfold value_step. eapply valP_pmap; [apply valP_with_span, value_body_val|].
    intros [v sp] H. cbn [fst] in H. unfold Vg. rewrite vgood_apply_raw. exact H.
  Qed.
End Knot.

(* ---- tying the knot: induction on the fuel ------------------------------------------------------------ *)
Lemma value_f_all n : mono (value_f n) /\ safe_on (shorter n) (value_f n) /\ valP Vg (value_f n).
Proof.
  induction n as [|n (IH1 & IH2 & IH3)].
  - cbn [value_f]. repeat apply conj; [np| |apply valP_const_panic].
    intros i Hi. unfold shorter in Hi. lia.
  - change (value_f (S n)) with (value_step (value_f n)). repeat apply conj.
    + apply value_step_mono; assumption.
    + apply value_step_safe; assumption.
    + apply value_step_val; assumption.
Qed.

Lemma value_mono : mono value_.
Proof. intros i a i' H. eapply (proj1 (value_f_all _)), H. Qed.
(* fuel_sufficient for value_: S (length text) levels of nesting are never exhausted *)
Lemma value_safe : safe value_.
Proof. intros i _. unfold value_. apply (proj1 (proj2 (value_f_all _))). unfold shorter. lia. Qed.
Lemma value_val : valP Vg value_.
Proof. intros i a i' H. eapply (proj2 (proj2 (value_f_all _))), H. Qed.
#[export] Hint Resolve value_mono value_safe : np.
