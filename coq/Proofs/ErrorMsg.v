(* Proofs/ErrorMsg.v — lemmas behind Props/C15.v, part 3: which errors of the document parser
   can carry an empty message.

   An error `e` is LABELLED when winnow's ContextError renders a non-empty message for it:
   it has a cause (an external error) or some StrContext was attached.  The theorem is: an
   error of `parse_document` is labelled, or a bare CR (0x0D not followed by 0x0A) sits at the
   error offset or right before it.  The second case is the known finding
   C15-empty-message-bare-cr (refuted witnesses at the end).

   Method: two predicates on parsers, relative to the document s (the input invariant `wf s`
   of Proofs/ErrorRange.v ties every cursor to s):
     C p : every Cut error of p is good          B p : every Bt error of p is good
   where good e i' := labelled e \/ bare_cr_near s (pos i').  Rules for every combinator, then
   the grammar top-down.  Errors below a `.context(..)` need no analysis at all. *)
From Coq Require Import List Bool Arith NArith ZArith Lia.
From Coq.Strings Require Import Byte.
From TV Require Import Base.Prelude Base.Utf8 Base.Winnow Gen.Consts.
From TV Require Import Model.Trivia Model.Strings Model.Datetime Model.Numbers Model.Tree Model.Parse Model.Document.
From TV Require Import Model.Error Proofs.ErrorRange.
Import ListNotations.

Ltac nope := first [ discriminate | let X := fresh in intro X; discriminate X ].

Definition labelled (e : perr) : Prop := e_cause e <> None \/ e_ctx e = true.

Lemma labelled_message e : labelled e <-> message_empty e = false.
Proof.
  unfold labelled, message_empty. destruct (e_cause e); destruct (e_ctx e); cbn; split; intro H;
    try reflexivity; try discriminate; try (left; discriminate); try (right; reflexivity).
  destruct H as [H|H]; [congruence|discriminate].
Qed.

(* the decidable classifier of the known finding (same definition as lib/props/c15.py) *)
Definition bare_cr_b (s : bytes) (j : nat) : bool :=
  match nth_error s j with
  | Some b => byte_eqb b x0d
              && negb (match nth_error s (S j) with Some c => byte_eqb c x0a | None => false end)
  | None => false
  end.

Definition bare_cr_near (s : bytes) (at_ : N) : bool :=
  bare_cr_b s (N.to_nat at_)
  || (if (at_ =? 0)%N then false else bare_cr_b s (N.to_nat at_ - 1)).

Section Msg.
Variable s : bytes.

Definition good (e : perr) (i : input) : Prop := labelled e \/ bare_cr_near s (pos i) = true.

Definition C {A} (p : parser A) : Prop := forall i e i', wf s i -> p i = Cut e i' -> good e i'.
Definition B {A} (p : parser A) : Prop := forall i e i', wf s i -> p i = Bt e i' -> good e i'.
Definition NC {A} (p : parser A) : Prop := forall i e i', p i <> Cut e i'.

Lemma good_ctx c i : good (mkErr c true) i.
Proof. left. right. reflexivity. Qed.
Lemma good_cause c i : good (err_of c) i.
Proof. left. left. nope. Qed.

Lemma NC_C {A} (p : parser A) : NC p -> C p.
Proof. intros H i e i' _ E. exfalso. exact (H _ _ _ E). Qed.

(* ---- never-cutting primitives ------------------------------------------------------ *)
Lemma NC_ret {A} (a : A) : NC (ret a).
Proof. intros i e i'. nope. Qed.
Lemma NC_fail {A} : NC (@fail A).
Proof. intros i e i'. nope. Qed.
Lemma NC_any : NC any.
Proof. intros i e i'. unfold any. destruct (rest i); nope. Qed.
Lemma NC_one_of f : NC (one_of f).
Proof. intros i e i'. unfold one_of. destruct (rest i); [nope|]. destruct (f b); nope. Qed.
Lemma NC_lit l : NC (lit l).
Proof. intros i e i'. unfold lit. destruct (strip_prefix l (rest i)); nope. Qed.
Lemma NC_take_while_mn m n f : NC (take_while_mn m n f).
Proof. intros i e i'. unfold take_while_mn. destruct (Nat.ltb _ m); nope. Qed.
Lemma NC_take_n n : NC (take_n n).
Proof. intros i e i'. unfold take_n. destruct (Nat.ltb _ n); nope. Qed.
Lemma NC_eof : NC eof.
Proof. intros i e i'. unfold eof. destruct (rest i); nope. Qed.
Lemma NC_pmap {A B'} (f : A -> B') p : NC p -> NC (pmap f p).
Proof. intros H i e i'. unfold pmap. destruct (p i) eqn:E; try nope. exfalso. exact (H _ _ _ E). Qed.
Lemma NC_opt {A} (p : parser A) : NC p -> NC (opt p).
Proof. intros H i e i'. unfold opt. destruct (p i) eqn:E; try nope. exfalso. exact (H _ _ _ E). Qed.
Lemma NC_bind {A B'} (p : parser A) (f : A -> parser B') : NC p -> (forall a, NC (f a)) -> NC (bind p f).
Proof.
  intros Hp Hf i e i'. unfold bind. destruct (p i) eqn:E; try nope.
  - apply Hf.
  - exfalso. exact (Hp _ _ _ E).
Qed.
Lemma NC_alt {A} (p q : parser A) : NC p -> NC q -> NC (alt p q).
Proof.
  intros Hp Hq i e i'. unfold alt. destruct (p i) eqn:E; try nope.
  - apply Hq.
  - exfalso. exact (Hp _ _ _ E).
Qed.
Lemma NC_unchecked_utf8 w p : NC p -> NC (unchecked_utf8 w p).
Proof.
  intros H i e i'. unfold unchecked_utf8. destruct (p i) eqn:E; try nope.
  - destruct (utf8_valid_b a); nope.
  - exfalso. exact (H _ _ _ E).
Qed.
Lemma NC_byte x : NC (byte_ x). Proof. apply NC_one_of. Qed.
Lemma NC_none_of f : NC (none_of f). Proof. apply NC_one_of. Qed.
Lemma NC_pvoid {A} (p : parser A) : NC p -> NC (pvoid p). Proof. apply NC_pmap. Qed.
Lemma NC_pvalue {A B'} (b : B') (p : parser A) : NC p -> NC (pvalue b p). Proof. apply NC_pmap. Qed.
Lemma NC_take_while0 f : NC (take_while0 f). Proof. apply NC_take_while_mn. Qed.
Lemma NC_take_while1 f : NC (take_while1 f). Proof. apply NC_take_while_mn. Qed.

(* ---- C rules ----------------------------------------------------------------------- *)
Lemma C_panic {A} st : C (fun _ => @Panic A st).
Proof. intros i e i' _ E. nope. Qed.

Lemma C_bind {A B'} (p : parser A) (f : A -> parser B') :
  pres s p -> C p -> (forall a, C (f a)) -> C (bind p f).
Proof.
  intros Hw Hp Hf i e i' Hi. unfold bind. pose proof (Hw i Hi) as W.
  destruct (p i) as [a i1|e1 i1|e1 i1|st] eqn:E; try nope.
  - intro E2. eapply Hf; [exact W|exact E2].
  - intro E2. injection E2 as <- <-. eapply Hp; eassumption.
Qed.

Lemma C_pmap {A B'} (f : A -> B') p : C p -> C (pmap f p).
Proof.
  intros Hp i e i' Hi. unfold pmap. destruct (p i) eqn:E; try nope.
  intro E2. injection E2 as <- <-. eapply Hp; eassumption.
Qed.
Lemma C_pvalue {A B'} (b : B') (p : parser A) : C p -> C (pvalue b p). Proof. apply C_pmap. Qed.
Lemma C_pvoid {A} (p : parser A) : C p -> C (pvoid p). Proof. apply C_pmap. Qed.

Lemma C_peek {A} (p : parser A) : NC p -> C (peek p).
Proof.
  intros H i e i' _. unfold peek. destruct (p i) eqn:E; try nope. exfalso. exact (H _ _ _ E).
Qed.

Lemma C_opt {A} (p : parser A) : C p -> C (opt p).
Proof.
  intros Hp i e i' Hi. unfold opt. destruct (p i) eqn:E; try nope.
  intro E2. injection E2 as <- <-. eapply Hp; eassumption.
Qed.

Lemma C_cut_err {A} (p : parser A) : C p -> B p -> C (cut_err p).
Proof.
  intros Hc Hb i e i' Hi. unfold cut_err. destruct (p i) eqn:E; try nope.
  - intro E2. injection E2 as <- <-. eapply Hb; eassumption.
  - intro E2. injection E2 as <- <-. eapply Hc; eassumption.
Qed.

Lemma C_alt {A} (p q : parser A) : C p -> C q -> C (alt p q).
Proof.
  intros Hp Hq i e i' Hi. unfold alt. destruct (p i) eqn:E; try nope.
  - intro E2. eapply Hq; eassumption.
  - intro E2. injection E2 as <- <-. eapply Hp; eassumption.
Qed.

Lemma C_context {A} (p : parser A) : C (context p).
Proof.
  intros i e i' Hi. unfold context. destruct (p i); try nope.
  intro E2. injection E2 as <- <-. apply good_ctx.
Qed.

Lemma C_verify {A} (f : A -> bool) p : C p -> C (verify f p).
Proof.
  intros Hp i e i' Hi. unfold verify. destruct (p i) eqn:E; try nope.
  - destruct (f a); nope.
  - intro E2. injection E2 as <- <-. eapply Hp; eassumption.
Qed.

Lemma C_verify_map {A B'} (f : A -> option B') p : C p -> C (verify_map f p).
Proof.
  intros Hp i e i' Hi. unfold verify_map. destruct (p i) eqn:E; try nope.
  - destruct (f a); nope.
  - intro E2. injection E2 as <- <-. eapply Hp; eassumption.
Qed.

Lemma C_try_map {A B'} (f : A -> tm B') p : C p -> C (try_map f p).
Proof.
  intros Hp i e i' Hi. unfold try_map. destruct (p i) eqn:E; try nope.
  - destruct (f a); nope.
  - intro E2. injection E2 as <- <-. eapply Hp; eassumption.
Qed.

Lemma C_span {A} (p : parser A) : C p -> C (span_ p).
Proof.
  intros Hp i e i' Hi. unfold span_. destruct (p i) eqn:E; try nope.
  intro E2. injection E2 as <- <-. eapply Hp; eassumption.
Qed.
Lemma C_with_span {A} (p : parser A) : C p -> C (with_span p).
Proof.
  intros Hp i e i' Hi. unfold with_span. destruct (p i) eqn:E; try nope.
  intro E2. injection E2 as <- <-. eapply Hp; eassumption.
Qed.
Lemma C_taken {A} (p : parser A) : C p -> C (taken p).
Proof.
  intros Hp i e i' Hi. unfold taken. destruct (p i) eqn:E; try nope.
  intro E2. injection E2 as <- <-. eapply Hp; eassumption.
Qed.

Lemma C_and_then {A B'} (p : parser A) (inner : A -> sub B') :
  C p -> (forall a e, inner a = SubCut e -> labelled e) -> C (and_then p inner).
Proof.
  intros Hp Hin i e i' Hi. unfold and_then. destruct (p i) eqn:E; try nope.
  - destruct (inner a) eqn:Ei; try nope. intro E2. injection E2 as <- <-.
    left. eapply Hin; exact Ei.
  - intro E2. injection E2 as <- <-. eapply Hp; eassumption.
Qed.

Lemma C_unchecked_utf8 w p : C p -> C (unchecked_utf8 w p).
Proof.
  intros Hp i e i' Hi. unfold unchecked_utf8. destruct (p i) eqn:E; try nope.
  - destruct (utf8_valid_b a); nope.
  - intro E2. injection E2 as <- <-. eapply Hp; eassumption.
Qed.

Lemma C_preceded {A B'} (p : parser A) (q : parser B') : pres s p -> C p -> C q -> C (preceded p q).
Proof. intros. unfold preceded. apply C_bind; auto. Qed.
Lemma C_terminated {A B'} (p : parser A) (q : parser B') : pres s p -> pres s q -> C p -> C q -> C (terminated p q).
Proof.
  intros. unfold terminated. apply C_bind; auto. intro a. apply C_bind; auto.
  intro. apply NC_C, NC_ret.
Qed.
Lemma C_delimited {A B' D} (p : parser A) (q : parser B') (r : parser D) :
  pres s p -> pres s q -> pres s r -> C p -> C q -> C r -> C (delimited p q r).
Proof.
  intros. unfold delimited. apply C_bind; auto. intro. apply C_bind; auto. intro.
  apply C_bind; auto. intro. apply NC_C, NC_ret.
Qed.
Lemma C_pair {A B'} (p : parser A) (q : parser B') : pres s p -> pres s q -> C p -> C q -> C (pair_ p q).
Proof.
  intros. unfold pair_. apply C_bind; auto. intro. apply C_bind; auto. intro. apply NC_C, NC_ret.
Qed.

Lemma C_repeat0_f {A} fuel (p : parser A) : pres s p -> C p -> forall acc, C (repeat0_f fuel p acc).
Proof.
  intros Hw Hp. induction fuel as [|f IH]; intros acc i e i' Hi; cbn [repeat0_f]; [nope|].
  pose proof (Hw i Hi) as W. destruct (p i) as [a i1|e1 i1|e1 i1|st] eqn:E; try nope.
  - destruct (Nat.eqb (length (rest i1)) (length (rest i))); [nope|]. apply IH; exact W.
  - intro E2. injection E2 as <- <-. eapply Hp; eassumption.
Qed.
Lemma C_repeat0 {A} (p : parser A) : pres s p -> C p -> C (repeat0 p).
Proof. intros Hw Hp i e i' Hi. unfold repeat0. apply C_repeat0_f; assumption. Qed.
Lemma C_repeat1 {A} (p : parser A) : pres s p -> C p -> C (repeat1 p).
Proof.
  intros Hw Hp i e i' Hi. unfold repeat1. pose proof (Hw i Hi) as W.
  destruct (p i) as [a i1|e1 i1|e1 i1|st] eqn:E; try nope.
  - apply C_repeat0_f; assumption.
  - intro E2. injection E2 as <- <-. eapply Hp; eassumption.
Qed.

Lemma C_separated_loop {A S} fuel (p : parser A) (sep : parser S) :
  pres s p -> pres s sep -> C p -> C sep -> forall acc, C (separated_loop fuel p sep acc).
Proof.
  intros Hwp Hws Hp Hs. induction fuel as [|f IH]; intros acc i e i' Hi; cbn [separated_loop]; [nope|].
  pose proof (Hws i Hi) as W1. destruct (sep i) as [x i1|e1 i1|e1 i1|st] eqn:E1; try nope.
  - destruct (Nat.eqb (length (rest i1)) (length (rest i))); [nope|].
    pose proof (Hwp i1 W1) as W2. destruct (p i1) as [a i2|e2 i2|e2 i2|st] eqn:E2; try nope.
    + apply IH; exact W2.
    + intro E3. injection E3 as <- <-. eapply Hp; eassumption.
  - intro E3. injection E3 as <- <-. eapply Hs; eassumption.
Qed.
Lemma C_separated0 {A S} (p : parser A) (sep : parser S) :
  pres s p -> pres s sep -> C p -> C sep -> C (separated0 p sep).
Proof.
  intros Hwp Hws Hp Hs i e i' Hi. unfold separated0. pose proof (Hwp i Hi) as W.
  destruct (p i) as [a i1|e1 i1|e1 i1|st] eqn:E; try nope.
  - apply C_separated_loop; assumption.
  - intro E2. injection E2 as <- <-. eapply Hp; eassumption.
Qed.
Lemma C_separated1 {A S} (p : parser A) (sep : parser S) :
  pres s p -> pres s sep -> C p -> C sep -> C (separated1 p sep).
Proof.
  intros Hwp Hws Hp Hs i e i' Hi. unfold separated1. pose proof (Hwp i Hi) as W.
  destruct (p i) as [a i1|e1 i1|e1 i1|st] eqn:E; try nope.
  - apply C_separated_loop; assumption.
  - intro E2. injection E2 as <- <-. eapply Hp; eassumption.
Qed.

Lemma C_check_recursion {A} (p : parser A) : C p -> C (check_recursion p).
Proof.
  intros Hp i e i' Hi. unfold check_recursion. cbv zeta.
  destruct (Nat.leb LIMIT (depth (set_depth (S (depth i)) i))).
  - intro E. injection E as <- <-. apply good_cause.
  - destruct (p (set_depth (S (depth i)) i)) eqn:E; try nope.
    + destruct (depth i0); nope.
    + intro E2. injection E2 as <- <-. eapply Hp; [|exact E]. apply wf_set_depth; exact Hi.
Qed.

(* ---- B rules ----------------------------------------------------------------------- *)
Lemma B_ret {A} (a : A) : B (ret a).
Proof. intros i e i' _ E. nope. Qed.
Lemma B_panic {A} st : B (fun _ => @Panic A st).
Proof. intros i e i' _ E. nope. Qed.

Lemma B_bind {A B'} (p : parser A) (f : A -> parser B') :
  pres s p -> B p -> (forall a, B (f a)) -> B (bind p f).
Proof.
  intros Hw Hp Hf i e i' Hi. unfold bind. pose proof (Hw i Hi) as W.
  destruct (p i) as [a i1|e1 i1|e1 i1|st] eqn:E; try nope.
  - intro E2. eapply Hf; [exact W|exact E2].
  - intro E2. injection E2 as <- <-. eapply Hp; eassumption.
Qed.

Lemma B_pmap {A B'} (f : A -> B') p : B p -> B (pmap f p).
Proof.
  intros Hp i e i' Hi. unfold pmap. destruct (p i) eqn:E; try nope.
  intro E2. injection E2 as <- <-. eapply Hp; eassumption.
Qed.
Lemma B_pvalue {A B'} (b : B') (p : parser A) : B p -> B (pvalue b p). Proof. apply B_pmap. Qed.
Lemma B_pvoid {A} (p : parser A) : B p -> B (pvoid p). Proof. apply B_pmap. Qed.

Lemma B_opt {A} (p : parser A) : B (opt p).
Proof. intros i e i' _. unfold opt. destruct (p i); nope. Qed.

Lemma B_cut_err {A} (p : parser A) : B (cut_err p).
Proof. intros i e i' _. unfold cut_err. destruct (p i); nope. Qed.

Lemma B_alt {A} (p q : parser A) : B q -> B (alt p q).
Proof.
  intros Hq i e i' Hi. unfold alt. destruct (p i) eqn:E; try nope.
  intro E2. eapply Hq; eassumption.
Qed.

Lemma B_context {A} (p : parser A) : B (context p).
Proof.
  intros i e i' Hi. unfold context. destruct (p i); try nope.
  intro E2. injection E2 as <- <-. apply good_ctx.
Qed.

Lemma B_try_map {A B'} (f : A -> tm B') p : B p -> B (try_map f p).
Proof.
  intros Hp i e i' Hi. unfold try_map. destruct (p i) eqn:E; try nope.
  - destruct (f a); try nope. intro E2. injection E2 as <- <-. apply good_cause.
  - intro E2. injection E2 as <- <-. eapply Hp; eassumption.
Qed.

Lemma B_span {A} (p : parser A) : B p -> B (span_ p).
Proof.
  intros Hp i e i' Hi. unfold span_. destruct (p i) eqn:E; try nope.
  intro E2. injection E2 as <- <-. eapply Hp; eassumption.
Qed.
Lemma B_with_span {A} (p : parser A) : B p -> B (with_span p).
Proof.
  intros Hp i e i' Hi. unfold with_span. destruct (p i) eqn:E; try nope.
  intro E2. injection E2 as <- <-. eapply Hp; eassumption.
Qed.

Lemma B_and_then {A B'} (p : parser A) (inner : A -> sub B') :
  B p -> (forall a e, inner a = SubBt e -> labelled e) -> B (and_then p inner).
Proof.
  intros Hp Hin i e i' Hi. unfold and_then. destruct (p i) eqn:E; try nope.
  - destruct (inner a) eqn:Ei; try nope. intro E2. injection E2 as <- <-.
    left. eapply Hin; exact Ei.
  - intro E2. injection E2 as <- <-. eapply Hp; eassumption.
Qed.

Lemma B_take_while0 f : B (take_while0 f).
Proof. intros i e i' _. unfold take_while0, take_while_mn. cbn. nope. Qed.

Lemma B_unchecked_utf8 w p : B p -> B (unchecked_utf8 w p).
Proof.
  intros Hp i e i' Hi. unfold unchecked_utf8. destruct (p i) eqn:E; try nope.
  - destruct (utf8_valid_b a); nope.
  - intro E2. injection E2 as <- <-. eapply Hp; eassumption.
Qed.

Lemma B_repeat0 {A} (p : parser A) : B (repeat0 p).
Proof.
  intros i e i' _. unfold repeat0. generalize (@nil A). generalize (S (length (rest i))).
  intro fuel. revert i. induction fuel as [|f IH]; intros i acc; cbn [repeat0_f]; [nope|].
  destruct (p i); try nope. destruct (Nat.eqb _ _); [nope|]. apply IH.
Qed.

Lemma B_separated_loop {A S} fuel (p : parser A) (sep : parser S) acc i e i' :
  separated_loop fuel p sep acc i <> Bt e i'.
Proof.
  revert acc i. induction fuel as [|f IH]; intros acc i; cbn [separated_loop]; [nope|].
  destruct (sep i); try nope. destruct (Nat.eqb _ _); [nope|].
  destruct (p i0); try nope. apply IH.
Qed.
Lemma B_separated0 {A S} (p : parser A) (sep : parser S) : B (separated0 p sep).
Proof.
  intros i e i' _. unfold separated0. destruct (p i); try nope. apply B_separated_loop.
Qed.
Lemma B_separated1 {A S} (p : parser A) (sep : parser S) : B p -> B (separated1 p sep).
Proof.
  intros Hp i e i' Hi. unfold separated1. destruct (p i) eqn:E; try nope.
  - apply B_separated_loop.
  - intro E2. injection E2 as <- <-. eapply Hp; eassumption.
Qed.

Lemma B_check_recursion {A} (p : parser A) : B p -> B (check_recursion p).
Proof.
  intros Hp i e i' Hi. unfold check_recursion. cbv zeta.
  destruct (Nat.leb LIMIT (depth (set_depth (S (depth i)) i))); [nope|].
  destruct (p (set_depth (S (depth i)) i)) eqn:E; try nope.
  - destruct (depth i0); nope.
  - intro E2. injection E2 as <- <-. eapply Hp; [|exact E]. apply wf_set_depth; exact Hi.
Qed.

End Msg.

Global Hint Resolve NC_ret NC_fail NC_any NC_one_of NC_lit NC_take_while_mn NC_take_n NC_eof NC_pmap NC_opt
  NC_bind NC_alt NC_unchecked_utf8 NC_byte NC_none_of NC_pvoid NC_pvalue NC_take_while0 NC_take_while1 : nc.

(* one syntactic step; `C`-goals may turn into `B`-goals below cut_err *)
Ltac msg_step :=
  lazymatch goal with
  | |- C _ (context _) => apply C_context
  | |- B _ (context _) => apply B_context
  | |- C _ (bind _ _) => apply C_bind; [solve [pres_auto] | | intro; cbv beta]
  | |- B _ (bind _ _) => apply B_bind; [solve [pres_auto] | | intro; cbv beta]
  | |- C _ (match ?x with _ => _ end) => destruct x
  | |- B _ (match ?x with _ => _ end) => destruct x
  | |- C _ (fun _ => Panic _) => apply C_panic
  | |- B _ (fun _ => Panic _) => apply B_panic
  | |- B _ (ret _) => apply B_ret
  | |- C _ (pmap _ _) => apply C_pmap
  | |- B _ (pmap _ _) => apply B_pmap
  | |- C _ (pvalue _ _) => apply C_pvalue
  | |- B _ (pvalue _ _) => apply B_pvalue
  | |- C _ (pvoid _) => apply C_pvoid
  | |- B _ (pvoid _) => apply B_pvoid
  | |- C _ (peek _) => apply C_peek; solve [auto 10 with nc]
  | |- C _ (opt _) => apply C_opt
  | |- B _ (opt _) => apply B_opt
  | |- C _ (cut_err _) => apply C_cut_err
  | |- B _ (cut_err _) => apply B_cut_err
  | |- C _ (alt _ _) => apply C_alt
  | |- B _ (alt _ _) => apply B_alt
  | |- C _ (verify _ _) => apply C_verify
  | |- C _ (verify_map _ _) => apply C_verify_map
  | |- C _ (try_map _ _) => apply C_try_map
  | |- B _ (try_map _ _) => apply B_try_map
  | |- C _ (span_ _) => apply C_span
  | |- B _ (span_ _) => apply B_span
  | |- C _ (with_span _) => apply C_with_span
  | |- B _ (with_span _) => apply B_with_span
  | |- C _ (taken _) => apply C_taken
  | |- C _ (unchecked_utf8 _ _) => apply C_unchecked_utf8
  | |- B _ (unchecked_utf8 _ _) => apply B_unchecked_utf8
  | |- C _ (preceded _ _) => apply C_preceded; [solve [pres_auto] | | ]
  | |- C _ (terminated _ _) => apply C_terminated; [solve [pres_auto] | solve [pres_auto] | | ]
  | |- C _ (delimited _ _ _) => apply C_delimited; [solve [pres_auto] | solve [pres_auto] | solve [pres_auto] | | | ]
  | |- C _ (pair_ _ _) => apply C_pair; [solve [pres_auto] | solve [pres_auto] | | ]
  | |- C _ (repeat0 _) => apply C_repeat0; [solve [pres_auto] | ]
  | |- B _ (repeat0 _) => apply B_repeat0
  | |- C _ (repeat1 _) => apply C_repeat1; [solve [pres_auto] | ]
  | |- C _ (separated0 _ _) => apply C_separated0; [solve [pres_auto] | solve [pres_auto] | | ]
  | |- B _ (separated0 _ _) => apply B_separated0
  | |- C _ (separated1 _ _) => apply C_separated1; [solve [pres_auto] | solve [pres_auto] | | ]
  | |- B _ (separated1 _ _) => apply B_separated1
  | |- C _ (check_recursion _) => apply C_check_recursion
  | |- B _ (check_recursion _) => apply B_check_recursion
  | |- B _ (take_while0 _) => apply B_take_while0
  | |- C _ _ => first [ solve [auto 10 with msg] | apply NC_C; solve [auto 10 with nc] ]
  | |- B _ _ => solve [auto 10 with msg]
  end.
Ltac msg_auto := repeat msg_step.
