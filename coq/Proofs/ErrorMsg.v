(* Proofs/ErrorMsg.v — lemmas behind Props/C15.v, part 3: which errors of the document parser
   can carry an empty message.

   An error `e` is LABELLED when winnow's ContextError renders a non-empty message for it:
   it has a cause (an external error) or some StrContext was attached.  The theorem is: an
   error of `parse_document` is labelled, or a bare CR (0x0D not followed by 0x0A) sits at the
   error offset or right before it.  The second case is the known finding
   C15-empty-message-bare-cr (refuted witnesses at the end).

   Method: two predicates on parsers, relative to the document s (the input invariant `wf s`
   of Proofs/ErrorRange.v ties every cursor to s):
     C p : every Cut error of p is good          B p : every Bt error of p is good
   where good e i' := labelled e \/ bare_cr_near s (pos i').  Rules for every combinator, then
   the grammar top-down.  Errors below a `.context(..)` need no analysis at all. *)
From Coq Require Import List Bool Arith NArith ZArith Lia.
From Coq.Strings Require Import Byte.
From TV Require Import Base.Prelude Base.Utf8 Base.Winnow Gen.Consts.
From TV Require Import Model.Trivia Model.Strings Model.Datetime Model.Numbers Model.Tree Model.Parse Model.Document.
From TV Require Import Model.Error Spec.Position Proofs.ErrorPos Proofs.ErrorRange.
Import ListNotations.

Ltac nope := first [ discriminate | let X := fresh in intro X; discriminate X ].

Definition labelled (e : perr) : Prop := e_cause e <> None \/ e_ctx e = true.

Lemma labelled_message e : labelled e <-> message_empty e = false.
Proof.
  unfold labelled, message_empty. destruct (e_cause e); destruct (e_ctx e); cbn; split; intro H;
    try reflexivity; try discriminate; try (left; discriminate); try (right; reflexivity).
  destruct H as [H|H]; [congruence|discriminate].
Qed.

(* the decidable classifier of the known finding (same definition as lib/props/c15.py) *)
Definition bare_cr_b (s : bytes) (j : nat) : bool :=
  match nth_error s j with
  | Some b => byte_eqb b x0d
              && negb (match nth_error s (S j) with Some c => byte_eqb c x0a | None => false end)
  | None => false
  end.

Definition bare_cr_near (s : bytes) (at_ : N) : bool :=
  bare_cr_b s (N.to_nat at_)
  || (if (at_ =? 0)%N then false else bare_cr_b s (N.to_nat at_ - 1)).

Section Msg.
Variable s : bytes.

Definition good (e : perr) (i : input) : Prop := labelled e \/ bare_cr_near s (pos i) = true.

Definition C {A} (p : parser A) : Prop := forall i e i', wf s i -> p i = Cut e i' -> good e i'.
Definition B {A} (p : parser A) : Prop := forall i e i', wf s i -> p i = Bt e i' -> good e i'.
Definition NC {A} (p : parser A) : Prop := forall i e i', p i <> Cut e i'.

Lemma good_ctx c i : good (mkErr c true) i.
Proof. left. right. reflexivity. Qed.
Lemma good_cause c i : good (err_of c) i.
Proof. left. left. nope. Qed.

Lemma NC_C {A} (p : parser A) : NC p -> C p.
Proof. intros H i e i' _ E. exfalso. exact (H _ _ _ E). Qed.

(* ---- never-cutting primitives ------------------------------------------------------ *)
Lemma NC_ret {A} (a : A) : NC (ret a).
Proof. intros i e i'. nope. Qed.
Lemma NC_fail {A} : NC (@fail A).
Proof. intros i e i'. nope. Qed.
Lemma NC_any : NC any.
Proof. intros i e i'. unfold any. destruct (rest i); nope. Qed.
Lemma NC_one_of f : NC (one_of f).
Proof. intros i e i'. unfold one_of. destruct (rest i); [nope|]. destruct (f b); nope. Qed.
Lemma NC_lit l : NC (lit l).
Proof. intros i e i'. unfold lit. destruct (strip_prefix l (rest i)); nope. Qed.
Lemma NC_take_while_mn m n f : NC (take_while_mn m n f).
Proof. intros i e i'. unfold take_while_mn. destruct (Nat.ltb _ m); nope. Qed.
Lemma NC_take_n n : NC (take_n n).
Proof. intros i e i'. unfold take_n. destruct (Nat.ltb _ n); nope. Qed.
Lemma NC_eof : NC eof.
Proof. intros i e i'. unfold eof. destruct (rest i); nope. Qed.
Lemma NC_pmap {A B'} (f : A -> B') p : NC p -> NC (pmap f p).
Proof. intros H i e i'. unfold pmap. destruct (p i) eqn:E; try nope. exfalso. exact (H _ _ _ E). Qed.
Lemma NC_opt {A} (p : parser A) : NC p -> NC (opt p).
Proof. intros H i e i'. unfold opt. destruct (p i) eqn:E; try nope. exfalso. exact (H _ _ _ E). Qed.
Lemma NC_bind {A B'} (p : parser A) (f : A -> parser B') : NC p -> (forall a, NC (f a)) -> NC (bind p f).
Proof.
  intros Hp Hf i e i'. unfold bind. destruct (p i) eqn:E; try nope.
  - apply Hf.
  - exfalso. exact (Hp _ _ _ E).
Qed.
Lemma NC_alt {A} (p q : parser A) : NC p -> NC q -> NC (alt p q).
Proof.
  intros Hp Hq i e i'. unfold alt. destruct (p i) eqn:E; try nope.
  - apply Hq.
  - exfalso. exact (Hp _ _ _ E).
Qed.
Lemma NC_unchecked_utf8 w p : NC p -> NC (unchecked_utf8 w p).
Proof.
  intros H i e i'. unfold unchecked_utf8. destruct (p i) eqn:E; try nope.
  - destruct (utf8_valid_b a); nope.
  - exfalso. exact (H _ _ _ E).
Qed.
Lemma NC_byte x : NC (byte_ x). Proof. apply NC_one_of. Qed.
Lemma NC_none_of f : NC (none_of f). Proof. apply NC_one_of. Qed.
Lemma NC_pvoid {A} (p : parser A) : NC p -> NC (pvoid p). Proof. apply NC_pmap. Qed.
Lemma NC_pvalue {A B'} (b : B') (p : parser A) : NC p -> NC (pvalue b p). Proof. apply NC_pmap. Qed.
Lemma NC_take_while0 f : NC (take_while0 f). Proof. apply NC_take_while_mn. Qed.
Lemma NC_take_while1 f : NC (take_while1 f). Proof. apply NC_take_while_mn. Qed.

(* ---- C rules ----------------------------------------------------------------------- *)
Lemma C_panic {A} st : C (fun _ => @Panic A st).
Proof. intros i e i' _ E. nope. Qed.

Lemma C_bind {A B'} (p : parser A) (f : A -> parser B') :
  pres s p -> C p -> (forall a, C (f a)) -> C (bind p f).
Proof.
  intros Hw Hp Hf i e i' Hi. unfold bind. pose proof (Hw i Hi) as W.
  destruct (p i) as [a i1|e1 i1|e1 i1|st] eqn:E; try nope.
  - intro E2. eapply Hf; [exact W|exact E2].
  - intro E2. injection E2 as <- <-. eapply Hp; [exact Hi|exact E].
Qed.

Lemma C_pmap {A B'} (f : A -> B') p : C p -> C (pmap f p).
Proof.
  intros Hp i e i' Hi. unfold pmap. destruct (p i) eqn:E; try nope.
  intro E2. injection E2 as <- <-. eapply Hp; [exact Hi|exact E].
Qed.
Lemma C_pvalue {A B'} (b : B') (p : parser A) : C p -> C (pvalue b p). Proof. apply C_pmap. Qed.
Lemma C_pvoid {A} (p : parser A) : C p -> C (pvoid p). Proof. apply C_pmap. Qed.

Lemma C_peek {A} (p : parser A) : NC p -> C (peek p).
Proof.
  intros H i e i' _. unfold peek. destruct (p i) eqn:E; try nope. exfalso. exact (H _ _ _ E).
Qed.

Lemma C_opt {A} (p : parser A) : C p -> C (opt p).
Proof.
  intros Hp i e i' Hi. unfold opt. destruct (p i) eqn:E; try nope.
  intro E2. injection E2 as <- <-. eapply Hp; [exact Hi|exact E].
Qed.

Lemma C_cut_err {A} (p : parser A) : C p -> B p -> C (cut_err p).
Proof.
  intros Hc Hb i e i' Hi. unfold cut_err. destruct (p i) eqn:E; try nope.
  - intro E2. injection E2 as <- <-. eapply Hb; eassumption.
  - intro E2. injection E2 as <- <-. eapply Hc; eassumption.
Qed.

Lemma C_alt {A} (p q : parser A) : C p -> C q -> C (alt p q).
Proof.
  intros Hp Hq i e i' Hi. unfold alt. destruct (p i) eqn:E; try nope.
  - intro E2. eapply Hq; eassumption.
  - intro E2. injection E2 as <- <-. eapply Hp; [exact Hi|exact E].
Qed.

Lemma C_context {A} (p : parser A) : C (context p).
Proof.
  intros i e i' Hi. unfold context. destruct (p i); try nope.
  intro E2. injection E2 as <- <-. apply good_ctx.
Qed.

Lemma C_verify {A} (f : A -> bool) p : C p -> C (verify f p).
Proof.
  intros Hp i e i' Hi. unfold verify. destruct (p i) eqn:E; try nope.
  - destruct (f a); nope.
  - intro E2. injection E2 as <- <-. eapply Hp; [exact Hi|exact E].
Qed.

Lemma C_verify_map {A B'} (f : A -> option B') p : C p -> C (verify_map f p).
Proof.
  intros Hp i e i' Hi. unfold verify_map. destruct (p i) eqn:E; try nope.
  - destruct (f a); nope.
  - intro E2. injection E2 as <- <-. eapply Hp; [exact Hi|exact E].
Qed.

Lemma C_try_map {A B'} (f : A -> tm B') p : C p -> C (try_map f p).
Proof.
  intros Hp i e i' Hi. unfold try_map. destruct (p i) eqn:E; try nope.
  - destruct (f a); nope.
  - intro E2. injection E2 as <- <-. eapply Hp; [exact Hi|exact E].
Qed.

Lemma C_span {A} (p : parser A) : C p -> C (span_ p).
Proof.
  intros Hp i e i' Hi. unfold span_. destruct (p i) eqn:E; try nope.
  intro E2. injection E2 as <- <-. eapply Hp; [exact Hi|exact E].
Qed.
Lemma C_with_span {A} (p : parser A) : C p -> C (with_span p).
Proof.
  intros Hp i e i' Hi. unfold with_span. destruct (p i) eqn:E; try nope.
  intro E2. injection E2 as <- <-. eapply Hp; [exact Hi|exact E].
Qed.
Lemma C_taken {A} (p : parser A) : C p -> C (taken p).
Proof.
  intros Hp i e i' Hi. unfold taken. destruct (p i) eqn:E; try nope.
  intro E2. injection E2 as <- <-. eapply Hp; [exact Hi|exact E].
Qed.

Lemma C_and_then {A B'} (p : parser A) (inner : A -> sub B') :
  C p -> (forall a e, inner a = SubCut e -> labelled e) -> C (and_then p inner).
Proof.
  intros Hp Hin i e i' Hi. unfold and_then. destruct (p i) eqn:E; try nope.
  - destruct (inner a) eqn:Ei; try nope. intro E2. injection E2 as <- <-.
    left. eapply Hin; exact Ei.
  - intro E2. injection E2 as <- <-. eapply Hp; [exact Hi|exact E].
Qed.

Lemma C_unchecked_utf8 w p : C p -> C (unchecked_utf8 w p).
Proof.
  intros Hp i e i' Hi. unfold unchecked_utf8. destruct (p i) eqn:E; try nope.
  - destruct (utf8_valid_b a); nope.
  - intro E2. injection E2 as <- <-. eapply Hp; [exact Hi|exact E].
Qed.

Lemma C_preceded {A B'} (p : parser A) (q : parser B') : pres s p -> C p -> C q -> C (preceded p q).
Proof. intros. unfold preceded. apply C_bind; auto. Qed.
Lemma C_terminated {A B'} (p : parser A) (q : parser B') : pres s p -> pres s q -> C p -> C q -> C (terminated p q).
Proof.
  intros. unfold terminated. apply C_bind; auto. intro a. apply C_bind; auto.
  intro. apply NC_C, NC_ret.
Qed.
Lemma C_delimited {A B' D} (p : parser A) (q : parser B') (r : parser D) :
  pres s p -> pres s q -> pres s r -> C p -> C q -> C r -> C (delimited p q r).
Proof.
  intros. unfold delimited. apply C_bind; auto. intro. apply C_bind; auto. intro.
  apply C_bind; auto. intro. apply NC_C, NC_ret.
Qed.
Lemma C_pair {A B'} (p : parser A) (q : parser B') : pres s p -> pres s q -> C p -> C q -> C (pair_ p q).
Proof.
  intros. unfold pair_. apply C_bind; auto. intro. apply C_bind; auto. intro. apply NC_C, NC_ret.
Qed.

Lemma C_repeat0_f {A} fuel (p : parser A) : pres s p -> C p -> forall acc, C (repeat0_f fuel p acc).
Proof.
  intros Hw Hp. induction fuel as [|f IH]; intros acc i e i' Hi; cbn [repeat0_f]; [nope|].
  pose proof (Hw i Hi) as W. destruct (p i) as [a i1|e1 i1|e1 i1|st] eqn:E; try nope.
  - destruct (Nat.eqb (length (rest i1)) (length (rest i))); [nope|]. apply IH; exact W.
  - intro E2. injection E2 as <- <-. eapply Hp; [exact Hi|exact E].
Qed.
Lemma C_repeat0 {A} (p : parser A) : pres s p -> C p -> C (repeat0 p).
Proof. intros Hw Hp i e i' Hi. unfold repeat0. apply C_repeat0_f; assumption. Qed.
Lemma C_repeat1 {A} (p : parser A) : pres s p -> C p -> C (repeat1 p).
Proof.
  intros Hw Hp i e i' Hi. unfold repeat1. pose proof (Hw i Hi) as W.
  destruct (p i) as [a i1|e1 i1|e1 i1|st] eqn:E; try nope.
  - apply C_repeat0_f; assumption.
  - intro E2. injection E2 as <- <-. eapply Hp; [exact Hi|exact E].
Qed.

Lemma C_separated_loop {A S} fuel (p : parser A) (sep : parser S) :
  pres s p -> pres s sep -> C p -> C sep -> forall acc, C (separated_loop fuel p sep acc).
Proof.
  intros Hwp Hws Hp Hs. induction fuel as [|f IH]; intros acc i e i' Hi; cbn [separated_loop]; [nope|].
  pose proof (Hws i Hi) as W1. destruct (sep i) as [x i1|e1 i1|e1 i1|st] eqn:E1; try nope.
  - destruct (Nat.eqb (length (rest i1)) (length (rest i))); [nope|].
    pose proof (Hwp i1 W1) as W2. destruct (p i1) as [a i2|e2 i2|e2 i2|st] eqn:E2; try nope.
    + apply IH; exact W2.
    + intro E3. injection E3 as <- <-. eapply Hp; [exact W1|exact E2].
  - intro E3. injection E3 as <- <-. eapply Hs; [exact Hi|exact E1].
Qed.
Lemma C_separated0 {A S} (p : parser A) (sep : parser S) :
  pres s p -> pres s sep -> C p -> C sep -> C (separated0 p sep).
Proof.
  intros Hwp Hws Hp Hs i e i' Hi. unfold separated0. pose proof (Hwp i Hi) as W.
  destruct (p i) as [a i1|e1 i1|e1 i1|st] eqn:E; try nope.
  - apply C_separated_loop; assumption.
  - intro E2. injection E2 as <- <-. eapply Hp; [exact Hi|exact E].
Qed.
Lemma C_separated1 {A S} (p : parser A) (sep : parser S) :
  pres s p -> pres s sep -> C p -> C sep -> C (separated1 p sep).
Proof.
  intros Hwp Hws Hp Hs i e i' Hi. unfold separated1. pose proof (Hwp i Hi) as W.
  destruct (p i) as [a i1|e1 i1|e1 i1|st] eqn:E; try nope.
  - apply C_separated_loop; assumption.
  - intro E2. injection E2 as <- <-. eapply Hp; [exact Hi|exact E].
Qed.

Lemma C_check_recursion {A} (p : parser A) : C p -> C (check_recursion p).
Proof.
  intros Hp i e i' Hi. unfold check_recursion. cbv zeta.
  destruct (Nat.leb LIMIT (depth (set_depth (S (depth i)) i))).
  - intro E. injection E as <- <-. apply good_cause.
  - destruct (p (set_depth (S (depth i)) i)) eqn:E; try nope.
    + destruct (depth i0); nope.
    + intro E2. injection E2 as <- <-. eapply Hp; [|exact E]. apply wf_set_depth; exact Hi.
Qed.

(* ---- B rules ----------------------------------------------------------------------- *)
Lemma B_ret {A} (a : A) : B (ret a).
Proof. intros i e i' _ E. nope. Qed.
Lemma B_panic {A} st : B (fun _ => @Panic A st).
Proof. intros i e i' _ E. nope. Qed.

Lemma B_bind {A B'} (p : parser A) (f : A -> parser B') :
  pres s p -> B p -> (forall a, B (f a)) -> B (bind p f).
Proof.
  intros Hw Hp Hf i e i' Hi. unfold bind. pose proof (Hw i Hi) as W.
  destruct (p i) as [a i1|e1 i1|e1 i1|st] eqn:E; try nope.
  - intro E2. eapply Hf; [exact W|exact E2].
  - intro E2. injection E2 as <- <-. eapply Hp; [exact Hi|exact E].
Qed.

Lemma B_pmap {A B'} (f : A -> B') p : B p -> B (pmap f p).
Proof.
  intros Hp i e i' Hi. unfold pmap. destruct (p i) eqn:E; try nope.
  intro E2. injection E2 as <- <-. eapply Hp; [exact Hi|exact E].
Qed.
Lemma B_pvalue {A B'} (b : B') (p : parser A) : B p -> B (pvalue b p). Proof. apply B_pmap. Qed.
Lemma B_pvoid {A} (p : parser A) : B p -> B (pvoid p). Proof. apply B_pmap. Qed.

Lemma B_opt {A} (p : parser A) : B (opt p).
Proof. intros i e i' _. unfold opt. destruct (p i); nope. Qed.

Lemma B_cut_err {A} (p : parser A) : B (cut_err p).
Proof. intros i e i' _. unfold cut_err. destruct (p i); nope. Qed.

Lemma B_alt {A} (p q : parser A) : B q -> B (alt p q).
Proof.
  intros Hq i e i' Hi. unfold alt. destruct (p i) eqn:E; try nope.
  intro E2. eapply Hq; eassumption.
Qed.

Lemma B_context {A} (p : parser A) : B (context p).
Proof.
  intros i e i' Hi. unfold context. destruct (p i); try nope.
  intro E2. injection E2 as <- <-. apply good_ctx.
Qed.

Lemma B_try_map {A B'} (f : A -> tm B') p : B p -> B (try_map f p).
Proof.
  intros Hp i e i' Hi. unfold try_map. destruct (p i) eqn:E; try nope.
  - destruct (f a); try nope. intro E2. injection E2 as <- <-. apply good_cause.
  - intro E2. injection E2 as <- <-. eapply Hp; [exact Hi|exact E].
Qed.

Lemma B_span {A} (p : parser A) : B p -> B (span_ p).
Proof.
  intros Hp i e i' Hi. unfold span_. destruct (p i) eqn:E; try nope.
  intro E2. injection E2 as <- <-. eapply Hp; [exact Hi|exact E].
Qed.
Lemma B_with_span {A} (p : parser A) : B p -> B (with_span p).
Proof.
  intros Hp i e i' Hi. unfold with_span. destruct (p i) eqn:E; try nope.
  intro E2. injection E2 as <- <-. eapply Hp; [exact Hi|exact E].
Qed.

Lemma B_and_then {A B'} (p : parser A) (inner : A -> sub B') :
  B p -> (forall a e, inner a = SubBt e -> labelled e) -> B (and_then p inner).
Proof.
  intros Hp Hin i e i' Hi. unfold and_then. destruct (p i) eqn:E; try nope.
  - destruct (inner a) eqn:Ei; try nope. intro E2. injection E2 as <- <-.
    left. eapply Hin; exact Ei.
  - intro E2. injection E2 as <- <-. eapply Hp; [exact Hi|exact E].
Qed.

Lemma B_take_while0 f : B (take_while0 f).
Proof. intros i e i' _. unfold take_while0, take_while_mn. cbn. nope. Qed.

Lemma B_unchecked_utf8 w p : B p -> B (unchecked_utf8 w p).
Proof.
  intros Hp i e i' Hi. unfold unchecked_utf8. destruct (p i) eqn:E; try nope.
  - destruct (utf8_valid_b a); nope.
  - intro E2. injection E2 as <- <-. eapply Hp; [exact Hi|exact E].
Qed.

Lemma B_repeat0 {A} (p : parser A) : B (repeat0 p).
Proof.
  intros i e i' _. unfold repeat0. generalize (@nil A). generalize (S (length (rest i))).
  intro fuel. revert i. induction fuel as [|f IH]; intros i acc; cbn [repeat0_f]; [nope|].
  destruct (p i); try nope. destruct (Nat.eqb _ _); [nope|]. apply IH.
Qed.

Lemma B_separated_loop {A S} fuel (p : parser A) (sep : parser S) acc i e i' :
  separated_loop fuel p sep acc i <> Bt e i'.
Proof.
  revert acc i. induction fuel as [|f IH]; intros acc i; cbn [separated_loop]; [nope|].
  destruct (sep i); try nope. destruct (Nat.eqb _ _); [nope|].
  destruct (p i0); try nope. apply IH.
Qed.
Lemma B_separated0 {A S} (p : parser A) (sep : parser S) : B (separated0 p sep).
Proof.
  intros i e i' _. unfold separated0. destruct (p i); try nope. intro X. exfalso. exact (B_separated_loop _ _ _ _ _ _ _ X).
Qed.
Lemma B_separated1 {A S} (p : parser A) (sep : parser S) : B p -> B (separated1 p sep).
Proof.
  intros Hp i e i' Hi. unfold separated1. destruct (p i) eqn:E; try nope.
  - intro X. exfalso. exact (B_separated_loop _ _ _ _ _ _ _ X).
  - intro E2. injection E2 as <- <-. eapply Hp; [exact Hi|exact E].
Qed.

Lemma B_check_recursion {A} (p : parser A) : B p -> B (check_recursion p).
Proof.
  intros Hp i e i' Hi. unfold check_recursion. cbv zeta.
  destruct (Nat.leb LIMIT (depth (set_depth (S (depth i)) i))); [nope|].
  destruct (p (set_depth (S (depth i)) i)) eqn:E; try nope.
  - destruct (depth i0); nope.
  - intro E2. injection E2 as <- <-. eapply Hp; [|exact E]. apply wf_set_depth; exact Hi.
Qed.

End Msg.

Global Hint Resolve NC_C : msg.
Global Hint Resolve NC_ret NC_fail NC_any NC_one_of NC_lit NC_take_while_mn NC_take_n NC_eof NC_pmap NC_opt
  NC_bind NC_alt NC_unchecked_utf8 NC_byte NC_none_of NC_pvoid NC_pvalue NC_take_while0 NC_take_while1 : nc.

(* one syntactic step; `C`-goals may turn into `B`-goals below cut_err *)
Ltac msg_step :=
  lazymatch goal with
  | |- C _ (context _) => apply C_context
  | |- B _ (context _) => apply B_context
  | |- C _ (bind _ _) => apply C_bind; [solve [pres_auto] | | intro; cbv beta]
  | |- B _ (bind _ _) => apply B_bind; [solve [pres_auto] | | intro; cbv beta]
  | |- C _ (match ?x with _ => _ end) => destruct x
  | |- B _ (match ?x with _ => _ end) => destruct x
  | |- C _ (fun _ => Panic _) => apply C_panic
  | |- B _ (fun _ => Panic _) => apply B_panic
  | |- B _ (ret _) => apply B_ret
  | |- C _ (pmap _ _) => apply C_pmap
  | |- B _ (pmap _ _) => apply B_pmap
  | |- C _ (pvalue _ _) => apply C_pvalue
  | |- B _ (pvalue _ _) => apply B_pvalue
  | |- C _ (pvoid _) => apply C_pvoid
  | |- B _ (pvoid _) => apply B_pvoid
  | |- C _ (peek _) => apply C_peek; solve [auto 10 with nc]
  | |- C _ (opt _) => apply C_opt
  | |- B _ (opt _) => apply B_opt
  | |- C _ (cut_err _) => apply C_cut_err
  | |- B _ (cut_err _) => apply B_cut_err
  | |- C _ (alt _ _) => apply C_alt
  | |- B _ (alt _ _) => apply B_alt
  | |- C _ (verify _ _) => apply C_verify
  | |- C _ (verify_map _ _) => apply C_verify_map
  | |- C _ (try_map _ _) => apply C_try_map
  | |- B _ (try_map _ _) => apply B_try_map
  | |- C _ (span_ _) => apply C_span
  | |- B _ (span_ _) => apply B_span
  | |- C _ (with_span _) => apply C_with_span
  | |- B _ (with_span _) => apply B_with_span
  | |- C _ (taken _) => apply C_taken
  | |- C _ (unchecked_utf8 _ _) => apply C_unchecked_utf8
  | |- B _ (unchecked_utf8 _ _) => apply B_unchecked_utf8
  | |- C _ (preceded _ _) => apply C_preceded; [solve [pres_auto] | | ]
  | |- C _ (terminated _ _) => apply C_terminated; [solve [pres_auto] | solve [pres_auto] | | ]
  | |- C _ (delimited _ _ _) => apply C_delimited; [solve [pres_auto] | solve [pres_auto] | solve [pres_auto] | | | ]
  | |- C _ (pair_ _ _) => apply C_pair; [solve [pres_auto] | solve [pres_auto] | | ]
  | |- C _ (repeat0 _) => apply C_repeat0; [solve [pres_auto] | ]
  | |- B _ (repeat0 _) => apply B_repeat0
  | |- C _ (repeat1 _) => apply C_repeat1; [solve [pres_auto] | ]
  | |- C _ (separated0 _ _) => apply C_separated0; [solve [pres_auto] | solve [pres_auto] | | ]
  | |- B _ (separated0 _ _) => apply B_separated0
  | |- C _ (separated1 _ _) => apply C_separated1; [solve [pres_auto] | solve [pres_auto] | | ]
  | |- B _ (separated1 _ _) => apply B_separated1
  | |- C _ (check_recursion _) => apply C_check_recursion
  | |- B _ (check_recursion _) => apply B_check_recursion
  | |- B _ (take_while0 _) => apply B_take_while0
  | |- C _ _ => first [ solve [auto 10 with msg nc] | apply NC_C; solve [auto 10 with nc] ]
  | |- B _ _ => solve [auto 10 with msg nc]
  end.
Ltac msg_auto := repeat msg_step.

(* ==================================================================================== *)
(* the grammar                                                                          *)
(* ==================================================================================== *)
Global Hint Resolve pres_array_value pres_array_values pres_array pres_inline_keyval pres_inline_table
  pres_value_body pres_value_step pres_value_f pres_mlb_quote_loop pres_doc_loop pres_document : pres.

Definition LAB (s : bytes) {A} (p : parser A) : Prop := C s p /\ B s p.

(* errors of `p` started on the particular input i *)
Definition lab_at (s : bytes) {A} (p : parser A) (i : input) : Prop :=
  forall e i', (p i = Cut e i' \/ p i = Bt e i') -> good s e i'.

Lemma LAB_at s {A} (p : parser A) i : LAB s p -> wf s i -> lab_at s p i.
Proof. intros [Hc Hb] Hi e i' [E|E]; [eapply Hc|eapply Hb]; eassumption. Qed.

Lemma context_err {A} (p : parser A) i e i' :
  (context p i = Cut e i' \/ context p i = Bt e i') -> labelled e.
Proof.
  unfold context. destruct (p i); intros [E|E]; try discriminate; injection E as <- <-; right; reflexivity.
Qed.

(* ---- Trivia ---------------------------------------------------------------------------- *)
Lemma NC_ws : NC ws.
Proof. unfold ws. auto with nc. Qed.
Lemma B_ws s : B s ws.
Proof. unfold ws. msg_auto. Qed.
Lemma NC_comment : NC comment.
Proof. unfold comment. repeat (apply NC_bind; [auto with nc|intro]). auto with nc. Qed.
Lemma NC_newline : NC newline.
Proof.
  unfold newline. apply NC_bind; [auto with nc|intro b].
  destruct (byte_eqb b x0a); [unfold empty; auto with nc|].
  destruct (byte_eqb b x0d); auto with nc.
Qed.
Global Hint Resolve NC_ws NC_comment NC_newline : nc.
Global Hint Resolve B_ws : msg.

Lemma NC_context {A} (p : parser A) : NC p -> NC (context p).
Proof. intros H i e i'. unfold context. destruct (p i) eqn:E; try discriminate. exfalso. exact (H _ _ _ E). Qed.
Global Hint Resolve NC_context : nc.

Lemma skipn_head (l : bytes) : forall p b r, skipn p l = b :: r -> nth_error l p = Some b /\ skipn (S p) l = r.
Proof.
  induction l as [|x l IH]; intros p b r H.
  - rewrite skipn_nil in H. discriminate.
  - destruct p as [|p]; [cbn in H; injection H as -> ->; auto|]. cbn [skipn nth_error] in *. apply IH; exact H.
Qed.

Lemma wf_head s i b r : wf s i -> rest i = b :: r ->
  nth_error s (N.to_nat (pos i)) = Some b /\ skipn (S (N.to_nat (pos i))) s = r.
Proof. intros [H1 _] Hr. rewrite Hr in H1. apply skipn_head. symmetry. exact H1. Qed.

Definition starts_with_lf (r : bytes) : bool := match r with c :: _ => byte_eqb c x0a | [] => false end.

Lemma bare_cr_here s i r : wf s i -> rest i = x0d :: r -> starts_with_lf r = false ->
  bare_cr_b s (N.to_nat (pos i)) = true.
Proof.
  intros Hi Hr Hn. destruct (wf_head s i _ _ Hi Hr) as [H1 H2]. unfold bare_cr_b. rewrite H1.
  cbn [byte_eqb]. rewrite byte_eqb_refl. cbn [andb].
  destruct r as [|c r'].
  - assert (E : nth_error s (S (N.to_nat (pos i))) = None).
    { apply nth_error_None. destruct (le_lt_dec (length s) (S (N.to_nat (pos i)))) as [|Hlt]; [assumption|].
      exfalso. assert (L : length (skipn (S (N.to_nat (pos i))) s) = 0) by (rewrite H2; reflexivity).
      rewrite skipn_length in L. lia. }
    rewrite E. reflexivity.
  - destruct (skipn_head s _ _ _ H2) as [H3 _]. rewrite H3. cbn in Hn. rewrite Hn. reflexivity.
Qed.

Lemma byte_eqb_comm a b : byte_eqb a b = byte_eqb b a.
Proof.
  destruct (byte_eqb a b) eqn:E1; destruct (byte_eqb b a) eqn:E2; try reflexivity.
  - apply byte_eqb_eq in E1. subst. rewrite byte_eqb_refl in E2. discriminate.
  - apply byte_eqb_eq in E2. subst. rewrite byte_eqb_refl in E1. discriminate.
Qed.

Lemma rest_advance1 i b r : rest i = b :: r -> rest (advance 1 i) = r.
Proof. intro H. unfold advance. cbn [rest]. rewrite H. reflexivity. Qed.

(* newline on a CR: fails exactly when no LF follows, and then the cursor is past the CR *)
Lemma newline_cr i r : rest i = x0d :: r ->
  newline i = if starts_with_lf r then Ok tt (advance 1 (advance 1 i)) else Bt err0 (advance 1 i).
Proof.
  intro Hr. unfold newline, bind, any. rewrite Hr.
  change (byte_eqb x0d x0a) with false. change (byte_eqb x0d x0d) with true. cbv iota.
  unfold pvoid, pmap, byte_, one_of. rewrite (rest_advance1 _ _ _ Hr).
  unfold starts_with_lf. destruct r as [|c r']; [reflexivity|].
  unfold LF. rewrite (byte_eqb_comm x0a c). destruct (byte_eqb c x0a); reflexivity.
Qed.

Lemma newline_lf i r : rest i = x0a :: r -> newline i = Ok tt (advance 1 i).
Proof.
  intro Hr. unfold newline, bind, any. rewrite Hr.
  change (byte_eqb x0a x0a) with true. reflexivity.
Qed.

Lemma take_while0_ok f j : exists got, take_while0 f j = Ok got (advance (length got) j).
Proof. unfold take_while0, take_while_mn. eexists. reflexivity. Qed.

(* a comment started on '#' succeeds *)
Lemma comment_head i r : rest i = x23 :: r -> exists i1, comment i = Ok tt i1.
Proof.
  intro Hr. unfold comment, bind, byte_, one_of. rewrite Hr.
  change (byte_eqb COMMENT_START_SYMBOL x23) with true. cbv iota.
  destruct (take_while0_ok (in_class NON_EOL) (advance 1 i)) as (got & ->). eexists. reflexivity.
Qed.

Lemma NC_wcn_f fuel : forall start i e i', ws_comment_newline_f fuel start i <> Cut e i'.
Proof.
  induction fuel as [|f IH]; intros start i e i'; cbn [ws_comment_newline_f]; [discriminate|].
  destruct (ws i) as [x i1|e1 i1|e1 i1|st] eqn:Ew; try discriminate.
  - cbv zeta. destruct (rest i1) as [|b r]; [discriminate|].
    assert (Hstep : forall p : parser unit, NC p ->
              match p i1 with
              | Ok _ i2 => if (pos i2 =? start)%N then Ok tt i2 else ws_comment_newline_f f (pos i2) i2
              | Bt e i' => Bt e i'
              | Cut e i' => Cut e i'
              | Panic s => Panic s
              end <> Cut e i').
    { intros p Hp. destruct (p i1) as [y i2|e2 i2|e2 i2|st] eqn:Ep; try discriminate.
      - destruct (pos i2 =? start)%N; [discriminate|apply IH].
      - exfalso. exact (Hp _ _ _ Ep). }
    destruct (byte_eqb b x23); [apply Hstep; auto with nc|].
    destruct (byte_eqb b x0a); [apply Hstep; auto with nc|].
    destruct (byte_eqb b x0d); [apply Hstep; auto with nc|]. discriminate.
  - exfalso. exact (NC_ws _ _ _ Ew).
Qed.

Lemma NC_wcn : NC ws_comment_newline.
Proof. intros i e i'. unfold ws_comment_newline. apply NC_wcn_f. Qed.
Global Hint Resolve NC_wcn : nc.

Lemma pos_advance n i : pos (advance n i) = (pos i + N.of_nat n)%N.
Proof. reflexivity. Qed.

Lemma good_after_cr s i r : wf s i -> rest i = x0d :: r -> starts_with_lf r = false ->
  good s err0 (advance 1 i).
Proof.
  intros Hi Hr Hn. right. unfold bare_cr_near. rewrite pos_advance.
  assert (Z : ((pos i + N.of_nat 1 =? 0) = false)%N) by (apply N.eqb_neq; lia). rewrite Z.
  replace (N.to_nat (pos i + N.of_nat 1) - 1) with (N.to_nat (pos i)) by lia.
  rewrite (bare_cr_here s i r Hi Hr Hn). apply orb_true_r.
Qed.

Lemma B_wcn_f s fuel : forall start i e i', wf s i -> ws_comment_newline_f fuel start i = Bt e i' -> good s e i'.
Proof.
  induction fuel as [|f IH]; intros start i e i' Hi H; cbn [ws_comment_newline_f] in H; [discriminate|].
  pose proof (pres_ws s i Hi) as W.
  destruct (ws i) as [x i1|e1 i1|e1 i1|st] eqn:Ew; cbn [wfr] in W; try discriminate.
  - cbv zeta in H. destruct (rest i1) as [|b r] eqn:Hr; [discriminate|].
    destruct (byte_eqb b x23) eqn:E1.
    { apply byte_eqb_eq in E1. subst b. unfold bind in H.
      destruct (comment_head i1 r Hr) as (i2 & Ec).
      pose proof (pres_comment s i1 W) as W2. rewrite Ec in H, W2. cbn [wfr] in W2.
      pose proof (pres_context s newline (pres_newline s) i2 W2) as W3.
      destruct (context newline i2) as [y i3|e3 i3|e3 i3|st] eqn:En; cbn [wfr] in W3; try discriminate.
      - destruct (pos i3 =? start)%N; [discriminate|]. eapply IH; [exact W3|exact H].
      - injection H as <- <-. left. eapply context_err. right. exact En. }
    destruct (byte_eqb b x0a) eqn:E2.
    { apply byte_eqb_eq in E2. subst b. pose proof (pres_newline s i1 W) as W2.
      rewrite (newline_lf i1 r Hr) in H, W2. cbn [wfr] in W2.
      destruct (pos (advance 1 i1) =? start)%N; [discriminate|]. eapply IH; [exact W2|exact H]. }
    destruct (byte_eqb b x0d) eqn:E3; [|discriminate].
    apply byte_eqb_eq in E3. subst b. pose proof (pres_newline s i1 W) as W2.
    rewrite (newline_cr i1 r Hr) in H, W2. destruct (starts_with_lf r) eqn:El; cbn [wfr] in W2.
    + destruct (pos (advance 1 (advance 1 i1)) =? start)%N; [discriminate|]. eapply IH; [exact W2|exact H].
    + injection H as <- <-. apply (good_after_cr s i1 r W Hr El).
  - injection H as <- <-. eapply B_ws; [exact Hi|exact Ew].
Qed.

Lemma B_wcn s : B s ws_comment_newline.
Proof. intros i e i' Hi. unfold ws_comment_newline. apply B_wcn_f; exact Hi. Qed.
Global Hint Resolve B_wcn : msg.

(* ---- Strings --------------------------------------------------------------------------- *)
Lemma C_from_utf8 s p : C s p -> C s (from_utf8 p).
Proof. intro H. unfold from_utf8. msg_auto. Qed.
Lemma B_from_utf8 s p : B s p -> B s (from_utf8 p).
Proof. intro H. unfold from_utf8. msg_auto. Qed.
Global Hint Resolve C_from_utf8 B_from_utf8 : msg.

Lemma C_escape_seq_char s : C s escape_seq_char.
Proof. unfold escape_seq_char. msg_auto. Qed.
Global Hint Resolve C_escape_seq_char : msg.

Lemma C_escaped s : C s escaped.
Proof. unfold escaped. msg_auto. Qed.
Global Hint Resolve C_escaped : msg.

Lemma C_basic_chars s : C s basic_chars.
Proof. unfold basic_chars. msg_auto. Qed.
Global Hint Resolve C_basic_chars : msg.

Lemma C_chunks_f s fuel p : pres s p -> C s p -> forall acc, C s (chunks_f fuel p acc).
Proof.
  intros Hw Hp. induction fuel as [|f IH]; intros acc i e i' Hi; cbn [chunks_f]; [nope|].
  pose proof (Hw i Hi) as W. destruct (p i) as [a i1|e1 i1|e1 i1|st] eqn:E; try nope.
  - destruct (Nat.eqb (length (rest i1)) (length (rest i))); [nope|]. apply IH; exact W.
  - intro E2. injection E2 as <- <-. eapply Hp; [exact Hi|exact E].
Qed.
Lemma C_chunks s p : pres s p -> C s p -> C s (chunks p).
Proof. intros Hw Hp i e i' Hi. unfold chunks. apply C_chunks_f; assumption. Qed.

Lemma C_basic_string s : C s basic_string.
Proof.
  unfold basic_string. apply C_bind; [pres_auto|msg_auto|intro].
  apply C_bind; [pres_auto|apply C_chunks; [pres_auto|msg_auto]|intro]. msg_auto.
Qed.
Global Hint Resolve C_basic_string : msg.

Lemma C_ml_basic_string s : C s ml_basic_string.
Proof. unfold ml_basic_string. msg_auto. Qed.
Global Hint Resolve C_ml_basic_string : msg.

Lemma C_ml_literal_string s : C s ml_literal_string.
Proof. unfold ml_literal_string. msg_auto. Qed.
Global Hint Resolve C_ml_literal_string : msg.

Lemma C_literal_string s : C s literal_string.
Proof. unfold literal_string. msg_auto. Qed.
Lemma B_literal_string s : B s literal_string.
Proof. unfold literal_string. msg_auto. Qed.
Global Hint Resolve C_literal_string B_literal_string : msg.

Lemma C_string s : C s string_.
Proof. unfold string_. msg_auto. Qed.
Lemma B_string s : B s string_.
Proof. unfold string_. msg_auto. Qed.
Global Hint Resolve C_string B_string : msg.

(* ---- Datetime / Numbers ------------------------------------------------------------------ *)
Lemma C_date_time s : C s date_time.
Proof. unfold date_time. msg_auto. Qed.
Lemma B_date_time s : B s date_time.
Proof. unfold date_time. msg_auto. Qed.
Lemma C_float s : C s float.
Proof. unfold float. msg_auto. Qed.
Lemma B_float s : B s float.
Proof. unfold float. msg_auto. Qed.
Global Hint Resolve C_date_time B_date_time C_float B_float : msg.

Lemma int_of_sub_cut r a e :
  match int_of r a with TmOk z => SubOk z | TmErr c => SubCut (err_of c) | TmPanic st => SubPanic st end = SubCut e ->
  labelled e.
Proof. destruct (int_of r a); intro H; try discriminate. injection H as <-. left. discriminate. Qed.
Lemma int_of_sub_bt r a e :
  match int_of r a with TmOk z => SubOk z | TmErr c => SubCut (err_of c) | TmPanic st => SubPanic st end = SubBt e ->
  labelled e.
Proof. destruct (int_of r a); discriminate. Qed.

Lemma LAB_integer s : LAB s integer.
Proof.
  assert (H16 : LAB s (cut_err (try_map (int_of 16) hex_int))).
  { unfold hex_int, prefixed_int. split; msg_auto. }
  assert (H8 : LAB s (cut_err (try_map (int_of 8) oct_int))).
  { unfold oct_int, prefixed_int. split; msg_auto. }
  assert (H2 : LAB s (cut_err (try_map (int_of 2) bin_int))).
  { unfold bin_int, prefixed_int. split; msg_auto. }
  assert (Cd : C s dec_int) by (unfold dec_int; msg_auto).
  assert (Bd : B s dec_int) by (unfold dec_int; msg_auto).
  split; intros i e i' Hi; unfold integer; cbv zeta;
    (destruct (bytes_eqb (firstn 2 (rest i)) [x30; x78]); [apply H16; exact Hi|]);
    (destruct (bytes_eqb (firstn 2 (rest i)) [x30; x6f]); [apply H8; exact Hi|]);
    (destruct (bytes_eqb (firstn 2 (rest i)) [x30; x62]); [apply H2; exact Hi|]).
  - apply (C_and_then s dec_int _ Cd (int_of_sub_cut 10)); exact Hi.
  - apply (B_and_then s dec_int _ Bd (int_of_sub_bt 10)); exact Hi.
Qed.
Lemma C_integer s : C s integer. Proof. apply LAB_integer. Qed.
Lemma B_integer s : B s integer. Proof. apply LAB_integer. Qed.
Global Hint Resolve C_integer B_integer : msg.

(* ---- Parse: keys, arrays, inline tables, values ------------------------------------------- *)
Lemma C_key s : C s key_.
Proof. unfold key_. msg_auto. Qed.
Lemma B_key s : B s key_.
Proof. unfold key_. msg_auto. Qed.
Global Hint Resolve C_key B_key : msg.

Lemma B_peek_opt s {A} (p : parser A) : B s (peek (opt p)).
Proof. intros i e i' _. unfold peek, opt. destruct (p i); nope. Qed.
Global Hint Resolve B_peek_opt : msg.

(* a parser that starts with `byte_ x` and is started on x *)
Lemma byte_head x i r : rest i = x :: r -> byte_ x i = Ok x (advance 1 i).
Proof. intro Hr. unfold byte_, one_of. rewrite Hr, byte_eqb_refl. reflexivity. Qed.

Section KnotMsg.
  Variable s : bytes.
  Variable value_rec : parser value.
  Hypothesis Wrec : pres s value_rec.
  Hypothesis Crec : C s value_rec.
  Hypothesis Brec : B s value_rec.

  Lemma C_array_value : C s (array_value value_rec).
  Proof. unfold array_value. msg_auto. Qed.

  Lemma LAB_array_values : LAB s (array_values value_rec).
  Proof. pose proof C_array_value. unfold array_values. split; msg_auto. Qed.

  (* the part of `array` after the opening bracket *)
  Definition array_tail : parser value :=
    a <- cut_err (array_values value_rec) ;; context (cut_err (byte_ ARRAY_CLOSE)) ;;; ret a.

  Lemma LAB_array_tail : LAB s array_tail.
  Proof. destruct LAB_array_values as [Ca Ba]. unfold array_tail. split; msg_auto. Qed.

  Lemma array_on_open i r : rest i = ARRAY_OPEN :: r -> array value_rec i = array_tail (advance 1 i).
  Proof. intro Hr. unfold array. unfold bind at 1. rewrite (byte_head _ _ _ Hr). reflexivity. Qed.

  Lemma C_inline_keyval : C s (inline_keyval value_rec).
  Proof. unfold inline_keyval. msg_auto. Qed.

  Definition inline_tail : parser value :=
    t <- cut_err (try_map (fun '(kv, p) => table_from_pairs kv p)
                    (kv <- separated0 (inline_keyval value_rec) (byte_ INLINE_TABLE_SEP) ;;
                     p <- span_ ws ;;
                     ret (kv, raw_with_span p))) ;;
    context (cut_err (byte_ INLINE_TABLE_CLOSE)) ;;;
    ret t.

  Lemma LAB_inline_tail : LAB s inline_tail.
  Proof. pose proof C_inline_keyval. pose proof (pres_inline_keyval s value_rec Wrec). unfold inline_tail. split; msg_auto. Qed.

  Lemma inline_on_open i r : rest i = INLINE_TABLE_OPEN :: r -> inline_table value_rec i = inline_tail (advance 1 i).
  Proof. intro Hr. unfold inline_table. unfold bind at 1. rewrite (byte_head _ _ _ Hr). reflexivity. Qed.

  (* check_recursion around a parser whose first byte is known *)
  Lemma check_recursion_head {A} (p q : parser A) x i r :
    (forall j r', rest j = x :: r' -> p j = q (advance 1 j)) ->
    pres s q -> LAB s q -> wf s i -> rest i = x :: r -> lab_at s (check_recursion p) i.
  Proof.
    intros Hpq Wq [Cq Bq] Hi Hr e i'. unfold check_recursion. cbv zeta.
    set (i1 := set_depth (S (depth i)) i).
    assert (W1 : wf s i1) by (apply wf_set_depth; exact Hi).
    assert (R1 : rest i1 = x :: r) by exact Hr.
    destruct (Nat.leb LIMIT (depth i1)).
    { intros [E|E]; [|discriminate]. injection E as <- <-. apply good_cause. }
    rewrite (Hpq i1 r R1).
    assert (W2 : wf s (advance 1 i1)) by (apply wf_advance; [exact W1|rewrite R1; cbn; lia]).
    destruct (q (advance 1 i1)) as [a i2|e2 i2|e2 i2|st] eqn:Eq.
    - destruct (depth i2); intros [E|E]; discriminate.
    - intros [E|E]; [discriminate|]. injection E as <- <-. eapply Bq; [exact W2|exact Eq].
    - intros [E|E]; [|discriminate]. injection E as <- <-. eapply Cq; [exact W2|exact Eq].
    - intros [E|E]; discriminate.
  Qed.

  Lemma peek_any_ok i b i1 : context (peek any) i = Ok b i1 -> i1 = i /\ exists r, rest i = b :: r.
  Proof.
    unfold context, peek, any. destruct (rest i) as [|c r] eqn:Hr; [discriminate|].
    intro H. injection H as <- <-. eauto.
  Qed.

  Lemma lab_value_body i : wf s i -> lab_at s (value_body value_rec) i.
  Proof.
    intros Hi e i'. unfold value_body. unfold bind.
    destruct (context (peek any) i) as [b i1|e1 i1|e1 i1|st] eqn:Ep.
    2:{ intros [E|E]; [discriminate|]. injection E as <- <-. left. eapply context_err. right. exact Ep. }
    2:{ intros [E|E]; [|discriminate]. injection E as <- <-. left. eapply context_err. left. exact Ep. }
    2:{ intros [E|E]; discriminate. }
    destruct (peek_any_ok _ _ _ Ep) as [-> [r Hr]].
    destruct (byte_eqb b QUOTATION_MARK || byte_eqb b APOSTROPHE).
    { apply LAB_at; [|exact Hi]. split; msg_auto. }
    destruct (byte_eqb b ARRAY_OPEN) eqn:Ea.
    { apply byte_eqb_eq in Ea. subst b.
      eapply check_recursion_head; [apply array_on_open| |apply LAB_array_tail|exact Hi|exact Hr].
      unfold array_tail. pose proof (pres_array_values s value_rec Wrec). pres_auto. }
    destruct (byte_eqb b INLINE_TABLE_OPEN) eqn:Et.
    { apply byte_eqb_eq in Et. subst b.
      eapply check_recursion_head; [apply inline_on_open| |apply LAB_inline_tail|exact Hi|exact Hr].
      unfold inline_tail. pose proof (pres_inline_keyval s value_rec Wrec). pres_auto. }
    destruct (in_class VALUE_NUMBER_START b).
    { apply LAB_at; [|exact Hi]. split; msg_auto. }
    repeat (match goal with |- lab_at _ (if ?c then _ else _) _ => destruct c end;
            [apply LAB_at; [split; msg_auto|exact Hi]|]).
    apply LAB_at; [split; msg_auto|exact Hi].
  Qed.

  Lemma LAB_value_step : LAB s (value_step value_rec).
  Proof.
    unfold value_step. split; intros i e i' Hi; unfold pmap, with_span;
      destruct (value_body value_rec i) as [a i2|e2 i2|e2 i2|st] eqn:E; try nope;
      intro E2; injection E2 as <- <-; apply (lab_value_body i Hi); auto.
  Qed.
End KnotMsg.

Lemma LAB_value_f s fuel : LAB s (value_f fuel).
Proof.
  induction fuel as [|f [IHc IHb]]; cbn [value_f].
  - split; intros i e i' _ E; discriminate.
  - pose proof (LAB_value_step s (value_f f) (pres_value_f s f) IHc IHb) as [Hc Hb].
    split; intros i e i' Hi E; [eapply Hc|eapply Hb]; eassumption.
Qed.

Lemma LAB_value s : LAB s value_.
Proof.
  split; intros i e i' Hi; unfold value_; apply (LAB_value_f s (S (length (rest i)))); exact Hi.
Qed.
Lemma C_value s : C s value_. Proof. apply LAB_value. Qed.
Lemma B_value s : B s value_. Proof. apply LAB_value. Qed.
Global Hint Resolve C_value B_value : msg.

(* ---- Document ------------------------------------------------------------------------------ *)
Lemma LAB_parse_keyval s : LAB s parse_keyval.
Proof. unfold parse_keyval. split; msg_auto. Qed.

Lemma LAB_keyval s st : LAB s (keyval st).
Proof. destruct (LAB_parse_keyval s). unfold keyval. split; msg_auto. Qed.

Lemma LAB_table s st : LAB s (table st).
Proof. unfold table. split; msg_auto. Qed.

(* a stand-alone comment line: every error is labelled (since the repair of parse_comment) *)
Lemma lab_parse_comment s st i r : rest i = COMMENT_START_SYMBOL :: r -> lab_at s (parse_comment st) i.
Proof.
  intros Hr e i'. unfold parse_comment, pmap, span_, bind.
  destruct (comment_head i r Hr) as (i1 & ->).
  destruct (context line_ending i1) as [y i2|e2 i2|e2 i2|stt] eqn:E.
  - intros [X|X]; discriminate.
  - intros [X|X]; [discriminate|]. injection X as <- <-. left. eapply context_err. right. exact E.
  - intros [X|X]; [|discriminate]. injection X as <- <-. left. eapply context_err. left. exact E.
  - intros [X|X]; discriminate.
Qed.

Lemma peek_any_plain i b i1 : peek any i = Ok b i1 -> i1 = i /\ exists r, rest i = b :: r.
Proof.
  unfold peek, any. destruct (rest i) as [|c r] eqn:Hr; [discriminate|].
  intro H. injection H as <- <-. eauto.
Qed.

(* parse_ws never fails (it may only reach the unchecked-UTF-8 panic site, which is no error value) *)
Lemma parse_ws_no_err st i e i' : parse_ws st i <> Bt e i' /\ parse_ws st i <> Cut e i'.
Proof.
  unfold parse_ws, pmap, span_, ws, unchecked_utf8.
  destruct (take_while0_ok (in_class WSCHAR) i) as (got & ->).
  destruct (utf8_valid_b got); split; discriminate.
Qed.

(* one line of the document: Cut errors are good *)
Lemma C_doc_line s st : C s (doc_line st).
Proof.
  intros i e i' Hi. unfold doc_line. unfold bind at 1.
  destruct (peek any i) as [b i1|e1 i1|e1 i1|stt] eqn:Ep; try nope.
  2:{ exfalso. revert Ep. unfold peek, any. destruct (rest i); discriminate. }
  destruct (peek_any_plain _ _ _ Ep) as [-> [r Hr]].
  unfold bind.
  set (arm := if byte_eqb b COMMENT_START_SYMBOL then cut_err (parse_comment st)
              else if byte_eqb b STD_TABLE_OPEN then cut_err (table st)
              else if byte_eqb b LF || byte_eqb b CR then parse_newline st
              else cut_err (keyval st)).
  assert (Harm : forall e2 i2, arm i = Cut e2 i2 -> good s e2 i2).
  { intros e2 i2. unfold arm. destruct (byte_eqb b COMMENT_START_SYMBOL) eqn:E1.
    { apply byte_eqb_eq in E1. subst b. unfold cut_err.
      pose proof (lab_parse_comment s st i r Hr) as Hl.
      destruct (parse_comment st i) as [y j|e3 j|e3 j|stt] eqn:Ec; try nope;
        intro X; injection X as <- <-; apply Hl; auto. }
    destruct (byte_eqb b STD_TABLE_OPEN).
    { destruct (LAB_table s st) as [Ct Bt']. intro X. eapply (C_cut_err s _ Ct Bt'); [exact Hi|exact X]. }
    destruct (byte_eqb b LF || byte_eqb b CR).
    { intro X. exfalso. revert X. unfold parse_newline. apply NC_pmap.
      intros j e3 j'. unfold span_. destruct (newline j) eqn:En; try discriminate.
      exfalso. exact (NC_newline _ _ _ En). }
    destruct (LAB_keyval s st) as [Ck Bk]. intro X. eapply (C_cut_err s _ Ck Bk); [exact Hi|exact X]. }
  destruct (arm i) as [st1 j|e3 j|e3 j|stt] eqn:Ea; try nope.
  - intro X. exfalso. exact (proj2 (parse_ws_no_err st1 j e i') X).
  - intro X. injection X as <- <-. apply Harm. reflexivity.
Qed.

(* when one line fails WITHOUT a cut, the input is at its end or at a bare CR *)
Lemma doc_line_bt s st i e i' : wf s i -> doc_line st i = Bt e i' ->
  rest i = [] \/ bare_cr_b s (N.to_nat (pos i)) = true.
Proof.
  intros Hi. unfold doc_line. unfold bind at 1.
  destruct (peek any i) as [b i1|e1 i1|e1 i1|stt] eqn:Ep; try nope.
  2:{ intros _. left. revert Ep. unfold peek, any. destruct (rest i); [reflexivity|discriminate]. }
  destruct (peek_any_plain _ _ _ Ep) as [-> [r Hr]]. right. revert H. unfold bind.
  destruct (byte_eqb b COMMENT_START_SYMBOL).
  { unfold cut_err. destruct (parse_comment st i) as [st1 j| | |]; try nope.
    intro X. exfalso. exact (proj1 (parse_ws_no_err st1 j e i') X). }
  destruct (byte_eqb b STD_TABLE_OPEN).
  { unfold cut_err. destruct (table st i) as [st1 j| | |]; try nope.
    intro X. exfalso. exact (proj1 (parse_ws_no_err st1 j e i') X). }
  destruct (byte_eqb b LF || byte_eqb b CR) eqn:Enl.
  2:{ unfold cut_err. destruct (keyval st i) as [st1 j| | |]; try nope.
      intro X. exfalso. exact (proj1 (parse_ws_no_err st1 j e i') X). }
  unfold parse_newline, pmap, span_.
  apply orb_true_iff in Enl as [El|Ec]; apply byte_eqb_eq in El || apply byte_eqb_eq in Ec; subst b.
  - rewrite (newline_lf i r Hr). intro X. exfalso. exact (proj1 (parse_ws_no_err _ _ e i') X).
  - rewrite (newline_cr i r Hr). destruct (starts_with_lf r) eqn:Es.
    + intro X. exfalso. exact (proj1 (parse_ws_no_err _ _ e i') X).
    + intros _. apply (bare_cr_here s i r Hi Hr Es).
Qed.

Lemma doc_loop_res s fuel : forall st i, wf s i ->
  match doc_loop fuel st i with
  | Ok _ i' => wf s i' /\ (rest i' = [] \/ bare_cr_b s (N.to_nat (pos i')) = true)
  | Bt _ _ => False
  | Cut e i' => good s e i'
  | Panic _ => True
  end.
Proof.
  induction fuel as [|f IH]; intros st i Hi; cbn [doc_loop]; [exact I|].
  pose proof (pres_doc_line s st i Hi) as W.
  destruct (doc_line st i) as [st' i1|e1 i1|e1 i1|stt] eqn:E; cbn [wfr] in W.
  - destruct (Nat.eqb (length (rest i1)) (length (rest i))); [exact I|]. apply IH; exact W.
  - split; [exact Hi|]. eapply doc_line_bt; [exact Hi|exact E].
  - eapply C_doc_line; [exact Hi|exact E].
  - exact I.
Qed.

Lemma document_res s i : wf s i ->
  match document i with
  | Ok _ i' => rest i' = []
  | Bt e i' => good s e i'
  | Cut e i' => good s e i'
  | Panic _ => True
  end.
Proof.
  intro Hi. unfold document. unfold bind at 1.
  assert (W0 : pres s (opt (lit bom))) by pres_auto. specialize (W0 i Hi).
  destruct (opt (lit bom) i) as [o i1|e1 i1|e1 i1|stt] eqn:E0; cbn [wfr] in W0.
  2:{ exfalso. revert E0. unfold opt. destruct (lit bom i); discriminate. }
  2:{ exfalso. revert E0. apply NC_opt, NC_lit. }
  2:{ exact I. }
  unfold bind at 1. pose proof (pres_parse_ws s state_new i1 W0) as W1.
  destruct (parse_ws state_new i1) as [st i2|e2 i2|e2 i2|stt] eqn:E1; cbn [wfr] in W1.
  2:{ exfalso. exact (proj1 (parse_ws_no_err _ _ _ _) E1). }
  2:{ exfalso. exact (proj2 (parse_ws_no_err _ _ _ _) E1). }
  2:{ exact I. }
  unfold bind at 1. pose proof (doc_loop_res s (S (length (rest i2))) st i2 W1) as R.
  destruct (doc_loop (S (length (rest i2))) st i2) as [st' i3|e3 i3|e3 i3|stt]; try assumption; try contradiction.
  destruct R as [W3 R]. unfold bind, eof, ret.
  destruct (rest i3) as [|c r] eqn:Er; [exact Er|].
  right. destruct R as [R|R]; [discriminate|]. unfold bare_cr_near. rewrite R. reflexivity.
Qed.

(* the theorem: an error of the document parser is labelled, or a bare CR is at / right before
   the error offset *)
Lemma document_message s e at_ :
  parse_document s = PErr e at_ ->
  labelled e \/ (exists a, at_ = Some a /\ bare_cr_near s a = true).
Proof.
  unfold parse_document, parse_all. unfold bind at 1.
  pose proof (document_res s (new_input s) (wf_new_input s)) as R.
  destruct (document (new_input s)) as [st i1|e1 i1|e1 i1|stt].
  - unfold bind, eof, ret. rewrite R.
    destruct (finalize_table st) as [st'|c|p]; try discriminate.
    intro H. injection H as <- <-. left. left. discriminate.
  - intro H. injection H as <- <-. destruct R as [R|R]; [left; exact R|right; eauto].
  - intro H. injection H as <- <-. destruct R as [R|R]; [left; exact R|right; eauto].
  - discriminate.
Qed.

(* ---- the finding: both positions of the bare CR are reachable, with an empty message ----- *)
Lemma message_refuted_cr :
  exists s e at_, parse_document s = PErr e at_ /\ e_cause e = None /\ e_ctx e = false.
Proof. exists [x0d], err0, (Some 0%N). vm_compute. auto. Qed.

(* "a = [\r]": the span starts AFTER the CR *)
Lemma message_refuted_array_cr :
  exists s e at_, parse_document s = PErr e (Some at_) /\ e_cause e = None /\ e_ctx e = false
                  /\ bare_cr_b s (N.to_nat at_) = false /\ bare_cr_near s at_ = true.
Proof. exists [x61; x20; x3d; x20; x5b; x0d; x5d], err0, 6%N. vm_compute. auto. Qed.

(* ---- statements in the form used by Props/C15.v ------------------------------------------- *)
Definition bare_cr_near_o (s : bytes) (at_ : option N) : bool :=
  match at_ with Some a => bare_cr_near s a | None => false end.

Lemma message_nonempty s e at_ :
  bare_cr_near_o s at_ = false -> parse_document s = PErr e at_ -> e_cause e <> None \/ e_ctx e = true.
Proof.
  intros Hn H. destruct (document_message s e at_ H) as [L|(a & -> & Hb)]; [exact L|].
  cbn in Hn. congruence.
Qed.

(* everything together for one rejected document: the TomlError built from the parser's error
   has a span inside the document on character boundaries that covers the error offset, renders
   without panic, and shows the line and column of the span start as the specification counts *)
Lemma located s e at_ :
  utf8_valid_b s = true -> parse_document s = PErr e (Some at_) ->
  exists a b r,
    te_span (toml_error_new s e at_) = Some (a, b)
    /\ a <= b /\ b <= length s
    /\ char_boundary_b s (N.of_nat a) = true /\ char_boundary_b s (N.of_nat b) = true
    /\ a <= N.to_nat at_
    /\ render s (a, b) = ROk r
    /\ r_line_num r = lines_before s a + 1
    /\ r_col_num r = chars_since_line_start s a + 1.
Proof.
  intros Hv H. pose proof (document_offset_in_range s e at_ H) as Hr.
  assert (Hoff : N.to_nat at_ <= length s) by lia.
  unfold toml_error_new. cbn [te_span].
  pose proof (span_ok s (N.to_nat at_) Hv Hoff) as Hs.
  destruct (render_total s (N.to_nat at_) Hv Hoff) as [r Er].
  pose proof (render_position s (N.to_nat at_) r Hv Hoff Er) as [Hl Hc].
  destruct (char_span s (N.to_nat at_)) as [a b]. cbn [fst] in *.
  exists a, b, r. intuition.
Qed.
