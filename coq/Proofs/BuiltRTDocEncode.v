(* Proofs/BuiltRTDocEncode.v — C06, documents, printer side: Display for DocumentMut (Model/Encode.v:
   nested_tables, the position sort, visit_table) on a constructed tree prints the lines of
   Proofs/BuiltRTDocParse.v: for every table in preorder its header (a blank line before every header
   but the first thing printed), then its key/value lines. *)
From TV Require Import Proofs.EncodeHeader.
From TV Require Import Base.Prelude Base.Utf8 Base.Winnow Gen.Consts.
From TV Require Import Model.Datetime Model.Numbers Model.Tree Model.Parse Model.Document Model.Write Model.Encode Model.Build.
From TV Require Import Proofs.BuiltRTEncode Proofs.BuiltRTParse Proofs.BuiltRTValue Proofs.BuiltRTDocParse.
Require Import Lia ZifyBool ZifyN ZifyNat.

(* ---- visit_nested_tables without fuel ---------------------------------------------------------------------- *)
Fixpoint tbl_tables (t : tbl) (path : list key) (is_array : bool) {struct t} : list (tbl * list key * bool) :=
  match t with
  | Tbl items _ _ dotted _ _ =>
    (if dotted then [] else [(t, path, is_array)])
    ++ flat_map (fun kv => match snd kv with
                           | ITable sub => tbl_tables sub (path ++ [fst kv]) false
                           | IAot ts _ => flat_map (fun sub => tbl_tables sub (path ++ [fst kv]) true) ts
                           | _ => []
                           end) items
  end.

Lemma flat_map_ext_in {A B} (f g : A -> list B) l : (forall x, In x l -> f x = g x) -> flat_map f l = flat_map g l.
Proof.
  induction l as [|x l IH]; intro H; [reflexivity|]. cbn [flat_map]. rewrite (H x (or_introl eq_refl)), IH; [reflexivity|].
  intros y Hy. apply H. right. exact Hy.
Qed.

Lemma tbl_size_items items d im dt p sp :
  tbl_size (Tbl items d im dt p sp) = S (fold_right (fun kv acc => match kv with (_, i0) => item_size i0 + acc end) 0 items).
Proof. reflexivity. Qed.
Lemma item_size_table t : item_size (ITable t) = S (tbl_size t). Proof. reflexivity. Qed.
Lemma item_size_aot ts sp : item_size (IAot ts sp) = S (fold_right (fun t acc => tbl_size t + acc) 0 ts). Proof. reflexivity. Qed.

Lemma item_size_in (items : kvs) kv :
  In kv items -> item_size (snd kv) <= fold_right (fun kv acc => match kv with (_, i0) => item_size i0 + acc end) 0 items.
Proof.
  induction items as [|[k i0] items IH]; [contradiction|]. cbn [fold_right]. intros [<- | H]; [cbn [snd]; lia|].
  specialize (IH H). lia.
Qed.
Lemma tbl_size_in ts t : In t ts -> tbl_size t <= fold_right (fun t acc => tbl_size t + acc) 0 ts.
Proof.
  induction ts as [|t0 ts IH]; [contradiction|]. cbn [fold_right]. intros [<- | H]; [lia|]. specialize (IH H). lia.
Qed.

Lemma nested_tables_eq : forall fuel t path a, tbl_size t < fuel -> nested_tables fuel t path a = tbl_tables t path a.
Proof.
  induction fuel as [|f IH]; intros t path a Hf; [lia|].
  destruct t as [items d im dt p sp]. cbn [nested_tables tbl_tables t_dotted t_items]. f_equal.
  rewrite tbl_size_items in Hf.
  apply flat_map_ext_in. intros kv Hkv. pose proof (item_size_in items kv Hkv) as Hle.
  destruct (snd kv) as [|v|sub|ts sp0] eqn:Es; [reflexivity|reflexivity| |].
  - rewrite item_size_table in Hle. apply IH. lia.
  - rewrite item_size_aot in Hle. apply flat_map_ext_in. intros sub Hsub.
    pose proof (tbl_size_in ts sub Hsub). apply IH. lia.
Qed.

(* ---- the position sort is the identity on constructed trees (every table has no position, the root 0) ------- *)
Definition pos_ok (x : tbl * list key * bool) : Prop :=
  t_position (fst (fst x)) = None \/ t_position (fst (fst x)) = Some 0%N.

Lemma assign_positions_zero l : Forall pos_ok l -> assign_positions 0 l = map (fun x => (0%N, x)) l.
Proof.
  induction 1 as [|[[t p] a] l Hx _ IH]; [reflexivity|]. cbn [assign_positions map].
  assert (E : match t_position t with Some q => q | None => 0%N end = 0%N).
  { destruct Hx as [H | H]; cbn [fst] in H; rewrite H; reflexivity. }
  rewrite E, IH. reflexivity.
Qed.

Lemma insert_sorted_zero {A} (x : N * A) acc :
  fst x = 0%N -> Forall (fun y => fst y = 0%N) acc -> insert_sorted x acc = acc ++ [x].
Proof.
  intros Hx Hacc. induction Hacc as [|y acc Hy _ IH]; [reflexivity|]. cbn [insert_sorted app].
  rewrite Hx, Hy. change (0 <? 0)%N with false. cbv iota. rewrite IH. reflexivity.
Qed.

Lemma stable_sort_zero {A} (l : list (N * A)) : Forall (fun y => fst y = 0%N) l -> stable_sort l = l.
Proof.
  intro H. unfold stable_sort.
  assert (G : forall acc, Forall (fun y => fst y = 0%N) acc -> fold_left (fun acc x => insert_sorted x acc) l acc = acc ++ l).
  { induction H as [|x l Hx _ IH]; intros acc Hacc; [rewrite app_nil_r; reflexivity|].
    cbn [fold_left]. rewrite (insert_sorted_zero x acc Hx Hacc). rewrite IH.
    - rewrite <- app_assoc. reflexivity.
    - apply Forall_app. split; [exact Hacc|constructor; [exact Hx|constructor]]. }
  apply (G [] (Forall_nil _)).
Qed.

(* ---- rendering the floats commutes with listing the tables ------------------------------------------------------ *)
Section Render.
  Variable ftext : fval -> bytes.
  Definition r3 (x : tbl * list key * bool) : tbl * list key * bool := (render_tbl ftext (fst (fst x)), snd (fst x), snd x).

  Lemma render_tbl_eq items d im dt p sp :
    render_tbl ftext (Tbl items d im dt p sp)
    = Tbl (map (fun kv => match kv with (k, i0) => (k, render_item ftext i0) end) items) d im dt p sp.
  Proof. reflexivity. Qed.
  Lemma render_item_table t : render_item ftext (ITable t) = ITable (render_tbl ftext t). Proof. reflexivity. Qed.
  Lemma render_item_aot ts sp : render_item ftext (IAot ts sp) = IAot (map (render_tbl ftext) ts) sp. Proof. reflexivity. Qed.

  Lemma tbl_tables_render : forall t p a, tbl_tables (render_tbl ftext t) p a = map r3 (tbl_tables t p a).
  Proof.
    fix IH 1. intros [items d im dt pos sp] p a. rewrite render_tbl_eq. cbn [tbl_tables]. rewrite map_app. f_equal.
    - destruct dt; reflexivity.
    - induction items as [|[k i0] items IHi]; [reflexivity|]. cbn [map flat_map fst snd]. rewrite map_app, <- IHi. f_equal.
      destruct i0 as [|v|sub|ts sp0]; [reflexivity|reflexivity| |].
      + rewrite render_item_table. apply IH.
      + rewrite render_item_aot. induction ts as [|t0 ts IHt]; [reflexivity|]. cbn [map flat_map]. rewrite map_app, <- IHt. f_equal. apply IH.
  Qed.
End Render.

(* ---- visit_table on one constructed table ------------------------------------------------------------------------ *)
Section Visit.
  Variable ftext : fval -> bytes.
  Variable PS : scalar -> Prop.
  Variable PK : bytes -> Prop.

  Definition val_lines (l : list (bytes * item)) : list dline :=
    flat_map (fun kv => match snd kv with IValue v => [LKeyVal (fst kv) v] | _ => [] end) l.

  (* the entries of one table, looked at without descending *)
  Definition entries_flat (l : list (bytes * item)) : Prop :=
    forall k it, In (k, it) l ->
      match it with
      | IValue v => BuiltValue PS PK v
      | ITable sub => t_dotted sub = false
      | IAot _ _ => True
      | INone => False
      end.

  Definition the_tbl (im : bool) (l : list (bytes * item)) (pos : option N) : tbl :=
    Tbl (mk_tbl_items l) decor_default im false pos None.

  Lemma table_values_flat fuel im l pos : entries_flat l ->
    table_values (S fuel) [] (t_items (render_tbl ftext (the_tbl im l pos)))
    = flat_map (fun kv => match snd kv with IValue v => [([key_new (fst kv)], render_value ftext v)] | _ => [] end) l.
  Proof.
    intro Hf. unfold the_tbl. rewrite render_tbl_eq. cbn [t_items table_values]. unfold mk_tbl_items. rewrite map_map.
    induction l as [|[k it] l IH]; [reflexivity|]. cbn [map flat_map fst snd].
    rewrite IH by (intros k' it' H'; apply (Hf k' it'); right; exact H'). f_equal.
    pose proof (Hf k it (or_introl eq_refl)) as Hit.
    destruct it as [|v|sub|ts sp0]; [contradiction| | |reflexivity].
    - rewrite render_item_value. pose proof (built_not_dotted ftext PS PK v Hit) as Hnd.
      destruct (render_value ftext v) as [s r d|vals tr c d sp1|items pre im0 dt d sp1]; try reflexivity.
      destruct dt; [contradiction|reflexivity].
    - rewrite render_item_table. destruct sub as [si sd sim sdt sp1 ss]. cbn [t_dotted] in Hit. subst sdt.
      rewrite render_tbl_eq. reflexivity.
  Qed.

  (* is the header of the table written?  always for an array element; for a table unless it is marked
     implicit and has no key/value line (encode.rs visit_table: is_visible_std_table) *)
  Definition shown (a im : bool) (l : list (bytes * item)) : bool :=
    a || negb (im && match val_lines l with [] => true | _ => false end).
  Definition table_lines (P : list bytes) (a im first : bool) (l : list (bytes * item)) : list dline :=
    (match P with
     | [] => []
     | _ => if shown a im l then (if first then [] else [LBlank]) ++ [LHeader a P] else []
     end) ++ val_lines l.
  Definition table_first (P : list bytes) (a im first : bool) (l : list (bytes * item)) : bool :=
    match P with
    | [] => (match val_lines l with [] => first | _ => false end)
    | _ => if shown a im l then false else first
    end.

  Lemma lines_txt_app a b : lines_txt ftext (a ++ b) = lines_txt ftext a ++ lines_txt ftext b.
  Proof. unfold lines_txt. rewrite map_app, concat_app. reflexivity. Qed.

  Lemma body_lines_txt l : entries_flat l ->
    flat_map (fun '(kp, v) => encode_key_path kp DEFAULT_KEY_DECOR ++ [x3d]
                              ++ encode_value (S (value_size v)) v DEFAULT_VALUE_DECOR ++ [x0a])
             (flat_map (fun kv => match snd kv with IValue v => [([key_new (fst kv)], render_value ftext v)] | _ => [] end) l)
    = lines_txt ftext (val_lines l).
  Proof.
    intro Hf. unfold val_lines. induction l as [|[k it] l IH]; [reflexivity|]. cbn [flat_map fst snd].
    rewrite flat_map_app, lines_txt_app, IH by (intros k' it' H'; apply (Hf k' it'); right; exact H'). f_equal.
    pose proof (Hf k it (or_introl eq_refl)) as Hit.
    destruct it as [|v|sub|ts sp0]; [contradiction| |reflexivity|reflexivity].
    cbn [flat_map app]. unfold lines_txt. cbn [map concat line_txt]. rewrite !app_nil_r.
    rewrite (encode_value_txt ftext PS PK v Hit) by (rewrite (value_size_render ftext PS PK v Hit); lia).
    rewrite <- ?app_assoc. reflexivity.
  Qed.

  Lemma children_nil l :
    (flat_map (fun kv => match snd kv with IValue v => [([key_new (fst kv)], render_value ftext v)] | _ => [] end) l = [])
    <-> val_lines l = [].
  Proof.
    unfold val_lines. induction l as [|[k it] l IH]; [tauto|]. cbn [flat_map fst snd].
    destruct it; cbn [app]; try exact IH. split; discriminate.
  Qed.

  Lemma visit_table_flat P a im first l pos : entries_flat l ->
    visit_table (render_tbl ftext (the_tbl im l pos)) (map key_new P) a first
    = (lines_txt ftext (table_lines P a im first l), table_first P a im first l).
  Proof.
    intro Hf. unfold visit_table.
    rewrite (table_values_flat _ im l pos Hf).
    set (children := flat_map (fun kv => match snd kv with IValue v => [([key_new (fst kv)], render_value ftext v)] | _ => [] end) l).
    assert (Hnil := children_nil l). fold children in Hnil.
    rewrite (body_lines_txt l Hf : flat_map _ children = _).
    unfold table_lines, table_first. rewrite lines_txt_app.
    destruct P as [|k0 P'].
    - cbn [map]. destruct children as [|c cs].
      + rewrite (proj1 Hnil eq_refl). reflexivity.
      + destruct (val_lines l) as [|x xs] eqn:Ev; [destruct Hnil as [_ Hn]; discriminate (Hn eq_refl)|]. reflexivity.
    - assert (Ep : exists k1 tl, map key_new (k0 :: P') = k1 :: tl) by (cbn [map]; eauto).
      destruct Ep as (k1 & tl & Ep). rewrite Ep.
      assert (Eim : t_implicit (render_tbl ftext (the_tbl im l pos)) = im) by reflexivity. rewrite Eim.
      assert (Enc : match children with [] => true | _ => false end = match val_lines l with [] => true | _ => false end).
      { destruct children as [|c cs].
        - rewrite (proj1 Hnil eq_refl). reflexivity.
        - destruct (val_lines l) as [|x xs] eqn:Ev; [destruct Hnil as [_ Hn]; discriminate (Hn eq_refl)|reflexivity]. }
      rewrite Enc. rewrite <- Ep. clear Ep Enc.
      (* keys made by Key::new have no decor: the header is printed as encode_key_path prints it *)
      assert (Hb : leaf_blank (map key_new (k0 :: P')) = true).
      { apply leaf_blank_default. intros k Hk. apply in_map_iff in Hk as (x & <- & _). reflexivity. }
      destruct (header_blank (map key_new (k0 :: P')) DEFAULT_KEY_PATH_DECOR Hb) as [Hh Hc]. rewrite Hh, Hc. clear Hb Hh Hc.
      assert (Edec : t_decor (render_tbl ftext (the_tbl im l pos)) = decor_default) by reflexivity. rewrite Edec.
      unfold decor_prefix, decor_suffix, shown. cbn [d_prefix d_suffix decor_default].
      destruct a; cbn [orb].
      + destruct first; cbn [fst snd DEFAULT_TABLE_DECOR]; unfold lines_txt; cbn [map concat line_txt app];
          unfold path_txt; rewrite ?app_nil_r, <- ?app_assoc; reflexivity.
      + destruct (negb (im && match val_lines l with [] => true | _ => false end)); [|reflexivity].
        destruct first; cbn [fst snd DEFAULT_TABLE_DECOR]; unfold lines_txt; cbn [map concat line_txt app];
          unfold path_txt; rewrite ?app_nil_r, <- ?app_assoc; reflexivity.
  Qed.
End Visit.

(* ---- induction over constructed items / tables -------------------------------------------------------------------- *)
Lemma Built_strong (PS : scalar -> Prop) (PK : bytes -> Prop)
      (Pi : item -> Prop) (Pe : list (bytes * item) -> Prop) :
  (forall v, BuiltValue PS PK v -> Pi (IValue v)) ->
  (forall im l, BuiltEntries PS PK l -> (im = true -> existsb (fun kv => item_prints (snd kv)) l = true) -> Pe l ->
                Pi (ITable (Tbl (mk_tbl_items l) decor_default im false None None))) ->
  (forall ls, Forall (fun x => BuiltEntries PS PK (snd x)) ls -> Forall (fun x => Pe (snd x)) ls ->
              Pi (IAot (map (fun x => Tbl (mk_tbl_items (snd x)) decor_default (fst x) false None None) ls) None)) ->
  (forall l, NoDup (map fst l) -> Forall PK (map fst l) -> Forall (BuiltItem PS PK) (map snd l) -> Forall Pi (map snd l) -> Pe l) ->
  (forall it, BuiltItem PS PK it -> Pi it) /\ (forall l, BuiltEntries PS PK l -> Pe l).
Proof.
  intros Hv Ht Ha He.
  assert (G : forall it, BuiltItem PS PK it -> Pi it).
  { fix IHi 2. intros it Hit. destruct Hit as [v Hb | im l Hl Hp | ls Hls].
    - apply Hv, Hb.
    - apply Ht; [exact Hl|exact Hp|]. destruct Hl as [l Hnd Hk Hitems]. apply He; try assumption.
      induction Hitems as [|x xs Hx _ IHxs]; constructor; [apply IHi, Hx|exact IHxs].
    - apply Ha; [exact Hls|]. induction Hls as [|l ls Hl _ IHls]; constructor; [|exact IHls].
      destruct Hl as [l0 Hnd Hk Hitems]. apply He; try assumption.
      induction Hitems as [|x xs Hx _ IHxs]; constructor; [apply IHi, Hx|exact IHxs]. }
  split; [exact G|]. intros l [l' Hnd Hk Hitems]. apply He; try assumption.
  rewrite Forall_forall in *. intros it Hin. apply G, Hitems, Hin.
Qed.
