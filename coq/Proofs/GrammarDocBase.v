(* Proofs/GrammarDocBase.v — C01/C02 layer L2/L3 glue for documents: one statement of the
   document against one step of the definition rules.
     - the span bookkeeping of dotted tables (on_keyval_sp) does not touch what C09's invariant
       `Inv` (Proofs/DefsEquivSim.v) looks at, so C09's simulation `mstep_sim` applies to the
       functions document.rs actually calls;
     - a step on tree values (V = value) is a step on data (V = dval) through `absv`
       (Proofs/GrammarParam.v), in both directions. *)
From TV Require Import Base.Prelude Base.Utf8 Base.Winnow Gen.Consts Spec.Abnf Spec.Lex Spec.Defs Spec.Syntax.
From TV Require Import Model.Trivia Model.Strings Model.Datetime Model.Numbers Model.Tree Model.Parse Model.Document.
From TV Require Import Proofs.DefsEquivBase Proofs.DefsEquivSpec Proofs.DefsEquivKv Proofs.DefsEquivWalk
                       Proofs.DefsEquivSim Proofs.DefsEquivMain.
From TV Require Import Proofs.LexEquivBase Proofs.GrammarBase Proofs.GrammarParam Proofs.GrammarValueBase.
Require Import Lia.

(* ---- set_dotted_spans only rewrites spans ---------------------------------------------------------- *)
Lemma kv_set_same_abs m k k' it it' :
  kv_get m k = Some (k', it) -> abs_item it' = abs_item it -> abs_items (kv_set m k it') = abs_items m.
Proof.
  induction m as [|[k0 v0] m IH]; cbn [kv_get kv_set]; [discriminate|].
  destruct (bytes_eqb (k_key k0) k); intros E H.
  - injection E as <- <-. unfold abs_items. cbn [map]. unfold abs_kv at 1 3. cbn [fst snd]. rewrite H. reflexivity.
  - unfold abs_items in *. cbn [map]. rewrite (IH E H). reflexivity.
Qed.

Lemma kv_set_same_mok m k k' it it' :
  kv_get m k = Some (k', it) -> mok_item it' = mok_item it -> mok_items (kv_set m k it') = mok_items m.
Proof.
  induction m as [|[k0 v0] m IH]; cbn [kv_get kv_set]; [discriminate|].
  destruct (bytes_eqb (k_key k0) k); intros E H.
  - injection E as <- <-. unfold mok_items. cbn [forallb snd]. rewrite H. reflexivity.
  - unfold mok_items in *. cbn [forallb snd]. rewrite (IH E H). reflexivity.
Qed.

Lemma set_dotted_spans_facts : forall path t e,
  abs_tbl (set_dotted_spans t path e) = abs_tbl t /\ mok_tbl (set_dotted_spans t path e) = mok_tbl t
  /\ t_implicit (set_dotted_spans t path e) = t_implicit t /\ t_dotted (set_dotted_spans t path e) = t_dotted t.
Proof.
  induction path as [|k ptl IH]; intros t e; cbn [set_dotted_spans]; [auto|].
  destruct (kv_get (t_items t) (k_key k)) as [[k' it]|] eqn:G; [|auto].
  destruct it as [|v|sub|ts sp]; auto.
  set (sub1 := if t_dotted sub
               then match key_span k, e with Some ks, Some e0 => t_set_span sub (widen (t_span sub) ks e0) | _, _ => sub end
               else sub).
  assert (F1 : abs_tbl sub1 = abs_tbl sub /\ mok_tbl sub1 = mok_tbl sub /\ t_implicit sub1 = t_implicit sub
               /\ t_dotted sub1 = t_dotted sub).
  { unfold sub1. destruct (t_dotted sub) eqn:Ed; [|auto]. destruct (key_span k); [|auto]. destruct e; [|auto].
    rewrite abs_set_span, mok_set_span, implicit_set_span, dotted_set_span. auto. }
  destruct F1 as (A1 & M1 & I1 & D1). destruct (IH sub1 e) as (A2 & M2 & I2 & D2).
  rewrite abs_set_items, mok_set_items, implicit_set_items, dotted_set_items.
  rewrite (abs_tbl_eq t), (mok_tbl_eq t). split; [|split; [|auto]].
  - eapply kv_set_same_abs; [exact G|]. cbn [abs_item]. rewrite A2, A1. f_equal.
    apply kind_of_flags; [rewrite I2; exact I1|rewrite D2; exact D1].
  - eapply kv_set_same_mok; [exact G|]. cbn [mok_item]. rewrite M2, M1. reflexivity.
Qed.

Definition with_spans (st : pstate) (path : list key) (e : option N) : pstate :=
  mkState (st_root st) (st_trailing st) (st_position st) (set_dotted_spans (st_current st) path e)
          (st_is_array st) (st_path st).

Lemma on_keyval_sp_eq st path k v :
  on_keyval_sp st path k v =
  match on_keyval st path k v with COk st' => COk (with_spans st' path (item_end v)) | CErr c => CErr c | CPanic s => CPanic s end.
Proof. unfold on_keyval_sp, with_spans. destruct (on_keyval st path k v); reflexivity. Qed.

Lemma Inv_with_spans st S path e : Inv st S -> Inv (with_spans st path e) S.
Proof.
  destruct S as [T cp]. unfold Inv, with_spans. cbn [st_path st_root st_current st_is_array].
  destruct (set_dotted_spans_facts path (st_current st) e) as (A & M & I & D). rewrite A, M, I, D. exact (fun H => H).
Qed.

(* ---- one statement: the model step against the spec step on tree values --------------------------- *)
Lemma spec_step_decides (S : sstate value) m : spec_step false S m <> RUndecided.
Proof. apply spec_step_code_decides. Qed.

Lemma kv_step_sound st S path k v st1 :
  Inv st S -> on_keyval_sp st path k (IValue v) = COk st1 ->
  exists S1, spec_step false S (SKeyVal (keys path ++ [k_key k]) v) = ROk S1 /\ Inv st1 S1.
Proof.
  intros HI H. rewrite on_keyval_sp_eq in H.
  pose proof (mstep_sim st S (MKeyVal path k v) HI) as Hs. cbn [mstep erase] in Hs.
  destruct (on_keyval st path k (IValue v)) as [st0| |] eqn:E; try discriminate. injection H as <-.
  destruct (spec_step false S (SKeyVal (keys path ++ [k_key k]) v)) as [S1| |] eqn:Es; cbn [simstep] in Hs.
  - destruct Hs as (st' & E' & HI'). injection E' as <-. exists S1. split; [reflexivity|]. apply Inv_with_spans, HI'.
  - destruct Hs as [c Hc]. discriminate.
  - exfalso. apply (spec_step_decides S _ Es).
Qed.

Lemma kv_step_complete st S path k v S1 :
  Inv st S -> spec_step false S (SKeyVal (keys path ++ [k_key k]) v) = ROk S1 ->
  exists st1, on_keyval_sp st path k (IValue v) = COk st1 /\ Inv st1 S1.
Proof.
  intros HI Es. rewrite on_keyval_sp_eq.
  pose proof (mstep_sim st S (MKeyVal path k v) HI) as Hs. cbn [mstep erase] in Hs. rewrite Es in Hs. cbn [simstep] in Hs.
  destruct Hs as (st' & E' & HI'). rewrite E'. eexists. split; [reflexivity|]. apply Inv_with_spans, HI'.
Qed.

Definition hdr_stmt (arr : bool) (p : list bytes) : stmt value := if arr then SArrHeader p else SHeader p.

Lemma hdr_step_sound arr st S pre k tr sp st1 :
  Inv st S -> on_header arr st (pre ++ [k]) tr sp = COk st1 ->
  exists S1, spec_step false S (hdr_stmt arr (keys pre ++ [k_key k])) = ROk S1 /\ Inv st1 S1.
Proof.
  intros HI H. pose proof (mstep_sim st S (MHeader arr pre k tr sp) HI) as Hs. cbn [mstep] in Hs. rewrite H in Hs.
  assert (Ee : erase (MHeader arr pre k tr sp) = hdr_stmt arr (keys pre ++ [k_key k])) by (destruct arr; reflexivity).
  rewrite Ee in Hs.
  destruct (spec_step false S (hdr_stmt arr (keys pre ++ [k_key k]))) as [S1| |] eqn:Es; cbn [simstep] in Hs.
  - destruct Hs as (st' & E' & HI'). injection E' as <-. exists S1. auto.
  - destruct Hs as [c Hc]. discriminate.
  - exfalso. apply (spec_step_decides S _ Es).
Qed.

Lemma hdr_step_complete arr st S pre k tr sp S1 :
  Inv st S -> spec_step false S (hdr_stmt arr (keys pre ++ [k_key k])) = ROk S1 ->
  exists st1, on_header arr st (pre ++ [k]) tr sp = COk st1 /\ Inv st1 S1.
Proof.
  intros HI Es. pose proof (mstep_sim st S (MHeader arr pre k tr sp) HI) as Hs. cbn [mstep] in Hs.
  assert (Ee : erase (MHeader arr pre k tr sp) = hdr_stmt arr (keys pre ++ [k_key k])) by (destruct arr; reflexivity).
  rewrite Ee, Es in Hs. cbn [simstep] in Hs. exact Hs.
Qed.

(* ---- the same step on data ------------------------------------------------------------------------ *)
Definition dstate (S : sstate value) : sstate dval := state_map absv S.

Lemma step_to_data strict S m S1 :
  spec_step strict S m = ROk S1 -> spec_step strict (dstate S) (stmt_map absv m) = ROk (dstate S1).
Proof. intro H. unfold dstate. rewrite spec_step_smap, H. reflexivity. Qed.

Lemma step_from_data strict S m X :
  spec_step strict (dstate S) (stmt_map absv m) = ROk X -> exists S1, spec_step strict S m = ROk S1 /\ dstate S1 = X.
Proof.
  unfold dstate. rewrite spec_step_smap. destruct (spec_step strict S m) as [S1| |]; cbn [rmap]; try discriminate.
  intro H. injection H as <-. eauto.
Qed.

(* the abstract statement made by a parsed key/value pair or header *)
Lemma kv_stmt_den path k v p a :
  p = keys path ++ [k_key k] -> absv v = den a ->
  stmt_map absv (SKeyVal (keys path ++ [k_key k]) v) = stmt_den (SKeyVal p a).
Proof. intros -> E. cbn [stmt_map stmt_den]. rewrite E. reflexivity. Qed.

Lemma hdr_stmt_den arr p :
  stmt_map absv (hdr_stmt arr p) = stmt_den (if arr then SArrHeader p else SHeader p).
Proof. destruct arr; reflexivity. Qed.

(* folding: one more statement at the front *)
Lemma spec_fold_cons {V} strict (S : sstate V) m l :
  spec_fold strict S (m :: l) = match spec_step strict S m with ROk S1 => spec_fold strict S1 l | RInvalid => RInvalid | RUndecided => RUndecided end.
Proof. reflexivity. Qed.

Lemma spec_fold_app {V} strict l1 : forall (S : sstate V) l2,
  spec_fold strict S (l1 ++ l2) =
  match spec_fold strict S l1 with ROk S1 => spec_fold strict S1 l2 | RInvalid => RInvalid | RUndecided => RUndecided end.
Proof.
  induction l1 as [|m l1 IH]; intros S l2; [reflexivity|]. cbn [app]. rewrite !spec_fold_cons.
  destruct (spec_step strict S m) as [S1| |]; [apply IH|reflexivity|reflexivity].
Qed.
