(* Proofs/PrintBackEnc.v — C03: inputs as windows into the source, what a recorded span prints,
   and unfolding equations for Model/Encode.v (nested fixes as top-level functions). *)
From TV Require Import Base.Prelude Base.Utf8 Base.Winnow Gen.Consts.
From TV Require Import Model.Datetime Model.Numbers Model.Tree Model.Parse Model.Document Model.Write Model.Encode.
From TV Require Import Proofs.LexEquivBase Proofs.TilingDefs Proofs.PrintBackBase.
Require Import Lia ZifyBool ZifyN ZifyNat.

(* ---- an input reading the source s ----------------------------------------------------------------- *)
Definition isrc (s : bytes) (i : input) : Prop := exists p, s = p ++ rest i /\ pos i = N.of_nat (length p).

Lemma isrc_new s : isrc s (new_input s).
Proof. exists []. split; reflexivity. Qed.

Lemma isrc_splits s i t i' : isrc s i -> splits i t i' -> isrc s i' /\ slice s (pos i) (pos i') = t.
Proof.
  intros (p & Es & Ep) [R ->]. split.
  - exists (p ++ t). split; [rewrite Es, R, app_assoc; reflexivity|]. rewrite pos_adv, Ep, app_length. lia.
  - unfold slice. rewrite pos_adv, Ep. replace (N.to_nat (N.of_nat (length p) + N.of_nat (length t) - N.of_nat (length p))) with (length t) by lia.
    rewrite Nat2N.id, Es, skipn_app_len, R. apply firstn_app_len.
Qed.

Lemma isrc_set_depth s i d : isrc s i -> isrc s (set_depth d i).
Proof. exact (fun H => H). Qed.

(* ---- what a recorded span prints -------------------------------------------------------------------- *)
Lemma strip_cr_ncr t : strip_cr t = ncr t.
Proof. reflexivity. Qed.

Lemma span_encode s a b t dflt : slice s a b = t -> (t = [] <-> a = b) ->
  raw_encode (traw s (raw_with_span (a, b))) dflt = ncr t.
Proof.
  intros Hs Hab. unfold raw_with_span. cbn [fst snd]. destruct (a =? b)%N eqn:E.
  - apply N.eqb_eq in E. rewrite (proj2 Hab E). reflexivity.
  - cbn [traw]. rewrite Hs. destruct t as [|c t']; [apply N.eqb_neq in E; exfalso; apply E, Hab; reflexivity|reflexivity].
Qed.

Lemma splits_empty_iff i t i' : splits i t i' -> (t = [] <-> pos i = pos i').
Proof.
  intros [_ ->]. rewrite pos_adv. split; [intros ->; cbn [length]; lia|]. destruct t; [reflexivity|cbn [length]; lia].
Qed.

Lemma span_prints s i t i' dflt : isrc s i -> splits i t i' ->
  raw_encode (traw s (raw_with_span (pos i, pos i'))) dflt = ncr t.
Proof. intros Hi S. apply span_encode; [apply (isrc_splits s i t i' Hi S)|apply (splits_empty_iff i t i' S)]. Qed.

Lemma span_repr s i t i' : isrc s i -> splits i t i' ->
  repr_str (toraw s (Some (raw_with_span (pos i, pos i')))) = Some t.
Proof.
  intros Hi S. destruct (isrc_splits s i t i' Hi S) as [_ Hs]. pose proof (splits_empty_iff i t i' S) as Hab.
  unfold raw_with_span. cbn [fst snd]. destruct (pos i =? pos i')%N eqn:E.
  - apply N.eqb_eq in E. rewrite (proj2 Hab E). reflexivity.
  - cbn [toraw traw]. rewrite Hs. destruct t as [|c t']; [apply N.eqb_neq in E; exfalso; apply E, Hab; reflexivity|reflexivity].
Qed.

(* ---- Encode: the nested loops as functions ----------------------------------------------------------- *)
Fixpoint enc_elems (f : nat) (first : bool) (l : list item) : bytes :=
  match l with
  | [] => []
  | it :: tl =>
    (match it with
     | IValue e => (if first then [] else [x2c])
                   ++ encode_value f e (if first then DEFAULT_LEADING_VALUE_DECOR else DEFAULT_VALUE_DECOR)
     | _ => []
     end) ++ enc_elems f (match it with IValue _ => false | _ => first end) tl
  end.

Fixpoint enc_kvs (f len : nat) (i : nat) (l : list (list key * value)) : bytes :=
  match l with
  | [] => []
  | (kp, e) :: tl =>
    (if Nat.eqb i 0 then [] else [x2c])
    ++ encode_key_path kp DEFAULT_INLINE_KEY_DECOR ++ [x3d]
    ++ encode_value f e (if Nat.eqb i (len - 1) then DEFAULT_TRAILING_VALUE_DECOR else DEFAULT_VALUE_DECOR)
    ++ enc_kvs f len (S i) tl
  end.

Lemma enc_scalar f sc r d dflt :
  encode_value (S f) (VScalar sc r d) dflt =
  decor_prefix d (fst dflt) ++ (match repr_str r with Some t => t | None => scalar_default_repr sc end) ++ decor_suffix d (snd dflt).
Proof. reflexivity. Qed.

Lemma enc_array f vals tr comma d sp dflt :
  encode_value (S f) (VArray vals tr comma d sp) dflt =
  decor_prefix d (fst dflt) ++ [x5b] ++ enc_elems f true vals
  ++ (if comma && negb (match vals with [] => true | _ => false end) then [x2c] else [])
  ++ raw_encode tr [] ++ [x5d] ++ decor_suffix d (snd dflt).
Proof.
  cbn [encode_value]. do 2 f_equal. f_equal.
  generalize true. induction vals as [|it tl IH]; intro first; [reflexivity|]. cbn [enc_elems]. rewrite <- IH. reflexivity.
Qed.

Lemma enc_inline f items pre im dt d sp dflt :
  encode_value (S f) (VInline items pre im dt d sp) dflt =
  let children := inline_values (S (value_size (VInline items pre im dt d sp))) [] items in
  decor_prefix d (fst dflt) ++ [x7b] ++ raw_encode pre []
  ++ enc_kvs f (length children) 0 children ++ [x7d] ++ decor_suffix d (snd dflt).
Proof.
  cbn [encode_value]. cbv zeta.
  set (children := inline_values (S (value_size (VInline items pre im dt d sp))) [] items).
  set (len := length children). clearbody len. clearbody children.
  do 3 f_equal. f_equal.
  enough (H : forall i,
    (fix kvs_ (i0 : nat) (l : list (list key * value)) {struct l} : bytes :=
       match l with
       | [] => []
       | (kp, e) :: tl =>
         (if Nat.eqb i0 0 then [] else [x2c]) ++ encode_key_path kp DEFAULT_INLINE_KEY_DECOR ++ [x3d]
         ++ encode_value f e (if Nat.eqb i0 (len - 1) then DEFAULT_TRAILING_VALUE_DECOR else DEFAULT_VALUE_DECOR)
         ++ kvs_ (S i0) tl
       end) i children = enc_kvs f len i children) by apply H.
  induction children as [|[kp e] tl IH]; intro i; [reflexivity|]. cbn [enc_kvs]. rewrite <- IH. reflexivity.
Qed.
