(* Proofs/GrammarValueComplete.v — C01/C02 layer L2, values, completeness: every `val` of the
   grammar (Spec/Syntax.v val_tok) that is well-defined (aval_ok: its inline tables obey the
   definition rules) and within the implementation limits (within: nesting, i64, binary64),
   followed by a continuation that can follow a value (vfollow), is accepted by `value_`
   with exactly that text and a tree value carrying the data it denotes.  Induction on the fuel
   (= a bound on the text length); inside an array / inline table, induction on the derivation
   of array-values / inline-table-keyvals, following winnow's `separated` (reset before the
   separator when the element after it fails softly: `[1, 2, ]`). *)
From TV Require Import Base.Prelude Base.Utf8 Base.Winnow Gen.Consts Spec.Abnf Spec.Lex Spec.Defs Spec.Syntax.
From TV Require Import Model.Trivia Model.Strings Model.Datetime Model.Numbers Model.Tree Model.Parse.
From TV Require Import Proofs.ConstsOk Proofs.NoPanicBase Proofs.NoPanicLex Proofs.NoPanicValue Proofs.NumbersRT_Value.
From TV Require Import Proofs.DefsEquivBase Proofs.DefsEquivInline.
From TV Require Import Proofs.LexEquivBase Proofs.LexEquivTrivia Proofs.LexEquivInt Proofs.LexEquivFloat
                       Proofs.LexEquivStrings Proofs.LexEquivString Proofs.LexEquivBool Proofs.LexEquivDatetime
                       Proofs.LexEquivKey Proofs.GrammarSep Proofs.GrammarBase Proofs.GrammarValueBase
                       Proofs.GrammarValueTok Proofs.GrammarValueSound.
Require Import Lia ZifyBool ZifyN ZifyNat.

(* ---- first bytes of values ------------------------------------------------------------------------ *)
Definition vhead (b : byte) : Prop :=
  b = x22 \/ b = x27 \/ b = x74 \/ b = x66 \/ b = x5b \/ b = x7b \/ num_start b = true \/ b = x69 \/ b = x6e.

Lemma float_tok_start t f : float_tok t f -> exists c tl, t = c :: tl /\ (num_start c = true \/ c = x69 \/ c = x6e).
Proof.
  assert (Hdec : forall sg neg ip ipd tl, sign sg neg -> unsigned_dec_int ip ipd ->
            exists c tl', sg ++ ip ++ tl = c :: tl' /\ (num_start c = true \/ c = x69 \/ c = x6e)).
  { intros sg neg ip ipd tl Hs Hu. destruct (unsigned_facts ip ipd Hu) as (_ & _ & _ & _ & b & u' & -> & Hb).
    destruct (sign_num_start sg neg b (u' ++ tl) _ Hs Hb eq_refl) as (c & tl' & E & Hc).
    exists c, tl'. split; [rewrite <- E; reflexivity|auto]. }
  intro H. inversion H as [sg neg ip ipd ex e Hs Hu He|sg neg ip ipd fr frd Hs Hu Hfr|sg neg ip ipd fr frd ex e Hs Hu Hfr He|sg neg Hs|sg neg Hs];
    subst.
  - apply (Hdec sg neg ip ipd ex Hs Hu).
  - apply (Hdec sg neg ip ipd fr Hs Hu).
  - apply (Hdec sg neg ip ipd (fr ++ ex) Hs Hu).
  - destruct (sign_cases sg neg Hs) as [-> | [-> | ->]]; cbn [app]; eexists _, _; split; try reflexivity; auto.
  - destruct (sign_cases sg neg Hs) as [-> | [-> | ->]]; cbn [app]; eexists _, _; split; try reflexivity; auto.
Qed.

Lemma val_tok_head t a : val_tok t a -> exists b t', t = b :: t' /\ vhead b.
Proof.
  unfold vhead. intros [t0 s H|t0 b H|w Hw|vs l w Hv Hw|w Hw|w1 kvs l w2 H1 H2 H3|t0 d H|t0 f H|t0 z H].
  - destruct (string_tok_head _ _ H) as (t' & [-> | ->]); eexists _, _; split; try reflexivity; auto.
  - destruct H as [[-> _] | [-> _]]; eexists _, _; split; try reflexivity; auto.
  - eexists _, _; split; [reflexivity|]. auto 10.
  - eexists _, _; split; [reflexivity|]. auto 10.
  - eexists _, _; split; [reflexivity|]. auto 10.
  - eexists _, _; split; [reflexivity|]. auto 10.
  - destruct (date_time_tok_head _ _ H) as (b & t' & -> & Hb). exists b, t'. split; [reflexivity|].
    do 6 right. left. apply digit_num_start, Hb.
  - destruct (float_tok_start _ _ H) as (c & tl & -> & Hc). exists c, tl. split; [reflexivity|].
    destruct Hc as [Hc | [-> | ->]]; auto 10.
  - destruct (integer_tok_start _ _ H) as (c & tl & -> & Hc). exists c, tl. split; [reflexivity|]. auto 10.
Qed.

Lemma num_start_bytes b : num_start b = true -> (48 <= b2n b <= 57)%N \/ b = x2b \/ b = x2d.
Proof.
  unfold num_start, NumbersRT_Lex.is_sign. intro H. apply orb_true_iff in H as [H | H].
  - left. unfold is_digit in H. lia.
  - apply orb_true_iff in H as [H | H]; apply byte_eqb_eq in H; auto.
Qed.

Lemma vhead_facts b : vhead b ->
  wschar b = false /\ b <> x23 /\ b <> x0a /\ b <> x0d /\ b <> x5d /\ b <> x2c /\ b <> x7d.
Proof.
  intros [-> | [-> | [-> | [-> | [-> | [-> | [H | [-> | ->]]]]]]]]; try (repeat split; discriminate).
  destruct (num_start_bytes b H) as [Hd | [-> | ->]]; try (repeat split; discriminate).
  split; [cls; lia|]. repeat split; intros ->; cbn in Hd; lia.
Qed.

Lemma vhead_wscn_stop b tl : vhead b -> wscn_stop (b :: tl).
Proof. intro H. destruct (vhead_facts b H) as (H1 & H2 & H3 & H4 & _). cbn [wscn_stop]. auto. Qed.

Lemma wscn_tok_head w : wscn_tok w -> w = [] \/ exists b tl, w = b :: tl /\ (wschar b = true \/ b = x23 \/ b = x0a \/ b = x0d).
Proof.
  intros [|b t Hb _|c nl t Hc Hn _]; [auto| |]; right.
  - exists b, t. auto.
  - destruct Hc as [-> | (u & -> & _)].
    + destruct (newline_tok_head nl Hn) as (b & tl & -> & Hb). exists b, (tl ++ t). split; [reflexivity|]. tauto.
    + eexists _, _. split; [reflexivity|]. auto.
Qed.

(* what follows an array element and its trailing trivia: "," or "]" *)
Definition asep_stop (r : bytes) : Prop := exists b tl, r = b :: tl /\ (b = x2c \/ b = x5d).
(* ... an inline-table pair and its trailing whitespace: "," or "}" *)
Definition isep_stop (r : bytes) : Prop := exists b tl, r = b :: tl /\ (b = x2c \/ b = x7d).

Lemma asep_wscn_stop r : asep_stop r -> wscn_stop r.
Proof. intros (b & tl & -> & [-> | ->]); cbn [wscn_stop]; repeat split; discriminate. Qed.
Lemma asep_vstop r : asep_stop r -> vstop r.
Proof. intros (b & tl & -> & [-> | ->]); cbn [vstop]; auto 10. Qed.
Lemma isep_vstop r : isep_stop r -> vstop r.
Proof. intros (b & tl & -> & [-> | ->]); cbn [vstop]; auto 10. Qed.
Lemma isep_stops_ws r : isep_stop r -> stops wschar r.
Proof. intros (b & tl & -> & [-> | ->]); reflexivity. Qed.

Lemma check_recursion_complete {A} (p : parser A) i a t :
  S (depth i) < LIMIT -> p (set_depth (S (depth i)) i) = Ok a (adv t (set_depth (S (depth i)) i)) ->
  check_recursion p i = Ok a (adv t i).
Proof.
  intros Hlim E. unfold check_recursion. cbv zeta. cbn [set_depth depth].
  destruct (Nat.leb LIMIT (S (depth i))) eqn:Q; [apply Nat.leb_le in Q; lia|].
  rewrite E. destruct i as [s p0 d0]. reflexivity.
Qed.

Lemma span_ws_complete i w r : rest i = w ++ r -> ws_tok w -> stops wschar r ->
  span_ ws i = Ok (pos i, pos (adv w i)) (adv w i).
Proof. intros H Hw Hr. apply (span_ok _ _ w). apply (ws_complete i w r H Hw Hr). Qed.

Lemma span_wscn_complete i w r : wscn_tok w -> rest i = w ++ r -> wscn_stop r ->
  span_ ws_comment_newline i = Ok (pos i, pos (adv w i)) (adv w i).
Proof. intros Hw H Hr. apply (span_ok _ _ tt). apply (wscn_complete i w r Hw H Hr). Qed.

Definition vcomplete_at (n : nat) (p : parser value) : Prop :=
  forall t a i r, length t < n -> val_tok t a -> rest i = t ++ r -> vfollow r ->
    aval_ok a = true -> within (depth i) a = true ->
    exists v, p i = Ok v (adv t i) /\ vrel (depth i) v a.

Definition vclose (p : parser value) : Prop :=
  forall j b tl, rest j = b :: tl -> b = x5d \/ b = x2c \/ b = x7d -> fails p j.

Section Complete.
  Variable vr : parser value.
  Variable n : nat.
  Hypothesis Hvr : vcomplete_at n vr.
  Hypothesis Hclose : vclose vr.
  Hypothesis Hmono : mono vr.

  (* ---- arrays ---------------------------------------------------------------------------------- *)
  Lemma array_value_complete j w1 t a w2 r :
    wscn_tok w1 -> val_tok t a -> length t < n -> wscn_tok w2 -> rest j = w1 ++ t ++ w2 ++ r -> asep_stop r ->
    aval_ok a = true -> within (depth j) a = true ->
    exists it, array_value vr j = Ok it (adv (w1 ++ t ++ w2) j) /\ irel (depth j) it a.
  Proof.
    intros Hw1 Ht Hlen Hw2 H Hr Hok Hwi. unfold array_value.
    destruct (val_tok_head t a Ht) as (b & t' & E & Hb).
    assert (S1 : wscn_stop (t ++ w2 ++ r)) by (rewrite E; apply vhead_wscn_stop, Hb).
    rewrite (bind_ok _ _ _ _ _ (span_wscn_complete j w1 _ Hw1 H S1)).
    pose proof (rest_adv w1 _ j H) as R1.
    destruct (Hvr t a (adv w1 j) (w2 ++ r) Hlen Ht R1 (vfollow_wscn_stop_after w2 r Hw2 (asep_vstop r Hr)) Hok Hwi)
      as (v & Ev & Hv).
    rewrite (bind_ok _ _ _ _ _ Ev). rewrite adv_adv.
    assert (R2 : rest (adv (w1 ++ t) j) = w2 ++ r) by (apply rest_adv; rewrite H, <- app_assoc; reflexivity).
    rewrite (bind_ok _ _ _ _ _ (span_wscn_complete _ w2 r Hw2 R2 (asep_wscn_stop r Hr))).
    rewrite adv_adv, <- app_assoc. eexists. split; [reflexivity|]. eexists. split; [reflexivity|]. apply vrel_decorate, Hv.
  Qed.

  (* an element parser in front of "]" (after optional trivia) fails softly *)
  Lemma array_value_fails j w tl : wscn_tok w -> rest j = w ++ x5d :: tl -> fails (array_value vr) j.
  Proof.
    intros Hw H. unfold array_value. eapply bind_ok_fails.
    - apply (span_wscn_complete j w _ Hw H). cbn [wscn_stop]. repeat split; discriminate.
    - apply bind_fails. apply (Hclose _ x5d tl (rest_adv w _ j H)). auto.
  Qed.

  Definition comma_p : parser bool :=
    pmap (fun o : option byte => match o with Some _ => true | None => false end) (opt (byte_ ARRAY_SEP)).

  Lemma comma_none j : fails (byte_ ARRAY_SEP) j -> comma_p j = Ok false j.
  Proof. intro F. unfold comma_p. rewrite (pmap_ok _ _ _ None _ (opt_fails _ _ F)). reflexivity. Qed.
  Lemma comma_some j x j' : byte_ ARRAY_SEP j = Ok x j' -> comma_p j = Ok true j'.
  Proof. intro E. unfold comma_p. rewrite (pmap_ok _ _ _ (Some x) _ (opt_ok _ _ _ _ E)). reflexivity. Qed.

  Lemma array_values_complete vs l : array_values_tok vs l -> forall j w r,
    length vs < n -> wscn_tok w -> rest j = vs ++ w ++ [x5d] ++ r ->
    forallb aval_ok l = true -> forallb (within (depth j)) l = true ->
    exists it j1 items j2 comma j3 tr,
      array_value vr j = Ok it j1 /\ seps (array_value vr) (byte_ ARRAY_SEP) j1 items j2
      /\ comma_p j2 = Ok comma j3 /\ span_ ws_comment_newline j3 = Ok tr (adv (vs ++ w) j)
      /\ Forall2 (irel (depth j)) (it :: items) l.
  Proof.
    induction 1 as [w1 t a w2 c Hw1 Ht Hw2 Hc|w1 t a w2 u l Hw1 Ht Hw2 Hu IH]; intros j w r Hlen Hw H Hok Hwi.
    - cbn [forallb] in Hok, Hwi. rewrite andb_true_r in Hok, Hwi.
      assert (Lt : length t < n) by (rewrite !app_length in Hlen; lia).
      destruct Hc as [-> | ->].
      + (* no trailing comma: the element takes all the trivia up to "]" *)
        assert (H' : rest j = w1 ++ t ++ (w2 ++ w) ++ [x5d] ++ r) by (rewrite H, <- !app_assoc; reflexivity).
        destruct (array_value_complete j w1 t a (w2 ++ w) _ Hw1 Ht Lt (wscn_app _ _ Hw2 Hw) H'
                    (ex_intro _ x5d (ex_intro _ r (conj eq_refl (or_intror eq_refl)))) Hok Hwi) as (it & Ei & Hit).
        set (j1 := adv (w1 ++ t ++ w2 ++ w) j) in *.
        assert (R1 : rest j1 = x5d :: r) by (apply rest_adv; rewrite H', <- !app_assoc; reflexivity).
        exists it, j1, [], j1, false, j1, (pos j1, pos (adv [] j1)). split; [exact Ei|]. split; [|split; [|split]].
        * apply seps_stop_sep, byte_fails. rewrite R1. reflexivity.
        * apply comma_none, byte_fails. rewrite R1. reflexivity.
        * replace (adv ((w1 ++ t ++ w2 ++ []) ++ w) j) with (adv [] j1).
          -- apply (span_wscn_complete j1 [] _ wscn_nil R1). cbn [wscn_stop]. repeat split; discriminate.
          -- unfold j1. rewrite adv_adv. f_equal. rewrite app_nil_r, <- !app_assoc. reflexivity.
        * constructor; [exact Hit|constructor].
      + (* trailing comma: the loop gives it back, opt(',') takes it *)
        assert (H' : rest j = w1 ++ t ++ w2 ++ [x2c] ++ w ++ [x5d] ++ r) by (rewrite H, <- !app_assoc; reflexivity).
        destruct (array_value_complete j w1 t a w2 _ Hw1 Ht Lt Hw2 H'
                    (ex_intro _ x2c (ex_intro _ _ (conj eq_refl (or_introl eq_refl)))) Hok Hwi) as (it & Ei & Hit).
        set (j1 := adv (w1 ++ t ++ w2) j) in *.
        assert (R1 : rest j1 = x2c :: w ++ [x5d] ++ r) by (apply rest_adv; rewrite H', <- !app_assoc; reflexivity).
        pose proof (byte_ok ARRAY_SEP j1 _ R1) as Esep.
        assert (R2 : rest (adv [ARRAY_SEP] j1) = w ++ x5d :: r) by (apply (rest_adv [x2c]); exact R1).
        exists it, j1, [], j1, true, (adv [ARRAY_SEP] j1), (pos (adv [ARRAY_SEP] j1), pos (adv w (adv [ARRAY_SEP] j1))).
        split; [exact Ei|]. split; [|split; [|split]].
        * eapply seps_stop_elem; [exact Esep| |apply (array_value_fails _ w r Hw R2)].
          rewrite R2, R1. cbn [length app]. rewrite !app_length. cbn [length]. lia.
        * apply (comma_some _ _ _ Esep).
        * replace (adv ((w1 ++ t ++ w2 ++ [x2c]) ++ w) j) with (adv w (adv [ARRAY_SEP] j1)).
          -- apply (span_wscn_complete _ w _ Hw R2). cbn [wscn_stop]. repeat split; discriminate.
          -- unfold j1. rewrite !adv_adv. f_equal. rewrite <- !app_assoc. reflexivity.
        * constructor; [exact Hit|constructor].
    - cbn [forallb] in Hok, Hwi. apply andb_true_iff in Hok as [Hok Hokl]. apply andb_true_iff in Hwi as [Hwi Hwil].
      assert (Lt : length t < n) by (rewrite !app_length in Hlen; lia).
      assert (Lu : length u < n) by (rewrite !app_length in Hlen; lia).
      assert (H' : rest j = w1 ++ t ++ w2 ++ [x2c] ++ u ++ w ++ [x5d] ++ r) by (rewrite H, <- !app_assoc; reflexivity).
      destruct (array_value_complete j w1 t a w2 _ Hw1 Ht Lt Hw2 H'
                  (ex_intro _ x2c (ex_intro _ _ (conj eq_refl (or_introl eq_refl)))) Hok Hwi) as (it & Ei & Hit).
      set (j1 := adv (w1 ++ t ++ w2) j) in *.
      assert (R1 : rest j1 = x2c :: u ++ w ++ [x5d] ++ r) by (apply rest_adv; rewrite H', <- !app_assoc; reflexivity).
      pose proof (byte_ok ARRAY_SEP j1 _ R1) as Esep.
      assert (R2 : rest (adv [ARRAY_SEP] j1) = u ++ w ++ [x5d] ++ r) by (apply (rest_adv [x2c]); exact R1).
      assert (D2 : depth (adv [ARRAY_SEP] j1) = depth j) by reflexivity.
      destruct (IH (adv [ARRAY_SEP] j1) w r Lu Hw R2 Hokl) as (it' & k1 & items & k2 & comma & k3 & tr & Ei' & R & Ec & Et & HF).
      { rewrite D2. exact Hwil. }
      exists it, j1, (it' :: items), k2, comma, k3, tr. split; [exact Ei|]. split; [|split; [exact Ec|split]].
      + eapply seps_cons; [exact Esep| |exact Ei'| |exact R].
        * rewrite R2, R1. cbn [length]. lia.
        * apply (ext_len _ _ _ (array_value_mono vr Hmono _ _ _ Ei')).
      + replace (adv ((w1 ++ t ++ w2 ++ [x2c] ++ u) ++ w) j) with (adv (u ++ w) (adv [ARRAY_SEP] j1)); [exact Et|].
        unfold j1. rewrite !adv_adv. f_equal. rewrite <- !app_assoc. reflexivity.
      + constructor; [exact Hit|exact HF].
  Qed.

  Lemma array_complete t l : val_tok t (AArr l) -> forall i r,
    length t < S n -> rest i = t ++ r -> forallb aval_ok l = true -> forallb (within (depth i)) l = true ->
    exists items tr c dec sp,
      array vr i = Ok (VArray items tr c dec sp) (adv t i) /\ Forall2 (irel (depth i)) items l.
  Proof.
    intros Hv i r Hlen H Hok Hwi. unfold array.
    inversion Hv as [| |w Hw E1 E2|vs l0 w Hvs Hw E1 E2| | | | |]; subst.
    - (* [ trivia ] *)
      assert (R0 : rest i = x5b :: w ++ [x5d] ++ r) by (rewrite H, <- !app_assoc; reflexivity).
      rewrite (bind_ok _ _ _ _ _ (byte_ok ARRAY_OPEN i _ R0)).
      set (j := adv [ARRAY_OPEN] i). assert (R1 : rest j = w ++ x5d :: r) by (apply (rest_adv [x5b]); exact R0).
      assert (Ev : exists tr, array_values vr j = Ok (VArray [] tr false decor_default None) (adv w j)).
      { unfold array_values. destruct w as [|b w'].
        - cbn [app] in R1. rewrite (bind_ok _ _ _ _ _ (peek_ok _ _ _ _ (opt_ok _ _ _ _ (byte_ok ARRAY_CLOSE j _ R1)))).
          rewrite adv_nil. eexists. reflexivity.
        - assert (Hb : b <> x5d).
          { destruct (wscn_tok_head _ Hw) as [E | (b0 & tl & E & Hb0)]; [discriminate|]. injection E as <- <-.
            destruct Hb0 as [Hb0 | [-> | [-> | ->]]]; try discriminate. intros ->. discriminate. }
          assert (F : fails (byte_ ARRAY_CLOSE) j).
          { apply byte_fails. rewrite R1. cbn [app stops]. apply byte_eqb_neq. intro E. apply Hb. symmetry. exact E. }
          rewrite (bind_ok _ _ _ _ _ (peek_ok _ _ _ _ (opt_fails _ _ F))).
          rewrite (bind_ok _ _ _ _ _ (separated0_nil _ _ _ (array_value_fails j (b :: w') r Hw R1))).
          cbv iota beta. rewrite (bind_ok _ _ _ _ _ (eq_refl : ret false j = Ok false j)).
          assert (Sw : wscn_stop (x5d :: r)) by (cbn [wscn_stop]; repeat split; discriminate).
          rewrite (bind_ok _ _ _ _ _ (span_wscn_complete j (b :: w') _ Hw R1 Sw)). eexists. reflexivity. }
      destruct Ev as (tr & Ev). rewrite (bind_ok _ _ _ _ _ (cut_err_ok _ _ _ _ Ev)).
      assert (R2 : rest (adv w j) = x5d :: r) by (apply rest_adv; exact R1).
      rewrite (bind_ok _ _ _ _ _ (context_ok _ _ _ _ (cut_err_ok _ _ _ _ (byte_ok ARRAY_CLOSE _ _ R2)))).
      unfold j. rewrite !adv_adv. exists [], tr, false, decor_default, None. split; [reflexivity|constructor].
    - (* [ values trivia ] *)
      assert (R0 : rest i = x5b :: vs ++ w ++ [x5d] ++ r) by (rewrite H, <- !app_assoc; reflexivity).
      rewrite (bind_ok _ _ _ _ _ (byte_ok ARRAY_OPEN i _ R0)).
      set (j := adv [ARRAY_OPEN] i). assert (R1 : rest j = vs ++ w ++ [x5d] ++ r) by (apply (rest_adv [x5b]); exact R0).
      assert (Lv : length vs < n) by (rewrite !app_length in Hlen; cbn [length] in Hlen; lia).
      destruct (array_values_complete vs l Hvs j w r Lv Hw R1 Hok Hwi)
        as (it & j1 & items & j2 & comma & j3 & tr & Ei & R & Ec & Et & HF).
      assert (Ev : array_values vr j = Ok (VArray (it :: items) (raw_with_span tr) comma decor_default None) (adv (vs ++ w) j)).
      { unfold array_values.
        assert (F : fails (byte_ ARRAY_CLOSE) j).
        { apply byte_fails. rewrite R1.
          assert (Hh : exists b tl, vs = b :: tl /\ b <> x5d).
          { assert (G : forall w1 t a tl, wscn_tok w1 -> val_tok t a -> exists b tl', w1 ++ t ++ tl = b :: tl' /\ b <> x5d).
            { intros w1 t a tl Hw1 Ht. destruct (val_tok_head t a Ht) as (b & t' & -> & Hb).
              destruct (wscn_tok_head _ Hw1) as [-> | (b0 & tl0 & -> & Hb0)].
              - exists b, (t' ++ tl). split; [reflexivity|]. apply (vhead_facts b Hb).
              - exists b0, (tl0 ++ (b :: t') ++ tl). split; [reflexivity|].
                destruct Hb0 as [Hb0 | [-> | [-> | ->]]]; try discriminate. intros ->. discriminate. }
            inversion Hvs as [w1 t a w2 c Hw1 Ht _ _|w1 t a w2 u l1 Hw1 Ht _ _]; subst; apply (G w1 t a _ Hw1 Ht). }
          destruct Hh as (b & tl & -> & Hb). cbn [app stops]. apply byte_eqb_neq. intro E. apply Hb. symmetry. exact E. }
        rewrite (bind_ok _ _ _ _ _ (peek_ok _ _ _ _ (opt_fails _ _ F))).
        rewrite (bind_ok _ _ _ _ _ (separated0_cons _ _ _ _ _ _ _ Ei R)).
        cbv iota beta. fold comma_p. rewrite (bind_ok _ _ _ _ _ Ec). rewrite (bind_ok _ _ _ _ _ Et). reflexivity. }
      rewrite (bind_ok _ _ _ _ _ (cut_err_ok _ _ _ _ Ev)).
      assert (R2 : rest (adv (vs ++ w) j) = x5d :: r) by (apply rest_adv; rewrite R1, <- app_assoc; reflexivity).
      rewrite (bind_ok _ _ _ _ _ (context_ok _ _ _ _ (cut_err_ok _ _ _ _ (byte_ok ARRAY_CLOSE _ _ R2)))).
      unfold j. rewrite !adv_adv. exists (it :: items), (raw_with_span tr), comma, decor_default, None.
      split; [rewrite <- !app_assoc; reflexivity|exact HF].
  Qed.

  (* ---- inline tables ------------------------------------------------------------------------------ *)
  Lemma inline_kv_rhs_complete j1 w2 t a w3 r :
    ws_tok w2 -> val_tok t a -> length t < n -> ws_tok w3 -> rest j1 = x3d :: w2 ++ t ++ w3 ++ r -> isep_stop r ->
    aval_ok a = true -> within (depth j1) a = true ->
    exists pre v suf, inline_kv_rhs vr j1 = Ok (pre, v, suf) (adv ([x3d] ++ w2 ++ t ++ w3) j1) /\ vrel (depth j1) v a.
  Proof.
    intros Hw2 Ht Lt Hw3 R1 Hr Hok Hwi.
    assert (R2 : rest (adv [KEYVAL_SEP] j1) = w2 ++ t ++ w3 ++ r) by (apply (rest_adv [x3d]); exact R1).
    destruct (val_tok_head t a Ht) as (b & t' & E & Hb).
    assert (S2 : stops wschar (t ++ w3 ++ r)) by (rewrite E; apply (vhead_facts b Hb)).
    assert (R3 : rest (adv w2 (adv [KEYVAL_SEP] j1)) = t ++ w3 ++ r) by (apply rest_adv; exact R2).
    destruct (Hvr t a _ (w3 ++ r) Lt Ht R3 (vfollow_ws w3 r Hw3 (vstop_follow r (isep_vstop r Hr))) Hok Hwi) as (v & Ev & Hv).
    assert (R4 : rest (adv t (adv w2 (adv [KEYVAL_SEP] j1))) = w3 ++ r) by (apply rest_adv; exact R3).
    eexists _, v, _. split; [|exact Hv]. unfold inline_kv_rhs. apply cut_err_ok.
    rewrite (bind_ok _ _ _ _ _ (context_ok _ _ _ _ (byte_ok KEYVAL_SEP j1 _ R1))).
    rewrite (bind_ok _ _ _ _ _ (span_ws_complete _ w2 _ R2 Hw2 S2)).
    rewrite (bind_ok _ _ _ _ _ Ev).
    rewrite (bind_ok _ _ _ _ _ (span_ws_complete _ w3 r R4 Hw3 (isep_stops_ws r Hr))).
    rewrite !adv_adv. unfold ret. f_equal. f_equal. rewrite <- !app_assoc. reflexivity.
  Qed.

  Lemma inline_keyval_complete j w0 kt p w1 w2 t a w3 r :
    ws_tok w0 -> key_tok kt p -> ws_tok w1 -> ws_tok w2 -> val_tok t a -> length t < n -> ws_tok w3 ->
    rest j = w0 ++ (kt ++ w1 ++ [x3d] ++ w2 ++ t) ++ w3 ++ r -> isep_stop r ->
    length p < LIMIT -> aval_ok a = true -> within (depth j) a = true ->
    exists pr, inline_keyval vr j = Ok pr (adv (w0 ++ (kt ++ w1 ++ [x3d] ++ w2 ++ t) ++ w3) j)
               /\ prel (depth j) pr (p, a).
  Proof.
    intros Hw0 Hkt Hw1 Hw2 Ht Lt Hw3 H Hr Hp Hok Hwi. rewrite inline_keyval_eq.
    assert (H1 : rest j = w0 ++ kt ++ w1 ++ (x3d :: w2 ++ t ++ w3 ++ r)) by (rewrite H, <- !app_assoc; reflexivity).
    destruct (key_complete j w0 kt p w1 _ Hw0 Hkt Hw1 H1
                (ex_intro _ x3d (ex_intro _ _ (conj eq_refl (or_introl eq_refl)))) Hp) as (kp & Ek & Hkp).
    rewrite (bind_ok _ _ _ _ _ Ek). set (j1 := adv (w0 ++ kt ++ w1) j).
    assert (R1 : rest j1 = x3d :: w2 ++ t ++ w3 ++ r) by (apply rest_adv; rewrite H1, <- !app_assoc; reflexivity).
    destruct (inline_kv_rhs_complete j1 w2 t a w3 r Hw2 Ht Lt Hw3 R1 Hr Hok Hwi) as (pre & v & suf & Erhs & Hv).
    rewrite (bind_ok _ _ _ _ _ Erhs). cbv beta iota.
    assert (Hne : kp <> []) by (intros ->; apply (key_tok_nonempty _ _ Hkt); rewrite <- Hkp; reflexivity).
    destruct (pop_key_total kp Hne) as (path & k & Ep). rewrite Ep.
    eexists. split.
    - unfold ret, j1. rewrite adv_adv. f_equal. f_equal. rewrite <- !app_assoc. reflexivity.
    - split; cbn [fst snd].
      + rewrite <- Hkp. apply (pop_key_keys _ _ _ Ep).
      + eexists. split; [reflexivity|]. apply vrel_decorate. exact Hv.
  Qed.

  Lemma inline_keyval_fails j w tl : ws_tok w -> rest j = w ++ x7d :: tl -> fails (inline_keyval vr) j.
  Proof.
    intros Hw H. unfold fails. rewrite inline_keyval_eq. apply bind_fails.
    apply (key_fails j w x7d tl Hw H); try reflexivity; discriminate.
  Qed.

  Definition prs_ok (d : nat) (l : list (list bytes * aval)) : Prop :=
    Forall (fun pa : list bytes * aval => length (fst pa) < LIMIT /\ aval_ok (snd pa) = true /\ within d (snd pa) = true) l.

  Lemma inline_keyvals_complete kvs l : inline_keyvals_tok kvs l -> forall j w0 w3 r,
    ws_tok w0 -> ws_tok w3 -> length kvs < n -> rest j = w0 ++ kvs ++ w3 ++ [x7d] ++ r -> prs_ok (depth j) l ->
    exists pr j1 prs, inline_keyval vr j = Ok pr j1
      /\ seps (inline_keyval vr) (byte_ INLINE_TABLE_SEP) j1 prs (adv (w0 ++ kvs ++ w3) j)
      /\ Forall2 (prel (depth j)) (pr :: prs) l.
  Proof.
    induction 1 as [kt p w1 w2 t a Hkt Hw1 Hw2 Ht|kt p w1 w2 t a w3' w4 u l Hkt Hw1 Hw2 Ht Hw3' Hw4 Hu IH];
      intros j w0 w3 r Hw0 Hw3 Hlen H Hl.
    - inversion Hl as [|pa l0 (Hp & Hok & Hwi) _]; subst. cbn [fst snd] in *.
      assert (Lt : length t < n) by (rewrite !app_length in Hlen; lia).
      assert (H' : rest j = w0 ++ (kt ++ w1 ++ [x3d] ++ w2 ++ t) ++ w3 ++ x7d :: r) by (rewrite H, <- !app_assoc; reflexivity).
      destruct (inline_keyval_complete j w0 kt p w1 w2 t a w3 _ Hw0 Hkt Hw1 Hw2 Ht Lt Hw3 H'
                  (ex_intro _ x7d (ex_intro _ r (conj eq_refl (or_intror eq_refl)))) Hp Hok Hwi) as (pr & Ep & Hpr).
      eexists pr, _, []. split; [exact Ep|]. split; [|constructor; [exact Hpr|constructor]].
      apply seps_stop_sep, byte_fails. rewrite (rest_adv _ (x7d :: r) j); [reflexivity|].
      rewrite H', <- !app_assoc. reflexivity.
    - inversion Hl as [|pa l0 (Hp & Hok & Hwi) Hl']; subst. cbn [fst snd] in *.
      assert (Lt : length t < n) by (rewrite !app_length in Hlen; lia).
      assert (Lu : length u < n) by (rewrite !app_length in Hlen; lia).
      assert (H' : rest j = w0 ++ (kt ++ w1 ++ [x3d] ++ w2 ++ t) ++ w3' ++ x2c :: w4 ++ u ++ w3 ++ [x7d] ++ r)
        by (rewrite H, <- !app_assoc; reflexivity).
      destruct (inline_keyval_complete j w0 kt p w1 w2 t a w3' _ Hw0 Hkt Hw1 Hw2 Ht Lt Hw3' H'
                  (ex_intro _ x2c (ex_intro _ _ (conj eq_refl (or_introl eq_refl)))) Hp Hok Hwi) as (pr & Ep & Hpr).
      set (j1 := adv (w0 ++ (kt ++ w1 ++ [x3d] ++ w2 ++ t) ++ w3') j) in *.
      assert (R1 : rest j1 = x2c :: w4 ++ u ++ w3 ++ [x7d] ++ r) by (apply rest_adv; rewrite H', <- !app_assoc; reflexivity).
      pose proof (byte_ok INLINE_TABLE_SEP j1 _ R1) as Esep.
      assert (R2 : rest (adv [INLINE_TABLE_SEP] j1) = w4 ++ u ++ w3 ++ [x7d] ++ r) by (apply (rest_adv [x2c]); exact R1).
      destruct (IH (adv [INLINE_TABLE_SEP] j1) w4 w3 r Hw4 Hw3 Lu R2 Hl') as (pr' & k1 & prs & Ep' & R & HF).
      exists pr, j1, (pr' :: prs). split; [exact Ep|]. split; [|constructor; [exact Hpr|exact HF]].
      eapply seps_cons; [exact Esep| |exact Ep'| |].
      + rewrite R2, R1. cbn [length]. lia.
      + apply (ext_len _ _ _ (inline_keyval_mono vr Hmono _ _ _ Ep')).
      + replace (adv (w0 ++ (kt ++ w1 ++ [x3d] ++ w2 ++ t ++ w3' ++ [x2c] ++ w4 ++ u) ++ w3) j)
          with (adv (w4 ++ u ++ w3) (adv [INLINE_TABLE_SEP] j1)); [exact R|].
        unfold j1. rewrite !adv_adv. f_equal. rewrite <- !app_assoc. reflexivity.
  Qed.

  Lemma within_inline_pairs d kvs : within d (AInl kvs) = true -> aval_ok (AInl kvs) = true ->
    S d < LIMIT /\ prs_ok (S d) kvs.
  Proof.
    cbn [within aval_ok]. intros Hwi Hok. apply andb_true_iff in Hwi as [Hd Hwi]. apply andb_true_iff in Hok as [Hok _].
    split; [apply Nat.ltb_lt, Hd|]. unfold prs_ok. rewrite forallb_forall in Hwi, Hok. apply Forall_forall.
    intros pa Hin. specialize (Hwi pa Hin). specialize (Hok pa Hin). apply andb_true_iff in Hwi as [Hl Hw].
    apply Nat.ltb_lt in Hl. split; [lia|auto].
  Qed.

  Lemma inline_table_complete t kvs : val_tok t (AInl kvs) -> forall i r d0,
    length t < S n -> rest i = t ++ r -> depth i = S d0 ->
    aval_ok (AInl kvs) = true -> within d0 (AInl kvs) = true ->
    exists v, inline_table vr i = Ok v (adv t i) /\ vrel d0 v (AInl kvs).
  Proof.
    intros Hv i r d0 Hlen H Hd Hok Hwi. rewrite inline_table_eq.
    destruct (within_inline_pairs d0 kvs Hwi Hok) as [Hlim Hprs].
    assert (Hbody : forall body pairs j, rest j = body ++ x7d :: r -> t = [x7b] ++ body ++ [x7d] -> j = adv [INLINE_TABLE_OPEN] i ->
              (exists pre, inline_kvs vr j = Ok (pairs, pre) (adv body j)) -> Forall2 (prel (S d0)) pairs kvs ->
              exists v, (t0 <- cut_err (inline_body vr) ;; context (cut_err (byte_ INLINE_TABLE_CLOSE)) ;;; ret t0) j = Ok v (adv t i)
                        /\ vrel d0 v (AInl kvs)).
    { intros body pairs j Rj Et Ej (pre & Ek) HF.
      destruct (prel_ipairs _ _ _ HF) as (l & -> & Hl).
      destruct (inline_bridge_complete (S d0) l kvs Hl d0 pre eq_refl Hok Hwi) as (v & Etm).
      exists v. split; [|apply (inline_bridge_sound (S d0) l kvs Hl d0 pre v eq_refl Hlim Etm)].
      assert (Eb : inline_body vr j = Ok v (adv body j)).
      { unfold inline_body. apply (try_map_ok _ _ _ (to_pairs l, pre) v _ Ek Etm). }
      rewrite (bind_ok _ _ _ _ _ (cut_err_ok _ _ _ _ Eb)).
      assert (R2 : rest (adv body j) = x7d :: r) by (apply rest_adv; exact Rj).
      rewrite (bind_ok _ _ _ _ _ (context_ok _ _ _ _ (cut_err_ok _ _ _ _ (byte_ok INLINE_TABLE_CLOSE _ _ R2)))).
      subst j t. rewrite !adv_adv. reflexivity. }
    inversion Hv as [| | | |w Hw E1 E2|w1 kvt l w2 Hw1 Hkv Hw2 E1 E2| | |]; subst.
    - assert (R0 : rest i = x7b :: w ++ [x7d] ++ r) by (rewrite H, <- !app_assoc; reflexivity).
      rewrite (bind_ok _ _ _ _ _ (byte_ok INLINE_TABLE_OPEN i _ R0)).
      set (j := adv [INLINE_TABLE_OPEN] i). assert (R1 : rest j = w ++ x7d :: r) by (apply (rest_adv [x7b]); exact R0).
      apply (Hbody w [] j R1 eq_refl eq_refl); [|constructor].
      eexists. unfold inline_kvs.
      rewrite (bind_ok _ _ _ _ _ (separated0_nil _ _ _ (inline_keyval_fails j w r Hw R1))).
      assert (Sw : stops wschar (x7d :: r)) by reflexivity.
      rewrite (bind_ok _ _ _ _ _ (span_ws_complete j w _ R1 Hw Sw)). reflexivity.
    - assert (R0 : rest i = x7b :: w1 ++ kvt ++ w2 ++ [x7d] ++ r) by (rewrite H, <- !app_assoc; reflexivity).
      rewrite (bind_ok _ _ _ _ _ (byte_ok INLINE_TABLE_OPEN i _ R0)).
      set (j := adv [INLINE_TABLE_OPEN] i).
      assert (R1 : rest j = w1 ++ kvt ++ w2 ++ [x7d] ++ r) by (apply (rest_adv [x7b]); exact R0).
      assert (Lk : length kvt < n) by (rewrite !app_length in Hlen; cbn [length] in Hlen; lia).
      assert (Dj : depth j = S d0) by exact Hd.
      rewrite <- Dj in Hprs.
      destruct (inline_keyvals_complete kvt kvs Hkv j w1 w2 r Hw1 Hw2 Lk R1 Hprs) as (pr & j1 & prs & Ep & R & HF).
      rewrite Dj in HF.
      apply (Hbody (w1 ++ kvt ++ w2) (pr :: prs) j); [rewrite R1, <- !app_assoc; reflexivity|rewrite <- !app_assoc; reflexivity|reflexivity| |exact HF].
      eexists. unfold inline_kvs.
      rewrite (bind_ok _ _ _ _ _ (separated0_cons _ _ _ _ _ _ _ Ep R)).
      assert (R2 : rest (adv (w1 ++ kvt ++ w2) j) = [] ++ x7d :: r) by (apply rest_adv; rewrite R1, <- !app_assoc; reflexivity).
      assert (Sw : stops wschar (x7d :: r)) by reflexivity.
      rewrite (bind_ok _ _ _ _ _ (span_ws_complete _ [] _ R2 eq_refl Sw)). rewrite adv_nil. reflexivity.
  Qed.

  (* ---- the dispatch ------------------------------------------------------------------------------------ *)
  Lemma within_array d l : within d (AArr l) = true -> S d < LIMIT /\ forallb (within (S d)) l = true.
  Proof. cbn [within]. intro H. apply andb_true_iff in H as [H1 H2]. split; [apply Nat.ltb_lt, H1|exact H2]. Qed.

  Lemma value_body_complete : vcomplete_at (S n) (value_body vr).
  Proof.
    intros t a i r Hlen Ht H Hr Hok Hwi. pose proof Ht as Ht0.
    destruct Ht as [t s Hs|t b Hb|w Hw|vs l w Hvs Hw|w Hw|w1 kvs l w2 Hw1 Hkv Hw2|t d Hd|t f Hf|t z Hz].
    - exists (scalar_value (SString s)). split; [apply (value_body_string vr i t s r Hs H Hr)|].
      apply vrel_scalar; auto.
    - exists (scalar_value (SBool b)). split; [apply (value_body_boolean vr i t b r Hb H)|]. apply vrel_scalar; auto.
    - destruct (within_array _ _ Hwi) as [Hlim Hwl].
      assert (R0 : rest i = x5b :: (w ++ [x5d]) ++ r) by (rewrite H, <- !app_assoc; reflexivity).
      rewrite (value_body_arm vr i x5b _ R0). change (value_arm vr x5b) with (check_recursion (array vr)).
      set (i1 := set_depth (S (depth i)) i).
      destruct (array_complete _ _ Ht0 i1 r Hlen H Hok Hwl) as (items & tr & c & dec & sp & Ea & HF).
      eexists. split; [apply (check_recursion_complete _ _ _ _ Hlim Ea)|]. apply vrel_array; assumption.
    - destruct (within_array _ _ Hwi) as [Hlim Hwl].
      assert (R0 : rest i = x5b :: (vs ++ w ++ [x5d]) ++ r) by (rewrite H, <- !app_assoc; reflexivity).
      rewrite (value_body_arm vr i x5b _ R0). change (value_arm vr x5b) with (check_recursion (array vr)).
      set (i1 := set_depth (S (depth i)) i). cbn [aval_ok] in Hok.
      destruct (array_complete _ _ Ht0 i1 r Hlen H Hok Hwl) as (items & tr & c & dec & sp & Ea & HF).
      eexists. split; [apply (check_recursion_complete _ _ _ _ Hlim Ea)|]. apply vrel_array; assumption.
    - destruct (within_inline_pairs _ _ Hwi Hok) as [Hlim _].
      assert (R0 : rest i = x7b :: (w ++ [x7d]) ++ r) by (rewrite H, <- !app_assoc; reflexivity).
      rewrite (value_body_arm vr i x7b _ R0). change (value_arm vr x7b) with (check_recursion (inline_table vr)).
      set (i1 := set_depth (S (depth i)) i).
      destruct (inline_table_complete _ _ Ht0 i1 r (depth i) Hlen H eq_refl Hok Hwi) as (v & Ev & Hv).
      exists v. split; [apply (check_recursion_complete _ _ _ _ Hlim Ev)|exact Hv].
    - destruct (within_inline_pairs _ _ Hwi Hok) as [Hlim _].
      assert (R0 : rest i = x7b :: (w1 ++ kvs ++ w2 ++ [x7d]) ++ r) by (rewrite H, <- !app_assoc; reflexivity).
      rewrite (value_body_arm vr i x7b _ R0). change (value_arm vr x7b) with (check_recursion (inline_table vr)).
      set (i1 := set_depth (S (depth i)) i).
      destruct (inline_table_complete _ _ Ht0 i1 r (depth i) Hlen H eq_refl Hok Hwi) as (v & Ev & Hv).
      exists v. split; [apply (check_recursion_complete _ _ _ _ Hlim Ev)|exact Hv].
    - exists (scalar_value (SDatetime d)). split; [apply (value_body_date_time vr i t d r Hd H Hr)|]. apply vrel_scalar; auto.
    - assert (Hfin : finite f).
      { destruct f as [x|x|x m e]; try exact I. cbn [within] in Hwi. cbn [finite]. destruct (overflows m e); [discriminate|reflexivity]. }
      exists (scalar_value (SFloat f)). split; [apply (value_body_float vr i t f r Hf Hfin H Hr)|]. apply vrel_scalar; auto.
    - exists (scalar_value (SInt z)). split; [apply (value_body_integer vr i t z r Hz Hwi H Hr)|]. apply vrel_scalar; auto.
  Qed.

  Lemma value_step_complete : vcomplete_at (S n) (value_step vr).
  Proof.
    intros t a i r Hlen Ht H Hr Hok Hwi.
    destruct (value_body_complete t a i r Hlen Ht H Hr Hok Hwi) as (v & Ev & Hv).
    exists (apply_raw v (pos i, pos (adv t i))). split; [|apply vrel_apply_raw, Hv].
    unfold value_step. rewrite (pmap_ok _ _ _ _ _ (with_span_ok _ _ _ _ Ev)). reflexivity.
  Qed.

  Lemma value_step_close : vclose (value_step vr).
  Proof.
    intros j b tl H Hb. destruct (value_body_close vr j b tl H Hb) as (e & j' & F).
    unfold fails, value_step, pmap, with_span. rewrite F. eauto.
  Qed.
End Complete.

Lemma value_f_complete n : vcomplete_at n (value_f n).
Proof.
  induction n as [|n IH]; [intros t a i r Hlen; lia|].
  change (value_f (S n)) with (value_step (value_f n)).
  destruct n as [|m].
  - intros t a i r Hlen Ht. destruct (val_tok_head t a Ht) as (b & t' & -> & _). cbn [length] in Hlen. lia.
  - apply value_step_complete; [exact IH| |apply (proj1 (value_f_all (S m)))].
    change (value_f (S m)) with (value_step (value_f m)). apply value_step_close.
Qed.

Theorem value_complete t a i r :
  val_tok t a -> rest i = t ++ r -> vfollow r -> aval_ok a = true -> within (depth i) a = true ->
  exists v, value_ i = Ok v (adv t i) /\ vrel (depth i) v a.
Proof.
  intros Ht H Hr Hok Hwi. unfold value_. apply (value_f_complete _ t a i r); try assumption.
  rewrite H, app_length. lia.
Qed.
