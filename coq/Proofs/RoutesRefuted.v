(* Proofs/RoutesRefuted.v — C13: the two recorded defects of the toml::Value family, as witnesses on
   the level of the value tree.
     C13-tryinto-datetime-string   `impl Deserializer for toml::Value` hands a date-time to the visitor as
                                   a string: Datetime's visitor (visit_map only) refuses it
     C13-tryfrom-datetime-table    toml::value::ValueSerializer::serialize_struct ignores the tunnel name:
                                   a date-time becomes the table { "$__toml_private_datetime" = "<text>" } *)
From TV Require Import Base.Prelude Model.Datetime Model.DatetimeStd Model.SerNum Spec.SerdeData Model.Ser Model.De
  Model.SerdeRoutes Extract.Show.
Require Import String.

(* struct S { d: Datetime }      S { d: 1979-05-27T07:32:00Z } *)
Definition dt_ty : ty := TStruct (str "S") [(str "d", TDatetime KDatetime)].
Definition dt_d : datetime := mkDT (Some (mkDate 1979 5 27)) (Some (mkTime 7 32 0 0)) (Some OffZ).
Definition dt_val : sval := SRec [SDt dt_d].
Definition dt_tree : tomlval := VTab [(str "d", VDatetime dt_d)].

(* "on text obtained by serializing a value of the target type every route succeeds and returns that
   value" is FALSE for the routes through toml::Value / toml::Table: the text of S parses (as a
   document, as a toml::Value) to the tree with the date-time, every toml_edit-based route returns
   the value, Value::try_into / Table::try_into fail *)
Theorem on_serialized_refuted :
  exists t v out,
    has_type v t /\ ser_toml_root t v = Ok out
    /\ decode R_t t out = Ok v /\ decode R_e t out = Ok v
    /\ (exists y, to_toml_value out = Ok y /\ to_toml_table out = Ok y)
    /\ decode R_tval t out = Err EDe /\ decode R_ttab t out = Err EDe.
Proof.
  exists dt_ty, dt_val, dt_tree. repeat split; try (vm_compute; reflexivity).
  exists dt_tree. split; vm_compute; reflexivity.
Qed.

(* "converting a Rust value with try_from gives the same tree as serializing it to text and parsing
   that text, for every type including those containing date-times" is FALSE: try_from gives the
   private-key table where the parsed text has the date-time *)
Theorem try_from_refuted :
  exists t v out y y',
    has_type v t /\ ser_toml_root t v = Ok out /\ to_toml_value out = Ok y
    /\ tv_ser t v = Ok y' /\ tv_ser_table t v = Ok y' /\ y <> y'.
Proof.
  exists dt_ty, dt_val, dt_tree, dt_tree,
    (VTab [(str "d", VTab [(DT_FIELD, VStr (display_datetime dt_d))])]).
  repeat split; try (vm_compute; reflexivity). discriminate.
Qed.
