(* Proofs/RoutesRefuted.v — C13: the former witnesses of the two defects of the toml::Value family, now
   REPAIRED in /repo (the file keeps its name; nothing is refuted any more):
     C13-tryinto-datetime-string   `impl Deserializer for toml::Value` handed a date-time to the visitor as a
                                   string; it now goes through toml_datetime's private struct, as in toml_edit
     C13-tryfrom-datetime-table    toml::value::ValueSerializer::serialize_struct ignored the tunnel name and
                                   wrote { "$__toml_private_datetime" = "<text>" }; it now yields Value::Datetime *)
From TV Require Import Base.Prelude Model.Datetime Model.DatetimeStd Model.SerNum Spec.SerdeData Model.Ser Model.De
  Model.SerdeRoutes Extract.Show.
Require Import String.

(* struct S { d: Datetime }      S { d: 1979-05-27T07:32:00Z } *)
Definition dt_ty : ty := TStruct (str "S") [(str "d", TDatetime KDatetime)].
Definition dt_d : datetime := mkDT (Some (mkDate 1979 5 27)) (Some (mkTime 7 32 0 0)) (Some OffZ).
Definition dt_val : sval := SRec [SDt dt_d].
Definition dt_tree : tomlval := VTab [(str "d", VDatetime dt_d)].

(* every route, the ones through toml::Value / toml::Table included, returns the value *)
Theorem on_serialized_datetime :
  has_type dt_val dt_ty /\ ser_toml_root dt_ty dt_val = Ok dt_tree
  /\ to_toml_value dt_tree = Ok dt_tree /\ to_toml_table dt_tree = Ok dt_tree
  /\ forall r, decode r dt_ty dt_tree = Ok dt_val.
Proof. repeat split; try (vm_compute; reflexivity). intro r. destruct r; vm_compute; reflexivity. Qed.

(* Value::try_from / Table::try_from give the tree the serialized text parses to, date-time included *)
Theorem try_from_datetime :
  ser_toml_root dt_ty dt_val = Ok dt_tree /\ to_toml_value dt_tree = Ok dt_tree
  /\ tv_ser dt_ty dt_val = Ok dt_tree /\ tv_ser_table dt_ty dt_val = Ok dt_tree.
Proof. repeat split; vm_compute; reflexivity. Qed.

(* a String target does not get the text of a date-time, on any route (as toml::from_str answers) *)
Theorem datetime_is_not_a_string :
  forall r, decode r (TStruct (str "S") [(str "d", TStr)]) dt_tree = Err EDe.
Proof. intro r. destruct r; vm_compute; reflexivity. Qed.

(* the former witness of the repaired C06-root-datetime-printed-as-table (crates/toml/src/ser.rs serialize_struct dropped
   the struct name): a Datetime at the ROOT.  The single-value serializer writes the date-time itself, which every
   single-value route reads back; the document serializers refuse it as a non-table, toml's now like toml_edit's;
   Value::try_from yields the date-time.  (Table::try_from still answers the private-key table: value.rs
   TableSerializer::serialize_struct, known class private-datetime-key.) *)
Definition rdt_ty : ty := TDatetime KDatetime.
Definition rdt_val : sval := SDt dt_d.
Theorem root_datetime :
  has_type rdt_val rdt_ty
  /\ ser_value_text rdt_ty rdt_val = Ok (VDatetime dt_d) /\ ser_value rdt_ty rdt_val = Ok (VDatetime dt_d)
  /\ tv_ser rdt_ty rdt_val = Ok (VDatetime dt_d)
  /\ ser_toml_root rdt_ty rdt_val = Err (EUnsupportedType None) /\ ser_edit_root rdt_ty rdt_val = Err (EUnsupportedType None)
  /\ (forall r, r = R_tvd \/ r = R_evd \/ r = R_tvdval -> decode r rdt_ty (VDatetime dt_d) = Ok rdt_val)
  /\ tv_ser_table rdt_ty rdt_val = Ok (VTab [(DT_FIELD, VStr (display_datetime dt_d))]).
Proof.
  repeat split; try (vm_compute; reflexivity).
  intros r [-> | [-> | ->]]; vm_compute; reflexivity.
Qed.

