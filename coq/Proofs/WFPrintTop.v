(* Proofs/WFPrintTop.v — WF backbone, top: a well-formed tree prints as a TOML text that has a derivation denoting
   the tree's data (`WF_print_derivation`); hence (C01_complete, C02_tree) the text is accepted and decodes to the
   same data (`WF_print_parse`). *)
From TV Require Import Base.Prelude Base.Utf8 Base.Winnow Gen.Consts Spec.Abnf Spec.Lex Spec.Defs Spec.DatetimeSpec Spec.Syntax Spec.WF.
From TV Require Import Model.Datetime Model.Numbers Model.Tree Model.Parse Model.Document Model.Write Model.Encode.
From TV Require Import Proofs.GrammarBase Proofs.GrammarTop.
From TV Require Import Proofs.WFSem Proofs.WFSemDoc Proofs.WFTok Proofs.WFPrintKey Proofs.WFPrintFlat Proofs.WFPrintValue
                       Proofs.WFTree Proofs.WFPrintLine Proofs.WFPrintDoc.
Require Import Lia NArith.

Local Notation section := (tbl * list key * bool)%type.

(* ---- sorting by position leaves the order of the walk alone when the positions do not decrease ---------------------- *)
Lemma nondec_tail a l : nondecreasing (a :: l) -> nondecreasing l.
Proof. destruct l; cbn; tauto. Qed.
Lemma nondec_prefix : forall l1 x l2, nondecreasing (l1 ++ x :: l2) -> Forall (fun y => (y <= x)%N) l1.
Proof.
  induction l1 as [|a l1 IH]; intros x l2 H; [constructor|]. cbn [app] in H. pose proof (IH x l2 (nondec_tail _ _ H)) as F.
  constructor; [|exact F]. destruct l1 as [|b l1]; cbn [app nondecreasing] in H.
  - tauto.
  - inversion F; subst. destruct H as [H _]. lia.
Qed.
Lemma insert_sorted_last {A} (x : N * A) acc : Forall (fun y => (fst y <= fst x)%N) acc -> insert_sorted x acc = acc ++ [x].
Proof.
  induction 1 as [|y acc Hy _ IH]; [reflexivity|]. cbn [insert_sorted app]. destruct (N.ltb_spec (fst x) (fst y)); [lia|]. rewrite IH. reflexivity.
Qed.
Lemma fold_insert_sorted {A} : forall (l acc : list (N * A)),
  nondecreasing (map fst (acc ++ l)) -> fold_left (fun a x => insert_sorted x a) l acc = acc ++ l.
Proof.
  induction l as [|x l IH]; intros acc H; [rewrite app_nil_r; reflexivity|]. cbn [fold_left].
  rewrite insert_sorted_last.
  - rewrite IH; rewrite <- app_assoc; [reflexivity|exact H].
  - rewrite map_app in H. cbn [map] in H. apply nondec_prefix in H. rewrite Forall_map in H. exact H.
Qed.
Lemma stable_sort_sorted {A} (l : list (N * A)) : nondecreasing (map fst l) -> stable_sort l = l.
Proof. intro H. unfold stable_sort. apply (fold_insert_sorted l []). exact H. Qed.

Lemma assign_positions_snd : forall (l : list section) n, map snd (assign_positions n l) = l.
Proof. induction l as [|[[t p] a] l IH]; intro n; [reflexivity|]. cbn [assign_positions map snd]. rewrite IH. reflexivity. Qed.

(* what Display writes for a tree whose sections come in the order of the walk *)
Lemma display_ordered root trailing :
  order_ok root ->
  display_document root trailing
  = decor_prefix (t_decor root) (fst DEFAULT_ROOT_DECOR)
    ++ vts (sections root [] false) true
    ++ decor_suffix (t_decor root) (snd DEFAULT_ROOT_DECOR)
    ++ raw_encode trailing [].
Proof.
  intro Ho. unfold display_document. rewrite doc_sections_eq. rewrite (stable_sort_sorted _ Ho). rewrite visit_tables_vts, assign_positions_snd.
  reflexivity.
Qed.

(* ---- THE derivation -------------------------------------------------------------------------------------------------------- *)
Theorem WF_print_derivation root trailing :
  WFdoc root trailing ->
  exists stmts, toml_text (display_document root trailing) stmts
                /\ verdict stmts = Valid (abs_doc_of root)
                /\ within_limits stmts = true.
Proof.
  intros [(Hd & Hw & Hl & Ho) Htr]. rewrite (display_ordered root trailing Ho).
  assert (Hdec : decor_ok SLines SLines (t_decor root)) by (destruct root; exact (proj1 Hw)). destruct Hdec as [Hdp Hds].
  assert (Hrest : tail_tok (decor_suffix (t_decor root) (snd DEFAULT_ROOT_DECOR) ++ raw_encode trailing []) []).
  { apply tail_lines; [apply (decor_suffix_ok SLines); [exact Hds|apply ln_last; reflexivity]|].
    apply tail_doc_trail. apply (raw_ok_enc SDocTrail). exact Htr. }
  destruct (root_derives root Hd Hw Hl true _ _ Hrest) as (ls & T & E & O & W). rewrite app_nil_r in T.
  exists ls. split; [|split; [|exact W]].
  - apply toml_no_bom. apply tail_toml.
    apply tail_lines; [apply (decor_prefix_ok SLines); [exact Hdp|apply ln_last; reflexivity]|exact T].
  - unfold verdict. rewrite O, E. apply tree_defines. exact Hw.
Qed.

(* ---- the printed text is accepted and decodes to the tree's data ------------------------------------------------------- *)
Theorem WF_print_parse root trailing :
  WFdoc root trailing ->
  exists d, parse_document (display_document root trailing) = POk d /\ abs_doc d = abs_doc_of root.
Proof.
  intro H. destruct (WF_print_derivation root trailing H) as (stmts & T & V & W).
  destruct (c01_complete _ _ _ T V W) as (d & P). exists d. split; [exact P|]. exact (c02_tree _ _ _ _ P T V).
Qed.
