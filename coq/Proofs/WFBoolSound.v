(* Proofs/WFBoolSound.v — the decision procedure of Proofs/WFBool.v is sound: `wf_b root = true -> WF root`
   (tokens through the soundness half of C01 L1, Proofs/LexEquiv*.v). *)
From TV Require Import Base.Prelude Base.Utf8 Base.Winnow Gen.Consts Spec.Abnf Spec.Lex Spec.DatetimeSpec Spec.Syntax Spec.WF.
From TV Require Import Model.Trivia Model.Strings Model.Datetime Model.Numbers Model.Tree Model.Parse Model.Document Model.Write Model.Encode.
From TV Require Import Proofs.LexEquivBase Proofs.SpansDefs Proofs.SpansBase.
From TV Require Import Proofs.WFBool Proofs.WFTok Proofs.WFPrintKey Proofs.WFPrintFlat Proofs.WFTree.
Require Import Lia NArith ZArith.

(* ---- trivia --------------------------------------------------------------------------------------------------------- *)
Lemma ws_b_sound t : ws_b t = true -> ws_tok t.
Proof. exact (fun H => H). Qed.
Lemma comment_b_sound t : comment_b t = true -> comment_tok t.
Proof.
  destruct t as [|b u]; [discriminate|]. cbn [comment_b]. intro H. apply andb_true_iff in H as [H1 H2]. apply byte_eqb_eq in H1. subst.
  exists u. split; [reflexivity|exact H2].
Qed.
Lemma line_trail_b_sound t : line_trail_b t = true -> line_trail_tok t.
Proof.
  unfold line_trail_b. intro H. exists (fst (span_while wschar t)), (snd (span_while wschar t)).
  split; [symmetry; apply span_while_app|]. split; [apply span_while_all|].
  destruct (snd (span_while wschar t)); [left; reflexivity|right; apply comment_b_sound, H].
Qed.

Lemma cut_lf_none t l : cut_lf t = (l, None) -> t = l.
Proof.
  revert l. induction t as [|b r IH]; intros l H; cbn [cut_lf] in H; [inversion H; reflexivity|].
  destruct (byte_eqb b x0a); [discriminate|]. destruct (cut_lf r) as [l0 o] eqn:E. inversion H; subst. rewrite (IH l0 eq_refl). reflexivity.
Qed.
Lemma cut_lf_some t l r : cut_lf t = (l, Some r) -> t = l ++ [x0a] ++ r.
Proof.
  revert l. induction t as [|b t IH]; intros l H; cbn [cut_lf] in H; [discriminate|].
  destruct (byte_eqb b x0a) eqn:Eb.
  - apply byte_eqb_eq in Eb. inversion H; subst. reflexivity.
  - destruct (cut_lf t) as [l0 o] eqn:E. inversion H; subst. rewrite (IH l0 eq_refl). reflexivity.
Qed.

Lemma lines_b_gen (last : bytes -> bool) (P : bytes -> Prop) (Q : bytes -> Prop) :
  (forall t, last t = true -> Q t) ->
  (forall w c t, ws_tok w -> opt_comment c -> Q t -> Q (w ++ c ++ [x0a] ++ t)) ->
  forall fuel t, lines_gen last fuel t = true -> Q t.
Proof.
  intros Hlast Hmore. induction fuel as [|f IH]; intros t H; [discriminate|]. cbn [lines_gen] in H.
  destruct (cut_lf t) as [l [r|]] eqn:E.
  - apply andb_true_iff in H as [H1 H2]. rewrite (cut_lf_some _ _ _ E). destruct (line_trail_b_sound l H1) as (w & c & -> & Hw & Hc).
    rewrite <- app_assoc. apply Hmore; auto.
  - rewrite (cut_lf_none _ _ E). apply Hlast, H.
Qed.
Lemma lines_b_sound t : lines_b t = true -> lines_tok t.
Proof.
  apply (lines_b_gen ws_b (fun _ => True) lines_tok); [intros u H; apply ln_last, H|intros; apply ln_more; assumption].
Qed.
Lemma doc_trail_b_sound t : doc_trail_b t = true -> doc_trail_tok t.
Proof.
  apply (lines_b_gen line_trail_b (fun _ => True) doc_trail_tok); [intros u H; apply dt_last, line_trail_b_sound, H|intros; apply dt_more; assumption].
Qed.

(* LF-only lines are ws-comment-newline *)
Lemma lines_wscn t : lines_tok t -> wscn_tok t.
Proof.
  induction 1 as [w Hw|w c t Hw Hc _ IH]; [apply ws_wscn, Hw|].
  assert (G : wscn_tok (c ++ [x0a] ++ t)) by (apply wscn_nl; [exact Hc|left; reflexivity|exact IH]).
  revert G. generalize (c ++ [x0a] ++ t). intros u Hu. unfold ws_tok, all in Hw. induction w as [|b w IHw]; [exact Hu|].
  cbn [forallb] in Hw. apply andb_true_iff in Hw as [H1 H2]. cbn [app]. apply wscn_ws; auto.
Qed.

Lemma slot_b_sound sl t : slot_b sl t = true -> slot_ok sl t.
Proof.
  destruct sl; cbn [slot_b slot_ok]; intro H;
    [exact H|apply line_trail_b_sound, H|apply lines_b_sound, H|apply lines_wscn, lines_b_sound, H|apply doc_trail_b_sound, H].
Qed.
Lemma raw_b_sound sl r : raw_b sl r = true -> raw_ok sl r.
Proof. destruct r; cbn [raw_b raw_ok]; [apply slot_b_sound|apply slot_b_sound|discriminate]. Qed.
Lemma oraw_b_sound sl o : oraw_b sl o = true -> oraw_ok sl o.
Proof. destruct o; cbn [oraw_b oraw_ok]; [apply raw_b_sound|auto]. Qed.
Lemma decor_b_sound pre suf d : decor_b pre suf d = true -> decor_ok pre suf d.
Proof. unfold decor_b, decor_ok. intro H. apply andb_true_iff in H as [H1 H2]. split; apply oraw_b_sound; assumption. Qed.

(* ---- tokens ------------------------------------------------------------------------------------------------------------ *)
Lemma whole_sound {A} (eqb : A -> A -> bool) (p : parser A) t x :
  (forall a b, eqb a b = true -> a = b) -> whole eqb p t x = true -> exists i', p (new_input t) = Ok x i' /\ rest i' = [].
Proof.
  intros He. unfold whole. destruct (p (new_input t)) as [y i'| | |]; try discriminate. destruct (rest i') eqn:R; [|discriminate].
  intro H. apply He in H. subst. eauto.
Qed.
Lemma fval_eqb_eq a b : fval_eqb a b = true -> a = b.
Proof.
  destruct a, b; cbn [fval_eqb]; try discriminate; intro H.
  - apply Bool.eqb_prop in H. congruence.
  - apply Bool.eqb_prop in H. congruence.
  - apply andb_true_iff in H as [H H3]. apply andb_true_iff in H as [H1 H2]. apply Bool.eqb_prop in H1. apply N.eqb_eq in H2. apply Z.eqb_eq in H3. congruence.
Qed.
Lemma opt_eqb_eq {A} (eqb : A -> A -> bool) (a b : option A) : (forall x y, eqb x y = true -> x = y) -> opt_eqb eqb a b = true -> a = b.
Proof. intros He. destruct a, b; cbn [opt_eqb]; try discriminate; [intro H; f_equal; apply He, H|reflexivity]. Qed.
Lemma date_eqb_eq a b : date_eqb a b = true -> a = b.
Proof.
  destruct a, b. unfold date_eqb. simpl. intro H. apply andb_true_iff in H as [H H3]. apply andb_true_iff in H as [H1 H2].
  apply N.eqb_eq in H1, H2, H3. congruence.
Qed.
Lemma time_eqb_eq a b : time_eqb a b = true -> a = b.
Proof.
  destruct a, b. unfold time_eqb. simpl. intro H. apply andb_true_iff in H as [H H4]. apply andb_true_iff in H as [H H3].
  apply andb_true_iff in H as [H1 H2]. apply N.eqb_eq in H1, H2, H3, H4. congruence.
Qed.
Lemma offset_eqb_eq a b : offset_eqb a b = true -> a = b.
Proof. destruct a, b; cbn [offset_eqb]; try discriminate; [reflexivity|]. intro H. apply Z.eqb_eq in H. congruence. Qed.
Lemma datetime_eqb_eq a b : datetime_eqb a b = true -> a = b.
Proof.
  destruct a, b. unfold datetime_eqb. simpl. intro H. apply andb_true_iff in H as [H H3]. apply andb_true_iff in H as [H1 H2].
  apply (opt_eqb_eq _ _ _ date_eqb_eq) in H1. apply (opt_eqb_eq _ _ _ time_eqb_eq) in H2. apply (opt_eqb_eq _ _ _ offset_eqb_eq) in H3. congruence.
Qed.

Lemma scalar_tok_b_sound t x : scalar_tok_b t x = true -> scalar_tok t x.
Proof.
  destruct x as [v|z|f|b|d]; cbn [scalar_tok_b scalar_tok]; intro H.
  - destruct (whole_sound _ _ _ _ (fun a b => proj1 (bytes_eqb_eq a b)) H) as (i' & P & R). exact (string_whole _ _ _ P R).
  - destruct (whole_sound _ _ _ _ (fun a b => proj1 (Z.eqb_eq a b)) H) as (i' & P & R). exact (proj1 (integer_whole _ _ _ P R)).
  - destruct (whole_sound _ _ _ _ fval_eqb_eq H) as (i' & P & R). exact (float_whole _ _ _ P R).
  - destruct (whole_sound _ _ _ _ Bool.eqb_prop H) as (i' & P & R). exact (boolean_whole _ _ _ P R).
  - destruct (whole_sound _ _ _ _ datetime_eqb_eq H) as (i' & P & R). exact (date_time_whole _ _ _ P R).
Qed.
Lemma scalar_lim_b_sound x : scalar_lim_b x = true -> scalar_lim x.
Proof. destruct x as [v|z|f|b|d]; cbn [scalar_lim_b scalar_lim]; auto. destruct f; auto. intro H. apply negb_true_iff in H. exact H. Qed.
Lemma default_b_sound x : default_b x = true -> default_ok x.
Proof. destruct x as [v|z|f|b|d]; cbn [default_b default_ok]; auto. destruct f; auto. discriminate. Qed.
Lemma repr_b_sound x r : repr_b x r = true -> repr_ok x r.
Proof. destruct r as [[|s|a b]|]; cbn [repr_b repr_ok]; try discriminate; [apply scalar_tok_b_sound|apply default_b_sound]. Qed.
Lemma key_repr_b_sound k : key_repr_b k = true -> key_repr_ok k.
Proof.
  unfold key_repr_b, key_repr_ok. destruct (k_repr k) as [[|s|a b]|]; try discriminate; [|auto]. intro H.
  destruct (whole_sound _ _ _ _ (fun a b => proj1 (bytes_eqb_eq a b)) H) as (i' & P & R). unfold pmap in P.
  destruct (simple_key (new_input s)) as [[rw kk] j| | |] eqn:E; try discriminate. inversion P; subst. cbn [snd] in *.
  exact (simple_key_whole _ _ _ _ E R).
Qed.
Lemma key_b_sound line k : key_b line k = true -> key_wf line k.
Proof.
  unfold key_b, key_wf. intro H. apply andb_true_iff in H as [H H3]. apply andb_true_iff in H as [H1 H2].
  split; [apply key_repr_b_sound, H1|split; apply decor_b_sound; assumption].
Qed.

Lemma nodup_b_sound l : nodup_b l = true -> NoDup l.
Proof.
  induction l as [|x l IH]; [constructor|]. cbn [nodup_b]. intro H. apply andb_true_iff in H as [H1 H2]. constructor; [|apply IH, H2].
  intro Hin. apply negb_true_iff in H1. assert (E : existsb (bytes_eqb x) l = true) by (apply existsb_exists; exists x; split; [exact Hin|apply bytes_eqb_refl]).
  congruence.
Qed.
Lemma vdecor_b_sound c d : vdecor_b c d = true -> vdecor_ok c d.
Proof. destruct c; cbn [vdecor_b vdecor_ok]; apply decor_b_sound. Qed.

Lemma forallb_all_P {A} (f : A -> bool) (P : A -> Prop) l : Forall (fun x => f x = true -> P x) l -> forallb f l = true -> all_P P l.
Proof.
  induction 1 as [|x l Hx _ IH]; [exact (fun _ => I)|]. cbn [forallb all_P]. intro H. apply andb_true_iff in H as [H1 H2]. auto.
Qed.

(* ---- values ------------------------------------------------------------------------------------------------------------ *)
Definition wf_sound_v (v : value) : Prop :=
  (forall c, value_b c v = true -> value_wf c v) /\ (forall line, pair_b line (IValue v) = true -> pair_wf line (IValue v)).
Definition wf_sound_i (it : item) : Prop := match it with IValue v => wf_sound_v v | _ => True end.
Lemma wf_sound_pair it : wf_sound_i it -> forall line, pair_b line it = true -> pair_wf line it.
Proof. destruct it; try discriminate. intros [_ H]. exact H. Qed.

Lemma value_pair_b_sound : (forall v, wf_sound_v v) /\ (forall it, wf_sound_i it) /\ (forall t : tbl, True).
Proof.
  apply tree_ind3.
  - intros s r d.
    assert (A : forall c, value_b c (VScalar s r d) = true -> value_wf c (VScalar s r d)).
    { intros c H. cbn [value_b value_wf] in *. apply andb_true_iff in H as [H H3]. apply andb_true_iff in H as [H1 H2].
      split; [apply repr_b_sound, H1|split; [apply scalar_lim_b_sound, H2|apply vdecor_b_sound, H3]]. }
    split; [exact A|]. intros line H. apply A, H.
  - intros vals tr cm d sp IH.
    assert (A : forall c, value_b c (VArray vals tr cm d sp) = true -> value_wf c (VArray vals tr cm d sp)).
    { intros c H. cbn [value_b value_wf] in *. apply andb_true_iff in H as [H H3]. apply andb_true_iff in H as [H1 H2].
      split; [apply vdecor_b_sound, H1|split; [apply raw_b_sound, H2|]].
      refine (forallb_all_P _ _ _ _ H3). eapply Forall_impl; [|exact IH]. intros it Hit Hb. destruct it as [|e| |]; try discriminate.
      exact (proj1 Hit _ Hb). }
    split; [exact A|]. intros line H. apply A, H.
  - intros items pre im dt d sp IH.
    assert (A : forall c, value_b c (VInline items pre im dt d sp) = true -> value_wf c (VInline items pre im dt d sp)).
    { intros c H. cbn [value_b value_wf] in *. apply andb_true_iff in H as [H H4]. apply andb_true_iff in H as [H H3].
      apply andb_true_iff in H as [H1 H2].
      split; [apply vdecor_b_sound, H1|split; [apply raw_b_sound, H2|split; [apply nodup_b_sound, H3|]]].
      refine (forallb_all_P _ _ _ _ H4). eapply Forall_impl; [|exact IH]. intros kv Hkv Hb. apply andb_true_iff in Hb as [Hb1 Hb2].
      split; [apply key_b_sound, Hb1|apply (wf_sound_pair _ Hkv), Hb2]. }
    split; [exact A|]. intros line H. destruct dt; [|apply A, H].
    cbn [pair_b pair_wf] in *. apply andb_true_iff in H as [H H3]. apply andb_true_iff in H as [H1 H2].
    split; [destruct items; [discriminate|discriminate]|split; [apply nodup_b_sound, H2|]].
    refine (forallb_all_P _ _ _ _ H3). eapply Forall_impl; [|exact IH]. intros kv Hkv Hb. apply andb_true_iff in Hb as [Hb1 Hb2].
    split; [apply key_b_sound, Hb1|apply (wf_sound_pair _ Hkv), Hb2].
  - exact I.
  - intros v Hv. exact Hv.
  - intros; exact I.
  - intros; exact I.
  - intros; exact I.
Qed.
Lemma pair_b_sound line it : pair_b line it = true -> pair_wf line it.
Proof. apply wf_sound_pair. apply (proj1 (proj2 value_pair_b_sound)). Qed.

(* ---- tables ------------------------------------------------------------------------------------------------------------ *)
Lemma tbl_b_sound : forall t top, tbl_b top t = true -> tbl_wf top t.
Proof.
  induction t as [items d im dt p sp IH] using tbl_sub_ind. intros top H. cbn [tbl_b tbl_wf] in *.
  apply andb_true_iff in H as [H H3]. apply andb_true_iff in H as [H1 H2].
  split; [apply decor_b_sound, H1|split; [apply nodup_b_sound, H2|]].
  refine (forallb_all_P _ _ _ _ H3). eapply Forall_impl; [|exact IH]. intros [k it] Hkv Hb. cbn [fst snd] in *.
  apply andb_true_iff in Hb as [Hb1 Hb2]. split; [apply key_b_sound, Hb1|].
  destruct it as [|v|sub|ts asp].
  - discriminate.
  - apply pair_b_sound, Hb2.
  - apply andb_true_iff in Hb2 as [Hs Hf]. split; [apply Hkv, Hs|]. destruct (t_dotted sub); apply orb_true_iff in Hf; exact Hf.
  - apply andb_true_iff in Hb2 as [Hne Hts]. split; [destruct ts; [discriminate|discriminate]|].
    refine (forallb_all_P _ _ _ _ Hts). eapply Forall_impl; [|exact Hkv]. intros e He Hb. apply andb_true_iff in Hb as [Hd Hw].
    split; [apply negb_true_iff, Hd|apply He, Hw].
Qed.

(* ---- limits ------------------------------------------------------------------------------------------------------------- *)
Definition lim_sound_v (v : value) : Prop :=
  (forall d, value_lim_b d v = true -> value_lim d v)
  /\ (forall d n, pair_lim_b d n (IValue v) = true -> pair_lim d n (IValue v))
  /\ (forall n, line_lim_b n (IValue v) = true -> line_lim n (IValue v)).
Definition lim_sound_i (it : item) : Prop := match it with IValue v => lim_sound_v v | _ => True end.

Lemma lim_sound_plain v :
  (forall d, value_lim_b d v = true -> value_lim d v) ->
  match v with VInline _ _ _ true _ _ => False | _ => True end -> lim_sound_v v.
Proof.
  intros A Hv. split; [exact A|]. split.
  - intros d n H. destruct v as [x r d0|vals tr cm d0 sp|sub pre im dt d0 sp]; [| |destruct dt; [contradiction|]];
      cbn [pair_lim_b pair_lim] in *; apply andb_true_iff in H as [H1 H2]; apply Nat.ltb_lt in H1; auto.
  - intros n H. destruct v as [x r d0|vals tr cm d0 sp|sub pre im dt d0 sp]; [| |destruct dt; [contradiction|]];
      cbn [line_lim_b line_lim] in *; apply andb_true_iff in H as [H1 H2]; apply Nat.ltb_lt in H1; auto.
Qed.

Lemma lim_b_sound_all : (forall v, lim_sound_v v) /\ (forall it, lim_sound_i it) /\ (forall t : tbl, True).
Proof.
  apply tree_ind3.
  - intros s r d. apply lim_sound_plain; [intros; exact I|exact I].
  - intros vals tr cm d sp IH. apply lim_sound_plain; [|exact I].
    intros d0 H. cbn [value_lim_b value_lim] in *. apply andb_true_iff in H as [H1 H2]. apply Nat.ltb_lt in H1. split; [exact H1|].
    refine (forallb_all_P _ _ _ _ H2). eapply Forall_impl; [|exact IH]. intros it Hit Hb. destruct it as [|e| |]; auto.
    exact (proj1 Hit _ Hb).
  - intros items pre im dt d sp IH.
    assert (A : forall d0, value_lim_b d0 (VInline items pre im dt d sp) = true -> value_lim d0 (VInline items pre im dt d sp)).
    { intros d0 H. cbn [value_lim_b value_lim] in *. apply andb_true_iff in H as [H1 H2]. apply Nat.ltb_lt in H1. split; [exact H1|].
      refine (forallb_all_P _ _ _ _ H2). eapply Forall_impl; [|exact IH]. intros [k it] Hit Hb. cbn [snd] in *. destruct it as [|e| |]; try exact I.
      exact (proj1 (proj2 Hit) _ _ Hb). }
    destruct dt; [|apply lim_sound_plain; [exact A|exact I]].
    split; [exact A|]. split.
    + intros d0 n H. cbn [pair_lim_b pair_lim] in *. refine (forallb_all_P _ _ _ _ H). eapply Forall_impl; [|exact IH].
      intros [k it] Hit Hb. cbn [snd] in *. destruct it as [|e| |]; try exact I. exact (proj1 (proj2 Hit) _ _ Hb).
    + intros n H. cbn [line_lim_b line_lim] in *. refine (forallb_all_P _ _ _ _ H). eapply Forall_impl; [|exact IH].
      intros [k it] Hit Hb. cbn [snd] in *. destruct it as [|e| |]; try exact I. exact (proj2 (proj2 Hit) _ Hb).
  - exact I.
  - intros v Hv. exact Hv.
  - intros; exact I.
  - intros; exact I.
  - intros; exact I.
Qed.
Lemma line_lim_b_sound n it : line_lim_b n it = true -> line_lim n it.
Proof.
  destruct it as [|v| |]; try (intros; exact I). exact (proj2 (proj2 (proj1 lim_b_sound_all v)) n).
Qed.

Lemma tbl_lim_b_sound : forall t h n, tbl_lim_b h n t = true -> tbl_lim h n t.
Proof.
  induction t as [items d im dt p sp IH] using tbl_sub_ind. intros h n H. cbn [tbl_lim_b tbl_lim] in *.
  refine (forallb_all_P _ _ _ _ H). eapply Forall_impl; [|exact IH]. intros [k it] Hkv Hb. cbn [fst snd] in *.
  destruct it as [|v|sub|ts asp].
  - exact I.
  - apply line_lim_b_sound, Hb.
  - destruct (t_dotted sub); [apply Hkv, Hb|]. apply andb_true_iff in Hb as [H1 H2]. apply Nat.ltb_lt in H1. split; [exact H1|apply Hkv, H2].
  - apply andb_true_iff in Hb as [H1 H2]. apply Nat.ltb_lt in H1. split; [exact H1|].
    refine (forallb_all_P _ _ _ _ H2). eapply Forall_impl; [|exact Hkv]. intros e He Hb. apply He, Hb.
Qed.

(* ---- order, and all together -------------------------------------------------------------------------------------------- *)
Lemma nondecreasing_b_cons : forall l a, nondecreasing_b (a :: l) = true -> nondecreasing (a :: l).
Proof.
  induction l as [|b l IH]; intros a H; [exact I|]. cbn [nondecreasing_b nondecreasing] in *. apply andb_true_iff in H as [H1 H2].
  apply N.leb_le in H1. split; [exact H1|]. apply IH, H2.
Qed.
Lemma nondecreasing_b_sound l : nondecreasing_b l = true -> nondecreasing l.
Proof. destruct l; [exact (fun _ => I)|apply nondecreasing_b_cons]. Qed.

Theorem wf_b_sound root : wf_b root = true -> WF root.
Proof.
  unfold wf_b, WF. intro H. apply andb_true_iff in H as [H H4]. apply andb_true_iff in H as [H H3]. apply andb_true_iff in H as [H1 H2].
  split; [apply negb_true_iff, H1|]. split; [apply tbl_b_sound, H2|]. split; [apply tbl_lim_b_sound, H3|apply nondecreasing_b_sound, H4].
Qed.
Theorem wfdoc_b_sound root trailing : wfdoc_b root trailing = true -> WFdoc root trailing.
Proof. unfold wfdoc_b, WFdoc. intro H. apply andb_true_iff in H as [H1 H2]. split; [apply wf_b_sound, H1|apply raw_b_sound, H2]. Qed.
