(* Proofs/EditVerbatim.v — property C08, the verbatim half at tree level: an operation leaves the
   own formatting of every entry it does not touch IDENTICAL.

   `lookup p k0 it`   the entry at path p below the item `it` (raw, structural: no filters), with the
                      key it is stored under (k0 for the empty path)
   `own i`            the item without its children: for a value its repr and decor, for an array its
                      decor / trailing / trailing comma, for an inline table its decor / preamble / flags,
                      for a table its header decor / flags / position, for a key everything (repr, leaf
                      decor, dotted decor) — i.e. everything the printer takes from this entry itself
   `entry_of p k0 it` = (stored key, own item) at p.
   An operation is described by the place P it works at, the set U of paths RELATIVE to P it leaves
   alone and the relocation R of relative paths (array insert / remove shift the later elements). *)
From TV Require Import Base.Prelude Gen.Consts Spec.Ordered Model.Datetime Model.Numbers Model.Tree.
From TV Require Import Spec.EditSpec Model.Edit Proofs.ContainersOrder Proofs.EditRefineBase Proofs.EditRefine.
Require Import Lia.

(* ==================================================================================== *)
(** * Definitions *)

Definition own (it : item) : item :=
  match it with
  | INone => INone
  | IValue (VScalar s r d) => IValue (VScalar s r d)
  | IValue (VArray _ tr c d sp) => IValue (VArray [] tr c d sp)
  | IValue (VInline _ pre im dt d sp) => IValue (VInline [] pre im dt d sp)
  | ITable (Tbl _ d im dt p sp) => ITable (Tbl [] d im dt p sp)
  | IAot _ sp => IAot [] sp
  end.

Definition item_kvs (it : item) : option kvs :=
  match it with
  | ITable (Tbl items _ _ _ _ _) => Some items
  | IValue (VInline items _ _ _ _ _) => Some items
  | _ => None
  end.
Definition item_elems (it : item) : option (list item) :=
  match it with
  | IValue (VArray vals _ _ _ _) => Some vals
  | IAot ts _ => Some (map ITable ts)
  | _ => None
  end.

Fixpoint lookup (p : path) (k0 : option key) (it : item) : option (option key * item) :=
  match p with
  | [] => Some (k0, it)
  | SKey k :: p' =>
    match item_kvs it with
    | Some items => match kv_get items k with Some (k', i) => lookup p' (Some k') i | None => None end
    | None => None
    end
  | SIdx n :: p' =>
    match item_elems it with
    | Some l => match nth_error l n with Some i => lookup p' None i | None => None end
    | None => None
    end
  end.

Definition entry_of (p : path) (k0 : option key) (it : item) : option (option key * item) :=
  match lookup p k0 it with Some (k, i) => Some (k, own i) | None => None end.

(* the entry at path p of a document *)
Definition entry_repr (t : tbl) (p : path) : option (option key * item) := entry_of p None (ITable t).

Definition seg_eqb (a b : seg) : bool :=
  match a, b with
  | SKey x, SKey y => bytes_eqb x y
  | SIdx x, SIdx y => Nat.eqb x y
  | _, _ => false
  end.
Fixpoint path_strip (P p : path) : option path :=
  match P, p with
  | [], _ => Some p
  | a :: P', b :: p' => if seg_eqb a b then path_strip P' p' else None
  | _ :: _, [] => None
  end.
Definition is_prefix (P p : path) : bool := match path_strip P p with Some _ => true | None => false end.

(* what an operation working at a node leaves alone (U, relative paths) and where it moves it (R) *)
Definition keeps (f : item -> option item) (U : path -> bool) (R : path -> path) : Prop :=
  forall i i', f i = Some i' ->
  forall q k0 e, U q = true -> entry_of q k0 i = Some e -> entry_of (R q) k0 i' = Some e.

Definition U_at (P : path) (U : path -> bool) (p : path) : bool :=
  match path_strip P p with Some q => U q | None => true end.
Definition R_at (P : path) (R : path -> path) (p : path) : path :=
  match path_strip P p with Some q => P ++ R q | None => p end.

(* ==================================================================================== *)
(** * Shape of one step of at_path *)

Lemma seg_eqb_eq a b : seg_eqb a b = true -> a = b.
Proof.
  destruct a as [x|x], b as [y|y]; simpl; intro H; try discriminate.
  - apply bytes_eqb_eq in H. subst. reflexivity.
  - apply Nat.eqb_eq in H. subst. reflexivity.
Qed.
Lemma seg_eqb_refl a : seg_eqb a a = true.
Proof. destruct a; simpl; [apply bytes_eqb_refl|apply Nat.eqb_refl]. Qed.

Lemma kv_upd_get_same k F m m' :
  kv_upd k F m = Some m' ->
  exists k' i i', kv_get m k = Some (k', i) /\ kv_get m' k = Some (k', i') /\ F i = Some i'.
Proof.
  revert m'. induction m as [|[k1 v] m IH]; intros m' H; simpl in H; [discriminate|].
  destruct (bytes_eqb (k_key k1) k) eqn:E.
  - destruct (F v) as [v'|] eqn:Fv; simpl in H; [|discriminate]. injection H as <-.
    exists k1, v, v'. simpl. rewrite E. auto.
  - destruct (kv_upd k F m) as [m1|]; simpl in H; [|discriminate]. injection H as <-.
    destruct (IH m1 eq_refl) as (k' & i & i' & G & G' & Fi).
    exists k', i, i'. simpl. rewrite E. auto.
Qed.

Lemma kv_upd_get_other k k2 F m m' :
  kv_upd k F m = Some m' -> bytes_eqb k k2 = false -> kv_get m' k2 = kv_get m k2.
Proof.
  intros H N. revert m' H. induction m as [|[k1 v] m IH]; intros m' H; simpl in H; [discriminate|].
  destruct (bytes_eqb (k_key k1) k) eqn:E.
  - destruct (F v) as [v'|]; simpl in H; [|discriminate]. injection H as <-.
    apply bytes_eqb_eq in E. simpl. rewrite E, N. reflexivity.
  - destruct (kv_upd k F m) as [m1|]; simpl in H; [|discriminate]. injection H as <-.
    simpl. destruct (bytes_eqb (k_key k1) k2); [reflexivity|]. apply IH. reflexivity.
Qed.

Lemma nth_upd_same {A} n (F : A -> option A) l l' :
  nth_upd n F l = Some l' ->
  exists x x', nth_error l n = Some x /\ nth_error l' n = Some x' /\ F x = Some x'.
Proof.
  revert n l'. induction l as [|y l IH]; intros [|n] l' H; simpl in H; try discriminate.
  - destruct (F y) as [y'|] eqn:Fy; simpl in H; [|discriminate]. injection H as <-.
    exists y, y'. auto.
  - destruct (nth_upd n F l) as [l1|] eqn:E; simpl in H; [|discriminate]. injection H as <-.
    destruct (IH n l1 E) as (x & x' & G & G' & Fx). exists x, x'. auto.
Qed.
Lemma nth_upd_other {A} n m (F : A -> option A) l l' :
  nth_upd n F l = Some l' -> m <> n -> nth_error l' m = nth_error l m.
Proof.
  revert n m l'. induction l as [|y l IH]; intros [|n] m l' H N; simpl in H; try discriminate.
  - destruct (F y) as [y'|]; simpl in H; [|discriminate]. injection H as <-.
    destruct m; [congruence|reflexivity].
  - destruct (nth_upd n F l) as [l1|] eqn:E; simpl in H; [|discriminate]. injection H as <-.
    destruct m; [reflexivity|]. simpl. apply (IH n m l1 E). congruence.
Qed.

(* a key step *)
Lemma at_path_key_shape k P f it it' :
  at_path (SKey k :: P) f it = Some it' ->
  own it' = own it /\ item_elems it = None /\ item_elems it' = None /\
  exists items items',
    item_kvs it = Some items /\ item_kvs it' = Some items' /\
    (forall k2, bytes_eqb k k2 = false -> kv_get items' k2 = kv_get items k2) /\
    exists k' i i', kv_get items k = Some (k', i) /\ kv_get items' k = Some (k', i') /\ at_path P f i = Some i'.
Proof.
  intro H. simpl in H.
  destruct it as [|[s r d|vals tr c d sp|items pre im dt d sp]|[items d im dt pos sp]|ts sp]; try discriminate.
  - destruct (kv_upd k _ items) as [items'|] eqn:E; simpl in H; [|discriminate]. injection H as <-.
    repeat split; try reflexivity. exists items, items'. repeat split; try reflexivity.
    + intros k2 N. eapply kv_upd_get_other; eauto.
    + destruct (kv_upd_get_same _ _ _ _ E) as (k' & i & i' & G & G' & Fi).
      exists k', i, i'. repeat split; auto.
      cbv beta in Fi. destruct i as [|v| |]; try discriminate.
      destruct (at_path P f (IValue v)) as [[|v'| |]|]; try discriminate. exact Fi.
  - destruct (kv_upd k _ items) as [items'|] eqn:E; simpl in H; [|discriminate]. injection H as <-.
    repeat split; try reflexivity. exists items, items'. repeat split; try reflexivity.
    + intros k2 N. eapply kv_upd_get_other; eauto.
    + destruct (kv_upd_get_same _ _ _ _ E) as (k' & i & i' & G & G' & Fi).
      exists k', i, i'. repeat split; auto.
      cbv beta in Fi. destruct (item_is_none i); [discriminate|exact Fi].
Qed.

Lemma nth_error_map_ITable ts n : nth_error (map ITable ts) n = optmap ITable (nth_error ts n).
Proof. revert n. induction ts as [|t ts IH]; intros [|n]; simpl; try reflexivity. apply IH. Qed.

(* an index step *)
Lemma at_path_idx_shape n P f it it' :
  at_path (SIdx n :: P) f it = Some it' ->
  own it' = own it /\ item_kvs it = None /\ item_kvs it' = None /\
  exists l l',
    item_elems it = Some l /\ item_elems it' = Some l' /\
    (forall m, m <> n -> nth_error l' m = nth_error l m) /\
    exists i i', nth_error l n = Some i /\ nth_error l' n = Some i' /\ at_path P f i = Some i'.
Proof.
  intro H. simpl in H.
  destruct it as [|[s r d|vals tr c d sp|items pre im dt d sp]|[items d im dt pos sp]|ts sp]; try discriminate.
  - destruct (nth_upd n _ vals) as [vals'|] eqn:E; simpl in H; [|discriminate]. injection H as <-.
    repeat split; try reflexivity. exists vals, vals'. repeat split; try reflexivity.
    + intros m N. eapply nth_upd_other; eauto.
    + destruct (nth_upd_same _ _ _ _ E) as (x & x' & G & G' & Fx).
      exists x, x'. repeat split; auto.
      cbv beta in Fx. destruct x as [|v| |]; try discriminate.
      destruct (at_path P f (IValue v)) as [[|v'| |]|]; try discriminate. exact Fx.
  - destruct (nth_upd n _ ts) as [ts'|] eqn:E; simpl in H; [|discriminate]. injection H as <-.
    repeat split; try reflexivity. exists (map ITable ts), (map ITable ts'). repeat split; try reflexivity.
    + intros m N. rewrite !nth_error_map_ITable. f_equal. eapply nth_upd_other; eauto.
    + destruct (nth_upd_same _ _ _ _ E) as (x & x' & G & G' & Fx).
      exists (ITable x), (ITable x'). rewrite !nth_error_map_ITable, G, G'. repeat split; auto.
      cbv beta in Fx. destruct (at_path P f (ITable x)) as [[| |t'|]|]; simpl in Fx; try discriminate.
      injection Fx as <-. reflexivity.
Qed.

(* ==================================================================================== *)
(** * Lifting a local statement along the path *)

Lemma entry_of_nil k0 it : entry_of [] k0 it = Some (k0, own it).
Proof. reflexivity. Qed.

Lemma at_path_keeps P f U R : keeps f U R -> keeps (at_path P f) (U_at P U) (R_at P R).
Proof.
  intro Hf. induction P as [|s P IH].
  - intros i i' H q k0 e Hu He. unfold U_at, R_at in *. simpl in *. eapply Hf; eauto.
  - intros it it' H q k0 e Hu He.
    destruct q as [|s2 q].
    + (* the node itself is an ancestor of the place *)
      unfold R_at. simpl. rewrite entry_of_nil in *.
      destruct s as [k|n].
      * destruct (at_path_key_shape _ _ _ _ _ H) as (O & _). rewrite O. exact He.
      * destruct (at_path_idx_shape _ _ _ _ _ H) as (O & _). rewrite O. exact He.
    + unfold U_at, R_at in *. simpl in Hu. simpl path_strip.
      destruct (seg_eqb s s2) eqn:Es.
      * (* same first step: below the changed child *)
        apply seg_eqb_eq in Es. subst s2.
        assert (Hgoal : forall X, X = match path_strip P q with Some q0 => P ++ R q0 | None => q end ->
                                  entry_of (s :: X) k0 it' = Some e).
        { intros X ->.
          destruct s as [k|n].
          -- destruct (at_path_key_shape _ _ _ _ _ H) as (_ & _ & _ & items & items' & K & K' & _ & k' & i & i' & G & G' & A).
             unfold entry_of in *. simpl in *. rewrite K in He. rewrite K'. rewrite G in He. rewrite G'.
             apply (IH i i' A q (Some k') e Hu He).
          -- destruct (at_path_idx_shape _ _ _ _ _ H) as (_ & _ & _ & l & l' & K & K' & _ & i & i' & G & G' & A).
             unfold entry_of in *. simpl in *. rewrite K in He. rewrite K'. rewrite G in He. rewrite G'.
             apply (IH i i' A q None e Hu He). }
        destruct (path_strip P q); apply Hgoal; reflexivity.
      * (* another child: unchanged *)
        destruct s as [k|n].
        -- destruct (at_path_key_shape _ _ _ _ _ H) as (_ & E1 & E2 & items & items' & K & K' & Oth & _).
           unfold entry_of in *. destruct s2 as [k2|n2]; simpl in *.
           ++ rewrite K in He. rewrite K'. rewrite (Oth k2 Es). exact He.
           ++ rewrite E1 in He. discriminate.
        -- destruct (at_path_idx_shape _ _ _ _ _ H) as (_ & E1 & E2 & l & l' & K & K' & Oth & _).
           unfold entry_of in *. destruct s2 as [k2|n2]; simpl in *.
           ++ rewrite E1 in He. discriminate.
           ++ rewrite K in He. rewrite K'. rewrite Oth; [exact He|].
              intro; subst. rewrite Nat.eqb_refl in Es. discriminate.
Qed.

(* ==================================================================================== *)
(** * The operations at their node *)

Definition not_key (k : bytes) (q : path) : bool :=
  match q with SKey k2 :: _ => negb (bytes_eqb k k2) | _ => true end.
Definition not_idx (n : nat) (q : path) : bool :=
  match q with SIdx m :: _ => negb (Nat.eqb n m) | _ => true end.
Definition ident (q : path) : path := q.

(* keys other than k are looked up as before *)
Lemma kv_get_set_fmt_other m k k2 v : bytes_eqb k k2 = false -> kv_get (kv_set_fmt m k v) k2 = kv_get m k2.
Proof.
  intro N. induction m as [|[k1 v1] m IH]; simpl; [reflexivity|].
  destruct (bytes_eqb (k_key k1) k) eqn:E; simpl.
  - apply bytes_eqb_eq in E. rewrite E, N. reflexivity.
  - destruct (bytes_eqb (k_key k1) k2); [reflexivity|exact IH].
Qed.
Lemma kv_get_set_other m k k2 v : bytes_eqb k k2 = false -> kv_get (kv_set m k v) k2 = kv_get m k2.
Proof.
  intro N. induction m as [|[k1 v1] m IH]; simpl; [reflexivity|].
  destruct (bytes_eqb (k_key k1) k) eqn:E; simpl.
  - apply bytes_eqb_eq in E. rewrite E, N. reflexivity.
  - destruct (bytes_eqb (k_key k1) k2); [reflexivity|exact IH].
Qed.
Lemma kv_get_push_other m k k2 v : bytes_eqb k k2 = false -> kv_get (kv_push m (key_new k) v) k2 = kv_get m k2.
Proof.
  intro N. unfold kv_push. induction m as [|[k1 v1] m IH]; simpl.
  - rewrite N. reflexivity.
  - destruct (bytes_eqb (k_key k1) k2); [reflexivity|exact IH].
Qed.
Lemma kv_get_remove_other m k k2 : bytes_eqb k k2 = false -> kv_get (kv_remove m k) k2 = kv_get m k2.
Proof.
  intro N. induction m as [|[k1 v1] m IH]; simpl; [reflexivity|].
  destruct (bytes_eqb (k_key k1) k) eqn:E; simpl.
  - apply bytes_eqb_eq in E. rewrite E, N. reflexivity.
  - destruct (bytes_eqb (k_key k1) k2); [reflexivity|exact IH].
Qed.
Lemma kv_get_purge_other m k k2 : bytes_eqb k k2 = false -> kv_get (kv_purge m k) k2 = kv_get m k2.
Proof.
  intro N. unfold kv_purge. destruct (kv_get m k) as [[k' [| | |]]|]; try reflexivity.
  apply kv_get_remove_other. exact N.
Qed.
Lemma kv_get_items_insert_other m k k2 v : bytes_eqb k k2 = false -> kv_get (items_insert m k v) k2 = kv_get m k2.
Proof.
  intro N. unfold items_insert. rewrite <- (kv_get_purge_other m k k2 N). destruct (kv_get (kv_purge m k) k).
  - apply kv_get_set_fmt_other. exact N.
  - apply kv_get_push_other. exact N.
Qed.

Ltac shape := repeat split; try reflexivity; try (eexists; split; reflexivity); try (eexists; reflexivity).

(* a function that rewrites the entries of a table-like node and nothing else *)
Lemma keeps_items (f : item -> option item) (g : kvs -> kvs) k :
  (forall i i', f i = Some i' ->
     own i' = own i /\ item_elems i = None /\ item_elems i' = None /\
     exists items, item_kvs i = Some items /\ item_kvs i' = Some (g items)) ->
  (forall m k2, bytes_eqb k k2 = false -> kv_get (g m) k2 = kv_get m k2) ->
  keeps f (not_key k) ident.
Proof.
  intros Hs Hg i i' H q k0 e Hu He. unfold ident.
  destruct (Hs _ _ H) as (O & E1 & E2 & items & K & K').
  destruct q as [|[k2|n] q]; unfold entry_of in *; simpl in *.
  - rewrite O. exact He.
  - rewrite K in He. rewrite K'. rewrite Hg; [exact He|].
    destruct (bytes_eqb k k2); [discriminate|reflexivity].
  - rewrite E1 in He. discriminate.
Qed.

Lemma op_insert_keeps k v : keeps (op_insert k v) (not_key k) ident.
Proof.
  apply (keeps_items _ (fun m => items_insert m k (IValue (build_value v)))).
  - intros i i' H.
    destruct i as [|[| |items pre im dt d sp]|[items d im dt p sp]|]; simpl in H; try discriminate;
      injection H as <-; shape.
  - intros. apply kv_get_items_insert_other. assumption.
Qed.

Lemma op_insert_item_keeps k x : keeps (op_insert_item k x) (not_key k) ident.
Proof.
  apply (keeps_items _ (fun m => items_insert m k x)).
  - intros i i' H. destruct i as [| |[items d im dt p sp]|]; simpl in H; try discriminate.
    injection H as <-. shape.
  - intros. apply kv_get_items_insert_other. assumption.
Qed.

Lemma op_remove_keeps k : keeps (op_remove k) (not_key k) ident.
Proof.
  apply (keeps_items _ (fun m => kv_remove m k)).
  - intros i i' H.
    destruct i as [|[| |items pre im dt d sp]|[items d im dt p sp]|]; simpl in H; try discriminate;
      injection H as <-; shape.
  - intros. apply kv_get_remove_other. assumption.
Qed.

Lemma op_slot_keeps k conv : keeps (op_slot k conv) (not_key k) ident.
Proof.
  intros i i' H q k0 e Hu He. unfold ident.
  destruct i as [| |[items d im dt p sp]|]; simpl in H; try discriminate.
  destruct (kv_upd k _ items) as [items'|] eqn:E; simpl in H; [|discriminate]. injection H as <-.
  destruct q as [|[k2|n] q]; unfold entry_of in *; simpl in *.
  - exact He.
  - rewrite (kv_upd_get_other _ _ _ _ _ E); [exact He|].
    destruct (bytes_eqb k k2); [discriminate|reflexivity].
  - discriminate.
Qed.

(* -- vectors -- *)
Definition shift_up (n : nat) (q : path) : path :=
  match q with SIdx m :: q' => SIdx (if m <? n then m else S m) :: q' | _ => q end.
Definition shift_down (n : nat) (q : path) : path :=
  match q with SIdx m :: q' => SIdx (if m <? n then m else Nat.pred m) :: q' | _ => q end.

Lemma vec_insert_nth {A} n (x : A) l l' m y :
  vec_insert n x l = Some l' -> nth_error l m = Some y ->
  nth_error l' (if m <? n then m else S m) = Some y.
Proof.
  revert l l' m. induction n as [|n IH]; intros l l' m H G; simpl in H.
  - injection H as <-. exact G.
  - destruct l as [|z l]; [discriminate|].
    destruct (vec_insert n x l) as [l1|] eqn:E; simpl in H; [|discriminate]. injection H as <-.
    destruct m as [|m]; [exact G|]. simpl in G.
    specialize (IH l l1 m E G).
    change (S m <? S n) with (m <? n). destruct (m <? n); exact IH.
Qed.

Lemma vec_remove_nth {A} n (l : list A) y l' m :
  vec_remove n l = Some (y, l') -> m <> n ->
  nth_error l' (if m <? n then m else Nat.pred m) = nth_error l m.
Proof.
  revert n y l' m. induction l as [|z l IH]; intros [|n] y l' m H N; simpl in H; try discriminate.
  - injection H as <- <-. destruct m; [congruence|reflexivity].
  - destruct (vec_remove n l) as [[y1 l1]|] eqn:E; simpl in H; [|discriminate]. injection H as <- <-.
    destruct m as [|m]; [reflexivity|].
    change (S m <? S n) with (m <? n).
    assert (N' : m <> n) by congruence.
    specialize (IH n y1 l1 m E N').
    destruct (m <? n) eqn:L; [exact IH|].
    apply Nat.ltb_ge in L. destruct m as [|m]; [lia|]. simpl in *. exact IH.
Qed.

(* a function that rewrites the elements of an array-like node and nothing else *)
Lemma keeps_elems (f : item -> option item) U R :
  (forall q, match q with SIdx _ :: _ => True | _ => R q = q end) ->
  (forall m q', exists m', R (SIdx m :: q') = SIdx m' :: q' /\
     forall i i', f i = Some i' -> U (SIdx m :: q') = true ->
       forall l, item_elems i = Some l ->
       exists l', item_elems i' = Some l' /\ forall y, nth_error l m = Some y -> nth_error l' m' = Some y) ->
  (forall i i', f i = Some i' -> own i' = own i /\ item_kvs i = None /\ exists l, item_elems i = Some l) ->
  keeps f U R.
Proof.
  intros HR Hm Hs i i' H q k0 e Hu He.
  destruct (Hs _ _ H) as (O & K & l & L).
  destruct q as [|[k2|m] q].
  - rewrite (HR []). rewrite entry_of_nil in *. rewrite O. exact He.
  - unfold entry_of in He. simpl in He. rewrite K in He. discriminate.
  - destruct (Hm m q) as (m' & Rm & Hn). rewrite Rm.
    destruct (Hn _ _ H Hu l L) as (l' & L' & Hy).
    unfold entry_of in *. simpl in *. rewrite L in He. rewrite L'.
    destruct (nth_error l m) as [y|] eqn:G; [|discriminate].
    rewrite (Hy y eq_refl). exact He.
Qed.

Lemma op_arr_push_keeps v : keeps (op_arr_push v) (fun _ => true) ident.
Proof.
  apply keeps_elems.
  - intros [|[|] ?]; auto.
  - intros m q'. exists m. split; [reflexivity|].
    intros i i' H _ l L. destruct i as [|[|vals tr c d sp|]| |]; simpl in H; try discriminate.
    injection H as <-. simpl in L. injection L as <-. eexists. split; [reflexivity|].
    intros y G. rewrite nth_error_app1; [exact G|]. apply nth_error_Some. congruence.
  - intros i i' H. destruct i as [|[|vals tr c d sp|]| |]; simpl in H; try discriminate.
    injection H as <-. shape.
Qed.

Lemma op_arr_insert_keeps n v : keeps (op_arr_insert n v) (fun _ => true) (shift_up n).
Proof.
  apply keeps_elems.
  - intros [|[|] ?]; simpl; auto.
  - intros m q'. exists (if m <? n then m else S m). split; [reflexivity|].
    intros i i' H _ l L. destruct i as [|[|vals tr c d sp|]| |]; simpl in H; try discriminate.
    destruct (vec_insert n _ vals) as [vals'|] eqn:E; simpl in H; [|discriminate]. injection H as <-.
    simpl in L. injection L as <-. eexists. split; [reflexivity|].
    intros y G. eapply vec_insert_nth; eauto.
  - intros i i' H. destruct i as [|[|vals tr c d sp|]| |]; simpl in H; try discriminate.
    destruct (vec_insert n _ vals) as [vals'|]; simpl in H; [|discriminate]. injection H as <-.
    shape.
Qed.

Lemma op_arr_remove_keeps n : keeps (op_arr_remove n) (not_idx n) (shift_down n).
Proof.
  apply keeps_elems.
  - intros [|[|] ?]; simpl; auto.
  - intros m q'. exists (if m <? n then m else Nat.pred m). split; [reflexivity|].
    intros i i' H Hu l L. destruct i as [|[|vals tr c d sp|]| |]; simpl in H; try discriminate.
    destruct (vec_remove n vals) as [[y0 vals']|] eqn:E; [|discriminate].
    destruct y0; try discriminate. injection H as <-.
    simpl in L. injection L as <-. eexists. split; [reflexivity|].
    intros y G. rewrite <- G. eapply vec_remove_nth; eauto.
    simpl in Hu. intro; subst. rewrite Nat.eqb_refl in Hu. discriminate.
  - intros i i' H. destruct i as [|[|vals tr c d sp|]| |]; simpl in H; try discriminate.
    destruct (vec_remove n vals) as [[y0 vals']|]; [|discriminate].
    destruct y0; try discriminate. injection H as <-. shape.
Qed.

Lemma op_arr_replace_keeps n v : keeps (op_arr_replace n v) (not_idx n) ident.
Proof.
  apply keeps_elems.
  - intros [|[|] ?]; simpl; auto.
  - intros m q'. exists m. split; [reflexivity|].
    intros i i' H Hu l L. destruct i as [|[|vals tr c d sp|]| |]; simpl in H; try discriminate.
    destruct (nth_upd n _ vals) as [vals'|] eqn:E; simpl in H; [|discriminate]. injection H as <-.
    simpl in L. injection L as <-. eexists. split; [reflexivity|].
    intros y G. rewrite <- G. eapply nth_upd_other; eauto.
    simpl in Hu. intro; subst. rewrite Nat.eqb_refl in Hu. discriminate.
  - intros i i' H. destruct i as [|[|vals tr c d sp|]| |]; simpl in H; try discriminate.
    destruct (nth_upd n _ vals) as [vals'|]; simpl in H; [|discriminate]. injection H as <-.
    shape.
Qed.

Lemma op_aot_push_keeps : keeps op_aot_push (fun _ => true) ident.
Proof.
  apply keeps_elems.
  - intros [|[|] ?]; auto.
  - intros m q'. exists m. split; [reflexivity|].
    intros i i' H _ l L. destruct i as [| | |ts sp]; simpl in H; try discriminate.
    injection H as <-. simpl in L. injection L as <-. eexists. split; [reflexivity|].
    intros y G. rewrite map_app, nth_error_app1; [exact G|]. apply nth_error_Some. congruence.
  - intros i i' H. destruct i as [| | |ts sp]; simpl in H; try discriminate.
    injection H as <-. shape.
Qed.

Lemma op_aot_remove_keeps n : keeps (op_aot_remove n) (not_idx n) (shift_down n).
Proof.
  apply keeps_elems.
  - intros [|[|] ?]; simpl; auto.
  - intros m q'. exists (if m <? n then m else Nat.pred m). split; [reflexivity|].
    intros i i' H Hu l L. destruct i as [| | |ts sp]; simpl in H; try discriminate.
    destruct (vec_remove n ts) as [[y0 ts']|] eqn:E; simpl in H; [|discriminate]. injection H as <-.
    simpl in L. injection L as <-. eexists. split; [reflexivity|].
    intros y G. rewrite <- G. rewrite !nth_error_map_ITable. f_equal. eapply vec_remove_nth; eauto.
    simpl in Hu. intro; subst. rewrite Nat.eqb_refl in Hu. discriminate.
  - intros i i' H. destruct i as [| | |ts sp]; simpl in H; try discriminate.
    destruct (vec_remove n ts) as [[y0 ts']|]; simpl in H; [|discriminate]. injection H as <-.
    shape.
Qed.

(* ==================================================================================== *)
(** * fmt: the node and its direct children are reformatted, nothing deeper *)

Definition deeper (q : path) : bool := match q with _ :: _ :: _ => true | _ => false end.

Lemma lookup_cons_indep s q k0 k1 i i' :
  item_kvs i = item_kvs i' -> item_elems i = item_elems i' ->
  lookup (s :: q) k0 i = lookup (s :: q) k1 i'.
Proof. intros E1 E2. destruct s; simpl; [rewrite E1|rewrite E2]; reflexivity. Qed.

Definition same_children (a b : item) : Prop := item_kvs a = item_kvs b /\ item_elems a = item_elems b.

Lemma value_clear_decor_children v : same_children (IValue (value_clear_decor v)) (IValue v).
Proof. destruct v; split; reflexivity. Qed.
Lemma value_decorate_children v p s : same_children (IValue (value_decorate v p s)) (IValue v).
Proof. destruct v; split; reflexivity. Qed.

Lemma kv_get_decorate m k :
  match kv_get m k, kv_get (decorate_items m) k with
  | Some (_, a), Some (_, b) => same_children b a
  | None, None => True
  | _, _ => False
  end.
Proof.
  induction m as [|[k1 i] m IH]; simpl; [exact I|].
  destruct i as [|v| |]; simpl; destruct (bytes_eqb (k_key k1) k); try exact IH; try (split; reflexivity).
  apply value_clear_decor_children.
Qed.

Lemma nth_decorate_elems first l n :
  match nth_error l n, nth_error (decorate_elems first l) n with
  | Some a, Some b => same_children b a
  | None, None => True
  | _, _ => False
  end.
Proof.
  revert first n. induction l as [|x l IH]; intros first n.
  - destruct n; exact I.
  - destruct x as [|v| |]; destruct n as [|n]; simpl; try (split; reflexivity); try apply IH.
    apply value_decorate_children.
Qed.

Lemma op_fmt_keeps : keeps op_fmt deeper ident.
Proof.
  intros i i' H q k0 e Hu He. unfold ident.
  destruct q as [|s1 [|s2 q]]; try discriminate.
  unfold entry_of in *.
  destruct i as [|[|vals tr c d sp|items pre im dt d sp]|[items d im dt p sp]|]; simpl in H; try discriminate;
    injection H as <-.
  - (* array *)
    destruct s1 as [k|n]; [discriminate|].
    cbn [lookup item_elems] in He. cbn [lookup item_elems array_fmt].
    pose proof (nth_decorate_elems true vals n) as Hn.
    destruct (nth_error vals n) as [a|]; [|discriminate].
    destruct (nth_error (decorate_elems true vals) n) as [b|]; [|contradiction].
    destruct Hn as [E1 E2]. rewrite E1, E2. exact He.
  - (* inline table *)
    destruct s1 as [k|n]; [|discriminate].
    cbn [lookup item_kvs] in He. cbn [lookup item_kvs].
    pose proof (kv_get_decorate items k) as Hn.
    destruct (kv_get items k) as [[ka a]|]; [|discriminate].
    destruct (kv_get (decorate_items items) k) as [[kb b]|]; [|contradiction].
    destruct Hn as [E1 E2]. rewrite E1, E2. exact He.
  - (* table *)
    destruct s1 as [k|n]; [|discriminate].
    cbn [lookup item_kvs tbl_with_items] in He. cbn [lookup item_kvs tbl_with_items].
    pose proof (kv_get_decorate items k) as Hn.
    destruct (kv_get items k) as [[ka a]|]; [|discriminate].
    destruct (kv_get (decorate_items items) k) as [[kb b]|]; [|contradiction].
    destruct Hn as [E1 E2]. rewrite E1, E2. exact He.
Qed.

(* ==================================================================================== *)
(** * sort: every entry keeps its own formatting (only the order changes) *)

Lemma key_leb_refl a : key_leb a a = true.
Proof. unfold key_leb. rewrite key_compare_refl. reflexivity. Qed.

Lemma kv_get_ins_sorted x m k : kv_get (kv_ins_sorted x m) k = kv_get (x :: m) k.
Proof.
  induction m as [|y m IH]; [reflexivity|].
  simpl kv_ins_sorted. destruct (key_leb (k_key (fst x)) (k_key (fst y))) eqn:L; [reflexivity|].
  destruct x as [kx ix], y as [ky iy]. simpl in *.
  destruct (bytes_eqb (k_key ky) k) eqn:Ey.
  - destruct (bytes_eqb (k_key kx) k) eqn:Ex; [|reflexivity].
    apply bytes_eqb_eq in Ex, Ey. rewrite Ex, Ey, key_leb_refl in L. discriminate.
  - rewrite IH. reflexivity.
Qed.

Lemma kv_get_sort_keys m k : kv_get (kv_sort_keys m) k = kv_get m k.
Proof.
  induction m as [|[k1 i1] m IH]; [reflexivity|].
  simpl kv_sort_keys. rewrite kv_get_ins_sorted. simpl. rewrite IH. reflexivity.
Qed.

Lemma kv_get_map (g : item -> item) m k :
  kv_get (map (fun kv : key * item => match kv with (k0, i) => (k0, g i) end) m) k
  = match kv_get m k with Some (k', i) => Some (k', g i) | None => None end.
Proof.
  induction m as [|[k1 i1] m IH]; simpl; [reflexivity|].
  destruct (bytes_eqb (k_key k1) k); [reflexivity|exact IH].
Qed.

Lemma kv_get_In m k k' i : kv_get m k = Some (k', i) -> In (k', i) m.
Proof.
  induction m as [|[k1 i1] m IH]; simpl; [discriminate|].
  destruct (bytes_eqb (k_key k1) k); intro H; [injection H as <- <-; left; reflexivity|right; apply IH; exact H].
Qed.

Definition same_entries (a b : item) : Prop := forall q k0, entry_of q k0 b = entry_of q k0 a.

Lemma sort_same_entries :
  (forall v, same_entries (IValue v) (IValue (inline_sort_values v))) /\
  (forall t, same_entries (ITable t) (ITable (tbl_sort_values t))).
Proof.
  pose (Pv := fun v => same_entries (IValue v) (IValue (inline_sort_values v))).
  pose (Pt := fun t => same_entries (ITable t) (ITable (tbl_sort_values t))).
  pose (Pi := fun i => match i with IValue v => Pv v | ITable t => Pt t | _ => True end).
  assert (Hin : forall items pre im dt d sp,
             Forall (fun kv => Pi (snd kv)) items -> Pv (VInline items pre im dt d sp)).
  { intros items pre im dt d sp IH q k0. unfold entry_of.
    destruct q as [|[k|n] q]; [reflexivity| |reflexivity].
    simpl inline_sort_values. simpl lookup.
    rewrite kv_get_sort_keys, kv_get_map.
    destruct (kv_get items k) as [[k' i]|] eqn:G; [|reflexivity].
    rewrite Forall_forall in IH. specialize (IH _ (kv_get_In _ _ _ _ G)). simpl in IH.
    destruct i as [|[s r d0|vals tr c d0 sp0|items0 pre0 im0 dt0 d0 sp0]|[items0 d0 im0 dt0 p0 sp0]|]; try reflexivity.
    destruct dt0; [|reflexivity]. apply (IH q (Some k')). }
  assert (Htb : forall items d im dt p sp,
             Forall (fun kv => Pi (snd kv)) items -> Pt (Tbl items d im dt p sp)).
  { intros items d im dt p sp IH q k0. unfold entry_of.
    destruct q as [|[k|n] q]; [reflexivity| |reflexivity].
    simpl tbl_sort_values. simpl lookup.
    rewrite kv_get_sort_keys, kv_get_map.
    destruct (kv_get items k) as [[k' i]|] eqn:G; [|reflexivity].
    rewrite Forall_forall in IH. specialize (IH _ (kv_get_In _ _ _ _ G)). simpl in IH.
    destruct i as [|[s r d0|vals tr c d0 sp0|items0 pre0 im0 dt0 d0 sp0]|[items0 d0 im0 dt0 p0 sp0]|]; try reflexivity.
    destruct dt0; [|reflexivity]. apply (IH q (Some k')). }
  split.
  - apply (value_ind4 Pv Pi Pt); unfold Pi; try (intros; exact I); try (intros; assumption); try exact Hin; try exact Htb.
    + intros s r d q k0. reflexivity.
    + intros vals tr c d sp _ q k0. reflexivity.
  - apply (tbl_ind4 Pv Pi Pt); unfold Pi; try (intros; exact I); try (intros; assumption); try exact Hin; try exact Htb.
    + intros s r d q k0. reflexivity.
    + intros vals tr c d sp _ q k0. reflexivity.
Qed.

Lemma op_sort_keeps : keeps op_sort (fun _ => true) ident.
Proof.
  intros i i' H q k0 e _ He. unfold ident.
  destruct i as [|[| |items pre im dt d sp]|t|]; unfold op_sort in H; try discriminate; injection H as <-.
  - change (entry_of q k0 (IValue (inline_sort_values (VInline items pre im dt d sp))) = Some e).
    rewrite (proj1 sort_same_entries (VInline items pre im dt d sp) q k0). exact He.
  - rewrite (proj2 sort_same_entries t q k0). exact He.
Qed.

(* ==================================================================================== *)
(** * sort_by: the same, whatever the comparator, on tables whose keys are distinct *)

Definition kkeys_b (m : kvs) : list bytes := map (fun kv : key * item => k_key (fst kv)) m.

Lemma tbl_is_map_eq items d im dt p sp :
  tbl_is_map (Tbl items d im dt p sp)
  = keys_distinct (kkeys_b items)
    && forallb (fun kv => match snd kv with ITable (Tbl _ _ _ true _ _ as sub) => tbl_is_map sub | _ => true end) items.
Proof.
  cbn [tbl_is_map]. unfold kkeys_b. f_equal. induction items as [|[k i] items IH]; [reflexivity|].
  cbn [forallb snd]. rewrite IH. reflexivity.
Qed.
Lemma inline_is_map_eq items pre im dt d sp :
  inline_is_map (VInline items pre im dt d sp)
  = keys_distinct (kkeys_b items)
    && forallb (fun kv => match snd kv with IValue (VInline _ _ _ true _ _ as sub) => inline_is_map sub | _ => true end) items.
Proof.
  cbn [inline_is_map]. unfold kkeys_b. f_equal. induction items as [|[k i] items IH]; [reflexivity|].
  cbn [forallb snd]. rewrite IH. reflexivity.
Qed.

Lemma kkeys_ins_by_mem le x m k :
  existsb (bytes_eqb k) (kkeys_b (kv_ins_by le x m)) = existsb (bytes_eqb k) (kkeys_b (x :: m)).
Proof.
  induction m as [|y m IH]; [reflexivity|]. cbn [kv_ins_by]. destruct (le x y); [reflexivity|].
  unfold kkeys_b in *. cbn [map existsb] in *. rewrite IH.
  destruct (bytes_eqb k (k_key (fst y))), (bytes_eqb k (k_key (fst x))); reflexivity.
Qed.
Lemma kkeys_sort_by_mem le m k :
  existsb (bytes_eqb k) (kkeys_b (kv_sort_by le m)) = existsb (bytes_eqb k) (kkeys_b m).
Proof.
  induction m as [|x m IH]; [reflexivity|]. cbn [kv_sort_by]. rewrite kkeys_ins_by_mem.
  unfold kkeys_b in *. cbn [map existsb]. rewrite IH. reflexivity.
Qed.

Lemma kv_get_ins_by le x m k :
  existsb (bytes_eqb (k_key (fst x))) (kkeys_b m) = false ->
  kv_get (kv_ins_by le x m) k = kv_get (x :: m) k.
Proof.
  induction m as [|y m IH]; intro Hn; [reflexivity|].
  cbn [kv_ins_by]. destruct (le x y); [reflexivity|].
  unfold kkeys_b in Hn. cbn [map existsb] in Hn. apply orb_false_iff in Hn as [Hxy Hn].
  destruct x as [kx ix], y as [ky iy]. cbn [fst] in *. simpl kv_get.
  destruct (bytes_eqb (k_key ky) k) eqn:Ey.
  - destruct (bytes_eqb (k_key kx) k) eqn:Ex; [|reflexivity].
    apply bytes_eqb_eq in Ex, Ey. rewrite Ex, Ey, bytes_eqb_refl in Hxy. discriminate.
  - rewrite (IH Hn). reflexivity.
Qed.
Lemma kv_get_sort_by le m k : keys_distinct (kkeys_b m) = true -> kv_get (kv_sort_by le m) k = kv_get m k.
Proof.
  induction m as [|[k1 i1] m IH]; intro Hd; [reflexivity|].
  unfold kkeys_b in Hd. cbn [map keys_distinct fst] in Hd. apply andb_true_iff in Hd as [H1 H2]. apply negb_true_iff in H1.
  cbn [kv_sort_by]. rewrite kv_get_ins_by by (rewrite kkeys_sort_by_mem; exact H1).
  simpl kv_get. rewrite (IH H2). reflexivity.
Qed.
Lemma kkeys_b_map (g : item -> item) m :
  kkeys_b (map (fun kv : key * item => match kv with (k0, i) => (k0, g i) end) m) = kkeys_b m.
Proof. unfold kkeys_b. rewrite map_map. apply map_ext. intros [k i]. reflexivity. Qed.

Lemma sort_by_same_entries cm :
  (forall v, inline_is_map v = true -> same_entries (IValue v) (IValue (inline_sort_by cm v))) /\
  (forall t, tbl_is_map t = true -> same_entries (ITable t) (ITable (tbl_sort_by cm t))).
Proof.
  pose (Pv := fun v => inline_is_map v = true -> same_entries (IValue v) (IValue (inline_sort_by cm v))).
  pose (Pt := fun t => tbl_is_map t = true -> same_entries (ITable t) (ITable (tbl_sort_by cm t))).
  pose (Pi := fun i => match i with IValue v => Pv v | ITable t => Pt t | _ => True end).
  assert (Hinl : forall items pre im dt d sp,
             Forall (fun kv => Pi (snd kv)) items -> Pv (VInline items pre im dt d sp)).
  { intros items pre im dt d sp IH Hm q k0. rewrite inline_is_map_eq in Hm. apply andb_true_iff in Hm as [Hd Hc].
    unfold entry_of. destruct q as [|[k|n] q]; [reflexivity| |reflexivity].
    simpl inline_sort_by. simpl lookup.
    rewrite kv_get_sort_by by (rewrite kkeys_b_map; exact Hd). rewrite kv_get_map.
    destruct (kv_get items k) as [[k' i]|] eqn:G; [|reflexivity].
    rewrite Forall_forall in IH. specialize (IH _ (kv_get_In _ _ _ _ G)). simpl in IH.
    rewrite forallb_forall in Hc. specialize (Hc _ (kv_get_In _ _ _ _ G)). cbn [snd] in Hc.
    destruct i as [|[s r d0|vals tr c d0 sp0|items0 pre0 im0 dt0 d0 sp0]|[items0 d0 im0 dt0 p0 sp0]|]; try reflexivity.
    destruct dt0; [|reflexivity]. apply (IH Hc q (Some k')). }
  assert (Htb : forall items d im dt p sp,
             Forall (fun kv => Pi (snd kv)) items -> Pt (Tbl items d im dt p sp)).
  { intros items d im dt p sp IH Hm q k0. rewrite tbl_is_map_eq in Hm. apply andb_true_iff in Hm as [Hd Hc].
    unfold entry_of. destruct q as [|[k|n] q]; [reflexivity| |reflexivity].
    simpl tbl_sort_by. simpl lookup.
    rewrite kv_get_sort_by by (rewrite kkeys_b_map; exact Hd). rewrite kv_get_map.
    destruct (kv_get items k) as [[k' i]|] eqn:G; [|reflexivity].
    rewrite Forall_forall in IH. specialize (IH _ (kv_get_In _ _ _ _ G)). simpl in IH.
    rewrite forallb_forall in Hc. specialize (Hc _ (kv_get_In _ _ _ _ G)). cbn [snd] in Hc.
    destruct i as [|[s r d0|vals tr c d0 sp0|items0 pre0 im0 dt0 d0 sp0]|[items0 d0 im0 dt0 p0 sp0]|]; try reflexivity.
    destruct dt0; [|reflexivity]. apply (IH Hc q (Some k')). }
  split.
  - apply (value_ind4 Pv Pi Pt); unfold Pi; try (intros; exact I); try (intros; assumption); try exact Hinl; try exact Htb.
    + intros s r d _ q k0. reflexivity.
    + intros vals tr c d sp _ _ q k0. reflexivity.
  - apply (tbl_ind4 Pv Pi Pt); unfold Pi; try (intros; exact I); try (intros; assumption); try exact Hinl; try exact Htb.
    + intros s r d _ q k0. reflexivity.
    + intros vals tr c d sp _ _ q k0. reflexivity.
Qed.

Lemma op_sort_by_keeps cm : keeps (op_sort_by cm) (fun _ => true) ident.
Proof.
  intros i i' H q k0 e _ He. unfold ident.
  destruct i as [|[| |items pre im dt d sp]|t|]; unfold op_sort_by in H; try discriminate.
  - destruct (inline_is_map (VInline items pre im dt d sp)) eqn:Hm; [|discriminate]. injection H as <-.
    change (entry_of q k0 (IValue (inline_sort_by cm (VInline items pre im dt d sp))) = Some e).
    rewrite (proj1 (sort_by_same_entries cm) (VInline items pre im dt d sp) Hm q k0). exact He.
  - destruct (tbl_is_map t) eqn:Hm; [|discriminate]. injection H as <-.
    rewrite (proj2 (sort_by_same_entries cm) t Hm q k0). exact He.
Qed.

(* ==================================================================================== *)
(** * IndexMut: everything off the assigned path, and the existing tables along it *)

Lemma kv_get_push_none_other m k k2 v : bytes_eqb k k2 = false -> kv_get (kv_push m (key_new k) v) k2 = kv_get m k2.
Proof. apply kv_get_push_other. Qed.

Lemma entry_or_none_fst_other items k k2 :
  bytes_eqb k k2 = false -> kv_get (fst (entry_or_none items k)) k2 = kv_get items k2.
Proof.
  intro N. unfold entry_or_none. rewrite <- (kv_get_purge_other items k k2 N).
  destruct (kv_get (kv_purge items k) k) as [[k' i]|]; simpl; [reflexivity|].
  apply kv_get_push_other. exact N.
Qed.

(* the entry under k holds something: nothing is dropped, the slot handed out is that entry *)
Lemma entry_or_none_same items k k' i :
  kv_get items k = Some (k', i) -> i <> INone -> entry_or_none items k = (items, i).
Proof.
  intros G Hi. unfold entry_or_none, kv_purge. rewrite G.
  destruct i as [|v|t|ts sp]; [contradiction| | |]; rewrite G; reflexivity.
Qed.

Lemma kv_get_set_same m k k' i v : kv_get m k = Some (k', i) -> kv_get (kv_set m k v) k = Some (k', v).
Proof.
  induction m as [|[k1 i1] m IH]; simpl; [discriminate|].
  destruct (bytes_eqb (k_key k1) k) eqn:E; simpl; rewrite E; intro H.
  - injection H as <- <-. reflexivity.
  - apply IH. exact H.
Qed.

Lemma iset_keeps ks x : forall it it',
  iset ks x it = Some it' ->
  forall q k0 e, is_prefix (map SKey ks) q = false -> entry_of q k0 it = Some e -> snd e <> INone ->
  entry_of q k0 it' = Some e.
Proof.
  induction ks as [|k ks IH]; intros it it' H q k0 e Hp He Hn.
  - discriminate.
  - simpl in H.
    destruct it as [|[s r d|vals tr c d sp|items pre im dt d sp]|[items d im dt p sp]|ts sp]; try discriminate.
    + (* a placeholder: not an entry *)
      destruct q as [|[k2|n] q]; [|unfold entry_of in He; simpl in He; discriminate..].
      rewrite entry_of_nil in He. injection He as <-. exfalso. apply Hn. reflexivity.
    + destruct (entry_or_none items k) as [m slot] eqn:EO.
      destruct (iset ks x slot) as [slot'|] eqn:E; simpl in H; [|discriminate]. injection H as <-.
      destruct q as [|[k2|n] q]; [exact He| |exact He].
      unfold entry_of in *. simpl in *. unfold is_prefix in Hp. simpl in Hp.
      destruct (bytes_eqb k k2) eqn:Ek.
      * apply bytes_eqb_eq in Ek. subst k2.
        destruct (kv_get items k) as [[k' i]|] eqn:G; [|discriminate].
        assert (Hi : i <> INone).
        { intro; subst i. destruct q as [|[k2|n] q]; simpl in He; try discriminate.
          injection He as <-. apply Hn. reflexivity. }
        rewrite (entry_or_none_same _ _ _ _ G Hi) in EO. injection EO as <- <-.
        rewrite (kv_get_set_same _ _ _ _ _ G).
        apply (IH _ _ E q (Some k') e); auto.
      * rewrite kv_get_set_other by exact Ek.
        replace m with (fst (entry_or_none items k)) by (rewrite EO; reflexivity).
        rewrite entry_or_none_fst_other by exact Ek. exact He.
    + destruct (entry_or_none items k) as [m slot] eqn:EO.
      destruct (iset ks x slot) as [slot'|] eqn:E; simpl in H; [|discriminate]. injection H as <-.
      destruct q as [|[k2|n] q]; [exact He| |exact He].
      unfold entry_of in *. simpl in *. unfold is_prefix in Hp. simpl in Hp.
      destruct (bytes_eqb k k2) eqn:Ek.
      * apply bytes_eqb_eq in Ek. subst k2.
        destruct (kv_get items k) as [[k' i]|] eqn:G; [|discriminate].
        assert (Hi : i <> INone).
        { intro; subst i. destruct q as [|[k2|n] q]; simpl in He; try discriminate.
          injection He as <-. apply Hn. reflexivity. }
        rewrite (entry_or_none_same _ _ _ _ G Hi) in EO. injection EO as <- <-.
        rewrite (kv_get_set_same _ _ _ _ _ G).
        apply (IH _ _ E q (Some k') e); auto.
      * rewrite kv_get_set_other by exact Ek.
        replace m with (fst (entry_or_none items k)) by (rewrite EO; reflexivity).
        rewrite entry_or_none_fst_other by exact Ek. exact He.
Qed.

(* ==================================================================================== *)
(** * The step *)

(* where an operation works (P), which paths relative to P it leaves alone (U), where they go (R) *)
Definition op_region (o : op) : path * (path -> bool) * (path -> path) :=
  match o with
  | OInsert p k _ | OInsertTable p k | OInsertAot p k | ORemove p k
  | OMakeValue p k | OIntoTable p k | OIntoAot p k => (p, not_key k, ident)
  | OArrPush p _ | OAotPush p | OSort p | OSortBy p _ => (p, fun _ => true, ident)
  | OArrInsert p i _ => (p, fun _ => true, shift_up i)
  | OArrReplace p i _ => (p, not_idx i, ident)
  | OArrRemove p i | OAotRemove p i => (p, not_idx i, shift_down i)
  | OFmt p => (p, deeper, ident)
  | OISet ks _ => ([], fun q => negb (is_prefix (map SKey ks) q), ident)
  end.

(* the entry at path p is not touched by o: p is not the edited entry nor inside it
   (insert / replace / remove / conversions: the entry of that key and what is below it;
    array replace / remove: that element; fmt: the container and its direct children;
    IndexMut: the assigned entry and what is below it; push / insert / sort: nothing existing) *)
Definition untouched (o : op) (p : path) : bool :=
  match op_region o with (P, U, _) => U_at P U p end.
(* where the entry is afterwards (array insert / remove shift the later elements) *)
Definition reloc (o : op) (p : path) : path :=
  match op_region o with (P, _, R) => R_at P R p end.

Theorem step_verbatim : forall t o t' p e,
  apply o t = Some t' -> untouched o p = true ->
  entry_repr t p = Some e -> snd e <> INone ->
  entry_repr t' (reloc o p) = Some e.
Proof.
  intros t o t' p e H Hu He Hn. unfold apply in H.
  destruct (op_fun o) as [P f] eqn:EO. apply as_tbl_abs in H.
  unfold entry_repr, untouched, reloc in *.
  assert (K : forall U R, keeps f U R -> op_region o = (P, U, R) ->
                          entry_of (match op_region o with (P, _, R) => R_at P R p end) None (ITable t') = Some e).
  { intros U R Hk Er. rewrite Er in *. exact (at_path_keeps P f U R Hk _ _ H p None e Hu He). }
  destruct o as [q k v|q k|q k|q k|q v|q i v|q i v|q i|q|q i|q|q|q k|q k|q k|ks x|q cm];
    simpl in EO; injection EO as <- <-.
  - exact (K _ _ (op_insert_keeps k v) eq_refl).
  - exact (K _ _ (op_insert_item_keeps k _) eq_refl).
  - exact (K _ _ (op_insert_item_keeps k _) eq_refl).
  - exact (K _ _ (op_remove_keeps k) eq_refl).
  - exact (K _ _ (op_arr_push_keeps v) eq_refl).
  - exact (K _ _ (op_arr_insert_keeps i v) eq_refl).
  - exact (K _ _ (op_arr_replace_keeps i v) eq_refl).
  - exact (K _ _ (op_arr_remove_keeps i) eq_refl).
  - exact (K _ _ op_aot_push_keeps eq_refl).
  - exact (K _ _ (op_aot_remove_keeps i) eq_refl).
  - exact (K _ _ op_sort_keeps eq_refl).
  - exact (K _ _ op_fmt_keeps eq_refl).
  - exact (K _ _ (op_slot_keeps k _) eq_refl).
  - exact (K _ _ (op_slot_keeps k _) eq_refl).
  - exact (K _ _ (op_slot_keeps k _) eq_refl).
  - clear K. simpl in *. unfold U_at, R_at, ident in *. simpl in *.
    destruct ks as [|k ks]; [discriminate|].
    rewrite app_nil_l || idtac.
    apply (iset_keeps _ _ _ _ H p None e); auto.
    destruct (is_prefix (map SKey (k :: ks)) p); [discriminate|reflexivity].
  - exact (K _ _ (op_sort_by_keeps cm) eq_refl).
Qed.

(* histories: an entry no operation of the history touches (followed through the relocations) *)
Fixpoint untouched_all (ops : list op) (p : path) : bool :=
  match ops with
  | [] => true
  | o :: tl => untouched o p && untouched_all tl (reloc o p)
  end.
Fixpoint reloc_all (ops : list op) (p : path) : path :=
  match ops with
  | [] => p
  | o :: tl => reloc_all tl (reloc o p)
  end.

Theorem history_verbatim : forall ops t t' p e,
  apply_seq ops t = Some t' -> untouched_all ops p = true ->
  entry_repr t p = Some e -> snd e <> INone ->
  entry_repr t' (reloc_all ops p) = Some e.
Proof.
  induction ops as [|o ops IH]; intros t t' p e H Hu He Hn; simpl in *.
  - injection H as <-. exact He.
  - destruct (apply o t) as [t1|] eqn:E; [|discriminate].
    apply andb_true_iff in Hu as [Hu1 Hu2].
    apply (IH t1 t' (reloc o p) e H Hu2); [|exact Hn].
    exact (step_verbatim _ _ _ _ _ E Hu1 He Hn).
Qed.
