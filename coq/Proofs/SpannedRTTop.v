(* Proofs/SpannedRTTop.v — C14, serde half: the statements (delivery, transparency) and the three
   witnesses of non-transparency. *)
From TV Require Import Base.Prelude Model.Datetime Model.SerNum Spec.SerdeData Model.Ser Model.De Model.SerdeSpanned
  Proofs.SerdeRTBase Proofs.SpannedRTBase Proofs.SpannedRT Extract.SpannedTree Extract.Show.
Require Import String.

(* Spanned<T> on a node with span a..b is Spanned { a..b, what T yields on that node }; without a span it fails *)
Theorem spanned_delivers t s :
  match span_of s with
  | Some (a, b) => de_s (YSpanned t) s = rmap (XSpanned a b) (de_s t s)
  | None => de_s (YSpanned t) s = Err EDe
  end.
Proof. rewrite ds_spanned. destruct (span_of s) as [[a b]|]; reflexivity. Qed.

(* a map key Spanned<K> delivers the span of the key *)
Theorem spanned_key_delivers t0 k a b :
  de_key_s (YSpanned (YPlain t0)) k (Some (a, b)) = rmap (fun v => XSpanned a b (XPlain v)) (de_from_str t0 k).
Proof. reflexivity. Qed.

(* a DocumentMut (into_mut) has no spans: nothing is delivered *)
Lemma span_of_despan s : span_of (despan s) = None.
Proof. destruct s; reflexivity. Qed.
Theorem spanned_needs_spans t s : de_s (YSpanned t) (despan s) = Err EDe.
Proof. rewrite ds_spanned, span_of_despan. reflexivity. Qed.

(* transparency *)
Theorem spanned_transparent t s : sty_ok t = true -> all_spans s = true ->
  ((exists x, de_s t s = Ok x) <-> (exists v, de_value (erase_ty t) (strip s) = Ok v))
  /\ (forall x v, de_s t s = Ok x -> de_value (erase_ty t) (strip s) = Ok v -> erase_val x = v).
Proof.
  intros Hok Hs. pose proof (spanned_lockstep t Hok s Hs) as H.
  destruct (de_s t s) as [x|e], (de_value (erase_ty t) (strip s)) as [v|e']; simpl in H; try contradiction.
  - split; [split; eauto|]. intros x0 v0 E1 E2. injection E1 as <-. injection E2 as <-. exact H.
  - split; [split; intros (? & E); discriminate E|]. intros x0 v0 E1. discriminate E1.
Qed.

(* ---- where it is not transparent ---- *)
(* C14-implicit-table-span: `[a.b]\nc = 3\n` — the table `a` exists only because the header mentions it, and has no span *)
Definition imp_text : bytes := str "[a.b]" ++ [x0a] ++ str "c = 3" ++ [x0a].
Definition imp_tree : stree :=
  NTab (Some (0, 0)%N)
       [(str "a", Some (1, 2)%N,
         NTab None [(str "b", Some (3, 4)%N,
                     NTab (Some (0, 11)%N) [(str "c", Some (6, 7)%N, NLeaf (Some (10, 11)%N) (VInt 3))])])].
Definition imp_inner : ty := TStruct (str "T") [(str "b", TStruct (str "U") [(str "c", TInt TI8)])].
Definition imp_ty : sty := YStruct (str "S") [(str "a", YSpanned (YPlain imp_inner))].

Theorem implicit_table_refuted :
  parse_stree imp_text = Some (Some imp_tree)
  /\ sty_ok imp_ty = true /\ all_spans imp_tree = false
  /\ de_value (erase_ty imp_ty) (strip imp_tree) = Ok (SRec [SRec [SRec [SInt 3]]])
  /\ de_s imp_ty imp_tree = Err EDe.
Proof. repeat split; vm_compute; reflexivity. Qed.

(* a field Spanned<Option<T>> whose key is missing: `a = 3\n` read as S { a: i64, o: Spanned<Option<i8>> } *)
Definition opt_text : bytes := str "a = 3" ++ [x0a].
Definition opt_tree : stree := NTab (Some (0, 5)%N) [(str "a", Some (0, 1)%N, NLeaf (Some (4, 5)%N) (VInt 3))].
Definition opt_ty : sty := YStruct (str "S") [(str "a", YPlain (TInt TI64)); (str "o", YSpanned (YOpt (YPlain (TInt TI8))))].

Theorem spanned_option_missing_refuted :
  parse_stree opt_text = Some (Some opt_tree)
  /\ all_spans opt_tree = true /\ sty_ok opt_ty = false
  /\ de_value (erase_ty opt_ty) (strip opt_tree) = Ok (SRec [SInt 3; SNone])
  /\ de_s opt_ty opt_tree = Err EDe
  /\ (* the Spanned INSIDE the Option is fine *)
     de_s (YStruct (str "S") [(str "a", YPlain (TInt TI64)); (str "o", YOpt (YSpanned (YPlain (TInt TI8))))]) opt_tree
     = Ok (XRec [XPlain (SInt 3); XPlain SNone]).
Proof. repeat split; vm_compute; reflexivity. Qed.

(* a map key Spanned<Wrap(String)>: `k = 3\n` read as BTreeMap<Spanned<Wrap>, i8> *)
Definition nk_text : bytes := str "k = 3" ++ [x0a].
Definition nk_tree : stree := NTab (Some (0, 5)%N) [(str "k", Some (0, 1)%N, NLeaf (Some (4, 5)%N) (VInt 3))].
Definition nk_ty : sty := YMap (YSpanned (YPlain (TNewtype (str "W") TStr))) (YPlain (TInt TI8)).

Theorem spanned_newtype_key_refuted :
  parse_stree nk_text = Some (Some nk_tree)
  /\ all_spans nk_tree = true /\ sty_ok nk_ty = false
  /\ de_value (erase_ty nk_ty) (strip nk_tree) = Ok (SMap [(SNewtype (SStr (str "k")), SInt 3)])
  /\ de_s nk_ty nk_tree = Err EDe
  /\ (* the Spanned INSIDE the newtype is fine, and delivers the key's span *)
     de_s (YMap (YNewtype (str "W") (YSpanned (YPlain TStr))) (YPlain (TInt TI8))) nk_tree
     = Ok (XMap [(XNewtype (XSpanned 0 1 (XPlain (SStr (str "k")))), XPlain (SInt 3))]).
Proof. repeat split; vm_compute; reflexivity. Qed.
