(* Proofs/C13TextModel.v — property C13 at the level of TEXT: the decoding routes of the two crates as functions of the
   byte string, each written after the call structure of its source (commit faf6049), from the pieces that exist:

     im_parse           toml_edit::ImDocument::parse                       Model/Document.v parse_document
     into_mut           ImDocument::into_mut (despan; panics off a span)   Model/Encode.v tbl_despan
     walk               Item::into_deserializer: the tree toml_edit's ValueDeserializer walks: Table / InlineTable are
                        both tables, ArrayOfTables / Array both arrays, a float is the f64 std parses from its text
                                                                           Model/SerDoc.v tomlval_of_abs (eng-c06), oracle `back`
     deserialize        T::deserialize(toml_edit::de::Deserializer { root, raw })   — `raw` only decorates the error —
                        T = a type of the universe: Model/De.v de_value; T = toml::Value: Model/SerdeRoutes.v to_toml_value;
                        T = toml::Table (toml::map::Map<String, Value>): to_toml_table
     try_into           toml::Value::try_into / toml::Table::try_into = T::deserialize(value)    Model/De.v tv_de

   The routes (crates/toml_edit/src/de/mod.rs, crates/toml/src/de.rs, value.rs, table.rs; harness names in brackets):

     edit_deserializer_parse    Deserializer::parse(s) = ImDocument::parse(s).map(Self::from)
     edit_from_str       [e]    let de = Deserializer::parse(s)?; T::deserialize(de)
     edit_from_slice     [esl]  let s = std::str::from_utf8(s).map_err(custom)?; from_str(s)         — CALLS edit_from_str
     edit_from_document         T::deserialize(d.into())          for d : ImDocument [eim] / DocumentMut [edoc]
     route_im            [eim]  ImDocument::parse(s.to_string()) then from_document
     route_mut           [edoc] s.parse::<DocumentMut>() = ImDocument::from_str(s)?.into_mut(), then from_document
     route_fromstr       [efs]  s.parse::<toml_edit::de::Deserializer>() (= s.parse::<ImDocument<_>>()?, Deserializer::from),
                                then T::deserialize
     toml_from_str       [t]    T::deserialize(toml::de::Deserializer::new(s)); each of its deserialize_* methods is
                                  let inner = toml_edit::de::Deserializer::parse(self.input).map_err(Error::new)?;
                                  inner.deserialize_*(visitor).map_err(Error::new)
                                — it does NOT call toml_edit::de::from_str; it performs the same two calls itself
     value_from_str             impl FromStr for toml::Value: crate::from_str(s)                    — CALLS toml_from_str
     table_from_str             impl FromStr for toml::Table: crate::from_str(s)                    — CALLS toml_from_str
     route_tval          [tval] toml::from_str::<toml::Value>(s)?.try_into::<T>()
     route_ttab          [ttab] s.parse::<toml::Table>()?.try_into::<T>()

   Not modelled here: the single-value routes tvd / evd / tvdval (their input is the text of one value, another
   language), error messages and locations (C15). *)
From TV Require Import Base.Prelude Base.Utf8.
From TV Require Import Model.Datetime Model.Numbers Model.Tree Model.Document Model.Encode Model.Build.
From TV Require Import Spec.SerdeData Model.Ser Model.De Model.SerdeRoutes Model.SerDoc.

(* the target of a route and what it yields *)
Inductive target : Set :=
| ToTy (t : ty)       (* a type of the modelled universe (Spec/SerdeData.v) *)
| ToValue             (* toml::Value *)
| ToTable.            (* toml::Table *)
Inductive outv : Set :=
| OVal (v : sval)
| OToml (x : tomlval).

Inductive tres : Set :=
| TOk (o : outv)
| TUtf8Err          (* from_slice: Error::custom(Utf8Error) *)
| TParseErr         (* the parser refuses the text *)
| TDeErr            (* the parser accepts, a deserializer refuses *)
| TUnmodelled       (* the parser accepts, the deserializer takes a path Model/De.v does not follow (EUnmodelled: an integer
                       for a float target, a date-time where a struct or map is expected, a private struct name) *)
| TPanic.           (* a panic site is reached *)

Definition lift (r : result outv) : tres :=
  match r with Ok o => TOk o | Err EUnmodelled => TUnmodelled | Err _ => TDeErr end.

Section Routes.
  Variable back : fval -> N.      (* ORACLE: str::parse::<f64> on the decimal of a float token, as a bit pattern *)

  Definition im_parse (s : bytes) : presult doc := parse_document s.
  Definition into_mut (s : bytes) (d : doc) : option tbl := tbl_despan s (doc_root d).
  Definition walk (root : tbl) : tomlval := tomlval_of_abs back (Build.abs_tbl root).

  Definition deserialize (tg : target) (root : tbl) : result outv :=
    match tg with
    | ToTy t => rmap OVal (de_value t (walk root))
    | ToValue => rmap OToml (to_toml_value (walk root))
    | ToTable => rmap OToml (to_toml_table (walk root))
    end.

  (* ---- toml_edit ---- *)
  Definition edit_deserializer_parse (s : bytes) : presult tbl :=
    match im_parse s with POk d => POk (doc_root d) | PErr e a => PErr e a | PPanic m => PPanic m end.

  Definition edit_from_str (tg : target) (s : bytes) : tres :=
    match edit_deserializer_parse s with
    | POk root => lift (deserialize tg root)
    | PErr _ _ => TParseErr
    | PPanic _ => TPanic
    end.

  Definition edit_from_slice (tg : target) (bs : bytes) : tres :=
    if utf8_valid_b bs then edit_from_str tg bs else TUtf8Err.

  Definition edit_from_document_im (tg : target) (d : doc) : tres := lift (deserialize tg (doc_root d)).
  Definition edit_from_document_mut (tg : target) (root : tbl) : tres := lift (deserialize tg root).

  Definition route_im (tg : target) (s : bytes) : tres :=
    match im_parse s with POk d => edit_from_document_im tg d | PErr _ _ => TParseErr | PPanic _ => TPanic end.

  Definition route_mut (tg : target) (s : bytes) : tres :=
    match im_parse s with
    | POk d => match into_mut s d with Some root => edit_from_document_mut tg root | None => TPanic end
    | PErr _ _ => TParseErr
    | PPanic _ => TPanic
    end.

  Definition route_fromstr (tg : target) (s : bytes) : tres :=
    match im_parse s with POk d => lift (deserialize tg (doc_root d)) | PErr _ _ => TParseErr | PPanic _ => TPanic end.

  (* ---- toml ---- *)
  Definition toml_from_str (tg : target) (s : bytes) : tres :=
    match edit_deserializer_parse s with        (* toml_edit::de::Deserializer::parse(self.input).map_err(Error::new)? *)
    | POk inner => lift (deserialize tg inner)  (* inner.deserialize_*(visitor).map_err(Error::new) *)
    | PErr _ _ => TParseErr
    | PPanic _ => TPanic
    end.

  Definition value_from_str (s : bytes) : tres := toml_from_str ToValue s.
  Definition table_from_str (s : bytes) : tres := toml_from_str ToTable s.

  Definition try_into (t : ty) (y : tomlval) : tres := lift (rmap OVal (tv_de t y)).

  Definition route_tval (t : ty) (s : bytes) : tres :=
    match value_from_str s with TOk (OToml y) => try_into t y | TOk (OVal _) => TDeErr | r => r end.
  Definition route_ttab (t : ty) (s : bytes) : tres :=
    match table_from_str s with TOk (OToml y) => try_into t y | TOk (OVal _) => TDeErr | r => r end.
End Routes.

(* the document routes by their harness names *)
Inductive text_route : Set := Tt | Te | Tesl | Tedoc | Teim | Tefs | Ttval | Tttab.

Definition run_route (back : fval -> N) (r : text_route) (t : ty) (s : bytes) : tres :=
  match r with
  | Tt => toml_from_str back (ToTy t) s
  | Te => edit_from_str back (ToTy t) s
  | Tesl => edit_from_slice back (ToTy t) s
  | Tedoc => route_mut back (ToTy t) s
  | Teim => route_im back (ToTy t) s
  | Tefs => route_fromstr back (ToTy t) s
  | Ttval => route_tval back t s
  | Tttab => route_ttab back t s
  end.

Definition direct_route (r : text_route) : bool := match r with Ttval | Tttab => false | _ => true end.
