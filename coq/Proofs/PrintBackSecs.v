(* Proofs/PrintBackSecs.v — C03, class (c): the sections of a tree without their paths (`P`): position,
   array flag, decor, start of the span, values.  How descend_path (Model/Document.v with_table_at)
   changes them: only at the table it reaches. *)
From TV Require Import Base.Prelude Base.Utf8 Base.Winnow Gen.Consts.
From TV Require Import Model.Datetime Model.Numbers Model.Tree Model.Parse Model.Document Model.Write Model.Encode.
From TV Require Import Proofs.SpansDefs Proofs.PrintBackBase Proofs.PrintBackValue Proofs.PrintBackDoc Proofs.PrintBackSort Proofs.PrintBackEnts
                       Proofs.PrintBackDisplay.
Require Import Lia ZifyBool ZifyN ZifyNat Sorting.Sorted Sorting.Permutation.

Definition psec : Type := (N * (bool * decor * option N * list (key * value)))%type.
Definition sec_of (t : tbl) (a : bool) : psec :=
  (match t_position t with Some q => q | None => 0%N end,
   (a, t_decor t, match t_span t with Some sp => Some (fst sp) | None => None end, vals (t_items t))).
Definition own (t : tbl) (a : bool) : list psec := if a || negb (t_implicit t && no_vals t) then [sec_of t a] else [].

Fixpoint P (t : tbl) (a : bool) {struct t} : list psec :=
  match t with
  | Tbl items _ _ _ _ _ =>
    own t a ++ (fix go (l : list (key * item)) : list psec := match l with [] => [] | (_, it) :: tl => PIt it ++ go tl end) items
  end
with PIt (it : item) {struct it} : list psec :=
  match it with
  | ITable sub => P sub false
  | IAot ts _ => (fix goa (l : list tbl) : list psec := match l with [] => [] | sub :: tl => P sub true ++ goa tl end) ts
  | _ => []
  end.
Definition PI (items : list (key * item)) : list psec := flat_map (fun kv => PIt (snd kv)) items.

Lemma P_eq t a : P t a = own t a ++ PI (t_items t).
Proof.
  destruct t as [items d im dt pos sp]. cbn [P t_items]. f_equal. unfold PI.
  induction items as [|[k it] tl IH]; [reflexivity|]. cbn [flat_map snd]. rewrite <- IH. reflexivity.
Qed.
Lemma PIt_aot ts sp : PIt (IAot ts sp) = flat_map (fun sub => P sub true) ts.
Proof. cbn [PIt]. induction ts as [|t tl IH]; [reflexivity|]. cbn [flat_map]. rewrite <- IH. reflexivity. Qed.
Lemma PIt_table t : PIt (ITable t) = P t false.
Proof. reflexivity. Qed.
Lemma PI_app a b : PI (a ++ b) = PI a ++ PI b.
Proof. apply flat_map_app. Qed.

(* ---- P is what the visible entries are, paths forgotten ------------------------------------------------------ *)
Definition pe (e : entry) : psec := sec_of (etbl e) (snd e).

Lemma own_svis t p a : own t a = map pe (filter svis [(t, p, a)]).
Proof. unfold own. cbn [filter svis]. destruct (a || negb (t_implicit t && no_vals t)); reflexivity. Qed.

Lemma sub_ents_PI (l : list (key * item)) p :
  Forall (fun kv : key * item => forall p, sec_item (snd kv) = true -> map pe (filter svis (ients (snd kv) p)) = PIt (snd kv)) l ->
  (forall x, In x l -> sec_item (snd x) = true) -> map pe (filter svis (sub_ents l p)) = PI l.
Proof.
  unfold sub_ents, PI. induction 1 as [|[k it] tl Ht _ IHl]; intro Hi; [reflexivity|]. cbn [flat_map fst snd]. rewrite filter_app, map_app.
  cbn [snd] in Ht. rewrite (Ht (p ++ [k]) (Hi _ (or_introl eq_refl))). f_equal. apply IHl. intros x Hx. apply Hi. right. exact Hx.
Qed.

Lemma ents_P :
  (forall v : value, True)
  /\ (forall it, forall p, sec_item it = true -> map pe (filter svis (ients it p)) = PIt it)
  /\ (forall t, forall p a, sec_tbl t = true -> map pe (filter svis (ents t p a)) = P t a).
Proof.
  apply tree_ind3; try (intros; exact I).
  - intros; discriminate.
  - intros; reflexivity.
  - intros t IH p Hs. rewrite ients_table, PIt_table. apply IH, Hs.
  - intros ts sp IH p Hs. rewrite ients_aot, PIt_aot. rewrite sec_item_aot in Hs. rewrite forallb_forall in Hs.
    induction IH as [|t tl Ht _ IHl]; [reflexivity|]. cbn [flat_map]. rewrite filter_app, map_app.
    rewrite (Ht p true (Hs t (or_introl eq_refl))). f_equal. apply IHl. intros x Hx. apply Hs. right. exact Hx.
  - intros items d im dt pos sp IH p a Hs. rewrite ents_eq, P_eq. rewrite sec_tbl_eq in Hs. cbn [t_dotted t_items] in *.
    apply andb_true_iff in Hs as [Hd Hi]. destruct dt; [discriminate|]. rewrite filter_app, map_app. apply f_equal2; [symmetry; apply own_svis|].
    rewrite forallb_forall in Hi. apply sub_ents_PI; assumption.
Qed.

Lemma sub_ents_P r : sec_tbl r = true -> map pe (filter svis (sub_ents (t_items r) [])) = PI (t_items r).
Proof.
  intro Hs. rewrite sec_tbl_eq in Hs. apply andb_true_iff in Hs as [_ Hi]. rewrite forallb_forall in Hi.
  apply sub_ents_PI; [|exact Hi]. apply Forall_forall. intros [k it] _ p. apply (proj1 (proj2 ents_P)).
Qed.

(* ---- kv_get / kv_set / kv_push / kv_remove ------------------------------------------------------------------- *)
Lemma kv_get_split m k k0 it : kv_get m k = Some (k0, it) ->
  exists A B, m = A ++ (k0, it) :: B /\ kv_get A k = None
              /\ (forall it', kv_set m k it' = A ++ (k0, it') :: B) /\ kv_remove m k = A ++ B.
Proof.
  induction m as [|[k1 v1] m IH]; cbn [kv_get]; [discriminate|]. destruct (bytes_eqb (k_key k1) k) eqn:E.
  - intro H. injection H as <- <-. exists [], m. cbn [app kv_set kv_remove kv_get]. rewrite E. repeat split; reflexivity.
  - intro H. destruct (IH H) as (A & B & -> & Hn & Hs & Hr). exists ((k1, v1) :: A), B. cbn [app kv_set kv_remove kv_get]. rewrite E.
    split; [reflexivity|]. split; [exact Hn|]. split; [intro it'; rewrite Hs; reflexivity|rewrite Hr; reflexivity].
Qed.

Lemma kv_get_app_none A B k : kv_get A k = None -> kv_get (A ++ B) k = kv_get B k.
Proof. induction A as [|[k1 v1] A IH]; [reflexivity|]. cbn [kv_get app]. destruct (bytes_eqb (k_key k1) k); [discriminate|exact IH]. Qed.

Lemma kv_get_push_new m k it : kv_get m (k_key k) = None -> kv_get (kv_push m k it) (k_key k) = Some (k, it).
Proof. intro H. unfold kv_push. rewrite (kv_get_app_none _ _ _ H). cbn [kv_get]. rewrite bytes_eqb_refl. reflexivity. Qed.

Lemma kv_get_set_same m k k0 it it' : kv_get m k = Some (k0, it) -> kv_get (kv_set m k it') k = Some (k0, it').
Proof.
  induction m as [|[k1 v1] m IH]; cbn [kv_get kv_set]; [discriminate|]. destruct (bytes_eqb (k_key k1) k) eqn:E; intro H.
  - injection H as <- <-. cbn [kv_get]. rewrite E. reflexivity.
  - cbn [kv_get]. rewrite E. apply IH, H.
Qed.

Definition kk (kv : key * item) : bytes := k_key (fst kv).

Lemma kv_get_none_in m k : kv_get m k = None <-> ~ In k (map kk m).
Proof.
  induction m as [|[k1 v1] m IH]; cbn [kv_get map In]; [tauto|]. unfold kk at 1. cbn [fst].
  destruct (bytes_eqb (k_key k1) k) eqn:E.
  - apply bytes_eqb_eq in E. split; [discriminate|]. intro H. exfalso. apply H. left. exact E.
  - rewrite IH. split; [intros H [H1 | H1]; [apply bytes_eqb_eq in H1; congruence|tauto]|tauto].
Qed.

Lemma kv_get_some_key m k k0 it : kv_get m k = Some (k0, it) -> k_key k0 = k.
Proof.
  induction m as [|[k1 v1] m IH]; cbn [kv_get]; [discriminate|]. destruct (bytes_eqb (k_key k1) k) eqn:E; [|exact IH].
  intro H. injection H as <- _. apply bytes_eqb_eq, E.
Qed.

Lemma keys_set m k it : map kk (kv_set m k it) = map kk m.
Proof. induction m as [|[k1 v1] m IH]; [reflexivity|]. cbn [kv_set]. destruct (bytes_eqb (k_key k1) k); cbn [map]; [reflexivity|rewrite IH; reflexivity]. Qed.

Lemma nodup_push m k it : NoDup (map kk m) -> kv_get m (k_key k) = None -> NoDup (map kk (kv_push m k it)).
Proof.
  intros Hn Hg. unfold kv_push. rewrite map_app. cbn [map]. apply (Permutation_NoDup (Permutation_cons_append _ _)).
  constructor; [apply kv_get_none_in, Hg|exact Hn].
Qed.

Lemma nodup_remove m k k0 it : NoDup (map kk m) -> kv_get m k = Some (k0, it) ->
  NoDup (map kk (kv_remove m k)) /\ kv_get (kv_remove m k) k = None.
Proof.
  intros Hn Hg. pose proof (kv_get_some_key _ _ _ _ Hg) as Ek. destruct (kv_get_split m k k0 it Hg) as (A & B & -> & _ & _ & ->).
  rewrite map_app in *. cbn [map] in Hn. apply NoDup_remove in Hn as [H1 H2]. split; [exact H1|].
  apply kv_get_none_in. rewrite map_app. unfold kk at 1 in H2. cbn [fst] in H2. rewrite Ek in H2. exact H2.
Qed.

Definition is_tab (it : item) : bool := match it with IValue _ => false | _ => true end.

(* ---- the invariants of every table of the tree: unique keys; a table that exists only as a
   super-table holds no values; the keys of tables satisfy K (they were read from headers) ------------------- *)
Section UK.
  Variable K : key -> Prop.
  Fixpoint uk (t : tbl) {struct t} : Prop :=
    match t with
    | Tbl items _ im _ _ _ =>
      NoDup (map kk items) /\ (im = true -> vals items = []) /\
      (fix go (l : list (key * item)) : Prop := match l with [] => True | (k, it) :: tl => (is_tab it = true -> K k) /\ uki it /\ go tl end) items
    end
  with uki (it : item) {struct it} : Prop :=
    match it with
    | ITable sub => uk sub
    | IAot ts _ => (fix goa (l : list tbl) : Prop := match l with [] => True | sub :: tl => uk sub /\ goa tl end) ts
    | _ => True
    end.
  Definition uks (items : list (key * item)) : Prop := Forall (fun kv => (is_tab (snd kv) = true -> K (fst kv)) /\ uki (snd kv)) items.

  Lemma uk_eq t : uk t <-> NoDup (map kk (t_items t)) /\ (t_implicit t = true -> vals (t_items t) = []) /\ uks (t_items t).
  Proof.
    destruct t as [items d im dt pos sp]. cbn [uk t_items t_implicit]. unfold uks.
    assert (H : (fix go (l : list (key * item)) : Prop := match l with [] => True | (k, it) :: tl => (is_tab it = true -> K k) /\ uki it /\ go tl end) items
                <-> Forall (fun kv => (is_tab (snd kv) = true -> K (fst kv)) /\ uki (snd kv)) items).
    { induction items as [|[k it] tl IH]; [split; [constructor|auto]|]. rewrite Forall_cons_iff, <- IH. cbn [fst snd]. tauto. }
    rewrite H. reflexivity.
  Qed.
  Lemma uki_aot ts sp : uki (IAot ts sp) <-> Forall uk ts.
  Proof. cbn [uki]. induction ts as [|t tl IH]; [split; [constructor|auto]|]. rewrite Forall_cons_iff, <- IH. reflexivity. Qed.

  Lemma uks_get m k k0 it : uks m -> kv_get m k = Some (k0, it) -> (is_tab it = true -> K k0) /\ uki it.
  Proof.
    intros Hu Hg. destruct (kv_get_split m k k0 it Hg) as (A & B & -> & _). unfold uks in Hu. apply Forall_app in Hu as [_ Hu].
    inversion Hu; subst. assumption.
  Qed.
  Lemma uks_set m k k0 it0 it : uks m -> kv_get m k = Some (k0, it0) -> (is_tab it = true -> K k0) -> uki it -> uks (kv_set m k it).
  Proof.
    intros Hu Hg Hk Hi. destruct (kv_get_split m k k0 it0 Hg) as (A & B & -> & _ & Hs & _). rewrite Hs. unfold uks in *.
    apply Forall_app in Hu as [HA HB]. inversion HB; subst. apply Forall_app. split; [exact HA|]. constructor; [split; assumption|assumption].
  Qed.
  Lemma uks_push m k it : uks m -> (is_tab it = true -> K k) -> uki it -> uks (kv_push m k it).
  Proof. intros Hu Hk Hi. apply Forall_app. split; [exact Hu|constructor; [split; assumption|constructor]]. Qed.
  Lemma uks_remove m k : uks m -> uks (kv_remove m k).
  Proof.
    unfold uks. induction m as [|[k1 v1] m IH]; intro Hu; [constructor|]. cbn [kv_remove]. inversion Hu; subst.
    destruct (bytes_eqb (k_key k1) k); [assumption|constructor; auto].
  Qed.
End UK.

(* ---- only table entries change ---------------------------------------------------------------------------------- *)
Definition frame (t t' : tbl) : Prop :=
  t_decor t' = t_decor t /\ t_implicit t' = t_implicit t /\ t_dotted t' = t_dotted t /\ t_position t' = t_position t
  /\ t_span t' = t_span t /\ vals (t_items t') = vals (t_items t).

Lemma frame_refl t : frame t t.
Proof. repeat split. Qed.

Lemma frame_own t t' a : frame t t' -> own t' a = own t a.
Proof. intros (H1 & H2 & H3 & H4 & H5 & H6). unfold own, sec_of, no_vals. rewrite H1, H2, H4, H5, H6. reflexivity. Qed.

Lemma vals_app a b : vals (a ++ b) = vals a ++ vals b.
Proof. apply flat_map_app. Qed.

Lemma vals_set m k k0 it it' : kv_get m k = Some (k0, it) -> is_tab it = true -> is_tab it' = true -> vals (kv_set m k it') = vals m.
Proof.
  intros Hg H1 H2. destruct (kv_get_split m k k0 it Hg) as (A & B & -> & _ & Hs & _). rewrite Hs, !vals_app. f_equal.
  unfold vals. cbn [flat_map snd]. destruct it, it'; try discriminate; reflexivity.
Qed.
Lemma vals_push_tab m k it : is_tab it = true -> vals (kv_push m k it) = vals m.
Proof. intro H. unfold kv_push. rewrite vals_app. unfold vals at 2. cbn [flat_map snd]. destruct it; try discriminate; rewrite app_nil_r; reflexivity. Qed.
Lemma vals_remove_tab m k k0 it : kv_get m k = Some (k0, it) -> is_tab it = true -> vals (kv_remove m k) = vals m.
Proof.
  intros Hg H1. destruct (kv_get_split m k k0 it Hg) as (A & B & -> & _ & _ & ->). rewrite !vals_app. f_equal.
  unfold vals at 2. cbn [flat_map snd]. destruct it; try discriminate; reflexivity.
Qed.

Lemma frame_set_items t m : vals m = vals (t_items t) -> frame t (t_set_items t m).
Proof. intro H. destruct t. cbn [t_set_items]. repeat split. exact H. Qed.

Lemma PI_set m k k0 it it' D1 D2 : kv_get m k = Some (k0, it) ->
  Permutation (PIt it' ++ D1) (PIt it ++ D2) -> Permutation (PI (kv_set m k it') ++ D1) (PI m ++ D2).
Proof.
  intros Hg Hp. destruct (kv_get_split m k k0 it Hg) as (A & B & -> & _ & Hs & _). rewrite Hs, !PI_app.
  change (PI ((k0, it') :: B)) with (PIt it' ++ PI B). change (PI ((k0, it) :: B)) with (PIt it ++ PI B).
  rewrite <- !app_assoc. apply Permutation_app_head.
  transitivity (PI B ++ PIt it' ++ D1); [rewrite !app_assoc; apply Permutation_app_tail, Permutation_app_comm|].
  transitivity (PI B ++ PIt it ++ D2); [apply Permutation_app_head, Hp|].
  rewrite !app_assoc. apply Permutation_app_tail, Permutation_app_comm.
Qed.

(* ---- descend_path ------------------------------------------------------------------------------------------------ *)
Definition implicit0 : tbl := Tbl [] decor_default true false None None.

Inductive ctx_rel : list key -> tbl -> tbl -> tbl -> tbl -> Prop :=
| cr_here t t' : ctx_rel [] t t' t t'
| cr_new t k p sub par par' :
    kv_get (t_items t) (k_key k) = None -> ctx_rel p implicit0 sub par par' ->
    ctx_rel (k :: p) t (t_set_items t (kv_push (t_items t) k (ITable sub))) par par'
| cr_tab t k p k0 sub sub' par par' :
    kv_get (t_items t) (k_key k) = Some (k0, ITable sub) -> ctx_rel p sub sub' par par' ->
    ctx_rel (k :: p) t (t_set_items t (kv_set (t_items t) (k_key k) (ITable sub'))) par par'
| cr_aot t k p k0 ts sp last rinit last' par par' :
    kv_get (t_items t) (k_key k) = Some (k0, IAot ts sp) -> rev ts = last :: rinit -> ctx_rel p last last' par par' ->
    ctx_rel (k :: p) t (t_set_items t (kv_set (t_items t) (k_key k) (IAot (rev (last' :: rinit)) sp))) par par'.

Lemma wta_ctx {X} (f : tbl -> cres (tbl * X)) : forall p r r' x,
  with_table_at r p false f = COk (r', x) -> exists par par', f par = COk (par', x) /\ ctx_rel p r r' par par'.
Proof.
  induction p as [|k p IH]; intros r r' x H; cbn [with_table_at] in H.
  - exists r, r'. split; [exact H|constructor].
  - destruct (kv_get (t_items r) (k_key k)) as [[k0 it]|] eqn:G.
    + destruct it as [|v|sub|ts sp]; try discriminate.
      * cbn [andb] in H. destruct (with_table_at sub p false f) as [[sub' x']| |] eqn:E; try discriminate. injection H as <- <-.
        destruct (IH _ _ _ E) as (par & par' & Hf & Hc). exists par, par'. split; [exact Hf|]. eapply cr_tab; eassumption.
      * cbn [andb] in H. destruct (rev ts) as [|last rinit] eqn:Er; [discriminate|].
        destruct (with_table_at last p false f) as [[last' x']| |] eqn:E; try discriminate. injection H as <- <-.
        destruct (IH _ _ _ E) as (par & par' & Hf & Hc). exists par, par'. split; [exact Hf|]. eapply cr_aot; eassumption.
    + destruct (with_table_at (Tbl [] decor_default true false None None) p false f) as [[sub x']| |] eqn:E; try discriminate. injection H as <- <-.
      destruct (IH _ _ _ E) as (par & par' & Hf & Hc). exists par, par'. split; [exact Hf|]. apply cr_new; assumption.
Qed.

Lemma own_implicit0 (a : bool) sub : frame implicit0 sub -> own sub false = [].
Proof. intro H. rewrite (frame_own _ _ false H). reflexivity. Qed.

Lemma ctx_frame p r r' par par' : ctx_rel p r r' par par' -> frame par par' -> frame r r'.
Proof.
  induction 1 as [t t'|t k p sub par par' G _ IH|t k p k0 sub sub' par par' G _ IH|t k p k0 ts sp last rinit last' par par' G Er _ IH]; intro Hf.
  - exact Hf.
  - apply frame_set_items, vals_push_tab. reflexivity.
  - apply frame_set_items, (vals_set _ _ _ _ _ G); reflexivity.
  - apply frame_set_items, (vals_set _ _ _ _ _ G); reflexivity.
Qed.

Lemma t_items_set t m : t_items (t_set_items t m) = m.
Proof. destruct t. reflexivity. Qed.

Lemma ctx_perm p r r' par par' D1 D2 : ctx_rel p r r' par par' -> frame par par' ->
  Permutation (PI (t_items par') ++ D1) (PI (t_items par) ++ D2) -> Permutation (PI (t_items r') ++ D1) (PI (t_items r) ++ D2).
Proof.
  induction 1 as [t t'|t k p sub par par' G Hc IH|t k p k0 sub sub' par par' G Hc IH|t k p k0 ts sp last rinit last' par par' G Er Hc IH]; intros Hf Hp.
  - exact Hp.
  - rewrite t_items_set. unfold kv_push. rewrite PI_app. change (PI [(k, ITable sub)]) with (P sub false ++ []). rewrite app_nil_r, P_eq.
    rewrite (own_implicit0 false sub (ctx_frame _ _ _ _ _ Hc Hf)). cbn [app]. rewrite <- app_assoc.
    apply Permutation_app_head. specialize (IH Hf Hp). cbn [implicit0 t_items PI flat_map app] in IH. exact IH.
  - rewrite t_items_set. apply (PI_set _ _ _ _ _ _ _ G). rewrite !PIt_table, !P_eq, (frame_own _ _ false (ctx_frame _ _ _ _ _ Hc Hf)).
    rewrite <- !app_assoc. apply Permutation_app_head, IH; assumption.
  - rewrite t_items_set. apply (PI_set _ _ _ _ _ _ _ G). rewrite !PIt_aot.
    assert (Ets : ts = rev rinit ++ [last]) by (rewrite <- (rev_involutive ts), Er; reflexivity).
    rewrite Ets. cbn [rev]. rewrite !flat_map_app. cbn [flat_map]. rewrite !app_nil_r, !P_eq, (frame_own _ _ true (ctx_frame _ _ _ _ _ Hc Hf)).
    rewrite <- !app_assoc. apply Permutation_app_head, Permutation_app_head, IH; assumption.
Qed.

Section CtxUK.
  Variable K : key -> Prop.

  Lemma uk_implicit0 : uk K implicit0.
  Proof. apply uk_eq. split; [constructor|]. split; [reflexivity|constructor]. Qed.

  Lemma uk_set_items t m : NoDup (map kk m) -> vals m = vals (t_items t) -> uk K t -> uks K m -> uk K (t_set_items t m).
  Proof.
    intros H1 Hv Hu H2. apply uk_eq in Hu as (_ & Him & _). apply uk_eq. rewrite t_items_set. split; [exact H1|]. split; [|exact H2].
    destruct t. cbn [t_set_items t_implicit t_items] in *. rewrite Hv. exact Him.
  Qed.

  Lemma ctx_uk p r r' par par' : ctx_rel p r r' par par' -> Forall K p -> uk K r -> uk K par /\ (uk K par' -> uk K r').
  Proof.
    induction 1 as [t t'|t k p sub par par' G Hc IH|t k p k0 sub sub' par par' G Hc IH|t k p k0 ts sp last rinit last' par par' G Er Hc IH]; intros HK Hu.
    - auto.
    - inversion HK as [|? ? Hk HK']; subst. destruct (IH HK' uk_implicit0) as [H1 H2]. split; [exact H1|]. intro Hp.
      pose proof Hu as Hu0. apply uk_eq in Hu as (Hn & Him & Hs).
      apply uk_set_items; [apply nodup_push; assumption|apply vals_push_tab; reflexivity|exact Hu0|].
      apply uks_push; [exact Hs|intros _; exact Hk|apply H2, Hp].
    - inversion HK as [|? ? Hk HK']; subst. pose proof Hu as Hu0. apply uk_eq in Hu as (Hn & Him & Hs).
      destruct (uks_get K _ _ _ _ Hs G) as [Hk0 Hsub]. destruct (IH HK' Hsub) as [H1 H2]. split; [exact H1|]. intro Hp.
      apply uk_set_items; [rewrite keys_set; exact Hn|apply (vals_set _ _ _ _ _ G); reflexivity|exact Hu0|].
      apply (uks_set K _ _ _ _ _ Hs G); [intros _; apply Hk0; reflexivity|apply H2, Hp].
    - inversion HK as [|? ? Hk HK']; subst. pose proof Hu as Hu0. apply uk_eq in Hu as (Hn & Him & Hs).
      destruct (uks_get K _ _ _ _ Hs G) as [Hk0 Hsub]. apply uki_aot in Hsub.
      assert (Ets : ts = rev rinit ++ [last]) by (rewrite <- (rev_involutive ts), Er; reflexivity).
      rewrite Ets in Hsub. apply Forall_app in Hsub as [Hinit Hlast]. inversion Hlast as [|? ? Hl0 _]; subst.
      destruct (IH HK' Hl0) as [H1 H2]. split; [exact H1|]. intro Hp.
      apply uk_set_items; [rewrite keys_set; exact Hn|apply (vals_set _ _ _ _ _ G); reflexivity|exact Hu0|].
      apply (uks_set K _ _ _ _ _ Hs G); [intros _; apply Hk0; reflexivity|]. apply uki_aot. cbn [rev]. apply Forall_app. split; [exact Hinit|].
      constructor; [apply H2, Hp|constructor].
  Qed.
End CtxUK.

(* the table reached through a path that exists *)
Fixpoint reach (t : tbl) (p : list key) : option tbl :=
  match p with
  | [] => Some t
  | k :: ptl =>
    match kv_get (t_items t) (k_key k) with
    | Some (_, ITable sub) => reach sub ptl
    | Some (_, IAot ts _) => match rev ts with last :: _ => reach last ptl | [] => None end
    | _ => None
    end
  end.

Lemma ctx_reach p r r' par par' : ctx_rel p r r' par par' ->
  reach r' p = Some par' /\ (forall par0, reach r p = Some par0 -> par0 = par).
Proof.
  induction 1 as [t t'|t k p sub par par' G Hc IH|t k p k0 sub sub' par par' G Hc IH|t k p k0 ts sp last rinit last' par par' G Er Hc IH].
  - split; [reflexivity|]. intros par0 H. injection H as <-. reflexivity.
  - destruct IH as [H1 _]. cbn [reach]. rewrite t_items_set, (kv_get_push_new _ _ _ G), G. split; [exact H1|discriminate].
  - destruct IH as [H1 H2]. cbn [reach]. rewrite t_items_set, (kv_get_set_same _ _ _ _ _ G), G. auto.
  - destruct IH as [H1 H2]. cbn [reach]. rewrite t_items_set, (kv_get_set_same _ _ _ _ _ G), G, Er, rev_involutive. auto.
Qed.
