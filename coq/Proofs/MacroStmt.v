(* Proofs/MacroStmt.v — C19: the case analysis on a supported value, done once over the interface of
   Proofs/MacroCtx.v (Section ValueCases, instantiated for @toplevel, @table and @array below). *)
From TV Require Import Base.Prelude Base.Utf8 Model.Datetime Model.DatetimeStd Model.Numbers Model.Macro Spec.Defs Spec.MacroSpec.
From TV Require Import Proofs.MacroMatch Proofs.MacroRules Proofs.MacroTails Proofs.MacroEval Proofs.MacroAux Proofs.MacroCtx.

(* ---- the token the macro finally hands to @value for a signed scalar ---- *)
Definition signed_tok (sg : sign) (t : tt) : tt :=
  match sg with
  | SgNone => t
  | SgPlus => TGroup DParen [t]
  | SgMinus => TGroup DParen [TPunct c_minus; t]
  end.

(* ---- the tokens the macro hands to Datetime::from_str: `T` for a space ---- *)
Definition sec_lit (ss : bytes) (fr : option bytes) (o : dtoff) : lit :=
  let suf := match o with OZ c => [c] | _ => [] end in
  match fr with
  | Some f => LFloat (ss ++ [c_dot] ++ f ++ suf)
  | None => LInt (ss ++ suf)
  end.
Lemma sec_tok_lit : forall ss fr o, sec_tok ss fr o = TLit (sec_lit ss fr o).
Proof. intros ss [f|] o; reflexivity. Qed.

Definition dt_norm_toks (d : dtsp) : list tt :=
  match ds_date d, ds_time d with
  | Some (y, m, dd), Some ((hh, mi, ss, fr) as t) =>
    if byte_eqb (ds_delim d) c_space
    then [TLit (LInt y); TPunct c_minus; TLit (LInt m); TPunct c_minus; TLit (LInt dd); TIdent id_T]
         ++ time_toks [TLit (LInt hh)] t (ds_off d)
    else dt_toks d
  | _, _ => dt_toks d
  end.

(* what evaluating the value means for the macro *)
Definition val_ev (v : aval) (m : mval) (k : nat) : Prop :=
  match v with
  | ADt d => datetime_value (dt_norm_toks d) = EOk m
  | AInt sg t => Ev (MTab []) (value_in (signed_tok sg (TLit (LInt t)))) (EOk m) k
  | AFloat sg t => Ev (MTab []) (value_in (signed_tok sg (TLit (LFloat t)))) (EOk m) k
  | ASpecial sg nan => Ev (MTab []) (value_in (signed_tok sg (TIdent (if nan then id_nan else id_inf)))) (EOk m) k
  | AStr _ | ABool _ | AArr _ _ | AInl _ =>
    match val_toks v with [t] => Ev (MTab []) (value_in t) (EOk m) k | _ => False end
  end.

Section ValueCases.
Variables (cur : mval) (inp : list tt -> list tt) (dtinp : list tt -> list tt -> list tt) (sfx : list tt)
          (rok : list tt -> bool) (after : mval -> option mval) (next : list tt -> list tt).
Hypothesis I_generic : forall t R valm cur' res n1 n2, is_plain t = true -> rok R = true ->
  Ev (MTab []) (value_in t) (EOk valm) n1 -> after valm = Some cur' -> Ev cur' (next R) res n2 ->
  Ev cur (inp (t :: sfx ++ R)) res (S (Nat.max n1 n2)).
Hypothesis I_minus : forall t R res n,
  Ev cur (inp (TGroup DParen [TPunct c_minus; t] :: sfx ++ R)) res n -> Ev cur (inp (TPunct c_minus :: t :: sfx ++ R)) res (S n).
Hypothesis I_plus : forall t R res n,
  Ev cur (inp (TGroup DParen [t] :: sfx ++ R)) res n -> Ev cur (inp (TPunct c_plus :: t :: sfx ++ R)) res (S n).
Hypothesis I_dt : forall dts R valm cur' res n, dts <> [] ->
  datetime_value dts = EOk valm -> after valm = Some cur' -> Ev cur' (next R) res n -> Ev cur (dtinp dts R) res (S n).
Hypothesis I_date : forall y m d R res n, rok R = true ->
  Ev cur (dtinp (sk_date y m d) R) res n -> Ev cur (inp (sk_date y m d ++ sfx ++ R)) res (S n).
Hypothesis I_time : forall h mi s R res n, rok R = true ->
  Ev cur (dtinp (sk_time h mi s) R) res n -> Ev cur (inp (sk_time h mi s ++ sfx ++ R)) res (S n).
Hypothesis I_dtT : forall y m dh mi s R res n, rok R = true ->
  Ev cur (dtinp (sk_dtT y m dh mi s) R) res n -> Ev cur (inp (sk_dtT y m dh mi s ++ sfx ++ R)) res (S n).
Hypothesis I_dtS : forall y m d h mi s R res n, rok R = true ->
  Ev cur (dtinp (nk_dtS y m d h mi s) R) res n -> Ev cur (inp (sk_dtS y m d h mi s ++ sfx ++ R)) res (S n).
Hypothesis I_odtT : forall y m dh mi s oh om R res n, rok R = true ->
  Ev cur (dtinp (sk_dtT y m dh mi s ++ sk_off oh om) R) res n ->
  Ev cur (inp ((sk_dtT y m dh mi s ++ sk_off oh om) ++ sfx ++ R)) res (S n).
Hypothesis I_odtS : forall y m d h mi s oh om R res n, rok R = true ->
  Ev cur (dtinp (nk_dtS y m d h mi s ++ sk_off oh om) R) res n ->
  Ev cur (inp ((sk_dtS y m d h mi s ++ sk_off oh om) ++ sfx ++ R)) res (S n).

Lemma ctx_plain : forall t R valm cur' res k n, is_plain t = true -> rok R = true ->
  Ev (MTab []) (value_in t) (EOk valm) k -> after valm = Some cur' -> Ev cur' (next R) res n ->
  Ev cur (inp ([t] ++ sfx ++ R)) res (S (S (Nat.max k n))).
Proof.
  intros. eapply Ev_mono; [eapply I_generic; eassumption|lia].
Qed.

Lemma ctx_signed : forall sg t R valm cur' res k n, is_plain t = true -> rok R = true ->
  Ev (MTab []) (value_in (signed_tok sg t)) (EOk valm) k -> after valm = Some cur' -> Ev cur' (next R) res n ->
  Ev cur (inp ((sign_toks sg ++ [t]) ++ sfx ++ R)) res (S (S (Nat.max k n))).
Proof.
  intros [| |] t R valm cur' res k n Ht HR Hv Ha Hn; cbn [sign_toks signed_tok app] in *.
  - eapply Ev_mono; [eapply I_generic; eassumption|lia].
  - apply I_plus. eapply I_generic; try eassumption. reflexivity.
  - apply I_minus. eapply I_generic; try eassumption. reflexivity.
Qed.

Lemma ctx_datetime : forall d R valm cur' res n, dt_ok d = true -> rok R = true ->
  datetime_value (dt_norm_toks d) = EOk valm -> after valm = Some cur' -> Ev cur' (next R) res n ->
  Ev cur (inp (dt_toks d ++ sfx ++ R)) res (S (S n)).
Proof.
  intros [date delim time off] R valm cur' res n Hok HR Hv Ha Hn.
  unfold dt_ok in Hok. unfold dt_norm_toks, dt_toks in *. cbn [ds_date ds_time ds_delim ds_off] in *.
  destruct date as [[[y m] dd]|]; destruct time as [[[[hh mi] ss] fr]|]; try discriminate Hok.
  - (* date and time *)
    apply andb_true_iff in Hok as [Hok Hoff]. 
    unfold time_toks in *. rewrite sec_tok_lit in *.
    destruct (byte_eqb delim c_space) eqn:Ed.
    + destruct off as [|c|neg oh om]; cbn [off_toks] in *.
      * rewrite app_nil_r in *. apply (I_dtS (LInt y) (LInt m) (LInt dd) (LInt hh) (LInt mi) _ R res _ HR).
        eapply I_dt; try eassumption. discriminate.
      * rewrite app_nil_r in *. apply (I_dtS (LInt y) (LInt m) (LInt dd) (LInt hh) (LInt mi) _ R res _ HR).
        eapply I_dt; try eassumption. discriminate.
      * cbn [off_ok] in Hoff. apply andb_true_iff in Hoff as [Hoff _]. apply andb_true_iff in Hoff as [Hneg _]. subst neg.
        apply (I_odtS (LInt y) (LInt m) (LInt dd) (LInt hh) (LInt mi) _ (LInt oh) (LInt om) R res _ HR).
        eapply I_dt; try eassumption. discriminate.
    + destruct off as [|c|neg oh om]; cbn [off_toks] in *.
      * rewrite app_nil_r in *. apply (I_dtT (LInt y) (LInt m) _ (LInt mi) _ R res _ HR).
        eapply I_dt; try eassumption. discriminate.
      * rewrite app_nil_r in *. apply (I_dtT (LInt y) (LInt m) _ (LInt mi) _ R res _ HR).
        eapply I_dt; try eassumption. discriminate.
      * cbn [off_ok] in Hoff. apply andb_true_iff in Hoff as [Hoff _]. apply andb_true_iff in Hoff as [Hneg _]. subst neg.
        apply (I_odtT (LInt y) (LInt m) _ (LInt mi) _ (LInt oh) (LInt om) R res _ HR).
        eapply I_dt; try eassumption. discriminate.
  - (* date only *)
    apply (I_date (LInt y) (LInt m) (LInt dd) R res _ HR). eapply I_dt; try eassumption. discriminate.
  - (* time only *)
    apply andb_true_iff in Hok as [_ Hoff]. destruct off; try discriminate Hoff.
    unfold time_toks in *. rewrite sec_tok_lit in *. cbn [off_toks] in *. rewrite app_nil_r in *.
    apply (I_time (LInt hh) (LInt mi) _ R res _ HR). eapply I_dt; try eassumption. discriminate.
Qed.

(* every supported value, in this context *)
Theorem ctx_value : forall v R m cur' res k n, val_ok v = true -> rok R = true ->
  val_ev v m k -> after m = Some cur' -> Ev cur' (next R) res n ->
  Ev cur (inp (val_toks v ++ sfx ++ R)) res (S (S (Nat.max k n))).
Proof.
  intros v R m cur' res k n Hok HR Hv Ha Hn.
  destruct v as [s|sg t|sg t|sg nan|b|d|l tr|ps]; cbn [val_ev val_toks] in *.
  - eapply ctx_plain; try eassumption; reflexivity.
  - eapply ctx_signed; try eassumption; reflexivity.
  - eapply ctx_signed; try eassumption; reflexivity.
  - eapply ctx_signed; try eassumption; reflexivity.
  - eapply ctx_plain; try eassumption; reflexivity.
  - eapply Ev_mono; [eapply ctx_datetime; eassumption|lia].
  - eapply ctx_plain; try eassumption; reflexivity.
  - eapply ctx_plain; try eassumption; reflexivity.
Qed.

End ValueCases.

(* ---- the three instances ---- *)
Theorem top_value : forall r cp p cur v R m cur' res k n,
  ident_frag_ok r = true -> path_ok p = true -> val_ok v = true -> rest_ok R = true ->
  val_ev v m k -> insert_toml cur (cp ++ path_strings p) m = Some cur' ->
  Ev cur' (top_in r (List.map path_tok cp) R) res n ->
  Ev cur (top_in r (List.map path_tok cp) (key_toks p ++ [TPunct c_eq] ++ val_toks v ++ R)) res (S (S (Nat.max k n))).
Proof.
  intros r cp p cur v R m cur' res k n Hr Hp Hv HR Hev Ha Hn.
  rewrite key_toks_dot.
  exact (ctx_value cur (top_inp r cp p) (top_dtinp r cp p) [] rest_ok (top_after cp p cur) (top_in r (List.map path_tok cp))
           (top_generic r cp p cur Hr Hp) (top_minus r cp p cur Hr Hp) (top_plus r cp p cur Hr Hp) (top_dt r cp p cur Hr Hp)
           (top_date r cp p cur Hr Hp) (top_time r cp p cur Hr Hp) (top_dtT r cp p cur Hr Hp) (top_dtS r cp p cur Hr Hp)
           (top_odtT r cp p cur Hr Hp) (top_odtS r cp p cur Hr Hp)
           v R m cur' res k n Hv HR Hev Ha Hn).
Qed.

Theorem tab_value : forall r p cur v R m cur' res k n,
  ident_frag_ok r = true -> path_ok p = true -> val_ok v = true -> comma_rest_ok R = true ->
  val_ev v m k -> insert_toml cur (path_strings p) m = Some cur' ->
  Ev cur' (st_in id_table r R) res n ->
  Ev cur (st_in id_table r (key_toks p ++ [TPunct c_eq] ++ val_toks v ++ TPunct c_comma :: R)) res (S (S (Nat.max k n))).
Proof.
  intros r p cur v R m cur' res k n Hr Hp Hv HR Hev Ha Hn.
  rewrite key_toks_dot.
  exact (ctx_value cur (tab_inp r p) (tab_dtinp r p) [TPunct c_comma] comma_rest_ok (tab_after p cur) (st_in id_table r)
           (tab_generic r p cur Hr Hp) (tab_minus r p cur Hr Hp) (tab_plus r p cur Hr Hp)
           (fun dts R valm cur' res n _ => tab_dt r p cur Hr Hp dts R valm cur' res n)
           (tab_date r p cur Hr Hp) (tab_time r p cur Hr Hp) (tab_dtT r p cur Hr Hp) (tab_dtS r p cur Hr Hp)
           (tab_odtT r p cur Hr Hp) (tab_odtS r p cur Hr Hp)
           v R m cur' res k n Hv HR Hev Ha Hn).
Qed.

Theorem arr_value : forall r l v R m res k n,
  ident_frag_ok r = true -> val_ok v = true -> comma_rest_ok R = true ->
  val_ev v m k -> Ev (MArr (l ++ [m])) (st_in id_array r R) res n ->
  Ev (MArr l) (st_in id_array r (val_toks v ++ TPunct c_comma :: R)) res (S (S (Nat.max k n))).
Proof.
  intros r l v R m res k n Hr Hv HR Hev Hn.
  exact (ctx_value (MArr l) (arr_inp r) (arr_dtinp r) [TPunct c_comma] comma_rest_ok (arr_after l) (st_in id_array r)
           (arr_generic r l Hr) (arr_minus r l Hr) (arr_plus r l Hr)
           (fun dts R valm cur' res n _ => arr_dt r l Hr dts R valm cur' res n)
           (arr_date r l Hr) (arr_time r l Hr) (arr_dtT r l Hr) (arr_dtS r l Hr)
           (arr_odtT r l Hr) (arr_odtS r l Hr)
           v R m (MArr (l ++ [m])) res k n Hv HR Hev eq_refl Hn).
Qed.
