(* Proofs/WFPrintFlat.v — WF backbone: the flattening of dotted inline tables into key paths (Model/Encode.v
   inline_values), fuel-free, and its reading as a dotted forest of Proofs/WFSem.v. *)
From TV Require Import Base.Prelude Base.Utf8 Base.Winnow Gen.Consts Spec.Abnf Spec.Lex Spec.Defs Spec.Syntax Spec.WF.
From TV Require Import Model.Datetime Model.Numbers Model.Tree Model.Parse Model.Write Model.Encode.
From TV Require Import Proofs.LexEquivBase Proofs.GrammarBase.
From TV Require Import Proofs.SpansDefs Proofs.WFSem Proofs.WFPrintKey.
Require Import Lia.

(* ---- induction over the entries of nested dotted inline tables ---------------------------------------------------- *)
Lemma item_dotted_ind (P : item -> Prop) :
  (forall it, (forall sub pre im d sp, it = IValue (VInline sub pre im true d sp) -> Forall (fun kv => P (snd kv)) sub) -> P it) ->
  forall it, P it.
Proof.
  intro H.
  refine (proj1 (proj2 (tree_ind3
    (fun v => match v with VInline sub _ _ _ _ _ => Forall (fun kv : key * item => P (snd kv)) sub | _ => True end)
    P (fun _ => True) _ _ _ _ _ _ _ _))).
  - intros; exact I.
  - intros; exact I.
  - intros items pre im dt d sp Hf. exact Hf.
  - apply H. intros sub pre im d sp E. discriminate.
  - intros v Hv. apply H. intros sub pre im d sp E. inversion E; subst. exact Hv.
  - intros t _. apply H. intros sub pre im d sp E. discriminate.
  - intros ts asp _. apply H. intros sub pre im d sp E. discriminate.
  - intros; exact I.
Qed.

Lemma flat_map_ext_in' {A B} (f g : A -> list B) l : (forall x, In x l -> f x = g x) -> flat_map f l = flat_map g l.
Proof.
  induction l as [|x l IH]; intro H; [reflexivity|]. cbn [flat_map]. rewrite (H x (or_introl eq_refl)), IH; [reflexivity|].
  intros y Hy. apply H. right. exact Hy.
Qed.

(* ---- flattening --------------------------------------------------------------------------------------------------- *)
Fixpoint iflat_item (parent : list key) (k : key) (it : item) {struct it} : list (list key * value) :=
  match it with
  | IValue v =>
    match v with
    | VInline sub _ _ true _ _ => flat_map (fun kv => iflat_item (parent ++ [k]) (fst kv) (snd kv)) sub
    | _ => [(parent ++ [k], v)]
    end
  | _ => []
  end.
Definition iflat (parent : list key) (items : kvs) : list (list key * value) :=
  flat_map (fun kv => iflat_item parent (fst kv) (snd kv)) items.

Definition ksz (items : kvs) : nat := fold_right (fun kv acc => item_size (snd kv) + acc) 0 items.
Lemma value_size_inline items pre im dt d sp : value_size (VInline items pre im dt d sp) = S (ksz items).
Proof.
  cbn [value_size]. f_equal. unfold ksz. induction items as [|[k i0] tl IH]; [reflexivity|]. cbn [fold_right snd]. rewrite IH. reflexivity.
Qed.
Lemma ksz_in items k it : In (k, it) items -> item_size it <= ksz items.
Proof.
  unfold ksz. induction items as [|[k0 i0] tl IH]; [contradiction|]. cbn [fold_right snd]. intros [E|H]; [inversion E; subst; lia|].
  specialize (IH H). lia.
Qed.

Lemma inline_values_item f parent k it : item_size it <= f ->
  (match it with
   | IValue (VInline sub _ _ true _ _) => inline_values f (parent ++ [k]) sub
   | IValue v => [(parent ++ [k], v)]
   | _ => []
   end) = iflat_item parent k it.
Proof.
  revert f parent k. induction it as [it IH] using item_dotted_ind. intros f parent k Hs.
  destruct it as [|v|t|ts sp]; try reflexivity.
  destruct v as [x r d|vals tr c d sp|sub pre im dt d sp]; try reflexivity. destruct dt; [|reflexivity].
  cbn [iflat_item]. specialize (IH sub pre im d sp eq_refl).
  change (item_size (IValue (VInline sub pre im true d sp))) with (S (value_size (VInline sub pre im true d sp))) in Hs.
  rewrite value_size_inline in Hs. destruct f as [|f]; [lia|]. cbn [inline_values].
  apply flat_map_ext_in'. intros [k1 i1] Hin. cbn [fst snd]. rewrite Forall_forall in IH.
  apply (IH (k1, i1) Hin). cbn [snd]. pose proof (ksz_in _ _ _ Hin). lia.
Qed.
Lemma inline_values_eq f parent items : ksz items < f -> inline_values f parent items = iflat parent items.
Proof.
  intro Hs. destruct f as [|f]; [lia|]. cbn [inline_values]. unfold iflat. apply flat_map_ext_in'.
  intros [k it] Hin. cbn [fst snd]. apply inline_values_item. pose proof (ksz_in _ _ _ Hin). lia.
Qed.

(* ---- the entries of the flattening ------------------------------------------------------------------------------------ *)
(* every flattened entry of a well-formed inline table: path = parent ++ keys of dotted tables ++ own key *)
Section Entries.
  Variable line : bool.
  Variable Q : list key -> value -> Prop.
  (* Q is established at the leaves *)
  Definition leaf_ok (n : nat) (parent : list key) (k : key) (v : value) : Prop :=
    Forall (key_wf line) parent -> key_wf line k ->
    value_wf (if line then CLine else CInl) v -> Q (parent ++ [k]) v.

  Lemma iflat_item_forall : forall it parent k,
    Forall (key_wf line) parent -> key_wf line k -> pair_wf line it ->
    (forall p v, p <> [] -> Forall (key_wf line) p -> value_wf (if line then CLine else CInl) v ->
                 (match v with VInline _ _ _ true _ _ => False | _ => True end) -> Q p v) ->
    Forall (fun pv => Q (fst pv) (snd pv)) (iflat_item parent k it).
  Proof.
    induction it as [it IH] using item_dotted_ind. intros parent k Hp Hk Hw HQ.
    destruct it as [|v|t|ts sp]; try contradiction.
    assert (Hpk : Forall (key_wf line) (parent ++ [k])) by (apply Forall_app; split; [exact Hp|constructor; [exact Hk|constructor]]).
    assert (Hne : parent ++ [k] <> []) by (destruct parent; discriminate).
    destruct v as [x r d|vals tr c d sp|sub pre im dt d sp].
    - cbn [iflat_item]. constructor; [|constructor]. cbn [fst snd]. apply HQ; [exact Hne|exact Hpk|exact Hw|exact I].
    - cbn [iflat_item]. constructor; [|constructor]. cbn [fst snd]. apply HQ; [exact Hne|exact Hpk|exact Hw|exact I].
    - destruct dt.
      + cbn [iflat_item]. specialize (IH sub pre im d sp eq_refl). cbn [pair_wf] in Hw. destruct Hw as (_ & _ & Hall).
        clear -IH Hall Hpk HQ. induction sub as [|[k1 i1] sub IHs]; [constructor|]. cbn [flat_map fst snd].
        inversion IH as [|? ? H1 H2]; subst. cbn [all_P fst snd] in Hall. destruct Hall as [[Hk1 Hw1] Hall].
        apply Forall_app. split; [apply H1; assumption|apply IHs; assumption].
      + cbn [iflat_item]. constructor; [|constructor]. cbn [fst snd]. apply HQ; [exact Hne|exact Hpk|exact Hw|exact I].
  Qed.
End Entries.

Lemma iflat_forall line (Q : list key -> value -> Prop) parent items :
  Forall (key_wf line) parent ->
  all_P (fun kv => key_wf line (fst kv) /\ pair_wf line (snd kv)) items ->
  (forall p v, p <> [] -> Forall (key_wf line) p -> value_wf (if line then CLine else CInl) v ->
               (match v with VInline _ _ _ true _ _ => False | _ => True end) -> Q p v) ->
  Forall (fun pv => Q (fst pv) (snd pv)) (iflat parent items).
Proof.
  intros Hp Hall HQ. unfold iflat. induction items as [|[k it] items IH]; [constructor|]. cbn [flat_map fst snd].
  cbn [all_P fst snd] in Hall. destruct Hall as [[Hk Hw] Hall]. apply Forall_app. split; [|apply IH, Hall].
  apply (iflat_item_forall line Q); assumption.
Qed.

(* sizes: a flattened value is smaller than the table *)
Lemma iflat_item_size : forall it parent k, Forall (fun pv => value_size (snd pv) < item_size it) (iflat_item parent k it).
Proof.
  induction it as [it IH] using item_dotted_ind. intros parent k. destruct it as [|v|t|ts sp]; try constructor.
  destruct v as [x r d|vals tr c d sp|sub pre im dt d sp]; try (cbn [iflat_item]; constructor; [cbn; lia|constructor]).
  destruct dt; [|cbn [iflat_item]; constructor; [cbn [snd item_size]; lia|constructor]].
  cbn [iflat_item]. specialize (IH sub pre im d sp eq_refl).
  change (item_size (IValue (VInline sub pre im true d sp))) with (S (value_size (VInline sub pre im true d sp))).
  rewrite value_size_inline. apply Forall_forall. intros pv Hin. apply in_flat_map in Hin as ([k1 i1] & Hin1 & Hin2).
  rewrite Forall_forall in IH. specialize (IH (k1, i1) Hin1 (parent ++ [k]) k1). cbn [fst snd] in *.
  rewrite Forall_forall in IH. specialize (IH pv Hin2). pose proof (ksz_in _ _ _ Hin1). lia.
Qed.
Lemma iflat_size parent items : Forall (fun pv => value_size (snd pv) < ksz items) (iflat parent items).
Proof.
  unfold iflat. apply Forall_forall. intros pv Hin. apply in_flat_map in Hin as ([k it] & Hin1 & Hin2). cbn [fst snd] in Hin2.
  pose proof (iflat_item_size it parent k) as H. rewrite Forall_forall in H. specialize (H pv Hin2).
  pose proof (ksz_in _ _ _ Hin1). lia.
Qed.

(* limits: the key path of a flattened entry has (length parent + depth) keys *)
Lemma iflat_item_lim d : forall it parent k,
  pair_lim d (S (length parent)) it ->
  Forall (fun pv => match snd pv with VInline _ _ _ true _ _ => True
                                 | _ => length (fst pv) + value_depth (snd pv) < LIMIT /\ value_lim d (snd pv) end)
         (iflat_item parent k it).
Proof.
  induction it as [it IH] using item_dotted_ind. intros parent k Hl. destruct it as [|v|t|ts sp]; try constructor.
  assert (Len : length (parent ++ [k]) = S (length parent)) by (rewrite app_length; cbn; lia).
  destruct v as [x r d0|vals tr c d0 sp|sub pre im dt d0 sp].
  - cbn [iflat_item]. constructor; [|constructor]. cbn [fst snd]. rewrite Len. exact Hl.
  - cbn [iflat_item]. constructor; [|constructor]. cbn [fst snd]. rewrite Len. exact Hl.
  - destruct dt.
    + cbn [iflat_item]. specialize (IH sub pre im d0 sp eq_refl). cbn [pair_lim] in Hl.
      clear -IH Hl Len. induction sub as [|[k1 i1] sub IHs]; [constructor|]. cbn [flat_map fst snd].
      inversion IH as [|? ? H1 H2]; subst. cbn [all_P snd] in Hl. destruct Hl as [Hl1 Hl].
      apply Forall_app. split; [apply H1; rewrite Len; exact Hl1|apply IHs; assumption].
    + cbn [iflat_item]. constructor; [|constructor]. cbn [fst snd]. rewrite Len. exact Hl.
Qed.

(* ---- as a dotted forest -------------------------------------------------------------------------------------------------- *)
Fixpoint dn_item (it : item) {struct it} : dnode dval :=
  match it with
  | IValue v =>
    match v with
    | VInline sub _ _ true _ _ => DT (map (fun kv => (k_key (fst kv), dn_item (snd kv))) sub)
    | _ => DV (absv v)
    end
  | _ => DT []
  end.
Definition dforest (items : kvs) : list (bytes * dnode dval) := map (fun kv => (k_key (fst kv), dn_item (snd kv))) items.

Definition pv_abs (pv : list key * value) : list bytes * dval := (ktexts (fst pv), absv (snd pv)).

Lemma iflat_item_dflat : forall it parent k,
  map pv_abs (iflat_item parent k it)
  = map (fun pv => (ktexts parent ++ fst pv, snd pv)) (dflat_node dval (k_key k) (dn_item it)).
Proof.
  induction it as [it IH] using item_dotted_ind. intros parent k. destruct it as [|v|t|ts sp]; try reflexivity.
  assert (Ek : ktexts (parent ++ [k]) = ktexts parent ++ [k_key k]) by (unfold ktexts; rewrite map_app; reflexivity).
  assert (Leaf : forall w, map pv_abs [(parent ++ [k], w)]
                           = map (fun pv : list bytes * dval => (ktexts parent ++ fst pv, snd pv)) (dflat_node dval (k_key k) (DV (absv w)))).
  { intro w. cbn [map pv_abs dflat_node fst snd]. unfold pv_abs. cbn [fst snd]. rewrite Ek. reflexivity. }
  destruct v as [x r d|vals tr c d sp|sub pre im dt d sp]; [apply Leaf|apply Leaf|].
  destruct dt; [|apply Leaf].
  cbn [iflat_item dn_item dflat_node]. specialize (IH sub pre im d sp eq_refl).
  induction sub as [|[k1 i1] sub IHs]; [reflexivity|]. inversion IH as [|? ? H1 H2]; subst.
  cbn [flat_map map fst snd]. rewrite !map_app. f_equal; [|apply IHs, H2].
  cbn [snd] in H1. rewrite (H1 (parent ++ [k]) k1). rewrite !map_map. apply map_ext. intros [p x]. cbn [fst snd].
  rewrite Ek, <- app_assoc. reflexivity.
Qed.
Lemma iflat_dflat items : map pv_abs (iflat [] items) = dflat dval (dforest items).
Proof.
  unfold iflat, dflat, dforest. induction items as [|[k it] items IH]; [reflexivity|]. cbn [flat_map map fst snd].
  rewrite map_app, IH. f_equal. rewrite iflat_item_dflat. cbn [ktexts map app]. rewrite <- (map_id (dflat_node _ _ _)) at 2.
  apply map_ext. intros [p x]. reflexivity.
Qed.

(* ---- the forest of a well-formed inline table is well-formed, and denotes the table's data --------------------------- *)
Lemma dn_item_wf line : forall it, pair_wf line it -> dwf_node dval (dn_item it).
Proof.
  induction it as [it IH] using item_dotted_ind. intro Hw. destruct it as [|v|t|ts sp]; try contradiction.
  destruct v as [x r d|vals tr c d sp|sub pre im dt d sp]; try (constructor).
  destruct dt; [|constructor]. cbn [dn_item]. cbn [pair_wf] in Hw. destruct Hw as (Hne & Hnd & Hall).
  specialize (IH sub pre im d sp eq_refl). constructor.
  - destruct sub; [congruence|discriminate].
  - rewrite map_map. exact Hnd.
  - rewrite map_map. cbn [snd]. clear -IH Hall. induction sub as [|[k1 i1] sub IHs]; [constructor|].
    cbn [map snd all_P fst] in *. inversion IH; subst. destruct Hall as [[_ Hw1] Hall]. constructor; auto.
Qed.
Lemma dforest_wf line items :
  NoDup (kkeys items) -> all_P (fun kv => key_wf line (fst kv) /\ pair_wf line (snd kv)) items -> dwf dval (dforest items).
Proof.
  intros Hnd Hall. split; [unfold dforest; rewrite map_map; exact Hnd|]. unfold dforest. rewrite map_map. cbn [snd].
  induction items as [|[k it] items IH]; [constructor|]. cbn [map snd all_P fst kkeys] in *. destruct Hall as [[_ Hw] Hall].
  inversion Hnd; subst. constructor; [eapply dn_item_wf, Hw|apply IH; assumption].
Qed.

Lemma dres_abs line : forall it, pair_wf line it -> node_dval (dres_node dval (dn_item it)) = absi it.
Proof.
  induction it as [it IH] using item_dotted_ind. intro Hw. destruct it as [|v|t|ts sp]; try contradiction.
  destruct v as [x r d|vals tr c d sp|sub pre im dt d sp]; try reflexivity.
  destruct dt; [|reflexivity]. cbn [dn_item dres_node node_dval absi]. rewrite absv_inline. f_equal.
  cbn [pair_wf] in Hw. destruct Hw as (_ & _ & Hall). specialize (IH sub pre im d sp eq_refl).
  rewrite !map_map. cbn [fst snd]. clear -IH Hall. induction sub as [|[k1 i1] sub IHs]; [reflexivity|].
  cbn [map all_P fst snd] in *. inversion IH as [|? ? H1 H2]; subst. destruct Hall as [[_ Hw1] Hall].
  cbn [snd] in H1. unfold absi_kv at 1. cbn [fst snd]. rewrite (H1 Hw1), (IHs H2 Hall). reflexivity.
Qed.
Lemma dforest_abs line items :
  all_P (fun kv => key_wf line (fst kv) /\ pair_wf line (snd kv)) items ->
  tree_dval (dres dval (dforest items)) = map absi_kv items.
Proof.
  intro Hall. unfold tree_dval, dres, dforest. rewrite !map_map. cbn [fst snd].
  induction items as [|[k it] items IH]; [reflexivity|]. cbn [map all_P fst snd] in *. destruct Hall as [[_ Hw] Hall].
  rewrite (dres_abs line it Hw), (IH Hall). reflexivity.
Qed.

Lemma iflat_nonempty_item line : forall it parent k, pair_wf line it -> iflat_item parent k it <> [].
Proof.
  induction it as [it IH] using item_dotted_ind. intros parent k Hw. destruct it as [|v|t|ts sp]; try contradiction.
  destruct v as [x r d|vals tr c d sp|sub pre im dt d sp]; try discriminate. destruct dt; [|discriminate].
  cbn [iflat_item]. cbn [pair_wf] in Hw. destruct Hw as (Hne & _ & Hall). specialize (IH sub pre im d sp eq_refl).
  destruct sub as [|[k1 i1] sub]; [congruence|]. cbn [flat_map fst snd all_P] in *. inversion IH as [|? ? H1 _]; subst.
  destruct Hall as [[_ Hw1] _]. intro E. apply app_eq_nil in E as [E _]. exact (H1 _ _ Hw1 E).
Qed.
