(* Proofs/StringsRTTop.v — every style of TomlStringBuilder / TomlKeyBuilder against `string`,
   `value`, `simple_key`; the default styles exist. *)
From TV Require Import Base.Prelude Base.Utf8 Base.Winnow Gen.Consts.
From TV Require Import Model.Trivia Model.Strings Model.Tree Model.Parse Model.Document Model.Write.
From TV Require Import Proofs.Eoi Proofs.StringsRTDefs Proofs.StringsRTBase Proofs.StringsRTWrite Proofs.StringsRTEsc.
From TV Require Import Proofs.StringsRTBasic Proofs.StringsRTQuotes Proofs.StringsRTMlLit Proofs.StringsRTMlBasic.
Require Import Lia ZifyBool ZifyN ZifyNat.

(* ---- the tokens write_toml_value produces ------------------------------------------------------ *)
Lemma wtv_basic s nl : write_toml_value s (Some BasicString) nl = basic_token s.
Proof.
  unfold write_toml_value, basic_token. rewrite andb_false_r, write_escaped_is_enc. reflexivity.
Qed.
Lemma wtv_ml_basic s nl : write_toml_value s (Some MlBasicString) nl = ml_basic_token nl s.
Proof.
  unfold write_toml_value, ml_basic_token. rewrite andb_true_r, write_escaped_is_enc. reflexivity.
Qed.
Lemma wtv_literal s nl : write_toml_value s (Some LiteralString) nl = literal_token s.
Proof. unfold write_toml_value, literal_token. rewrite andb_false_r. reflexivity. Qed.
Lemma wtv_ml_literal s nl : write_toml_value s (Some MlLiteralString) nl = ml_literal_token nl s.
Proof. unfold write_toml_value, ml_literal_token. rewrite andb_true_r. reflexivity. Qed.
Lemma wtv_bare s nl : write_toml_value s None nl = s.
Proof. unfold write_toml_value. rewrite andb_false_r. cbn [app]. apply app_nil_r. Qed.

(* ---- `string` picks the right alternative -------------------------------------------------------- *)
Lemma no_quote_head_22 r : no_quote_head r -> not_head x22 r.
Proof. destruct r as [|b r]; [auto|]. unfold no_quote_head, not_head. intros [H _]. rewrite byte_eqb_sym. exact H. Qed.
Lemma no_quote_head_27 r : no_quote_head r -> not_head x27 r.
Proof. destruct r as [|b r]; [auto|]. unfold no_quote_head, not_head. intros [_ H]. rewrite byte_eqb_sym. exact H. Qed.

Lemma ml_basic_string_bt Y p d : strip_prefix [x22; x22; x22] Y = None ->
  exists e i', ml_basic_string (mkIn Y p d) = Bt e i'.
Proof.
  intro H. unfold ml_basic_string. rewrite (bind_bt _ _ _ _ _ (lit_no ML_BASIC_STRING_DELIM Y p d H)). eauto.
Qed.
Lemma basic_string_bt Y p d : stops (byte_eqb x22) Y ->
  exists e i', basic_string (mkIn Y p d) = Bt e i'.
Proof.
  intro H. unfold basic_string. rewrite (bind_bt _ _ _ _ _ (byte_no QUOTATION_MARK Y p d H)). eauto.
Qed.
Lemma ml_literal_string_bt Y p d : strip_prefix [x27; x27; x27] Y = None ->
  exists e i', ml_literal_string (mkIn Y p d) = Bt e i'.
Proof.
  intro H. unfold ml_literal_string.
  rewrite (bind_bt _ _ _ _ _ (bind_bt _ _ _ _ _ (lit_no ML_LITERAL_STRING_DELIM Y p d H))). eauto.
Qed.

Lemma enc_false_head s : s <> [] -> exists h Z, enc false 0 s = h :: Z /\ byte_eqb x22 h = false.
Proof.
  intro H. destruct s as [|b s]; [congruence|].
  destruct (byte_eqb b x22) eqn:E.
  - apply byte_eqb_eq in E. subst b. exists x5c. eexists. split; [reflexivity|reflexivity].
  - destruct (enc_cons_other false b E) as [h [pre [Hh He]]]. rewrite He. cbn [app]. eauto.
Qed.

Lemma string_basic s r p d : utf8_valid_b s = true -> no_quote_head r ->
  string_ (mkIn (basic_token s ++ r) p d) = Ok s (after (basic_token s) r p d).
Proof.
  intros Hu Hr. unfold string_.
  assert (Hn : strip_prefix [x22; x22; x22] (basic_token s ++ r) = None).
  { unfold basic_token. cbn [app]. rewrite <- app_assoc. cbn [app].
    destruct s as [|b s0].
    - cbn [enc app]. apply strip3_2. apply no_quote_head_22. exact Hr.
    - destruct (enc_false_head (b :: s0)) as [h [Z [HZ Hh]]]; [discriminate|].
      rewrite HZ. cbn [strip_prefix app]. rewrite byte_eqb_refl, Hh. reflexivity. }
  destruct (ml_basic_string_bt _ p d Hn) as [e [i' He]]. rewrite (alt_bt _ _ _ _ _ He).
  apply alt_ok. apply basic_string_rt. exact Hu.
Qed.

Lemma string_ml_basic nl s r p d : utf8_valid_b s = true -> no_quote_head r ->
  (nl = false -> forallb (fun b => negb (byte_eqb b x0a)) s = true) ->
  string_ (mkIn (ml_basic_token nl s ++ r) p d) = Ok s (after (ml_basic_token nl s) r p d).
Proof.
  intros Hu Hr Hnl. unfold string_. apply alt_ok. apply ml_basic_string_rt; auto. apply no_quote_head_22. exact Hr.
Qed.

Lemma string_literal s r p d :
  forallb (in_class LITERAL_CHAR) s = true -> utf8_valid_b s = true -> no_quote_head r ->
  string_ (mkIn (literal_token s ++ r) p d) = Ok s (after (literal_token s) r p d).
Proof.
  intros Hc Hu Hr. unfold string_.
  destruct (ml_basic_string_bt (literal_token s ++ r) p d eq_refl) as [e1 [i1 H1]]. rewrite (alt_bt _ _ _ _ _ H1).
  destruct (basic_string_bt (literal_token s ++ r) p d eq_refl) as [e2 [i2 H2]]. rewrite (alt_bt _ _ _ _ _ H2).
  assert (Hn : strip_prefix [x27; x27; x27] (literal_token s ++ r) = None).
  { unfold literal_token. cbn [app]. rewrite <- app_assoc. cbn [app].
    destruct s as [|b s0].
    - cbn [app]. apply strip3_2. apply no_quote_head_27. exact Hr.
    - cbn [forallb] in Hc. apply andb_true_iff in Hc as [Hb _].
      assert (E : byte_eqb x27 b = false).
      { destruct (byte_eqb x27 b) eqn:E; [|reflexivity]. apply byte_eqb_eq in E. subst b.
        rewrite literal_char_apos in Hb. discriminate. }
      cbn [strip_prefix app]. rewrite byte_eqb_refl, E. reflexivity. }
  destruct (ml_literal_string_bt _ p d Hn) as [e3 [i3 H3]]. rewrite (alt_bt _ _ _ _ _ H3).
  apply literal_string_rt; assumption.
Qed.

Lemma string_ml_literal nl s r p d :
  forallb okb s = true -> no3 x27 0 s = true -> utf8_valid_b s = true -> no_quote_head r ->
  (nl = false -> forallb (fun b => negb (byte_eqb b x0a)) s = true) ->
  string_ (mkIn (ml_literal_token nl s ++ r) p d) = Ok s (after (ml_literal_token nl s) r p d).
Proof.
  intros Hok Hno Hu Hr Hnl. unfold string_.
  destruct (ml_basic_string_bt (ml_literal_token nl s ++ r) p d eq_refl) as [e1 [i1 H1]]. rewrite (alt_bt _ _ _ _ _ H1).
  destruct (basic_string_bt (ml_literal_token nl s ++ r) p d eq_refl) as [e2 [i2 H2]]. rewrite (alt_bt _ _ _ _ _ H2).
  apply alt_ok. apply ml_literal_string_rt; auto. apply no_quote_head_27. exact Hr.
Qed.

(* ---- the metrics license the styles -------------------------------------------------------------- *)
Lemma forallb_3 {A} (f1 f2 f3 g : A -> bool) l :
  (forall x, f1 x = true -> f2 x = true -> f3 x = true -> g x = true) ->
  forallb f1 l = true -> forallb f2 l = true -> forallb f3 l = true -> forallb g l = true.
Proof.
  intro H. induction l as [|x l IH]; [auto|]. cbn [forallb]. intros H1 H2 H3.
  apply andb_true_iff in H1 as [A1 B1]. apply andb_true_iff in H2 as [A2 B2]. apply andb_true_iff in H3 as [A3 B3].
  rewrite (H x A1 A2 A3), (IH B1 B2 B3). reflexivity.
Qed.

Lemma literal_class s :
  forallb (fun b => negb (needs_code b)) s = true ->
  forallb (fun b => negb (byte_eqb b x0a)) s = true ->
  forallb (fun b => negb (byte_eqb b x27)) s = true ->
  forallb (in_class LITERAL_CHAR) s = true.
Proof.
  apply forallb_3. intros b H1 H2 H3. unfold needs_code in H1. pose proof (b2n_lt b). byten. lia.
Qed.

Lemma ml_literal_class s :
  forallb (fun b => negb (needs_code b)) s = true -> forallb okb s = true.
Proof.
  apply forallb_impl. intros b H. unfold needs_code in H. unfold okb, cb. pose proof (b2n_lt b). byten. lia.
Qed.

Section Value.
  Variables (s : bytes) (m : vmetrics).
  Hypothesis Hm : vmetrics_of s = m.
  Hypothesis Hu : utf8_valid_b s = true.

  Lemma vm_nl : vm_newline m = false -> forallb (fun b => negb (byte_eqb b x0a)) s = true.
  Proof. apply (vm_of_newline s m Hm). Qed.

  Lemma rt_as_basic r p d : no_quote_head r ->
    string_ (mkIn (as_basic s m ++ r) p d) = Ok s (after (as_basic s m) r p d).
  Proof. intro Hr. unfold as_basic. rewrite wtv_basic. apply string_basic; assumption. Qed.

  Lemma rt_as_ml_basic r p d : no_quote_head r ->
    string_ (mkIn (as_ml_basic s m ++ r) p d) = Ok s (after (as_ml_basic s m) r p d).
  Proof. intro Hr. unfold as_ml_basic. rewrite wtv_ml_basic. apply string_ml_basic; auto. apply vm_nl. Qed.

  Lemma rt_as_literal t r p d : as_literal s m = Some t -> no_quote_head r ->
    string_ (mkIn (t ++ r) p d) = Ok s (after t r p d).
  Proof.
    unfold as_literal. intros H Hr.
    destruct (vm_escape_codes m) eqn:E1; [discriminate|].
    destruct (0 <? max_seq_single_quotes m)%N eqn:E2; [discriminate|].
    destruct (vm_newline m) eqn:E3; [discriminate|]. cbn [orb] in H. injection H as <-.
    rewrite wtv_literal. apply string_literal; auto.
    apply literal_class.
    - apply (vm_of_codes s m Hm E1).
    - apply (vm_of_newline s m Hm E3).
    - apply (vm_of_no_apos s m Hm E2).
  Qed.

  Lemma rt_as_ml_literal t r p d : as_ml_literal s m = Some t -> no_quote_head r ->
    string_ (mkIn (t ++ r) p d) = Ok s (after t r p d).
  Proof.
    unfold as_ml_literal. intros H Hr.
    destruct (vm_escape_codes m) eqn:E1; [discriminate|].
    destruct (2 <? max_seq_single_quotes m)%N eqn:E2; [discriminate|]. cbn [orb] in H. injection H as <-.
    rewrite wtv_ml_literal. apply string_ml_literal; auto.
    - apply ml_literal_class. apply (vm_of_codes s m Hm E1).
    - apply (vm_of_no3 s m Hm E2).
    - apply vm_nl.
  Qed.

  Lemma rt_as_basic_pretty t r p d : as_basic_pretty s m = Some t -> no_quote_head r ->
    string_ (mkIn (t ++ r) p d) = Ok s (after t r p d).
  Proof.
    unfold as_basic_pretty. intros H Hr.
    destruct (vm_escape_codes m || vm_escape m || (0 <? max_seq_double_quotes m)%N || vm_newline m); [discriminate|].
    injection H as <-. apply rt_as_basic. exact Hr.
  Qed.

  Lemma rt_as_ml_basic_pretty t r p d : as_ml_basic_pretty s m = Some t -> no_quote_head r ->
    string_ (mkIn (t ++ r) p d) = Ok s (after t r p d).
  Proof.
    unfold as_ml_basic_pretty. intros H Hr.
    destruct (vm_escape_codes m || vm_escape m || (2 <? max_seq_double_quotes m)%N); [discriminate|].
    injection H as <-. apply rt_as_ml_basic. exact Hr.
  Qed.

  Lemma rt_as_default r p d : no_quote_head r ->
    string_ (mkIn (as_default s m ++ r) p d) = Ok s (after (as_default s m) r p d).
  Proof.
    intro Hr. unfold as_default, or_else.
    destruct (as_basic_pretty s m) as [t|] eqn:E1; [apply rt_as_basic_pretty; assumption|].
    destruct (as_literal s m) as [t|] eqn:E2; [apply rt_as_literal; assumption|].
    destruct (as_ml_basic_pretty s m) as [t|] eqn:E3; [apply rt_as_ml_basic_pretty; assumption|].
    destruct (as_ml_literal s m) as [t|] eqn:E4; [apply rt_as_ml_literal; assumption|].
    destruct (vm_newline m); [apply rt_as_ml_basic|apply rt_as_basic]; exact Hr.
  Qed.

  Lemma rt_write_string_m st t r p d : write_string_m st s m = Some t -> no_quote_head r ->
    string_ (mkIn (t ++ r) p d) = Ok s (after t r p d).
  Proof.
    intros H Hr. destruct st; cbn [write_string_m] in H.
    - injection H as <-. apply rt_as_default. exact Hr.
    - apply rt_as_literal; assumption.
    - apply rt_as_ml_literal; assumption.
    - apply rt_as_basic_pretty; assumption.
    - apply rt_as_ml_basic_pretty; assumption.
    - injection H as <-. apply rt_as_basic. exact Hr.
    - injection H as <-. apply rt_as_ml_basic. exact Hr.
  Qed.
End Value.

(* every value style, in front of any continuation that does not start with a quote character *)
Theorem value_styles_rt s st t r p d :
  utf8_valid_b s = true -> write_string st s = Some t -> no_quote_head r ->
  string_ (mkIn (t ++ r) p d) = Ok s (after t r p d).
Proof.
  intros Hu H Hr. unfold write_string in H.
  apply (rt_write_string_m s (vmetrics_of s) eq_refl Hu st); assumption.
Qed.

(* ---- value: the string token as a value ------------------------------------------------------------ *)
Definition quote_headed (t : bytes) : Prop :=
  exists b t', t = b :: t' /\ (byte_eqb b QUOTATION_MARK || byte_eqb b APOSTROPHE) = true.

Lemma quote_headed_token s m st t : write_string_m st s m = Some t -> quote_headed t.
Proof.
  assert (Hb : forall nl, quote_headed (write_toml_value s (Some BasicString) nl)).
  { intro nl. rewrite wtv_basic. unfold basic_token. do 2 eexists. split; reflexivity. }
  assert (Hmb : forall nl, quote_headed (write_toml_value s (Some MlBasicString) nl)).
  { intro nl. rewrite wtv_ml_basic. unfold ml_basic_token. cbn [app]. do 2 eexists. split; reflexivity. }
  assert (Hl : forall nl, quote_headed (write_toml_value s (Some LiteralString) nl)).
  { intro nl. rewrite wtv_literal. unfold literal_token. do 2 eexists. split; reflexivity. }
  assert (Hml : forall nl, quote_headed (write_toml_value s (Some MlLiteralString) nl)).
  { intro nl. rewrite wtv_ml_literal. unfold ml_literal_token. cbn [app]. do 2 eexists. split; reflexivity. }
  assert (H1 : forall t, as_literal s m = Some t -> quote_headed t).
  { intros t0. unfold as_literal. destruct (_ || _ || _); [discriminate|]. intro H. injection H as <-. apply Hl. }
  assert (H2 : forall t, as_ml_literal s m = Some t -> quote_headed t).
  { intros t0. unfold as_ml_literal. destruct (_ || _); [discriminate|]. intro H. injection H as <-. apply Hml. }
  assert (H3 : forall t, as_basic_pretty s m = Some t -> quote_headed t).
  { intros t0. unfold as_basic_pretty. destruct (_ || _ || _ || _); [discriminate|]. intro H. injection H as <-. apply Hb. }
  assert (H4 : forall t, as_ml_basic_pretty s m = Some t -> quote_headed t).
  { intros t0. unfold as_ml_basic_pretty. destruct (_ || _ || _); [discriminate|]. intro H. injection H as <-. apply Hmb. }
  destruct st; cbn [write_string_m]; intro H; auto.
  - injection H as <-. unfold as_default, or_else.
    destruct (as_basic_pretty s m) eqn:E1; [auto|]. destruct (as_literal s m) eqn:E2; [auto|].
    destruct (as_ml_basic_pretty s m) eqn:E3; [auto|]. destruct (as_ml_literal s m) eqn:E4; [auto|].
    destruct (vm_newline m); [apply Hmb|apply Hb].
  - injection H as <-. apply Hb.
  - injection H as <-. apply Hmb.
Qed.

(* the value `value` builds for a string token spanning [p, p + |t|) *)
Definition string_value (s t : bytes) (p : N) : value :=
  VScalar (SString s) (Some (raw_with_span (p, (p + N.of_nat (length t))%N))) (decor_new REmpty REmpty).

Lemma value_of_string s t r p d : quote_headed t ->
  string_ (mkIn (t ++ r) p d) = Ok s (after t r p d) ->
  value_ (mkIn (t ++ r) p d) = Ok (string_value s t p) (after t r p d).
Proof.
  intros [b [t' [Ht Hb]]] Hs. unfold value_. cbn [rest]. cbn [value_f].
  unfold value_step, pmap, with_span, value_body.
  assert (Hp : context (peek any) (mkIn (t ++ r) p d) = Ok b (mkIn (t ++ r) p d)).
  { rewrite Ht. cbn [app]. apply context_ok. eapply peek_ok. apply any_cons. }
  rewrite (bind_ok _ _ _ _ _ Hp). rewrite Hb. cbv beta iota. rewrite (pmap_ok _ _ _ _ _ Hs). reflexivity.
Qed.

Lemma eof_nil p d : eof (mkIn [] p d) = Ok tt (mkIn [] p d).
Proof. reflexivity. Qed.

Lemma parse_all_ok {A} (p : parser A) t a :
  p (mkIn (t ++ []) 0%N 0) = Ok a (after t [] 0%N 0) -> parse_all p t = Done a.
Proof.
  intro H. unfold parse_all, new_input. rewrite app_nil_r in H.
  rewrite (bind_ok _ _ _ _ _ H). unfold after. rewrite (bind_ok _ _ _ _ _ (eof_nil _ _)). reflexivity.
Qed.

(* the same through terminated(p, end_of_input), the form of the stand-alone entry points *)
Lemma parse_all_eoi_ok_after {A} (p : parser A) t a :
  p (mkIn (t ++ []) 0%N 0) = Ok a (after t [] 0%N 0) -> parse_all (terminated_eoi p) t = Done a.
Proof. intro H. apply parse_all_eoi_done. apply parse_all_ok. exact H. Qed.

Theorem value_styles_parse s st t :
  utf8_valid_b s = true -> write_string st s = Some t ->
  string_ (new_input t) = Ok s (mkIn [] (N.of_nat (length t)) 0) /\
  parse_value_raw t = POk (string_value s t 0).
Proof.
  intros Hu H.
  pose proof (value_styles_rt s st t [] 0%N 0 Hu H I) as Hs.
  split.
  - unfold new_input. rewrite app_nil_r in Hs. rewrite Hs. unfold after. rewrite N.add_0_l. reflexivity.
  - unfold parse_value_raw. rewrite (parse_all_eoi_ok_after value_ t (string_value s t 0)); [reflexivity|].
    apply value_of_string; [|exact Hs].
    unfold write_string in H.
    apply (quote_headed_token s (vmetrics_of s) st t H).
Qed.

(* ---- keys --------------------------------------------------------------------------------------- *)
Lemma forallb_2 {A} (f1 f2 g : A -> bool) l :
  (forall x, f1 x = true -> f2 x = true -> g x = true) ->
  forallb f1 l = true -> forallb f2 l = true -> forallb g l = true.
Proof.
  intro H. induction l as [|x l IH]; [auto|]. cbn [forallb]. intros H1 H2.
  apply andb_true_iff in H1 as [A1 B1]. apply andb_true_iff in H2 as [A2 B2].
  rewrite (H x A1 A2), (IH B1 B2). reflexivity.
Qed.

Lemma key_literal_class s :
  forallb (fun b => negb (key_needs_code b)) s = true ->
  forallb (fun b => negb (byte_eqb b x27)) s = true ->
  forallb (in_class LITERAL_CHAR) s = true.
Proof.
  apply forallb_2. intros b A1 A2. unfold key_needs_code in A1. pose proof (b2n_lt b). byten. lia.
Qed.

Section Key.
  Variable s : bytes.
  Hypothesis Hu : utf8_valid_b s = true.

  Lemma rt_key_basic r p d :
    simple_key (mkIn (key_basic s ++ r) p d) = Ok (key_result (key_basic s) s p) (after (key_basic s) r p d).
  Proof. unfold key_basic. rewrite wtv_basic. apply simple_key_basic. exact Hu. Qed.

  Lemma rt_key_unquoted t r p d : key_unquoted s (kmetrics_of s) = Some t -> no_unquoted_head r ->
    simple_key (mkIn (t ++ r) p d) = Ok (key_result t s p) (after t r p d).
  Proof.
    unfold key_unquoted. intros H Hr. destruct (km_unquoted (kmetrics_of s)) eqn:E; [|discriminate].
    injection H as <-. rewrite wtv_bare.
    unfold kmetrics_of in E. apply (km_inv s) in E. cbn [km_unquoted] in E. destruct E as [E1 E2].
    apply simple_key_unquoted.
    - destruct s; [discriminate|discriminate].
    - apply (forallb_impl is_unquoted_byte); [|exact E2]. intros b Hb. rewrite <- unquoted_class. exact Hb.
    - exact Hu.
    - destruct r as [|b r]; [exact I|exact Hr].
  Qed.

  Lemma rt_key_literal t r p d : key_literal s (kmetrics_of s) = Some t ->
    simple_key (mkIn (t ++ r) p d) = Ok (key_result t s p) (after t r p d).
  Proof.
    unfold key_literal. intros H.
    destruct (km_escape_codes (kmetrics_of s)) eqn:E1; [discriminate|].
    destruct (km_single (kmetrics_of s)) eqn:E2; [discriminate|]. cbn [orb] in H. injection H as <-.
    rewrite wtv_literal. unfold kmetrics_of in E1, E2.
    apply (km_inv s) in E1. apply (km_inv s) in E2.
    apply simple_key_literal; [|exact Hu]. apply key_literal_class; tauto.
  Qed.

  Lemma rt_key_basic_pretty t r p d : key_basic_pretty s (kmetrics_of s) = Some t ->
    simple_key (mkIn (t ++ r) p d) = Ok (key_result t s p) (after t r p d).
  Proof.
    unfold key_basic_pretty. intros H. destruct (_ || _ || _); [discriminate|]. injection H as <-. apply rt_key_basic.
  Qed.
End Key.

(* every key style, in front of any continuation that does not extend a bare key *)
Theorem key_styles_rt s st t r p d :
  utf8_valid_b s = true -> write_key st s = Some t -> no_unquoted_head r ->
  simple_key (mkIn (t ++ r) p d) = Ok (key_result t s p) (after t r p d).
Proof.
  intros Hu H Hr. unfold write_key in H. destruct st.
  - injection H as <-. unfold or_else.
    destruct (key_unquoted s (kmetrics_of s)) as [t|] eqn:E1; [apply rt_key_unquoted; assumption|].
    destruct (key_basic_pretty s (kmetrics_of s)) as [t|] eqn:E2; [apply rt_key_basic_pretty; assumption|].
    destruct (key_literal s (kmetrics_of s)) as [t|] eqn:E3; [apply rt_key_literal; assumption|].
    apply rt_key_basic. exact Hu.
  - apply rt_key_unquoted; assumption.
  - apply rt_key_literal; assumption.
  - apply rt_key_basic_pretty; assumption.
  - injection H as <-. apply rt_key_basic. exact Hu.
Qed.

Theorem key_styles_parse s st t :
  utf8_valid_b s = true -> write_key st s = Some t ->
  simple_key (new_input t) = Ok (key_result t s 0) (mkIn [] (N.of_nat (length t)) 0) /\
  parse_key t = POk (key_result t s 0).
Proof.
  intros Hu H. pose proof (key_styles_rt s st t [] 0%N 0 Hu H I) as Hs. split.
  - unfold new_input. rewrite app_nil_r in Hs. rewrite Hs. unfold after. rewrite N.add_0_l. reflexivity.
  - unfold parse_key. rewrite (parse_all_eoi_ok_after simple_key t (key_result t s 0)); [reflexivity|exact Hs].
Qed.

(* ---- a default style always exists ---------------------------------------------------------------- *)
Theorem default_total s : write_string StDefault s <> None /\ write_key KDefault s <> None.
Proof.
  split.
  - unfold write_string. discriminate.
  - discriminate.
Qed.

(* ---- the u8 run counters saturate at 255 (before repo commit 245f548 they overflowed: a panic in a
   build with overflow checks) ---------------------------------------------------------------------- *)
Theorem counters_saturate : forall cur hit, (cur <= 255)%N -> (qnext cur hit <= 255)%N.
Proof. intros cur hit H. unfold qnext. destruct hit; [|lia]. destruct (cur =? 255)%N eqn:E; lia. Qed.
Theorem saturation_witness :
  max_seq_single_quotes (vmetrics_of (repeat x27 256)) = 255%N /\ max_seq_single_quotes (vmetrics_of (repeat x27 300)) = 255%N.
Proof. vm_compute. auto. Qed.
