(* Proofs/RoutesDecode.v — C13: all decoding routes, as functions of the tree the text parses to,
   return equal values whenever they succeed. *)
From TV Require Import Base.Prelude Spec.SerdeData Model.Ser Model.De Model.SerdeRoutes
  Proofs.SerdeRTBase Proofs.RoutesConv Proofs.RoutesTwins Proofs.RoutesTop.
From Coq Require Import Permutation.

Section SvalInd.
  Variable P : sval -> Prop.
  Hypothesis HBool : forall b, P (SBool b).
  Hypothesis HInt : forall z, P (SInt z).
  Hypothesis HF64 : forall b, P (SF64 b).
  Hypothesis HF32 : forall b, P (SF32 b).
  Hypothesis HChar : forall c, P (SChar c).
  Hypothesis HStr : forall s, P (SStr s).
  Hypothesis HDt : forall d, P (SDt d).
  Hypothesis HUnit : P SUnit.
  Hypothesis HNone : P SNone.
  Hypothesis HSome : forall v, P v -> P (SSome v).
  Hypothesis HSeq : forall vs, Forall P vs -> P (SSeq vs).
  Hypothesis HMap : forall es, Forall (fun kv => P (fst kv) /\ P (snd kv)) es -> P (SMap es).
  Hypothesis HRec : forall vs, Forall P vs -> P (SRec vs).
  Hypothesis HNewtype : forall v, P v -> P (SNewtype v).
  Hypothesis HVariant : forall i p, P p -> P (SVariant i p).
  Fixpoint sval_ind2 (v : sval) : P v :=
    match v with
    | SBool b => HBool b | SInt z => HInt z | SF64 b => HF64 b | SF32 b => HF32 b | SChar c => HChar c
    | SStr s => HStr s | SDt d => HDt d | SUnit => HUnit | SNone => HNone
    | SSome v' => HSome v' (sval_ind2 v')
    | SSeq vs => HSeq vs ((fix go (l : list sval) : Forall P l :=
                             match l with [] => Forall_nil _ | x :: l' => Forall_cons x (sval_ind2 x) (go l') end) vs)
    | SMap es => HMap es ((fix go (l : list (sval * sval)) : Forall (fun kv => P (fst kv) /\ P (snd kv)) l :=
                             match l with
                             | [] => Forall_nil _
                             | x :: l' => Forall_cons x (match x return P (fst x) /\ P (snd x) with (a, b) => conj (sval_ind2 a) (sval_ind2 b) end) (go l')
                             end) es)
    | SRec vs => HRec vs ((fix go (l : list sval) : Forall P l :=
                             match l with [] => Forall_nil _ | x :: l' => Forall_cons x (sval_ind2 x) (go l') end) vs)
    | SNewtype v' => HNewtype v' (sval_ind2 v')
    | SVariant i p => HVariant i p (sval_ind2 p)
    end.
End SvalInd.

Lemma Forall2_refl_Forall {A} (R : A -> A -> Prop) l : Forall (fun a => R a a) l -> Forall2 R l l.
Proof. induction 1; constructor; assumption. Qed.

Lemma sval_eq_refl v : sval_eq v v.
Proof.
  induction v using sval_ind2; try (constructor; fail).
  - constructor. left; reflexivity.
  - constructor. left; reflexivity.
  - constructor. exact IHv.
  - constructor. apply Forall2_refl_Forall. exact H.
  - apply (eq_map es es es); [apply Permutation_refl|]. apply Forall2_refl_Forall. exact H.
  - constructor. apply Forall2_refl_Forall. exact H.
  - constructor. exact IHv.
  - constructor. exact IHv.
Qed.

Definition value_family (r : dec_route) : bool := negb (edit_family r).
Definition uses_table_route (r : dec_route) : bool := match r with R_ttab => true | _ => false end.

Lemma decode_value r t x : value_family r = true -> (uses_table_route r = true -> plain_root x = true) ->
  decode r t x = rbind (to_toml_value x) (tv_de t).
Proof.
  destruct r; try discriminate; intros _ Hp; try reflexivity.
  simpl. rewrite (plain_root_same x (Hp eq_refl)). reflexivity.
Qed.

(* all decoding routes agree *)
Theorem decode_routes_agree t x r1 r2 v1 v2 : twin_ty t = true ->
  (uses_table_route r1 = true \/ uses_table_route r2 = true -> plain_root x = true) ->
  decode r1 t x = Ok v1 -> decode r2 t x = Ok v2 -> sval_eq v1 v2 \/ sval_eq v2 v1.
Proof.
  intros Htw Hp D1 D2.
  destruct (edit_family r1) eqn:E1; destruct (edit_family r2) eqn:E2.
  - rewrite (decode_edit r1 t x E1) in D1. rewrite (decode_edit r2 t x E2) in D2.
    left. assert (v1 = v2) by congruence. subst. apply sval_eq_refl.
  - rewrite (decode_edit r1 t x E1) in D1.
    rewrite (decode_value r2 t x) in D2; [|unfold value_family; rewrite E2; reflexivity|intro U; apply Hp; right; exact U].
    apply rbind_ok in D2 as (y & C & D2). left. apply (twins_agree t Htw x y v1 v2 C D1 D2).
  - rewrite (decode_edit r2 t x E2) in D2.
    rewrite (decode_value r1 t x) in D1; [|unfold value_family; rewrite E1; reflexivity|intro U; apply Hp; left; exact U].
    apply rbind_ok in D1 as (y & C & D1). right. apply (twins_agree t Htw x y v2 v1 C D2 D1).
  - rewrite (decode_value r1 t x) in D1; [|unfold value_family; rewrite E1; reflexivity|intro U; apply Hp; left; exact U].
    rewrite (decode_value r2 t x) in D2; [|unfold value_family; rewrite E2; reflexivity|intro U; apply Hp; right; exact U].
    left. assert (v1 = v2) by congruence. subst. apply sval_eq_refl.
Qed.
