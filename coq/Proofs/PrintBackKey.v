(* Proofs/PrintBackKey.v — C03 tiling for keys (key.rs `key`): the decor and reprs recorded for a
   key path, printed by encode_key_path, are exactly the text `key` consumed — blanks before the
   first key, around every dot and after the last key included. *)
From TV Require Import Base.Prelude Base.Utf8 Base.Winnow Gen.Consts Spec.Abnf Spec.Lex Spec.Syntax.
From TV Require Import Model.Trivia Model.Strings Model.Datetime Model.Numbers Model.Tree Model.Parse Model.Document Model.Write Model.Encode.
From TV Require Import Proofs.LexEquivBase Proofs.LexEquivTrivia Proofs.LexEquivStrings Proofs.GrammarSep Proofs.LexEquivKey
                       Proofs.GrammarValueSound Proofs.TilingDefs Proofs.PrintBackBase Proofs.PrintBackEnc.
Require Import Lia ZifyBool ZifyN ZifyNat.

Lemma ncr_ws w : ws_tok w -> ncr w = w.
Proof.
  unfold ws_tok, all, ncr. induction w as [|b w IH]; [reflexivity|]. cbn [forallb filter]. intro H.
  apply andb_true_iff in H as [Hb Hw]. assert (E : byte_eqb b x0d = false) by (revert Hb; cls; lia).
  rewrite E. cbn [negb]. rewrite (IH Hw). reflexivity.
Qed.

Lemma ncr_app a b : ncr (a ++ b) = ncr a ++ ncr b.
Proof. apply filter_app. Qed.

(* one part of a key path as key_part builds it: blanks, key text, blanks *)
Definition kpart (s : bytes) (a : key) (w0 t w : bytes) : Prop :=
  k_leaf a = decor_default /\
  exists r p q, k_repr a = Some r /\ k_dotted a = decor_new p q
    /\ repr_str (toraw s (Some r)) = Some t
    /\ (forall d, raw_encode (traw s p) d = w0) /\ (forall d, raw_encode (traw s q) d = w).

Lemma key_part_render s i a i1 : isrc s i -> key_part i = Ok a i1 ->
  exists w0 t w, ws_tok w0 /\ simple_key_tok t (k_key a) /\ ws_tok w /\ splits i (w0 ++ t ++ w) i1
                 /\ kpart s a w0 t w /\ isrc s i1.
Proof.
  unfold key_part. intros Hi H.
  apply bind_inv in H as (pre & j1 & H1 & H). pose proof H1 as H1'. apply span_inv in H1 as (w0 & H1 & Epre).
  apply ws_sound in H1 as (Hw0 & S1 & _).
  apply bind_inv in H as ([rw k] & j2 & H2 & H). apply simple_key_sound in H2 as (t & Ht & S2 & Erw).
  apply bind_inv in H as (suf & j3 & H3 & H). apply span_inv in H3 as (w & H3 & Esuf).
  apply ws_sound in H3 as (Hw & S3 & _). apply ret_inv in H as [-> ->].
  destruct (isrc_splits s i w0 j1 Hi S1) as [Hi1 _]. destruct (isrc_splits s j1 t j2 Hi1 S2) as [Hi2 _].
  destruct (isrc_splits s j2 w j3 Hi2 S3) as [Hi3 _].
  exists w0, t, w. cbn [k_key]. split; [exact Hw0|]. split; [exact Ht|]. split; [exact Hw|].
  split; [exact (splits_trans _ _ _ _ _ S1 (splits_trans _ _ _ _ _ S2 S3))|]. split; [|exact Hi3].
  split; [reflexivity|]. exists rw, (raw_with_span pre), (raw_with_span suf). cbn [k_repr k_dotted].
  split; [reflexivity|]. split; [reflexivity|]. subst rw pre suf. split; [apply (span_repr s j1 t j2 Hi1 S2)|]. split; intro d.
  - rewrite (span_prints s i w0 j1 d Hi S1). apply ncr_ws, Hw0.
  - rewrite (span_prints s j2 w j3 d Hi2 S3). apply ncr_ws, Hw.
Qed.

(* the text of a list of parts: the first one bare, the others behind a dot *)
Definition part_text (x : bytes * bytes * bytes) : bytes := fst (fst x) ++ snd (fst x) ++ snd x.
Definition dotted_text (l : list (bytes * bytes * bytes)) : bytes := flat_map (fun x => [x2e] ++ part_text x) l.
Definition path_text (l : list (bytes * bytes * bytes)) : bytes :=
  match l with [] => [] | x :: tl => part_text x ++ dotted_text tl end.

Definition kparts (s : bytes) : list key -> list (bytes * bytes * bytes) -> Prop :=
  Forall2 (fun a x => kpart s a (fst (fst x)) (snd (fst x)) (snd x)).

Lemma key_seps_render s i l i' : isrc s i -> seps key_part dot_sep i l i' ->
  exists xs, kparts s l xs /\ splits i (dotted_text xs) i' /\ isrc s i'
             /\ Forall2 (fun a x => simple_key_tok (snd (fst x)) (k_key a) /\ ws_tok (fst (fst x)) /\ ws_tok (snd x)) l xs.
Proof.
  intros Hi R. induction R as [i F|i x i1 E Hlt F|i x i1 a i2 l i3 E Hlt E2 Hle R IH].
  - exists []. split; [constructor|]. split; [apply splits_nil|]. split; [exact Hi|constructor].
  - exists []. split; [constructor|]. split; [apply splits_nil|]. split; [exact Hi|constructor].
  - apply byte_inv in E as [_ S1]. destruct (isrc_splits s i [x2e] i1 Hi S1) as [Hi1 _].
    destruct (key_part_render s i1 a i2 Hi1 E2) as (w0 & t & w & Hw0 & Ht & Hw & S2 & Hk & Hi2).
    destruct (IH Hi2) as (xs & Hxs & S3 & Hi3 & Hg).
    exists ((w0, t, w) :: xs). split; [constructor; [exact Hk|exact Hxs]|]. split; [|split; [exact Hi3|constructor; auto]].
    cbn [dotted_text flat_map]. unfold part_text at 1. cbn [fst snd].
    pose proof (splits_trans _ _ _ _ _ S1 (splits_trans _ _ _ _ _ S2 S3)) as S. rewrite <- !app_assoc in *. exact S.
Qed.

(* ---- encode_key_path on what fix_key_path returns ----------------------------------------------------- *)
Lemma tkey_fields s a : tkey s a = mkKey (k_key a) (toraw s (k_repr a)) (tdecor s (k_leaf a)) (tdecor s (k_dotted a)).
Proof. reflexivity. Qed.

Lemma loop_mid s leaf dflt init xs rest_ :
  kparts s init xs -> rest_ <> [] ->
  encode_key_path_loop leaf dflt false (map (tkey s) init ++ rest_) = dotted_text xs ++ encode_key_path_loop leaf dflt false rest_.
Proof.
  intros H Hne. induction H as [|a x init xs (_ & r & p & q & Er & Ed & Hr & Hp & Hq) _ IH]; [reflexivity|].
  cbn [map app encode_key_path_loop].
  assert (Hl : match map (tkey s) init ++ rest_ with [] => true | _ => false end = false).
  { destruct (map (tkey s) init); [destruct rest_; [congruence|reflexivity]|reflexivity]. }
  rewrite Hl. rewrite IH. cbn [dotted_text flat_map]. unfold part_text at 1.
  unfold key_display_repr, decor_prefix, decor_suffix. rewrite tkey_fields. cbn [k_repr k_dotted]. rewrite Er, Ed. cbn [tdecor decor_new d_prefix d_suffix toraw].
  cbn [toraw] in Hr. rewrite Hr, Hp, Hq. rewrite <- !app_assoc. reflexivity.
Qed.

Lemma fix_key_path_render s path xs p dflt :
  kparts s path xs -> fix_key_path path = Some p -> encode_key_path (map (tkey s) p) dflt = path_text xs.
Proof.
  intros Hk Hf. destruct Hk as [|first x tl xs (_ & r1 & p1 & q1 & Er1 & Ed1 & Hr1 & Hp1 & Hq1) Htl]; [discriminate|].
  unfold fix_key_path in Hf. rewrite Ed1 in Hf. cbn [decor_new d_prefix] in Hf.
  set (first' := set_dotted_prefix first REmpty) in *.
  destruct tl as [|y tl0].
  - (* a single key *)
    inversion Htl; subst. cbn [rev app] in Hf. unfold first' in Hf. cbn [set_dotted_prefix k_dotted d_suffix] in Hf.
    rewrite Ed1 in Hf. cbn [decor_new d_suffix] in Hf. injection Hf as <-.
    cbn [map rev app]. unfold encode_key_path. cbn [rev app map encode_key_path_loop].
    unfold key_display_repr, decor_prefix, decor_suffix. rewrite !tkey_fields.
    cbn [set_leaf set_dotted_suffix set_dotted_prefix k_key k_repr k_leaf k_dotted tdecor decor_new d_prefix d_suffix toraw].
    rewrite Er1. cbn [toraw] in *. rewrite Hr1, Hp1, Hq1. unfold path_text, part_text. cbn [dotted_text flat_map fst snd]. rewrite !app_nil_r. reflexivity.
  - (* several keys: tl = init ++ [last] *)
    destruct (exists_last (l := y :: tl0) ltac:(discriminate)) as (init & last & Etl). rewrite Etl in *.
    apply Forall2_app_inv_l in Htl as (xi & xl & Hinit & Hlast & ->).
    inversion Hlast as [|? xlast ? ? (_ & rn & pn & qn & Ern & Edn & Hrn & Hpn & Hqn) Hnil]; subst. inversion Hnil; subst.
    change (first' :: init ++ [last]) with ((first' :: init) ++ [last]) in Hf. rewrite rev_app_distr in Hf. cbn [rev app] in Hf.
    rewrite Edn in Hf. cbn [decor_new d_suffix] in Hf. injection Hf as <-.
    rewrite rev_app_distr. cbn [rev app]. rewrite rev_involutive.
    set (last'' := set_leaf (set_dotted_suffix last REmpty) (decor_new p1 qn)).
    cbn [app map]. rewrite map_app. cbn [map]. unfold encode_key_path.
    change (tkey s first' :: map (tkey s) init ++ [tkey s last'']) with ((tkey s first' :: map (tkey s) init) ++ [tkey s last'']).
    rewrite rev_app_distr. cbn [rev app]. cbn [encode_key_path_loop].
    assert (Hl : match map (tkey s) init ++ [tkey s last''] with [] => true | _ => false end = false)
      by (destruct (map (tkey s) init); reflexivity).
    rewrite Hl. rewrite (loop_mid s _ dflt init xi [tkey s last''] Hinit ltac:(discriminate)).
    cbn [encode_key_path_loop]. unfold key_display_repr, decor_prefix, decor_suffix. rewrite !tkey_fields. unfold last'', first'.
    cbn [set_leaf set_dotted_suffix set_dotted_prefix k_key k_repr k_leaf k_dotted tdecor decor_new d_prefix d_suffix toraw].
    rewrite Er1, Ern, Ed1, Edn. cbn [decor_new d_prefix d_suffix toraw tdecor] in *. rewrite Hr1, Hrn, Hp1, Hq1, Hpn, Hqn.
    unfold path_text. unfold dotted_text. rewrite flat_map_app. cbn [flat_map]. unfold part_text. cbn [fst snd].
    rewrite <- !app_assoc. rewrite !app_nil_r. reflexivity.
Qed.

(* ---- key ---------------------------------------------------------------------------------------------- *)
Theorem key_render s i kp i' : isrc s i -> key_ i = Ok kp i' ->
  exists w1 t w2, ws_tok w1 /\ key_tok t (map k_key kp) /\ ws_tok w2 /\ splits i (w1 ++ t ++ w2) i' /\ isrc s i'
                  /\ (forall dflt, encode_key_path (map (tkey s) kp) dflt = w1 ++ t ++ w2).
Proof.
  intros Hi H. rewrite key_unfold in H. apply bind_inv in H as (path & j & H1 & H).
  apply try_map_inv in H1 as (path0 & H1 & Hc). unfold key_check in Hc.
  destruct (check_depth (length path0)); [discriminate|]. injection Hc as ->.
  apply context_inv in H1. apply (separated1_inv _ _ _ _ _ key_part_shrinking dot_sep_shrinking) in H1 as (a & i1 & l & -> & Ea & R).
  destruct (fix_key_path (a :: l)) as [p|] eqn:Ef; [|discriminate]. apply ret_inv in H as [-> ->].
  destruct (key_part_render s i a i1 Hi Ea) as (w0 & t & w & Hw0 & Ht & Hw & S1 & Hk & Hi1).
  destruct (key_seps_render s i1 l j Hi1 R) as (xs & Hxs & S2 & Hj & Hg).
  pose proof (fix_key_path_keys _ _ Ef) as Hkeys.
  assert (Henc : forall dflt, encode_key_path (map (tkey s) p) dflt = path_text ((w0, t, w) :: xs)).
  { intro dflt. apply (fix_key_path_render s (a :: l) ((w0, t, w) :: xs) p dflt); [constructor; assumption|exact Ef]. }
  (* regroup the blanks: w0 (t w . w' t' ...) w_last *)
  assert (G : forall t0 k0 w0' xs0 l0, simple_key_tok t0 k0 -> ws_tok w0' ->
            Forall2 (fun a x => simple_key_tok (snd (fst x)) (k_key a) /\ ws_tok (fst (fst x)) /\ ws_tok (snd x)) l0 xs0 ->
            exists kt wl, key_tok kt (k0 :: map k_key l0) /\ ws_tok wl /\ t0 ++ w0' ++ dotted_text xs0 = kt ++ wl).
  { intros t0 k0 w0' xs0 l0 Hs0 Hw0' HF. revert t0 k0 w0' Hs0 Hw0'.
    induction HF as [|a0 x0 l0 xs0 (Hs & Hwa & Hwb) _ IH]; intros t0 k0 w0' Hs0 Hw0'.
    - exists t0, w0'. split; [apply key_one; assumption|]. split; [assumption|]. cbn [dotted_text flat_map]. rewrite app_nil_r. reflexivity.
    - destruct x0 as [[wa ta] wb]. cbn [fst snd] in *. destruct (IH ta (k_key a0) wb Hs Hwb) as (kt & wl & Hkt & Hwl & E).
      exists (t0 ++ w0' ++ [x2e] ++ wa ++ kt), wl. split; [cbn [map]; apply key_dot; assumption|]. split; [exact Hwl|].
      cbn [dotted_text flat_map]. unfold part_text at 1. cbn [fst snd]. fold (dotted_text xs0). rewrite <- !app_assoc.
      do 4 f_equal. exact E. }
  destruct (G t (k_key a) w xs l Ht Hw Hg) as (kt & wl & Hkt & Hwl & E).
  exists w0, kt, wl. split; [exact Hw0|]. split; [rewrite Hkeys; exact Hkt|]. split; [exact Hwl|].
  assert (Etext : path_text ((w0, t, w) :: xs) = w0 ++ kt ++ wl).
  { unfold path_text, part_text. cbn [fst snd]. rewrite <- !app_assoc. f_equal. exact E. }
  split; [|split; [exact Hj|intro dflt; rewrite Henc; exact Etext]].
  rewrite <- Etext. unfold path_text, part_text. cbn [fst snd]. exact (splits_trans _ _ _ _ _ S1 S2).
Qed.

(* ---- a plain (single) key, with the exact spans it records ------------------------------------------------ *)
Lemma key_part_exact i a i1 : key_part i = Ok a i1 ->
  exists j1 j2 w0 t w, ws_tok w0 /\ simple_key_tok t (k_key a) /\ ws_tok w
    /\ splits i w0 j1 /\ splits j1 t j2 /\ splits j2 w i1
    /\ a = mkKey (k_key a) (Some (raw_with_span (pos j1, pos j2))) decor_default
                 (decor_new (raw_with_span (pos i, pos j1)) (raw_with_span (pos j2, pos i1))).
Proof.
  unfold key_part. intro H.
  apply bind_inv in H as (pre & j1 & H1 & H). apply span_inv in H1 as (w0 & H1 & Epre). apply ws_sound in H1 as (Hw0 & S1 & _).
  apply bind_inv in H as ([rw k] & j2 & H2 & H). apply simple_key_sound in H2 as (t & Ht & S2 & Erw).
  apply bind_inv in H as (suf & j3 & H3 & H). apply span_inv in H3 as (w & H3 & Esuf). apply ws_sound in H3 as (Hw & S3 & _).
  apply ret_inv in H as [-> ->]. exists j1, j2, w0, t, w. cbn [k_key]. subst. auto 10.
Qed.

Lemma key_single s i kp i' : isrc s i -> key_ i = Ok kp i' -> length kp = 1 ->
  exists j1 j2 w0 kt w1 k,
    kp = [k] /\ ws_tok w0 /\ simple_key_tok kt (k_key k) /\ ws_tok w1
    /\ splits i w0 j1 /\ splits j1 kt j2 /\ splits j2 w1 i'
    /\ k_repr k = Some (raw_with_span (pos j1, pos j2))
    /\ k_leaf k = decor_new (raw_with_span (pos i, pos j1)) (raw_with_span (pos j2, pos i')).
Proof.
  intros Hi H Hlen. rewrite key_unfold in H. apply bind_inv in H as (path & j & H1 & H).
  apply try_map_inv in H1 as (path0 & H1 & Hc). unfold key_check in Hc.
  destruct (check_depth (length path0)); [discriminate|]. injection Hc as ->.
  apply context_inv in H1. apply (separated1_inv _ _ _ _ _ key_part_shrinking dot_sep_shrinking) in H1 as (a & i1 & l & -> & Ea & R).
  destruct (fix_key_path (a :: l)) as [p|] eqn:Ef; [|discriminate]. apply ret_inv in H as [-> ->].
  pose proof (fix_key_path_keys _ _ Ef) as Hk. apply (f_equal (@length bytes)) in Hk. rewrite !map_length, Hlen in Hk.
  destruct l; [|discriminate Hk]. inversion R as [i0 F|i0 x0 i2 E0 Hlt F|]; subst; clear R.
  - destruct (key_part_exact i a j Ea) as (j1 & j2 & w0 & t & w & Hw0 & Ht & Hw & S1 & S2 & S3 & Ea').
    unfold fix_key_path in Ef. rewrite Ea' in Ef. cbn in Ef. injection Ef as <-.
    exists j1, j2, w0, t, w. eexists. split; [reflexivity|]. cbn [k_key k_repr k_leaf set_leaf]. auto 10.
  - destruct (key_part_exact i a j Ea) as (j1 & j2 & w0 & t & w & Hw0 & Ht & Hw & S1 & S2 & S3 & Ea').
    unfold fix_key_path in Ef. rewrite Ea' in Ef. cbn in Ef. injection Ef as <-.
    exists j1, j2, w0, t, w. eexists. split; [reflexivity|]. cbn [k_key k_repr k_leaf set_leaf]. auto 10.
Qed.
