(* Proofs/SerdeRTRoutes.v — C07: the statement of DESIGN.md 6/C07 over the routes, assembled from
   Proofs/SerdeRTRoot.v (document routes) and Proofs/SerdeRTTv.v (try_from routes). *)
From TV Require Import Base.Prelude Spec.SerdeData Model.Ser Model.De
  Proofs.SerdeRTBase Proofs.SerdeRT Proofs.SerdeRTErr Proofs.SerdeRTRoot Proofs.SerdeRTTv.

Inductive route : Set :=
| EditPlain | EditPretty | ToDocument      (* toml_edit::ser::{to_string, to_string_pretty, to_document} *)
| TomlPlain | TomlPretty                   (* toml::{to_string, to_string_pretty} *)
| ValueTryFrom | TableTryFrom.             (* toml::Value::try_from, toml::Table::try_from *)

Definition ser_route (r : route) : ty -> sval -> result tomlval :=
  match r with
  | EditPlain | EditPretty | ToDocument => ser_edit_root
  | TomlPlain | TomlPretty => ser_toml_root
  | ValueTryFrom => tv_ser
  | TableTryFrom => tv_ser_table
  end.
Definition de_route (r : route) : ty -> tomlval -> result sval :=
  match r with
  | ValueTryFrom | TableTryFrom => tv_de        (* Value::try_into / Table::try_into *)
  | _ => de_value                               (* from_str / from_document of either crate *)
  end.
Definition doc_route (r : route) : bool :=
  match r with ValueTryFrom | TableTryFrom => false | _ => true end.
Definition root_ok (r : route) (t : ty) (v : sval) : bool :=
  match r with
  | EditPlain | EditPretty | ToDocument => table_shaped t v
  | TomlPlain | TomlPretty => toml_root_shaped t v
  | ValueTryFrom | TableTryFrom => true
  end.

(* the documented reasons for an error on a document route *)
Definition documented (r : route) (t : ty) (v : sval) (e : err) : Prop :=
  unsupported CElem t v e
  \/ (e = EUnsupportedType None /\ root_ok r t v = false)
  \/ ((r = TomlPlain \/ r = TomlPretty) /\ exists n, e = EUnsupportedType (Some n) /\ root_struct_variant t v n).

Theorem roundtrip_doc_routes r t v : doc_route r = true -> has_type v t ->
  match ser_route r t v with
  | Err e => documented r t v e
  | Ok out => exists v', de_route r t out = Ok v' /\ sval_eq v v'
  end.
Proof.
  intros Hr Hty. destruct r; try discriminate Hr; simpl ser_route; simpl de_route.
  1-3: destruct (ser_edit_root t v) as [out|e] eqn:E;
       [apply (edit_root_roundtrip t v out Hty E)
       |destruct (edit_root_errors t v e Hty E) as [U|[-> S]]; [left; exact U|right; left; split; [reflexivity|exact S]]].
  1-2: destruct (ser_toml_root t v) as [out|e] eqn:E;
       [apply (toml_root_roundtrip t v out Hty E)
       |destruct (toml_root_errors t v e Hty E) as [U|[[-> S]|(n & -> & Hn)]];
         [left; exact U|right; left; split; [reflexivity|exact S]|right; right; split; [auto|exists n; auto]]].
Qed.

Theorem supported_doc_routes r t v : doc_route r = true -> has_type v t -> supported t v -> root_ok r t v = true ->
  exists out, ser_route r t v = Ok out.
Proof.
  intros Hr Hty Hs Hroot. destruct r; try discriminate Hr; simpl in *.
  1-3: apply edit_root_supported; assumption.
  1-2: apply toml_root_supported; assumption.
Qed.
