(* Proofs/EoiMsg.v — lemmas behind Props/C15.v, part 4: which errors of the three stand-alone
   entry points (parse_value_raw / parse_key / parse_key_path = Value::from_str, Key::from_str,
   Key::parse) can carry an empty message, now that they run `terminated(P, end_of_input)`.

   Before that change every input with something left over after a complete value / key was
   rejected with an empty message (Proofs/Eoi.v: parse_all_trailing); now that rejection has the
   context "end of input" (parse_all_eoi_trailing).  What remains:

     value     : exactly the known class of the document parser, a bare CR at the error offset or
                 right before it (array whitespace: `[ CR ]`), inherited from `value_`
                 (value_message, value_message_refuted)
     key path  : nothing; every error of `key` is below its .context(Label(key)) or is the
                 recursion-limit cause (key_path_message, no side condition)
     key       : nothing; `simple_key` carries .context(Label(key)) around its whole dispatch
                 (key_message, no side condition).  Before that context was added, peek(any) on the
                 empty input and take_while(1.., UNQUOTED_CHAR) on a first byte that starts no key
                 failed with the bare error: Key::from_str of the empty string and of `!` had an
                 EMPTY message (former finding C15-empty-message-key-start, repaired in
                 parser/key.rs; the former witnesses are kept as regression examples below). *)
From Coq Require Import List Bool Arith NArith Lia.
From Coq.Strings Require Import Byte.
From TV Require Import Base.Prelude Base.Utf8 Base.Winnow Gen.Consts.
From TV Require Import Model.Trivia Model.Strings Model.Datetime Model.Numbers Model.Tree Model.Parse Model.Document.
From TV Require Import Model.Error Spec.Position Proofs.ErrorPos Proofs.ErrorRange Proofs.ErrorMsg Proofs.Eoi.
Import ListNotations.

(* every error of `p` started on the particular input i is labelled (no bare-CR escape) *)
Definition lab0 {A} (p : parser A) (i : input) : Prop :=
  forall e i', (p i = Cut e i' \/ p i = Bt e i') -> labelled e.

(* ---- from the parser to the entry point ------------------------------------------------------------ *)
Lemma eoi_labelled {A} (p : parser A) s e at_ :
  lab0 p (new_input s) -> lift_outcome (parse_all (terminated_eoi p) s) = PErr e at_ -> labelled e.
Proof.
  intros Hl. rewrite parse_all_eoi_unfold.
  destruct (p (new_input s)) as [a i|e1 i|e1 i|st] eqn:E.
  - destruct (rest i); cbn [lift_outcome]; [discriminate|].
    intro H. injection H as <- _. right. reflexivity.
  - cbn [lift_outcome]. intro H. injection H as <- _. apply (Hl e1 i). right. exact E.
  - cbn [lift_outcome]. intro H. injection H as <- _. apply (Hl e1 i). left. exact E.
  - discriminate.
Qed.

Lemma eoi_good {A} (p : parser A) s e at_ :
  C s p -> B s p -> lift_outcome (parse_all (terminated_eoi p) s) = PErr e at_ ->
  labelled e \/ (exists a, at_ = Some a /\ bare_cr_near s a = true).
Proof.
  intros Hc Hb. rewrite parse_all_eoi_unfold.
  destruct (p (new_input s)) as [a i|e1 i|e1 i|st] eqn:E.
  - destruct (rest i); cbn [lift_outcome]; [discriminate|].
    intro H. injection H as <- _. left. right. reflexivity.
  - cbn [lift_outcome]. intro H. injection H as <- <-.
    destruct (Hb _ _ _ (wf_new_input s) E) as [L|R]; [left; exact L|right; eauto].
  - cbn [lift_outcome]. intro H. injection H as <- <-.
    destruct (Hc _ _ _ (wf_new_input s) E) as [L|R]; [left; exact L|right; eauto].
  - discriminate.
Qed.

(* ---- value ------------------------------------------------------------------------------------------- *)
Lemma value_message s e at_ :
  bare_cr_near_o s at_ = false -> parse_value_raw s = PErr e at_ -> e_cause e <> None \/ e_ctx e = true.
Proof.
  intros Hn H. unfold parse_value_raw in H.
  destruct (eoi_good value_ s e at_ (C_value s) (B_value s) H) as [L|(a & -> & Hb)]; [exact L|].
  cbn in Hn. congruence.
Qed.

(* the premise is needed: `[ CR ]` as a value (the CR is consumed by trivia.rs `newline`, the LF is
   missing; offset 2, right after the CR) *)
Lemma value_message_refuted :
  exists s e at_, parse_value_raw s = PErr e (Some at_) /\ e_cause e = None /\ e_ctx e = false
                  /\ bare_cr_near s at_ = true.
Proof. exists [x5b; x0d; x5d], err0, 2%N. vm_compute. auto. Qed.

(* ---- key path ---------------------------------------------------------------------------------------- *)
Lemma key_lab0 i : lab0 key_ i.
Proof.
  intros e i'. unfold key_, bind, try_map.
  destruct (context (separated1 key_part (byte_ DOT_SEP)) i) as [k i1|e1 i1|e1 i1|st] eqn:E.
  - destruct (check_depth (length k)).
    + intros [H|H]; [discriminate H|]. injection H as <- _. left. discriminate.
    + destruct (fix_key_path k); intros [H|H]; discriminate H.
  - intros [H|H]; [discriminate H|]. injection H as <- _. eapply context_err. right. exact E.
  - intros [H|H]; [|discriminate H]. injection H as <- _. eapply context_err. left. exact E.
  - intros [H|H]; discriminate H.
Qed.

Lemma key_path_message s e at_ :
  parse_key_path s = PErr e at_ -> e_cause e <> None \/ e_ctx e = true.
Proof. unfold parse_key_path. apply eoi_labelled, key_lab0. Qed.

(* ---- key --------------------------------------------------------------------------------------------- *)
(* every error of simple_key is the error of its `.context(Label("key"))` dispatch *)
Lemma simple_key_lab0 i : lab0 simple_key i.
Proof.
  intros e i'. unfold simple_key, pmap, with_span.
  match goal with |- context [context ?q i] => set (d := q) end.
  destruct (context d i) as [k i1|e1 i1|e1 i1|st] eqn:E.
  - intros [H|H]; discriminate H.
  - intros [H|H]; [discriminate H|]. injection H as <- _. eapply context_err. right. exact E.
  - intros [H|H]; [|discriminate H]. injection H as <- _. eapply context_err. left. exact E.
  - intros [H|H]; discriminate H.
Qed.

Lemma key_message s e at_ :
  parse_key s = PErr e at_ -> e_cause e <> None \/ e_ctx e = true.
Proof. unfold parse_key. apply eoi_labelled, simple_key_lab0. Qed.

(* the witnesses of the former finding: the empty input and `!` are still rejected at offset 0, now with
   the context *)
Lemma key_message_former_witnesses :
  parse_key [] = PErr (mkErr None true) (Some 0%N) /\ parse_key [x21] = PErr (mkErr None true) (Some 0%N)
  /\ parse_key [x0d] = PErr (mkErr None true) (Some 0%N).
Proof. vm_compute. repeat split. Qed.
