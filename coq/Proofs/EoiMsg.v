(* Proofs/EoiMsg.v — lemmas behind Props/C15.v, part 4: which errors of the three stand-alone
   entry points (parse_value_raw / parse_key / parse_key_path = Value::from_str, Key::from_str,
   Key::parse) can carry an empty message, now that they run `terminated(P, end_of_input)`.

   Before that change every input with something left over after a complete value / key was
   rejected with an empty message (Proofs/Eoi.v: parse_all_trailing); now that rejection has the
   context "end of input" (parse_all_eoi_trailing).  What remains:

     value     : exactly the known class of the document parser, a bare CR at the error offset or
                 right before it (array whitespace: `[ CR ]`), inherited from `value_`
                 (value_message, value_message_refuted)
     key path  : nothing; every error of `key` is below its .context(Label(key)) or is the
                 recursion-limit cause (key_path_message, no side condition)
     key       : a FINDING.  simple_key = dispatch!{peek(any); QUOTATION_MARK => basic_string,
                 APOSTROPHE => literal_string, _ => unquoted_key} has no context of its own, and
                 neither peek(any) (empty input) nor take_while(1.., UNQUOTED_CHAR) (first byte is
                 no key character) attaches one: Key::from_str of the empty string and of `!` are
                 rejected with an EMPTY message.  The side condition `key_head_b s = true` (the
                 input starts with a quotation mark, an apostrophe or an unquoted-key character) is
                 exact: under it every error is labelled (key_message), without it the input is
                 always rejected at offset 0 with the bare error (key_message_empty). *)
From Coq Require Import List Bool Arith NArith Lia.
From Coq.Strings Require Import Byte.
From TV Require Import Base.Prelude Base.Utf8 Base.Winnow Gen.Consts.
From TV Require Import Model.Trivia Model.Strings Model.Datetime Model.Numbers Model.Tree Model.Parse Model.Document.
From TV Require Import Model.Error Spec.Position Proofs.ErrorPos Proofs.ErrorRange Proofs.ErrorMsg Proofs.Eoi.
Import ListNotations.

(* every error of `p` started on the particular input i is labelled (no bare-CR escape) *)
Definition lab0 {A} (p : parser A) (i : input) : Prop :=
  forall e i', (p i = Cut e i' \/ p i = Bt e i') -> labelled e.

(* ---- from the parser to the entry point ------------------------------------------------------------ *)
Lemma eoi_labelled {A} (p : parser A) s e at_ :
  lab0 p (new_input s) -> lift_outcome (parse_all (terminated_eoi p) s) = PErr e at_ -> labelled e.
Proof.
  intros Hl. rewrite parse_all_eoi_unfold.
  destruct (p (new_input s)) as [a i|e1 i|e1 i|st] eqn:E.
  - destruct (rest i); cbn [lift_outcome]; [discriminate|].
    intro H. injection H as <- _. right. reflexivity.
  - cbn [lift_outcome]. intro H. injection H as <- _. apply (Hl e1 i). right. exact E.
  - cbn [lift_outcome]. intro H. injection H as <- _. apply (Hl e1 i). left. exact E.
  - discriminate.
Qed.

Lemma eoi_good {A} (p : parser A) s e at_ :
  C s p -> B s p -> lift_outcome (parse_all (terminated_eoi p) s) = PErr e at_ ->
  labelled e \/ (exists a, at_ = Some a /\ bare_cr_near s a = true).
Proof.
  intros Hc Hb. rewrite parse_all_eoi_unfold.
  destruct (p (new_input s)) as [a i|e1 i|e1 i|st] eqn:E.
  - destruct (rest i); cbn [lift_outcome]; [discriminate|].
    intro H. injection H as <- _. left. right. reflexivity.
  - cbn [lift_outcome]. intro H. injection H as <- <-.
    destruct (Hb _ _ _ (wf_new_input s) E) as [L|R]; [left; exact L|right; eauto].
  - cbn [lift_outcome]. intro H. injection H as <- <-.
    destruct (Hc _ _ _ (wf_new_input s) E) as [L|R]; [left; exact L|right; eauto].
  - discriminate.
Qed.

(* ---- value ------------------------------------------------------------------------------------------- *)
Lemma value_message s e at_ :
  bare_cr_near_o s at_ = false -> parse_value_raw s = PErr e at_ -> e_cause e <> None \/ e_ctx e = true.
Proof.
  intros Hn H. unfold parse_value_raw in H.
  destruct (eoi_good value_ s e at_ (C_value s) (B_value s) H) as [L|(a & -> & Hb)]; [exact L|].
  cbn in Hn. congruence.
Qed.

(* the premise is needed: `[ CR ]` as a value (the CR is consumed by trivia.rs `newline`, the LF is
   missing; offset 2, right after the CR) *)
Lemma value_message_refuted :
  exists s e at_, parse_value_raw s = PErr e (Some at_) /\ e_cause e = None /\ e_ctx e = false
                  /\ bare_cr_near s at_ = true.
Proof. exists [x5b; x0d; x5d], err0, 2%N. vm_compute. auto. Qed.

(* ---- key path ---------------------------------------------------------------------------------------- *)
Lemma key_lab0 i : lab0 key_ i.
Proof.
  intros e i'. unfold key_, bind, try_map.
  destruct (context (separated1 key_part (byte_ DOT_SEP)) i) as [k i1|e1 i1|e1 i1|st] eqn:E.
  - destruct (check_depth (length k)).
    + intros [H|H]; [discriminate H|]. injection H as <- _. left. discriminate.
    + destruct (fix_key_path k); intros [H|H]; discriminate H.
  - intros [H|H]; [discriminate H|]. injection H as <- _. eapply context_err. right. exact E.
  - intros [H|H]; [|discriminate H]. injection H as <- _. eapply context_err. left. exact E.
  - intros [H|H]; discriminate H.
Qed.

Lemma key_path_message s e at_ :
  parse_key_path s = PErr e at_ -> e_cause e <> None \/ e_ctx e = true.
Proof. unfold parse_key_path. apply eoi_labelled, key_lab0. Qed.

(* ---- key --------------------------------------------------------------------------------------------- *)
(* the first byte selects an arm of simple_key that can start on it *)
Definition key_head_b (s : bytes) : bool :=
  match s with
  | [] => false
  | b :: _ => byte_eqb b QUOTATION_MARK || byte_eqb b APOSTROPHE || in_class UNQUOTED_CHAR b
  end.

Lemma escape_seq_char_cut i e i' : escape_seq_char i = Cut e i' -> labelled e.
Proof.
  unfold escape_seq_char, bind. destruct (any i) as [b i1|e1 i1|e1 i1|st] eqn:Ea; try discriminate.
  - destruct (assoc_byte ESCAPE_SIMPLE b); [discriminate|].
    destruct (assoc_byte ESCAPE_HEX b); intro H; eapply context_err; left; exact H.
  - intros _. exfalso. exact (NC_any _ _ _ Ea).
Qed.

Lemma escaped_cut i e i' : escaped i = Cut e i' -> labelled e.
Proof.
  unfold escaped, preceded, bind. destruct (byte_ ESCAPE i) as [b i1|e1 i1|e1 i1|st] eqn:Eb; try discriminate.
  - apply escape_seq_char_cut.
  - intros _. exfalso. exact (NC_byte _ _ _ _ Eb).
Qed.

Lemma basic_chars_cut i e i' : basic_chars i = Cut e i' -> labelled e.
Proof.
  unfold basic_chars, alt.
  destruct (from_utf8 (take_while1 (in_class BASIC_UNESCAPED)) i) as [b i1|e1 i1|e1 i1|st] eqn:E1; try discriminate.
  - apply escaped_cut.
  - intros _. exfalso. revert E1. unfold from_utf8, try_map, take_while1, take_while_mn. cbv zeta.
    destruct (Nat.ltb _ 1); [discriminate|]. destruct (utf8_valid_b _); discriminate.
Qed.

Lemma chunks_f_cut fuel p :
  (forall i e i', p i = Cut e i' -> labelled e) ->
  forall acc i e i', chunks_f fuel p acc i = Cut e i' -> labelled e.
Proof.
  intros Hp. induction fuel as [|f IH]; intros acc i e i'; cbn [chunks_f]; [discriminate|].
  destruct (p i) as [c i1|e1 i1|e1 i1|st] eqn:E; try discriminate.
  - destruct (Nat.eqb _ _); [discriminate|]. apply IH.
  - intro H. injection H as <- _. eapply Hp. exact E.
Qed.

Lemma chunks_f_nbt fuel p : forall acc i e i', chunks_f fuel p acc i <> Bt e i'.
Proof.
  induction fuel as [|f IH]; intros acc i e i'; cbn [chunks_f]; [discriminate|].
  destruct (p i) as [c i1|e1 i1|e1 i1|st]; try discriminate.
  destruct (Nat.eqb _ _); [discriminate|]. apply IH.
Qed.

(* basic_string started on its quotation mark *)
Definition basic_string_tail : parser bytes :=
  c <- chunks basic_chars ;; context (cut_err (byte_ QUOTATION_MARK)) ;;; ret c.

Lemma basic_string_on_quote i r : rest i = QUOTATION_MARK :: r -> basic_string i = basic_string_tail (advance 1 i).
Proof. intro Hr. unfold basic_string. unfold bind at 1. rewrite (byte_head _ _ _ Hr). reflexivity. Qed.

Lemma basic_string_lab0 i r : rest i = QUOTATION_MARK :: r -> lab0 basic_string i.
Proof.
  intros Hr e i'. rewrite (basic_string_on_quote _ _ Hr). unfold basic_string_tail, bind, chunks.
  destruct (chunks_f (S (length (rest (advance 1 i)))) basic_chars [] (advance 1 i)) as [c i1|e1 i1|e1 i1|st] eqn:Ec.
  - destruct (context (cut_err (byte_ QUOTATION_MARK)) i1) as [q i2|e2 i2|e2 i2|st] eqn:Eq.
    + unfold ret. intros [H|H]; discriminate H.
    + intros [H|H]; [discriminate H|]. injection H as <- _. eapply context_err. right. exact Eq.
    + intros [H|H]; [|discriminate H]. injection H as <- _. eapply context_err. left. exact Eq.
    + intros [H|H]; discriminate H.
  - exfalso. exact (chunks_f_nbt _ _ _ _ _ _ Ec).
  - intros [H|H]; [|discriminate H]. injection H as <- _.
    eapply chunks_f_cut; [exact basic_chars_cut|exact Ec].
  - intros [H|H]; discriminate H.
Qed.

Lemma literal_string_lab0 i : lab0 literal_string i.
Proof. intros e i' H. unfold literal_string in H. eapply context_err. exact H. Qed.

(* unquoted_key started on one of its characters does not fail *)
Lemma unquoted_key_lab0 i b r : rest i = b :: r -> in_class UNQUOTED_CHAR b = true -> lab0 unquoted_key i.
Proof.
  intros Hr Hc e i'. unfold unquoted_key, unchecked_utf8, take_while1, take_while_mn. cbv zeta.
  rewrite Hr. cbn [span_while]. rewrite Hc.
  destruct (span_while (in_class UNQUOTED_CHAR) r) as [a r']. cbn [fst length Nat.ltb Nat.leb].
  destruct (utf8_valid_b (b :: a)); intros [H|H]; discriminate H.
Qed.

(* ... and on any other byte fails with the bare error, in place *)
Lemma unquoted_key_bare i b r : rest i = b :: r -> in_class UNQUOTED_CHAR b = false -> unquoted_key i = Bt err0 i.
Proof.
  intros Hr Hc. unfold unquoted_key, unchecked_utf8, take_while1, take_while_mn. cbv zeta.
  rewrite Hr. cbn [span_while]. rewrite Hc. reflexivity.
Qed.

Lemma peek_any_cons i b r : rest i = b :: r -> peek any i = Ok b i.
Proof. intro Hr. unfold peek, any. rewrite Hr. reflexivity. Qed.

Lemma simple_key_lab0 s : key_head_b s = true -> lab0 simple_key (new_input s).
Proof.
  destruct s as [|b r]; [discriminate|]. cbn [key_head_b]. intros Hh e i'.
  assert (Hr : rest (new_input (b :: r)) = b :: r) by reflexivity.
  set (i := new_input (b :: r)) in *.
  assert (Harm : lab0 (if byte_eqb b QUOTATION_MARK then basic_string
                       else if byte_eqb b APOSTROPHE then literal_string else unquoted_key) i).
  { destruct (byte_eqb b QUOTATION_MARK) eqn:E1.
    { apply byte_eqb_eq in E1. subst b. eapply basic_string_lab0. exact Hr. }
    destruct (byte_eqb b APOSTROPHE) eqn:E2; [apply literal_string_lab0|].
    cbn [orb] in Hh. eapply unquoted_key_lab0; [exact Hr|exact Hh]. }
  unfold simple_key, pmap, with_span, bind. rewrite (peek_any_cons _ _ _ Hr).
  destruct ((if byte_eqb b QUOTATION_MARK then basic_string
             else if byte_eqb b APOSTROPHE then literal_string else unquoted_key) i) as [k i1|e1 i1|e1 i1|st] eqn:Ea.
  - intros [H|H]; discriminate H.
  - intros [H|H]; [discriminate H|]. injection H as <- _. apply (Harm e1 i1). right. exact Ea.
  - intros [H|H]; [|discriminate H]. injection H as <- _. apply (Harm e1 i1). left. exact Ea.
  - intros [H|H]; discriminate H.
Qed.

Lemma key_message s e at_ :
  key_head_b s = true -> parse_key s = PErr e at_ -> e_cause e <> None \/ e_ctx e = true.
Proof. intro Hh. unfold parse_key. apply eoi_labelled, simple_key_lab0, Hh. Qed.

(* the side condition is exact: every other input is rejected at offset 0 with the bare error *)
Lemma key_message_empty s : key_head_b s = false -> parse_key s = PErr err0 (Some 0%N).
Proof.
  intro Hh. unfold parse_key.
  assert (E : simple_key (new_input s) = Bt err0 (new_input s)).
  { destruct s as [|b r].
    - reflexivity.
    - cbn [key_head_b] in Hh. apply orb_false_iff in Hh as [Hh H3]. apply orb_false_iff in Hh as [H1 H2].
      assert (Hr : rest (new_input (b :: r)) = b :: r) by reflexivity.
      unfold simple_key, pmap, with_span, bind. rewrite (peek_any_cons _ _ _ Hr), H1, H2.
      rewrite (unquoted_key_bare _ _ _ Hr H3). reflexivity. }
  rewrite (parse_all_eoi_bt _ _ _ _ E). reflexivity.
Qed.

(* the finding, as witnesses: the empty input, and `!` *)
Lemma key_message_refuted :
  exists s e at_, parse_key s = PErr e at_ /\ e_cause e = None /\ e_ctx e = false
                  /\ bare_cr_near_o s at_ = false.
Proof. exists [], err0, (Some 0%N). vm_compute. auto. Qed.

Lemma key_message_refuted_bang :
  exists s e at_, parse_key s = PErr e at_ /\ e_cause e = None /\ e_ctx e = false
                  /\ bare_cr_near_o s at_ = false /\ s <> [].
Proof. exists [x21], err0, (Some 0%N). vm_compute. repeat split; discriminate. Qed.
