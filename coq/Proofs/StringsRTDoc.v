(* Proofs/StringsRTDoc.v — the default key token, ` = `, the default value token and a newline
   form a document whose root table holds exactly that one entry. *)
From TV Require Import Base.Prelude Base.Utf8 Base.Winnow Gen.Consts.
From TV Require Import Model.Trivia Model.Strings Model.Tree Model.Parse Model.Document Model.Write.
From TV Require Import Proofs.StringsRTDefs Proofs.StringsRTBase Proofs.StringsRTWrite Proofs.StringsRTEsc.
From TV Require Import Proofs.StringsRTBasic Proofs.StringsRTQuotes Proofs.StringsRTMlLit Proofs.StringsRTMlBasic.
From TV Require Import Proofs.StringsRTTop.
Require Import Lia ZifyBool ZifyN ZifyNat.

(* ---- small parser facts -------------------------------------------------------------------------- *)
Lemma span_ok {A} (q : parser A) i a i' : q i = Ok a i' -> span_ q i = Ok (pos i, pos i') i'.
Proof. intro H. unfold span_. rewrite H. reflexivity. Qed.

Lemma ws_one R p d : stops (in_class WSCHAR) R ->
  ws (mkIn (x20 :: R) p d) = Ok [x20] (mkIn R (p + 1)%N d).
Proof.
  intro H. unfold ws, unchecked_utf8, take_while0.
  pose proof (take_while_yes 0 (in_class WSCHAR) [x20] R p d eq_refl H (Nat.le_0_l _)) as Ht.
  cbn [app] in Ht. rewrite Ht. reflexivity.
Qed.

(* the first byte of a key token *)
Definition key_head (b : byte) : bool :=
  byte_eqb b x22 || byte_eqb b x27 || in_class UNQUOTED_CHAR b.

Lemma key_head_facts b : key_head b = true ->
  in_class WSCHAR b = false /\ byte_eqb b xef = false /\ byte_eqb b COMMENT_START_SYMBOL = false /\
  byte_eqb b STD_TABLE_OPEN = false /\ byte_eqb b LF = false /\ byte_eqb b CR = false.
Proof.
  intro H. unfold key_head in H. unfold COMMENT_START_SYMBOL, STD_TABLE_OPEN.
  pose proof (b2n_lt b). byten. repeat split; lia.
Qed.

Lemma key_token_head k tk : write_key KDefault k = Some tk -> exists b tk', tk = b :: tk' /\ key_head b = true.
Proof.
  unfold write_key. intro H. injection H as <-. unfold or_else.
  assert (Hb : exists b tk', key_basic k = b :: tk' /\ key_head b = true).
  { unfold key_basic. rewrite wtv_basic. unfold basic_token. do 2 eexists. split; reflexivity. }
  destruct (key_unquoted k (kmetrics_of k)) as [t|] eqn:E1.
  { unfold key_unquoted in E1. destruct (km_unquoted (kmetrics_of k)) eqn:E; [|discriminate].
    injection E1 as <-. rewrite wtv_bare.
    unfold kmetrics_of in E. apply (km_inv k) in E. cbn [km_unquoted] in E. destruct E as [E1 E2].
    destruct k as [|b k']; [discriminate|]. exists b, k'. split; [reflexivity|].
    cbn [forallb] in E2. apply andb_true_iff in E2 as [E2 _]. rewrite unquoted_class in E2.
    unfold key_head. rewrite E2. apply orb_true_r. }
  destruct (key_basic_pretty k (kmetrics_of k)) as [t|] eqn:E2.
  { unfold key_basic_pretty in E2. destruct (_ || _ || _); [discriminate|]. injection E2 as <-. exact Hb. }
  destruct (key_literal k (kmetrics_of k)) as [t|] eqn:E3.
  { unfold key_literal in E3. destruct (_ || _); [discriminate|]. injection E3 as <-.
    rewrite wtv_literal. unfold literal_token. do 2 eexists. split; reflexivity. }
  exact Hb.
Qed.

(* ---- key.rs: key_part and key on `<token> = ...` --------------------------------------------------- *)
Definition the_key (k tk : bytes) (p : N) : key :=
  mkKey k (Some (raw_with_span (p, (p + N.of_nat (length tk))%N))) decor_default
        (decor_new (raw_with_span (p, p))
                   (raw_with_span ((p + N.of_nat (length tk))%N, (p + N.of_nat (length tk) + 1)%N))).

Lemma key_part_rt k tk R p d :
  utf8_valid_b k = true -> write_key KDefault k = Some tk -> stops (in_class WSCHAR) R ->
  key_part (mkIn (tk ++ x20 :: R) p d) = Ok (the_key k tk p) (mkIn R (p + N.of_nat (length tk) + 1)%N d).
Proof.
  intros Hu Hw HR. destruct (key_token_head k tk Hw) as [b [tk' [Htk Hb]]].
  destruct (key_head_facts b Hb) as [Hws _].
  unfold key_part.
  assert (H1 : span_ ws (mkIn (tk ++ x20 :: R) p d) = Ok (p, p) (mkIn (tk ++ x20 :: R) p d)).
  { assert (Hst : stops (in_class WSCHAR) (tk ++ x20 :: R)) by (rewrite Htk; exact Hws).
    rewrite (span_ok ws _ _ _ (ws_none _ p d Hst)). reflexivity. }
  rewrite (bind_ok _ _ _ _ _ H1).
  assert (H2 : simple_key (mkIn (tk ++ x20 :: R) p d) = Ok (key_result tk k p) (after tk (x20 :: R) p d)).
  { apply (key_styles_rt k KDefault); auto. reflexivity. }
  rewrite (bind_ok _ _ _ _ _ H2). unfold key_result, after.
  rewrite (bind_ok _ _ _ _ _ (span_ok _ _ _ _ (ws_one R _ d HR))). reflexivity.
Qed.

Definition the_key_fixed (k tk : bytes) (p : N) : key :=
  mkKey k (Some (raw_with_span (p, (p + N.of_nat (length tk))%N)))
        (decor_new (raw_with_span (p, p))
                   (raw_with_span ((p + N.of_nat (length tk))%N, (p + N.of_nat (length tk) + 1)%N)))
        (mkDecor (Some REmpty) (Some REmpty)).

Lemma key_rt k tk R p d :
  utf8_valid_b k = true -> write_key KDefault k = Some tk ->
  key_ (mkIn (tk ++ x20 :: x3d :: R) p d)
  = Ok [the_key_fixed k tk p] (mkIn (x3d :: R) (p + N.of_nat (length tk) + 1)%N d).
Proof.
  intros Hu Hw. unfold key_.
  assert (Hs : separated1 key_part (byte_ DOT_SEP) (mkIn (tk ++ x20 :: x3d :: R) p d)
               = Ok [the_key k tk p] (mkIn (x3d :: R) (p + N.of_nat (length tk) + 1)%N d)).
  { unfold separated1. rewrite (key_part_rt k tk (x3d :: R) p d Hu Hw eq_refl).
    cbn [rest length separated_loop]. rewrite byte_no by reflexivity. reflexivity. }
  rewrite (bind_ok _ _ _ [the_key k tk p] (mkIn (x3d :: R) (p + N.of_nat (length tk) + 1)%N d)).
  2:{ unfold try_map. rewrite (context_ok _ _ _ _ Hs). reflexivity. }
  reflexivity.
Qed.

(* ---- document.rs: parse_keyval on `<key token> = <value token>\n` ---------------------------------- *)
Definition the_value (v tv : bytes) (p2 : N) (pre suf : N * N) : value :=
  VScalar (SString v) (Some (raw_with_span (p2, (p2 + N.of_nat (length tv))%N)))
          (decor_new (raw_with_span pre) (raw_with_span suf)).

Definition line (tk tv : bytes) : bytes := tk ++ x20 :: x3d :: x20 :: tv ++ [x0a].

Lemma line_trailing_lf p d : line_trailing (mkIn [x0a] p d) = Ok (p, p) (mkIn [] (p + 1)%N d).
Proof.
  unfold line_trailing, terminated.
  assert (H : (ws ;;; opt comment) (mkIn [x0a] p d) = Ok None (mkIn [x0a] p d)).
  { rewrite (bind_ok _ _ _ _ _ (ws_none [x0a] p d eq_refl)).
    eapply opt_bt. unfold comment. eapply bind_bt. apply byte_no. reflexivity. }
  rewrite (bind_ok _ _ _ _ _ (span_ok _ _ _ _ H)). cbn [pos].
  unfold line_ending. rewrite (bind_ok _ _ _ _ _ (alt_ok _ _ _ _ _ (newline_lf [] p d))). reflexivity.
Qed.

Lemma parse_keyval_rt k v tk tv p d :
  utf8_valid_b k = true -> utf8_valid_b v = true ->
  write_key KDefault k = Some tk -> write_string StDefault v = Some tv ->
  let p1 := (p + N.of_nat (length tk) + 1)%N in
  let p2 := (p1 + 1 + 1)%N in
  let p3 := (p2 + N.of_nat (length tv))%N in
  parse_keyval (mkIn (line tk tv) p d)
  = Ok ([], (the_key_fixed k tk p, IValue (the_value v tv p2 ((p1 + 1)%N, p2) (p3, p3))))
       (mkIn [] (p3 + 1)%N d).
Proof.
  intros Hk Hv Hwk Hwv p1 p2 p3. unfold parse_keyval, line.
  rewrite (bind_ok _ _ _ _ _ (key_rt k tk (x20 :: tv ++ [x0a]) p d Hk Hwk)). fold p1.
  assert (Hq : quote_headed tv).
  { unfold write_string in Hwv.
    apply (quote_headed_token v (vmetrics_of v) StDefault tv Hwv). }
  assert (Hstop : stops (in_class WSCHAR) (tv ++ [x0a])).
  { destruct Hq as [b [t' [-> Hb]]]. cbn [app stops]. unfold QUOTATION_MARK, APOSTROPHE in Hb. byten. lia. }
  assert (Hval : value_ (mkIn (tv ++ [x0a]) p2 d) = Ok (string_value v tv p2) (after tv [x0a] p2 d)).
  { apply value_of_string; [exact Hq|]. apply (value_styles_rt v StDefault); auto. cbn. auto. }
  assert (Hrest : cut_err (context (byte_ KEYVAL_SEP) ;;;
                           pre <- span_ ws ;; vv <- value_ ;; suf <- context line_trailing ;; ret (pre, vv, suf))
                    (mkIn (x3d :: x20 :: tv ++ [x0a]) p1 d)
                  = Ok (((p1 + 1)%N, p2), string_value v tv p2, (p3, p3)) (mkIn [] (p3 + 1)%N d)).
  { apply cut_err_ok. unfold KEYVAL_SEP.
    rewrite (bind_ok _ _ _ _ _ (context_ok _ _ _ _ (byte_yes x3d _ p1 d))).
    rewrite (bind_ok _ _ _ _ _ (span_ok _ _ _ _ (ws_one _ (p1 + 1)%N d Hstop))). cbn [pos]. fold p2.
    rewrite (bind_ok _ _ _ _ _ Hval). unfold after. fold p3.
    rewrite (bind_ok _ _ _ _ _ (context_ok _ _ _ _ (line_trailing_lf p3 d))). reflexivity. }
  rewrite (bind_ok _ _ _ _ _ Hrest). reflexivity.
Qed.

(* ---- state.rs: the first key/value of the root table ------------------------------------------------- *)
Lemma on_keyval_first st kk vv dec pos sp :
  st_current st = Tbl [] dec false false pos sp ->
  exists st', on_keyval st [] kk (IValue vv) = COk st' /\
    st_root st' = st_root st /\ st_path st' = st_path st /\ st_is_array st' = st_is_array st /\
    exists k', t_items (st_current st') = [(k', IValue vv)] /\ k_key k' = k_key kk.
Proof.
  intro Hc. unfold on_keyval. rewrite Hc. cbn [t_span item_span].
  destruct sp as [e|]; [destruct (value_span vv) as [vs|]|]; cbn;
    (eexists; split; [reflexivity|]; cbn; repeat split; eexists; split; reflexivity).
Qed.

(* ---- document.rs: the whole document ------------------------------------------------------------------ *)
Lemma doc_line_keyval st tk tv k v :
  utf8_valid_b k = true -> utf8_valid_b v = true ->
  write_key KDefault k = Some tk -> write_string StDefault v = Some tv ->
  forall dec tpos sp, st_current st = Tbl [] dec false false tpos sp ->
  exists st' i', doc_line st (mkIn (line tk tv) 0%N 0) = Ok st' i' /\ rest i' = [] /\
    st_root st' = st_root st /\ st_path st' = st_path st /\
    exists k' rp dc, t_items (st_current st') = [(k', IValue (VScalar (SString v) rp dc))] /\ k_key k' = k.
Proof.
  intros Hk Hv Hwk Hwv dec tpos sp Hc.
  destruct (key_token_head k tk Hwk) as [b [tk' [Htk Hb]]].
  destruct (key_head_facts b Hb) as [_ [_ [H1 [H2 [H3 H4]]]]].
  pose proof (parse_keyval_rt k v tk tv 0%N 0 Hk Hv Hwk Hwv) as Hpk. cbv zeta in Hpk.
  match type of Hpk with _ = Ok ([], (?kk, IValue ?vv)) ?iend =>
    destruct (on_keyval_first st kk vv dec tpos sp Hc) as [st1 [Hok [Hr [Hp [Ha [k' [Hitems Hkk]]]]]]];
    set (iend' := iend) in *
  end.
  exists (on_ws st1 (pos iend', pos iend')), iend'.
  split.
  - unfold doc_line.
    assert (Hpeek : peek any (mkIn (line tk tv) 0%N 0) = Ok b (mkIn (line tk tv) 0%N 0)).
    { unfold line. rewrite Htk. cbn [app]. eapply peek_ok. apply any_cons. }
    rewrite (bind_ok _ _ _ _ _ Hpeek). rewrite H1, H2, H3, H4. cbn [orb].
    assert (Hkv : cut_err (keyval st) (mkIn (line tk tv) 0%N 0) = Ok st1 iend').
    { apply cut_err_ok. unfold keyval, try_map, on_keyval_sp. rewrite Hpk. rewrite Hok.
      cbn [set_dotted_spans]. destruct st1; reflexivity. }
    rewrite (bind_ok _ _ _ _ _ Hkv).
    unfold parse_ws. unfold iend'.
    erewrite pmap_ok; [reflexivity|]. apply span_ok with (a := []). apply ws_none. exact I.
  - split; [reflexivity|]. split; [exact Hr|]. split; [exact Hp|].
    unfold the_value in Hitems. cbn [on_ws st_current]. eauto.
Qed.

Theorem in_document k v tk tv :
  utf8_valid_b k = true -> utf8_valid_b v = true ->
  write_key KDefault k = Some tk -> write_string StDefault v = Some tv ->
  exists d kk rp dc,
    parse_document (tk ++ [x20; x3d; x20] ++ tv ++ [x0a]) = POk d /\
    t_items (doc_root d) = [(kk, IValue (VScalar (SString v) rp dc))] /\ k_key kk = k.
Proof.
  intros Hk Hv Hwk Hwv.
  change (tk ++ [x20; x3d; x20] ++ tv ++ [x0a]) with (line tk tv).
  destruct (key_token_head k tk Hwk) as [b [tk' [Htk Hb]]].
  destruct (key_head_facts b Hb) as [Hws [Hef _]].
  set (st0 := on_ws state_new (0, 0)%N).
  destruct (doc_line_keyval st0 tk tv k v Hk Hv Hwk Hwv decor_default None (Some (0, 0)%N) eq_refl)
    as [st' [i' [Hline [Hrest [Hroot [Hpath [k' [rp [dc [Hitems Hkk]]]]]]]]]].
  assert (Hne : exists n, length (line tk tv) = S n).
  { unfold line. rewrite Htk. cbn [app length]. eauto. }
  destruct Hne as [n Hn].
  assert (Hdoc : document (mkIn (line tk tv) 0%N 0) = Ok st' i').
  { unfold document.
    assert (Hbom : opt (lit bom) (mkIn (line tk tv) 0%N 0) = Ok None (mkIn (line tk tv) 0%N 0)).
    { eapply opt_bt. apply lit_no. unfold line, bom. rewrite Htk. cbn [app strip_prefix].
      rewrite byte_eqb_sym, Hef. reflexivity. }
    rewrite (bind_ok _ _ _ _ _ Hbom).
    assert (Hpws : parse_ws state_new (mkIn (line tk tv) 0%N 0) = Ok st0 (mkIn (line tk tv) 0%N 0)).
    { assert (Hws0 : ws (mkIn (line tk tv) 0%N 0) = Ok [] (mkIn (line tk tv) 0%N 0)).
      { apply ws_none. unfold line. rewrite Htk. exact Hws. }
      unfold parse_ws. rewrite (pmap_ok _ _ _ _ _ (span_ok _ _ _ _ Hws0)). reflexivity. }
    rewrite (bind_ok _ _ _ _ _ Hpws).
    assert (Hloop : doc_loop (S (length (line tk tv))) st0 (mkIn (line tk tv) 0%N 0) = Ok st' i').
    { rewrite Hn. cbn [doc_loop]. rewrite Hline. destruct i' as [ri pi di]. cbn [rest] in *. subst ri.
      rewrite Hn. cbn [length Nat.eqb].
      unfold doc_line. rewrite (bind_bt _ _ _ err0 (mkIn [] pi di)); [reflexivity|].
      eapply peek_bt. apply any_nil. }
    unfold bind at 1. cbn [rest]. rewrite Hloop.
    destruct i' as [ri pi di]. cbn [rest] in Hrest. subst ri.
    rewrite (bind_ok _ _ _ _ _ (eof_nil pi di)). reflexivity. }
  assert (Hall : parse_all document (line tk tv) = Done st').
  { unfold parse_all, new_input. rewrite (bind_ok _ _ _ _ _ Hdoc).
    destruct i' as [ri pi di]. cbn [rest] in Hrest. subst ri.
    rewrite (bind_ok _ _ _ _ _ (eof_nil pi di)). reflexivity. }
  unfold parse_document. rewrite Hall.
  unfold finalize_table. rewrite Hpath. cbn [st0 on_ws st_path state_new pop_key rev].
  rewrite Hroot. cbn [st0 on_ws st_root state_new tbl_is_empty tbl_new t_items forallb].
  eexists. exists k', rp, dc. split; [reflexivity|]. cbn [doc_root st_root]. auto.
Qed.
