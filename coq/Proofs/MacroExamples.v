(* Proofs/MacroExamples.v — C19: concrete documents (as abstract statements with their spelling) used by the
   `Example`s of Props/C19.v, and the family of spellings that COMPILES but is outside
   `macro_supported` (integer-like key parts that do not print as themselves), with its refutation
   (replayed on the real macro by lib/props/c19.py, kind "unsupported"; observed on rustc 1.95). *)
From TV Require Import Base.Prelude Base.Utf8 Model.Datetime Model.DatetimeStd Model.Numbers Model.Macro Spec.Defs Spec.MacroSpec.
Require Import String.

Definition bi (s : string) : kseg := KBare [KPIdent (s2b s)].
Definition bn (s : string) : kseg := KBare [KPInt (s2b s)].
Definition qs (s : string) : kseg := KQuoted (s2b s).
Definition int_ (s : string) : aval := AInt SgNone (s2b s).
Definition neg_ (s : string) : aval := AInt SgMinus (s2b s).
Definition dt_ (date : option (string * string * string)) (delim : byte)
               (time : option (string * string * string * option string)) (off : dtoff) : aval :=
  ADt (mkDtsp (match date with Some (y, m, d) => Some (s2b y, s2b m, s2b d) | None => None end) delim
              (match time with
               | Some (h, mi, s, f) => Some (s2b h, s2b mi, s2b s, match f with Some x => Some (s2b x) | None => None end)
               | None => None end) off).

(* [a.b] x = -1  [a] "y"."q k" = 1979-05-27 07:32:00.5-07:00  [[t]] v = [{k.l = +1.5, k.m = true}, [],]
   [[t]] [t.s] w = {}  :  a super-table after its sub-table, a quoted dotted key, a space-delimited
   offset date-time with fraction, an array of tables with a sub-table, nested inline values *)
Definition ex_mixed : list astmt :=
  [ AHeader [bi "a"; bi "b"]; AKeyVal [bi "x"] (neg_ "1");
    AHeader [bi "a"];
    AKeyVal [qs "y"; qs "q k"] (dt_ (Some ("1979", "05", "27")) x20 (Some ("07", "32", "00", Some "5")) (ONum true (s2b "07") (s2b "00")));
    AArrHeader [bi "t"];
    AKeyVal [bi "v"] (AArr [AInl [([bi "k"; bi "l"], AFloat SgPlus (s2b "1.5")); ([bi "k"; bi "m"], ABool true)]; AArr [] false] true);
    AArrHeader [bi "t"]; AHeader [bi "t"; bi "s"]; AKeyVal [bi "w"] (AInl []) ]%string.

(* the four date-time kinds with every delimiter / fraction / offset spelling the macro has a rule for,
   at top level, in an array and in an inline table *)
Definition ex_datetimes : list astmt :=
  [ AKeyVal [bi "odt1"] (dt_ (Some ("1979", "05", "27")) x54 (Some ("07", "32", "00", None)) (OZ x5a));
    AKeyVal [bi "odt2"] (dt_ (Some ("1979", "05", "27")) x20 (Some ("07", "32", "00", None)) (OZ x7a));
    AKeyVal [bi "odt3"] (dt_ (Some ("1979", "05", "27")) x74 (Some ("00", "32", "00", Some "999999")) (ONum true (s2b "07") (s2b "00")));
    AKeyVal [bi "odt4"] (dt_ (Some ("1979", "05", "27")) x54 (Some ("07", "32", "00", Some "123456789123")) (OZ x5a));
    AKeyVal [bi "odt5"] (dt_ (Some ("1979", "05", "27")) x20 (Some ("07", "32", "00", None)) (ONum true (s2b "00") (s2b "00")));
    AKeyVal [bi "ldt1"] (dt_ (Some ("1979", "05", "27")) x54 (Some ("07", "32", "00", None)) ONone);
    AKeyVal [bi "ldt2"] (dt_ (Some ("1979", "05", "27")) x20 (Some ("00", "32", "00", Some "999999")) ONone);
    AKeyVal [bi "ld1"] (dt_ (Some ("1979", "05", "27")) x54 None ONone);
    AKeyVal [bi "lt1"] (dt_ None x54 (Some ("07", "32", "00", None)) ONone);
    AKeyVal [bi "lt2"] (dt_ None x54 (Some ("00", "32", "00", Some "999999")) ONone);
    AKeyVal [bi "arr"] (AArr [ dt_ (Some ("1979", "05", "27")) x54 None ONone;
                               dt_ None x54 (Some ("07", "32", "00", Some "5")) ONone;
                               dt_ (Some ("1979", "05", "27")) x20 (Some ("07", "32", "00", Some "25")) (ONum true (s2b "00") (s2b "00"));
                               dt_ (Some ("1979", "05", "27")) x54 (Some ("07", "32", "00", None)) (OZ x5a) ] true);
    AKeyVal [bi "inl"] (AInl [ ([bi "a"], dt_ (Some ("1979", "05", "27")) x54 None ONone);
                               ([bi "b"; bi "c"], dt_ (Some ("1979", "05", "27")) x20 (Some ("07", "32", "00", None)) (ONum true (s2b "07") (s2b "00")));
                               ([bi "b"; bi "d"], dt_ None x54 (Some ("07", "32", "00", None)) ONone) ]) ]%string.

(* numbers: signs, bases, underscores, the i32 edges, floats, specials; keys made of identifiers,
   integers and dashes; Rust keywords as keys *)
Definition ex_numbers : list astmt :=
  [ AKeyVal [bi "a"] (AInt SgMinus (s2b "2147483648")); AKeyVal [bi "b"] (AInt SgPlus (s2b "2147483647"));
    AKeyVal [bi "c"] (int_ "0x1f"); AKeyVal [bi "d"] (int_ "0o17"); AKeyVal [bi "e"] (int_ "0b101"); AKeyVal [bi "f"] (int_ "1_000");
    AKeyVal [bi "g"] (AFloat SgMinus (s2b "1.5e3")); AKeyVal [bi "h"] (AFloat SgNone (s2b "1_0.0_1")); AKeyVal [bi "i"] (AFloat SgPlus (s2b "1e0_6"));
    AKeyVal [bi "j"] (ASpecial SgMinus true); AKeyVal [bi "k"] (ASpecial SgPlus false); AKeyVal [bi "l"] (ASpecial SgNone true);
    AKeyVal [KBare [KPIdent (s2b "dev"); KPIdent (s2b "dependencies")]; bn "42"; bi "fn"; KBare [KPIdent (s2b "k"); KPInt (s2b "1")]]
            (AArr [neg_ "1"; AInt SgPlus (s2b "1"); AFloat SgMinus (s2b "0.0"); ASpecial SgMinus false; AStr (s2b "s")] false) ]%string.

(* [[a]] x = 1 [[a]] x = 2 [a.b] y = 3 [[a.c]] [[a.c]] z = 1 *)
Definition ex_aot : list astmt :=
  [ AArrHeader [bi "a"]; AKeyVal [bi "x"] (int_ "1"); AArrHeader [bi "a"]; AKeyVal [bi "x"] (int_ "2");
    AHeader [bi "a"; bi "b"]; AKeyVal [bi "y"] (int_ "3");
    AArrHeader [bi "a"; bi "c"]; AArrHeader [bi "a"; bi "c"]; AKeyVal [bi "z"] (int_ "1") ]%string.

(* ---- compile, but name another key / another number (outside macro_supported) ---- *)
(* `05 = 1`: concat! prints an integer literal by VALUE: the macro's key is "5", the parser's "05" *)
Definition bad_int_key : list astmt := [AKeyVal [bn "05"] (int_ "1")]%string.
(* negative integers beyond i32, down to i64::MIN, also inside an array and an inline table: typed i64 by
   `macros::number` (before that repair the negated literal was an i32 and `-2147483649` wrapped to 2147483647) *)
Definition ex_negative : list astmt :=
  [ AKeyVal [bi "a"] (neg_ "2147483649"); AKeyVal [bi "b"] (neg_ "4294967296"); AKeyVal [bi "c"] (neg_ "9223372036854775808");
    AKeyVal [bi "d"] (AArr [neg_ "3000000000"; neg_ "1"; AFloat SgMinus (s2b "1.5"); neg_ "0"] false);
    AKeyVal [bi "e"] (AInl [([bi "x"], neg_ "9223372036854775807"); ([bi "y"], neg_ "2_147_483_649")]) ]%string.

Lemma int_key_refuted :
  exists l t t', forallb (fun s => match s with AKeyVal [KBare [KPInt k]] v => forallb is_digit k && val_ok v | _ => false end) l = true
                 /\ eval l = Some t /\ macro_eval (tokens_of l) = EOk t' /\ t <> t'.
Proof.
  exists bad_int_key. eexists. eexists. split; [reflexivity|].
  split; [vm_compute; reflexivity|]. split; [vm_compute; reflexivity|]. discriminate.
Qed.

