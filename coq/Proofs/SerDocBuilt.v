(* Proofs/SerDocBuilt.v — C07 through text: the toml_edit tree of a text route (Model/SerDoc.v, built from eng-c07's
   Model/SerFmt.v layouts) lies inside the constructed trees of Model/Build.v, below the parser's recursion limit when
   the value tree is; hence (Proofs/BuiltRTDoc.v) its text parses back to its own abstract tree, values before tables.

   SerFmt's `pretty_item` / `fmt_item` applied to what ValueSerializer built (`emb x`) are first brought to one
   structural form `lay x` (they agree on such input): everything after that is by induction on the value tree. *)
From TV Require Import Base.Prelude Base.Utf8 Base.Winnow Gen.Consts.
From TV Require Import Model.Datetime Spec.DatetimeSpec Model.Numbers Model.Tree Model.Parse Model.Document Model.Write Model.Encode Model.Build.
From TV Require Import Proofs.BuiltRTEncode Proofs.BuiltRTValue Proofs.BuiltRTLeaf Proofs.BuiltRTTop Proofs.BuiltRTDocEncode Proofs.BuiltRTDoc.
From TV Require Import Spec.SerdeData Model.Ser Model.De Model.SerFmt Model.SerDoc.
From TV Require Import Proofs.SerdeRTBase Proofs.SerdeRTFmt Proofs.SerDocDe Proofs.SerDocWf.
From Coq Require Import Permutation.
Require Import Lia.

(* ---- the layout of the formatted routes, structurally ------------------------------------------------------------ *)
Definition tabb (x : tomlval) : bool := match x with VTab _ => true | _ => false end.
Definition all_tabs (xs : list tomlval) : bool := nonempty xs && forallb tabb xs.

Fixpoint lay (x : tomlval) : SerFmt.item :=
  match x with
  | VArr xs => if all_tabs xs then SerFmt.IAot (map lay xs) else emb x
  | VTab es => ITab (map (fun kx => (fst kx, lay (snd kx))) es)
  | _ => ILeaf x
  end.

Lemma emb_arr xs : emb (VArr xs) = IArr (map emb xs). Proof. reflexivity. Qed.
Lemma emb_tab es : emb (VTab es) = IInl (map (fun kx => (fst kx, emb (snd kx))) es). Proof. reflexivity. Qed.
Lemma lay_arr xs : lay (VArr xs) = if all_tabs xs then SerFmt.IAot (map lay xs) else emb (VArr xs). Proof. reflexivity. Qed.
Lemma lay_tab es : lay (VTab es) = ITab (map (fun kx => (fst kx, lay (snd kx))) es). Proof. reflexivity. Qed.

Lemma is_value_emb x : is_value (emb x) = true.
Proof. destruct x; reflexivity. Qed.

Lemma aot_cond_emb xs : aot_cond (map emb xs) = all_tabs xs.
Proof.
  unfold aot_cond, all_tabs. f_equal; [destruct xs; reflexivity|].
  induction xs as [|x xs IH]; [reflexivity|]. cbn [map forallb]. rewrite IH. destruct x; reflexivity.
Qed.

Lemma map_entries_ext {A B} (f g : A -> B) (es : list (bytes * A)) :
  Forall (fun kx => f (snd kx) = g (snd kx)) es ->
  map (fun kx => (fst kx, f (snd kx))) es = map (fun kx => (fst kx, g (snd kx))) es.
Proof. intro H. apply map_ext_Forall. eapply Forall_impl; [|exact H]. intros kx E. simpl in E. rewrite E. reflexivity. Qed.

(* inside a value nothing changes *)
Lemma pretty_true_emb : forall x, pretty_item true (emb x) = emb x.
Proof.
  induction x using tomlval_ind2; try reflexivity.
  - rewrite emb_arr, pretty_arr. cbn [negb andb]. f_equal. rewrite map_map. apply map_ext_Forall.
    eapply Forall_impl; [|exact H]. intros x Hx. simpl. rewrite is_value_emb. exact Hx.
  - rewrite emb_tab, pretty_inl. cbn [negb]. f_equal. rewrite map_map. cbn [fst snd].
    apply (map_entries_ext (fun x => pretty_item true (emb x)) emb). exact H.
Qed.

Lemma fmt_true_emb : forall x, fmt_item true (emb x) = emb x /\ fmt_value (emb x) = emb x.
Proof.
  induction x using tomlval_ind2; try (split; reflexivity).
  - assert (E : map (fun e => if is_value e then fmt_value e else e) (map emb xs) = map emb xs).
    { rewrite map_map. apply map_ext_Forall. eapply Forall_impl; [|exact H]. intros x [_ Hx]. simpl. rewrite is_value_emb. exact Hx. }
    split; [rewrite emb_arr, fmt_arr; cbn [negb andb]|rewrite emb_arr, fmtv_arr]; rewrite E; reflexivity.
  - assert (E : map (fun kx => (fst kx, fmt_item true (snd kx))) (map (fun kx => (fst kx, emb (snd kx))) es)
                = map (fun kx => (fst kx, emb (snd kx))) es).
    { rewrite map_map. cbn [fst snd]. apply (map_entries_ext (fun x => fmt_item true (emb x)) emb).
      eapply Forall_impl; [|exact H]. intros kx [Hx _]. exact Hx. }
    split; [rewrite emb_tab, fmt_inl; cbn [negb]|rewrite emb_tab, fmtv_inl]; rewrite E; reflexivity.
Qed.

Lemma all_tabs_forall xs : all_tabs xs = true -> Forall (fun x => exists es, x = VTab es) xs.
Proof.
  unfold all_tabs. intro H. apply andb_true_iff in H as [_ H]. rewrite forallb_forall in H. apply Forall_forall.
  intros x Hx. specialize (H x Hx). destruct x; try discriminate. eauto.
Qed.

(* where a header can stand, tables become tables and non-empty arrays of tables arrays of tables *)
Lemma pretty_false_emb : forall x, pretty_item false (emb x) = lay x.
Proof.
  induction x using tomlval_ind2; try reflexivity.
  - rewrite emb_arr, pretty_arr, lay_arr, aot_cond_emb. cbn [negb andb]. destruct (all_tabs xs) eqn:Ea.
    + f_equal. rewrite map_map. apply map_ext_Forall. pose proof (all_tabs_forall xs Ea) as Ht.
      rewrite Forall_forall in *. intros x Hx. destruct (Ht x Hx) as (es & ->). rewrite <- (H _ Hx). reflexivity.
    + rewrite emb_arr. f_equal. rewrite map_map. apply map_ext_Forall. apply Forall_forall. intros x _. simpl.
      rewrite is_value_emb. apply pretty_true_emb.
  - rewrite emb_tab, pretty_inl, lay_tab. cbn [negb]. f_equal. rewrite map_map. cbn [fst snd].
    apply (map_entries_ext (fun x => pretty_item false (emb x)) lay). exact H.
Qed.

Lemma fmt_false_emb : forall x, fmt_item false (emb x) = lay x.
Proof.
  induction x using tomlval_ind2; try reflexivity.
  - rewrite emb_arr, fmt_arr, lay_arr, aot_cond_emb. cbn [negb andb]. destruct (all_tabs xs) eqn:Ea.
    + f_equal. rewrite map_map. apply map_ext_Forall. pose proof (all_tabs_forall xs Ea) as Ht.
      rewrite Forall_forall in *. intros x Hx. destruct (Ht x Hx) as (es & ->). rewrite <- (H _ Hx). reflexivity.
    + rewrite emb_arr. f_equal. rewrite map_map. apply map_ext_Forall. apply Forall_forall. intros x _. simpl.
      rewrite is_value_emb. apply fmt_true_emb.
  - rewrite emb_tab, fmt_inl, lay_tab. cbn [negb]. f_equal. rewrite map_map. cbn [fst snd].
    apply (map_entries_ext (fun x => fmt_item false (emb x)) lay). exact H.
Qed.

(* the three layouts of a root table *)
Lemma layout_plain es : layout EditString (VTab es) = ITab (map (fun kx => (fst kx, emb (snd kx))) es).
Proof. reflexivity. Qed.
Lemma layout_formatted r es : formatted r = true -> layout r (VTab es) = lay (VTab es).
Proof.
  intro Hr. rewrite lay_tab.
  destruct r; try discriminate Hr; cbn [layout]; unfold doc_edit_pretty, doc_toml, pretty_doc, fmt_doc;
    rewrite root_entries_tab, map_map; cbn [fst snd]; f_equal; apply map_ext; intros [k x]; cbn [fst snd];
    rewrite ?pretty_false_emb, ?fmt_false_emb; reflexivity.
Qed.

(* ---- the tree ------------------------------------------------------------------------------------------------------ *)
Lemma default_built : decor_built decor_default.
Proof. split; left; reflexivity. Qed.

Lemma forallb_Forall' {A} (f : A -> bool) l : forallb f l = true -> Forall (fun a => f a = true) l.
Proof. intro H. apply Forall_forall. rewrite forallb_forall in H. exact H. Qed.

Lemma fold_max_bound {A} (f : A -> nat) l B : (forall x, In x l -> f x <= B) -> fold_right (fun x acc => Nat.max (f x) acc) 0 l <= B.
Proof.
  induction l as [|x l IH]; intro H; [cbn; lia|]. cbn [fold_right].
  pose proof (H x (or_introl eq_refl)). specialize (IH (fun y Hy => H y (or_intror Hy))). lia.
Qed.
Lemma fold_max_mem {A} (f : A -> nat) l x : In x l -> f x <= fold_right (fun y acc => Nat.max (f y) acc) 0 l.
Proof. induction l as [|y l IH]; [contradiction|]. cbn [fold_right]. intros [<- | H]; [lia|]. specialize (IH H). lia. Qed.

Section Doc.
  Variable fd : N -> fval.
  Variable back : fval -> N.
  Variable ml : bool.
  Hypothesis Horacle : float_oracle fd back.
  Local Notation BV := (BuiltValue scalar_ok key_ok).
  (* the arrays of the route are constructed values (Model/Build.v BV_array for the one-line layout) *)
  Hypothesis Harr : forall es, Forall BV es -> Forall (fun e => value_decor e = decor_default) es -> BV (mk_array ml es).

  (* -- values -- *)
  Definition vof (x : tomlval) : value := doc_value fd ml (emb x).
  Lemma vof_arr xs : vof (VArr xs) = mk_array ml (map vof xs).
  Proof. unfold vof. rewrite emb_arr. cbn [doc_value]. rewrite map_map. reflexivity. Qed.
  Lemma vof_tab es :
    vof (VTab es) = VInline (mk_inline_items (map (fun kx => (fst kx, vof (snd kx))) es)) REmpty false false decor_default None.
  Proof. unfold vof. rewrite emb_tab. cbn [doc_value]. rewrite map_map. reflexivity. Qed.

  Lemma mk_array_decor es : value_decor (mk_array ml es) = decor_default.
  Proof. unfold mk_array. destruct (ml && (2 <=? length es)); reflexivity. Qed.
  Lemma ml_elem_abs e : abs_value (ml_elem e) = abs_value e.
  Proof. destruct e; reflexivity. Qed.
  Lemma mk_array_abs es : abs_value (mk_array ml es) = AArr (map abs_value es).
  Proof.
    unfold mk_array. destruct (ml && (2 <=? length es)); [|apply abs_built_array].
    replace (map (fun e => IValue (ml_elem e)) es) with (map IValue (map ml_elem es)) by (rewrite map_map; reflexivity).
    rewrite abs_built_array, map_map. f_equal. apply map_ext. intro e. apply ml_elem_abs.
  Qed.
  Lemma mk_array_depth es : value_depth (mk_array ml es) = S (fold_right (fun e acc => Nat.max (value_depth e) acc) 0 es).
  Proof.
    rewrite value_depth_adepth, mk_array_abs. cbn [adepth]. f_equal.
    induction es as [|e es IH]; [reflexivity|]. cbn [map fold_right]. rewrite IH, <- value_depth_adepth. reflexivity.
  Qed.

  Theorem vof_built : forall x, out_ok x = true -> BV (vof x) /\ value_decor (vof x) = decor_default.
  Proof.
    induction x using tomlval_ind2; intro Hok.
    - split; [|reflexivity]. unfold vof. cbn. constructor; [exact Hok|apply default_built].
    - split; [|reflexivity]. unfold vof. cbn. constructor; [exact Hok|apply default_built].
    - split; [|reflexivity]. unfold vof. cbn. constructor; [|apply default_built].
      cbn [out_ok] in Hok. apply N.ltb_lt in Hok. exact (proj1 (Horacle b Hok)).
    - split; [|reflexivity]. unfold vof. cbn. constructor; [exact I|apply default_built].
    - split; [|reflexivity]. unfold vof. cbn. constructor; [exact Hok|apply default_built].
    - cbn [out_ok] in Hok. apply forallb_Forall' in Hok. rewrite vof_arr. split; [|apply mk_array_decor].
      rewrite Forall_forall in H, Hok.
      apply Harr; apply Forall_forall; intros e He; apply in_map_iff in He as (x & <- & Hx); apply (H x Hx (Hok x Hx)).
    - cbn [out_ok] in Hok. apply andb_true_iff in Hok as [Hnd Hes]. apply nodup_bytes_NoDup in Hnd. apply forallb_Forall' in Hes.
      rewrite vof_tab. split; [|reflexivity]. rewrite Forall_forall in H, Hes.
      constructor; [apply default_built| | |].
      + rewrite map_map. cbn [fst]. exact Hnd.
      + rewrite map_map. cbn [fst]. apply Forall_forall. intros k Hk. apply in_map_iff in Hk as (kx & <- & Hkx).
        specialize (Hes kx Hkx). apply andb_true_iff in Hes as [Hu _]. exact Hu.
      + rewrite map_map. cbn [snd]. apply Forall_forall. intros e He. apply in_map_iff in He as (kx & <- & Hkx).
        specialize (Hes kx Hkx). apply andb_true_iff in Hes as [_ Ho]. apply (H kx Hkx Ho).
  Qed.

  Lemma vof_depth : forall x, value_depth (vof x) <= tv_depth x.
  Proof.
    induction x using tomlval_ind2; try (cbn; lia).
    - rewrite vof_arr, mk_array_depth. cbn [tv_depth]. apply le_n_S.
      rewrite Forall_forall in H. induction xs as [|x xs IHl]; [cbn; lia|]. cbn [map fold_right].
      pose proof (H x (or_introl eq_refl)). specialize (IHl (fun y Hy => H y (or_intror Hy))). lia.
    - rewrite vof_tab. cbn [value_depth tv_depth]. apply le_n_S. unfold mk_inline_items.
      rewrite Forall_forall in H. induction es as [|kx es IHl]; [cbn; lia|]. cbn [map fold_right fst snd].
      pose proof (H kx (or_introl eq_refl)). specialize (IHl (fun y Hy => H y (or_intror Hy))). lia.
  Qed.

  (* -- items -- *)
  Definition iof (x : tomlval) : Tree.item := doc_item fd ml (lay x).
  Definition ents (es : list (bytes * tomlval)) : list (bytes * Tree.item) := map (fun kx => (fst kx, iof (snd kx))) es.
  Definition tab_pair (x : tomlval) : bool * list (bytes * Tree.item) :=
    match x with VTab es => (nonempty (ents es), ents es) | _ => (false, []) end.
  (* written as `key = value` *)
  Definition is_line (x : tomlval) : bool :=
    match x with VTab _ => false | VArr xs => negb (all_tabs xs) | _ => true end.

  Lemma fmt_tbl_the l : fmt_tbl l = the_tbl (nonempty l) l None.
  Proof. reflexivity. Qed.
  Lemma iof_tab es : iof (VTab es) = ITable (fmt_tbl (ents es)).
  Proof. unfold iof, ents. rewrite lay_tab. cbn [doc_item]. rewrite map_map. reflexivity. Qed.
  Lemma iof_aot xs : all_tabs xs = true ->
    iof (VArr xs) = Tree.IAot (map (fun p => Tbl (mk_tbl_items (snd p)) decor_default (fst p) false None None) (map tab_pair xs)) None.
  Proof.
    intro H. unfold iof. rewrite lay_arr, H. cbn [doc_item]. f_equal. rewrite !map_map. apply map_ext_Forall.
    eapply Forall_impl; [|apply (all_tabs_forall xs H)]. intros x (es & ->). rewrite lay_tab. cbn [tab_pair fst snd].
    unfold fmt_tbl, ents. rewrite map_map. reflexivity.
  Qed.
  Lemma iof_line x : is_line x = true -> iof x = IValue (vof x).
  Proof.
    destruct x; try reflexivity; [|discriminate]. cbn [is_line]. intro H. apply negb_true_iff in H.
    unfold iof, vof. rewrite lay_arr, H. reflexivity.
  Qed.
  Lemma doc_item_emb x : doc_item fd ml (emb x) = IValue (vof x).
  Proof. destruct x; reflexivity. Qed.

  Definition prints_all (l : list (bytes * Tree.item)) : Prop := Forall (fun kv => item_prints (snd kv) = true) l.
  Definition item_good (x : tomlval) : Prop :=
    BuiltItem scalar_ok key_ok (iof x) /\ item_prints (iof x) = true /\
    forall es, x = VTab es -> BuiltEntries scalar_ok key_ok (ents es) /\ prints_all (ents es).

  Lemma ents_good es :
    NoDup (map fst es) -> Forall key_ok (map fst es) -> Forall (fun kx => item_good (snd kx)) es ->
    BuiltEntries scalar_ok key_ok (ents es) /\ prints_all (ents es).
  Proof.
    intros Hnd Hk H. unfold ents, prints_all. rewrite Forall_forall in H. split.
    - constructor; rewrite map_map; cbn [fst snd]; [exact Hnd|exact Hk|].
      apply Forall_forall. intros it Hit. apply in_map_iff in Hit as (kx & <- & Hkx). apply (H kx Hkx).
    - apply Forall_forall. intros kv Hkv. apply in_map_iff in Hkv as (kx & <- & Hkx). cbn [snd]. apply (H kx Hkx).
  Qed.

  Lemma existsb_all_true {A} (f : A -> bool) l : l <> [] -> Forall (fun x => f x = true) l -> existsb f l = true.
  Proof. intros Hne H. destruct H as [|x l Hx _]; [contradiction|]. cbn [existsb]. rewrite Hx. reflexivity. Qed.

  Lemma table_good l : BuiltEntries scalar_ok key_ok l -> prints_all l ->
    BuiltItem scalar_ok key_ok (ITable (fmt_tbl l)) /\ item_prints (ITable (fmt_tbl l)) = true.
  Proof.
    intros HE Hpr.
    assert (Hex : nonempty l = true -> existsb (fun kv => item_prints (snd kv)) l = true).
    { intro Hne. apply existsb_all_true; [destruct l; [discriminate|discriminate]|exact Hpr]. }
    split; [apply (BI_table scalar_ok key_ok (nonempty l) l HE Hex)|].
    cbn [item_prints]. rewrite fmt_tbl_the, tbl_prints_the. cbn [t_implicit the_tbl].
    destruct (nonempty l) eqn:E; [rewrite (Hex eq_refl); reflexivity|reflexivity].
  Qed.

  Lemma out_ok_tab es : out_ok (VTab es) = true ->
    NoDup (map fst es) /\ Forall key_ok (map fst es) /\ Forall (fun kx => out_ok (snd kx) = true) es.
  Proof.
    cbn [out_ok]. intro Hok. apply andb_true_iff in Hok as [Hnd Hes]. apply nodup_bytes_NoDup in Hnd. apply forallb_Forall' in Hes.
    split; [exact Hnd|]. rewrite Forall_forall in Hes. split; apply Forall_forall.
    - intros k Hk. apply in_map_iff in Hk as (kx & <- & Hkx). specialize (Hes kx Hkx). apply andb_true_iff in Hes as [Hu _]. exact Hu.
    - intros kx Hkx. specialize (Hes kx Hkx). apply andb_true_iff in Hes as [_ Ho]. exact Ho.
  Qed.

  Theorem iof_good : forall x, out_ok x = true -> item_good x.
  Proof.
    induction x using tomlval_ind2; intro Hok;
      try (split; [rewrite iof_line by reflexivity; constructor; apply vof_built, Hok|split; [reflexivity|discriminate]]).
    - (* arrays *)
      assert (Hel : Forall (fun x => out_ok x = true) xs) by (apply forallb_Forall'; exact Hok).
      unfold item_good. destruct (all_tabs xs) eqn:Ea.
      + rewrite (iof_aot xs Ea). split; [|split; [|discriminate]].
        * constructor. apply Forall_forall. intros p Hp. apply in_map_iff in Hp as (x & <- & Hx).
          pose proof (all_tabs_forall xs Ea) as Ht. rewrite Forall_forall in H, Hel, Ht.
          destruct (Ht x Hx) as (es & ->). cbn [tab_pair snd]. destruct (H _ Hx (Hel _ Hx)) as (_ & _ & G). apply (G es eq_refl).
        * destruct xs; [discriminate|reflexivity].
      + split; [|split; [|discriminate]].
        * rewrite iof_line by (cbn [is_line]; rewrite Ea; reflexivity). constructor. apply vof_built, Hok.
        * rewrite iof_line by (cbn [is_line]; rewrite Ea; reflexivity). reflexivity.
    - (* tables *)
      destruct (out_ok_tab es Hok) as (Hnd & Hk & Hes).
      assert (G : BuiltEntries scalar_ok key_ok (ents es) /\ prints_all (ents es)).
      { apply ents_good; [exact Hnd|exact Hk|]. rewrite Forall_forall in *. intros kx Hkx. apply (H kx Hkx (Hes kx Hkx)). }
      unfold item_good. rewrite iof_tab. destruct (table_good _ (proj1 G) (proj2 G)) as [G1 G2].
      split; [exact G1|]. split; [exact G2|]. intros es' E. injection E as <-. exact G.
  Qed.

  Lemma iof_depths : forall x, item_hdepth (iof x) <= tv_depth x /\ item_vdepth (iof x) <= tv_depth x.
  Proof.
    induction x using tomlval_ind2;
      try (rewrite iof_line by reflexivity; cbn [item_hdepth item_vdepth]; split; [lia|apply vof_depth]).
    - destruct (all_tabs xs) eqn:Ea.
      + rewrite (iof_aot xs Ea). cbn [item_hdepth item_vdepth tv_depth].
        pose proof (all_tabs_forall xs Ea) as Ht. rewrite Forall_forall in H, Ht.
        set (B := fold_right (fun x acc => Nat.max (tv_depth x) acc) 0 xs).
        set (ts := map (fun p : bool * list (bytes * Tree.item) => Tbl (mk_tbl_items (snd p)) decor_default (fst p) false None None) (map tab_pair xs)).
        assert (G : forall t, In t ts -> tbl_hdepth t <= B /\ tbl_vdepth t <= B).
        { intros t Hin. unfold ts in Hin. rewrite map_map in Hin. apply in_map_iff in Hin as (x & <- & Hx).
          destruct (Ht x Hx) as (es & ->). destruct (H _ Hx) as [H1 H2]. rewrite iof_tab in H1, H2.
          cbn [item_hdepth item_vdepth] in H1, H2. cbn [tab_pair fst snd]. unfold fmt_tbl in H1, H2.
          pose proof (fold_max_mem tv_depth xs (VTab es) Hx) as Hm. fold B in Hm. lia. }
        split.
        * apply le_n_S. apply (fold_max_bound tbl_hdepth). intros t Hin. apply G, Hin.
        * apply Nat.le_le_succ_r. apply (fold_max_bound tbl_vdepth). intros t Hin. apply G, Hin.
      + rewrite iof_line by (cbn [is_line]; rewrite Ea; reflexivity). cbn [item_hdepth item_vdepth]. split; [lia|apply vof_depth].
    - rewrite iof_tab. cbn [item_hdepth item_vdepth tv_depth]. rewrite fmt_tbl_the, hdepth_the, vdepth_the.
      set (B := fold_right (fun kx acc => Nat.max (tv_depth (snd kx)) acc) 0 es).
      rewrite Forall_forall in H.
      assert (G : forall kv, In kv (ents es) -> item_hdepth (snd kv) <= B /\ item_vdepth (snd kv) <= B).
      { intros kv Hkv. unfold ents in Hkv. apply in_map_iff in Hkv as (kx & <- & Hkx). cbn [snd].
        destruct (H kx Hkx) as [H1 H2].
        pose proof (fold_max_mem (fun kx : bytes * tomlval => tv_depth (snd kx)) es kx Hkx) as Hm. cbn [snd] in Hm. fold B in Hm. lia. }
      split.
      + apply le_n_S. apply (fold_max_bound (fun kv : bytes * Tree.item => item_hdepth (snd kv))). intros kv Hkv. apply G, Hkv.
      + apply Nat.le_le_succ_r. apply (fold_max_bound (fun kv : bytes * Tree.item => item_vdepth (snd kv))). intros kv Hkv. apply G, Hkv.
  Qed.

  (* -- the root -- *)
  Definition root_ents (r : troute) (es : list (bytes * tomlval)) : list (bytes * Tree.item) :=
    if formatted r then ents es else map (fun kx => (fst kx, IValue (vof (snd kx)))) es.

  Lemma doc_root_eq r es :
    doc_root_tbl fd ml (formatted r) (layout r (VTab es))
    = the_tbl (formatted r && nonempty (root_ents r es)) (root_ents r es) None.
  Proof.
    unfold root_ents. destruct (formatted r) eqn:Hr.
    - rewrite (layout_formatted r es Hr), lay_tab. cbn [doc_root_tbl]. rewrite map_map. reflexivity.
    - destruct r; try discriminate Hr. rewrite layout_plain. cbn [doc_root_tbl]. rewrite map_map. cbn [fst snd andb].
      unfold the_tbl. do 2 f_equal. apply map_ext. intros [k x]. cbn [fst snd]. rewrite doc_item_emb. reflexivity.
  Qed.

  Theorem root_built r es : out_ok (VTab es) = true ->
    BuiltTbl scalar_ok key_ok (doc_root_tbl fd ml (formatted r) (layout r (VTab es))).
  Proof.
    intro Hok. rewrite doc_root_eq. destruct (out_ok_tab es Hok) as (Hnd & Hk & Hes).
    exists (root_ents r es), (formatted r && nonempty (root_ents r es)), None. split; [|split; [left; reflexivity|reflexivity]].
    unfold root_ents. destruct (formatted r).
    - apply ents_good; [exact Hnd|exact Hk|]. eapply Forall_impl; [|exact Hes]. intros kx Hx. apply iof_good, Hx.
    - constructor; rewrite map_map; cbn [fst snd]; [exact Hnd|exact Hk|].
      apply Forall_forall. intros it Hit. apply in_map_iff in Hit as (kx & <- & Hkx). rewrite Forall_forall in Hes.
      constructor. apply vof_built, (Hes kx Hkx).
  Qed.

  Theorem root_depths r es : tv_depth (VTab es) <= LIMIT ->
    tbl_hdepth (doc_root_tbl fd ml (formatted r) (layout r (VTab es))) < LIMIT /\
    tbl_vdepth (doc_root_tbl fd ml (formatted r) (layout r (VTab es))) < LIMIT.
  Proof.
    intro Hd. cbn [tv_depth] in Hd. rewrite doc_root_eq, hdepth_the, vdepth_the.
    set (B := fold_right (fun kx acc => Nat.max (tv_depth (snd kx)) acc) 0 es) in *.
    assert (G : forall kv, In kv (root_ents r es) -> item_hdepth (snd kv) <= B /\ item_vdepth (snd kv) <= B).
    { intros kv Hkv. unfold root_ents in Hkv. destruct (formatted r); apply in_map_iff in Hkv as (kx & <- & Hkx); cbn [snd];
        pose proof (fold_max_mem (fun kx : bytes * tomlval => tv_depth (snd kx)) es kx Hkx) as Hm; cbn [snd] in Hm; fold B in Hm.
      - destruct (iof_depths (snd kx)). lia.
      - cbn [item_hdepth item_vdepth]. pose proof (vof_depth (snd kx)). lia. }
    split.
    - apply Nat.le_lt_trans with B; [|lia]. apply (fold_max_bound (fun kv : bytes * Tree.item => item_hdepth (snd kv))). intros kv Hkv. apply G, Hkv.
    - apply Nat.le_lt_trans with B; [|lia]. apply (fold_max_bound (fun kv : bytes * Tree.item => item_vdepth (snd kv))). intros kv Hkv. apply G, Hkv.
  Qed.
End Doc.
