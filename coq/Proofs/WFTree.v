(* Proofs/WFTree.v — WF backbone: the document tree as the printer sees it.
     sb_tbl t        the tree of Proofs/WFSemDoc.v (`snode`) of a table: values, tables made of dotted keys (dotted
                     tables and dotted inline tables alike), header tables (hidden when no `[header]` is printed for
                     them), arrays of tables;
     abs_doc_of t    the data Display of the tree defines: in every table the entries its key/value lines define
                     first, then its sub-tables and arrays of tables;
     tflat           the key/value lines of a section (Model/Encode.v table_values, fuel-free);
   and the facts that connect them: `table_values` / `nested_tables` with the fuel Display gives them are `tflat` /
   `sections`; the lines of a section, as data, are the dotted forest of its body; a well-formed table gives a
   well-formed `snode` tree. *)
From TV Require Import Base.Prelude Base.Utf8 Base.Winnow Gen.Consts Spec.Abnf Spec.Lex Spec.Defs Spec.DatetimeSpec Spec.Syntax Spec.WF.
From TV Require Import Model.Datetime Model.Numbers Model.Tree Model.Parse Model.Write Model.Encode.
From TV Require Import Proofs.GrammarBase Proofs.SpansDefs Proofs.SpansBase.
From TV Require Import Proofs.WFSem Proofs.WFSemDoc Proofs.WFTok Proofs.WFPrintKey Proofs.WFPrintFlat.
Require Import Lia.

(* ---- a dotted forest as a tree --------------------------------------------------------------------------------------- *)
Section SnDn.
  Variable V : Type.

  Lemma dnode_ind' (P : dnode V -> Prop) :
    (forall v, P (DV v)) -> (forall l, Forall P (map snd l) -> P (DT l)) -> forall n, P n.
  Proof.
    intros H1 H2. fix IH 1. intros [v|l]; [apply H1|]. apply H2.
    induction l as [|[k n] l IHl]; constructor; [apply IH|exact IHl].
  Qed.

  Fixpoint sn_dn (d : dnode V) : snode V :=
    match d with
    | DV v => SV v
    | DT l => SD (map (fun kn => (fst kn, sn_dn (snd kn))) l)
    end.
  Definition sb_dn (l : list (bytes * dnode V)) : sbody V := map (fun kn => (fst kn, sn_dn (snd kn))) l.

  Lemma dpart_node_sn_dn : forall d, dpart_node V (sn_dn d) = Some d.
  Proof.
    induction d as [v|l IH] using dnode_ind'; [reflexivity|]. cbn [sn_dn dpart_node]. do 2 f_equal.
    induction l as [|[k n] l IHl]; [reflexivity|]. cbn [map fst snd flat_map] in *. inversion IH as [|? ? H1 H2]; subst.
    rewrite H1. cbn [app]. f_equal. exact (IHl H2).
  Qed.
  Lemma dpart_sb_dn l : dpart V (sb_dn l) = l.
  Proof.
    unfold dpart, sb_dn. induction l as [|[k n] l IH]; [reflexivity|]. cbn [map flat_map fst snd]. rewrite dpart_node_sn_dn, IH. reflexivity.
  Qed.
  Lemma node_secs_sn_dn : forall d P, node_secs V P (sn_dn d) = [].
  Proof.
    induction d as [v|l IH] using dnode_ind'; intro P; [reflexivity|]. cbn [sn_dn]. rewrite node_secs_SD. unfold secs.
    induction l as [|[k n] l IHl]; [reflexivity|]. cbn [map fst snd flat_map] in *. inversion IH as [|? ? H1 H2]; subst.
    rewrite H1, (IHl H2). reflexivity.
  Qed.
  Lemma secs_sb_dn P l : secs V P (sb_dn l) = [].
  Proof.
    unfold secs, sb_dn. induction l as [|[k n] l IH]; [reflexivity|]. cbn [map flat_map fst snd]. rewrite node_secs_sn_dn, IH. reflexivity.
  Qed.
  Lemma node_res_sn_dn : forall d, node_res V (sn_dn d) = [dres_node V d].
  Proof.
    induction d as [v|l IH] using dnode_ind'; [reflexivity|]. cbn [sn_dn]. rewrite node_res_SD. cbn [dres_node]. do 2 f_equal.
    unfold bres, lres, sres.
    induction l as [|[k n] l IHl]; [reflexivity|]. cbn [map fst snd flat_map] in *. inversion IH as [|? ? H1 H2]; subst.
    specialize (IHl H2). rewrite H1.
    assert (E2 : (match sn_dn n with ST _ _ | SA _ => map (fun r => (k, r)) [dres_node V n] | _ => [] end) = []) by (destruct n; reflexivity).
    assert (E1 : (match sn_dn n with SV _ | SD _ => map (fun r => (k, r)) [dres_node V n] | _ => [] end) = [(k, dres_node V n)]) by (destruct n; reflexivity).
    rewrite E1, E2. cbn [app]. f_equal. exact IHl.
  Qed.
  Lemma swf_sn_dn : forall d, dwf_node V d -> swf V (sn_dn d).
  Proof.
    apply (dwf_node_strong V (fun d => swf V (sn_dn d))); [constructor|]. intros l Hne Hnd _ IH. cbn [sn_dn]. fold (sb_dn l). constructor.
    - unfold sb_dn. rewrite map_map. exact Hnd.
    - unfold sb_dn. rewrite map_map. cbn [snd]. rewrite Forall_map in *. exact IH.
    - rewrite dpart_sb_dn. exact Hne.
  Qed.
End SnDn.
Arguments sn_dn {V}. Arguments sb_dn {V}.

(* ---- induction over the tables of a table ------------------------------------------------------------------------------ *)
Lemma tbl_sub_ind (P : tbl -> Prop) :
  (forall items d im dt p sp,
      Forall (fun kv : key * item => match snd kv with ITable sub => P sub | IAot ts _ => Forall P ts | _ => True end) items ->
      P (Tbl items d im dt p sp)) ->
  forall t, P t.
Proof.
  intro H.
  refine (proj2 (proj2 (tree_ind3 (fun _ => True)
    (fun it => match it with ITable sub => P sub | IAot ts _ => Forall P ts | _ => True end) P _ _ _ _ _ _ _ _))); auto.
Qed.

(* ---- the tree ------------------------------------------------------------------------------------------------------------ *)
Fixpoint sb_tbl (t : tbl) : sbody dval :=
  match t with
  | Tbl items _ _ _ _ _ =>
    map (fun kv => (k_key (fst kv),
                    match snd kv with
                    | ITable sub =>
                      if t_dotted sub then (if has_line sub then SD (sb_tbl sub) else ST true (sb_tbl sub))
                      else ST (negb (shown sub)) (sb_tbl sub)
                    | IAot ts _ => SA (map sb_tbl ts)
                    | IValue v => sn_dn (dn_item (IValue v))
                    | INone => SA []
                    end)) items
  end.
Definition sn_item (it : item) : snode dval :=
  match it with
  | ITable sub =>
    (* a table made of dotted keys lives in the lines of the enclosing section; when it has no line left, the text
       mentions it only through the headers below it: it is a super-table of those *)
    if t_dotted sub then (if has_line sub then SD (sb_tbl sub) else ST true (sb_tbl sub))
    else ST (negb (shown sub)) (sb_tbl sub)
  | IAot ts _ => SA (map sb_tbl ts)
  | IValue v => sn_dn (dn_item (IValue v))
  | INone => SA []
  end.
Lemma sb_tbl_eq t : sb_tbl t = map (fun kv => (k_key (fst kv), sn_item (snd kv))) (t_items t).
Proof. destruct t; reflexivity. Qed.

(* the data Display of the tree defines *)
Definition abs_doc_of (root : tbl) : stree dval := bres dval (sb_tbl root).

(* ---- the key/value lines of a section ------------------------------------------------------------------------------------ *)
Fixpoint tflat (parent : list key) (t : tbl) {struct t} : list (list key * value) :=
  match t with
  | Tbl items _ _ _ _ _ =>
    flat_map (fun kv => match snd kv with
                        | ITable sub => if t_dotted sub then tflat (parent ++ [fst kv]) sub else []
                        | IValue v => iflat_item parent (fst kv) (IValue v)
                        | _ => []
                        end) items
  end.
Definition tflat_item (parent : list key) (k : key) (it : item) : list (list key * value) :=
  match it with
  | ITable sub => if t_dotted sub then tflat (parent ++ [k]) sub else []
  | IValue v => iflat_item parent k (IValue v)
  | _ => []
  end.
Lemma tflat_eq parent t : tflat parent t = flat_map (fun kv => tflat_item parent (fst kv) (snd kv)) (t_items t).
Proof. destruct t; reflexivity. Qed.

Lemma has_line_eq t : has_line t = existsb (fun kv => match snd kv with IValue _ => true | ITable sub => t_dotted sub && has_line sub | _ => false end) (t_items t).
Proof. destruct t; reflexivity. Qed.

(* a table without a line of its own gives no line *)
Lemma no_line_tflat : forall t parent, has_line t = false -> tflat parent t = [].
Proof.
  induction t as [items d im dt p sp IH] using tbl_sub_ind. intros parent. rewrite has_line_eq, tflat_eq. cbn [t_items].
  induction items as [|[k it] items IHi]; [reflexivity|]. inversion IH as [|? ? H1 H2]; subst. cbn [existsb flat_map fst snd].
  intro H. apply orb_false_iff in H as [Ha Hb]. rewrite (IHi H2 Hb), app_nil_r.
  destruct it as [|v|sub|ts asp]; try reflexivity; [discriminate|]. cbn [tflat_item]. destruct (t_dotted sub); [|reflexivity].
  cbn [andb] in Ha. apply (H1 _ Ha).
Qed.

(* sizes *)
Lemma tbl_size_ksz items d im dt p sp : tbl_size (Tbl items d im dt p sp) = S (ksz items).
Proof.
  cbn [tbl_size]. f_equal. unfold ksz. induction items as [|[k i0] tl IH]; [reflexivity|]. cbn [fold_right snd]. rewrite IH. reflexivity.
Qed.
Lemma tbl_size_items t : tbl_size t = S (ksz (t_items t)).
Proof. destruct t. apply tbl_size_ksz. Qed.
Lemma tsz_in e ts : In e ts -> tbl_size e <= fold_right (fun t acc => tbl_size t + acc) 0 ts.
Proof. induction ts as [|x ts IH]; [contradiction|]. cbn [fold_right]. intros [->|H]; [lia|]. specialize (IH H). lia. Qed.

(* table_values with enough fuel *)
Lemma table_values_eq : forall t f parent, tbl_size t <= f -> table_values f parent (t_items t) = tflat parent t.
Proof.
  induction t as [items d im dt p sp IH] using tbl_sub_ind. intros f parent Hf. rewrite tbl_size_ksz in Hf.
  destruct f as [|f]; [lia|]. cbn [t_items table_values tflat]. apply flat_map_ext_in'. intros [k it] Hin. cbn [fst snd].
  pose proof (ksz_in items k it Hin) as Hsz. rewrite Forall_forall in IH. specialize (IH _ Hin). cbn [snd] in IH.
  destruct it as [|v|sub|ts asp].
  - reflexivity.
  - destruct v as [x r dd|vals tr c dd vsp|sub pre vim vdt dd vsp]; try reflexivity. destruct vdt; [|reflexivity].
    cbn [iflat_item]. cbn [item_size] in Hsz. rewrite value_size_inline in Hsz. rewrite inline_values_eq by lia. reflexivity.
  - cbn [item_size] in Hsz. destruct sub as [sitems sd sim sdt spn ssp]. cbn [t_dotted]. destruct sdt; [|reflexivity].
    apply (IH f (parent ++ [k])). lia.
  - reflexivity.
Qed.
Lemma section_lines_eq t : table_values (S (tbl_size t)) [] (t_items t) = tflat [] t.
Proof. apply table_values_eq. lia. Qed.

(* nested_tables with enough fuel *)
Lemma nested_tables_eq : forall t f path arr, tbl_size t <= f -> nested_tables f t path arr = sections t path arr.
Proof.
  induction t as [items d im dt p sp IH] using tbl_sub_ind. intros f path arr Hf. rewrite tbl_size_ksz in Hf.
  destruct f as [|f]; [lia|]. cbn [nested_tables sections t_items]. f_equal. apply flat_map_ext_in'. intros [k it] Hin. cbn [fst snd].
  pose proof (ksz_in items k it Hin) as Hsz. rewrite Forall_forall in IH. specialize (IH _ Hin). cbn [snd] in IH.
  destruct it as [|v|sub|ts asp]; try reflexivity.
  - cbn [item_size] in Hsz. apply IH. lia.
  - cbn [item_size] in Hsz. apply flat_map_ext_in'. intros e He. rewrite Forall_forall in IH. apply (IH e He).
    pose proof (tsz_in e ts He). lia.
Qed.
Lemma doc_sections_eq root : nested_tables (S (tbl_size root)) root [] false = sections root [] false.
Proof. apply nested_tables_eq. lia. Qed.

(* ---- the lines of a section, as data, are the dotted forest of its body ---------------------------------------------- *)
Lemma dpart_sb_tbl t :
  dpart dval (sb_tbl t)
  = flat_map (fun kv => match dpart_node dval (sn_item (snd kv)) with Some d => [(k_key (fst kv), d)] | None => [] end) (t_items t).
Proof.
  rewrite sb_tbl_eq. unfold dpart. induction (t_items t) as [|[k it] l IH]; [reflexivity|]. cbn [map flat_map fst snd]. rewrite IH. reflexivity.
Qed.

Lemma tflat_dflat : forall t parent,
  map pv_abs (tflat parent t)
  = map (fun pv => (ktexts parent ++ fst pv, snd pv)) (dflat dval (dpart dval (sb_tbl t))).
Proof.
  induction t as [items d im dt p sp IH] using tbl_sub_ind. intro parent. rewrite dpart_sb_tbl. cbn [t_items tflat].
  unfold dflat. induction items as [|[k it] items IHi]; [reflexivity|]. inversion IH as [|? ? H1 H2]; subst. specialize (IHi H2).
  cbn [flat_map fst snd]. rewrite map_app, IHi. rewrite flat_map_app, map_app. f_equal. clear IHi H2 IH.
  assert (Ek : ktexts (parent ++ [k]) = ktexts parent ++ [k_key k]) by (unfold ktexts; rewrite map_app; reflexivity).
  destruct it as [|v|sub|ts asp]; cbn [sn_item snd] in *.
  - reflexivity.
  - rewrite dpart_node_sn_dn. cbn [flat_map fst snd]. rewrite app_nil_r. apply iflat_item_dflat.
  - destruct (t_dotted sub); [|reflexivity]. destruct (has_line sub) eqn:Hl; [|cbn [dpart_node flat_map]; rewrite (no_line_tflat sub _ Hl); reflexivity].
    cbn [dpart_node flat_map fst snd]. rewrite app_nil_r. fold (dpart dval (sb_tbl sub)).
    rewrite (H1 (parent ++ [k])). cbn [dflat_node]. fold (dflat dval (dpart dval (sb_tbl sub))). rewrite !map_map. apply map_ext.
    intros [q x]. cbn [fst snd]. rewrite Ek, <- app_assoc. reflexivity.
  - reflexivity.
Qed.
Lemma tflat_lines t : map pv_abs (tflat [] t) = dflat dval (dpart dval (sb_tbl t)).
Proof.
  rewrite tflat_dflat. cbn [ktexts map app]. rewrite <- (map_id (dflat _ _)) at 2. apply map_ext. intros [q x]. reflexivity.
Qed.

(* ---- which tables have lines, which print headers ------------------------------------------------------------------------ *)
Lemma all_P_In {A} (P : A -> Prop) l x : all_P P l -> In x l -> P x.
Proof. induction l as [|y l IH]; [contradiction|]. cbn [all_P]. intros [H1 H2] [->|H]; auto. Qed.
Lemma all_P_Forall' {A} (P : A -> Prop) l : all_P P l <-> Forall P l.
Proof. induction l as [|y l IH]; cbn [all_P]; split; intro H; [constructor|exact I|destruct H; constructor; tauto|inversion H; tauto]. Qed.

Definition lineish (it : item) : bool :=
  match it with IValue _ => true | ITable sub => t_dotted sub && has_line sub | _ => false end.

Lemma tbl_wf_items top t :
  tbl_wf top t ->
  NoDup (kkeys (t_items t))
  /\ forall k it, In (k, it) (t_items t) ->
       key_wf true k /\
       match it with
       | INone => False
       | IValue _ => pair_wf true it
       | ITable sub => tbl_wf false sub /\ (if t_dotted sub then has_line sub = true \/ prints_header sub = true
                                            else shown sub = true \/ prints_header sub = true)
       | IAot ts _ => ts <> [] /\ forall e, In e ts -> t_dotted e = false /\ tbl_wf false e
       end.
Proof.
  destruct t as [items d im dt p sp]. cbn [tbl_wf t_items]. intros (_ & Hnd & Hall). split; [exact Hnd|]. intros k it Hin.
  pose proof (all_P_In _ _ _ Hall Hin) as [Hk Hit]. cbn [fst snd] in *. split; [exact Hk|].
  destruct it as [|v|sub|ts asp]; auto. destruct Hit as [Hne Hts]. split; [exact Hne|]. intros e He. exact (all_P_In _ _ _ Hts He).
Qed.

Lemma has_line_wf top t : tbl_wf top t -> has_line t = existsb (fun kv => lineish (snd kv)) (t_items t).
Proof.
  intros _. rewrite has_line_eq. induction (t_items t) as [|[k it] l IH]; [reflexivity|]. cbn [existsb snd]. rewrite IH. f_equal.
Qed.

Lemma dpart_nil_iff t : (forall k, ~ In (k, INone) (t_items t)) ->
  (dpart dval (sb_tbl t) = [] <-> existsb (fun kv => lineish (snd kv)) (t_items t) = false).
Proof.
  intro Hn. rewrite dpart_sb_tbl. induction (t_items t) as [|[k it] l IH]; [split; reflexivity|]. cbn [flat_map existsb fst snd].
  assert (IH' := IH (fun k' H => Hn k' (or_intror H))). clear IH.
  destruct it as [|v|sub|ts asp]; cbn [sn_item lineish].
  - exfalso. apply (Hn k). left. reflexivity.
  - rewrite dpart_node_sn_dn. split; discriminate.
  - destruct (t_dotted sub); [destruct (has_line sub)|]; cbn [dpart_node andb orb app]; [split; discriminate|exact IH'|exact IH'].
  - cbn [dpart_node orb app]. exact IH'.
Qed.
Lemma no_none top t : tbl_wf top t -> forall k, ~ In (k, INone) (t_items t).
Proof. intros Hw k Hin. destruct (tbl_wf_items top t Hw) as [_ Hit]. exact (proj2 (Hit _ _ Hin)). Qed.
Lemma has_line_dpart top t : tbl_wf top t -> (has_line t = false <-> dpart dval (sb_tbl t) = []).
Proof. intro Hw. rewrite (has_line_wf top t Hw). symmetry. apply dpart_nil_iff, (no_none top), Hw. Qed.

(* a header printed for or below a table makes a section *)
Lemma prints_header_eq t :
  prints_header t = existsb (fun kv => match snd kv with
                                       | ITable sub => (negb (t_dotted sub) && shown sub) || prints_header sub
                                       | IAot ts _ => match ts with [] => false | _ => true end
                                       | _ => false
                                       end) (t_items t).
Proof. destruct t; reflexivity. Qed.
Lemma secs_sb_tbl P t : secs dval P (sb_tbl t) = flat_map (fun kv => node_secs dval (P ++ [k_key (fst kv)]) (sn_item (snd kv))) (t_items t).
Proof. rewrite sb_tbl_eq. unfold secs. induction (t_items t) as [|[k it] l IH]; [reflexivity|]. cbn [map flat_map fst snd]. rewrite IH. reflexivity. Qed.

Lemma prints_header_secs : forall t P, prints_header t = true -> secs dval P (sb_tbl t) <> [].
Proof.
  induction t as [items d im dt p sp IH] using tbl_sub_ind. intros P. rewrite prints_header_eq, secs_sb_tbl. cbn [t_items].
  induction items as [|[k it] items IHi]; [discriminate|]. inversion IH as [|? ? H1 H2]; subst. cbn [existsb flat_map fst snd].
  intro H. apply orb_true_iff in H as [H|H].
  - intro E. apply app_eq_nil in E as [E _]. destruct it as [|v|sub|ts asp]; try discriminate; cbn [sn_item snd] in *.
    + destruct (t_dotted sub) eqn:Ed.
      * cbn [negb andb orb] in H. destruct (has_line sub); [rewrite node_secs_SD in E; exact (H1 _ H E)|].
        rewrite node_secs_ST in E. cbn [app] in E. unfold body_stmts in E. apply app_eq_nil in E as [_ E]. exact (H1 _ H E).
      * rewrite node_secs_ST in E. cbn [negb andb orb] in H. destruct (shown sub); [discriminate|]. cbn [negb app orb] in *.
        unfold body_stmts in E. apply app_eq_nil in E as [_ E]. exact (H1 _ H E).
    + destruct ts; [discriminate|]. rewrite node_secs_SA in E. discriminate.
  - intro E. apply app_eq_nil in E as [_ E]. exact (IHi H2 H E).
Qed.

(* ---- a well-formed table is a well-formed tree --------------------------------------------------------------------------- *)
Lemma sb_tbl_keys t : map fst (sb_tbl t) = kkeys (t_items t).
Proof. rewrite sb_tbl_eq, map_map. reflexivity. Qed.

Lemma tbl_swf : forall t top, tbl_wf top t -> swf_body dval (sb_tbl t).
Proof.
  induction t as [items d im dt p sp IH] using tbl_sub_ind. intros top Hw.
  destruct (tbl_wf_items top _ Hw) as [Hnd Hit]. split; [rewrite sb_tbl_keys; exact Hnd|].
  rewrite sb_tbl_eq, map_map. cbn [snd t_items] in *. apply Forall_map. apply Forall_forall. intros [k it] Hin. cbn [snd].
  rewrite Forall_forall in IH. specialize (IH _ Hin). cbn [snd] in IH. destruct (Hit k it Hin) as [_ Hi].
  destruct it as [|v|sub|ts asp]; cbn [sn_item].
  - contradiction.
  - apply swf_sn_dn. apply (dn_item_wf true). exact Hi.
  - destruct Hi as [Hs Hf]. destruct (IH false Hs) as [Hnd' Hl']. destruct (t_dotted sub).
    + destruct (has_line sub) eqn:Hln.
      * constructor; [exact Hnd'|exact Hl'|]. intro E. apply (has_line_dpart false sub Hs) in E. congruence.
      * constructor; [exact Hnd'|exact Hl'|]. intros _. destruct Hf as [Hf|Hf]; [discriminate|].
        split; [apply (has_line_dpart false sub Hs), Hln|apply prints_header_secs, Hf].
    + constructor; [exact Hnd'|exact Hl'|]. intro Hh. apply negb_true_iff in Hh. destruct Hf as [Hf|Hf]; [congruence|].
      split; [|apply prints_header_secs, Hf]. apply (has_line_dpart false sub Hs). unfold shown in Hh. apply negb_false_iff in Hh.
      apply andb_true_iff in Hh as [_ Hh]. apply negb_true_iff in Hh. exact Hh.
  - destruct Hi as [_ Hts]. constructor. apply Forall_map. apply Forall_forall. intros e He. rewrite Forall_forall in IH.
    destruct (Hts e He) as [_ Hwe]. exact (IH e He false Hwe).
Qed.

(* hence the statements of the tree define `abs_doc_of` (Proofs/WFSemDoc.v body_defines) *)
Theorem tree_defines root : tbl_wf true root -> run true (body_stmts dval [] (sb_tbl root)) = Valid (abs_doc_of root).
Proof. intro Hw. apply body_defines. apply (tbl_swf root true Hw). Qed.
