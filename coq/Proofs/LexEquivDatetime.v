(* Proofs/LexEquivDatetime.v — the model's date-time parser `date_time` (Model/Datetime.v) against
   the relational grammar `date_time_tok` of Spec/Syntax.v, in the maximal-munch sense:
     date_time_sound     an Ok result reads a text that is a date-time of the grammar, with its value
     date_time_complete  a date-time of the grammar followed by a continuation that cannot extend
                         it (dt_stop) is read entirely, with the grammar's value
     date_time_cut_only  hence a committed error never happens in front of such a text
     date_time_tok_in_range, date_time_tok_head.
   Route: the exact normal forms of every stage proved in Proofs/DatetimeEq.v (in terms of the
   tiny functional parsers two / four / sexpect / date10 / time8 / hm5), bridged here to the
   relational digit tokens of the grammar. *)
From Coq Require Import List Bool Arith NArith ZArith Lia ZifyBool ZifyN ZifyNat.
From Coq.Strings Require Import Byte.
From TV Require Import Base.Prelude Base.Utf8 Base.Winnow Gen.Consts Spec.Abnf Spec.Lex
  Spec.DatetimeSpec Spec.Syntax Model.Datetime Model.DatetimeStd Proofs.DatetimeEq Proofs.LexEquivBase.
Import ListNotations.

(* ================================================================================================ *)
(* small facts                                                                                      *)
(* ================================================================================================ *)
Lemma digit_is b : Abnf.digit b = is_digit b.
Proof. reflexivity. Qed.

Lemma digit_of_val b : Abnf.digit b = true -> digit_of b = digit_val b.
Proof. intro H. unfold digit_of. unfold Abnf.digit in H. rewrite H. reflexivity. Qed.

Lemma all_digit_is l : all Abnf.digit l -> forallb is_digit l = true.
Proof. intro H. exact H. Qed.

Lemma not_ok_soft {A} (X : res A) a i : soft X -> X = Ok a i -> False.
Proof. intros (e & j & H) E. rewrite H in E. discriminate. Qed.
Lemma not_ok_hard {A} (X : res A) a i : hard X -> X = Ok a i -> False.
Proof. intros (e & j & H) E. rewrite H in E. discriminate. Qed.

Lemma mkIn_eq r p q d : p = q -> mkIn r p d = mkIn r q d.
Proof. intros ->. reflexivity. Qed.

Lemma horner2 a b : horner 10 [a; b] = (digit_of a * 10 + digit_of b)%N.
Proof. unfold horner. cbn [fold_left]. lia. Qed.
Lemma horner4 a b c e :
  horner 10 [a; b; c; e] = (digit_of a * 1000 + digit_of b * 100 + digit_of c * 10 + digit_of e)%N.
Proof. unfold horner. cbn [fold_left]. lia. Qed.

Lemma digit_of_le b : Abnf.digit b = true -> (digit_of b <= 9)%N.
Proof. intro H. rewrite (digit_of_val b H). apply is_digit_val. exact H. Qed.

(* ================================================================================================ *)
(* the functional mini-parsers and the digit tokens                                                 *)
(* ================================================================================================ *)
Lemma sdigit_ok b r : Abnf.digit b = true -> sdigit (b :: r) = Some (digit_of b, r).
Proof.
  intro H. unfold sdigit. rewrite <- digit_is, H. rewrite (digit_of_val b H). reflexivity.
Qed.

Lemma sdigit_inv s v r :
  sdigit s = Some (v, r) -> exists b, s = b :: r /\ Abnf.digit b = true /\ v = digit_of b.
Proof.
  unfold sdigit. destruct s as [|b s]; [discriminate|].
  destruct (is_digit b) eqn:E; [|discriminate]. intro H. injection H as <- <-.
  exists b. split; [reflexivity|]. split; [exact E|]. symmetry. apply digit_of_val. exact E.
Qed.

Lemma sbind_inv {A B} (p : sp A) (f : A -> sp B) s b r :
  sbind p f s = Some (b, r) -> exists a r1, p s = Some (a, r1) /\ f a r1 = Some (b, r).
Proof.
  unfold sbind. destruct (p s) as [[a r1]|]; [|discriminate]. intro H. exists a, r1. split; [reflexivity|exact H].
Qed.

Lemma two_ok t v r : digits_tok 2 t v -> two (t ++ r) = Some (v, r).
Proof.
  intros (Hl & Ha & ->). destruct t as [|a [|b [|c t]]]; try discriminate Hl.
  unfold all in Ha. cbn [forallb] in Ha. apply andb_true_iff in Ha as [Da Hb].
  apply andb_true_iff in Hb as [Db _].
  unfold two, sbind. cbn [app]. rewrite (sdigit_ok a _ Da), (sdigit_ok b _ Db). unfold sret.
  rewrite horner2. reflexivity.
Qed.

Lemma two_inv s v r : two s = Some (v, r) -> exists t, s = t ++ r /\ digits_tok 2 t v.
Proof.
  unfold two. intro H.
  apply sbind_inv in H as (a & r1 & H1 & H). apply sbind_inv in H as (b & r2 & H2 & H).
  unfold sret in H. injection H as <- <-.
  apply sdigit_inv in H1 as (x & -> & Dx & ->). apply sdigit_inv in H2 as (y & -> & Dy & ->).
  exists [x; y]. split; [reflexivity|]. split; [reflexivity|]. split.
  - unfold all. cbn [forallb]. rewrite Dx, Dy. reflexivity.
  - rewrite horner2. reflexivity.
Qed.

Lemma four_ok t v r : digits_tok 4 t v -> four (t ++ r) = Some (v, r).
Proof.
  intros (Hl & Ha & ->). destruct t as [|a [|b [|c [|e [|g t]]]]]; try discriminate Hl.
  unfold all in Ha. cbn [forallb] in Ha. apply andb_true_iff in Ha as [Da Ha].
  apply andb_true_iff in Ha as [Db Ha]. apply andb_true_iff in Ha as [Dc Ha].
  apply andb_true_iff in Ha as [De _].
  unfold four, sbind. cbn [app].
  rewrite (sdigit_ok a _ Da), (sdigit_ok b _ Db), (sdigit_ok c _ Dc), (sdigit_ok e _ De). unfold sret.
  rewrite horner4. reflexivity.
Qed.

Lemma four_inv s v r : four s = Some (v, r) -> exists t, s = t ++ r /\ digits_tok 4 t v.
Proof.
  unfold four. intro H.
  apply sbind_inv in H as (a & r1 & H1 & H). apply sbind_inv in H as (b & r2 & H2 & H).
  apply sbind_inv in H as (c & r3 & H3 & H). apply sbind_inv in H as (e & r4 & H4 & H).
  unfold sret in H. injection H as <- <-.
  apply sdigit_inv in H1 as (x & -> & Dx & ->). apply sdigit_inv in H2 as (y & -> & Dy & ->).
  apply sdigit_inv in H3 as (z & -> & Dz & ->). apply sdigit_inv in H4 as (w & -> & Dw & ->).
  exists [x; y; z; w]. split; [reflexivity|]. split; [reflexivity|]. split.
  - unfold all. cbn [forallb]. rewrite Dx, Dy, Dz, Dw. reflexivity.
  - rewrite horner4. reflexivity.
Qed.

Lemma sexpect_inv c s u r : sexpect c s = Some (u, r) -> s = c :: r.
Proof.
  unfold sexpect. destruct s as [|b s]; [discriminate|]. destruct (byte_eqb b c) eqn:E; [|discriminate].
  intro H. injection H as _ <-. apply byte_eqb_eq in E. subst. reflexivity.
Qed.

Lemma digits_tok_len n t v : digits_tok n t v -> length t = n.
Proof. intros (H & _). exact H. Qed.

Lemma digits_tok_head n t v : digits_tok (S n) t v -> exists b t', t = b :: t' /\ Abnf.digit b = true.
Proof.
  intros (Hl & Ha & _). destruct t as [|b t']; [discriminate|]. exists b, t'. split; [reflexivity|].
  unfold all in Ha. cbn [forallb] in Ha. apply andb_true_iff in Ha as [Ha _]. exact Ha.
Qed.

Lemma digits_tok2_bound t v : digits_tok 2 t v -> (v <= 99)%N.
Proof.
  intros (Hl & Ha & ->). destruct t as [|a [|b [|c t]]]; try discriminate Hl.
  unfold all in Ha. cbn [forallb] in Ha. apply andb_true_iff in Ha as [Da Hb].
  apply andb_true_iff in Hb as [Db _]. rewrite horner2.
  pose proof (digit_of_le a Da). pose proof (digit_of_le b Db). lia.
Qed.

Lemma digits_tok4_bound t v : digits_tok 4 t v -> (v <= 9999)%N.
Proof.
  intros (Hl & Ha & ->). destruct t as [|a [|b [|c [|e [|g t]]]]]; try discriminate Hl.
  unfold all in Ha. cbn [forallb] in Ha. apply andb_true_iff in Ha as [Da Ha].
  apply andb_true_iff in Ha as [Db Ha]. apply andb_true_iff in Ha as [Dc Ha].
  apply andb_true_iff in Ha as [De _]. rewrite horner4.
  pose proof (digit_of_le a Da). pose proof (digit_of_le b Db).
  pose proof (digit_of_le c Dc). pose proof (digit_of_le e De). lia.
Qed.

(* full-date, without the range conditions *)
Lemma date10_ok ty tm td y m dd r :
  digits_tok 4 ty y -> digits_tok 2 tm m -> digits_tok 2 td dd ->
  date10 (ty ++ [x2d] ++ tm ++ [x2d] ++ td ++ r) = Some ((y, m, dd), r).
Proof.
  intros Hy Hm Hd. unfold date10, sbind. rewrite (four_ok ty y _ Hy). cbn [app].
  change x2d with dash. rewrite sexpect_same. rewrite (two_ok tm m _ Hm). rewrite sexpect_same.
  rewrite (two_ok td dd _ Hd). reflexivity.
Qed.

Lemma date10_inv s y m dd r :
  date10 s = Some ((y, m, dd), r) ->
  exists ty tm td, s = ty ++ [x2d] ++ tm ++ [x2d] ++ td ++ r
                   /\ digits_tok 4 ty y /\ digits_tok 2 tm m /\ digits_tok 2 td dd.
Proof.
  unfold date10. intro H.
  apply sbind_inv in H as (y' & r1 & H1 & H). apply sbind_inv in H as (u1 & r2 & H2 & H).
  apply sbind_inv in H as (m' & r3 & H3 & H). apply sbind_inv in H as (u2 & r4 & H4 & H).
  apply sbind_inv in H as (d' & r5 & H5 & H). unfold sret in H. injection H as <- <- <- <-.
  apply four_inv in H1 as (ty & -> & Hy). apply sexpect_inv in H2 as ->.
  apply two_inv in H3 as (tm & -> & Hm). apply sexpect_inv in H4 as ->.
  apply two_inv in H5 as (td & -> & Hd).
  exists ty, tm, td. split; [reflexivity|]. split; [exact Hy|]. split; [exact Hm|exact Hd].
Qed.

(* hh:mm:ss, without the range conditions *)
Lemma time8_ok th tmi ts h mi s r :
  digits_tok 2 th h -> digits_tok 2 tmi mi -> digits_tok 2 ts s ->
  time8 (th ++ [x3a] ++ tmi ++ [x3a] ++ ts ++ r) = Some ((h, mi, s), r).
Proof.
  intros Hh Hm Hs. unfold time8, sbind. rewrite (two_ok th h _ Hh). cbn [app].
  change x3a with colon. rewrite sexpect_same. rewrite (two_ok tmi mi _ Hm). rewrite sexpect_same.
  rewrite (two_ok ts s _ Hs). reflexivity.
Qed.

Lemma time8_inv x h mi s r :
  time8 x = Some ((h, mi, s), r) ->
  exists th tmi ts, x = th ++ [x3a] ++ tmi ++ [x3a] ++ ts ++ r
                    /\ digits_tok 2 th h /\ digits_tok 2 tmi mi /\ digits_tok 2 ts s.
Proof.
  unfold time8. intro H.
  apply sbind_inv in H as (h' & r1 & H1 & H). apply sbind_inv in H as (u1 & r2 & H2 & H).
  apply sbind_inv in H as (m' & r3 & H3 & H). apply sbind_inv in H as (u2 & r4 & H4 & H).
  apply sbind_inv in H as (s' & r5 & H5 & H). unfold sret in H. injection H as <- <- <- <-.
  apply two_inv in H1 as (th & -> & Hh). apply sexpect_inv in H2 as ->.
  apply two_inv in H3 as (tmi & -> & Hm). apply sexpect_inv in H4 as ->.
  apply two_inv in H5 as (ts & -> & Hs).
  exists th, tmi, ts. split; [reflexivity|]. split; [exact Hh|]. split; [exact Hm|exact Hs].
Qed.

(* hh:mm of a numeric offset *)
Lemma hm5_ok th tmi h mi r :
  digits_tok 2 th h -> digits_tok 2 tmi mi -> hm5 (th ++ [x3a] ++ tmi ++ r) = Some ((h, mi), r).
Proof.
  intros Hh Hm. unfold hm5, sbind. rewrite (two_ok th h _ Hh). cbn [app].
  change x3a with colon. rewrite sexpect_same. rewrite (two_ok tmi mi _ Hm). reflexivity.
Qed.

Lemma hm5_inv x h mi r :
  hm5 x = Some ((h, mi), r) ->
  exists th tmi, x = th ++ [x3a] ++ tmi ++ r /\ digits_tok 2 th h /\ digits_tok 2 tmi mi.
Proof.
  unfold hm5. intro H.
  apply sbind_inv in H as (h' & r1 & H1 & H). apply sbind_inv in H as (u1 & r2 & H2 & H).
  apply sbind_inv in H as (m' & r3 & H3 & H). unfold sret in H. injection H as <- <- <-.
  apply two_inv in H1 as (th & -> & Hh). apply sexpect_inv in H2 as ->.
  apply two_inv in H3 as (tmi & -> & Hm).
  exists th, tmi. split; [reflexivity|]. split; [exact Hh|exact Hm].
Qed.

(* ================================================================================================ *)
(* the fraction: the parser's weighted sum is the grammar's "first nine digits, zero padded"         *)
(* ================================================================================================ *)
Lemma dec_value_acc_horner ds : forallb is_digit ds = true -> forall acc,
  dec_value_acc acc ds = fold_left (fun a b => (a * 10 + digit_of b)%N) ds acc.
Proof.
  induction ds as [|b ds IH]; intros H acc; [reflexivity|].
  cbn [forallb] in H. apply andb_true_iff in H as [Hd Hds]. cbn [dec_value_acc fold_left].
  rewrite (IH Hds). rewrite (digit_of_val b Hd). reflexivity.
Qed.

Lemma dec_value_horner ds : forallb is_digit ds = true -> dec_value ds = horner 10 ds.
Proof. intro H. unfold dec_value, horner. apply dec_value_acc_horner. exact H. Qed.

Lemma repeat_zero_in n b : In b (repeat x30 n) -> b = x30.
Proof. intro H. apply repeat_spec in H. exact H. Qed.

Lemma forallb_repeat_zero n : forallb is_digit (repeat x30 n) = true.
Proof. induction n as [|n IH]; [reflexivity|]. cbn [repeat forallb]. rewrite IH. reflexivity. Qed.

Lemma fracval_nanos ds : all Abnf.digit ds -> fracval 0 ds = nanos ds.
Proof.
  intro Hd. apply all_digit_is in Hd. unfold nanos.
  set (l := ds ++ repeat x30 9).
  assert (Hl : forallb is_digit l = true).
  { unfold l. rewrite forallb_app, Hd, forallb_repeat_zero. reflexivity. }
  assert (Hlen : length (firstn 9 l) = 9%nat).
  { rewrite firstn_length. unfold l. rewrite app_length, repeat_length. lia. }
  pose proof (forallb_firstn is_digit 9 l Hl) as Hf.
  destruct (fracval_nine (firstn 9 l) Hlen Hf) as [E _].
  rewrite <- (dec_value_horner _ Hf), <- E.
  rewrite <- (fracval_app_zeros ds (repeat x30 9) (repeat_zero_in 9) 0). fold l.
  apply (fracval_firstn l 0).
Qed.

Lemma nanos_bound ds : all Abnf.digit ds -> (nanos ds <= 999999999)%N.
Proof. intro H. rewrite <- (fracval_nanos ds H). apply fracval_bound. exact H. Qed.

(* ================================================================================================ *)
(* full-date                                                                                        *)
(* ================================================================================================ *)
Lemma full_date_tok_len t dt : full_date_tok t dt -> length t = 10%nat.
Proof.
  intros (ty & tm & td & y & m & dd & -> & Hy & Hm & Hd & _).
  apply digits_tok_len in Hy, Hm, Hd. rewrite !app_length, Hy, Hm, Hd. reflexivity.
Qed.

Lemma full_date_sound s p d dt i' :
  full_date (mkIn s p d) = Ok dt i' ->
  exists t r, s = t ++ r /\ full_date_tok t dt /\ i' = mkIn r (p + N.of_nat (length t))%N d.
Proof.
  intro Hok. pose proof (full_date_nf s p d) as H.
  destruct (date10 s) as [[[[y m] dd] r]|] eqn:E.
  2:{ exfalso. destruct H as [H|H]; [eapply not_ok_soft|eapply not_ok_hard]; eassumption. }
  destruct ((m <? 1)%N || (12 <? m)%N) eqn:E1; [exfalso; eapply not_ok_hard; eassumption|].
  destruct ((dd <? 1)%N || (31 <? dd)%N) eqn:E2; [exfalso; eapply not_ok_hard; eassumption|].
  destruct (max_days DT_MAXDAYS m (is_leap_year y) <? dd)%N eqn:E3; [exfalso; eapply not_ok_hard; eassumption|].
  rewrite H in Hok. injection Hok as <- <-.
  apply date10_inv in E as (ty & tm & td & -> & Hy & Hm & Hd).
  assert (Htok : full_date_tok (ty ++ [x2d] ++ tm ++ [x2d] ++ td) (mkDate y m dd)).
  { exists ty, tm, td, y, m, dd. split; [reflexivity|]. split; [exact Hy|]. split; [exact Hm|].
    split; [exact Hd|]. split; [reflexivity|].
    pose proof (digits_tok4_bound _ _ Hy) as By.
    assert (Hm12 : (1 <= m <= 12)%N) by lia.
    pose proof (max_days_spec m y Hm12) as Hmd. change SD_MAXDAYS with DT_MAXDAYS in Hmd.
    rewrite Hmd in E3.
    unfold date_ok. cbn [year month day]. lia. }
  exists (ty ++ [x2d] ++ tm ++ [x2d] ++ td), r. split.
  - rewrite <- !app_assoc. reflexivity.
  - split; [exact Htok|]. apply mkIn_eq. rewrite (full_date_tok_len _ _ Htok). lia.
Qed.

Lemma full_date_complete t dt r p d :
  full_date_tok t dt -> full_date (mkIn (t ++ r) p d) = Ok dt (mkIn r (p + N.of_nat (length t))%N d).
Proof.
  intro Htok. pose proof (full_date_tok_len _ _ Htok) as Hlen.
  destruct Htok as (ty & tm & td & y & m & dd & -> & Hy & Hm & Hd & -> & Hok).
  pose proof (full_date_nf ((ty ++ [x2d] ++ tm ++ [x2d] ++ td) ++ r) p d) as H.
  replace ((ty ++ [x2d] ++ tm ++ [x2d] ++ td) ++ r) with (ty ++ [x2d] ++ tm ++ [x2d] ++ td ++ r) in *
    by (rewrite <- !app_assoc; reflexivity).
  rewrite (date10_ok ty tm td y m dd r Hy Hm Hd) in H.
  unfold date_ok in Hok. cbn [year month day] in Hok.
  assert (Hm12 : (1 <= m <= 12)%N) by lia.
  pose proof (max_days_spec m y Hm12) as Hmd. change SD_MAXDAYS with DT_MAXDAYS in Hmd.
  pose proof (days_in_month_le y m Hm12) as Hle.
  destruct ((m <? 1)%N || (12 <? m)%N) eqn:E1; [lia|].
  destruct ((dd <? 1)%N || (31 <? dd)%N) eqn:E2; [lia|].
  rewrite Hmd in H.
  destruct (days_in_month y m <? dd)%N eqn:E3; [lia|].
  rewrite H. f_equal. apply mkIn_eq. rewrite Hlen. lia.
Qed.

(* a text whose third byte is not a digit is no date: the date parser backtracks *)
Lemma full_date_soft3 a b c r p d : Abnf.digit c = false -> soft (full_date (mkIn (a :: b :: c :: r) p d)).
Proof. intro H. apply full_date_soft. apply four_third. exact H. Qed.

(* ================================================================================================ *)
(* partial-time                                                                                     *)
(* ================================================================================================ *)
(* what may follow a partial-time for it to be read entirely: no further fraction digit, no "." *)
Definition time_follow (r : bytes) : Prop :=
  match r with [] => True | b :: _ => Abnf.digit b = false /\ b <> x2e end.

Lemma dt_stop_time_follow r : dt_stop r -> time_follow r.
Proof. destruct r as [|b r]; [trivial|]. intros (H1 & H2 & _). split; assumption. Qed.

Lemma partial_time_tok_len t tm : partial_time_tok t tm -> (8 <= length t)%nat.
Proof.
  intros (th & tmi & ts & tf & h & mi & s & ns & -> & Hh & Hm & Hs & _).
  apply digits_tok_len in Hh, Hm, Hs. rewrite !app_length, Hh, Hm, Hs. cbn [length]. lia.
Qed.

Lemma partial_time_sound s p d tm i' :
  partial_time (mkIn s p d) = Ok tm i' ->
  exists t r, s = t ++ r /\ partial_time_tok t tm /\ i' = mkIn r (p + N.of_nat (length t))%N d.
Proof.
  intro Hok. pose proof (partial_time_nf s p d) as H.
  destruct (time8 s) as [[[[h mi] sec] r1]|] eqn:E.
  2:{ exfalso. destruct H as [H|H]; [eapply not_ok_soft|eapply not_ok_hard]; eassumption. }
  destruct (23 <? h)%N eqn:E1; [exfalso; eapply not_ok_soft; eassumption|].
  destruct ((59 <? mi)%N || (60 <? sec)%N) eqn:E2; [exfalso; eapply not_ok_hard; eassumption|].
  apply time8_inv in E as (th & tmi & ts & -> & Hh & Hm & Hs).
  pose proof (digits_tok_len _ _ _ Hh) as Lh. pose proof (digits_tok_len _ _ _ Hm) as Lm.
  pose proof (digits_tok_len _ _ _ Hs) as Ls.
  rewrite H in Hok. rewrite opt_secfrac in Hok.
  (* the two shapes of the result *)
  assert (Hnone : finish_time h mi sec (Ok None (mkIn r1 (p + 2 + 1 + 2 + 1 + 2)%N d)) = Ok tm i' ->
    exists t r, th ++ [x3a] ++ tmi ++ [x3a] ++ ts ++ r1 = t ++ r /\ partial_time_tok t tm
                /\ i' = mkIn r (p + N.of_nat (length t))%N d).
  { intro Hf. unfold finish_time in Hf. injection Hf as <- <-.
    exists (th ++ [x3a] ++ tmi ++ [x3a] ++ ts ++ []), r1. split.
    - rewrite <- !app_assoc. reflexivity.
    - split.
      + exists th, tmi, ts, [], h, mi, sec, 0%N. split; [reflexivity|].
        split; [exact Hh|]. split; [exact Hm|]. split; [exact Hs|].
        split; [left; split; reflexivity|]. split; [lia|]. split; [lia|]. split; [lia|reflexivity].
      + apply mkIn_eq. rewrite !app_length, Lh, Lm, Ls. cbn [length]. lia. }
  destruct r1 as [|b r2]; [exact (Hnone Hok)|].
  destruct (byte_eqb b dot) eqn:Eb; [|exact (Hnone Hok)].
  pose proof (span_while_all is_digit r2) as Hall. pose proof (span_while_app is_digit r2) as Happ.
  destruct (fst (span_while is_digit r2)) as [|x ds] eqn:Ef; [exact (Hnone Hok)|].
  clear Hnone. apply byte_eqb_eq in Eb. subst b.
  unfold finish_time in Hok. injection Hok as <- <-.
  set (q := snd (span_while is_digit r2)) in *.
  exists (th ++ [x3a] ++ tmi ++ [x3a] ++ ts ++ (x2e :: x :: ds)), q. split.
  - rewrite <- Happ. rewrite <- !app_assoc. reflexivity.
  - split.
    + exists th, tmi, ts, (x2e :: x :: ds), h, mi, sec, (fracval 0 (x :: ds)). split; [reflexivity|].
      split; [exact Hh|]. split; [exact Hm|]. split; [exact Hs|]. split.
      * right. exists (x :: ds). split; [reflexivity|]. split; [discriminate|].
        split; [exact Hall|]. apply fracval_nanos. exact Hall.
      * split; [lia|]. split; [lia|]. split; [lia|reflexivity].
    + apply mkIn_eq. rewrite !app_length, Lh, Lm, Ls. cbn [length]. lia.
Qed.

Lemma partial_time_complete t tm r p d :
  partial_time_tok t tm -> time_follow r ->
  partial_time (mkIn (t ++ r) p d) = Ok tm (mkIn r (p + N.of_nat (length t))%N d).
Proof.
  intros (th & tmi & ts & tf & h & mi & s & ns & -> & Hh & Hm & Hs & Hf & Bh & Bm & Bs & ->) Hfol.
  pose proof (digits_tok_len _ _ _ Hh) as Lh. pose proof (digits_tok_len _ _ _ Hm) as Lm.
  pose proof (digits_tok_len _ _ _ Hs) as Ls.
  pose proof (partial_time_nf ((th ++ [x3a] ++ tmi ++ [x3a] ++ ts ++ tf) ++ r) p d) as H.
  replace ((th ++ [x3a] ++ tmi ++ [x3a] ++ ts ++ tf) ++ r)
    with (th ++ [x3a] ++ tmi ++ [x3a] ++ ts ++ (tf ++ r)) in *
    by (rewrite <- !app_assoc; reflexivity).
  rewrite (time8_ok th tmi ts h mi s (tf ++ r) Hh Hm Hs) in H.
  destruct (23 <? h)%N eqn:E1; [lia|].
  destruct ((59 <? mi)%N || (60 <? s)%N) eqn:E2; [lia|].
  rewrite H. rewrite opt_secfrac.
  assert (Hlen : length (th ++ [x3a] ++ tmi ++ [x3a] ++ ts ++ tf) = (8 + length tf)%nat).
  { rewrite !app_length, Lh, Lm, Ls. cbn [length]. lia. }
  rewrite Hlen. clear Hlen H.
  destruct Hf as [[-> ->]|(ds & -> & Hne & Hd & ->)].
  - cbn [app length].
    assert (Hgoal : finish_time h mi s (Ok None (mkIn r (p + 2 + 1 + 2 + 1 + 2)%N d)) =
                    Ok (mkTime h mi s 0) (mkIn r (p + N.of_nat (8 + 0))%N d)).
    { unfold finish_time. apply f_equal. apply mkIn_eq. lia. }
    destruct r as [|b r']; [exact Hgoal|]. destruct Hfol as [_ Hb].
    apply byte_eqb_neq in Hb. change dot with x2e. rewrite Hb. exact Hgoal.
  - cbn [app]. change (byte_eqb x2e dot) with true. cbv iota.
    assert (Hst : stops is_digit r).
    { destruct r as [|b r']; [exact I|]. destruct Hfol as [Hb _]. exact Hb. }
    rewrite (span_while_exact is_digit ds r Hd Hst). cbn [fst snd].
    destruct ds as [|x ds']; [congruence|].
    unfold finish_time. rewrite (fracval_nanos _ Hd). f_equal.
    apply mkIn_eq. cbn [length]. lia.
Qed.

(* no digit in front: the time parser backtracks *)
Lemma partial_time_soft_nodigit s p d : stops is_digit s -> soft (partial_time (mkIn s p d)).
Proof.
  intro H. unfold partial_time, time_hour. rewrite bind_two.
  assert (E : two s = None).
  { unfold two, sbind, sdigit. destruct s as [|b s']; [reflexivity|]. cbn [stops] in H. rewrite H. reflexivity. }
  rewrite E. apply soft_intro.
Qed.

(* ================================================================================================ *)
(* [ time-offset ]                                                                                  *)
(* ================================================================================================ *)
Lemma sign_of_cases b sg : sign_of b = Some sg -> (b = x2b /\ sg = 1%Z) \/ (b = x2d /\ sg = (-1)%Z).
Proof.
  unfold sign_of. destruct (byte_eqb b plus) eqn:E1.
  - intro H. injection H as <-. apply byte_eqb_eq in E1. left. split; [exact E1|reflexivity].
  - destruct (byte_eqb b dash) eqn:E2; [|discriminate].
    intro H. injection H as <-. apply byte_eqb_eq in E2. right. split; [exact E2|reflexivity].
Qed.

(* exact description of `opt time_offset` *)
Lemma opt_offset_nf s p d :
  match s with
  | [] => opt time_offset (mkIn s p d) = Ok None (mkIn s p d)
  | b :: r =>
    if byte_eqb b x5a || byte_eqb b x7a
    then opt time_offset (mkIn s p d) = Ok (Some OffZ) (mkIn r (p + 1)%N d)
    else match sign_of b with
         | None => opt time_offset (mkIn s p d) = Ok None (mkIn s p d)
         | Some sg =>
           match hm5 r with
           | None => hard (opt time_offset (mkIn s p d))
           | Some ((h, mi), q) =>
             if (23 <? h)%N || (59 <? mi)%N then hard (opt time_offset (mkIn s p d))
             else opt time_offset (mkIn s p d)
                  = Ok (Some (OffCustom (sg * Z.of_N (h * 60 + mi))%Z)) (mkIn q (p + 1 + 2 + 1 + 2)%N d)
           end
         end
  end.
Proof.
  destruct s as [|b r]; [reflexivity|].
  rewrite time_offset_eq. unfold opt, context, alt, pvalue, pmap, verify. unfold one_of. cbn [rest].
  destruct (byte_eqb b x5a || byte_eqb b x7a); [reflexivity|].
  pose proof (signed_hm_spec b r p d _ eq_refl) as HS.
  destruct (sign_of b) as [sg|] eqn:Esg.
  2:{ destruct HS as (e & i & HS). rewrite HS. reflexivity. }
  destruct (hm5 r) as [[[h mi] q]|].
  2:{ destruct HS as (e & i & HS). rewrite HS. apply hard_intro. }
  destruct ((23 <? h)%N || (59 <? mi)%N) eqn:Eb.
  { destruct HS as (e & i & HS). rewrite HS. apply hard_intro. }
  rewrite HS. change DT_OFFSET_MIN with (-1440)%Z. change DT_OFFSET_MAX with 1440%Z.
  apply sign_of_cases in Esg.
  destruct ((-1440 <=? sg * Z.of_N (h * 60 + mi))%Z && (sg * Z.of_N (h * 60 + mi) <=? 1440)%Z) eqn:Ev;
    [reflexivity|].
  exfalso. destruct Esg as [[_ ->]|[_ ->]]; lia.
Qed.

Lemma time_offset_tok_len t o : time_offset_tok t o -> (1 <= length t)%nat.
Proof.
  intros [[[->| ->] _]|(sg & neg & th & tmi & h & mi & -> & Hsg & _)]; [cbn [length]; lia..|].
  rewrite app_length. destruct Hsg as [[-> _]|[-> _]]; cbn [length]; lia.
Qed.

Lemma opt_offset_sound s p d oo i' :
  opt time_offset (mkIn s p d) = Ok oo i' ->
  (oo = None /\ i' = mkIn s p d)
  \/ exists t o r, oo = Some o /\ s = t ++ r /\ time_offset_tok t o
                   /\ i' = mkIn r (p + N.of_nat (length t))%N d.
Proof.
  intro Hok. pose proof (opt_offset_nf s p d) as H.
  destruct s as [|b r].
  { rewrite H in Hok. injection Hok as <- <-. left. split; reflexivity. }
  destruct (byte_eqb b x5a || byte_eqb b x7a) eqn:Ez.
  { rewrite H in Hok. injection Hok as <- <-. right. exists [b], OffZ, r.
    split; [reflexivity|]. split; [reflexivity|]. split; [|reflexivity].
    left. split; [|reflexivity]. apply orb_true_iff in Ez as [E|E]; apply byte_eqb_eq in E; subst b; auto. }
  destruct (sign_of b) as [sg|] eqn:Esg.
  2:{ rewrite H in Hok. injection Hok as <- <-. left. split; reflexivity. }
  destruct (hm5 r) as [[[h mi] q]|] eqn:Eh; [|exfalso; eapply not_ok_hard; eassumption].
  destruct ((23 <? h)%N || (59 <? mi)%N) eqn:Eb; [exfalso; eapply not_ok_hard; eassumption|].
  rewrite H in Hok. injection Hok as <- <-.
  apply hm5_inv in Eh as (th & tmi & -> & Hh & Hm).
  pose proof (digits_tok_len _ _ _ Hh) as Lh. pose proof (digits_tok_len _ _ _ Hm) as Lm.
  right. exists ([b] ++ th ++ [x3a] ++ tmi), (OffCustom (sg * Z.of_N (h * 60 + mi))%Z), q.
  split; [reflexivity|]. split; [rewrite <- !app_assoc; reflexivity|]. split.
  - right. apply sign_of_cases in Esg.
    destruct Esg as [[-> ->]|[-> ->]].
    + exists [x2b], false, th, tmi, h, mi. split; [reflexivity|]. split; [left; split; reflexivity|].
      split; [exact Hh|]. split; [exact Hm|]. split; [lia|]. split; [lia|].
      unfold signed. f_equal; lia.
    + exists [x2d], true, th, tmi, h, mi. split; [reflexivity|]. split; [right; split; reflexivity|].
      split; [exact Hh|]. split; [exact Hm|]. split; [lia|]. split; [lia|].
      unfold signed. f_equal; lia.
  - apply mkIn_eq. rewrite !app_length, Lh, Lm. cbn [length]. lia.
Qed.

Lemma opt_offset_complete t o r p d :
  time_offset_tok t o ->
  opt time_offset (mkIn (t ++ r) p d) = Ok (Some o) (mkIn r (p + N.of_nat (length t))%N d).
Proof.
  intros [[Ht ->]|(sg & neg & th & tmi & h & mi & -> & Hsg & Hh & Hm & Bh & Bm & ->)].
  - pose proof (opt_offset_nf (t ++ r) p d) as H.
    destruct Ht as [-> | ->]; cbn [app] in *.
    + change (byte_eqb x5a x5a || byte_eqb x5a x7a) with true in H. cbv iota in H. exact H.
    + change (byte_eqb x7a x5a || byte_eqb x7a x7a) with true in H. cbv iota in H. exact H.
  - pose proof (digits_tok_len _ _ _ Hh) as Lh. pose proof (digits_tok_len _ _ _ Hm) as Lm.
    assert (Hlen : length (sg ++ th ++ [x3a] ++ tmi) = 6%nat).
    { rewrite !app_length, Lh, Lm. destruct Hsg as [[-> _]|[-> _]]; reflexivity. }
    rewrite Hlen.
    replace ((sg ++ th ++ [x3a] ++ tmi) ++ r) with (sg ++ th ++ [x3a] ++ tmi ++ r)
      by (rewrite <- !app_assoc; reflexivity).
    destruct Hsg as [[-> ->]|[-> ->]].
    + pose proof (opt_offset_nf ([x2b] ++ th ++ [x3a] ++ tmi ++ r) p d) as H. cbn [app] in H.
      change (byte_eqb x2b x5a || byte_eqb x2b x7a) with false in H. cbv iota in H.
      change (sign_of x2b) with (Some 1%Z) in H. cbv iota in H.
      change (x3a :: tmi ++ r) with ([x3a] ++ tmi ++ r) in H.
      rewrite (hm5_ok th tmi h mi r Hh Hm) in H.
      destruct ((23 <? h)%N || (59 <? mi)%N) eqn:Eb; [lia|].
      cbn [app] in H |- *. rewrite H. unfold signed.
      replace (1 * Z.of_N (h * 60 + mi))%Z with (Z.of_N (h * 60 + mi)) by lia.
      apply f_equal. apply mkIn_eq. lia.
    + pose proof (opt_offset_nf ([x2d] ++ th ++ [x3a] ++ tmi ++ r) p d) as H. cbn [app] in H.
      change (byte_eqb x2d x5a || byte_eqb x2d x7a) with false in H. cbv iota in H.
      change (sign_of x2d) with (Some (-1)%Z) in H. cbv iota in H.
      change (x3a :: tmi ++ r) with ([x3a] ++ tmi ++ r) in H.
      rewrite (hm5_ok th tmi h mi r Hh Hm) in H.
      destruct ((23 <? h)%N || (59 <? mi)%N) eqn:Eb; [lia|].
      cbn [app] in H |- *. rewrite H. unfold signed.
      replace (-1 * Z.of_N (h * 60 + mi))%Z with (- Z.of_N (h * 60 + mi))%Z by lia.
      apply f_equal. apply mkIn_eq. lia.
Qed.

(* what cannot start an offset *)
Definition offset_stop (r : bytes) : Prop :=
  match r with [] => True | b :: _ => b <> x5a /\ b <> x7a /\ b <> x2b /\ b <> x2d end.

Lemma dt_stop_offset_stop r : dt_stop r -> offset_stop r.
Proof. destruct r as [|b r]; [trivial|]. intros (_ & _ & _ & _ & H1 & H2 & H3 & H4 & _). repeat split; assumption. Qed.

Lemma opt_offset_none r p d : offset_stop r -> opt time_offset (mkIn r p d) = Ok None (mkIn r p d).
Proof.
  intro Hs. pose proof (opt_offset_nf r p d) as H. destruct r as [|b r']; [exact H|].
  destruct Hs as (H1 & H2 & H3 & H4).
  apply byte_eqb_neq in H1, H2, H3, H4. rewrite H1, H2 in H. cbn [orb] in H.
  unfold sign_of in H. change plus with x2b in H. change dash with x2d in H. rewrite H3, H4 in H. exact H.
Qed.

(* the first byte of an offset is neither a digit nor "." *)
Lemma offset_tok_follow t o r : time_offset_tok t o -> time_follow (t ++ r).
Proof.
  intros [[[->| ->] _]|(sg & neg & th & tmi & h & mi & -> & [[-> _]|[-> _]] & _)];
    cbn [app time_follow]; (split; [reflexivity|discriminate]).
Qed.

(* ================================================================================================ *)
(* what follows the date: [ time-delim partial-time [ time-offset ] ]                               *)
(* ================================================================================================ *)
Lemma time_delim_eqb b : Abnf.time_delim b = byte_eqb b x54 || byte_eqb b x74 || byte_eqb b x20.
Proof.
  rewrite !byte_eqb_n. unfold Abnf.time_delim, rng.
  change (b2n x54) with 84%N. change (b2n x74) with 116%N. change (b2n x20) with 32%N. lia.
Qed.

Lemma after_date_sound s p d o i' :
  after_date (mkIn s p d) = Ok o i' ->
  (o = None /\ i' = mkIn s p d)
  \/ exists dl tt tz tm off r,
       s = [dl] ++ tt ++ tz ++ r /\ Abnf.time_delim dl = true /\ partial_time_tok tt tm
       /\ ((tz = [] /\ off = None) \/ exists o', off = Some o' /\ time_offset_tok tz o')
       /\ o = Some (tm, off) /\ i' = mkIn r (p + N.of_nat (length ([dl] ++ tt ++ tz)))%N d.
Proof.
  intro Hok. destruct s as [|b r2].
  { unfold after_date, opt, bind, Datetime.time_delim, one_of in Hok. cbn [rest] in Hok.
    injection Hok as <- <-. left. split; reflexivity. }
  unfold after_date in Hok. unfold opt at 1 in Hok. unfold Datetime.time_delim in Hok.
  rewrite bind_one_of in Hok. rewrite in_class_delim in Hok. rewrite <- time_delim_eqb in Hok.
  destruct (Abnf.time_delim b) eqn:Ed.
  2:{ injection Hok as <- <-. left. split; reflexivity. }
  unfold bind at 1 in Hok.
  destruct (partial_time (mkIn r2 (p + 1)%N d)) as [tm i3|e j|e j|st] eqn:EP; try discriminate Hok.
  2:{ injection Hok as <- <-. left. split; reflexivity. }
  apply partial_time_sound in EP as (tt & r3 & -> & Htt & ->).
  unfold bind at 1 in Hok.
  destruct (opt time_offset (mkIn r3 (p + 1 + N.of_nat (length tt))%N d)) as [oo i4|e j|e j|st] eqn:EO;
    try discriminate Hok.
  2:{ injection Hok as <- <-. left. split; reflexivity. }
  unfold ret in Hok. injection Hok as <- <-.
  apply opt_offset_sound in EO as [[-> ->]|(tz & o' & r & -> & -> & Htz & ->)].
  - right. exists b, tt, [], tm, None, r3. split; [reflexivity|]. split; [exact Ed|].
    split; [exact Htt|]. split; [left; split; reflexivity|]. split; [reflexivity|].
    apply mkIn_eq. rewrite !app_length. cbn [length]. lia.
  - right. exists b, tt, tz, tm, (Some o'), r. split; [reflexivity|]. split; [exact Ed|].
    split; [exact Htt|]. split; [right; exists o'; split; [reflexivity|exact Htz]|]. split; [reflexivity|].
    apply mkIn_eq. rewrite !app_length. cbn [length]. lia.
Qed.

(* nothing that could continue the date: the optional tail is empty *)
Lemma after_date_none r p d : dt_stop r -> after_date (mkIn r p d) = Ok None (mkIn r p d).
Proof.
  intro Hs. destruct r as [|b r'].
  { unfold after_date, opt, bind, Datetime.time_delim, one_of. cbn [rest]. reflexivity. }
  unfold after_date. unfold opt at 1. unfold Datetime.time_delim.
  rewrite bind_one_of. rewrite in_class_delim.
  destruct Hs as (_ & _ & HT & Ht & _ & _ & _ & _ & Hsp).
  apply byte_eqb_neq in HT, Ht. rewrite HT, Ht. cbn [orb].
  destruct (byte_eqb b x20) eqn:Esp; [|reflexivity].
  apply byte_eqb_eq in Esp. specialize (Hsp Esp).
  assert (Hst : stops is_digit r') by (destruct r' as [|c r'']; [exact I|exact Hsp]).
  destruct (partial_time_soft_nodigit r' (p + 1)%N d Hst) as (e & j & EP).
  unfold bind at 1. rewrite EP. reflexivity.
Qed.

Lemma after_date_time dl tt tz tm off r p d :
  Abnf.time_delim dl = true -> partial_time_tok tt tm ->
  ((tz = [] /\ off = None /\ time_follow r /\ offset_stop r)
   \/ exists o', off = Some o' /\ time_offset_tok tz o') ->
  after_date (mkIn ([dl] ++ tt ++ tz ++ r) p d)
  = Ok (Some (tm, off)) (mkIn r (p + N.of_nat (length ([dl] ++ tt ++ tz)))%N d).
Proof.
  intros Hdl Htt Htz. cbn [app]. unfold after_date. unfold opt at 1. unfold Datetime.time_delim.
  rewrite bind_one_of. rewrite in_class_delim. rewrite <- time_delim_eqb. rewrite Hdl.
  unfold bind at 1.
  assert (Hfol : time_follow (tz ++ r)).
  { destruct Htz as [(-> & _ & Hf & _)|(o' & _ & Ho)]; [exact Hf|]. eapply offset_tok_follow. exact Ho. }
  rewrite (partial_time_complete tt tm (tz ++ r) (p + 1)%N d Htt Hfol).
  unfold bind at 1.
  destruct Htz as [(-> & -> & _ & Hos)|(o' & -> & Ho)].
  - cbn [app]. rewrite (opt_offset_none r _ d Hos). unfold ret. apply f_equal. apply mkIn_eq.
    cbn [length]. rewrite !app_length. cbn [length]. lia.
  - rewrite (opt_offset_complete tz o' r _ d Ho). unfold ret. apply f_equal. apply mkIn_eq.
    cbn [length]. rewrite !app_length. cbn [length]. lia.
Qed.

(* ================================================================================================ *)
(* date-time                                                                                        *)
(* ================================================================================================ *)
Lemma date_time_unf i :
  date_time i =
  match full_date i with
  | Ok dt i1 =>
    match after_date i1 with
    | Ok o i2 => Ok (mk_after dt o) i2
    | Bt e j => context (pmap time_only_dt partial_time) i
    | Cut e j => Cut (mkErr (e_cause e) true) j
    | Panic st => Panic st
    end
  | Bt e j => context (pmap time_only_dt partial_time) i
  | Cut e j => Cut (mkErr (e_cause e) true) j
  | Panic st => Panic st
  end.
Proof.
  unfold date_time, alt. unfold context at 1. unfold bind at 1.
  destruct (full_date i) as [dt i1|e j|e j|st]; try reflexivity.
  unfold bind at 1. fold after_date.
  destruct (after_date i1) as [o i2|e j|e j|st]; reflexivity.
Qed.

Lemma after_date_not_bt i e j : after_date i = Bt e j -> False.
Proof. unfold after_date, opt. destruct (bind _ _ i); discriminate. Qed.

Lemma splits_mk' s t r p q d :
  s = t ++ r -> q = (p + N.of_nat (length t))%N -> splits (mkIn s p d) t (mkIn r q d).
Proof. intros -> ->. apply splits_mk. Qed.

Lemma partial_time_tok_shape t tm : partial_time_tok t tm -> exists a b t', t = a :: b :: x3a :: t'.
Proof.
  intros (th & tmi & ts & tf & h & mi & s & ns & -> & (Lh & _) & _).
  destruct th as [|a [|b [|c th]]]; try discriminate Lh. eexists _, _, _. reflexivity.
Qed.

Theorem date_time_sound i d i' : date_time i = Ok d i' -> exists t, date_time_tok t d /\ splits i t i'.
Proof.
  destruct i as [s p dp]. rewrite date_time_unf.
  destruct (full_date (mkIn s p dp)) as [dt i1|e j|e j|st] eqn:EF; try discriminate.
  - apply full_date_sound in EF as (td & r1 & -> & Htd & ->).
    destruct (after_date (mkIn r1 (p + N.of_nat (length td))%N dp)) as [o i2|e j|e j|st] eqn:EA;
      try discriminate.
    2:{ exfalso. eapply after_date_not_bt. exact EA. }
    intro H. injection H as <- <-.
    apply after_date_sound in EA
      as [[-> ->]|(dl & tt & tz & tm & off & r & -> & Hdl & Htt & Htz & -> & ->)].
    + exists td. split; [|apply splits_mk].
      right. right. left. exists dt. split; [exact Htd|reflexivity].
    + destruct Htz as [[-> ->]|(o' & -> & Htz)].
      * exists (td ++ [dl] ++ tt). split.
        -- right. left. exists td, dl, tt, dt, tm. repeat split; assumption.
        -- apply splits_mk'; [rewrite <- !app_assoc; reflexivity|].
           rewrite !app_length. cbn [length]. lia.
      * exists (td ++ [dl] ++ tt ++ tz). split.
        -- left. exists td, dl, tt, tz, dt, tm, o'. repeat split; assumption.
        -- apply splits_mk'; [rewrite <- !app_assoc; reflexivity|].
           rewrite !app_length. cbn [length]. lia.
  - intro H. apply context_inv in H. apply pmap_inv in H as (tm & H & ->).
    apply partial_time_sound in H as (t & r & -> & Ht & ->).
    exists t. split; [|apply splits_mk].
    right. right. right. exists tm. split; [exact Ht|reflexivity].
Qed.

Theorem date_time_complete i t d r :
  date_time_tok t d -> rest i = t ++ r -> dt_stop r -> date_time i = Ok d (adv t i).
Proof.
  destruct i as [s p dp]. cbn [rest]. intros Htok -> Hstop. rewrite adv_mk. rewrite date_time_unf.
  destruct Htok as [(td & dl & tt & tz & dt & tm & o & -> & Htd & Hdl & Htt & Htz & ->)
                   |[(td & dl & tt & dt & tm & -> & Htd & Hdl & Htt & ->)
                   |[(dt & Htd & ->)|(tm & Htt & ->)]]].
  - replace ((td ++ [dl] ++ tt ++ tz) ++ r) with (td ++ ([dl] ++ tt ++ tz ++ r))
      by (rewrite <- !app_assoc; reflexivity).
    rewrite (full_date_complete td dt _ p dp Htd).
    rewrite (after_date_time dl tt tz tm (Some o) r _ dp Hdl Htt)
      by (right; exists o; split; [reflexivity|exact Htz]).
    unfold mk_after. apply f_equal. apply mkIn_eq. rewrite (app_length td). lia.
  - replace ((td ++ [dl] ++ tt) ++ r) with (td ++ ([dl] ++ tt ++ [] ++ r))
      by (rewrite <- !app_assoc; reflexivity).
    rewrite (full_date_complete td dt _ p dp Htd).
    rewrite (after_date_time dl tt [] tm None r _ dp Hdl Htt)
      by (left; split; [reflexivity|]; split; [reflexivity|]; split;
          [apply dt_stop_time_follow; exact Hstop|apply dt_stop_offset_stop; exact Hstop]).
    unfold mk_after. apply f_equal. apply mkIn_eq. rewrite app_nil_r. rewrite (app_length td). lia.
  - rewrite (full_date_complete t dt r p dp Htd).
    rewrite (after_date_none r _ dp Hstop). reflexivity.
  - destruct (partial_time_tok_shape t tm Htt) as (a & b & t' & Et).
    assert (Hsoft : soft (full_date (mkIn (t ++ r) p dp))).
    { rewrite Et. cbn [app]. apply full_date_soft3. reflexivity. }
    destruct Hsoft as (e & j & EF). rewrite EF.
    unfold context, pmap.
    rewrite (partial_time_complete t tm r p dp Htt (dt_stop_time_follow r Hstop)). reflexivity.
Qed.

Corollary date_time_cut_only i e j :
  date_time i = Cut e j -> forall t d r, date_time_tok t d -> rest i = t ++ r -> dt_stop r -> False.
Proof.
  intros Hcut t d r Htok Hrest Hstop.
  rewrite (date_time_complete i t d r Htok Hrest Hstop) in Hcut. discriminate.
Qed.

(* ================================================================================================ *)
(* the values of the grammar are in range; a date-time starts with a digit                          *)
(* ================================================================================================ *)
Lemma partial_time_tok_ok t tm : partial_time_tok t tm -> time_ok tm = true.
Proof.
  intros (th & tmi & ts & tf & h & mi & s & ns & -> & _ & _ & _ & Hf & Bh & Bm & Bs & ->).
  assert (Bn : (ns <= 999999999)%N).
  { destruct Hf as [[_ ->]|(ds & _ & _ & Hd & ->)]; [lia|]. apply nanos_bound. exact Hd. }
  unfold time_ok. cbn [hour minute second nanosecond]. lia.
Qed.

Lemma time_offset_tok_ok t o : time_offset_tok t o -> offset_ok o = true.
Proof.
  intros [[_ ->]|(sg & neg & th & tmi & h & mi & _ & _ & _ & _ & Bh & Bm & ->)]; [reflexivity|].
  unfold offset_ok, signed. destruct neg; lia.
Qed.

Lemma full_date_tok_ok t dt : full_date_tok t dt -> date_ok dt = true.
Proof. intros (ty & tm & td & y & m & dd & _ & _ & _ & _ & _ & H). exact H. Qed.

Theorem date_time_tok_in_range t d : date_time_tok t d -> DatetimeSpec.in_range d = true.
Proof.
  intros [(td & dl & tt & tz & dt & tm & o & _ & Htd & _ & Htt & Htz & ->)
         |[(td & dl & tt & dt & tm & _ & Htd & _ & Htt & ->)
         |[(dt & Htd & ->)|(tm & Htt & ->)]]];
    unfold in_range; cbn [d_date d_time d_offset].
  - rewrite (full_date_tok_ok _ _ Htd), (partial_time_tok_ok _ _ Htt), (time_offset_tok_ok _ _ Htz).
    reflexivity.
  - rewrite (full_date_tok_ok _ _ Htd), (partial_time_tok_ok _ _ Htt). reflexivity.
  - exact (full_date_tok_ok _ _ Htd).
  - exact (partial_time_tok_ok _ _ Htt).
Qed.

Lemma full_date_tok_head t dt : full_date_tok t dt -> exists b t', t = b :: t' /\ Abnf.digit b = true.
Proof.
  intros (ty & tm & td & y & m & dd & -> & Hy & _).
  destruct (digits_tok_head _ _ _ Hy) as (b & t' & -> & Hb).
  exists b. eexists. split; [reflexivity|exact Hb].
Qed.

Lemma partial_time_tok_head t tm : partial_time_tok t tm -> exists b t', t = b :: t' /\ Abnf.digit b = true.
Proof.
  intros (th & tmi & ts & tf & h & mi & s & ns & -> & Hh & _).
  destruct (digits_tok_head _ _ _ Hh) as (b & t' & -> & Hb).
  exists b. eexists. split; [reflexivity|exact Hb].
Qed.

Lemma date_time_tok_head t d : date_time_tok t d -> exists b t', t = b :: t' /\ Abnf.digit b = true.
Proof.
  intros [(td & dl & tt & tz & dt & tm & o & -> & Htd & _)
         |[(td & dl & tt & dt & tm & -> & Htd & _)
         |[(dt & Htd & _)|(tm & Htt & _)]]].
  - destruct (full_date_tok_head _ _ Htd) as (b & t' & -> & Hb).
    exists b. eexists. split; [reflexivity|exact Hb].
  - destruct (full_date_tok_head _ _ Htd) as (b & t' & -> & Hb).
    exists b. eexists. split; [reflexivity|exact Hb].
  - exact (full_date_tok_head _ _ Htd).
  - exact (partial_time_tok_head _ _ Htt).
Qed.
