(* Proofs/DefsEquivSpec.v — C09: algebra of the spec-side operations of Spec/Defs.v
   (independent of the model): association-list laws, the path walker with outputs,
   composition / extensionality / plugging lemmas, well-formedness of spec trees. *)
From TV Require Import Base.Prelude Spec.Defs.

Lemma bytes_eqb_sym a b : bytes_eqb a b = bytes_eqb b a.
Proof.
  destruct (bytes_eqb a b) eqn:E1, (bytes_eqb b a) eqn:E2; try reflexivity.
  - apply bytes_eqb_eq in E1. subst. rewrite bytes_eqb_refl in E2. discriminate.
  - apply bytes_eqb_eq in E2. subst. rewrite bytes_eqb_refl in E1. discriminate.
Qed.

Lemma unsnoc_app {A} (pre : list A) (k : A) : unsnoc (pre ++ [k]) = Some (pre, k).
Proof. unfold unsnoc. rewrite rev_app_distr. cbn [rev app]. rewrite rev_involutive. reflexivity. Qed.

Lemma rbind_assoc {A B C} (r : res A) (f : A -> res B) (g : B -> res C) :
  rbind (rbind r f) g = rbind r (fun a => rbind (f a) g).
Proof. destruct r; reflexivity. Qed.

Lemma rbind_ext {A B} (r : res A) (f g : A -> res B) : (forall a, f a = g a) -> rbind r f = rbind r g.
Proof. intro H. destruct r; cbn [rbind]; [apply H | reflexivity | reflexivity]. Qed.

Section SpecAlg.
Context {V : Type}.
Notation stree := (stree V).
Notation node := (node V).

(* ---- association lists ------------------------------------------------------------------ *)
Lemma sget_spush (t : stree) k n k0 :
  sget (spush t k n) k0 =
  match sget t k0 with Some x => Some x | None => if bytes_eqb k k0 then Some n else None end.
Proof.
  unfold spush. induction t as [|[k' n'] tl IH]; cbn [app sget].
  - reflexivity.
  - destruct (bytes_eqb k' k0); [reflexivity | exact IH].
Qed.

Lemma sget_spush_same (t : stree) k n : sget t k = None -> sget (spush t k n) k = Some n.
Proof. intro H. rewrite sget_spush, H, bytes_eqb_refl. reflexivity. Qed.

Lemma sset_spush (t : stree) k n n' : sget t k = None -> sset (spush t k n) k n' = spush t k n'.
Proof.
  unfold spush. induction t as [|[k' x] tl IH]; cbn [app sget sset]; intro H.
  - rewrite bytes_eqb_refl. reflexivity.
  - destruct (bytes_eqb k' k); [discriminate|]. rewrite IH by exact H. reflexivity.
Qed.

Lemma sget_sset_same (t : stree) k n :
  sget (sset t k n) k = match sget t k with Some _ => Some n | None => None end.
Proof.
  induction t as [|[k' x] tl IH]; cbn [sget sset]; [reflexivity|].
  destruct (bytes_eqb k' k) eqn:E; cbn [sget]; rewrite E; [reflexivity | exact IH].
Qed.

Lemma sset_sset (t : stree) k n n' : sset (sset t k n) k n' = sset t k n'.
Proof.
  induction t as [|[k' x] tl IH]; cbn [sset]; [reflexivity|].
  destruct (bytes_eqb k' k) eqn:E; cbn [sset]; rewrite E; [reflexivity | rewrite IH; reflexivity].
Qed.

Definition is_some {A} (o : option A) : bool := match o with Some _ => true | None => false end.

Lemma sget_sset_is_some (t : stree) k n k0 : is_some (sget (sset t k n) k0) = is_some (sget t k0).
Proof.
  induction t as [|[k' x] tl IH]; cbn [sget sset]; [reflexivity|].
  destruct (bytes_eqb k' k) eqn:E; cbn [sget]; destruct (bytes_eqb k' k0); try reflexivity. exact IH.
Qed.

Lemma sget_sset_other (t : stree) k n k0 : bytes_eqb k k0 = false -> sget (sset t k n) k0 = sget t k0.
Proof.
  intro Hne. induction t as [|[k' x] tl IH]; cbn [sget sset]; [reflexivity|].
  destruct (bytes_eqb k' k) eqn:E; cbn [sget].
  - destruct (bytes_eqb k' k0) eqn:E0; [|reflexivity].
    apply bytes_eqb_eq in E. apply bytes_eqb_eq in E0. subst. rewrite bytes_eqb_refl in Hne. discriminate.
  - destruct (bytes_eqb k' k0); [reflexivity | exact IH].
Qed.

Lemma sget_sremove_none (t : stree) k k0 : sget t k0 = None -> sget (sremove t k) k0 = None.
Proof.
  induction t as [|[k' x] tl IH]; cbn [sget sremove]; [reflexivity|].
  destruct (bytes_eqb k' k0) eqn:E0; [discriminate|]. intro H.
  destruct (bytes_eqb k' k); [exact H|]. cbn [sget]. rewrite E0. exact (IH H).
Qed.

(* ---- unique keys -------------------------------------------------------------------------- *)
Fixpoint snodup (t : stree) : bool :=
  match t with
  | [] => true
  | (k, _) :: tl => match sget tl k with None => snodup tl | Some _ => false end
  end.

Lemma snodup_spush t k n : snodup t = true -> sget t k = None -> snodup (spush t k n) = true.
Proof.
  induction t as [|[k' x] tl IH]; cbn [snodup sget]; intros Hn Hg.
  - reflexivity.
  - change (spush ((k', x) :: tl) k n) with ((k', x) :: spush tl k n). cbn [snodup].
    destruct (bytes_eqb k' k) eqn:E; [discriminate|].
    destruct (sget tl k') eqn:E1; [discriminate|].
    rewrite sget_spush, E1, bytes_eqb_sym, E. apply IH; assumption.
Qed.

Lemma snodup_sset t k n : snodup (sset t k n) = snodup t.
Proof.
  induction t as [|[k' x] tl IH]; cbn [snodup sset]; [reflexivity|].
  destruct (bytes_eqb k' k) eqn:E; cbn [snodup]; [reflexivity|].
  pose proof (sget_sset_is_some tl k n k') as Hs.
  destruct (sget (sset tl k n) k'), (sget tl k'); cbn in Hs; try discriminate; [reflexivity | exact IH].
Qed.

Lemma snodup_sremove t k : snodup t = true -> snodup (sremove t k) = true /\ sget (sremove t k) k = None.
Proof.
  induction t as [|[k' x] tl IH]; cbn [snodup sremove]; intro Hn.
  - split; reflexivity.
  - destruct (sget tl k') eqn:E1; [discriminate|].
    destruct (bytes_eqb k' k) eqn:E.
    + apply bytes_eqb_eq in E. subst. split; assumption.
    + destruct (IH Hn) as [IH1 IH2]. cbn [snodup sget]. rewrite E.
      rewrite (sget_sremove_none tl k k' E1). split; assumption.
Qed.

(* ---- well-formed spec trees: unique keys, no empty array of tables ---------------------- *)
Fixpoint swf_node (n : node) : bool :=
  match n with
  | NVal _ => true
  | NTab _ items =>
    (fix go (l : list (bytes * node)) : bool :=
       match l with [] => true | (_, n') :: tl => swf_node n' && go tl end) items && snodup items
  | NAot es =>
    match es with [] => false | _ => true end &&
    (fix goe (l : list (list (bytes * node))) : bool :=
       match l with
       | [] => true
       | e :: tl =>
         ((fix go (l : list (bytes * node)) : bool :=
             match l with [] => true | (_, n') :: tl => swf_node n' && go tl end) e && snodup e)
         && goe tl
       end) es
  end.

Definition swf_tree (t : stree) : bool := forallb (fun kn => swf_node (snd kn)) t && snodup t.

Lemma swf_go_eq (l : list (bytes * node)) :
  (fix go (l : list (bytes * node)) : bool :=
     match l with [] => true | (_, n') :: tl => swf_node n' && go tl end) l
  = forallb (fun kn => swf_node (snd kn)) l.
Proof. induction l as [|[k n] tl IH]; [reflexivity|]. cbn [forallb snd]. rewrite <- IH. reflexivity. Qed.

Lemma swf_node_tab kd items : swf_node (NTab kd items) = swf_tree items.
Proof. cbn [swf_node]. rewrite swf_go_eq. reflexivity. Qed.

Lemma swf_node_aot es :
  swf_node (NAot es) = match es with [] => false | _ => true end && forallb swf_tree es.
Proof.
  cbn [swf_node]. f_equal. induction es as [|e tl IH]; [reflexivity|].
  cbn [forallb]. rewrite <- IH. unfold swf_tree at 1. rewrite swf_go_eq. reflexivity.
Qed.

Lemma swf_nil : swf_tree [] = true.
Proof. reflexivity. Qed.

Lemma swf_split t : swf_tree t = true <-> forallb (fun kn => swf_node (snd kn)) t = true /\ snodup t = true.
Proof. unfold swf_tree. apply andb_true_iff. Qed.

Lemma swf_sget t k n : swf_tree t = true -> sget t k = Some n -> swf_node n = true.
Proof.
  intros H. apply swf_split in H as [H _]. induction t as [|[k' x] tl IH]; cbn [sget]; [discriminate|].
  cbn [forallb snd] in H. apply andb_true_iff in H as [H1 H2].
  destruct (bytes_eqb k' k); [intro E; inversion E; subst; exact H1 | apply IH; exact H2].
Qed.

Lemma swf_spush t k n : swf_tree t = true -> swf_node n = true -> sget t k = None -> swf_tree (spush t k n) = true.
Proof.
  intros H Hn Hg. apply swf_split in H as [H1 H2]. apply swf_split. split.
  - unfold spush. rewrite forallb_app. rewrite H1. cbn [forallb snd]. rewrite Hn. reflexivity.
  - apply snodup_spush; assumption.
Qed.

Lemma forallb_sset t k n :
  forallb (fun kn : bytes * node => swf_node (snd kn)) t = true -> swf_node n = true ->
  forallb (fun kn : bytes * node => swf_node (snd kn)) (sset t k n) = true.
Proof.
  intros H Hn. induction t as [|[k' x] tl IH]; cbn [sset]; [reflexivity|].
  cbn [forallb snd] in H. apply andb_true_iff in H as [H1 H2].
  destruct (bytes_eqb k' k); cbn [forallb snd].
  - rewrite Hn, H2. reflexivity.
  - rewrite H1, (IH H2). reflexivity.
Qed.

Lemma swf_sset t k n : swf_tree t = true -> swf_node n = true -> swf_tree (sset t k n) = true.
Proof.
  intros H Hn. apply swf_split in H as [H1 H2]. apply swf_split. split.
  - apply forallb_sset; assumption.
  - rewrite snodup_sset. exact H2.
Qed.

Lemma forallb_sremove t k :
  forallb (fun kn : bytes * node => swf_node (snd kn)) t = true ->
  forallb (fun kn : bytes * node => swf_node (snd kn)) (sremove t k) = true.
Proof.
  intros H. induction t as [|[k' x] tl IH]; cbn [sremove]; [reflexivity|].
  cbn [forallb snd] in H. apply andb_true_iff in H as [H1 H2].
  destruct (bytes_eqb k' k); [exact H2|]. cbn [forallb snd]. rewrite H1, (IH H2). reflexivity.
Qed.

Lemma swf_sremove t k : swf_tree t = true -> swf_tree (sremove t k) = true /\ sget (sremove t k) k = None.
Proof.
  intros H. apply swf_split in H as [H1 H2]. destruct (snodup_sremove t k H2) as [H3 H4].
  split; [|exact H4]. apply swf_split. split; [apply forallb_sremove; exact H1 | exact H3].
Qed.

Lemma swf_aot_last es e before :
  swf_node (NAot es) = true -> rev es = e :: before ->
  swf_tree e = true /\ forallb swf_tree (rev before) = true.
Proof.
  rewrite swf_node_aot. intros H Hr. apply andb_true_iff in H as [_ H].
  assert (Hes : es = rev before ++ [e]).
  { rewrite <- (rev_involutive es), Hr. reflexivity. }
  subst es. rewrite forallb_app in H. apply andb_true_iff in H as [H1 H2].
  cbn [forallb] in H2. rewrite andb_true_r in H2. split; assumption.
Qed.

Lemma swf_aot_snoc l e : forallb swf_tree l = true -> swf_tree e = true -> swf_node (NAot (l ++ [e])) = true.
Proof.
  intros H1 H2. rewrite swf_node_aot. apply andb_true_iff. split.
  - destruct l; reflexivity.
  - rewrite forallb_app, H1. cbn [forallb]. rewrite H2. reflexivity.
Qed.

(* ---- the path walker with an output ------------------------------------------------------- *)
Fixpoint at_path_x {X : Type} (p : list bytes) (f : stree -> res (stree * X)) (t : stree)
  : res (stree * X) :=
  match p with
  | [] => f t
  | k :: p' =>
    match sget t k with
    | None => rbind (at_path_x p' f []) (fun cx => ROk (spush t k (NTab KSuper (fst cx)), snd cx))
    | Some (NVal _) => RInvalid
    | Some (NTab kd c) => rbind (at_path_x p' f c) (fun cx => ROk (sset t k (NTab kd (fst cx)), snd cx))
    | Some (NAot es) =>
      match rev es with
      | [] => RInvalid
      | e :: before =>
        rbind (at_path_x p' f e) (fun cx => ROk (sset t k (NAot (rev before ++ [fst cx])), snd cx))
      end
    end
  end.

Definition lift (f : stree -> res stree) (t : stree) : res (stree * unit) :=
  rbind (f t) (fun r => ROk (r, tt)).

Lemma at_path_lift p f t :
  at_path p f t = rbind (at_path_x p (lift f) t) (fun cx => ROk (fst cx)).
Proof.
  revert t. induction p as [|k p' IH]; intro t; cbn [at_path at_path_x].
  - unfold lift. destruct (f t); reflexivity.
  - destruct (sget t k) as [[v|kd c|es]|].
    + reflexivity.
    + rewrite IH. destruct (at_path_x p' (lift f) c) as [[c1 x]| |]; reflexivity.
    + destruct (rev es) as [|e before]; [reflexivity|].
      rewrite IH. destruct (at_path_x p' (lift f) e) as [[c1 x]| |]; reflexivity.
    + rewrite IH. destruct (at_path_x p' (lift f) []) as [[c1 x]| |]; reflexivity.
Qed.

Lemma at_path_x_app {X} p q (f : stree -> res (stree * X)) t :
  at_path_x (p ++ q) f t = at_path_x p (at_path_x q f) t.
Proof.
  revert t. induction p as [|k p' IH]; intro t; cbn [app at_path_x]; [reflexivity|].
  destruct (sget t k) as [[v|kd c|es]|]; try rewrite IH; try reflexivity.
  destruct (rev es); [reflexivity|]. rewrite IH. reflexivity.
Qed.

(* second walk along the same path: it meets what the first one left *)
Lemma at_path_x_comp {X Y} p (F : stree -> res (stree * X)) (G : X -> stree -> res (stree * Y)) T T1 x :
  at_path_x p F T = ROk (T1, x) ->
  at_path_x p (G x) T1 = at_path_x p (fun t => rbind (F t) (fun tx => G (snd tx) (fst tx))) T.
Proof.
  revert T T1. induction p as [|k p' IH]; intros T T1 H; cbn [at_path_x] in *.
  - rewrite H. reflexivity.
  - destruct (sget T k) as [[v|kd c|es]|] eqn:E.
    + discriminate.
    + destruct (at_path_x p' F c) as [[c1 x1]| |] eqn:E1; cbn [rbind fst snd] in H; inversion H; subst.
      rewrite sget_sset_same, E. rewrite (IH _ _ E1).
      apply rbind_ext. intros [c2 y]. cbn [fst snd]. rewrite sset_sset. reflexivity.
    + destruct (rev es) as [|e before] eqn:Er; [discriminate|].
      destruct (at_path_x p' F e) as [[c1 x1]| |] eqn:E1; cbn [rbind fst snd] in H; inversion H; subst.
      rewrite sget_sset_same, E. rewrite rev_app_distr. cbn [rev app]. rewrite rev_involutive.
      rewrite (IH _ _ E1).
      apply rbind_ext. intros [c2 y]. cbn [fst snd]. rewrite sset_sset. reflexivity.
    + destruct (at_path_x p' F []) as [[c1 x1]| |] eqn:E1; cbn [rbind fst snd] in H; inversion H; subst.
      rewrite (sget_spush_same _ _ _ E). rewrite (IH _ _ E1).
      apply rbind_ext. intros [c2 y]. cbn [fst snd]. rewrite (sset_spush _ _ _ _ E). reflexivity.
Qed.

(* extensionality, relative to a predicate that holds along every walk *)
Definition walk_closed (P : stree -> Prop) : Prop :=
  P [] /\
  (forall t k kd c, P t -> sget t k = Some (NTab kd c) -> P c) /\
  (forall t k es e before, P t -> sget t k = Some (NAot es) -> rev es = e :: before -> P e).

Lemma at_path_x_ext {X} (P : stree -> Prop) p (F F' : stree -> res (stree * X)) T :
  walk_closed P -> P T -> (forall t, P t -> F t = F' t) -> at_path_x p F T = at_path_x p F' T.
Proof.
  intros (P0 & Pt & Pa) HT HF. revert T HT. induction p as [|k p' IH]; intros T HT; cbn [at_path_x].
  - apply HF. exact HT.
  - destruct (sget T k) as [[v|kd c|es]|] eqn:E.
    + reflexivity.
    + rewrite (IH c); [reflexivity | eapply Pt; eassumption].
    + destruct (rev es) as [|e before] eqn:Er; [reflexivity|].
      rewrite (IH e); [reflexivity | eapply Pa; eassumption].
    + rewrite (IH []); [reflexivity | exact P0].
Qed.

Lemma walk_closed_true : walk_closed (fun _ => True).
Proof. repeat split. Qed.

Lemma walk_closed_swf : walk_closed (fun t => swf_tree t = true).
Proof.
  split; [reflexivity|]. split.
  - intros t k kd c Ht E. pose proof (swf_sget _ _ _ Ht E) as H. rewrite swf_node_tab in H. exact H.
  - intros t k es e before Ht E Er. pose proof (swf_sget _ _ _ Ht E) as H.
    destruct (swf_aot_last _ _ _ H Er) as [H1 _]. exact H1.
Qed.

(* status (ok / invalid / undecided) only depends on the status at the addressed table *)
Definition status {A} (r : res A) : res unit :=
  match r with ROk _ => ROk tt | RInvalid => RInvalid | RUndecided => RUndecided end.

Lemma at_path_x_status {X Y} (P : stree -> Prop) p (F : stree -> res (stree * X)) (F' : stree -> res (stree * Y)) T :
  walk_closed P -> P T -> (forall t, P t -> status (F t) = status (F' t)) ->
  status (at_path_x p F T) = status (at_path_x p F' T).
Proof.
  intros (P0 & Pt & Pa) HT HF. revert T HT. induction p as [|k p' IH]; intros T HT; cbn [at_path_x].
  - apply HF. exact HT.
  - destruct (sget T k) as [[v|kd c|es]|] eqn:E.
    + reflexivity.
    + assert (Hc : P c) by (eapply Pt; eassumption). specialize (IH c Hc).
      destruct (at_path_x p' F c) as [[? ?]| |], (at_path_x p' F' c) as [[? ?]| |]; cbn in IH |- *; congruence.
    + destruct (rev es) as [|e before] eqn:Er; [reflexivity|].
      assert (Hc : P e) by (eapply Pa; eassumption). specialize (IH e Hc).
      destruct (at_path_x p' F e) as [[? ?]| |], (at_path_x p' F' e) as [[? ?]| |]; cbn in IH |- *; congruence.
    + specialize (IH [] P0).
      destruct (at_path_x p' F []) as [[? ?]| |], (at_path_x p' F' []) as [[? ?]| |]; cbn in IH |- *; congruence.
Qed.

(* well-formedness is preserved; properties of the output come from the addressed table *)
Lemma at_path_x_swf {X} (Q : X -> Prop) p (F : stree -> res (stree * X)) T T' x :
  swf_tree T = true ->
  (forall t t' y, swf_tree t = true -> F t = ROk (t', y) -> swf_tree t' = true /\ Q y) ->
  at_path_x p F T = ROk (T', x) -> swf_tree T' = true /\ Q x.
Proof.
  intros HT HF. revert T T' HT. induction p as [|k p' IH]; intros T T' HT H; cbn [at_path_x] in H.
  - eapply HF; eassumption.
  - destruct (sget T k) as [[v|kd c|es]|] eqn:E.
    + discriminate.
    + pose proof (swf_sget _ _ _ HT E) as Hc. rewrite swf_node_tab in Hc.
      destruct (at_path_x p' F c) as [[c1 x1]| |] eqn:E1; cbn [rbind fst snd] in H; inversion H; subst.
      destruct (IH _ _ Hc E1) as [H1 H2]. split; [|exact H2].
      apply swf_sset; [exact HT | rewrite swf_node_tab; exact H1].
    + destruct (rev es) as [|e before] eqn:Er; [discriminate|].
      pose proof (swf_sget _ _ _ HT E) as Hc. destruct (swf_aot_last _ _ _ Hc Er) as [He Hb].
      destruct (at_path_x p' F e) as [[c1 x1]| |] eqn:E1; cbn [rbind fst snd] in H; inversion H; subst.
      destruct (IH _ _ He E1) as [H1 H2]. split; [|exact H2].
      apply swf_sset; [exact HT | apply swf_aot_snoc; assumption].
    + destruct (at_path_x p' F []) as [[c1 x1]| |] eqn:E1; cbn [rbind fst snd] in H; inversion H; subst.
      destruct (IH _ _ swf_nil E1) as [H1 H2]. split; [|exact H2].
      apply swf_spush; [exact HT | rewrite swf_node_tab; exact H1 | exact E].
Qed.

(* ---- the detached current section: plugging it back ---------------------------------------- *)
(* the tree with the section content C attached under key k of the addressed parent:
   as a new [header] table at the end (k must be free), or as the newest element of the
   array of tables k *)
Definition plug (arr : bool) (k : bytes) (C : stree) (par : stree) : res (stree * unit) :=
  if arr then
    match sget par k with
    | Some (NAot es) => ROk (sset par k (NAot (es ++ [C])), tt)
    | _ => RInvalid
    end
  else
    match sget par k with
    | None => ROk (spush par k (NTab KHeader C), tt)
    | _ => RInvalid
    end.

(* addressing the plugged section and changing it = plugging the changed section *)
Lemma plug_then_walk {Y} arr kk (G : stree -> res (stree * Y)) C pre Rt T :
  at_path_x pre (plug arr kk C) Rt = ROk (T, tt) ->
  at_path_x (pre ++ [kk]) G T =
  rbind (G C) (fun cy => rbind (at_path_x pre (plug arr kk (fst cy)) Rt) (fun tx => ROk (fst tx, snd cy))).
Proof.
  revert Rt T. induction pre as [|k pre' IH]; intros Rt T H; cbn [app at_path_x] in *.
  - unfold plug in *. destruct arr.
    + destruct (sget Rt kk) as [[v|kd c|es]|] eqn:E; try discriminate. inversion H; subst.
      rewrite sget_sset_same, E. rewrite rev_app_distr. cbn [rev app]. rewrite rev_involutive.
      destruct (G C) as [[C' y]| |]; cbn [rbind fst snd]; [rewrite sset_sset|..]; reflexivity.
    + destruct (sget Rt kk) eqn:E; try discriminate. inversion H; subst.
      rewrite (sget_spush_same _ _ _ E).
      destruct (G C) as [[C' y]| |]; cbn [rbind fst snd]; [rewrite (sset_spush _ _ _ _ E)|..]; reflexivity.
  - destruct (sget Rt k) as [[v|kd c|es]|] eqn:E.
    + discriminate.
    + destruct (at_path_x pre' (plug arr kk C) c) as [[c1 []]| |] eqn:E1; cbn [rbind fst snd] in H; inversion H; subst.
      rewrite sget_sset_same, E. rewrite (IH _ _ E1).
      destruct (G C) as [[C' y]| |]; cbn [rbind fst snd]; try reflexivity.
      destruct (at_path_x pre' (plug arr kk C') c) as [[c2 []]| |]; cbn [rbind fst snd]; [rewrite sset_sset|..]; reflexivity.
    + destruct (rev es) as [|e before] eqn:Er; [discriminate|].
      destruct (at_path_x pre' (plug arr kk C) e) as [[c1 []]| |] eqn:E1; cbn [rbind fst snd] in H; inversion H; subst.
      rewrite sget_sset_same, E. rewrite rev_app_distr. cbn [rev app]. rewrite rev_involutive.
      rewrite (IH _ _ E1).
      destruct (G C) as [[C' y]| |]; cbn [rbind fst snd]; try reflexivity.
      destruct (at_path_x pre' (plug arr kk C') e) as [[c2 []]| |]; cbn [rbind fst snd]; [rewrite sset_sset|..]; reflexivity.
    + destruct (at_path_x pre' (plug arr kk C) []) as [[c1 []]| |] eqn:E1; cbn [rbind fst snd] in H; inversion H; subst.
      rewrite (sget_spush_same _ _ _ E). rewrite (IH _ _ E1).
      destruct (G C) as [[C' y]| |]; cbn [rbind fst snd]; try reflexivity.
      destruct (at_path_x pre' (plug arr kk C') []) as [[c2 []]| |]; cbn [rbind fst snd];
        [rewrite (sset_spush _ _ _ _ E)|..]; reflexivity.
Qed.

(* whether the plug succeeds does not depend on what is plugged *)
Lemma plug_any arr kk C C' pre Rt T :
  at_path_x pre (plug arr kk C) Rt = ROk (T, tt) ->
  exists T', at_path_x pre (plug arr kk C') Rt = ROk (T', tt).
Proof.
  intro H.
  pose proof (at_path_x_status (fun _ => True) pre (plug arr kk C) (plug arr kk C') Rt walk_closed_true I) as Hs.
  rewrite H in Hs. cbn [status] in Hs.
  destruct (at_path_x pre (plug arr kk C') Rt) as [[T' []]| |] eqn:E.
  - exists T'. reflexivity.
  - exfalso. assert (X : ROk tt = @RInvalid unit); [|discriminate]. apply Hs. intros t _. unfold plug.
    destruct arr; destruct (sget t kk) as [[v|kd c|es]|]; reflexivity.
  - exfalso. assert (X : ROk tt = @RUndecided unit); [|discriminate]. apply Hs. intros t _. unfold plug.
    destruct arr; destruct (sget t kk) as [[v|kd c|es]|]; reflexivity.
Qed.

(* ---- headers, split the way the code does them: look up / take out, then plug ------------- *)
Definition take (k : bytes) (par : stree) : res (stree * option stree) :=
  match sget par k with
  | None => ROk (par, None)
  | Some (NTab KSuper c) => ROk (sremove par k, Some c)
  | Some _ => RInvalid
  end.

Definition mk_aot (k : bytes) (par : stree) : res (stree * unit) :=
  match sget par k with
  | None => ROk (spush par k (NAot []), tt)
  | Some (NAot _) => ROk (par, tt)
  | Some _ => RInvalid
  end.

Definition odflt (o : option stree) : stree := match o with Some c => c | None => [] end.

Lemma take_plug_def_table k t :
  swf_tree t = true ->
  rbind (take k t) (fun tx => plug false k (odflt (snd tx)) (fst tx)) = lift (def_table k) t.
Proof.
  intro Ht. unfold take, lift, def_table, plug.
  destruct (sget t k) as [[v|[| |] c|es]|] eqn:E; cbn [rbind fst snd odflt]; try reflexivity.
  - destruct (swf_sremove t k Ht) as [_ Hr]. rewrite Hr. reflexivity.
  - rewrite E. reflexivity.
Qed.

Lemma mk_aot_plug_def_elem k t :
  rbind (mk_aot k t) (fun tx => plug true k [] (fst tx)) = lift (def_elem k) t.
Proof.
  unfold mk_aot, lift, def_elem, plug.
  destruct (sget t k) as [[v|kd c|es]|] eqn:E; cbn [rbind fst snd]; try reflexivity.
  - rewrite E. reflexivity.
  - rewrite (sget_spush_same _ _ _ E). rewrite (sset_spush _ _ _ _ E). reflexivity.
Qed.

Lemma take_status k t : status (take k t) = status (lift (def_table k) t).
Proof.
  unfold take, lift, def_table. destruct (sget t k) as [[v|[| |] c|es]|]; reflexivity.
Qed.

Lemma mk_aot_status k t : status (mk_aot k t) = status (lift (def_elem k) t).
Proof.
  unfold mk_aot, lift, def_elem. destruct (sget t k) as [[v|kd c|es]|]; reflexivity.
Qed.

End SpecAlg.
