(* Proofs/WFParseValue.v — parsed documents are well-formed, part 2: values (value.rs / array.rs / inline_table.rs).
   Every value `value` returns, despanned, is well-formed in the sense of Spec/WF.v apart from its own decor (which the
   caller sets): reprs are the tokens read, decor and trailing texts are the trivia read (CRs dropped by Display),
   inline tables built by table_from_pairs have distinct keys and non-empty dotted tables, and the nesting limits of
   Spec/WF.v are the parser's recursion checks. *)
From TV Require Import Base.Prelude Base.Utf8 Base.Winnow Gen.Consts Spec.Abnf Spec.Lex Spec.Defs Spec.DatetimeSpec Spec.Syntax Spec.WF.
From TV Require Import Model.Trivia Model.Strings Model.Datetime Model.Numbers Model.Tree Model.Parse Model.Document Model.Write Model.Encode.
From TV Require Import Proofs.ConstsOk Proofs.NoPanicBase Proofs.NoPanicLex Proofs.NoPanicValue Proofs.NumbersRT_Value.
From TV Require Import Proofs.LexEquivBase Proofs.LexEquivTrivia Proofs.LexEquivInt Proofs.LexEquivFloat
                       Proofs.LexEquivStrings Proofs.LexEquivString Proofs.LexEquivBool Proofs.LexEquivDatetime
                       Proofs.LexEquivKey Proofs.GrammarSep Proofs.GrammarValueTok Proofs.GrammarValueSound
                       Proofs.TilingDefs Proofs.PrintBackBase Proofs.PrintBackEnc Proofs.PrintBackKey Proofs.TilingCmt.
From TV Require Proofs.SpansExact.
From TV Require Import Proofs.WFTok Proofs.WFPrintKey Proofs.WFPrintFlat Proofs.WFPrintValue Proofs.WFTree Proofs.WFParseBase.
Require Import Lia NArith.

Lemma isrc_ext s C i i' : isrc s i -> ext C i i' -> isrc s i'.
Proof.
  intros (p & Es & Ep) (t & R & P & _). exists (p ++ t). split; [rewrite Es, R, app_assoc; reflexivity|]. rewrite P, Ep, app_length. lia.
Qed.
Lemma splits_depth i t i' : splits i t i' -> depth i' = depth i.
Proof. intros [_ ->]. apply depth_adv. Qed.

Lemma mono_shrinking {A} (p : parser A) : mono p -> shrinking p.
Proof. intros Hp i a i' H. apply (ext_len _ _ _ (Hp _ _ _ H)). Qed.

(* a value apart from its own decor *)
Definition body_ok (v : value) : Prop :=
  forall c p q, raw_ok (pre_slot c) p -> raw_ok (suf_slot c) q -> value_wf c (value_decorate v p q).
(* written as a value: a scalar, an array, or a braces-delimited inline table *)
Definition written (v : value) : Prop := match v with VInline _ _ im dt _ _ => im = false /\ dt = false | _ => True end.

Lemma vdecor_new c p q : raw_ok (pre_slot c) p -> raw_ok (suf_slot c) q -> vdecor_ok c (decor_new p q).
Proof. intros Hp Hq. destruct c; cbn [vdecor_ok pre_slot suf_slot] in *; split; assumption. Qed.
Lemma body_ok_scalar x r d : repr_ok x r -> scalar_lim x -> body_ok (VScalar x r d).
Proof. intros H1 H2 c p q Hp Hq. cbn [value_decorate value_wf]. auto using vdecor_new. Qed.
Lemma body_ok_array vals tr cm d sp :
  raw_ok SWscn tr -> all_P (fun it => match it with IValue e => value_wf CArr e | _ => False end) vals -> body_ok (VArray vals tr cm d sp).
Proof. intros H1 H2 c p q Hp Hq. cbn [value_decorate value_wf]. auto using vdecor_new. Qed.
Lemma body_ok_inline items pre im dt d sp :
  raw_ok SWs pre -> NoDup (kkeys items) -> all_P (fun kv => key_wf false (fst kv) /\ pair_wf false (snd kv)) items ->
  body_ok (VInline items pre im dt d sp).
Proof. intros H1 H2 H3 c p q Hp Hq. cbn [value_decorate value_wf]. auto using vdecor_new. Qed.
Lemma value_lim_decorate d v p q : value_lim d (value_decorate v p q) <-> value_lim d v.
Proof. destruct v; cbn [value_decorate value_lim]; tauto. Qed.
Lemma value_depth_decorate v p q : value_depth (value_decorate v p q) = value_depth v.
Proof. destruct v; reflexivity. Qed.
Lemma written_decorate v p q : written (value_decorate v p q) <-> written v.
Proof. destruct v; cbn; tauto. Qed.
Lemma written_t s v : written (tvalue s v) <-> written v.
Proof. destruct v; cbn [written]; try tauto. rewrite tvalue_inline. cbn. tauto. Qed.

(* an entry of an inline table under construction: a written value, or a table made of dotted keys (implicit and
   dotted, default decor and preamble) of such entries *)
Fixpoint entry_ok (it : item) {struct it} : Prop :=
  match it with
  | IValue v =>
    match v with
    | VInline sub pre im dt d _ =>
      if im then dt = true /\ all_P (fun kv => entry_ok (snd kv)) sub
      else dt = false
    | _ => True
    end
  | _ => False
  end.

Section PV.
  Variable s : bytes.
  Local Notation kgood := (kgood s).

  Definition vgood_at (p : parser value) : Prop :=
    forall i v i', isrc s i -> p i = Ok v i' ->
      isrc s i' /\ body_ok (tvalue s v) /\ value_lim (depth i) (tvalue s v) /\ written v.

  Lemma decorated_ok c v i1 w1 j1 i2 w2 j2 :
    body_ok (tvalue s v) -> isrc s i1 -> splits i1 w1 j1 -> isrc s i2 -> splits i2 w2 j2 ->
    slot_ok (pre_slot c) (ncr w1) -> slot_ok (suf_slot c) (ncr w2) ->
    value_wf c (tvalue s (value_decorate v (raw_with_span (pos i1, pos j1)) (raw_with_span (pos i2, pos j2)))).
  Proof.
    intros Hb Hi1 S1 Hi2 S2 H1 H2. rewrite tvalue_decorate. apply Hb; [apply (span_raw_ok s _ i1 w1 j1 Hi1 S1 H1)|apply (span_raw_ok s _ i2 w2 j2 Hi2 S2 H2)].
  Qed.

  (* ---- table_from_pairs -------------------------------------------------------------------------------------------- *)
  Lemma titem_value v : titem s (IValue v) = IValue (tvalue s v).
  Proof. reflexivity. Qed.

  (* the entries of an inline table (or of a table made of dotted keys inside one) whose keys stand at the end of key
     paths of length n, d arrays / inline tables being open around them *)
  Definition entry_good (d n : nat) (kv : key * item) : Prop :=
    kgood (fst kv) /\ pair_wf false (titem s (snd kv)) /\ pair_lim d n (titem s (snd kv)) /\ entry_ok (snd kv).
  Definition entries_good (d n : nat) (m : kvs) : Prop := NoDup (kkeys m) /\ all_P (entry_good d n) m.

  Lemma dotted_entry d n k sub pre dec sp :
    kgood k -> sub <> [] -> entries_good d (S n) sub -> entry_good d n (k, IValue (VInline sub pre true true dec sp)).
  Proof.
    intros Hk Hne [Hnd Hall]. unfold entry_good. cbn [fst snd]. split; [exact Hk|]. rewrite titem_value, tvalue_inline.
    cbn [pair_wf pair_lim entry_ok]. split; [|split; [|split; [reflexivity|]]].
    - split; [destruct sub; [congruence|discriminate]|]. split; [rewrite kkeys_tkv; exact Hnd|]. apply all_P_map.
      eapply all_P_impl; [|exact Hall]. intros kv (H1 & H2 & _). split; assumption.
    - apply all_P_map. eapply all_P_impl; [|exact Hall]. intros kv (_ & _ & H3 & _). exact H3.
    - eapply all_P_impl; [|exact Hall]. intros kv (_ & _ & _ & H4). exact H4.
  Qed.
  Lemma dotted_entry_inv d n k sub pre dt dec sp :
    entry_good d n (k, IValue (VInline sub pre true dt dec sp)) -> dt = true /\ kgood k /\ entries_good d (S n) sub.
  Proof.
    unfold entry_good. cbn [fst snd]. rewrite titem_value, tvalue_inline. intros (Hk & Hw & Hl & He). cbn [entry_ok] in He. destruct He as [-> He].
    cbn [pair_wf pair_lim] in Hw, Hl. destruct Hw as (_ & Hnd & Hw). split; [reflexivity|]. split; [exact Hk|].
    split; [rewrite kkeys_tkv in Hnd; exact Hnd|].
    clear -Hw Hl He. induction sub as [|kv sub IH]; [exact I|]. cbn [map all_P] in *. destruct Hw as [[H1 H2] Hw], Hl as [H3 Hl], He as [H4 He].
    split; [|apply IH; assumption]. unfold entry_good. split; [exact H1|split; [exact H2|split; [exact H3|exact H4]]].
  Qed.

  Lemma inline_insert_good d : forall path m dh pe k v m' n,
    inline_insert m dh path pe k v = COk m' ->
    entries_good d n m -> Forall kgood path -> kgood k ->
    pair_wf false (titem s v) -> pair_lim d (n + length path) (titem s v) -> entry_ok v ->
    entries_good d n m' /\ m' <> [].
  Proof.
    induction path as [|pk ptl IH]; intros m dh pe k v m' n H [Hnd Hall] Hp Hk Hw Hl He; cbn [inline_insert] in H.
    - destruct (Bool.eqb dh pe); [discriminate|]. destruct (kv_get m (k_key k)) eqn:G; [discriminate|]. injection H as <-.
      split; [|unfold kv_push; destruct m; discriminate]. split; [apply nodup_push; assumption|].
      apply all_P_push; [exact Hall|]. cbn [length] in Hl. rewrite Nat.add_0_r in Hl. unfold entry_good. cbn [fst snd]. auto.
    - inversion Hp as [|? ? Hpk Hptl]; subst.
      assert (Hl' : pair_lim d (S n + length ptl) (titem s v)) by (cbn [length] in Hl; replace (S n + length ptl) with (n + S (length ptl)) by lia; exact Hl).
      destruct (kv_get m (k_key pk)) as [[k0 it0]|] eqn:G.
      + destruct it0 as [|v0| |]; try discriminate. destruct v0 as [x r d0|vals tr c d0 sp0|sub pre imp dt dec sp]; try discriminate.
        destruct imp; [|discriminate]. cbn [negb] in H.
        destruct (inline_insert sub dt ptl pe k v) as [sub'| |] eqn:E; try discriminate. injection H as <-.
        pose proof (all_P_get _ _ _ _ _ Hall G) as Hent. destruct (dotted_entry_inv d n k0 sub pre dt dec sp Hent) as (-> & Hk0 & Hsub).
        destruct (IH sub true pe k v sub' (S n) E Hsub Hptl Hk Hw Hl' He) as [Hsub' Hne'].
        split; [|destruct m; [discriminate|cbn [kv_set]; destruct p as [kk vv]; destruct (bytes_eqb (k_key kk) (k_key pk)); discriminate]].
        split; [rewrite kkeys_set; exact Hnd|]. apply (all_P_set _ m (k_key pk) k0 _ _ Hall G). apply dotted_entry; assumption.
      + destruct (inline_insert [] true ptl pe k v) as [sub'| |] eqn:E; try discriminate. injection H as <-.
        destruct (IH [] true pe k v sub' (S n) E (conj (NoDup_nil _) I) Hptl Hk Hw Hl' He) as [Hsub' Hne'].
        split; [|unfold kv_push; destruct m; discriminate]. split; [apply nodup_push; assumption|].
        apply all_P_push; [exact Hall|]. apply dotted_entry; assumption.
  Qed.

  (* a pair as inline_keyval returns it *)
  Definition pair_good (d : nat) (x : list key * (key * item)) : Prop :=
    Forall kgood (fst x) /\ kgood (fst (snd x))
    /\ exists v, snd (snd x) = IValue v /\ value_wf CInl (tvalue s v) /\ value_lim d (tvalue s v) /\ written v.

  Lemma written_plain_pair v : written v -> forall line, pair_wf line (IValue v) = value_wf (if line then CLine else CInl) v.
  Proof. destruct v as [x r d|vals tr c d sp|sub pre im dt d sp]; try reflexivity. intros [_ ->] line. reflexivity. Qed.
  Lemma written_pair_lim v d n : written v -> pair_lim d n (IValue v) = (n + value_depth v < LIMIT /\ value_lim d v).
  Proof. destruct v as [x r d0|vals tr c d0 sp|sub pre im dt d0 sp]; try reflexivity. intros [_ ->]. reflexivity. Qed.
  Lemma written_entry v : written v -> entry_ok (IValue v).
  Proof. destruct v as [x r d0|vals tr c d0 sp|sub pre im dt d0 sp]; cbn; auto. intros [-> ->]. reflexivity. Qed.

  Lemma loop_d_good d : forall pairs m m',
    table_from_pairs_loop_d m pairs = COk m' -> entries_good d 1 m -> Forall (pair_good d) pairs -> entries_good d 1 m'.
  Proof.
    induction pairs as [|[path [k v]] pairs IH]; intros m m' H Hm Hp; cbn [table_from_pairs_loop_d] in H; [injection H as <-; exact Hm|].
    inversion Hp as [|? ? H1 H2]; subst. destruct H1 as (Hpath & Hk & v0 & Ev & Hw & Hl & Hwr). cbn [fst snd] in *. subst v.
    unfold check_depth in H. destruct (Nat.leb LIMIT (length path + 1 + item_depth (IValue v0))) eqn:Ec; [discriminate|]. apply Nat.leb_gt in Ec.
    destruct (inline_insert m false path _ k (IValue v0)) as [m1| |] eqn:E; try discriminate.
    assert (Hwr' : written (tvalue s v0)) by (apply written_t, Hwr).
    destruct (inline_insert_good d path m false _ k (IValue v0) m1 1 E Hm Hpath Hk) as [Hm1 _].
    - rewrite titem_value, (written_plain_pair _ Hwr'). exact Hw.
    - rewrite titem_value, (written_pair_lim _ _ _ Hwr'). cbn [item_depth] in Ec. rewrite value_depth_t. split; [lia|exact Hl].
    - apply written_entry, Hwr.
    - apply (IH m1 m' H Hm1 H2).
  Qed.

  (* the span bookkeeping leaves the despanned entries alone *)
  Lemma map_tkv_set m k k0 it0 it : kv_get m k = Some (k0, it0) -> titem s it = titem s it0 -> map (tkv s) (kv_set m k it) = map (tkv s) m.
  Proof.
    induction m as [|[k1 v1] m IH]; cbn [kv_get kv_set]; [reflexivity|]. destruct (bytes_eqb (k_key k1) k).
    - intros E Ht. inversion E; subst. cbn [map]. unfold tkv at 1 3. cbn [fst snd]. rewrite Ht. reflexivity.
    - intros E Ht. cbn [map]. rewrite (IH E Ht). reflexivity.
  Qed.
  Lemma tkv_set_spans : forall path m e, map (tkv s) (inline_set_spans m path e) = map (tkv s) m.
  Proof.
    induction path as [|k ptl IH]; intros m e; [reflexivity|]. cbn [inline_set_spans].
    destruct (kv_get m (k_key k)) as [[k0 it0]|] eqn:G; [|reflexivity]. destruct it0 as [|v0| |]; try reflexivity.
    destruct v0 as [x r d0|vals tr c d0 sp0|sub pre imp dt dec sp]; try reflexivity.
    apply (map_tkv_set m (k_key k) k0 _ _ G). rewrite !titem_value, !tvalue_inline, IH. reflexivity.
  Qed.
  Lemma tkv_spans_pass : forall pairs m, map (tkv s) (inline_spans_pass m pairs) = map (tkv s) m.
  Proof.
    unfold inline_spans_pass. induction pairs as [|[path [k v]] pairs IH]; intro m; [reflexivity|]. cbn [fold_left]. rewrite IH. apply tkv_set_spans.
  Qed.

  Lemma table_from_pairs_good d0 pairs pre v :
    table_from_pairs pairs pre = TmOk v -> Forall (pair_good (S d0)) pairs -> raw_ok SWs (traw s pre) -> S d0 < LIMIT ->
    body_ok (tvalue s v) /\ value_lim d0 (tvalue s v) /\ written v.
  Proof.
    unfold table_from_pairs. intros H Hp Hpre Hd. destruct (table_from_pairs_loop_d [] pairs) as [m| |] eqn:E; try discriminate. injection H as <-.
    destruct (loop_d_good (S d0) pairs [] m E (conj (NoDup_nil _) I) Hp) as [Hnd Hall].
    rewrite tvalue_inline, tkv_spans_pass. split; [|split; [|split; reflexivity]].
    - apply body_ok_inline; [exact Hpre|rewrite kkeys_tkv; exact Hnd|]. apply all_P_map. eapply all_P_impl; [|exact Hall].
      intros kv (H1 & H2 & _). split; assumption.
    - cbn [value_lim]. split; [exact Hd|]. apply all_P_map. eapply all_P_impl; [|exact Hall]. intros kv (_ & _ & H3 & _). exact H3.
  Qed.

  Section Knot.
    Variable vr : parser value.
    Hypothesis Hvr : vgood_at vr.
    Hypothesis Hmono : mono vr.

    (* ---- arrays --------------------------------------------------------------------------------------------------- *)
    Definition elem_good (d : nat) (it : item) : Prop :=
      exists v, it = IValue v /\ value_wf CArr (tvalue s v) /\ value_lim d (tvalue s v).

    Lemma array_value_good i it i1 : isrc s i -> array_value vr i = Ok it i1 -> isrc s i1 /\ elem_good (depth i) it.
    Proof.
      unfold array_value. intros Hi H.
      apply bind_inv in H as (pre & j1 & H1 & H). pose proof H1 as H1'. apply span_inv in H1' as (u1 & _ & Epre).
      apply span_wscn_inv in H1 as (w1 & Hw1 & S1). destruct (isrc_splits s i w1 j1 Hi S1) as [Hj1 _].
      apply bind_inv in H as (v & j2 & H2 & H). destruct (Hvr j1 v j2 Hj1 H2) as (Hj2 & Hb & Hl & _).
      apply bind_inv in H as (suf & j3 & H3 & H). pose proof H3 as H3'. apply span_inv in H3' as (u3 & _ & Esuf).
      apply span_wscn_inv in H3 as (w2 & Hw2 & S3). destruct (isrc_splits s j2 w2 j3 Hj2 S3) as [Hj3 _].
      apply ret_inv in H as [-> ->]. split; [exact Hj3|]. eexists. split; [reflexivity|]. subst pre suf. split.
      - apply (decorated_ok CArr v i w1 j1 j2 w2 j3 Hb Hi S1 Hj2 S3); apply wscn_ncr; assumption.
      - rewrite tvalue_decorate. apply value_lim_decorate. rewrite <- (splits_depth _ _ _ S1). exact Hl.
    Qed.

    Lemma array_seps_good i1 items i2 : isrc s i1 -> seps (array_value vr) (byte_ ARRAY_SEP) i1 items i2 ->
      isrc s i2 /\ Forall (elem_good (depth i1)) items.
    Proof.
      intros Hi R. induction R as [i F|i x j E Hlt F|i x j it j2 items i3 E Hlt E2 Hle R IH]; [auto|auto|].
      apply byte_inv in E as [_ S1]. destruct (isrc_splits s i _ j Hi S1) as [Hj _].
      destruct (array_value_good j it j2 Hj E2) as [Hj2 Hit]. destruct (IH Hj2) as [Hi3 Hitems].
      rewrite (splits_depth _ _ _ S1) in Hit. pose proof (ext_depth _ _ _ (array_value_mono vr Hmono _ _ _ E2)) as D.
      rewrite D, (splits_depth _ _ _ S1) in Hitems. auto.
    Qed.

    Lemma array_values_good i v i' : isrc s i -> array_values vr i = Ok v i' ->
      isrc s i' /\ exists vals tr c, v = VArray vals tr c decor_default None /\ raw_ok SWscn (traw s tr) /\ Forall (elem_good (depth i)) vals.
    Proof.
      unfold array_values. intros Hi H. apply bind_inv in H as (c & j & H1 & H). apply peek_inv in H1 as [-> _].
      destruct c as [x|].
      - apply ret_inv in H as [-> ->]. split; [exact Hi|]. exists [], REmpty, false. split; [reflexivity|]. split; [apply empty_raw_ok|constructor].
      - apply bind_inv in H as (vals & j1 & H1 & H).
        apply bind_inv in H as (comma & j2 & H2 & H). apply bind_inv in H as (tr & j3 & H3 & H).
        pose proof H3 as H3'. apply span_inv in H3' as (u3 & _ & Etr).
        apply span_wscn_inv in H3 as (w & Hw & S3). apply ret_inv in H as [-> ->].
        assert (G1 : isrc s j1 /\ Forall (elem_good (depth i)) vals).
        { apply (separated0_inv _ _ _ _ _ (mono_shrinking _ (array_value_mono vr Hmono)) (byte_shrinking _)) in H1
            as [(-> & -> & _) | (it & i1 & items & -> & E & R)]; [auto|].
          destruct (array_value_good i it i1 Hi E) as [Hi1 Hit]. destruct (array_seps_good i1 items j1 Hi1 R) as [Hj1 Hitems].
          rewrite (ext_depth _ _ _ (array_value_mono vr Hmono _ _ _ E)) in Hitems. auto. }
        destruct G1 as [Hj1 Hvals].
        assert (Hj2 : isrc s j2).
        { destruct vals; [apply ret_inv in H2 as [_ ->]; exact Hj1|]. apply pmap_inv in H2 as (o & H2 & _).
          apply opt_inv in H2 as [(x & _ & H2) | (_ & -> & _)]; [|exact Hj1]. apply byte_inv in H2 as [_ S]. apply (isrc_splits s j1 _ j2 Hj1 S). }
        destruct (isrc_splits s j2 w j3 Hj2 S3) as [Hj3 _]. split; [exact Hj3|].
        exists vals, (raw_with_span tr), comma. split; [reflexivity|]. split; [|exact Hvals].
        subst tr. apply (span_raw_ok s SWscn j2 w j3 Hj2 S3). apply wscn_ncr, Hw.
    Qed.

    (* ---- inline tables ------------------------------------------------------------------------------------------- *)
    Lemma inline_keyval_good i x i1 : isrc s i -> inline_keyval vr i = Ok x i1 -> isrc s i1 /\ pair_good (depth i) x.
    Proof.
      rewrite inline_keyval_eq. intros Hi H. apply bind_inv in H as (kp & j1 & H1 & H).
      destruct (key_good s i kp j1 Hi H1) as (Hj1 & Hkp & _ & _). pose proof (ext_depth _ _ _ (key_mono _ _ _ H1)) as D1.
      apply bind_inv in H as ([[pre v] suf] & j2 & H2 & H). unfold inline_kv_rhs in H2.
      apply cut_err_inv in H2. apply bind_inv in H2 as (y & k1 & E1 & H2). apply context_inv, byte_inv in E1 as [_ Se].
      destruct (isrc_splits s j1 _ k1 Hj1 Se) as [Hk1 _].
      apply bind_inv in H2 as (pre' & k2 & E2 & H2). pose proof E2 as E2'. apply span_inv in E2' as (u2 & _ & Epre).
      apply span_ws_inv in E2 as (w2 & Hw2 & S2 & _). destruct (isrc_splits s k1 w2 k2 Hk1 S2) as [Hk2 _].
      apply bind_inv in H2 as (v' & k3 & E3 & H2). destruct (Hvr k2 v' k3 Hk2 E3) as (Hk3 & Hb & Hl & Hwr).
      apply bind_inv in H2 as (suf' & k4 & E4 & H2). pose proof E4 as E4'. apply span_inv in E4' as (u4 & _ & Esuf).
      apply span_ws_inv in E4 as (w3 & Hw3 & S4 & _). destruct (isrc_splits s k3 w3 k4 Hk3 S4) as [Hk4 _].
      apply ret_inv in H2 as [E ->]. injection E as -> -> ->.
      destruct (pop_key kp) as [[path k]|] eqn:Ep; [|discriminate]. apply ret_inv in H as [-> ->].
      destruct (pop_key_good s kp path k Hkp Ep) as (Hpath & Hk & _).
      split; [exact Hk4|]. unfold pair_good. cbn [fst snd]. split; [exact Hpath|]. split; [exact Hk|].
      eexists. split; [reflexivity|]. subst pre' suf'. split; [|split].
      - apply (decorated_ok CInl v' k1 w2 k2 k3 w3 k4 Hb Hk1 S2 Hk3 S4); cbn [pre_slot suf_slot slot_ok]; [rewrite (ncr_ws w2 Hw2); exact Hw2|rewrite (ncr_ws w3 Hw3); exact Hw3].
      - rewrite tvalue_decorate. apply value_lim_decorate. rewrite (splits_depth _ _ _ S2), (splits_depth _ _ _ Se), D1 in Hl. exact Hl.
      - apply written_decorate, Hwr.
    Qed.

    Lemma inline_seps_good i1 prs i2 : isrc s i1 -> seps (inline_keyval vr) (byte_ INLINE_TABLE_SEP) i1 prs i2 ->
      isrc s i2 /\ Forall (pair_good (depth i1)) prs.
    Proof.
      intros Hi R. induction R as [i F|i x j E Hlt F|i x j pr j2 prs i3 E Hlt E2 Hle R IH]; [auto|auto|].
      apply byte_inv in E as [_ S1]. destruct (isrc_splits s i _ j Hi S1) as [Hj _].
      destruct (inline_keyval_good j pr j2 Hj E2) as [Hj2 Hpr]. destruct (IH Hj2) as [Hi3 Hprs].
      rewrite (splits_depth _ _ _ S1) in Hpr. pose proof (ext_depth _ _ _ (inline_keyval_mono vr Hmono _ _ _ E2)) as D.
      rewrite D, (splits_depth _ _ _ S1) in Hprs. auto.
    Qed.

    (* inside check_recursion: the cursor is one level deeper than the value *)
    Lemma inline_table_good i v i' d0 : isrc s i -> depth i = S d0 -> S d0 < LIMIT -> inline_table vr i = Ok v i' ->
      isrc s i' /\ body_ok (tvalue s v) /\ value_lim d0 (tvalue s v) /\ written v.
    Proof.
      rewrite inline_table_eq. intros Hi Hd Hlim H. apply bind_inv in H as (x & j1 & H1 & H). apply byte_inv in H1 as [_ S1].
      destruct (isrc_splits s i _ j1 Hi S1) as [Hj1 _].
      apply bind_inv in H as (tv & j2 & H2 & H). apply cut_err_inv in H2. unfold inline_body in H2.
      apply try_map_inv in H2 as ([pairs pre] & H2 & Htm).
      apply bind_inv in H as (y & j3 & H3 & H). apply context_inv, cut_err_inv, byte_inv in H3 as [_ S3].
      apply ret_inv in H as [-> ->].
      unfold inline_kvs in H2. apply bind_inv in H2 as (kv & k1 & E1 & H2).
      apply bind_inv in H2 as (sp & k2 & E2 & H2). pose proof E2 as E2'. apply span_inv in E2' as (u2 & _ & Esp).
      apply span_ws_inv in E2 as (w & Hw & Sw & _). apply ret_inv in H2 as [E ->]. injection E as -> ->.
      assert (G : isrc s k1 /\ Forall (pair_good (S d0)) kv).
      { rewrite <- Hd, <- (splits_depth _ _ _ S1).
        apply (separated0_inv _ _ _ _ _ (mono_shrinking _ (inline_keyval_mono vr Hmono)) (byte_shrinking _)) in E1
          as [(-> & -> & _) | (pr & i1 & prs & -> & E & R)]; [auto|].
        destruct (inline_keyval_good j1 pr i1 Hj1 E) as [Hi1 Hpr]. destruct (inline_seps_good i1 prs k1 Hi1 R) as [Hk1 Hprs].
        rewrite (ext_depth _ _ _ (inline_keyval_mono vr Hmono _ _ _ E)) in Hprs. auto. }
      destruct G as [Hk1 Hkv]. destruct (isrc_splits s k1 w k2 Hk1 Sw) as [Hk2 _]. destruct (isrc_splits s k2 _ j3 Hk2 S3) as [Hj3 _].
      split; [exact Hj3|]. subst sp. apply (table_from_pairs_good d0 kv _ tv Htm Hkv); [|exact Hlim].
      apply (span_ws_ok s SWs k1 w k2 Hk1 Sw Hw).
    Qed.

    Lemma array_good i v i' d0 : isrc s i -> depth i = S d0 -> S d0 < LIMIT -> array vr i = Ok v i' ->
      isrc s i' /\ body_ok (tvalue s v) /\ value_lim d0 (tvalue s v) /\ written v.
    Proof.
      unfold array. intros Hi Hd Hlim H. apply bind_inv in H as (x & j1 & H1 & H). apply byte_inv in H1 as [_ S1].
      destruct (isrc_splits s i _ j1 Hi S1) as [Hj1 _].
      apply bind_inv in H as (a & j2 & H2 & H). apply cut_err_inv in H2.
      destruct (array_values_good j1 a j2 Hj1 H2) as (Hj2 & vals & tr & c & -> & Htr & Hvals).
      apply bind_inv in H as (y & j3 & H3 & H). apply context_inv, cut_err_inv, byte_inv in H3 as [_ S3].
      destruct (isrc_splits s j2 _ j3 Hj2 S3) as [Hj3 _]. apply ret_inv in H as [-> ->].
      split; [exact Hj3|]. rewrite (splits_depth _ _ _ S1), Hd in Hvals. rewrite tvalue_array. split; [|split; [|exact I]].
      - apply body_ok_array; [exact Htr|]. apply all_P_map. apply all_P_Forall'. eapply Forall_impl; [|exact Hvals].
        intros it (e & -> & He & _). exact He.
      - cbn [value_lim]. split; [exact Hlim|]. apply all_P_map. apply all_P_Forall'. eapply Forall_impl; [|exact Hvals].
        intros it (e & -> & _ & He). exact He.
    Qed.

    (* ---- scalars and the dispatch ----------------------------------------------------------------------------------- *)
    (* before apply_raw: a scalar has no repr yet, what is known is the token it was read from *)
    Definition vbody_good (d : nat) (v : value) (t : bytes) : Prop :=
      match v with
      | VScalar x _ _ => scalar_tok t x /\ scalar_lim x
      | _ => body_ok (tvalue s v) /\ value_lim d (tvalue s v) /\ written v
      end.
    Definition body_at (p : parser value) : Prop :=
      forall i v i', isrc s i -> p i = Ok v i' -> exists t, splits i t i' /\ vbody_good (depth i) v t.

    Lemma scalar_arm {A} (p : parser A) (mk : A -> scalar) :
      (forall i x i', p i = Ok x i' -> exists t, splits i t i' /\ scalar_tok t (mk x) /\ scalar_lim (mk x)) ->
      body_at (pmap (fun x => scalar_value (mk x)) p).
    Proof. intros Hp i v i' Hi H. apply pmap_inv in H as (x & H & ->). apply Hp in H as (t & S & Ht). exists t. split; [exact S|exact Ht]. Qed.

    Lemma string_arm_body : body_at (pmap (fun x => scalar_value (SString x)) string_).
    Proof. apply scalar_arm. intros i x i' H. apply string_sound in H as (t & Ht & S). exists t. cbn. auto. Qed.
    Lemma integer_arm_body : body_at (pmap (fun z => scalar_value (SInt z)) integer).
    Proof. apply scalar_arm. intros i x i' H. apply integer_sound in H as (t & Ht & S & R). exists t. cbn. auto. Qed.
    Lemma float_arm_body : body_at (pmap (fun f => scalar_value (SFloat f)) float).
    Proof.
      apply scalar_arm. intros i x i' H. apply float_sound in H as (t & Ht & F & S). exists t. cbn [scalar_tok scalar_lim].
      split; [exact S|]. split; [exact Ht|]. destruct x as [| |neg m e]; try exact I. exact F.
    Qed.
    Lemma date_time_arm_body : body_at (pmap (fun d => scalar_value (SDatetime d)) date_time).
    Proof. apply scalar_arm. intros i x i' H. apply date_time_sound in H as (t & Ht & S). exists t. cbn. auto. Qed.
    Lemma true_arm_body : body_at (pmap (fun v => scalar_value (SBool v)) true_).
    Proof. apply scalar_arm. intros i x i' H. apply true_sound in H as [-> S]. exists t_true. cbn. split; [exact S|]. split; [left; auto|exact I]. Qed.
    Lemma false_arm_body : body_at (pmap (fun v => scalar_value (SBool v)) false_).
    Proof. apply scalar_arm. intros i x i' H. apply false_sound in H as [-> S]. exists t_false. cbn. split; [exact S|]. split; [right; auto|exact I]. Qed.
    Lemma inf_arm_body : body_at (pmap (fun f => scalar_value (SFloat f)) inf).
    Proof.
      apply scalar_arm. intros i x i' H. unfold inf in H. apply pvalue_inv in H as (-> & y & H). apply lit_inv in H as [_ S].
      exists t_inf. cbn. split; [exact S|]. split; [apply (float_inf [] false); left; auto|exact I].
    Qed.
    Lemma nan_arm_body : body_at (pmap (fun f => scalar_value (SFloat f)) nan).
    Proof.
      apply scalar_arm. intros i x i' H. unfold nan in H. apply pvalue_inv in H as (-> & y & H). apply lit_inv in H as [_ S].
      exists t_nan. cbn. split; [exact S|]. split; [apply (float_nan [] false); left; auto|exact I].
    Qed.

    Lemma body_context p : body_at p -> body_at (context p).
    Proof. intros Hp i v i' Hi H. apply context_inv in H. apply (Hp i v i' Hi H). Qed.
    Lemma body_alt p q : body_at p -> body_at q -> body_at (p <|> q).
    Proof. intros Hp Hq i v i' Hi H. apply alt_inv in H as [H | [_ H]]; [apply (Hp i v i' Hi H)|apply (Hq i v i' Hi H)]. Qed.
    Lemma body_fail : body_at (context fail).
    Proof. intros i v i' _ H. apply context_inv in H. discriminate. Qed.

    Lemma nested_arm_body (p : parser value) : mono p ->
      (forall i v i' d0, isrc s i -> depth i = S d0 -> S d0 < LIMIT -> p i = Ok v i' ->
                         isrc s i' /\ body_ok (tvalue s v) /\ value_lim d0 (tvalue s v) /\ written v) ->
      (forall i v i', p i = Ok v i' -> match v with VScalar _ _ _ => False | _ => True end) ->
      body_at (check_recursion p).
    Proof.
      intros Hm Hp Hns i v i' Hi H. pose proof H as H0. apply check_recursion_splits in H0 as (Hlim & i2 & H2 & Hs).
      destruct (Hm _ _ _ H2) as (t & R & P & D & _).
      assert (S2 : splits (set_depth (S (depth i)) i) t i2).
      { split; [exact R|]. destruct i2 as [r2 p2 d2]. unfold adv, advance, set_depth in *. cbn [rest pos depth] in *.
        f_equal; [rewrite R; symmetry; apply skipn_app_len|lia|lia]. }
      exists t. split; [apply Hs, S2|]. destruct (Hp _ v i2 (depth i) (isrc_set_depth s i _ Hi) eq_refl Hlim H2) as (_ & Hb & Hl & Hw).
      specialize (Hns _ _ _ H2). destruct v; [contradiction| |]; cbn [vbody_good]; auto.
    Qed.
    Lemma array_arm_body : body_at (check_recursion (array vr)).
    Proof.
      apply nested_arm_body; [apply (array_mono vr Hmono)|intros i v i' d0; apply array_good|].
      intros i v i' H. unfold array in H. apply bind_inv in H as (x & j1 & _ & H). apply bind_inv in H as (a & j2 & H2 & H).
      apply cut_err_inv in H2. apply bind_inv in H as (y & j3 & _ & H). apply ret_inv in H as [-> _].
      unfold array_values in H2. apply bind_inv in H2 as (c & j & _ & H2). destruct c; [apply ret_inv in H2 as [-> _]; exact I|].
      apply bind_inv in H2 as (vals & k1 & _ & H2). apply bind_inv in H2 as (cm & k2 & _ & H2). apply bind_inv in H2 as (tr & k3 & _ & H2).
      apply ret_inv in H2 as [-> _]. exact I.
    Qed.
    Lemma inline_arm_body : body_at (check_recursion (inline_table vr)).
    Proof.
      apply nested_arm_body; [apply (inline_table_mono vr Hmono)|intros i v i' d0; apply inline_table_good|].
      intros i v i' H. rewrite inline_table_eq in H. apply bind_inv in H as (x & j1 & _ & H). apply bind_inv in H as (tv & j2 & H2 & H).
      apply cut_err_inv in H2. apply bind_inv in H as (y & j3 & _ & H). apply ret_inv in H as [-> _].
      unfold inline_body in H2. apply try_map_inv in H2 as ([pairs pre] & _ & Htm). unfold table_from_pairs in Htm.
      destruct (table_from_pairs_loop_d [] pairs); try discriminate. injection Htm as <-. exact I.
    Qed.

    Lemma value_arm_body b : body_at (value_arm vr b).
    Proof.
      unfold value_arm.
      repeat match goal with |- body_at (if ?c then _ else _) => destruct c end;
        first [ apply string_arm_body | apply array_arm_body | apply inline_arm_body
              | apply body_fail
              | apply body_context; first [apply integer_arm_body | apply float_arm_body | apply true_arm_body
                                          | apply false_arm_body | apply inf_arm_body | apply nan_arm_body]
              | idtac ].
      unfold number_arm. apply body_alt; [apply date_time_arm_body|]. apply body_alt; [apply float_arm_body|apply integer_arm_body].
    Qed.

    Lemma value_body_body : body_at (value_body vr).
    Proof.
      intros i v i' Hi H. pose proof H as H0. unfold value_body in H0. apply bind_inv in H0 as (b & j & H1 & _).
      apply context_inv, peek_inv in H1 as [_ (j' & H1)]. apply any_inv in H1 as [R _]. cbn [app] in R.
      rewrite (value_body_arm vr i b _ R) in H. apply (value_arm_body b i v i' Hi H).
    Qed.

    Lemma value_step_good : vgood_at (value_step vr).
    Proof.
      intros i v i' Hi H. unfold value_step in H. apply pmap_inv in H as ([v0 sp] & H & ->).
      apply with_span_inv in H as (a0 & H & E). injection E as <- ->.
      destruct (value_body_body i v0 i' Hi H) as (t & S & Hb). destruct (isrc_splits s i t i' Hi S) as [Hi' _].
      split; [exact Hi'|].
      assert (Hne : t <> []).
      { pose proof (SpansExact.value_body_progress vr Hmono _ _ _ H) as G. destruct S as [R _]. intro X. subst t. rewrite R in G. cbn in G. lia. }
      destruct v0 as [x r d|vals tr c d sp0|items pre im dt d sp0]; cbn [vbody_good] in Hb.
      - destruct Hb as [Ht Hl]. unfold apply_raw. cbn [value_decorate]. cbn [tvalue]. cbn [toraw]. rewrite (span_explicit s i t i' Hi S Hne).
        split; [apply body_ok_scalar; [exact Ht|exact Hl]|]. split; [exact I|exact I].
      - destruct Hb as (Hb & Hl & Hw). unfold apply_raw. cbn [value_decorate] in *. rewrite tvalue_array in *. split; [|split; [exact Hl|exact I]].
        intros c0 p q Hp Hq. exact (Hb c0 p q Hp Hq).
      - destruct Hb as (Hb & Hl & Hw). unfold apply_raw. cbn [value_decorate] in *. rewrite tvalue_inline in *. split; [|split; [exact Hl|exact Hw]].
        intros c0 p q Hp Hq. exact (Hb c0 p q Hp Hq).
    Qed.
  End Knot.

  Lemma value_f_good n : vgood_at (value_f n).
  Proof.
    induction n as [|n IH]; [intros i v i' _ H; discriminate|].
    change (value_f (S n)) with (value_step (value_f n)). apply value_step_good; [exact IH|apply (proj1 (value_f_all n))].
  Qed.

  (* value.rs `value` *)
  Theorem value_good i v i' : isrc s i -> value_ i = Ok v i' ->
    isrc s i' /\ body_ok (tvalue s v) /\ value_lim (depth i) (tvalue s v) /\ written v.
  Proof. apply value_f_good. Qed.
End PV.
