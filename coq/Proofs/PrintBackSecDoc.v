(* Proofs/PrintBackSecDoc.v — C03, class (c): the parse of a document made of sections (key = value
   lines with a plain key, [table] and [[array of tables]] headers, comments, blank lines).  The
   invariant of the loop of document.rs: the sections read so far are the sections of the tree
   (as a multiset), each with the text it will print as. *)
From TV Require Import Base.Prelude Base.Utf8 Base.Winnow Gen.Consts Spec.Abnf Spec.Lex Spec.Defs Spec.Syntax Spec.Norm.
From TV Require Import Model.Trivia Model.Strings Model.Datetime Model.Numbers Model.Tree Model.Parse Model.Document Model.Write Model.Encode.
From TV Require Import Proofs.ConstsOk Proofs.NoPanicBase Proofs.NoPanicLex Proofs.NoPanicValue.
From TV Require Import Proofs.LexEquivBase Proofs.LexEquivTrivia Proofs.LexEquivKey Proofs.GrammarSep Proofs.GrammarBase
                       Proofs.GrammarValueBase Proofs.GrammarValueSound Proofs.GrammarDocLine Proofs.GrammarDoc
                       Proofs.TilingDefs Proofs.PrintBackBase Proofs.PrintBackEnc Proofs.PrintBackKey Proofs.PrintBackValue Proofs.PrintBackDoc
                       Proofs.PrintBackSort Proofs.PrintBackEnts Proofs.PrintBackDisplay Proofs.PrintBackSecs Proofs.PrintBackState
                       Proofs.PrintBackHKey Proofs.PrintBackFinal Proofs.PrintBackTop.
From TV Require Proofs.DefsEquivSim Proofs.GrammarDocComplete.
Require Import Lia ZifyBool ZifyN ZifyNat Sorting.Sorted Sorting.Permutation.

(* ---- on_keyval for a plain key, any section -------------------------------------------------------------------- *)
Definition merged_prefix (st : pstate) (k : key) : raw :=
  match (match st_trailing st, (match d_prefix (k_leaf k) with Some r => raw_span r | None => None end) with
         | Some p, Some kk => Some (fst p, snd kk)
         | Some p, None => Some p
         | None, Some p => Some p
         | None, None => None
         end) with Some sp0 => raw_with_span sp0 | None => REmpty end.

Lemma on_keyval_gen st k v items dec ps sp st' :
  st_current st = Tbl items dec false false ps sp ->
  on_keyval_sp st [] k (IValue v) = COk st' ->
  exists sp',
    st_root st' = st_root st /\ st_path st' = st_path st /\ st_position st' = st_position st /\ st_is_array st' = st_is_array st
    /\ st_trailing st' = None
    /\ st_current st' = Tbl (items ++ [(with_prefix k (merged_prefix st k), IValue v)]) dec false false ps sp'
    /\ (match sp with Some e => exists e', sp' = Some (fst e, e') | None => sp' = None end)
    /\ kv_get items (k_key k) = None.
Proof.
  intros Hc H. unfold on_keyval_sp in H. destruct (on_keyval st [] k (IValue v)) as [st0| |] eqn:E; try discriminate.
  injection H as <-. unfold on_keyval in E. rewrite Hc in E. cbn [t_span] in E. fold (merged_prefix st k) in E.
  set (P := merged_prefix st k) in *.
  assert (G : forall sp1, with_table_at (Tbl items dec false false ps sp1) [] true
                (fun table => if Bool.eqb (t_dotted table) true then CErr DuplicateKey
                              else match kv_get (t_items table) (k_key (with_prefix k P)) with
                                   | None => COk (t_set_items table (kv_push (t_items table) (with_prefix k P) (IValue v)), tt)
                                   | Some _ => CErr DuplicateKey end)
              = match kv_get items (k_key k) with
                | None => COk (Tbl (items ++ [(with_prefix k P, IValue v)]) dec false false ps sp1, tt)
                | Some _ => CErr DuplicateKey end).
  { intro sp1. cbn [with_table_at t_dotted Bool.eqb t_items t_set_items kv_push with_prefix set_leaf k_key]. destruct (kv_get items (k_key k)); reflexivity. }
  unfold with_prefix in G.
  destruct sp as [e|]; [destruct (item_span (IValue v)) as [vs|]|]; cbn [t_set_span] in E; rewrite G in E;
    (destruct (kv_get items (k_key k)) eqn:Eg; [discriminate|]); injection E as <-;
    eexists; cbn [st_root st_path st_trailing st_current st_position st_is_array set_dotted_spans]; repeat split; try reflexivity;
    try (eexists; reflexivity); try (destruct e; eexists; reflexivity).
Qed.

Section SecDoc.
  Variable s : bytes.
  Notation K := (hkey s).

  (* ---- a header line: text, spans, keys ------------------------------------------------------------------------ *)
  Lemma header_text_render arr i kp sp tr i1 : isrc s i -> header_text arr i = Ok ((kp, sp), tr) i1 ->
    exists j Y w c jt le,
      sp = (pos i, pos j) /\ splits i (hdr_open arr ++ Y ++ hdr_close arr) j /\ hdr_at s (pos i) arr Y
      /\ Forall K kp /\ kp <> [] /\ table_tok arr (hdr_open arr ++ Y ++ hdr_close arr) (map k_key kp)
      /\ ws_tok w /\ opt_comment c /\ splits j (w ++ c) jt /\ tr = (pos j, pos jt) /\ isrc s j
      /\ splits jt le i1 /\ lend le (rest i1) /\ isrc s i1.
  Proof.
    unfold header_text, pair_. intros Hi H. apply bind_inv in H as ([kp0 sp0] & j1 & H1 & H).
    apply bind_inv in H as (tr0 & j2 & H2 & H). apply ret_inv in H as [E ->]. injection E as <- <- <-.
    apply with_span_inv in H1 as (kp1 & H1 & E). injection E as <- ->.
    unfold delimited in H1. apply bind_inv in H1 as (u & k1 & Eo & H1). apply open_p_inv in Eo.
    apply bind_inv in H1 as (kp2 & k2 & Ek & H1). apply cut_err_inv in Ek.
    apply bind_inv in H1 as (u2 & k3 & Ec & H1). apply context_inv, cut_err_inv, close_p_inv in Ec.
    apply ret_inv in H1 as [<- ->].
    destruct (isrc_splits s i _ k1 Hi Eo) as [Hk1 _].
    pose proof (key_hkeys s k1 kp k2 Hk1 Ek) as HK.
    pose proof Ek as Ek'. apply key_sound in Ek' as (w1 & kt & w2 & Hw1 & Hkt & Hw2 & Sk & Hlen).
    destruct (isrc_splits s k1 _ k2 Hk1 Sk) as [Hk2 _]. destruct (isrc_splits s k2 _ k3 Hk2 Ec) as [Hj1 _].
    apply context_inv, cut_err_inv in H2. rewrite line_trailing_unfold in H2.
    apply bind_inv in H2 as (spt & m1 & F1 & H2). pose proof F1 as F1'. apply span_inv in F1' as (u4 & _ & Esp).
    apply span_inv in F1 as (oc & F1 & _). apply bind_inv in F1 as (w & n1 & Fw & F1). apply ws_sound in Fw as (Hw & Sw & _).
    apply bind_inv in H2 as (u5 & m2 & F2 & H2). apply line_ending_sound in F2 as (le & Sle & Hl). apply ret_inv in H2 as [-> ->].
    assert (Hc : exists c, opt_comment c /\ splits n1 c m1).
    { apply opt_inv in F1 as [(x0 & -> & F1) | (-> & -> & _)].
      - apply comment_sound in F1 as (c & Hc & Sc & _). exists c. split; [right; exact Hc|exact Sc].
      - exists []. split; [left; reflexivity|apply splits_nil]. }
    destruct Hc as (c & Hc & Sc). pose proof (splits_trans _ _ _ _ _ Sw Sc) as Swc.
    destruct (isrc_splits s k3 (w ++ c) m1 Hj1 Swc) as [Hm1 _]. destruct (isrc_splits s m1 le _ Hm1 Sle) as [Hi1 _].
    exists k3, (w1 ++ kt ++ w2), w, c, m1, le. split; [reflexivity|].
    split; [exact (splits_trans _ _ _ _ _ Eo (splits_trans _ _ _ _ _ Sk Ec))|].
    split.
    { exists i, k1, kp, k2, (rest k3). split; [exact Hi|]. split; [reflexivity|]. split; [exact Eo|]. split; [exact Ek|]. split; [exact Sk|].
      destruct Ec as [R _]. exact R. }
    split; [exact HK|]. split; [intros ->; apply (key_tok_nonempty _ _ Hkt); reflexivity|].
    split; [apply table_tok_eq; exists w1, kt, w2; rewrite <- !app_assoc; auto|].
    split; [exact Hw|]. split; [exact Hc|]. split; [exact Swc|]. split; [exact Esp|]. split; [exact Hj1|]. split; [exact Sle|]. split; [exact Hl|exact Hi1].
  Qed.

  (* ---- the invariant -------------------------------------------------------------------------------------------- *)
  (* the root section is being read *)
  Definition rinv (st : pstate) (i : input) (kvl : list (key * value)) (outs : list bytes) (i0 : input) (pend : bytes) : Prop :=
    st_root st = tbl_new /\ st_path st = [] /\ st_position st = 0%N /\
    (exists sp, st_current st = Tbl (map mk_item kvl) decor_default false false None sp) /\
    NoDup (map kk (map mk_item kvl)) /\
    Forall2 (line_out s) kvl outs /\
    st_trailing st = Some (pos i0, pos i) /\ isrc s i0 /\ splits i0 pend i.

  (* a section opened by a header is being read *)
  Definition hinv (st : pstate) (i : input) (done : list dsec) (a : bool) (lead trail : raw) (start : N) (Y : bytes)
             (kvl : list (key * value)) (outs : list bytes) (i0 : input) (pend : bytes) : Prop :=
    exists ppath k T0 e,
      pop_key (st_path st) = Some (ppath, k) /\ K k /\ Forall K ppath /\ st_is_array st = a /\
      st_current st = Tbl (T0 ++ map mk_item kvl) (decor_new lead trail) false false (Some (st_position st)) (Some (start, e)) /\
      vals T0 = [] /\ uks K T0 /\ NoDup (map kk (T0 ++ map mk_item kvl)) /\
      uk K (st_root st) /\ t_decor (st_root st) = decor_default /\ t_position (st_root st) = None /\
      (a = false -> exists par, reach (st_root st) ppath = Some par /\ kv_get (t_items par) (k_key k) = None) /\
      Permutation (Proot (st_root st) ++ PI T0) (map d_sec done) /\
      (exists d0 ds, done = d0 :: ds /\ root_ok s d0 /\ Forall (hdr_ok s) ds) /\
      StronglySorted N.lt (map (fun d => fst (d_sec d)) done) /\ Forall (fun d => (fst (d_sec d) < st_position st)%N) done /\
      hdr_at s start a Y /\
      Forall2 (line_out s) kvl outs /\
      st_trailing st = Some (pos i0, pos i) /\ isrc s i0 /\ splits i0 pend i.

  Definition hdr_out (done : list dsec) (a : bool) (lead trail : raw) (Y : bytes) (outs : list bytes) : bytes :=
    concat (map d_out done) ++ raw_encode (traw s lead) [] ++ (hdr_open a ++ Y ++ hdr_close a) ++ raw_encode (traw s trail) [] ++ [x0a] ++ concat outs.

  Inductive sinv (st : pstate) (i : input) (out : bytes) (i0 : input) (pend : bytes) : Prop :=
  | si_root kvl outs : rinv st i kvl outs i0 pend -> out = concat outs -> sinv st i out i0 pend
  | si_hdr done a lead trail start Y kvl outs :
      hinv st i done a lead trail start Y kvl outs i0 pend -> out = hdr_out done a lead trail Y outs -> sinv st i out i0 pend.

  (* ---- trivia ---------------------------------------------------------------------------------------------------- *)
  Lemma sinv_on_ws st i out i0 pend w i1 :
    sinv st i out i0 pend -> splits i w i1 -> sinv (on_ws st (pos i, pos i1)) i1 out i0 (pend ++ w).
  Proof.
    intros [kvl outs (Hr & Hp & Hq & Hc & Hn & Hu & Ht & Hi0 & Sp) Eo|done a lead trail start Y kvl outs H Eo] Sw.
    - apply (si_root _ _ _ _ _ kvl outs); [|exact Eo]. unfold rinv, on_ws. cbn [st_root st_path st_current st_trailing st_position].
      rewrite Ht. cbn [fst snd]. repeat (split; [assumption|]). split; [reflexivity|]. split; [exact Hi0|exact (splits_trans _ _ _ _ _ Sp Sw)].
    - apply (si_hdr _ _ _ _ _ done a lead trail start Y kvl outs); [|exact Eo].
      destruct H as (ppath & k & T0 & e & H1 & H2 & H3 & H4 & H5 & H6 & H7 & H8 & H9 & H10 & H11 & H12 & H13 & H14 & H15 & H16 & H17 & H18 & Ht & Hi0 & Sp).
      exists ppath, k, T0, e. unfold on_ws. cbn [st_root st_path st_current st_trailing st_position st_is_array].
      rewrite Ht. cbn [fst snd]. repeat (split; [assumption|]). split; [reflexivity|]. split; [exact Hi0|exact (splits_trans _ _ _ _ _ Sp Sw)].
  Qed.

  Lemma sinv_trivia st i out i0 pend x j w i1 :
    sinv st i out i0 pend -> splits i x j -> splits j w i1 ->
    sinv (on_ws (on_ws st (pos i, pos j)) (pos j, pos i1)) i1 out i0 (pend ++ x ++ w).
  Proof. intros HI Sx Sw. rewrite app_assoc. apply sinv_on_ws; [|exact Sw]. apply sinv_on_ws; assumption. Qed.

  (* ---- key = value ------------------------------------------------------------------------------------------------ *)
  Lemma mk_item_push kvl k v : map mk_item (kvl ++ [(k, v)]) = kv_push (map mk_item kvl) k (IValue v).
  Proof. rewrite map_app. reflexivity. Qed.

  (* the pending trivia and the blanks in front of the key become the prefix of the key *)
  Lemma merged_prefix_text st i i0 pend k j0 w0 :
    st_trailing st = Some (pos i0, pos i) -> isrc s i0 -> splits i0 pend i -> splits i w0 j0 -> ws_tok w0 ->
    d_prefix (k_leaf k) = Some (raw_with_span (pos i, pos j0)) ->
    raw_encode (traw s (merged_prefix st k)) [] = ncr pend ++ w0.
  Proof.
    intros Htr Hi0 Spend S0 Hw0 Epre. unfold merged_prefix. rewrite Htr, Epre, raw_span_with_span. cbn [fst snd].
    destruct (pos i =? pos j0)%N eqn:Q.
    - apply N.eqb_eq in Q. assert (w0 = []) by (apply (splits_empty_iff i w0 j0 S0); exact Q). subst w0.
      cbv iota. rewrite (span_prints s i0 pend i [] Hi0 Spend). rewrite app_nil_r. reflexivity.
    - cbv iota. cbn [fst snd]. rewrite (span_prints s i0 (pend ++ w0) j0 [] Hi0 (splits_trans _ _ _ _ _ Spend S0)). rewrite ncr_app, (ncr_ws w0 Hw0). reflexivity.
  Qed.

  Lemma sinv_keyval st i out i0 pend k v st0 j0 w0 body j1 w i1 :
    sinv st i out i0 pend -> on_keyval_sp st [] k (IValue v) = COk st0 ->
    splits i w0 j0 -> ws_tok w0 -> d_prefix (k_leaf k) = Some (raw_with_span (pos i, pos j0)) ->
    (vplain v = true -> forall P z, kv_line s (with_prefix k P, v) ++ z = raw_encode (traw s P) [] ++ body ++ [x0a] ++ z) ->
    isrc s j1 -> splits j1 w i1 ->
    sinv (on_ws st0 (pos j1, pos i1)) i1 (out ++ ncr pend ++ w0 ++ body ++ [x0a]) j1 w.
  Proof.
    intros HI Eo S0 Hw0 Epre Hline Hj1 Sw.
    destruct HI as [kvl outs (Hr & Hp & Hq & (sp & Hc) & Hn & Hu & Ht & Hi0 & Sp) Eout|done a lead trail start Y kvl outs H Eout].
    - destruct (on_keyval_gen st k v _ _ _ _ st0 Hc Eo) as (sp' & Er' & Ep' & Eq' & Ea' & Et' & Ec' & _ & Hg).
      pose proof (merged_prefix_text st i i0 pend k j0 w0 Ht Hi0 Sp S0 Hw0 Epre) as HP.
      apply (si_root _ _ _ _ _ (kvl ++ [(with_prefix k (merged_prefix st k), v)]) (outs ++ [(ncr pend ++ w0) ++ body ++ [x0a]])).
      + unfold rinv, on_ws. cbn [st_root st_path st_current st_trailing st_position]. rewrite Er', Ep', Eq', Et', Ec'.
        split; [exact Hr|]. split; [exact Hp|]. split; [exact Hq|]. split; [exists sp'; rewrite map_app; reflexivity|].
        split; [rewrite mk_item_push; apply nodup_push; assumption|].
        split; [|auto]. apply Forall2_app; [exact Hu|]. constructor; [|constructor].
        intros Hv z. cbn [snd] in Hv. rewrite (Hline Hv _ z), HP. rewrite <- !app_assoc. reflexivity.
      + rewrite concat_app. cbn [concat]. rewrite app_nil_r, Eout, <- !app_assoc. reflexivity.
    - destruct H as (ppath & k0 & T0 & e & H1 & H2 & H3 & H4 & Hc & H6 & H7 & Hn & H9 & H10 & H11 & H12 & H13 & H14 & H15 & H16 & H17 & Hu & Ht & Hi0 & Sp).
      destruct (on_keyval_gen st k v _ _ _ _ st0 Hc Eo) as (sp' & Er' & Ep' & Eq' & Ea' & Et' & Ec' & (e' & Esp') & Hg). cbn [fst] in Esp'.
      pose proof (merged_prefix_text st i i0 pend k j0 w0 Ht Hi0 Sp S0 Hw0 Epre) as HP.
      apply (si_hdr _ _ _ _ _ done a lead trail start Y (kvl ++ [(with_prefix k (merged_prefix st k), v)]) (outs ++ [(ncr pend ++ w0) ++ body ++ [x0a]])).
      + exists ppath, k0, T0, e'. unfold on_ws. cbn [st_root st_path st_current st_trailing st_position st_is_array]. rewrite Er', Ep', Eq', Ea', Et', Ec', Esp'.
        split; [exact H1|]. split; [exact H2|]. split; [exact H3|]. split; [exact H4|].
        split; [rewrite map_app, app_assoc; reflexivity|]. split; [exact H6|]. split; [exact H7|].
        split; [rewrite mk_item_push; unfold kv_push; rewrite app_assoc; apply (nodup_push (T0 ++ map mk_item kvl)); assumption|].
        repeat (split; [assumption|]).
        split; [|auto]. apply Forall2_app; [exact Hu|]. constructor; [|constructor].
        intros Hv z. cbn [snd] in Hv. rewrite (Hline Hv _ z), HP. rewrite <- !app_assoc. reflexivity.
      + rewrite Eout. unfold hdr_out. rewrite concat_app. cbn [concat]. rewrite app_nil_r, <- !app_assoc. reflexivity.
  Qed.

  (* ---- the end of a section --------------------------------------------------------------------------------------- *)
  Lemma PI_values kvl : PI (map mk_item kvl) = [].
  Proof. induction kvl as [|[k v] tl IH]; [reflexivity|]. cbn [map PI flat_map mk_item snd PIt app]. exact IH. Qed.
  Lemma vals_values kvl : vals (map mk_item kvl) = kvl.
  Proof. induction kvl as [|[k v] tl IH]; [reflexivity|]. cbn [map mk_item]. unfold vals in *. cbn [flat_map fst snd app]. rewrite IH. reflexivity. Qed.
  Lemma uks_values kvl : uks K (map mk_item kvl).
  Proof. apply Forall_forall. intros kv Hin. apply in_map_iff in Hin as ([k v] & <- & _). cbn [mk_item fst snd]. split; [discriminate|exact I]. Qed.

  Lemma sorted_snoc (l : list N) x : StronglySorted N.lt l -> Forall (fun y => (y < x)%N) l -> StronglySorted N.lt (l ++ [x]).
  Proof.
    induction 1 as [|y l Hs IH Hy]; intro Hx; cbn [app]; [repeat constructor|]. inversion Hx; subst.
    constructor; [apply IH; assumption|]. apply Forall_app. split; [exact Hy|constructor; [assumption|constructor]].
  Qed.

  (* what is known once the current section is attached *)
  Definition fin_facts (st stf : pstate) (out : bytes) (i : input) (i0 : input) (pend : bytes) : Prop :=
    exists done,
      stf = DefsEquivSim.finalized st (st_root stf) /\ uk K (st_root stf) /\ t_decor (st_root stf) = decor_default /\ t_position (st_root stf) = None
      /\ Permutation (Proot (st_root stf)) (map d_sec done)
      /\ (exists d0 ds, done = d0 :: ds /\ root_ok s d0 /\ Forall (hdr_ok s) ds)
      /\ StronglySorted N.lt (map (fun d => fst (d_sec d)) done)
      /\ Forall (fun d => (fst (d_sec d) < st_position st + 1)%N) done
      /\ concat (map d_out done) = out
      /\ st_trailing st = Some (pos i0, pos i) /\ isrc s i0 /\ splits i0 pend i.

  Lemma sinv_finalize st i out i0 pend stf : sinv st i out i0 pend -> finalize_table st = COk stf -> fin_facts st stf out i i0 pend.
  Proof.
    intros [kvl outs (Hr & Hp & Hq & (sp & Hc) & Hn & Hu & Ht & Hi0 & Sp) Eout|done a lead trail start Y kvl outs H Eout] Hf.
    - (* the root section becomes the root table *)
      rewrite DefsEquivSim.finalize_table_eq, Hp, Hr in Hf. cbn [pop_key rev tbl_is_empty tbl_new t_items forallb] in Hf. injection Hf as <-.
      exists [(sec_of (st_current st) false, @nil byte, concat outs)]. cbn [DefsEquivSim.finalized st_root]. rewrite Hc.
      split; [reflexivity|]. split.
      { apply uk_eq. cbn [t_items t_implicit]. split; [exact Hn|]. split; [discriminate|apply uks_values]. }
      split; [reflexivity|]. split; [reflexivity|]. split.
      { unfold Proot. cbn [t_items map d_sec fst]. rewrite PI_values. reflexivity. }
      split.
      { eexists _, []. split; [reflexivity|]. split; [|constructor]. unfold root_ok, sec_of. cbn [fst snd t_position t_items]. split; [reflexivity|].
        rewrite vals_values. intro Hpl. apply (concat_outs s kvl outs Hu Hpl). }
      split; [cbn [map]; repeat constructor|]. split; [constructor; [|constructor]; unfold d_sec, sec_of; cbn [fst t_position]; lia|].
      split; [cbn [map concat d_out snd]; rewrite app_nil_r; symmetry; exact Eout|]. auto.
    - destruct H as (ppath & k & T0 & e & H1 & H2 & H3 & H4 & Hc & H6 & H7 & Hn & H9 & H10 & H11 & H12 & H13 & (d0 & ds & Ed & Hd0 & Hds) & H15 & H16 & H17 & Hu & Ht & Hi0 & Sp).
      assert (Huc : uk K (st_current st)).
      { rewrite Hc. apply uk_eq. cbn [t_items t_implicit]. split; [exact Hn|]. split; [discriminate|]. apply Forall_app. split; [exact H7|apply uks_values]. }
      assert (Habs : st_is_array st = false -> exists par, reach (st_root st) ppath = Some par /\ kv_get (t_items par) (k_key k) = None)
        by (rewrite H4; exact H12).
      destruct (finalize_secs K st stf ppath k H1 Hf H9 Huc H2 H3 Habs) as (Estf & Hfr & Hur' & Hperm).
      set (xc := sec_of (st_current st) a).
      set (oc := raw_encode (traw s lead) [] ++ (hdr_open a ++ Y ++ hdr_close a) ++ raw_encode (traw s trail) [] ++ [x0a] ++ concat outs).
      assert (Hpos : (0 < st_position st)%N).
      { subst done. inversion H16 as [|? ? Hlt _]; subst. destruct d0 as [[x0 Y0] o0]. destruct Hd0 as [E0 _]. unfold d_sec in Hlt. cbn [fst] in Hlt. lia. }
      assert (Exc : xc = (st_position st, (a, decor_new lead trail, Some start, kvl))).
      { unfold xc, sec_of. rewrite Hc. cbn [t_position t_decor t_span t_items fst]. rewrite vals_app, H6, vals_values. reflexivity. }
      exists (done ++ [(xc, Y, oc)]). split; [exact Estf|]. split; [exact Hur'|].
      destruct Hfr as (Fd & _ & _ & Fp & _). split; [rewrite Fd; exact H10|]. split; [rewrite Fp; exact H11|]. split.
      { rewrite Hperm, H4, P_eq. rewrite map_app. cbn [map d_sec fst].
        assert (Hown : own (st_current st) a = [xc]).
        { unfold own. rewrite Hc. cbn [t_implicit andb negb]. rewrite orb_true_r. rewrite <- Hc. reflexivity. }
        rewrite Hown, Hc. cbn [t_items]. rewrite PI_app, PI_values, app_nil_r. rewrite <- H13.
        rewrite <- !app_assoc. apply Permutation_app_head. apply Permutation_app_comm. }
      split.
      { exists d0, (ds ++ [(xc, Y, oc)]). split; [rewrite Ed; reflexivity|]. split; [exact Hd0|]. apply Forall_app. split; [exact Hds|].
        constructor; [|constructor]. exists (st_position st), a, lead, trail, start, kvl. split; [exact Exc|]. split; [lia|]. split; [exact H17|].
        intro Hpl. rewrite Exc. cbn [stext decor_new d_prefix d_suffix]. rewrite (concat_outs s kvl outs Hu Hpl). reflexivity. }
      split.
      { rewrite map_app. cbn [map d_sec fst]. apply sorted_snoc; [exact H15|]. rewrite Forall_map. rewrite Exc. cbn [fst]. exact H16. }
      split.
      { apply Forall_app. split; [eapply Forall_impl; [|exact H16]; intros d Hd; cbn beta in Hd; lia|].
        constructor; [|constructor]. unfold d_sec. cbn [fst]. rewrite Exc. cbn [fst]. lia. }
      split; [|auto]. rewrite map_app, concat_app. cbn [map concat d_out snd]. rewrite app_nil_r, Eout. unfold hdr_out, oc. rewrite <- !app_assoc. reflexivity.
  Qed.

  (* ---- a header ------------------------------------------------------------------------------------------------- *)
  Lemma Forall_pop kp ppath k : pop_key kp = Some (ppath, k) -> Forall K kp -> K k /\ Forall K ppath.
  Proof.
    intros Ep HK. apply DefsEquivSim.pop_key_some in Ep. subst kp. apply Forall_app in HK as [H1 H2]. inversion H2; subst. auto.
  Qed.

  Lemma sinv_header arr st i out i0 pend kp j jt Y w c st1 jl w' i1 :
    sinv st i out i0 pend -> isrc s i ->
    on_header arr st kp (pos j, pos jt) (pos i, pos j) = COk st1 ->
    hdr_at s (pos i) arr Y -> Forall K kp -> kp <> [] -> isrc s j -> splits j (w ++ c) jt -> ws_tok w -> opt_comment c ->
    isrc s jl -> splits jl w' i1 ->
    sinv (on_ws st1 (pos jl, pos i1)) i1 (out ++ ncr pend ++ (hdr_open arr ++ Y ++ hdr_close arr) ++ (w ++ c) ++ [x0a]) jl w'.
  Proof.
    intros HI Hi Hh Hat HK Hne Hj Swc Hw Hc Hjl Sw'.
    unfold on_header in Hh. destruct kp as [|k0 kp0] eqn:Ekp; [congruence|]. rewrite <- Ekp in *. clear Ekp k0 kp0.
    destruct (finalize_table st) as [stf| |] eqn:Ef; try discriminate.
    destruct (sinv_finalize st i out i0 pend stf HI Ef) as (done & Estf & Hur & Hdec & Hpos & Hperm & Hdone & Hsort & Hlt & Eout & Htr & Hi0 & Sp).
    unfold take_trailing in Hh. cbv zeta beta iota in Hh.
    set (st2 := mkState (st_root stf) None (st_position stf) (st_current stf) (st_is_array stf) (st_path stf)) in *.
    set (lead := match st_trailing stf with Some sp => raw_with_span sp | None => REmpty end) in *.
    set (trail := raw_with_span (pos j, pos jt)) in *.
    assert (Elead : raw_encode (traw s lead) [] = ncr pend).
    { unfold lead. rewrite Estf. cbn [DefsEquivSim.finalized st_trailing]. rewrite Htr. apply (span_prints s i0 pend i [] Hi0 Sp). }
    assert (Etrail : raw_encode (traw s trail) [] = w ++ c).
    { unfold trail. rewrite (span_prints s j (w ++ c) jt [] Hj Swc), ncr_app, (ncr_ws w Hw), (ncr_opt_comment c Hc). reflexivity. }
    assert (Ecur2 : t_items (st_current st2) = []) by (unfold st2; rewrite Estf; reflexivity).
    assert (Epos2 : st_position st2 = st_position st) by (unfold st2; rewrite Estf; reflexivity).
    destruct (pop_key_total kp Hne) as (ppath & k & Ep). destruct (Forall_pop kp ppath k Ep HK) as [Hk Hpp].
    assert (Hlt' : Forall (fun d : dsec => (fst (d_sec d) < st_position st2 + 1)%N) done) by (rewrite Epos2; exact Hlt).
    apply (si_hdr _ _ _ _ _ done arr lead trail (pos i) Y [] []).
    2:{ unfold hdr_out. rewrite Eout, Elead, Etrail. cbn [concat]. rewrite app_nil_r, <- !app_assoc. reflexivity. }
    destruct arr.
    - (* [[array of tables]] *)
      destruct (start_array_secs K st2 kp (decor_new lead trail) (pos i, pos j) st1 ppath k Hh Ep Hur Hpp Hk) as (Est1 & Hfr & Hur1 & Hperm1).
      exists ppath, k, [], (pos j). rewrite Est1. unfold open_table, on_ws. cbn [st_root st_path st_current st_trailing st_position st_is_array].
      split; [exact Ep|]. split; [exact Hk|]. split; [exact Hpp|]. split; [reflexivity|].
      split; [rewrite Ecur2; reflexivity|].
      split; [reflexivity|]. split; [constructor|]. split; [constructor|]. split; [exact Hur1|].
      destruct Hfr as (Fd & _ & _ & Fp & _). split; [rewrite Fd; exact Hdec|]. split; [rewrite Fp; exact Hpos|].
      split; [discriminate|]. split; [cbn [PI flat_map]; rewrite app_nil_r, Hperm1; exact Hperm|].
      split; [exact Hdone|]. split; [exact Hsort|]. split; [exact Hlt'|]. split; [exact Hat|]. split; [constructor|]. auto.
    - (* [table] *)
      destruct (start_table_secs K st2 kp (decor_new lead trail) (pos i, pos j) st1 ppath k Hh Ep Hur Hpp Ecur2)
        as (T0 & Est1 & HvT & HuT & HnT & Hfr & Hur1 & Hperm1 & Habs).
      exists ppath, k, T0, (pos j). rewrite Est1. unfold open_table, on_ws. cbn [st_root st_path st_current st_trailing st_position st_is_array t_items].
      split; [exact Ep|]. split; [exact Hk|]. split; [exact Hpp|]. split; [reflexivity|].
      split; [rewrite app_nil_r; reflexivity|].
      split; [exact HvT|]. split; [exact HuT|]. split; [rewrite app_nil_r; exact HnT|]. split; [exact Hur1|].
      destruct Hfr as (Fd & _ & _ & Fp & _). split; [rewrite Fd; exact Hdec|]. split; [rewrite Fp; exact Hpos|].
      split; [intros _; exact Habs|]. split; [rewrite Hperm1; exact Hperm|].
      split; [exact Hdone|]. split; [exact Hsort|]. split; [exact Hlt'|]. split; [exact Hat|]. split; [constructor|]. auto.
  Qed.

  (* ---- one iteration of the loop --------------------------------------------------------------------------------- *)
  Definition sec_stmt (st : astmt) : bool := match st with SKeyVal p _ => Nat.eqb (length p) 1 | _ => true end.
  Definition secl (l : list astmt) : bool := forallb sec_stmt l.

  Definition step2 (st : pstate) (i : input) (st1 : pstate) (i1 : input) (l : list astmt) (o : bytes) : Prop :=
    forall out i0 pend, sinv st i out i0 pend -> secl l = true ->
      exists out' i0' pend', sinv st1 i1 out' i0' pend' /\ out' ++ ncr pend' = out ++ ncr pend ++ o.

  Lemma doc_line_render2 st i st1 i1 : isrc s i -> doc_line st i = Ok st1 i1 ->
    exists w0 e l o le w,
      ws_tok w0 /\ item_text e l o /\ ws_tok w /\ splits i (w0 ++ e ++ le ++ w) i1
      /\ (newline_tok le \/ (le = [] /\ w = [] /\ rest i1 = [])) /\ isrc s i1
      /\ step2 st i st1 i1 l (w0 ++ o ++ le_out l le ++ w).
  Proof.
    rewrite doc_line_unfold. intros Hi H. apply bind_inv in H as (b & j & H1 & H). apply peek_inv in H1 as [-> _].
    apply bind_inv in H as (st0 & j1 & H2 & H3). apply parse_ws_exact in H3 as (w & Hw & Sw & ->).
    assert (Hend : forall le, lend le (rest j1) -> newline_tok le \/ (le = [] /\ w = [] /\ rest i1 = [])).
    { intros le [Hn | [-> Hr]]; [left; exact Hn|right]. destruct Sw as [R E]. rewrite Hr in R.
      destruct w; [|discriminate]. cbn [app] in R. auto. }
    unfold line_p in H2.
    destruct (byte_eqb b COMMENT_START_SYMBOL).
    { (* a comment line *)
      apply cut_err_inv in H2. unfold parse_comment in H2. apply pmap_inv in H2 as (sp & H2 & ->).
      pose proof H2 as H2'. apply span_inv in H2' as (u0 & _ & ->).
      apply span_inv in H2 as (u & H2 & _). apply bind_inv in H2 as (x & k1 & F1 & F2).
      apply comment_sound in F1 as (c & Hc & S1 & _). apply context_inv, line_ending_sound in F2 as (le & S2 & Hl).
      pose proof (splits_trans _ _ _ _ _ S1 S2) as S12.
      destruct (isrc_splits s i (c ++ le) j1 Hi S12) as [Hj1 _]. destruct (isrc_splits s j1 w i1 Hj1 Sw) as [Hi1 _].
      exists [], c, [], c, le, w. split; [reflexivity|]. split; [apply itx_comment, Hc|]. split; [exact Hw|].
      split; [pose proof (splits_trans _ _ _ _ _ S12 Sw) as S; rewrite <- !app_assoc in S; exact S|].
      split; [apply Hend, Hl|]. split; [exact Hi1|].
      intros out i0 pend HI _. exists out, i0, (pend ++ (c ++ le) ++ w). split; [apply sinv_trivia; assumption|].
      rewrite !ncr_app, (ncr_comment c Hc), (ncr_ws w Hw). cbn [app].
      assert (El : ncr le = le_out [] le) by (destruct Hl as [[-> | ->] | [-> _]]; reflexivity).
      rewrite El, <- !app_assoc. reflexivity. }
    destruct (byte_eqb b STD_TABLE_OPEN).
    { (* a table header *)
      apply cut_err_inv, table_inv in H2 as (arr & H2). rewrite header_unfold in H2.
      apply try_map_inv in H2 as ([[kp sp] tr] & H2 & Hst).
      pose proof H2 as H2'. apply header_text_sound in H2' as (t0 & p & w1 & c0 & le0 & _ & _ & _ & Sp0 & _ & Ekeys & _).
      destruct (header_text_render arr i kp sp tr j1 Hi H2)
        as (jh & Y & wt & c & jt & le & -> & Sh & Hat & HK & Hne & Htok & Hwt & Hc & Swc & -> & Hjh & Sle & Hl & Hj1).
      destruct (isrc_splits s j1 w i1 Hj1 Sw) as [Hi1 _].
      exists [], ((hdr_open arr ++ Y ++ hdr_close arr) ++ wt ++ c), [if arr then SArrHeader (map k_key kp) else SHeader (map k_key kp)],
             ((hdr_open arr ++ Y ++ hdr_close arr) ++ wt ++ c), le, w.
      split; [reflexivity|]. split; [apply header_item_text; assumption|]. split; [exact Hw|].
      split; [pose proof (splits_trans _ _ _ _ _ Sh (splits_trans _ _ _ _ _ Swc (splits_trans _ _ _ _ _ Sle Sw))) as S; cbn [app]; rewrite <- ?app_assoc; rewrite <- ?app_assoc in S; exact S|].
      split; [apply Hend, Hl|]. split; [exact Hi1|].
      intros out i0 pend HI _.
      destruct (on_header arr st kp (pos jh, pos jt) (pos i, pos jh)) as [st'| |] eqn:Eo; try discriminate. cbn [lift_state] in Hst. injection Hst as <-.
      eexists _, j1, w. split; [apply (sinv_header arr st i out i0 pend kp jh jt Y wt c st' j1 w i1); assumption|].
      rewrite (ncr_ws w Hw).
      assert (El : le_out [if arr then SArrHeader (map k_key kp) else SHeader (map k_key kp)] le = [x0a])
        by (destruct arr; destruct Hl as [[-> | ->] | [-> _]]; reflexivity).
      rewrite El. cbn [app]. rewrite <- !app_assoc. reflexivity. }
    destruct (byte_eqb b LF || byte_eqb b CR).
    { (* a blank line *)
      unfold parse_newline in H2. apply pmap_inv in H2 as (sp & H2 & ->). pose proof H2 as H2'. apply span_inv in H2' as (u0 & _ & ->).
      apply span_inv in H2 as (u & H2 & _). apply newline_sound in H2 as (nl & Hn & S1).
      destruct (isrc_splits s i nl j1 Hi S1) as [Hj1 _]. destruct (isrc_splits s j1 w i1 Hj1 Sw) as [Hi1 _].
      exists [], [], [], [], nl, w. split; [reflexivity|]. split; [apply itx_blank|]. split; [exact Hw|].
      split; [exact (splits_trans _ _ _ _ _ S1 Sw)|]. split; [left; exact Hn|]. split; [exact Hi1|].
      intros out i0 pend HI _. exists out, i0, (pend ++ nl ++ w). split; [apply sinv_trivia; assumption|].
      rewrite !ncr_app, (ncr_newline nl Hn), (ncr_ws w Hw), (newline_le_out [] nl Hn). cbn [app]. rewrite <- ?app_assoc. reflexivity. }
    (* key = value *)
    apply cut_err_inv in H2. unfold keyval in H2. apply try_map_inv in H2 as (x & H2 & Hst).
    destruct (parse_keyval_render s i x j1 Hi H2)
      as (j0 & w0 & kt & p & w1 & w2 & t & a & o & wt & c & le & Hw0 & Hkt & Hw1 & Hw2 & Ht & Hwt & Hc & S0 & Sp & Hl & Hj1 & Hflat).
    destruct (isrc_splits s j1 w i1 Hj1 Sw) as [Hi1 _].
    exists w0, ((kt ++ w1 ++ [x3d] ++ w2 ++ t) ++ wt ++ c), [SKeyVal p a], ((kt ++ w1 ++ [x3d] ++ w2 ++ o) ++ wt ++ c), le, w.
    split; [exact Hw0|]. split; [apply itx_keyval; assumption|]. split; [exact Hw|].
    split; [pose proof (splits_trans _ _ _ _ _ Sp Sw) as S; rewrite <- !app_assoc in *; exact S|].
    split; [apply Hend, Hl|]. split; [exact Hi1|].
    intros out i0 pend HI Hf. cbn [secl forallb sec_stmt] in Hf. rewrite andb_true_r in Hf.
    apply Nat.eqb_eq in Hf. destruct (Hflat Hf) as (k & v & -> & Epre & Hline).
    destruct (on_keyval_sp st [] k (IValue v)) as [st'| |] eqn:Eo; try discriminate. cbn [lift_state] in Hst. injection Hst as <-.
    eexists _, j1, w. split.
    - apply (sinv_keyval st i out i0 pend k v st' j0 w0 ((kt ++ w1 ++ [x3d] ++ w2 ++ o) ++ wt ++ c) j1 w i1 HI Eo S0 Hw0 Epre); [|exact Hj1|exact Sw].
      intros Hv P z. rewrite (Hline Hv P z). reflexivity.
    - rewrite (ncr_ws w Hw).
      assert (El : le_out [SKeyVal p a] le = [x0a]) by (destruct Hl as [[-> | ->] | [-> _]]; reflexivity).
      rewrite El. rewrite <- !app_assoc. reflexivity.
  Qed.

  (* ---- the loop ------------------------------------------------------------------------------------------------- *)
  Lemma step2_nil st i : step2 st i st i [] [].
  Proof. intros out i0 pend HI _. exists out, i0, pend. split; [exact HI|]. rewrite !app_nil_r. reflexivity. Qed.

  Lemma step2_trans st i st1 i1 st2 i2 l1 o1 l2 o2 :
    step2 st i st1 i1 l1 o1 -> step2 st1 i1 st2 i2 l2 o2 -> step2 st i st2 i2 (l1 ++ l2) (o1 ++ o2).
  Proof.
    intros H1 H2 out i0 pend HI Hf. unfold secl in Hf. rewrite forallb_app in Hf. apply andb_true_iff in Hf as [Hf1 Hf2].
    destruct (H1 out i0 pend HI Hf1) as (out1 & i01 & pend1 & HI1 & E1).
    destruct (H2 out1 i01 pend1 HI1 Hf2) as (out2 & i02 & pend2 & HI2 & E2).
    exists out2, i02, pend2. split; [exact HI2|]. rewrite E2, (app_assoc out1), E1, <- !app_assoc. reflexivity.
  Qed.

  Lemma doc_loop_render2 : forall fuel st i st' i', isrc s i -> doc_loop fuel st i = Ok st' i' ->
    exists t l o, splits i t i' /\ lines_text t l o /\ isrc s i' /\ step2 st i st' i' l o.
  Proof.
    induction fuel as [|f IH]; intros st i st' i' Hi H; [discriminate|]. cbn [doc_loop] in H.
    destruct (doc_line st i) as [st1 i1|e j|e j|x] eqn:E; try discriminate.
    - destruct (Nat.eqb (length (rest i1)) (length (rest i))); [discriminate|].
      destruct (doc_line_render2 st i st1 i1 Hi E) as (w0 & e & l & o & le & w & Hw0 & He & Hw & Sp & Hle & Hi1 & Hok).
      destruct Hle as [Hn | (-> & -> & R1)].
      + destruct (IH st1 i1 st' i' Hi1 H) as (t & l' & o' & St & Hlt & Hi' & Hok').
        exists ((w0 ++ e ++ le ++ w) ++ t), (l ++ l'), ((w0 ++ o ++ le_out l le ++ w) ++ o').
        split; [exact (splits_trans _ _ _ _ _ Sp St)|]. split; [|split; [exact Hi'|exact (step2_trans _ _ _ _ _ _ _ _ _ _ Hok Hok')]].
        rewrite (newline_le_out l le Hn).
        replace ((w0 ++ e ++ le ++ w) ++ t) with (w0 ++ e ++ le ++ w ++ t) by (rewrite <- !app_assoc; reflexivity).
        replace ((w0 ++ o ++ [x0a] ++ w) ++ o') with (w0 ++ o ++ [x0a] ++ w ++ o') by (rewrite <- !app_assoc; reflexivity).
        apply ltx_cons; assumption.
      + destruct (doc_loop_at_end f st1 i1 st' i' R1 H) as [-> ->].
        exists (w0 ++ e), l, (w0 ++ o ++ stmt_lf l). rewrite !app_nil_r in Sp. split; [exact Sp|]. split; [apply ltx_last; assumption|].
        split; [exact Hi1|]. cbn [le_out] in Hok. rewrite app_nil_r in Hok. exact Hok.
    - injection H as <- <-. exists [], [], []. split; [apply splits_nil|]. split; [apply ltx_nil|]. split; [exact Hi|apply step2_nil].
  Qed.
End SecDoc.
