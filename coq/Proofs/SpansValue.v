(* Proofs/SpansValue.v — C14: the value / array / inline-table knot records spans inside the text it
   consumed (range part), and the span stored for a value is exactly the window of the value. *)
From TV Require Import Base.Prelude Base.Utf8 Base.Winnow Gen.Consts Spec.Abnf.
From TV Require Import Model.Trivia Model.Strings Model.Datetime Model.Numbers Model.Tree Model.Parse Model.Document.
From TV Require Import Proofs.ConstsOk Proofs.NoPanicBase Proofs.NoPanicLex Proofs.NoPanicValue Proofs.NoPanicState.
From TV Require Import Proofs.SpansDefs Proofs.SpansBase Proofs.SpansLex.
Require Import Lia ZifyBool ZifyN ZifyNat.

Lemma sp_in_pair lo hi a b : (lo <= a)%N -> (a <= b)%N -> (b <= hi)%N -> sp_in lo hi (a, b) = true.
Proof. unfold sp_in; cbn [fst snd]. nlia. Qed.

(* ---- check_recursion ------------------------------------------------------------------------------------ *)
Lemma winP_check_recursion {A} (Q : N -> N -> A -> Prop) (p : parser A) : winP Q p -> winP Q (check_recursion p).
Proof.
  intros Hp lo hi i a i' E L U. apply check_recursion_inv in E as (i2 & d & E & D & ->).
  eapply Hp; [exact E|exact L|exact U].
Qed.

(* ---- inline tables: table_from_pairs keeps spans in the window -------------------------------------------- *)
(* a (path, key, value) triple as `keyval` returns it: the keys lie left of the value *)
Definition pair_in (lo hi : N) (x : list key * (key * item)) : Prop :=
  exists mid, keys_in lo mid (fst x) = true /\ key_in lo mid (fst (snd x)) = true
              /\ item_in mid hi (snd (snd x)) = true /\ (lo <= mid)%N /\ (mid <= hi)%N.

Lemma pair_in_wide lo hi x : pair_in lo hi x ->
  keys_in lo hi (fst x) = true /\ key_in lo hi (fst (snd x)) = true /\ item_in lo hi (snd (snd x)) = true.
Proof.
  intros (mid & H1 & H2 & H3 & L & U). repeat split.
  - unfold keys_in in *. apply forallb_Forall. apply forallb_Forall in H1. eapply Forall_impl; [|exact H1].
    intros k. apply key_in_mono; nlia.
  - eapply key_in_mono; [| |exact H2]; nlia.
  - eapply item_in_mono; [| |exact H3]; nlia.
Qed.

Lemma inline_insert_in lo hi : forall path m dh pe k v m',
  items_in lo hi m = true -> keys_in lo hi path = true -> key_in lo hi k = true -> item_in lo hi v = true ->
  inline_insert m dh path pe k v = COk m' -> items_in lo hi m' = true.
Proof.
  induction path as [|pk ptl IH]; intros m dh pe k v m' Hm Hp Hk Hv E; cbn [inline_insert] in E.
  - destruct (Bool.eqb dh pe); [discriminate|]. destruct (kv_get m (k_key k)); [discriminate|].
    inversion E; subst. apply items_in_push; assumption.
  - cbn [keys_in forallb] in Hp. apply andb_true_iff in Hp as [Hpk Hptl].
    destruct (kv_get m (k_key pk)) as [[k' it]|] eqn:G.
    + destruct (items_in_get _ _ _ _ _ _ Hm G) as [_ Hit]. destruct it as [|val| |]; try discriminate E.
      destruct val as [s r d|vals tr c d sp|sub pre imp dt dec sp]; try discriminate E.
      destruct (negb imp); [discriminate|].
      destruct (inline_insert sub dt ptl pe k v) as [sub'| |] eqn:R; try discriminate E. inversion E; subst.
      rewrite item_in_inline in Hit. apply andb4 in Hit as (H1 & H2 & H3 & H4).
      apply items_in_set; [exact Hm|]. rewrite item_in_inline. apply andb4. repeat split; auto.
      eapply IH; [exact H1|exact Hptl|exact Hk|exact Hv|exact R].
    + destruct (inline_insert [] true ptl pe k v) as [sub'| |] eqn:R; try discriminate E. inversion E; subst.
      apply items_in_push; [exact Hm|exact Hpk|]. rewrite item_in_inline. apply andb4.
      repeat split; auto. eapply IH; [|exact Hptl|exact Hk|exact Hv|exact R]; reflexivity.
Qed.

Lemma table_from_pairs_loop_d_in lo hi : forall pairs m m',
  items_in lo hi m = true -> Forall (pair_in lo hi) pairs ->
  table_from_pairs_loop_d m pairs = COk m' -> items_in lo hi m' = true.
Proof.
  induction pairs as [|[path [k v]] tl IH]; intros m m' Hm Hp E; cbn [table_from_pairs_loop_d] in E.
  - inversion E; subst. exact Hm.
  - inversion Hp as [|? ? Hx Htl]; subst. apply pair_in_wide in Hx as (H1 & H2 & H3). cbn [fst snd] in *.
    destruct (check_depth _); [discriminate|].
    destruct (inline_insert m false path _ k v) as [m1| |] eqn:R; try discriminate E.
    eapply IH; [|exact Htl|exact E]. eapply inline_insert_in; eauto.
Qed.

Lemma key_span_in lo hi k ks : key_in lo hi k = true -> key_span k = Some ks -> sp_in lo hi ks = true.
Proof.
  unfold key_in, key_span. intros H E. apply andb3 in H as (H & _ & _). destruct (k_repr k) as [r|]; [|discriminate].
  cbn [oraw_in] in H. unfold raw_in in H. rewrite E in H. exact H.
Qed.

Lemma widen_in lo hi sp ks e :
  osp_in lo hi sp = true -> sp_in lo hi ks = true -> (snd ks <= e)%N -> (e <= hi)%N ->
  osp_in lo hi (widen sp ks e) = true.
Proof.
  unfold widen. intros H1 H2 H3 H4. destruct sp as [s|]; cbn [osp_in] in *; unfold sp_in in *; cbn [fst snd]; nlia.
Qed.

(* the span bookkeeping of dotted inline tables: a key of the path and the end of the value *)
Lemma inline_set_spans_in lo mid hi : forall path m ve,
  items_in lo hi m = true -> keys_in lo mid path = true -> (mid <= hi)%N ->
  (forall e, ve = Some e -> (mid <= e)%N /\ (e <= hi)%N) ->
  items_in lo hi (inline_set_spans m path ve) = true.
Proof.
  induction path as [|k ptl IH]; intros m ve Hm Hp Hmid Hve; cbn [inline_set_spans]; [exact Hm|].
  cbn [keys_in forallb] in Hp. apply andb_true_iff in Hp as [Hk Hptl].
  destruct (kv_get m (k_key k)) as [[k' it]|] eqn:G; [|exact Hm].
  destruct (items_in_get _ _ _ _ _ _ Hm G) as [_ Hit]. destruct it as [|val| |]; try exact Hm.
  destruct val as [s r d|vals tr c d sp|sub pre imp dt dec sp]; try exact Hm.
  rewrite item_in_inline in Hit. apply andb4 in Hit as (H1 & H2 & H3 & H4).
  apply items_in_set; [exact Hm|]. rewrite item_in_inline. apply andb4. repeat split; auto.
  destruct dt; [|exact H4]. destruct (key_span k) as [ks|] eqn:K; [|exact H4]. destruct ve as [e|]; [|exact H4].
  destruct (Hve e eq_refl) as [Ha Hb]. pose proof (key_span_in _ _ _ _ Hk K) as Hks.
  apply widen_in; [exact H4| | |exact Hb]; unfold sp_in in *; nlia.
Qed.

Lemma item_end_in lo hi v e : item_in lo hi v = true -> item_end v = Some e -> (lo <= e)%N /\ (e <= hi)%N.
Proof.
  unfold item_end. destruct (item_span v) as [sp|] eqn:S; [|discriminate]. intros H E. inversion E; subst e.
  assert (X : sp_in lo hi sp = true).
  { destruct v as [|val|t|ts asp]; cbn [item_span] in S; [discriminate| | |].
    - rewrite item_in_value in H. destruct val as [s r d|vals tr c d sp0|items pre im dt d sp0]; cbn [value_span] in S.
      + destruct r as [r|]; [|discriminate]. rewrite value_in_scalar in H. apply andb_true_iff in H as [H _].
        cbn [oraw_in] in H. unfold raw_in in H. rewrite S in H. exact H.
      + rewrite value_in_array in H. apply andb4 in H as (_ & _ & _ & H). subst sp0. exact H.
      + rewrite inline_in_items in H. apply andb4 in H as (_ & _ & _ & H). subst sp0. exact H.
    - rewrite item_in_table, tbl_in_items in H. apply andb3 in H as (_ & _ & H). rewrite S in H. exact H.
    - rewrite item_in_aot in H. apply andb_true_iff in H as [_ H]. subst asp. exact H. }
  unfold sp_in in X. nlia.
Qed.

Lemma inline_spans_pass_in lo hi : forall pairs m,
  items_in lo hi m = true -> Forall (pair_in lo hi) pairs -> items_in lo hi (inline_spans_pass m pairs) = true.
Proof.
  unfold inline_spans_pass. induction pairs as [|[path [k v]] tl IH]; intros m Hm Hp; cbn [fold_left]; [exact Hm|].
  inversion Hp as [|? ? Hx Htl]; subst. apply IH; [|exact Htl].
  destruct Hx as (mid & H1 & H2 & H3 & L & U). cbn [fst snd] in *.
  eapply inline_set_spans_in; [exact Hm|exact H1|exact U|]. intros e E. eapply item_end_in in E; [|exact H3]. exact E.
Qed.

Lemma table_from_pairs_in lo hi pairs pre v :
  Forall (pair_in lo hi) pairs -> raw_in lo hi pre = true -> table_from_pairs pairs pre = TmOk v ->
  exists items, v = VInline items pre false false decor_default None /\ items_in lo hi items = true.
Proof.
  intros Hp Hpre E. unfold table_from_pairs in E.
  destruct (table_from_pairs_loop_d [] pairs) as [m| |] eqn:R; try discriminate E. inversion E; subst.
  eexists. split; [reflexivity|]. apply inline_spans_pass_in; [|exact Hp].
  eapply table_from_pairs_loop_d_in; [|exact Hp|exact R]. reflexivity.
Qed.

(* ---- one level of the knot ---------------------------------------------------------------------------------- *)
(* what value_body returns, before apply_raw: no span of its own yet, contents inside the window *)
Definition body_in (lo hi : N) (v : value) : Prop :=
  match v with
  | VScalar _ None d => d = decor_default
  | VArray vals tr _ d None => forallb (item_in lo hi) vals = true /\ raw_in lo hi tr = true
  | VInline items pre _ _ d None => items_in lo hi items = true /\ raw_in lo hi pre = true
  | _ => False
  end.

Section Knot.
  Variable value_rec : parser value.
  Hypothesis Hm : mono value_rec.
  Hypothesis Hw : winP (fun lo hi v => value_in lo hi v = true) value_rec.

  Lemma array_value_win : winP (fun lo hi it => item_in lo hi it = true) (array_value value_rec).
  Proof.
    intros lo hi i it i' E L U. unfold array_value in E. binds E. apply ret_ok in E as [-> ->].
    apply span_ok in E0 as (-> & x0 & E0). apply span_ok in E2 as (-> & x2 & E2).
    pos_le E0. pos_le E2. pose proof (mono_le _ _ _ _ Hm E1).
    cbn [item_in]. apply value_in_decorate; [eapply Hw; [exact E1|nlia|nlia]| |];
      apply raw_with_span_in, sp_in_pair; nlia.
  Qed.

  Lemma array_values_win : winP body_in (array_values value_rec).
  Proof.
    pose proof (array_value_mono _ Hm) as Mav.
    intros lo hi i v i' E L U. unfold array_values in E. binds E. destruct a as [c|].
    - apply ret_ok in E as [-> ->]. cbn. auto.
    - binds E. apply ret_ok in E as [-> ->]. apply peek_ok in E0 as (-> & _).
      apply span_ok in E3 as (-> & x3 & E3). pos_le E3.
      assert (M1 : (pos j0 <= pos j1)%N).
      { eapply mono_le; [|exact E2]. destruct a; np. }
      assert (M0 : (pos i <= pos j0)%N) by (eapply mono_le; [|exact E1]; np).
      cbn [body_in]. split; [|apply raw_with_span_in, sp_in_pair; nlia].
      apply forallb_Forall.
      eapply (winP_separated0 (fun lo hi it => item_in lo hi it = true) (array_value value_rec) (byte_ ARRAY_SEP)); [exact Mav|np|apply array_value_win|exact E1|nlia|nlia].
  Qed.

  Lemma array_win : winP body_in (array value_rec).
  Proof.
    pose proof (array_values_mono _ Hm) as Mav.
    intros lo hi i v i' E L U. unfold array in E. binds E. apply ret_ok in E as [-> ->].
    apply cut_err_ok in E1. pos_le E0. pos_le E2. eapply array_values_win; [exact E1|nlia|nlia].
  Qed.

  Lemma inline_kv_rhs_win :
    winP (fun lo hi x => sp_in lo hi (fst (fst x)) = true /\ value_in lo hi (snd (fst x)) = true
                         /\ sp_in lo hi (snd x) = true) (inline_kv_rhs value_rec).
  Proof.
    intros lo hi i x i' E L U. unfold inline_kv_rhs in E. apply cut_err_ok in E. binds E. apply ret_ok in E as [-> ->].
    apply span_ok in E1 as (-> & x1 & E1). apply span_ok in E3 as (-> & x3 & E3). cbn [fst snd].
    pos_le E0. pos_le E1. pos_le E3. pose proof (mono_le _ _ _ _ Hm E2).
    repeat split; [apply sp_in_pair; nlia|eapply Hw; [exact E2|nlia|nlia]|apply sp_in_pair; nlia].
  Qed.

  Lemma inline_keyval_win : winP pair_in (inline_keyval value_rec).
  Proof.
    pose proof (inline_kv_rhs_mono _ Hm) as Mr.
    intros lo hi i x i' E L U. rewrite inline_keyval_eq in E. binds E. destruct a0 as [[pre v] suf].
    destruct (pop_key a) as [[path k]|] eqn:P; [|discriminate]. apply ret_ok in E as [-> ->].
    pose proof (mono_le _ _ _ _ key_mono E0). pose proof (mono_le _ _ _ _ Mr E1).
    pose proof (key_win lo (pos j) _ _ _ E0 L (N.le_refl _)) as Hk. cbn beta in Hk.
    destruct (pop_key_in _ _ _ _ _ Hk P) as [Hpath Hkk].
    pose proof (inline_kv_rhs_win (pos j) hi _ _ _ E1 (N.le_refl _) U) as (H1 & H2 & H3). cbn [fst snd] in *.
    exists (pos j). cbn [fst snd]. repeat split; [exact Hpath|exact Hkk| |nlia|nlia].
    cbn [item_in]. apply value_in_decorate; [exact H2|apply raw_with_span_in, H1|apply raw_with_span_in, H3].
  Qed.

  Lemma inline_kvs_win :
    winP (fun lo hi x => Forall (pair_in lo hi) (fst x) /\ raw_in lo hi (snd x) = true) (inline_kvs value_rec).
  Proof.
    pose proof (inline_keyval_mono _ Hm) as Mk.
    intros lo hi i x i' E L U. unfold inline_kvs in E. binds E. apply ret_ok in E as [-> ->]. cbn [fst snd].
    apply span_ok in E1 as (-> & x1 & E1). pos_le E1.
    assert (M0 : (pos i <= pos j)%N) by (eapply mono_le; [|exact E0]; np).
    split; [|apply raw_with_span_in, sp_in_pair; nlia].
    eapply (winP_separated0 pair_in (inline_keyval value_rec) (byte_ INLINE_TABLE_SEP)); [exact Mk|np|apply inline_keyval_win|exact E0|nlia|nlia].
  Qed.

  Lemma inline_body_win : winP body_in (inline_body value_rec).
  Proof.
    unfold inline_body. eapply winP_try_map; [apply inline_kvs_win|].
    intros lo hi [kv p] v [H1 H2] E. cbn [fst snd] in *.
    destruct (table_from_pairs_in _ _ _ _ _ H1 H2 E) as (items & -> & Hi). cbn [body_in]. auto.
  Qed.

  Lemma inline_table_win : winP body_in (inline_table value_rec).
  Proof.
    pose proof (inline_body_mono _ Hm) as Mb.
    intros lo hi i v i' E L U. rewrite inline_table_eq in E. binds E. apply ret_ok in E as [-> ->].
    apply cut_err_ok in E1. pos_le E0. pos_le E2. eapply inline_body_win; [exact E1|nlia|nlia].
  Qed.

  Lemma winP_scalar {A} (p : parser A) (f : A -> scalar) : winP body_in (pmap (fun x => scalar_value (f x)) p).
  Proof. eapply winP_pmap; [apply winP_true|]. intros lo hi a _. reflexivity. Qed.

  Lemma value_body_win : winP body_in (value_body value_rec).
  Proof.
    unfold value_body. apply winP_bind_r; [np|]. intro b.
    repeat match goal with |- winP _ (if ?c then _ else _) => destruct c end;
      repeat apply winP_context; repeat apply winP_alt;
      try (apply winP_scalar); try apply winP_fail.
    - apply winP_check_recursion, array_win.
    - apply winP_check_recursion, inline_table_win.
  Qed.

  (* value.rs: value = value_body.with_span().map(apply_raw): the span stored is the window consumed *)
  Lemma value_step_exact i v i' :
    value_step value_rec i = Ok v i' ->
    exists v0, value_body value_rec i = Ok v0 i' /\ v = apply_raw v0 (pos i, pos i').
  Proof.
    unfold value_step. intro E. apply pmap_ok in E as ([v0 sp] & E & ->). apply with_span_ok in E as (S & E).
    cbn [fst snd] in *. subst sp. eauto.
  Qed.

  Lemma apply_raw_in lo hi a b v :
    body_in a b v -> (lo <= a)%N -> (a <= b)%N -> (b <= hi)%N -> value_in lo hi (apply_raw v (a, b)) = true.
  Proof.
    intros H L M U. unfold apply_raw.
    destruct v as [s [r|] d|vals tr c d [sp|]|items pre im dt d [sp|]]; cbn [body_in] in H; try contradiction;
      cbn [value_decorate value_in].
    - rewrite decor_in_new by reflexivity. rewrite andb_true_r. cbn [oraw_in]. apply raw_with_span_in, sp_in_pair; nlia.
    - destruct H as [H1 H2]. apply andb4. split; [|split; [|split; [reflexivity|cbn [osp_in]; apply sp_in_pair; nlia]]].
      + apply forallb_Forall. apply forallb_Forall in H1. eapply Forall_impl; [|exact H1]. intro it. apply item_in_mono; nlia.
      + eapply raw_in_mono; [| |exact H2]; nlia.
    - destruct H as [H1 H2]. apply andb4. split; [|split; [|split; [reflexivity|cbn [osp_in]; apply sp_in_pair; nlia]]].
      + eapply items_in_mono; [| |exact H1]; nlia.
      + eapply raw_in_mono; [| |exact H2]; nlia.
  Qed.

  Lemma value_step_win : winP (fun lo hi v => value_in lo hi v = true) (value_step value_rec).
  Proof.
    intros lo hi i v i' E L U. apply value_step_exact in E as (v0 & E & ->).
    pose proof (mono_le _ _ _ _ (value_body_mono _ Hm) E).
    apply apply_raw_in; [|nlia|nlia|nlia]. eapply value_body_win; [exact E|nlia|nlia].
  Qed.
End Knot.

(* ---- tying the knot ----------------------------------------------------------------------------------------- *)
Lemma value_f_win n : winP (fun lo hi v => value_in lo hi v = true) (value_f n).
Proof.
  induction n as [|n IH].
  - cbn [value_f]. apply winP_const_panic.
  - change (value_f (S n)) with (value_step (value_f n)). apply value_step_win; [apply value_f_all|exact IH].
Qed.
Lemma value_win : winP (fun lo hi v => value_in lo hi v = true) value_.
Proof. intros lo hi i v i' E. eapply value_f_win, E. Qed.
