(* Proofs/NumbersRT_Float.v — C11, floats: the overflow guard (both signs), exactness of the
   `overflows` shortcut, and the writer's text being read back as the same decimal. *)
From TV Require Import Base.Prelude Base.Utf8 Base.Winnow Gen.Consts.
From TV Require Import Model.Trivia Model.Strings Model.Datetime Model.Numbers Model.Tree Model.Parse Model.Document.
From TV Require Import Model.Write Model.WriteFloat.
From TV Require Import Proofs.Eoi Proofs.NumbersRT_Lex Proofs.NumbersRT_Int Proofs.NumbersRT_Value.
Require Import Lia ZifyBool ZifyN ZifyNat.

(* ---- the guard of `float`: a decimal literal whose magnitude rounds to an infinity is refused,
        with either sign.  This is where the generated flags FLOAT_REJECT_POS_INF / _NEG_INF are
        used: both must be `true` for the two `exact I` below to typecheck. ------------------------ *)
Lemma float_of_overflow t neg m e :
  fdec_of_text (remove_us t) = FDec neg m e -> overflows m e = true ->
  exists err, float_of t = SubCut err.
Proof.
  intros Hd Ho. unfold float_of. rewrite Hd, Ho. cbn [andb].
  destruct neg.
  - change FLOAT_REJECT_NEG_INF with true. cbv iota. eauto.
  - change FLOAT_REJECT_POS_INF with true. cbv iota. eauto.
Qed.

Theorem float_overflow i t i' neg m e :
  float_ i = Ok t i' -> fdec_of_text (remove_us t) = FDec neg m e -> overflows m e = true ->
  is_cut (float i).
Proof.
  intros Hl Hd Ho. destruct (float_of_overflow t neg m e Hd Ho) as [err Hf].
  unfold float, context, alt, and_then. rewrite Hl, Hf. exact I.
Qed.

Lemma fdec_of_text_dec s : exists n m e, fdec_of_text s = FDec n m e.
Proof.
  unfold fdec_of_text.
  repeat match goal with
         | |- context [let '(_, _) := ?x in _] => destruct x
         end.
  eauto.
Qed.

Theorem float_decimal_never_inf i v i' :
  and_then float_ float_of i = Ok v i' ->
  exists n m e, v = FDec n m e /\ overflows m e = false.
Proof.
  unfold and_then. destruct (float_ i) as [t j|err j|err j|st]; try discriminate.
  unfold float_of. destruct (fdec_of_text_dec (remove_us t)) as (n & m & e & ->).
  destruct (overflows m e) eqn:Ho.
  - destruct n.
    + change FLOAT_REJECT_NEG_INF with true. cbn [andb]. discriminate.
    + change FLOAT_REJECT_POS_INF with true. cbn [andb]. discriminate.
  - cbn [andb]. intro H. injection H as <- _. eauto.
Qed.

(* `float` as a whole yields an infinity only for the spelled-out `inf` *)
Theorem float_inf_only_spelled i n i' :
  float i = Ok (FInf n) i' -> exists j, special_float i = Ok (FInf n) j.
Proof.
  unfold float, context, alt.
  destruct (and_then float_ float_of i) as [v j|err j|err j|st] eqn:E; try discriminate.
  - intro H. injection H as -> _. apply float_decimal_never_inf in E.
    destruct E as (n' & m & e & E & _). discriminate.
  - destruct (special_float i) as [v' j'|err' j'|err' j'|st']; try discriminate.
    intro H. injection H as -> _. eauto.
Qed.

(* through Value::from_str: the literal is an error (the date-time alternative backtracks first) *)
Theorem value_float_overflow s b tl t i' neg m e :
  s = b :: tl -> num_start b = true -> no_dt0 s ->
  float_ (new_input s) = Ok t i' -> fdec_of_text (remove_us t) = FDec neg m e -> overflows m e = true ->
  exists err at_, parse_value_raw s = PErr err at_.
Proof.
  intros Hs Hn Hdt Hl Hd Ho.
  pose proof (float_overflow _ _ _ _ _ _ Hl Hd Ho) as Hc.
  pose proof (date_time_bt0 (new_input s) Hdt) as Hb.
  unfold parse_value_raw. rewrite parse_all_eoi_unfold. unfold value_. cbn [value_f].
  unfold value_step, pmap, with_span.
  rewrite (value_body_number _ (new_input s) b tl); [|rewrite Hs; reflexivity | exact Hn].
  unfold number_arm, alt, pmap.
  destruct (date_time (new_input s)); simpl in Hb; try contradiction.
  destruct (float (new_input s)); simpl in Hc; try contradiction.
  cbn [lift_outcome]. eauto.
Qed.

(* ---- the shortcut in `overflows` is exact ---------------------------------------------------------- *)
Definition thrZ : Z := (2 ^ 1024 - 2 ^ 970)%Z.
(* m * 10^e >= 2^1024 - 2^970 as a statement about rationals, cross-multiplied for negative e *)
Definition exceeds (m : N) (e : Z) : Prop :=
  if (0 <=? e)%Z then (thrZ <= Z.of_N m * 10 ^ e)%Z else (thrZ * 10 ^ (- e) <= Z.of_N m)%Z.

Lemma thrZ_N : thrZ = Z.of_N f64_overflow_threshold.
Proof. vm_compute. reflexivity. Qed.
Lemma thr_lo : (10 ^ 308 < thrZ)%Z.
Proof. apply Z.ltb_lt. vm_compute. reflexivity. Qed.
Lemma thr_hi : (thrZ <= 10 ^ 310)%Z.
Proof. apply Z.leb_le. vm_compute. reflexivity. Qed.

Lemma ndigits_f_zero f : ndigits_f f 0 = 0.
Proof. destruct f; reflexivity. Qed.

Lemma ndigits_f_bound : forall fuel m, (m < 2 ^ N.of_nat fuel)%N -> (0 < m)%N ->
  (1 <= Z.of_nat (ndigits_f fuel m) /\
   10 ^ (Z.of_nat (ndigits_f fuel m) - 1) <= Z.of_N m < 10 ^ Z.of_nat (ndigits_f fuel m))%Z.
Proof.
  induction fuel as [|fuel IH]; intros m Hf Hm.
  - change (N.of_nat 0) with 0%N in Hf. lia.
  - cbn [ndigits_f]. replace (m =? 0)%N with false by lia.
    destruct (N.eq_dec (m / 10) 0) as [Hq|Hq].
    + rewrite Hq, ndigits_f_zero. assert (m < 10)%N.
      { pose proof (N.div_mod m 10 ltac:(lia)). pose proof (N.mod_lt m 10 ltac:(lia)). lia. }
      change (Z.of_nat 1 - 1)%Z with 0%Z. change (10 ^ 0)%Z with 1%Z. change (10 ^ Z.of_nat 1)%Z with 10%Z. lia.
    + assert (Hq' : (m / 10 < 2 ^ N.of_nat fuel)%N).
      { rewrite Nat2N.inj_succ, N.pow_succ_r' in Hf. apply N.div_lt_upper_bound; lia. }
      destruct (IH (m / 10)%N Hq' ltac:(lia)) as (K1 & K2 & K3).
      set (k := ndigits_f fuel (m / 10)) in *.
      rewrite Nat2Z.inj_succ. unfold Z.succ.
      replace (Z.of_nat k + 1 - 1)%Z with (Z.of_nat k - 1 + 1)%Z by lia.
      rewrite (Z.pow_add_r 10 (Z.of_nat k - 1) 1) by lia.
      rewrite (Z.pow_add_r 10 (Z.of_nat k) 1) by lia.
      change (10 ^ 1)%Z with 10%Z.
      rewrite N2Z.inj_div in K2, K3. change (Z.of_N 10) with 10%Z in *.
      pose proof (Z.div_mod (Z.of_N m) 10 ltac:(lia)) as D.
      pose proof (Z.mod_pos_bound (Z.of_N m) 10 ltac:(lia)) as B.
      split; [lia|]. split; lia.
Qed.

Lemma ndigits_bound m : (0 < m)%N ->
  (1 <= Z.of_nat (ndigits m) /\
   10 ^ (Z.of_nat (ndigits m) - 1) <= Z.of_N m < 10 ^ Z.of_nat (ndigits m))%Z.
Proof.
  intro Hm. unfold ndigits. apply ndigits_f_bound; [|exact Hm].
  pose proof (size_nat_gt m) as H. rewrite Nat2N.inj_succ, N.pow_succ_r'. lia.
Qed.

Lemma pow10_pos z : (0 < 10 ^ z)%Z \/ (z < 0)%Z.
Proof. destruct (Z.le_gt_cases 0 z) as [H|H]; [left; apply Z.pow_pos_nonneg; lia | right; lia]. Qed.

Theorem overflows_exact m e : overflows m e = true <-> exceeds m e.
Proof.
  unfold overflows, exceeds.
  destruct (m =? 0)%N eqn:Em.
  { assert (m = 0%N) by lia. subst m. split; [discriminate|].
    pose proof thr_lo as T. assert (P308 : (0 < 10 ^ 308)%Z) by (apply Z.pow_pos_nonneg; lia).
    destruct (0 <=? e)%Z eqn:Ee.
    - change (Z.of_N 0) with 0%Z. rewrite Z.mul_0_l. lia.
    - change (Z.of_N 0) with 0%Z. assert (0 < 10 ^ (- e))%Z by (apply Z.pow_pos_nonneg; lia). nia. }
  assert (Hm : (0 < m)%N) by lia.
  destruct (ndigits_bound m Hm) as (N1 & N2 & N3).
  set (nd := Z.of_nat (ndigits m)) in *. set (M := Z.of_N m) in *.
  pose proof thr_lo as TL. pose proof thr_hi as TH.
  destruct (nd + e <=? 308)%Z eqn:C1.
  { (* too small *)
    split; [discriminate|]. intro H. exfalso.
    destruct (0 <=? e)%Z eqn:Ee.
    - assert (P : (0 < 10 ^ e)%Z) by (apply Z.pow_pos_nonneg; lia).
      assert (E1 : (M * 10 ^ e < 10 ^ nd * 10 ^ e)%Z) by (apply Z.mul_lt_mono_pos_r; lia).
      rewrite <- Z.pow_add_r in E1 by lia.
      assert (E2 : (10 ^ (nd + e) <= 10 ^ 308)%Z) by (apply Z.pow_le_mono_r; lia).
      lia.
    - assert (P : (0 < 10 ^ (- e))%Z) by (apply Z.pow_pos_nonneg; lia).
      assert (E1 : (10 ^ 308 * 10 ^ (- e) < thrZ * 10 ^ (- e))%Z) by (apply Z.mul_lt_mono_pos_r; lia).
      rewrite <- Z.pow_add_r in E1 by lia.
      assert (E2 : (10 ^ nd <= 10 ^ (308 + - e))%Z) by (apply Z.pow_le_mono_r; lia).
      lia. }
  destruct (310 <? nd + e)%Z eqn:C2.
  { (* too large *)
    split; [|reflexivity]. intros _.
    destruct (0 <=? e)%Z eqn:Ee.
    - assert (P : (0 < 10 ^ e)%Z) by (apply Z.pow_pos_nonneg; lia).
      assert (E1 : (10 ^ (nd - 1) * 10 ^ e <= M * 10 ^ e)%Z) by (apply Z.mul_le_mono_nonneg_r; lia).
      rewrite <- Z.pow_add_r in E1 by lia.
      assert (E2 : (10 ^ 310 <= 10 ^ (nd - 1 + e))%Z) by (apply Z.pow_le_mono_r; lia).
      lia.
    - assert (P : (0 < 10 ^ (- e))%Z) by (apply Z.pow_pos_nonneg; lia).
      assert (E1 : (thrZ * 10 ^ (- e) <= 10 ^ 310 * 10 ^ (- e))%Z) by (apply Z.mul_le_mono_nonneg_r; lia).
      rewrite <- Z.pow_add_r in E1 by lia.
      assert (E2 : (10 ^ (310 + - e) <= 10 ^ (nd - 1))%Z) by (apply Z.pow_le_mono_r; lia).
      lia. }
  (* exact comparison *)
  destruct (0 <=? e)%Z eqn:Ee.
  - rewrite N.leb_le, thrZ_N. rewrite N2Z.inj_le, N2Z.inj_mul, N2Z.inj_pow.
    rewrite Z2N.id by lia. change (Z.of_N 10) with 10%Z. reflexivity.
  - rewrite N.leb_le, thrZ_N. rewrite N2Z.inj_le, N2Z.inj_mul, N2Z.inj_pow.
    rewrite Z2N.id by lia. change (Z.of_N 10) with 10%Z. reflexivity.
Qed.

(* ---- the float writer ------------------------------------------------------------------------------
   std's `{}` on a finite non-zero float is an ORACLE.  What is assumed about its text (and tested
   on every generated case by lib/props/c11.py: check_std_text) is collected in `std_finite_shape`:
     text = ["-"] ip ["." fp]      ip = "0" or digits without leading zero, fp digits, no exponent,
     "-" iff is_sign_negative(), a fractional part is printed iff `x % 1.0 == 0.0` is false. *)
Record std_finite_shape (c : fclass) (text ip fp : bytes) : Prop := mkShape {
  sh_text : text = (if fc_neg c then [dash] else []) ++ ip ++ match fp with [] => [] | _ => dot :: fp end;
  sh_ip : proper_digits ip \/ ip = [x30];
  sh_fp : forallb is_digit fp = true;
  sh_integral : fc_integral c = true <-> fp = []
}.

(* the fraction digits the TOML text carries: std's, or the appended "0" *)
Definition toml_frac (fp : bytes) : bytes := match fp with [] => [x30] | _ => fp end.

Lemma span_while_all_true f s : forallb f s = true -> span_while f s = (s, []).
Proof.
  induction s as [|b s IH]; [reflexivity|]. cbn [forallb span_while]. intro H.
  apply andb_true_iff in H as [Hb Hs]. rewrite Hb, (IH Hs). reflexivity.
Qed.
Lemma span_while_app_stop f a b r : forallb f a = true -> f b = false -> span_while f (a ++ b :: r) = (a, b :: r).
Proof.
  intros Ha Hb. induction a as [|x a IH]; cbn [app span_while].
  - rewrite Hb. reflexivity.
  - cbn [forallb] in Ha. apply andb_true_iff in Ha as [Hx Ha]. rewrite Hx, (IH Ha). reflexivity.
Qed.

Lemma digit_not_e b : is_digit b = true -> negb (byte_eqb b x65 || byte_eqb b x45) = true.
Proof.
  intro H. destruct (byte_eqb b x65) eqn:E1; [apply byte_eqb_eq in E1; subst; discriminate H|].
  destruct (byte_eqb b x45) eqn:E2; [apply byte_eqb_eq in E2; subst; discriminate H|]. reflexivity.
Qed.
Lemma digit_not_dot b : is_digit b = true -> negb (byte_eqb dot b) = true.
Proof. intro H. destruct (byte_eqb dot b) eqn:E; [apply byte_eqb_eq in E; subst; discriminate H | reflexivity]. Qed.

(* the exact decimal denoted by  ["-"] ip "." fp *)
Definition fdec_body (neg : bool) (body : bytes) : fval :=
  let '(mant, ex) := split_at_byte (fun b => byte_eqb b x65 || byte_eqb b x45) body in
  let '(ip, fp) := split_at_byte (byte_eqb dot) mant in
  let fp := match fp with Some f => f | None => [] end in
  let e10 := match ex with
             | None => 0%Z
             | Some t => match t with
                         | b :: u => if byte_eqb b plus then Z.of_N (dec_value u)
                                     else if byte_eqb b dash then (- Z.of_N (dec_value u))%Z
                                     else Z.of_N (dec_value t)
                         | [] => 0%Z
                         end
             end in
  FDec neg (dec_value (ip ++ fp)) (e10 - Z.of_nat (length fp))%Z.

Lemma fdec_of_text_dash body : fdec_of_text (dash :: body) = fdec_body true body.
Proof. reflexivity. Qed.
Lemma fdec_of_text_nosign d tl :
  byte_eqb d plus = false -> byte_eqb d dash = false -> fdec_of_text (d :: tl) = fdec_body false (d :: tl).
Proof. intros H1 H2. unfold fdec_of_text. rewrite H1, H2. reflexivity. Qed.

Lemma fdec_body_plain neg ip fp :
  forallb is_digit ip = true -> forallb is_digit fp = true ->
  fdec_body neg (ip ++ dot :: fp) = FDec neg (dec_value (ip ++ fp)) (0 - Z.of_nat (length fp))%Z.
Proof.
  intros Hip Hfp. unfold fdec_body.
  assert (He : split_at_byte (fun b => byte_eqb b x65 || byte_eqb b x45) (ip ++ dot :: fp) = (ip ++ dot :: fp, None)).
  { unfold split_at_byte. rewrite span_while_all_true; [reflexivity|].
    rewrite forallb_app. cbn [forallb].
    rewrite (forallb_impl is_digit _ ip digit_not_e Hip), (forallb_impl is_digit _ fp digit_not_e Hfp). reflexivity. }
  rewrite He.
  assert (Hd : split_at_byte (byte_eqb dot) (ip ++ dot :: fp) = (ip, Some fp)).
  { unfold split_at_byte. rewrite (span_while_app_stop _ ip dot fp); [reflexivity | | reflexivity].
    apply (forallb_impl is_digit _ ip digit_not_dot Hip). }
  rewrite Hd. reflexivity.
Qed.

Lemma fdec_of_plain (neg : bool) ip fp :
  forallb is_digit ip = true -> ip <> [] -> forallb is_digit fp = true ->
  fdec_of_text ((if neg then [dash] else []) ++ ip ++ dot :: fp)
  = FDec neg (dec_value (ip ++ fp)) (0 - Z.of_nat (length fp))%Z.
Proof.
  intros Hip Hne Hfp. destruct neg; cbn [app].
  - rewrite fdec_of_text_dash. apply fdec_body_plain; assumption.
  - destruct ip as [|d tl]; [contradiction|].
    assert (Hd : is_digit d = true) by (cbn [forallb] in Hip; apply andb_true_iff in Hip; tauto).
    destruct (digit_not_sign _ Hd) as [E1 E2].
    change ((d :: tl) ++ dot :: fp) with (d :: tl ++ dot :: fp).
    rewrite (fdec_of_text_nosign d _ E1 E2).
    change (d :: tl ++ dot :: fp) with ((d :: tl) ++ dot :: fp).
    apply fdec_body_plain; assumption.
Qed.

Lemma ip_digits ip : proper_digits ip \/ ip = [x30] -> forallb is_digit ip = true /\ ip <> [].
Proof. intros [[H (d & tl & -> & _)] | ->]; split; auto; discriminate. Qed.

Lemma dot_stop : in_class DIGIT dot = false /\ byte_eqb underscore dot = false.
Proof. split; reflexivity. Qed.

(* dec_int reads exactly  ["-"] ip  in front of ".fp" *)
Lemma dec_int_len_plain (neg : bool) ip rest_ :
  proper_digits ip \/ ip = [x30] ->
  dec_int_len (((if neg then [dash] else []) ++ ip) ++ dot :: rest_)
  = LOk (length ((if neg then [dash] else []) ++ ip)).
Proof.
  intro Hip.
  assert (EB : dec_body_len (ip ++ dot :: rest_) = LOk (length ip)).
  { destruct Hip as [[Hall (d & tl & -> & Hd)] | ->]; [|reflexivity].
    cbn [forallb] in Hall. apply andb_true_iff in Hall as [Hd0 Htl].
    assert (E19 : in_class DIGIT1_9 d = true).
    { unfold in_class, DIGIT1_9. cbn [existsb fst snd]. unfold is_digit in Hd0. lia. }
    cbn [app]. unfold dec_body_len. rewrite E19.
    assert (Hcls : forallb (in_class DIGIT) tl = true).
    { apply (forallb_impl is_digit); [|exact Htl]. intros x Hx. rewrite DIGIT_is_digit. exact Hx. }
    rewrite (us_tail_app _ (dot :: rest_) _ (wf_tail_all _ _ Hcls)).
    rewrite (us_tail_stop (in_class DIGIT) (dot :: rest_) dot_stop). cbn [length]. f_equal. lia. }
  destruct neg; cbn [app].
  - unfold dec_int_len. change (is_sign dash) with true. cbv iota. rewrite EB. reflexivity.
  - destruct (ip_digits _ Hip) as [Hall Hne]. destruct ip as [|d tl]; [contradiction|].
    cbn [app] in *. unfold dec_int_len.
    cbn [forallb] in Hall. apply andb_true_iff in Hall as [Hd _].
    unfold is_sign. destruct (digit_not_sign _ Hd) as [-> ->]. exact EB.
Qed.

(* the written text in the finite non-zero case *)
Lemma write_float_finite c text ip fp :
  fc_nan c = false -> fc_zero c = false -> std_finite_shape c text ip fp ->
  write_float c text = ((if fc_neg c then [dash] else []) ++ ip) ++ dot :: toml_frac fp.
Proof.
  intros Hn Hz [Ht _ _ Hi]. unfold write_float. rewrite Hn, Hz.
  assert (E : (if fc_neg c then if fc_integral c then text ++ t_dot_zero else text
               else if fc_integral c then text ++ t_dot_zero else text)
              = if fc_integral c then text ++ t_dot_zero else text) by (destruct (fc_neg c); reflexivity).
  destruct (fc_neg c) eqn:En; cbv iota; (destruct (fc_integral c) eqn:Ei;
    [ assert (fp = []) by (apply Hi; reflexivity); subst fp; rewrite Ht, app_nil_r; reflexivity
    | destruct fp as [|f0 ftl]; [assert (false = true) by (apply Hi; reflexivity); discriminate|];
      rewrite Ht, app_assoc; reflexivity ]).
Qed.

Theorem float_write_finite c text ip fp :
  fc_nan c = false -> fc_zero c = false -> std_finite_shape c text ip fp ->
  let m := dec_value (ip ++ toml_frac fp) in
  let e := (0 - Z.of_nat (length (toml_frac fp)))%Z in
  overflows m e = false ->
  float (new_input (write_float c text)) = Ok (FDec (fc_neg c) m e) (end_input (write_float c text)).
Proof.
  intros Hn Hz Hsh m e Ho.
  rewrite (write_float_finite c text ip fp Hn Hz Hsh).
  destruct Hsh as [_ Hip Hfp _].
  set (fp' := toml_frac fp) in *.
  assert (Hfp' : forallb is_digit fp' = true /\ fp' <> []).
  { unfold fp', toml_frac. destruct fp; [split; [reflexivity|discriminate] | split; [exact Hfp|discriminate]]. }
  destruct Hfp' as [Hfd Hfne]. destruct (ip_digits _ Hip) as [Hid Hine].
  set (pre := (if fc_neg c then [dash] else []) ++ ip).
  pose proof (float__plain pre fp' (dec_int_len_plain (fc_neg c) ip fp' Hip) Hfne Hfd) as HL.
  unfold float, context, alt, and_then. rewrite HL.
  unfold float_of.
  assert (Hnu : forallb not_us (pre ++ dot :: fp') = true).
  { unfold pre. rewrite !forallb_app. cbn [forallb].
    rewrite (forallb_impl is_digit _ ip digit_not_us Hid), (forallb_impl is_digit _ fp' digit_not_us Hfd).
    destruct (fc_neg c); reflexivity. }
  rewrite (remove_us_id _ Hnu). unfold pre. rewrite <- app_assoc.
  rewrite (fdec_of_plain (fc_neg c) ip fp' Hid Hine Hfd).
  fold m e. rewrite Ho. cbn [andb]. reflexivity.
Qed.

(* ... and Value::from_str sees a float, never an integer *)
Theorem value_write_finite c text ip fp :
  fc_nan c = false -> fc_zero c = false -> std_finite_shape c text ip fp ->
  let m := dec_value (ip ++ toml_frac fp) in
  let e := (0 - Z.of_nat (length (toml_frac fp)))%Z in
  overflows m e = false ->
  exists r d, parse_value_raw (write_float c text) = POk (VScalar (SFloat (FDec (fc_neg c) m e)) r d).
Proof.
  intros Hn Hz Hsh m e Ho.
  pose proof (float_write_finite c text ip fp Hn Hz Hsh Ho) as HF. fold m e in HF.
  pose proof (write_float_finite c text ip fp Hn Hz Hsh) as HW.
  destruct Hsh as [_ Hip Hfp _]. destruct (ip_digits _ Hip) as [Hid Hine].
  set (t := write_float c text) in *.
  assert (Hb : exists b tl, t = b :: tl /\ num_start b = true /\ no_dt0 t).
  { rewrite HW. destruct (fc_neg c); cbn [app].
    - exists dash, (ip ++ dot :: toml_frac fp). repeat split.
    - destruct ip as [|d tl]; [contradiction|]. cbn [app].
      exists d, (tl ++ dot :: toml_frac fp). cbn [forallb] in Hid. apply andb_true_iff in Hid as [Hd Htl].
      split; [reflexivity|]. split; [unfold num_start; rewrite Hd; reflexivity|].
      unfold no_dt0. rewrite Hd.
      clear - Htl. induction tl as [|x tl IH]; cbn [app no_dt].
      + split; discriminate.
      + cbn [forallb] in Htl. apply andb_true_iff in Htl as [Hx Htl]. rewrite Hx. apply IH, Htl. }
  destruct Hb as (b & tl & Hbt & Hns & Hdt).
  apply (parse_value_number t b tl _ Hbt Hns).
  apply number_arm_float; [apply date_time_bt0; exact Hdt | exact HF].
Qed.

(* NaN, zero and the infinities: fixed texts *)
Theorem float_write_nan c text :
  fc_nan c = true ->
  float (new_input (write_float c text)) = Ok (FNan (fc_neg c)) (end_input (write_float c text)).
Proof.
  intro Hn. unfold write_float. rewrite Hn. destruct (fc_neg c); vm_compute; reflexivity.
Qed.

Theorem float_write_zero c text :
  fc_nan c = false -> fc_zero c = true ->
  float (new_input (write_float c text)) = Ok (FDec (fc_neg c) 0 (-1)) (end_input (write_float c text)).
Proof.
  intros Hn Hz. unfold write_float. rewrite Hn, Hz. destruct (fc_neg c); vm_compute; reflexivity.
Qed.

(* std prints the infinities as "inf" / "-inf"; `inf % 1.0` is NaN so no ".0" is appended *)
Definition t_inf (neg : bool) : bytes := if neg then [x2d; x69; x6e; x66] else [x69; x6e; x66].
Theorem float_write_inf c :
  fc_nan c = false -> fc_zero c = false -> fc_integral c = false ->
  float (new_input (write_float c (t_inf (fc_neg c)))) = Ok (FInf (fc_neg c)) (end_input (write_float c (t_inf (fc_neg c)))).
Proof.
  intros Hn Hz Hi. unfold write_float. rewrite Hn, Hz, Hi. destruct (fc_neg c); vm_compute; reflexivity.
Qed.

Theorem value_write_special c text :
  (fc_nan c = true \/ (fc_nan c = false /\ fc_zero c = true) \/
   (fc_nan c = false /\ fc_zero c = false /\ fc_integral c = false /\ text = t_inf (fc_neg c))) ->
  exists f r d, parse_value_raw (write_float c text) = POk (VScalar (SFloat f) r d) /\
                float (new_input (write_float c text)) = Ok f (end_input (write_float c text)).
Proof.
  intros [Hn | [[Hn Hz] | (Hn & Hz & Hi & ->)]]; unfold write_float.
  - rewrite Hn. destruct (fc_neg c); do 3 eexists; split; vm_compute; reflexivity.
  - rewrite Hn, Hz. destruct (fc_neg c); do 3 eexists; split; vm_compute; reflexivity.
  - rewrite Hn, Hz, Hi. destruct (fc_neg c); do 3 eexists; split; vm_compute; reflexivity.
Qed.

(* ---- the round trip, reduced to the std oracle ------------------------------------------------------
   `shortest b` is std's `{}` text for the float with bit pattern b; `back f` is the bit pattern
   of what `str::parse::<f64>` returns for the exact decimal f (followed by `as f32` for the f32
   writer).  The single hypothesis bundles what DESIGN.md 4.4 lists: the printed text has the
   no-exponent shape, carries a fraction iff the value is not integral, denotes a decimal below
   the overflow threshold, and reads back as the same float (also after ".0" has been appended,
   which does not change the value denoted). *)
Section StdOracle.
  Variable cls : N -> fclass.            (* classify64 or classify32 *)
  Variable is_inf : N -> bool.
  Variable shortest : N -> bytes.
  Variable back : fval -> N.

  Definition std_roundtrip_hyp : Prop :=
    forall b, fc_nan (cls b) = false -> fc_zero (cls b) = false -> is_inf b = false ->
      exists ip fp,
        std_finite_shape (cls b) (shortest b) ip fp /\
        overflows (dec_value (ip ++ toml_frac fp)) (0 - Z.of_nat (length (toml_frac fp))) = false /\
        back (FDec (fc_neg (cls b)) (dec_value (ip ++ toml_frac fp)) (0 - Z.of_nat (length (toml_frac fp)))) = b.

  Theorem writer_roundtrip_finite :
    std_roundtrip_hyp ->
    forall b, fc_nan (cls b) = false -> fc_zero (cls b) = false -> is_inf b = false ->
      exists f r d,
        float (new_input (write_float (cls b) (shortest b))) = Ok f (end_input (write_float (cls b) (shortest b))) /\
        parse_value_raw (write_float (cls b) (shortest b)) = POk (VScalar (SFloat f) r d) /\
        back f = b.
  Proof.
    intros H b Hn Hz Hi. destruct (H b Hn Hz Hi) as (ip & fp & Hsh & Ho & Hb).
    destruct (value_write_finite _ _ _ _ Hn Hz Hsh Ho) as (r & d & Hv).
    eexists _, r, d. split; [apply (float_write_finite _ _ _ _ Hn Hz Hsh Ho)|]. split; [exact Hv | exact Hb].
  Qed.
End StdOracle.
