(* Proofs/WFOrderDotDoc.v — sections in Display's order, part 5: the parse of ANY accepted document whose statements the
   specification decides (no step of class U1).  Through every line: the positioned sections of the state, sorted by
   position, run to the state right after the header of the open section; the open table holds the sub-tables it had
   when it was opened, then pure entries; and the printed lines of the pure entries rebuild the open table at its
   place (Proofs/WFOrderDot.v).  Hence `replay_stmts` of the parsed tree define its data, kinds included. *)
From TV Require Import Base.Prelude Base.Utf8 Base.Winnow Gen.Consts Spec.Abnf Spec.Lex Spec.Defs Spec.DatetimeSpec Spec.Syntax Spec.WF.
From TV Require Import Model.Trivia Model.Strings Model.Datetime Model.Numbers Model.Tree Model.Parse Model.Document Model.Write Model.Encode.
From TV Require Import Proofs.DefsEquivBase Proofs.DefsEquivSpec Proofs.DefsEquivKv Proofs.DefsEquivWalk Proofs.DefsEquivSim Proofs.DefsEquivMain
                       Proofs.GrammarBase Proofs.GrammarParam Proofs.GrammarDocBase
                       Proofs.LexEquivBase Proofs.LexEquivTrivia Proofs.LexEquivKey Proofs.GrammarDocLine Proofs.GrammarDoc
                       Proofs.SpansDefs Proofs.PrintBackBase Proofs.PrintBackSort Proofs.PrintBackDespan Proofs.PrintBackSecs Proofs.PrintBackDAll.
From TV Require Proofs.PrintBackDState.
From TV Require Import Proofs.WFSem Proofs.WFSemDoc Proofs.WFPrintKey Proofs.WFPrintFlat Proofs.WFTree Proofs.WFPrintDoc Proofs.WFParseBase Proofs.WFParseValue
                       Proofs.WFParseState Proofs.WFParseTop Proofs.WFReplay Proofs.WFOrderBase Proofs.WFOrderState Proofs.WFOrderDoc Proofs.WFOrderTop Proofs.WFOrderDot.
Require Import Lia NArith Sorting.Sorted Sorting.Permutation.

Local Notation uk2' := (uk2 anyk).

(* ---- the statements of the open section ----------------------------------------------------------------------------------- *)
Definition cur_hdr (st : pstate) : list (stmt dval) :=
  match st_path st with
  | [] => []
  | _ => [if st_is_array st then SArrHeader (keys (st_path st)) else SHeader (keys (st_path st))]
  end.
Definition vstmts (L : list (key * item)) : list (stmt value) := map (fun pv => SKeyVal (fst pv) (snd pv)) (map vline (tfl [] L)).

Lemma lines_bridge t T0 L : t_items t = T0 ++ L -> Forall is_sec T0 -> line_stmts dval (sb_tbl t) = map (stmt_map absv) (vstmts L).
Proof.
  intros Hit Hsec. unfold line_stmts. rewrite <- tflat_lines, tflat_tfl, Hit, tfl_app, (tfl_secs [] T0 Hsec). cbn [app]. unfold vstmts.
  rewrite !map_map. apply map_ext. intros [q x]. reflexivity.
Qed.

Lemma cur_ent_snd st T0 L : t_implicit (st_current st) = false -> t_items (st_current st) = T0 ++ L -> Forall is_sec T0 ->
  snd (cur_ent st) = cur_hdr st ++ map (stmt_map absv) (vstmts L).
Proof.
  intros Hi Hit Hsec. unfold cur_ent, cur_hdr. destruct (st_path st) as [|k0 pth]; cbn [snd]; unfold own_b; rewrite (lines_bridge _ _ _ Hit Hsec).
  - reflexivity.
  - rewrite Hi. cbn [andb negb keys map]. rewrite orb_true_r. reflexivity.
Qed.

Lemma nodup_app_disj {A} (a b : list A) : NoDup (a ++ b) -> NoDup a /\ NoDup b /\ (forall x, In x b -> ~ In x a).
Proof.
  induction a as [|y a IH]; cbn [app]; intro H; [split; [constructor|split; [exact H|intros x _ []]]|].
  inversion H as [|? ? Hy Hn]; subst. destruct (IH Hn) as (H1 & H2 & H3). split; [constructor; [intro X; apply Hy, in_or_app; left; exact X|exact H1]|].
  split; [exact H2|]. intros x Hx [->|Hin]; [apply Hy, in_or_app; right; exact Hx|exact (H3 x Hx Hin)].
Qed.

Lemma abs_items_keys m : map fst (abs_items m) = map kk m.
Proof. unfold abs_items. rewrite map_map. reflexivity. Qed.
Lemma abs_items_app a b : abs_items (a ++ b) = abs_items a ++ abs_items b.
Proof. apply map_app. Qed.

(* ---- the invariant -------------------------------------------------------------------------------------------------------- *)
Record dinv (st : pstate) : Prop := mk_dinv {
  di_E : exists E0 Th T0 L,
           Permutation (Brest st) E0 /\ StronglySorted klt (E0 ++ [cur_ent st])
           /\ t_items (st_current st) = T0 ++ L /\ Forall is_sec T0 /\ all_P nentry T0 /\ pure_items L
           /\ spec_fold true (dstate sstate0) (flat_map snd E0 ++ cur_hdr st) = ROk (dstate (Th, keys (st_path st)))
           /\ PLv st (abs_items T0) = ROk (Th, tt);
  di_pos : fst (cur_ent st) = st_position st;
  di_root : uk2' (st_root st) /\ hp (st_root st) /\ t_dotted (st_root st) = false /\ t_position (st_root st) = None /\ nls (st_root st);
  di_cur : cur_ok (st_current st);
  di_path : match st_path st with
            | [] => t_position (st_current st) = None /\ t_items (st_root st) = []
            | path => t_position (st_current st) = Some (st_position st)
                      /\ (st_is_array st = false ->
                          exists ppath k par, pop_key path = Some (ppath, k) /\ reach (st_root st) ppath = Some par /\ kv_get (t_items par) (k_key k) = None)
            end
}.

Lemma nls_new : nls tbl_new.
Proof. split; [exact I|intros _ _; constructor]. Qed.

Lemma dinv_init : dinv state_new.
Proof.
  constructor.
  - exists [], [], [], []. split; [reflexivity|]. split; [repeat constructor|]. split; [reflexivity|]. split; [constructor|]. split; [exact I|]. split; [exact I|].
    split; reflexivity.
  - reflexivity.
  - split; [apply uk2_new|]. split; [apply hp_new|]. split; [reflexivity|]. split; [reflexivity|apply nls_new].
  - split; [reflexivity|]. split; [reflexivity|]. split; [apply hp_eq; exact I|apply uk2_eq; split; constructor].
  - cbn. split; reflexivity.
Qed.

Lemma dinv_on_ws st sp : dinv st -> dinv (on_ws st sp).
Proof. intros [H2 H3 H4 H5 H6]. constructor; [exact H2|exact H3|exact H4|exact H5|exact H6]. Qed.

(* the whole run, the lines of the open section included *)
Lemma dinv_full st S : Inv st S -> dinv st ->
  exists E0, Permutation (Brest st) E0 /\ StronglySorted klt (E0 ++ [cur_ent st])
             /\ spec_fold true (dstate sstate0) (flat_map snd (E0 ++ [cur_ent st])) = ROk (dstate S).
Proof.
  intros HI [(E0 & Th & T0 & L & HP & HS & Hit & Hsec & HnT & Hpure & HR & HPL) _ _ (Hcd & Hci & Hhc & Huc) _].
  exists E0. split; [exact HP|]. split; [exact HS|].
  rewrite flat_map_app. cbn [flat_map]. rewrite app_nil_r, (cur_ent_snd st T0 L Hci Hit Hsec), app_assoc, GrammarDocBase.spec_fold_app, HR.
  unfold dstate. rewrite spec_fold_smap. destruct S as [T cp]. destruct (Inv_PLv st T cp HI) as [-> HT].
  apply uk2_eq in Huc as [Hn Hs]. rewrite Hit in Hn, Hs. rewrite map_app in Hn. destruct (nodup_app_disj _ _ Hn) as (_ & HnL & Hdisj).
  apply Forall_app in Hs as [_ HsL].
  assert (Hfold : inline_fold (abs_items T0) (map vline (tfl [] L)) = ROk (abs_items T0 ++ abs_items L)).
  { apply (pure_fold L (abs_items T0) Hpure HsL HnL). intros x Hx. rewrite abs_items_keys. apply Hdisj, Hx. }
  destruct (lines_run st _ _ _ Th HPL Hfold) as (Xc' & HX & Hrun). unfold vstmts. rewrite Hrun. cbn [rmap].
  rewrite abs_tbl_eq, Hit, abs_items_app, HX in HT. injection HT as <-. reflexivity.
Qed.

(* ---- a key/value line ------------------------------------------------------------------------------------------------------ *)
Lemma keyval_step st S path k v st' :
  on_keyval_sp st path k (IValue v) = COk st' -> written v -> Inv st S -> dinv st ->
  spec_step true S (SKeyVal (keys path ++ [k_key k]) v) <> RUndecided -> dinv st'.
Proof.
  intros H Hw HI [(E0 & Th & T0 & L & HP & HS & Hit & Hsec & HnT & Hpure & HR & HPL) Hpos Hroot (Hcd & Hci & Hhc & Huc) Hpath] Hdec.
  destruct (PrintBackDState.on_keyval_all anyk st path k v st' H Huc (all_anyk _)) as (_ & _ & _ & _ & _ & _ & Hu' & _).
  unfold on_keyval_sp in H. destruct (on_keyval st path k (IValue v)) as [st0| |] eqn:Eo; try discriminate. injection H as <-.
  destruct S as [T cp].
  destruct (keyval_shape st path k v st0 T0 L Eo Hit Hsec Hpure Hw) as (L1 & Hfree & Hit1 & Hp1 & R1 & R2 & R3 & R4 & F1 & F2 & F3).
  { intros k1 p1 k0 sub Epath G Hi. apply (u1_excluded st T cp path k v k1 p1 k0 sub HI Hdec Epath); [rewrite Hit, kv_get_app, G; reflexivity|exact Hi|].
    apply (is_sec_get _ _ _ _ Hsec G). }
  destruct (sds_shape path (st_current st0) (item_end (IValue v)) T0 L1 Hit1 Hp1 Hfree) as (L2 & Hit2 & Hp2 & G1 & G2 & G3).
  cbn [st_current] in Hu'. set (cur2 := set_dotted_spans (st_current st0) path (item_end (IValue v))) in *.
  assert (HB : forall P, BbI (t_items cur2) P = BbI (t_items (st_current st)) P).
  { intro P. rewrite Hit2, Hit, !BbI_app, (BbI_pure L2 Hp2), (BbI_pure L Hpure). reflexivity. }
  apply hp_eq in Hhc. rewrite Hit in Hhc. apply all_P_app in Hhc as [HhT _].
  constructor; cbn [st_root st_current st_path st_position st_is_array]; rewrite ?R1, ?R2, ?R3, ?R4.
  - exists E0, Th, T0, L2. unfold Brest, cur_ent, cur_hdr, PLv in *. cbn [st_root st_current st_path st_position st_is_array]. rewrite ?R1, ?R2, ?R3, ?R4.
    destruct (st_path st) as [|k0 pth] eqn:Epath; rewrite HB; (split; [exact HP|]); (split; [apply (sorted_snoc_key E0 _ _ _ HS)|]); auto 10.
  - unfold cur_ent in *. cbn [st_root st_current st_path st_position st_is_array]. rewrite ?R1, ?R2, ?R3, ?R4. destruct (st_path st); exact Hpos.
  - exact Hroot.
  - split; [congruence|]. split; [congruence|]. split; [|exact Hu'].
    apply hp_eq. rewrite Hit2. apply all_P_app. split; [exact HhT|apply pure_hentries, Hp2].
  - destruct (st_path st) as [|k0 pth].
    + destruct Hpath as (H1 & H2). split; [congruence|exact H2].
    + destruct Hpath as [H1 H2]. split; [congruence|exact H2].
Qed.

(* ---- a header line ---------------------------------------------------------------------------------------------------------- *)
Lemma hdr_strict {V} (S : sstate V) (arr : bool) (p : list bytes) :
  spec_step true S (if arr then SArrHeader p else SHeader p) = spec_step false S (if arr then SArrHeader p else SHeader p).
Proof. destruct S, arr; reflexivity. Qed.

Lemma open_dinv st2 root' T0 path dec sp arr S1 E c :
  Inv (open_table st2 root' (Tbl T0 decor_default false false None None) path dec sp arr) S1 ->
  path <> [] -> fst c = st_position st2 ->
  Permutation (Broot root' ++ BbI T0 (keys path)) (E ++ [c]) -> StronglySorted klt (E ++ [c]) ->
  spec_fold true (dstate sstate0) (flat_map snd (E ++ [c]) ++ [if arr then SArrHeader (keys path) else SHeader (keys path)]) = ROk (dstate S1) ->
  uk2' root' -> hp root' -> t_dotted root' = false -> t_position root' = None -> nls root' ->
  uks2 anyk T0 -> NoDup (map kk T0) -> all_P hentry T0 -> Forall is_sec T0 -> all_P nentry T0 ->
  (arr = false -> exists ppath k par, pop_key path = Some (ppath, k) /\ reach root' ppath = Some par /\ kv_get (t_items par) (k_key k) = None) ->
  dinv (open_table st2 root' (Tbl T0 decor_default false false None None) path dec sp arr).
Proof.
  intros HI Hne Hc HP HS HR Hur Hhr Hrd Hrp Hrn Hs0 Hn0 Hh0 Hsec0 Hnt0 Hreach.
  destruct S1 as [T1 cp1]. destruct (Inv_PLv _ T1 cp1 HI) as [-> HT]. rewrite abs_tbl_eq in HT.
  unfold open_table in *. cbn [t_items st_current st_path] in *.
  set (pos' := (st_position st2 + 1)%N) in *.
  assert (Hown : own_b (Tbl T0 dec false false (Some pos') (Some sp)) (keys path) arr = [if arr then SArrHeader (keys path) else SHeader (keys path)])
    by (apply own_b_opened; [apply keys_nonempty, Hne|apply tfl_secs, Hsec0]).
  constructor; cbn [st_root st_current st_path st_position st_is_array].
  - exists (E ++ [c]), T1, T0, []. unfold Brest, cur_ent, cur_hdr. cbn [st_root st_current st_path st_position st_is_array t_items].
    destruct path as [|k0 pth]; [congruence|]. rewrite Hown. split; [exact HP|]. split; [apply sorted_snoc; [exact HS|cbn [fst]; lia]|].
    split; [rewrite app_nil_r; reflexivity|]. split; [exact Hsec0|]. split; [exact Hnt0|]. split; [exact I|]. split; [exact HR|exact HT].
  - unfold cur_ent. cbn [st_path st_position]. destruct path; [congruence|reflexivity].
  - auto.
  - split; [reflexivity|]. split; [reflexivity|]. split; [apply hp_eq; exact Hh0|apply uk2_eq; split; assumption].
  - destruct path as [|k0 pth]; [congruence|]. split; [reflexivity|exact Hreach].
Qed.

Lemma header_step arr st S pre k tr sp st' : on_header arr st (pre ++ [k]) tr sp = COk st' -> Inv st S -> dinv st -> dinv st'.
Proof.
  intros H HI Hd. destruct (dinv_full st S HI Hd) as (E0 & HP & HS & HR).
  destruct Hd as [(_ & _ & T0 & L & _ & _ & Hit & Hsec & HnT & Hpure & _ & _) Hpos (Hur & Hhr & Hrd & Hrp & Hrn) Hcur Hpath].
  destruct (hdr_step_sound arr st S pre k tr sp st' HI H) as (S1 & Es & HI1).
  apply (step_to_data false) in Es.
  assert (Est : stmt_map absv (hdr_stmt arr (keys pre ++ [k_key k])) = (if arr then SArrHeader (keys (pre ++ [k])) else SHeader (keys (pre ++ [k]))))
    by (unfold keys; rewrite map_app; destruct arr; reflexivity).
  rewrite Est, <- hdr_strict in Es. clear Est.
  assert (Hne : pre ++ [k] <> []) by (destruct pre; discriminate).
  unfold on_header in H. destruct (pre ++ [k]) as [|k1 p1] eqn:Epk; [congruence|]. rewrite <- Epk in *.
  destruct (finalize_table st) as [st1| |] eqn:Ef; try discriminate.
  assert (Hcn : nlr (st_current st)) by (apply nlr_eq; rewrite Hit; apply all_P_app; split; [exact HnT|apply pure_nentries, Hpure]).
  (* the tree with the open section put back *)
  assert (F : exists root1, st1 = finalized st root1 /\ uk2' root1 /\ hp root1 /\ t_dotted root1 = false /\ t_position root1 = None /\ nls root1
                            /\ Permutation (Broot root1) (E0 ++ [cur_ent st])).
  { pose proof Hcur as (Hcd & Hci & Hhc & Huc). unfold Brest, cur_ent in *. destruct (st_path st) as [|k0 pth] eqn:Epath.
    - rewrite finalize_table_eq, Epath in Ef. cbn [pop_key rev] in Ef. destruct (tbl_is_empty (st_root st)); [|discriminate]. injection Ef as <-.
      destruct Hpath as (Hq & _). exists (st_current st). split; [reflexivity|]. repeat (split; [assumption|]).
      split; [split; [exact Hcn|intro X; congruence]|]. unfold Broot. rewrite <- HP. apply Permutation_cons_append.
    - destruct Hpath as [Hq Hfree]. destruct (pop_key_total (k0 :: pth) ltac:(discriminate)) as (ppath & kl & Ep). rewrite <- Epath in *.
      assert (Hfree' : st_is_array st = false -> exists par, reach (st_root st) ppath = Some par /\ kv_get (t_items par) (k_key kl) = None).
      { intro Ea. destruct (Hfree Ea) as (pp & kk0 & par & Ep' & Hr & Hg). rewrite Ep in Ep'. injection Ep' as <- <-. eauto. }
      destruct (finalize_B st st1 ppath kl Ep Ef Hur Hhr Hcur ltac:(rewrite Hq; discriminate) Hfree') as (E1 & Hlf & Hu1 & Hh1 & Hperm).
      pose proof (finalize_nls st st1 ppath kl Ep Ef Hrn Hcn Hcd Hci Hfree') as Hn1.
      exists (st_root st1). split; [exact E1|]. split; [exact Hu1|]. split; [exact Hh1|]. destruct Hlf as (_ & Hd1 & Hq1 & _).
      split; [congruence|]. split; [congruence|]. split; [exact Hn1|]. rewrite Hperm, Bb_eq. unfold own_e. rewrite Hcd, Hq. rewrite <- HP.
      rewrite <- app_assoc. apply Permutation_app_head. cbn [app]. apply Permutation_cons_append. }
  destruct F as (root1 & -> & Hu1 & Hh1 & Hd1 & Hq1 & Hn1 & Hfull). unfold take_trailing in H. cbv zeta in H. cbn [finalized st_root st_position st_current st_is_array st_path st_trailing] in H.
  set (st2 := mkState root1 None (st_position st) tbl_new (st_is_array st) []) in *.
  assert (Hrun : spec_fold true (dstate sstate0) (flat_map snd (E0 ++ [cur_ent st]) ++ [if arr then SArrHeader (keys (pre ++ [k])) else SHeader (keys (pre ++ [k]))]) = ROk (dstate S1)).
  { rewrite GrammarDocBase.spec_fold_app, HR. cbn [spec_fold]. rewrite Es. reflexivity. }
  destruct arr.
  - destruct (start_array_B st2 (pre ++ [k]) _ sp st' pre k H (DefsEquivSim.pop_key_app pre k) Hu1 Hh1) as (Est' & Hlf & Hu' & Hh' & Hperm).
    pose proof (start_array_nls st2 (pre ++ [k]) _ sp st' H Hn1) as Hn'.
    rewrite Est' in HI1 |- *. cbn [st_current st2] in *. change tbl_new with (Tbl [] decor_default false false None None) in *.
    destruct Hlf as (_ & Hd' & Hq' & _).
    apply (open_dinv st2 (st_root st') [] (pre ++ [k]) _ sp true S1 E0 (cur_ent st) HI1 Hne Hpos); try assumption.
    + cbn [BbI flat_map]. rewrite app_nil_r, Hperm. exact Hfull.
    + rewrite Hd'. exact Hd1.
    + rewrite Hq'. exact Hq1.
    + constructor.
    + constructor.
    + exact I.
    + constructor.
    + exact I.
    + discriminate.
  - destruct (start_table_B st2 (pre ++ [k]) _ sp st' pre k H (DefsEquivSim.pop_key_app pre k) Hu1 Hh1 eq_refl)
      as (T0' & Est' & Hs0 & Hn0 & Hh0 & Hl0 & Hlf & Hu' & Hh' & Hperm & par & Hr & Hg).
    destruct (start_table_nls st2 (pre ++ [k]) _ sp st' H Hn1 eq_refl) as (Hn' & Hsec' & Hnt').
    rewrite Est' in HI1, Hsec', Hnt' |- *. cbn [open_table st_current t_items] in Hsec', Hnt'. destruct Hlf as (_ & Hd' & Hq' & _).
    apply (open_dinv st2 (st_root st') T0' (pre ++ [k]) _ sp false S1 E0 (cur_ent st) HI1 Hne Hpos); try assumption.
    + rewrite Hperm. exact Hfull.
    + rewrite Hd'. exact Hd1.
    + rewrite Hq'. exact Hq1.
    + intros _. exists pre, k, par. split; [apply DefsEquivSim.pop_key_app|]. auto.
Qed.

(* ---- one line, the loop: GrammarDoc.v's pass, with the statements it reads and what they decide ------------------------ *)
Definition dec (S : sstate value) (l : list astmt) : Prop := spec_fold true (dstate S) (map stmt_den l) <> RUndecided.

Lemma dec_app S S1 l1 l2 : lsim S S1 l1 -> dec S (l1 ++ l2) -> dec S l1 /\ dec S1 l2.
Proof.
  intros (F1 & _ & _) H. unfold dec in *. rewrite map_app, GrammarDocBase.spec_fold_app in H.
  assert (D1 : spec_fold true (dstate S) (map stmt_den l1) <> RUndecided) by (intro E; apply H; rewrite E; reflexivity).
  split; [exact D1|]. rewrite <- (spec_fold_strict_code _ _ D1), F1 in H. exact H.
Qed.

Definition keeps (st st1 : pstate) (S : sstate value) (l : list astmt) : Prop := dec S l -> dinv st -> dinv st1.

Lemma parse_keyval_written i path k it i1 : parse_keyval i = Ok (path, (k, it)) i1 -> exists v, it = IValue v /\ written v.
Proof.
  rewrite GrammarDocLine.parse_keyval_unfold. intro H. apply bind_inv in H as (kp & j1 & _ & H).
  apply bind_inv in H as ([[pre v] suf] & j2 & H2 & H).
  apply cut_err_inv in H2. apply bind_inv in H2 as (y & k1 & _ & H2). apply bind_inv in H2 as (pre' & k2 & _ & H2).
  apply bind_inv in H2 as (v' & k3 & E3 & H2). pose proof (value_written _ _ _ E3) as Hw.
  apply bind_inv in H2 as (suf' & k4 & _ & H2). apply ret_inv in H2 as [E _]. injection E as -> -> ->.
  destruct (pop_key kp) as [[pth kk0]|]; [|discriminate]. apply ret_inv in H as [E _]. injection E as <- <- ->.
  eexists. split; [reflexivity|apply written_decorate, Hw].
Qed.

Lemma keyval_sound2 st i st1 i1 S : keyval st i = Ok st1 i1 -> depth i = 0 -> Inv st S ->
  exists w0 e l le S1, ws_tok w0 /\ item_tok e l /\ splits i (w0 ++ e ++ le) i1 /\ lend le (rest i1)
                       /\ Inv st1 S1 /\ lsim S S1 l /\ keeps st st1 S l.
Proof.
  unfold keyval. intros H Hd HI. apply try_map_inv in H as ([path [k it]] & H & Hst).
  destruct (parse_keyval_written _ _ _ _ _ H) as (v2 & Eit & Hw).
  apply parse_keyval_sound in H as (w0 & t & p & a & w & c & le & Hw0 & Ht & Hw' & Hc & Sp & Hl & Hlen & [Hp (v & Hit & Hv)]).
  cbn [fst snd] in Hp, Hit, Hv. rewrite Eit in Hit. injection Hit as <-. subst it. rewrite Hd in Hv.
  destruct (on_keyval_sp st path k (IValue v2)) as [st'| |] eqn:E; try discriminate. cbn [lift_state] in Hst. injection Hst as <-.
  destruct (kv_step_sound st S path k v2 st' HI E) as (S1 & Es & HI1).
  exists w0, (t ++ w ++ c), [SKeyVal p a], le, S1. split; [exact Hw0|]. split; [apply it_keyval; assumption|].
  split; [exact Sp|]. split; [exact Hl|]. split; [exact HI1|].
  destruct Hv as (Ha & Hok & Hwi & _). split.
  - apply (lsim_one S S1 _ (SKeyVal p a) Es (kv_stmt_den path k v2 p a Hp Ha)); cbn [stmt_ok stmt_within]; [exact Hok|].
    rewrite (ltb_true _ _ Hlen), Hwi. reflexivity.
  - intros Hdec Hdi. apply (keyval_step st S path k v2 st' E Hw HI Hdi). intro X. apply Hdec. cbn [map spec_fold].
    rewrite <- (kv_stmt_den path k v2 p a Hp Ha). unfold dstate. rewrite spec_step_smap, X. reflexivity.
Qed.

Lemma header_sound2 arr st i st1 i1 S : header arr st i = Ok st1 i1 -> Inv st S ->
  exists e l le S1, item_tok e l /\ splits i (e ++ le) i1 /\ lend le (rest i1) /\ Inv st1 S1 /\ lsim S S1 l /\ keeps st st1 S l.
Proof.
  rewrite header_unfold. intros H HI. apply try_map_inv in H as ([[kp sp] tr] & H & Hst).
  apply header_text_sound in H as (t & p & w & c & le & Ht & Hw & Hc & Sp & Hl & Hp & Hlen & Hne).
  destruct (on_header arr st kp tr sp) as [st'| |] eqn:E; try discriminate. cbn [lift_state] in Hst. injection Hst as <-.
  destruct (pop_key_total kp Hne) as (pre & k & Ep). pose proof (pop_key_some _ _ _ Ep) as Ekp. subst kp.
  destruct (hdr_step_sound arr st S pre k tr sp st' HI E) as (S1 & Es & HI1).
  rewrite keys_app in Hp. cbn [keys map] in Hp. fold (keys pre) in Hp.
  exists (t ++ w ++ c), [if arr then SArrHeader p else SHeader p], le, S1.
  split; [destruct arr; [apply it_arr|apply it_std]; assumption|]. split; [exact Sp|]. split; [exact Hl|]. split; [exact HI1|].
  rewrite Hp in Es. split.
  - apply (lsim_one S S1 _ _ Es (hdr_stmt_den arr p)); destruct arr; cbn [stmt_ok stmt_within]; try reflexivity;
      apply ltb_true; rewrite <- Hp, app_length; unfold keys; rewrite map_length; rewrite app_length in Hlen; exact Hlen.
  - intros _ Hdi. apply (header_step arr st S pre k tr sp st' E HI Hdi).
Qed.

Lemma keeps_ws st S sp : keeps st (on_ws st sp) S [].
Proof. intros _ H. apply dinv_on_ws, H. Qed.

Lemma line_p_sound2 st b i st1 i1 S : line_p st b i = Ok st1 i1 -> depth i = 0 -> Inv st S ->
  exists w0 e l le S1, ws_tok w0 /\ item_tok e l /\ splits i (w0 ++ e ++ le) i1 /\ lend le (rest i1)
                       /\ Inv st1 S1 /\ lsim S S1 l /\ keeps st st1 S l.
Proof.
  unfold line_p. intros H Hd HI.
  destruct (byte_eqb b COMMENT_START_SYMBOL).
  { apply cut_err_inv in H. unfold parse_comment in H. apply pmap_inv in H as (sp & H & ->).
    apply span_inv in H as (u & H & _). apply bind_inv in H as (x & j1 & H1 & H2).
    apply comment_sound in H1 as (c & Hc & S1 & _). apply context_inv, line_ending_sound in H2 as (le & S2 & Hl).
    exists [], c, [], le, S. split; [reflexivity|]. split; [apply it_comment, Hc|].
    split; [exact (splits_trans _ _ _ _ _ S1 S2)|]. split; [exact Hl|]. split; [apply Inv_on_ws, HI|]. split; [apply lsim_nil|apply keeps_ws]. }
  destruct (byte_eqb b STD_TABLE_OPEN).
  { apply cut_err_inv, table_inv in H as (arr & H).
    destruct (header_sound2 arr st i st1 i1 S H HI) as (e & l & le & S1 & He & Sp & Hl & HI1 & Hs & Hk).
    exists [], e, l, le, S1. split; [reflexivity|]. auto 10. }
  destruct (byte_eqb b LF || byte_eqb b CR).
  { unfold parse_newline in H. apply pmap_inv in H as (sp & H & ->). apply span_inv in H as (u & H & _).
    apply newline_sound in H as (nl & Hn & S1).
    exists [], [], [], nl, S. split; [reflexivity|]. split; [apply it_blank|]. split; [exact S1|].
    split; [left; exact Hn|]. split; [apply Inv_on_ws, HI|]. split; [apply lsim_nil|apply keeps_ws]. }
  apply cut_err_inv in H. apply (keyval_sound2 st i st1 i1 S H Hd HI).
Qed.

Lemma doc_line_sound2 st i st1 i1 S : doc_line st i = Ok st1 i1 -> depth i = 0 -> Inv st S ->
  exists w0 e l le w S1,
    ws_tok w0 /\ item_tok e l /\ ws_tok w /\ splits i (w0 ++ e ++ le ++ w) i1
    /\ (newline_tok le \/ (le = [] /\ w = [] /\ rest i1 = []))
    /\ Inv st1 S1 /\ lsim S S1 l /\ keeps st st1 S l.
Proof.
  rewrite doc_line_unfold. intros H Hd HI. apply bind_inv in H as (b & j & H1 & H). apply peek_inv in H1 as [-> _].
  apply bind_inv in H as (st0 & j1 & H2 & H3).
  destruct (line_p_sound2 st b i st0 j1 S H2 Hd HI) as (w0 & e & l & le & S1 & Hw0 & He & Sp & Hl & HI1 & Hs & Hk).
  apply parse_ws_inv in H3 as (w & sp & Hw & Sw & _ & ->).
  exists w0, e, l, le, w, S1. split; [exact Hw0|]. split; [exact He|]. split; [exact Hw|].
  split; [|split; [|split; [apply Inv_on_ws, HI1|split; [exact Hs|intros Hdec Hdi; apply dinv_on_ws, (Hk Hdec Hdi)]]]].
  - pose proof (splits_trans _ _ _ _ _ Sp Sw) as S'. rewrite <- !app_assoc in S'. exact S'.
  - destruct Hl as [Hn | [-> Hr]]; [left; exact Hn|right]. destruct Sw as [R E]. rewrite Hr in R.
    destruct w; [|discriminate]. cbn [app] in R. split; [reflexivity|]. split; [reflexivity|]. symmetry. exact R.
Qed.

Lemma doc_loop_sound2 : forall fuel st i st' i' S, doc_loop fuel st i = Ok st' i' -> depth i = 0 -> Inv st S ->
  exists t l S', splits i t i' /\ dlines t l /\ Inv st' S' /\ lsim S S' l /\ keeps st st' S l.
Proof.
  induction fuel as [|f IH]; intros st i st' i' S H Hd HI; [discriminate|]. cbn [doc_loop] in H.
  destruct (doc_line st i) as [st1 i1|e j|e j|s] eqn:E; try discriminate.
  - destruct (Nat.eqb (length (rest i1)) (length (rest i))); [discriminate|].
    destruct (doc_line_sound2 st i st1 i1 S E Hd HI) as (w0 & e & l & le & w & S1 & Hw0 & He & Hw & Sp & Hle & HI1 & Hs & Hk).
    assert (Hd1 : depth i1 = 0) by (rewrite (splits_depth _ _ _ Sp); exact Hd).
    destruct Hle as [Hn | (-> & -> & R1)].
    + destruct (IH st1 i1 st' i' S1 H Hd1 HI1) as (t & l' & S' & St & Hdl & HI' & Hs' & Hk').
      exists ((w0 ++ e ++ le ++ w) ++ t), (l ++ l'), S'. split; [exact (splits_trans _ _ _ _ _ Sp St)|].
      split; [|split; [exact HI'|split; [exact (lsim_app _ _ _ _ _ Hs Hs')|]]].
      * replace ((w0 ++ e ++ le ++ w) ++ t) with (w0 ++ e ++ le ++ w ++ t) by (rewrite <- !app_assoc; reflexivity).
        apply dl_cons; assumption.
      * intros Hdec Hdi. destruct (dec_app _ _ _ _ Hs Hdec) as [D1 D2]. exact (Hk' D2 (Hk D1 Hdi)).
    + destruct (doc_loop_at_end f st1 i1 st' i' R1 H) as [-> ->].
      exists (w0 ++ e), l, S1. rewrite !app_nil_r in Sp. split; [exact Sp|]. split; [apply dl_last; assumption|]. auto.
  - injection H as <- <-. exists [], [], S. split; [apply splits_nil|]. split; [apply dl_nil|]. split; [exact HI|]. split; [apply lsim_nil|]. intros _ Hdi. exact Hdi.
Qed.

(* ---- THE theorem: when the specification decides the text, the sections in Display's order define the document's data - *)
Theorem decided_replay s d : parse_document s = POk d -> (forall stmts, toml_text s stmts -> verdict stmts <> Undecided) ->
  spec_run (replay_stmts (doc_root d)) = Valid (abs_doc d).
Proof.
  unfold parse_document, parse_all. intros H Hdecided.
  destruct ((a <- document ;; eof ;;; ret a) (new_input s)) as [st i|e j|e j|x] eqn:E; try discriminate.
  destruct (finalize_table st) as [st'| |] eqn:Ef; try discriminate. injection H as <-. cbn [doc_root] in *.
  apply bind_inv in E as (st0 & i0 & E & E'). apply bind_inv in E' as (u0 & i0' & _ & E'). apply ret_inv in E' as [-> _].
  rewrite document_unfold in E.
  apply bind_inv in E as (o & i1 & Eb & E). apply bind_inv in E as (stw & i2 & Ew & E).
  apply bind_inv in E as (stl & i3 & El & E). apply bind_inv in E as (u & i4 & Ee & E).
  apply eof_inv in Ee as [-> Rend]. apply ret_inv in E as [-> ->].
  apply parse_ws_inv in Ew as (w0 & sp & Hw0 & Sw & _ & ->).
  assert (Sb : exists bm, splits (new_input s) bm i1 /\ strip_bom s = w0 ++ rest i2).
  { apply opt_inv in Eb as [(x & -> & Eb) | (-> & -> & (e & j & F))].
    - apply lit_inv in Eb as [_ Sb]. exists bom. split; [exact Sb|]. destruct Sb as [R _]. cbn [new_input rest] in R.
      destruct (strip_bom_cases s) as [(r & Er & ->) | [Hn _]]; [|exfalso; apply (Hn _ R)].
      rewrite Er in R. apply app_inv_head in R. subst r. apply Sw.
    - exists []. split; [apply splits_nil|]. destruct (strip_bom_cases s) as [(r & Er & _) | [_ ->]].
      + exfalso. unfold lit in F. cbn [new_input rest] in F.
        destruct (strip_prefix bom s) eqn:Q; [discriminate|].
        assert (Q' : strip_prefix bom s = Some r) by (apply strip_prefix_spec; exact Er). congruence.
      + apply Sw. }
  destruct Sb as (bm & Sb & Es).
  assert (D2 : depth i2 = 0).
  { rewrite (splits_depth _ _ _ Sw), (splits_depth _ _ _ Sb). reflexivity. }
  destruct (doc_loop_sound2 _ _ _ _ _ sstate0 El D2 (Inv_on_ws _ _ sp Inv_init)) as (t & l & [T cp] & St & Hdl & HI & (Hf & Hok & Hwi) & Hk).
  destruct St as [Rt _]. rewrite Rend, app_nil_r in Rt.
  assert (Htext : toml_text s l) by (unfold toml_text; rewrite Es, Rt; apply toml_tok_ws; [exact Hw0|apply dlines_toml, Hdl]).
  assert (Hdec : dec sstate0 l).
  { pose proof (Hdecided l Htext) as Hv. unfold verdict in Hv. rewrite Hok in Hv. unfold spec_run, run in Hv. unfold dec. intro X.
    change (dstate sstate0) with (@sstate0 dval) in X. rewrite X in Hv. apply Hv. reflexivity. }
  pose proof (Hk Hdec (dinv_on_ws _ sp dinv_init)) as Hdi.
  destruct (dinv_full stl (T, cp) HI Hdi) as (E0 & HP & HS & HR).
  destruct Hdi as [(_ & _ & T0 & L & _ & _ & Hit & Hsec & HnT & Hpure & _ & _) Hpos (Hur' & Hhr & Hrd & Hrp & Hrn) Hcur Hpath].
  (* the tree with the last section put back *)
  assert (F : t_dotted (st_root st') = false /\ t_position (st_root st') = None /\ hp (st_root st') /\ Permutation (Broot (st_root st')) (E0 ++ [cur_ent stl])).
  { pose proof Hcur as (Hcd & Hci & Hhc & Huc'). unfold Brest, cur_ent in *. destruct (st_path stl) as [|k0 pth] eqn:Epath.
    - rewrite finalize_table_eq, Epath in Ef. cbn [pop_key rev] in Ef. destruct (tbl_is_empty (st_root stl)); [|discriminate]. injection Ef as <-.
      destruct Hpath as (Hq & _). cbn [finalized st_root]. repeat (split; [assumption|]). unfold Broot. rewrite <- HP. apply Permutation_cons_append.
    - destruct Hpath as [Hq Hfree]. destruct (pop_key_total (k0 :: pth) ltac:(discriminate)) as (ppath & kl & Ep). rewrite <- Epath in *.
      destruct (finalize_B stl st' ppath kl Ep Ef Hur' Hhr Hcur ltac:(rewrite Hq; discriminate)) as (E1 & Hlf & Hu1 & Hh1 & Hperm).
      { intro Ea. destruct (Hfree Ea) as (pp & kk0 & par & Ep' & Hr & Hg). rewrite Ep in Ep'. injection Ep' as <- <-. eauto. }
      destruct Hlf as (_ & Hd1 & Hq1 & _). split; [congruence|]. split; [congruence|]. split; [exact Hh1|]. rewrite Hperm, Bb_eq. unfold own_e. rewrite Hcd, Hq. rewrite <- HP.
      rewrite <- app_assoc. apply Permutation_app_head. cbn [app]. apply Permutation_cons_append. }
  destruct F as (Hd' & Hq' & Hh' & Hperm).
  rewrite (replay_sorted _ Hd' Hq' Hh'), (stable_sort_unique _ _ HS Hperm).
  destruct (finalize_sim stl T cp HI) as (root' & Ef' & Ha & _). rewrite Ef' in Ef. injection Ef as <-. cbn [finalized st_root] in *.
  unfold spec_run, run. change (@sstate0 dval) with (dstate sstate0). rewrite HR. unfold abs_doc. cbn [doc_root]. rewrite Ha. reflexivity.
Qed.

(* C03, general clause, for every accepted document the specification decides *)
Theorem reparse_decided s d o :
  parse_document s = POk d -> (forall stmts, toml_text s stmts -> verdict stmts <> Undecided) -> print_doc s d = Some o ->
  exists d', parse_document o = POk d' /\ abs_doc d' = abs_doc d.
Proof.
  intros Hp Hn Ho. unfold print_doc in Ho.
  destruct (tbl_despan s (doc_root d)) as [r|] eqn:Er; [|discriminate]. destruct (raw_despan s (doc_trailing d)) as [t|] eqn:Et; [|discriminate].
  injection Ho as <-. destruct (parse_WF s d r t Hp Er Et) as [Hs Htr].
  apply (WF_print_parse_replay r t (abs_doc d) Hs Htr). destruct (PrintBackDespan.tree_despan_t s) as (_ & _ & Ht). rewrite (Ht _ _ Er), replay_stmts_t.
  apply (decided_replay s d Hp Hn).
Qed.
