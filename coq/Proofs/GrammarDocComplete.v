(* Proofs/GrammarDocComplete.v — C01/C02 layers L2 + L3 for whole documents, completeness: a
   text with a derivation toml_tok whose statements are well-defined, within the limits and
   accepted by the definition rules (code_run, = spec_run outside class U1) is parsed, and the
   document tree carries the data the statements denote. *)
From TV Require Import Base.Prelude Base.Utf8 Base.Winnow Gen.Consts Spec.Abnf Spec.Lex Spec.Defs Spec.Syntax.
From TV Require Import Model.Trivia Model.Strings Model.Datetime Model.Numbers Model.Tree Model.Parse Model.Document.
From TV Require Import Proofs.ConstsOk Proofs.NoPanicBase Proofs.NoPanicLex Proofs.NoPanicValue.
From TV Require Import Proofs.DefsEquivBase Proofs.DefsEquivSpec Proofs.DefsEquivKv Proofs.DefsEquivSim Proofs.DefsEquivMain.
From TV Require Import Proofs.LexEquivBase Proofs.LexEquivTrivia Proofs.LexEquivKey Proofs.GrammarBase Proofs.GrammarParam
                       Proofs.GrammarValueBase Proofs.GrammarValueSound Proofs.GrammarValueComplete
                       Proofs.GrammarDocBase Proofs.GrammarDocLine Proofs.GrammarDoc.
Require Import Lia ZifyBool ZifyN ZifyNat.

(* ---- first bytes of items ------------------------------------------------------------------------- *)
Lemma khead_facts b : khead b ->
  wschar b = false /\ byte_eqb b COMMENT_START_SYMBOL = false /\ byte_eqb b STD_TABLE_OPEN = false
  /\ byte_eqb b LF = false /\ byte_eqb b CR = false.
Proof.
  intros [-> | [-> | H]]; [repeat split; reflexivity|repeat split; reflexivity|].
  unfold COMMENT_START_SYMBOL, STD_TABLE_OPEN, LF, CR. revert H. cls. lia.
Qed.

Lemma keyval_tok_khead t p a : keyval_tok t p a -> exists b t', t = b :: t' /\ khead b.
Proof.
  intros (kt & w1 & w2 & v & -> & Hkt & _). destruct (key_khead kt p Hkt) as (b & t' & -> & Hb).
  exists b, (t' ++ w1 ++ [x3d] ++ w2 ++ v). split; [reflexivity|exact Hb].
Qed.

Lemma table_tok_head arr t p : table_tok arr t p -> exists t', t = x5b :: t'.
Proof. intro H. apply table_tok_eq in H as (w1 & k & w2 & -> & _). destruct arr; eexists; reflexivity. Qed.

Lemma item_cases e l : item_tok e l ->
  (e = [] /\ l = []) \/ exists b tl, e = b :: tl /\ wschar b = false.
Proof.
  intros [|c Hc|t p a w c Ht _ _|t p w c Ht _ _|t p w c Ht _ _].
  - left. auto.
  - right. destruct (comment_head c Hc) as (u & ->). exists x23, u. auto.
  - right. destruct (keyval_tok_khead t p a Ht) as (b & t' & -> & Hb). exists b, (t' ++ w ++ c).
    split; [reflexivity|apply (khead_facts b Hb)].
  - right. destruct (table_tok_head false t p Ht) as (t' & ->). exists x5b, (t' ++ w ++ c). auto.
  - right. destruct (table_tok_head true t p Ht) as (t' & ->). exists x5b, (t' ++ w ++ c). auto.
Qed.

Lemma ws_prefix_unique : forall w1 x w2 y,
  ws_tok w1 -> ws_tok w2 -> stops wschar x -> stops wschar y -> w1 ++ x = w2 ++ y -> w1 = w2 /\ x = y.
Proof.
  unfold ws_tok, all. induction w1 as [|a w1 IH]; intros x w2 y H1 H2 Hx Hy E.
  - destruct w2 as [|b w2]; [auto|]. cbn [app] in E. subst x. cbn [forallb] in H2. apply andb_true_iff in H2 as [Hb _].
    cbn [stops] in Hx. congruence.
  - destruct w2 as [|b w2].
    + cbn [app] in E. subst y. cbn [forallb] in H1. apply andb_true_iff in H1 as [Ha _]. cbn [app stops] in Hy. congruence.
    + cbn [app] in E. injection E as -> E. cbn [forallb] in H1, H2.
      apply andb_true_iff in H1 as [_ H1]. apply andb_true_iff in H2 as [_ H2].
      destruct (IH x w2 y H1 H2 Hx Hy E) as [-> ->]. auto.
Qed.

Lemma ws_split s : exists w s', s = w ++ s' /\ ws_tok w /\ stops wschar s'.
Proof. destruct (span_while_split wschar s) as (a & r & E & Ha & Hr & _). exists a, r. auto. Qed.

(* ---- one line ------------------------------------------------------------------------------------- *)
Lemma fold_one (S : sstate dval) m X : spec_fold false S [m] = ROk X -> spec_step false S m = ROk X.
Proof. rewrite spec_fold_cons. destruct (spec_step false S m) as [S1| |]; try discriminate. exact (fun H => H). Qed.

Lemma keyval_complete st S i t p a w c le r X :
  keyval_tok t p a -> ws_tok w -> opt_comment c -> rest i = (t ++ w ++ c) ++ le ++ r -> lend le r ->
  depth i = 0 -> Inv st S -> stmt_ok (SKeyVal p a) = true -> stmt_within (SKeyVal p a) = true ->
  spec_fold false (dstate S) [stmt_den (SKeyVal p a)] = ROk X ->
  exists st1 S1, keyval st i = Ok st1 (adv ((t ++ w ++ c) ++ le) i) /\ Inv st1 S1 /\ dstate S1 = X.
Proof.
  intros Ht Hw Hc H Hl Hd HI Hok Hwi Hf. cbn [stmt_ok stmt_within] in Hok, Hwi.
  apply andb_true_iff in Hwi as [Hp Hwi]. apply Nat.ltb_lt in Hp. rewrite <- Hd in Hwi.
  destruct (parse_keyval_complete i t p a w c le r Ht Hw Hc H Hl Hp Hok Hwi) as ([path [k it]] & Ep & [Hpp (v & Hit & Hv)]).
  cbn [fst snd] in Hpp, Hit, Hv. subst it. destruct Hv as (Ha & _).
  apply fold_one in Hf. rewrite <- (kv_stmt_den path k v p a Hpp Ha) in Hf.
  apply step_from_data in Hf as (S1 & Es & EX).
  destruct (kv_step_complete st S path k v S1 HI Es) as (st1 & Est & HI1).
  exists st1, S1. split; [|auto]. unfold keyval.
  apply (try_map_ok _ _ _ (path, (k, IValue v)) st1 _ Ep). cbv beta iota. rewrite Est. reflexivity.
Qed.

Lemma header_complete arr st S i t p w c le r X :
  table_tok arr t p -> ws_tok w -> opt_comment c -> rest i = (t ++ w ++ c) ++ le ++ r -> lend le r ->
  Inv st S -> length p < LIMIT ->
  spec_fold false (dstate S) [stmt_den (if arr then SArrHeader p else SHeader p)] = ROk X ->
  exists st1 S1, header arr st i = Ok st1 (adv ((t ++ w ++ c) ++ le) i) /\ Inv st1 S1 /\ dstate S1 = X.
Proof.
  intros Ht Hw Hc H Hl HI Hp Hf.
  destruct (header_text_complete arr i t p w c le r Ht Hw Hc H Hl Hp) as (kp & sp & tr & Eh & Hkp).
  assert (Hne : kp <> []).
  { intros ->. apply table_tok_eq in Ht as (w1 & k & w2 & _ & _ & Hk & _). apply (key_tok_nonempty _ _ Hk). rewrite <- Hkp. reflexivity. }
  destruct (pop_key_total kp Hne) as (pre & k & Ep). pose proof (pop_key_some _ _ _ Ep) as Ekp. subst kp.
  unfold keys in Hkp. rewrite map_app in Hkp. cbn [map] in Hkp. fold (keys pre) in Hkp.
  apply fold_one in Hf. rewrite <- (hdr_stmt_den arr p), <- Hkp in Hf.
  apply step_from_data in Hf as (S1 & Es & EX).
  destruct (hdr_step_complete arr st S pre k tr sp S1 HI Es) as (st1 & Est & HI1).
  exists st1, S1. split; [|auto]. rewrite header_unfold.
  apply (try_map_ok _ _ _ ((pre ++ [k], sp), tr) st1 _ Eh). cbv beta iota. rewrite Est. reflexivity.
Qed.

Lemma line_p_complete st S i e l le r X :
  item_tok e l -> rest i = e ++ le ++ r -> lend le r -> e ++ le <> [] ->
  depth i = 0 -> Inv st S -> forallb stmt_ok l = true -> forallb stmt_within l = true ->
  spec_fold false (dstate S) (map stmt_den l) = ROk X ->
  exists b tl st1 S1, rest i = b :: tl /\ line_p st b i = Ok st1 (adv (e ++ le) i) /\ Inv st1 S1 /\ dstate S1 = X.
Proof.
  intros He H Hl Hne Hd HI Hok Hwi Hf.
  destruct He as [|c Hc|t p a w c Ht Hw Hc|t p w c Ht Hw Hc|t p w c Ht Hw Hc].
  - (* a blank line *)
    cbn [app] in *. destruct Hl as [Hn | [-> _]]; [|congruence].
    destruct (newline_tok_head le Hn) as (b & tl & E & Hb). exists b, (tl ++ r), (on_ws st (pos i, pos (adv le i))), S.
    split; [rewrite H, E; reflexivity|]. split; [|split; [apply Inv_on_ws, HI|]].
    + assert (Elp : line_p st b = parse_newline st) by (destruct Hb as [-> | ->]; reflexivity). rewrite Elp.
      unfold parse_newline. rewrite (pmap_ok _ _ _ _ _ (span_ok _ _ _ _ (newline_complete i le r H Hn))). reflexivity.
    + cbn [map] in Hf. injection Hf as <-. reflexivity.
  - (* a comment line *)
    destruct (comment_head c Hc) as (u & Ec). exists x23, (u ++ le ++ r), (on_ws st (pos i, pos (adv (c ++ le) i))), S.
    split; [rewrite H, Ec; reflexivity|]. split; [|split; [apply Inv_on_ws, HI|]].
    + change (line_p st x23) with (cut_err (parse_comment st)). apply cut_err_ok. unfold parse_comment.
      assert (Ecl : (comment ;;; context line_ending) i = Ok tt (adv (c ++ le) i)).
      { rewrite (bind_ok _ _ _ _ _ (comment_complete i c _ H Hc (lend_stops_non_eol le r Hl))).
        rewrite (context_ok _ _ _ _ (line_ending_complete _ le r (rest_adv c _ i H) Hl)). rewrite adv_adv. reflexivity. }
      rewrite (pmap_ok _ _ _ _ _ (span_ok _ _ _ _ Ecl)). reflexivity.
    + cbn [map] in Hf. injection Hf as <-. reflexivity.
  - (* key = value *)
    destruct (keyval_tok_khead t p a Ht) as (b & t' & Et & Hb). destruct (khead_facts b Hb) as (_ & B1 & B2 & B3 & B4).
    cbn [forallb] in Hok, Hwi. rewrite andb_true_r in Hok, Hwi.
    assert (H' : rest i = (t ++ w ++ c) ++ le ++ r) by exact H.
    destruct (keyval_complete st S i t p a w c le r X Ht Hw Hc H' Hl Hd HI Hok Hwi Hf) as (st1 & S1 & Ek & HI1 & EX).
    exists b, (t' ++ (w ++ c) ++ le ++ r), st1, S1. split; [rewrite H, Et, <- !app_assoc; reflexivity|]. split; [|auto].
    unfold line_p. rewrite B1, B2, B3, B4. cbn [orb]. apply cut_err_ok, Ek.
  - (* [table] *)
    destruct (table_tok_head false t p Ht) as (t' & Et).
    cbn [forallb stmt_within] in Hwi. rewrite andb_true_r in Hwi. apply Nat.ltb_lt in Hwi.
    destruct (header_complete false st S i t p w c le r X Ht Hw Hc H Hl HI Hwi Hf) as (st1 & S1 & Eh & HI1 & EX).
    exists x5b, (t' ++ (w ++ c) ++ le ++ r), st1, S1. split; [rewrite H, Et, <- !app_assoc; reflexivity|]. split; [|auto].
    change (line_p st x5b) with (cut_err (table st)). apply cut_err_ok.
    assert (Hr : rest i = t ++ ((w ++ c) ++ le ++ r)) by (rewrite H, <- !app_assoc; reflexivity).
    rewrite (table_dispatch false st i t p _ Ht Hr). apply context_ok, Eh.
  - (* [[table]] *)
    destruct (table_tok_head true t p Ht) as (t' & Et).
    cbn [forallb stmt_within] in Hwi. rewrite andb_true_r in Hwi. apply Nat.ltb_lt in Hwi.
    destruct (header_complete true st S i t p w c le r X Ht Hw Hc H Hl HI Hwi Hf) as (st1 & S1 & Eh & HI1 & EX).
    exists x5b, (t' ++ (w ++ c) ++ le ++ r), st1, S1. split; [rewrite H, Et, <- !app_assoc; reflexivity|]. split; [|auto].
    change (line_p st x5b) with (cut_err (table st)). apply cut_err_ok.
    assert (Hr : rest i = t ++ ((w ++ c) ++ le ++ r)) by (rewrite H, <- !app_assoc; reflexivity).
    rewrite (table_dispatch true st i t p _ Ht Hr). apply context_ok, Eh.
Qed.

Lemma doc_line_complete st S i e l le w r X :
  item_tok e l -> rest i = e ++ le ++ w ++ r -> lend le (w ++ r) -> ws_tok w -> stops wschar r -> e ++ le <> [] ->
  depth i = 0 -> Inv st S -> forallb stmt_ok l = true -> forallb stmt_within l = true ->
  spec_fold false (dstate S) (map stmt_den l) = ROk X ->
  exists st1 S1, doc_line st i = Ok st1 (adv (e ++ le ++ w) i) /\ Inv st1 S1 /\ dstate S1 = X.
Proof.
  intros He H Hl Hw Hr Hne Hd HI Hok Hwi Hf.
  destruct (line_p_complete st S i e l le (w ++ r) X He H Hl Hne Hd HI Hok Hwi Hf) as (b & tl & st0 & S1 & Hb & El & HI0 & EX).
  assert (R1 : rest (adv (e ++ le) i) = w ++ r) by (apply rest_adv; rewrite H, <- app_assoc; reflexivity).
  destruct (parse_ws_complete st0 _ w r R1 Hw Hr) as (sp & Ew).
  exists (on_ws st0 sp), S1. split; [|split; [apply Inv_on_ws, HI0|exact EX]].
  rewrite doc_line_unfold. rewrite (bind_ok _ _ _ _ _ (peek_ok _ _ _ _ (any_ok i b tl Hb))).
  rewrite (bind_ok _ _ _ _ _ El). rewrite Ew, adv_adv, <- app_assoc. reflexivity.
Qed.

(* ---- the loop --------------------------------------------------------------------------------------- *)
Lemma doc_loop_stop fuel st i : rest i = [] -> 0 < fuel -> doc_loop fuel st i = Ok st i.
Proof.
  intros R Hf. destruct fuel as [|f]; [lia|]. cbn [doc_loop].
  destruct (doc_line_empty st i R) as (e & j & F). rewrite F. reflexivity.
Qed.

Lemma fold_split (S : sstate dval) l1 l2 X :
  spec_fold false S (map stmt_den (l1 ++ l2)) = ROk X ->
  exists X1, spec_fold false S (map stmt_den l1) = ROk X1 /\ spec_fold false X1 (map stmt_den l2) = ROk X.
Proof.
  rewrite map_app, spec_fold_app. destruct (spec_fold false S (map stmt_den l1)) as [X1| |]; try discriminate. eauto.
Qed.

Lemma doc_loop_complete s l : toml_tok s l -> forall fuel w s' i st S X,
  s = w ++ s' -> ws_tok w -> stops wschar s' -> rest i = s' -> depth i = 0 -> length s' < fuel -> Inv st S ->
  forallb stmt_ok l = true -> forallb stmt_within l = true ->
  spec_fold false (dstate S) (map stmt_den l) = ROk X ->
  exists st' S', doc_loop fuel st i = Ok st' (adv s' i) /\ Inv st' S' /\ dstate S' = X.
Proof.
  induction 1 as [e l He|e l nl t l' He Hn Ht IH]; intros fuel w s' i st S X Es Hw Hs' Ri Hd Hfuel HI Hok Hwi Hf.
  - apply expression_item in He as (w1 & e' & -> & Hw1 & Hi).
    assert (Hse : stops wschar e').
    { destruct (item_cases e' l Hi) as [[-> _] | (b & tl & -> & Hb)]; [exact I|exact Hb]. }
    destruct (ws_prefix_unique w1 e' w s' Hw1 Hw Hse Hs' Es) as [-> ->].
    destruct (item_cases s' l Hi) as [[-> ->] | (b & tl & Eb & Hb)].
    + exists st, S. rewrite adv_nil. split; [apply doc_loop_stop; [exact Ri|lia]|]. split; [exact HI|].
      cbn [map] in Hf. injection Hf as <-. reflexivity.
    + assert (H0 : rest i = s' ++ [] ++ [] ++ []) by (rewrite Ri, !app_nil_r; reflexivity).
      assert (Hne : s' ++ [] <> []) by (rewrite app_nil_r, Eb; discriminate).
      destruct (doc_line_complete st S i s' l [] [] [] X Hi H0 (or_intror (conj eq_refl eq_refl)) eq_refl I Hne Hd HI Hok Hwi Hf)
        as (st1 & S1 & El & HI1 & EX).
      rewrite !app_nil_r in El. exists st1, S1. split; [|auto].
      destruct fuel as [|f]; [lia|]. cbn [doc_loop]. rewrite El.
      assert (R1 : rest (adv s' i) = []) by (apply rest_adv; rewrite Ri, app_nil_r; reflexivity).
      assert (L0 : 0 < length s') by (rewrite Eb; cbn [length]; lia).
      destruct (Nat.eqb (length (rest (adv s' i))) (length (rest i))) eqn:Q; [apply Nat.eqb_eq in Q; rewrite R1, Ri in Q; cbn [length] in Q; lia|].
      apply doc_loop_stop; [exact R1|lia].
  - apply expression_item in He as (w1 & e' & -> & Hw1 & Hi).
    assert (Hse : stops wschar (e' ++ nl ++ t)).
    { destruct (item_cases e' l Hi) as [[-> _] | (b & tl & -> & Hb)]; [cbn [app]; apply newline_stops_wschar, Hn|exact Hb]. }
    rewrite <- app_assoc in Es.
    destruct (ws_prefix_unique w1 (e' ++ nl ++ t) w s' Hw1 Hw Hse Hs' Es) as [-> <-].
    destruct (ws_split t) as (w' & t' & Et & Hw' & Hst').
    rewrite forallb_app in Hok, Hwi. apply andb_true_iff in Hok as [Hok Hok']. apply andb_true_iff in Hwi as [Hwi Hwi'].
    apply fold_split in Hf as (X1 & Hf1 & Hf2).
    assert (H0 : rest i = e' ++ nl ++ w' ++ t') by (rewrite Ri, Et; reflexivity).
    assert (Hne : e' ++ nl <> []).
    { destruct (newline_tok_head nl Hn) as (b & tl & -> & _). destruct e'; discriminate. }
    destruct (doc_line_complete st S i e' l nl w' t' X1 Hi H0 (or_introl Hn) Hw' Hst' Hne Hd HI Hok Hwi Hf1)
      as (st1 & S1 & El & HI1 & EX).
    set (i1 := adv (e' ++ nl ++ w') i) in *.
    assert (R1 : rest i1 = t') by (apply rest_adv; rewrite H0, <- !app_assoc; reflexivity).
    assert (Ll : length (rest i1) < length (rest i)).
    { rewrite R1, H0, !app_length. destruct (newline_tok_head nl Hn) as (b & tl & -> & _). cbn [length]. lia. }
    destruct fuel as [|f]; [lia|].
    rewrite <- EX in Hf2.
    destruct (IH f w' t' i1 st1 S1 X Et Hw' Hst' R1 Hd ltac:(rewrite <- R1; rewrite Ri in Ll; lia) HI1 Hok' Hwi' Hf2)
      as (st' & S' & Eloop & HI' & EX').
    exists st', S'. split; [|auto]. cbn [doc_loop]. rewrite El.
    destruct (Nat.eqb (length (rest i1)) (length (rest i))) eqn:Q; [apply Nat.eqb_eq in Q; lia|].
    rewrite Eloop. unfold i1. rewrite adv_adv. f_equal. f_equal. rewrite Et, <- !app_assoc. reflexivity.
Qed.

(* ---- document, parse_document ----------------------------------------------------------------------- *)
Theorem parse_document_complete s stmts T :
  toml_text s stmts -> forallb stmt_ok stmts = true -> within_limits stmts = true ->
  code_run (map stmt_den stmts) = Valid T ->
  exists d, parse_document s = POk d /\ abs_doc d = T.
Proof.
  unfold toml_text. intros Ht Hok Hwi Hrun.
  unfold code_run, run in Hrun. destruct (spec_fold false sstate0 (map stmt_den stmts)) as [[T0 cp]| |] eqn:Hf; try discriminate.
  injection Hrun as <-.
  (* the byte-order mark *)
  assert (Eb : exists o bm, opt (lit bom) (new_input s) = Ok o (adv bm (new_input s)) /\ s = bm ++ strip_bom s).
  { destruct (strip_bom_cases s) as [(r & Er & ->) | [Hn ->]].
    - exists (Some bom), bom. split; [|exact Er]. apply opt_ok. apply (lit_ok bom (new_input s) r). exact Er.
    - exists None, []. split; [|reflexivity]. rewrite adv_nil. apply opt_fails, lit_fails. exact Hn. }
  destruct Eb as (o & bm & Eb & Es).
  destruct (ws_split (strip_bom s)) as (w & s' & Esb & Hw & Hs').
  set (i1 := adv bm (new_input s)).
  assert (R1 : rest i1 = w ++ s') by (apply rest_adv; cbn [new_input rest]; rewrite <- Esb; exact Es).
  destruct (parse_ws_complete state_new i1 w s' R1 Hw Hs') as (sp & Ew).
  set (i2 := adv w i1). assert (R2 : rest i2 = s') by (apply rest_adv; exact R1).
  change (@sstate0 dval) with (dstate sstate0) in Hf.
  destruct (doc_loop_complete _ _ Ht (S (length (rest i2))) w s' i2 (on_ws state_new sp) sstate0 (T0, cp) Esb Hw Hs' R2 eq_refl
              ltac:(rewrite R2; lia) (Inv_on_ws _ _ sp Inv_init) Hok Hwi Hf) as (st' & [T1 cp1] & El & HI & EX).
  assert (R3 : rest (adv s' i2) = []) by (apply rest_adv; rewrite R2, app_nil_r; reflexivity).
  assert (Ed : document (new_input s) = Ok st' (adv s' i2)).
  { rewrite document_unfold. rewrite (bind_ok _ _ _ _ _ Eb). fold i1. rewrite (bind_ok _ _ _ _ _ Ew). fold i2.
    rewrite (bind_ok (fun j => doc_loop (S (length (rest j))) (on_ws state_new sp) j) _ i2 _ _ El).
    rewrite (bind_ok _ _ _ _ _ (eof_ok _ R3)). reflexivity. }
  destruct (finalize_sim st' T1 cp1 HI) as (root' & Ef & Ha & _).
  exists (mkDoc root' (match st_trailing (finalized st' root') with Some sp0 => raw_with_span sp0 | None => REmpty end)).
  split.
  - unfold parse_document, parse_all. rewrite (bind_ok _ _ _ _ _ Ed). rewrite (bind_ok _ _ _ _ _ (eof_ok _ R3)).
    unfold ret. rewrite Ef. reflexivity.
  - unfold abs_doc. cbn [doc_root]. rewrite Ha. unfold dstate, state_map in EX. cbn [fst snd] in EX. injection EX as -> _. reflexivity.
Qed.
