(* Proofs/DepthBase.v — lemmas behind Props/C05.v, part 1.
   (a) the depth measures: `tbl_depth` (the measure printed by the `depth` observation command:
       root table = 1, child table +1, array-of-tables element +2, a value contributes
       `value_depth`), folded forms of `value_depth` / `tbl_depth`;
   (b) the limit constant;
   (c) "depth preservation": every parser of the model returns, on success, an input carrying the
       RecursionCheck counter it was started with (`dp`).  Combinator lemmas + a small tactic. *)
From Coq Require Import List Bool Arith NArith ZArith Lia.
From Coq.Strings Require Import Byte.
From TV Require Import Base.Prelude Base.Utf8 Base.Winnow Gen.Consts.
From TV Require Import Model.Tree Model.Parse.
Import ListNotations.

(* ---- (a) depth measures ---------------------------------------------------------------- *)

(* verbatim copy of Extract/Commands.v: tbl_depth, since Props must not depend on the Extract directory *)
Fixpoint tbl_depth (t : tbl) : nat :=
  match t with
  | Tbl items _ _ _ _ _ =>
    S (fold_right (fun kv acc =>
                     match kv with
                     | (_, IValue v) => Nat.max (value_depth v) acc
                     | (_, ITable s) => Nat.max (tbl_depth s) acc
                     | (_, IAot ts _) => Nat.max (S (fold_right (fun e a => Nat.max (tbl_depth e) a) 0 ts)) acc
                     | (_, INone) => acc
                     end) 0 items)
  end.

(* maximum of a measure over a list *)
Definition lmax {A} (f : A -> nat) (l : list A) : nat := fold_right (fun x acc => Nat.max (f x) acc) 0 l.

Lemma lmax_nil {A} (f : A -> nat) : lmax f [] = 0.
Proof. reflexivity. Qed.
Lemma lmax_cons {A} (f : A -> nat) x l : lmax f (x :: l) = Nat.max (f x) (lmax f l).
Proof. reflexivity. Qed.
Lemma lmax_app {A} (f : A -> nat) l1 l2 : lmax f (l1 ++ l2) = Nat.max (lmax f l1) (lmax f l2).
Proof.
  induction l1 as [|x l1 IH]; [reflexivity|].
  rewrite <- app_comm_cons, !lmax_cons, IH. lia.
Qed.
Lemma lmax_rev {A} (f : A -> nat) l : lmax f (rev l) = lmax f l.
Proof.
  induction l as [|x l IH]; [reflexivity|].
  cbn [rev]. rewrite lmax_app, IH, !lmax_cons, lmax_nil. lia.
Qed.
Lemma lmax_in {A} (f : A -> nat) l x : In x l -> f x <= lmax f l.
Proof.
  induction l as [|y l IH]; intros H; [destruct H|].
  rewrite lmax_cons. destruct H as [->|H]; [lia|]. specialize (IH H). lia.
Qed.
Lemma lmax_le {A} (f : A -> nat) l n : (forall x, In x l -> f x <= n) -> lmax f l <= n.
Proof.
  induction l as [|y l IH]; intros H; [rewrite lmax_nil; lia|].
  rewrite lmax_cons. apply Nat.max_lub; [apply H; left; reflexivity|].
  apply IH. intros x Hx. apply H. right. exact Hx.
Qed.

(* depth contributed by the items of an inline table / array *)
Definition kvs_depth (m : kvs) : nat := lmax (fun kv => item_depth (snd kv)) m.
Definition items_depth (l : list item) : nat := lmax item_depth l.

Lemma value_depth_inline m p im dt d sp : value_depth (VInline m p im dt d sp) = S (kvs_depth m).
Proof.
  cbn [value_depth]. f_equal. unfold kvs_depth, lmax.
  induction m as [|[k it] m IH]; [reflexivity|].
  cbn [fold_right snd]. rewrite IH. destruct it; reflexivity.
Qed.

Lemma value_depth_array l t c d sp : value_depth (VArray l t c d sp) = S (items_depth l).
Proof.
  cbn [value_depth]. f_equal. unfold items_depth, lmax.
  induction l as [|it l IH]; [reflexivity|].
  cbn [fold_right]. rewrite IH. destruct it; reflexivity.
Qed.

Lemma value_depth_scalar s r d : value_depth (VScalar s r d) = 0.
Proof. reflexivity. Qed.

Lemma value_depth_decorate v p s : value_depth (value_decorate v p s) = value_depth v.
Proof. destruct v; reflexivity. Qed.

Lemma value_depth_apply_raw v sp : value_depth (apply_raw v sp) = value_depth v.
Proof. unfold apply_raw. rewrite value_depth_decorate. destruct v; reflexivity. Qed.

(* depth contributed by one item of a table *)
Definition titem_depth (it : item) : nat :=
  match it with
  | INone => 0
  | IValue v => value_depth v
  | ITable s => tbl_depth s
  | IAot ts _ => S (lmax tbl_depth ts)
  end.
Definition titems_depth (m : kvs) : nat := lmax (fun kv => titem_depth (snd kv)) m.

Lemma tbl_depth_eq items d im dt p s : tbl_depth (Tbl items d im dt p s) = S (titems_depth items).
Proof.
  cbn [tbl_depth]. f_equal. unfold titems_depth, lmax.
  induction items as [|[k it] m IH]; [reflexivity|].
  cbn [fold_right snd]. rewrite IH. destruct it; reflexivity.
Qed.

Lemma tbl_depth_items t : tbl_depth t = S (titems_depth (t_items t)).
Proof. destruct t. apply tbl_depth_eq. Qed.

(* ---- (b) the limit ---------------------------------------------------------------------- *)
Lemma LIMIT_ge2 : 2 <= LIMIT.
Proof. unfold LIMIT. lia. Qed.

Lemma check_depth_false n : check_depth n = false <-> n < LIMIT.
Proof. unfold check_depth. apply Nat.leb_gt. Qed.
Lemma check_depth_true n : check_depth n = true <-> LIMIT <= n.
Proof. unfold check_depth. apply Nat.leb_le. Qed.

(* RecursionCheck::enter refuses level LIMIT; inside, the counter stays below LIMIT *)
Lemma check_recursion_refuses {A} (p : parser A) i :
  LIMIT <= S (depth i) -> exists i', check_recursion p i = Cut (err_of RecursionLimit) i'.
Proof.
  intro H. unfold check_recursion. cbn [depth set_depth].
  destruct (Nat.leb LIMIT (S (depth i))) eqn:E.
  - eexists; reflexivity.
  - apply Nat.leb_gt in E. lia.
Qed.

Lemma check_recursion_inside {A} (p : parser A) i a i' :
  check_recursion p i = Ok a i' -> S (depth i) < LIMIT.
Proof.
  intro H. unfold check_recursion in H. cbn [depth set_depth] in H.
  destruct (Nat.leb LIMIT (S (depth i))) eqn:E; [discriminate|]. apply Nat.leb_gt in E. exact E.
Qed.

(* ---- (c) depth preservation ------------------------------------------------------------- *)
Definition dp {A} (p : parser A) : Prop := forall i a i', p i = Ok a i' -> depth i' = depth i.

Lemma depth_advance n i : depth (advance n i) = depth i.
Proof. reflexivity. Qed.

Lemma dp_ret {A} (a : A) : dp (ret a).
Proof. intros i x i' H. inversion H; reflexivity. Qed.
Lemma dp_empty : dp empty.
Proof. apply dp_ret. Qed.
Lemma dp_fail {A} : dp (@fail A).
Proof. intros i x i' H. discriminate. Qed.
Lemma dp_panic {A} s : dp (fun _ => @Panic A s).
Proof. intros i x i' H. discriminate. Qed.
Lemma dp_cutfun {A} e j : dp (fun _ => @Cut A e j).
Proof. intros i x i' H. discriminate. Qed.
Lemma dp_cut_custom {A} c : dp (@cut_custom A c).
Proof. intros i x i' H. discriminate. Qed.
Lemma dp_eta {A} (p : parser A) : dp p -> dp (fun i => p i).
Proof. intros H i a i' E. exact (H i a i' E). Qed.

Lemma dp_bind {A B} (p : parser A) (f : A -> parser B) :
  dp p -> (forall a, dp (f a)) -> dp (bind p f).
Proof.
  intros Hp Hf i b i' H. unfold bind in H.
  destruct (p i) as [a i1|e i1|e i1|s] eqn:E; try discriminate.
  rewrite (Hf a _ _ _ H). exact (Hp _ _ _ E).
Qed.

Lemma dp_pmap {A B} (f : A -> B) p : dp p -> dp (pmap f p).
Proof.
  intros Hp i b i' H. unfold pmap in H.
  destruct (p i) as [a i1|e i1|e i1|s] eqn:E; try discriminate.
  inversion H; subst. exact (Hp _ _ _ E).
Qed.
Lemma dp_pvalue {A B} (b : B) (p : parser A) : dp p -> dp (pvalue b p).
Proof. apply dp_pmap. Qed.
Lemma dp_pvoid {A} (p : parser A) : dp p -> dp (pvoid p).
Proof. apply dp_pmap. Qed.

Lemma dp_any : dp any.
Proof.
  intros i b i' H. unfold any in H. destruct (rest i); [discriminate|].
  inversion H; subst. reflexivity.
Qed.
Lemma dp_one_of f : dp (one_of f).
Proof.
  intros i b i' H. unfold one_of in H. destruct (rest i); [discriminate|].
  destruct (f b0); [|discriminate]. inversion H; subst. reflexivity.
Qed.
Lemma dp_none_of f : dp (none_of f).
Proof. apply dp_one_of. Qed.
Lemma dp_byte x : dp (byte_ x).
Proof. apply dp_one_of. Qed.
Lemma dp_lit l : dp (lit l).
Proof.
  intros i b i' H. unfold lit in H. destruct (strip_prefix l (rest i)); [|discriminate].
  inversion H; subst. reflexivity.
Qed.
Lemma dp_take_while_mn m n f : dp (take_while_mn m n f).
Proof.
  intros i b i' H. unfold take_while_mn in H.
  destruct (Nat.ltb _ m); [discriminate|]. inversion H; subst. reflexivity.
Qed.
Lemma dp_take_while0 f : dp (take_while0 f).
Proof. apply dp_take_while_mn. Qed.
Lemma dp_take_while1 f : dp (take_while1 f).
Proof. apply dp_take_while_mn. Qed.
Lemma dp_take_n n : dp (take_n n).
Proof.
  intros i b i' H. unfold take_n in H.
  destruct (Nat.ltb _ n); [discriminate|]. inversion H; subst. reflexivity.
Qed.
Lemma dp_rest : dp rest_.
Proof. intros i b i' H. unfold rest_ in H. inversion H; subst. reflexivity. Qed.
Lemma dp_eof : dp eof.
Proof.
  intros i b i' H. unfold eof in H. destruct (rest i); [|discriminate]. inversion H; subst. reflexivity.
Qed.

(* peek restores the input whatever the inner parser does *)
Lemma dp_peek {A} (p : parser A) : dp (peek p).
Proof.
  intros i a i' H. unfold peek in H. destruct (p i); try discriminate. inversion H; subst. reflexivity.
Qed.

Lemma dp_opt {A} (p : parser A) : dp p -> dp (opt p).
Proof.
  intros Hp i a i' H. unfold opt in H.
  destruct (p i) as [x i1|e i1|e i1|s] eqn:E; try discriminate; inversion H; subst; [|reflexivity].
  exact (Hp _ _ _ E).
Qed.

Lemma dp_cut_err {A} (p : parser A) : dp p -> dp (cut_err p).
Proof.
  intros Hp i a i' H. unfold cut_err in H.
  destruct (p i) as [x i1|e i1|e i1|s] eqn:E; try discriminate. inversion H; subst. exact (Hp _ _ _ E).
Qed.

Lemma dp_alt {A} (p q : parser A) : dp p -> dp q -> dp (alt p q).
Proof.
  intros Hp Hq i a i' H. unfold alt in H.
  destruct (p i) as [x i1|e i1|e i1|s] eqn:E; try discriminate.
  - inversion H; subst. exact (Hp _ _ _ E).
  - exact (Hq _ _ _ H).
Qed.

Lemma dp_context {A} (p : parser A) : dp p -> dp (context p).
Proof.
  intros Hp i a i' H. unfold context in H.
  destruct (p i) as [x i1|e i1|e i1|s] eqn:E; try discriminate. inversion H; subst. exact (Hp _ _ _ E).
Qed.

Lemma dp_verify {A} (f : A -> bool) p : dp p -> dp (verify f p).
Proof.
  intros Hp i a i' H. unfold verify in H.
  destruct (p i) as [x i1|e i1|e i1|s] eqn:E; try discriminate.
  destruct (f x); [|discriminate]. inversion H; subst. exact (Hp _ _ _ E).
Qed.

Lemma dp_verify_map {A B} (f : A -> option B) p : dp p -> dp (verify_map f p).
Proof.
  intros Hp i a i' H. unfold verify_map in H.
  destruct (p i) as [x i1|e i1|e i1|s] eqn:E; try discriminate.
  destruct (f x); [|discriminate]. inversion H; subst. exact (Hp _ _ _ E).
Qed.

Lemma dp_try_map {A B} (f : A -> tm B) p : dp p -> dp (try_map f p).
Proof.
  intros Hp i a i' H. unfold try_map in H.
  destruct (p i) as [x i1|e i1|e i1|s] eqn:E; try discriminate.
  destruct (f x); try discriminate. inversion H; subst. exact (Hp _ _ _ E).
Qed.

Lemma dp_span {A} (p : parser A) : dp p -> dp (span_ p).
Proof.
  intros Hp i a i' H. unfold span_ in H.
  destruct (p i) as [x i1|e i1|e i1|s] eqn:E; try discriminate. inversion H; subst. exact (Hp _ _ _ E).
Qed.
Lemma dp_with_span {A} (p : parser A) : dp p -> dp (with_span p).
Proof.
  intros Hp i a i' H. unfold with_span in H.
  destruct (p i) as [x i1|e i1|e i1|s] eqn:E; try discriminate. inversion H; subst. exact (Hp _ _ _ E).
Qed.
Lemma dp_taken {A} (p : parser A) : dp p -> dp (taken p).
Proof.
  intros Hp i a i' H. unfold taken in H.
  destruct (p i) as [x i1|e i1|e i1|s] eqn:E; try discriminate. inversion H; subst. exact (Hp _ _ _ E).
Qed.
Lemma dp_and_then {A B} (p : parser A) (inner : A -> sub B) : dp p -> dp (and_then p inner).
Proof.
  intros Hp i a i' H. unfold and_then in H.
  destruct (p i) as [x i1|e i1|e i1|s] eqn:E; try discriminate.
  destruct (inner x); try discriminate. inversion H; subst. exact (Hp _ _ _ E).
Qed.
Lemma dp_unchecked_utf8 w p : dp p -> dp (unchecked_utf8 w p).
Proof.
  intros Hp i a i' H. unfold unchecked_utf8 in H.
  destruct (p i) as [x i1|e i1|e i1|s] eqn:E; try discriminate.
  destruct (utf8_valid_b x); [|discriminate]. inversion H; subst. exact (Hp _ _ _ E).
Qed.

Lemma dp_preceded {A B} (p : parser A) (q : parser B) : dp p -> dp q -> dp (preceded p q).
Proof. intros Hp Hq. unfold preceded. apply dp_bind; auto. Qed.
Lemma dp_terminated {A B} (p : parser A) (q : parser B) : dp p -> dp q -> dp (terminated p q).
Proof.
  intros Hp Hq. unfold terminated. apply dp_bind; [exact Hp|]. intro a.
  apply dp_bind; [exact Hq|]. intro. apply dp_ret.
Qed.
Lemma dp_delimited {A B C} (p : parser A) (q : parser B) (r : parser C) :
  dp p -> dp q -> dp r -> dp (delimited p q r).
Proof.
  intros Hp Hq Hr. unfold delimited. apply dp_bind; [exact Hp|]. intro.
  apply dp_bind; [exact Hq|]. intro. apply dp_bind; [exact Hr|]. intro. apply dp_ret.
Qed.
Lemma dp_pair {A B} (p : parser A) (q : parser B) : dp p -> dp q -> dp (pair_ p q).
Proof.
  intros Hp Hq. unfold pair_. apply dp_bind; [exact Hp|]. intro.
  apply dp_bind; [exact Hq|]. intro. apply dp_ret.
Qed.

Lemma dp_repeat0_f {A} (p : parser A) : dp p -> forall fuel acc, dp (repeat0_f fuel p acc).
Proof.
  intros Hp fuel. induction fuel as [|f IH]; intros acc i a i' H; cbn [repeat0_f] in H; [discriminate|].
  destruct (p i) as [x i1|e i1|e i1|s] eqn:E; try discriminate.
  - destruct (Nat.eqb _ _); [discriminate|]. rewrite (IH _ _ _ _ H). exact (Hp _ _ _ E).
  - inversion H; subst. reflexivity.
Qed.
Lemma dp_repeat0 {A} (p : parser A) : dp p -> dp (repeat0 p).
Proof. intros Hp i a i' H. unfold repeat0 in H. exact (dp_repeat0_f p Hp _ _ _ _ _ H). Qed.
Lemma dp_repeat1 {A} (p : parser A) : dp p -> dp (repeat1 p).
Proof.
  intros Hp i a i' H. unfold repeat1 in H.
  destruct (p i) as [x i1|e i1|e i1|s] eqn:E; try discriminate.
  rewrite (dp_repeat0_f p Hp _ _ _ _ _ H). exact (Hp _ _ _ E).
Qed.

Lemma dp_separated_loop {A Sp} (p : parser A) (sep : parser Sp) :
  dp p -> dp sep -> forall fuel acc, dp (separated_loop fuel p sep acc).
Proof.
  intros Hp Hs fuel. induction fuel as [|f IH]; intros acc i a i' H; cbn [separated_loop] in H; [discriminate|].
  destruct (sep i) as [x i1|e i1|e i1|s] eqn:E; try discriminate.
  - destruct (Nat.eqb _ _); [discriminate|].
    destruct (p i1) as [y i2|e i2|e i2|s] eqn:E2; try discriminate.
    + rewrite (IH _ _ _ _ H), (Hp _ _ _ E2). exact (Hs _ _ _ E).
    + inversion H; subst. reflexivity.
  - inversion H; subst. reflexivity.
Qed.
Lemma dp_separated0 {A Sp} (p : parser A) (sep : parser Sp) : dp p -> dp sep -> dp (separated0 p sep).
Proof.
  intros Hp Hs i a i' H. unfold separated0 in H.
  destruct (p i) as [x i1|e i1|e i1|s] eqn:E; try discriminate.
  - rewrite (dp_separated_loop p sep Hp Hs _ _ _ _ _ H). exact (Hp _ _ _ E).
  - inversion H; subst. reflexivity.
Qed.
Lemma dp_separated1 {A Sp} (p : parser A) (sep : parser Sp) : dp p -> dp sep -> dp (separated1 p sep).
Proof.
  intros Hp Hs i a i' H. unfold separated1 in H.
  destruct (p i) as [x i1|e i1|e i1|s] eqn:E; try discriminate.
  rewrite (dp_separated_loop p sep Hp Hs _ _ _ _ _ H). exact (Hp _ _ _ E).
Qed.

(* RecursionCheck: enter / exit are balanced *)
Lemma dp_check_recursion {A} (p : parser A) : dp p -> dp (check_recursion p).
Proof.
  intros Hp i a i' H. unfold check_recursion in H.
  destruct (Nat.leb LIMIT _); [discriminate|].
  destruct (p (set_depth (S (depth i)) i)) as [x i2|e i2|e i2|s] eqn:E; try discriminate.
  pose proof (Hp _ _ _ E) as Hd. cbn [set_depth depth] in Hd.
  destruct (depth i2) as [|d]; [discriminate|]. inversion H; subst. cbn [set_depth depth]. lia.
Qed.

Create HintDb dp.
#[export] Hint Resolve dp_ret dp_empty dp_fail dp_panic dp_cutfun dp_cut_custom dp_any dp_one_of dp_none_of
  dp_byte dp_lit dp_take_while_mn dp_take_while0 dp_take_while1 dp_take_n dp_rest dp_eof dp_peek : dp.

(* one structural step on a goal `dp <combinator application>` *)
Ltac dp_step :=
  cbv beta;
  lazymatch goal with
  | |- forall _, _ => intro
  | |- dp (bind _ _) => apply dp_bind
  | |- dp (pmap _ _) => apply dp_pmap
  | |- dp (pvalue _ _) => apply dp_pvalue
  | |- dp (pvoid _) => apply dp_pvoid
  | |- dp (peek _) => apply dp_peek
  | |- dp (opt _) => apply dp_opt
  | |- dp (cut_err _) => apply dp_cut_err
  | |- dp (alt _ _) => apply dp_alt
  | |- dp (context _) => apply dp_context
  | |- dp (verify _ _) => apply dp_verify
  | |- dp (verify_map _ _) => apply dp_verify_map
  | |- dp (try_map _ _) => apply dp_try_map
  | |- dp (span_ _) => apply dp_span
  | |- dp (with_span _) => apply dp_with_span
  | |- dp (taken _) => apply dp_taken
  | |- dp (and_then _ _) => apply dp_and_then
  | |- dp (unchecked_utf8 _ _) => apply dp_unchecked_utf8
  | |- dp (preceded _ _) => apply dp_preceded
  | |- dp (terminated _ _) => apply dp_terminated
  | |- dp (delimited _ _ _) => apply dp_delimited
  | |- dp (pair_ _ _) => apply dp_pair
  | |- dp (repeat0 _) => apply dp_repeat0
  | |- dp (repeat1 _) => apply dp_repeat1
  | |- dp (separated0 _ _) => apply dp_separated0
  | |- dp (separated1 _ _) => apply dp_separated1
  | |- dp (check_recursion _) => apply dp_check_recursion
  | |- dp (match ?x with _ => _ end) => destruct x
  end.
Ltac dp_auto := repeat dp_step; try solve [auto with dp].
