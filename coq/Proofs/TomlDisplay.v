(* Proofs/TomlDisplay.v — C06 for toml::Table / toml::Value Display: the document tree Model/TomlDisplay.v builds
   (tv_doc) lies inside the constructed trees of Model/Build.v (tables marked implicit included), so its printed
   text parses back (Proofs/BuiltRTDoc.v); what comes back is the value, its maps listed in the printed order. *)
From TV Require Import Base.Prelude Base.Utf8 Base.Winnow Gen.Consts.
From TV Require Import Model.Datetime Spec.DatetimeSpec Model.Numbers Model.Tree Model.Parse Model.Document Model.Write Model.Encode Model.Build.
From TV Require Import Model.TomlDisplay.
From TV Require Import Proofs.BuiltRTEncode Proofs.BuiltRTValue Proofs.BuiltRTLeaf Proofs.BuiltRTTop Proofs.BuiltRTDocEncode Proofs.BuiltRTDoc.
From Coq Require Import Permutation.
Require Import Lia.

(* ---- induction over values ----------------------------------------------------------------------------------- *)
Lemma tvc_strong (P : tvc -> Prop) :
  (forall s, P (TvLeaf s)) ->
  (forall l, Forall P l -> P (TvArr l)) ->
  (forall m, Forall (fun kv => P (snd kv)) m -> P (TvTab m)) ->
  forall v, P v.
Proof.
  intros H1 H2 H3. fix IH 1. intros [s|l|m].
  - apply H1.
  - apply H2. induction l as [|x l IHl]; constructor; [apply IH|exact IHl].
  - apply H3. induction m as [|[k x] m IHm]; constructor; [apply IH|exact IHm].
Qed.

(* ---- the three loops list every entry exactly once -------------------------------------------------------------- *)
Lemma pass_exclusive v :
  (c_pass1 v = true /\ c_pass2 v = false /\ c_pass3 v = false) \/
  (c_pass1 v = false /\ c_pass2 v = true /\ c_pass3 v = false) \/
  (c_pass1 v = false /\ c_pass2 v = false /\ c_pass3 v = true).
Proof.
  destruct v as [s|l|m]; unfold c_pass1, c_pass2, c_pass3, c_any_table; cbn [tvc_is_table tvc_is_array negb andb orb].
  - left. auto.
  - destruct (existsb tvc_is_table l); cbn; [right; left|left]; auto.
  - right. right. auto.
Qed.

Lemma three_pass_perm {A} (f : A -> tvc) (l : list A) :
  Permutation (filter (fun e => c_pass1 (f e)) l ++ filter (fun e => c_pass2 (f e)) l ++ filter (fun e => c_pass3 (f e)) l) l.
Proof.
  induction l as [|x l IH]; [constructor|]. cbn [filter].
  destruct (pass_exclusive (f x)) as [(-> & -> & ->) | [(-> & -> & ->) | (-> & -> & ->)]].
  - cbn [app]. constructor. exact IH.
  - eapply Permutation_trans; [|apply perm_skip, IH]. symmetry. apply Permutation_middle.
  - eapply Permutation_trans; [|apply perm_skip, IH].
    rewrite app_assoc. symmetry. rewrite app_assoc. apply Permutation_middle.
Qed.

Lemma in_order_perm {A} three (ent : list (bytes * tvc * A)) :
  Permutation (in_order three ent) (map (fun e => (fst (fst e), snd e)) ent).
Proof.
  unfold in_order. destruct three.
  - rewrite <- !map_app. apply Permutation_map. apply (three_pass_perm (fun e => snd (fst e))).
  - assert (E : filter (fun _ : bytes * tvc * A => true) ent = ent) by (induction ent as [|x l IH]; [reflexivity|cbn; rewrite IH; reflexivity]).
    rewrite E. apply Permutation_refl.
Qed.

Lemma perm_forall {A} (P : A -> Prop) l l' : Permutation l l' -> Forall P l -> Forall P l'.
Proof. intros Hp H. rewrite Forall_forall in *. intros x Hx. apply H. apply (Permutation_in _ (Permutation_sym Hp) Hx). Qed.

(* ---- well-formed values ---------------------------------------------------------------------------------------- *)
(* distinct UTF-8 keys in every map (invariants of toml::Map<String, _>); leaves: UTF-8 strings, i64, floats nan / inf /
   the decimal of their text below the overflow threshold, in-range date-times *)
Inductive wf_tvc : tvc -> Prop :=
| WfLeaf s : scalar_ok (ser_scalar s) -> wf_tvc (TvLeaf s)
| WfArr l : Forall wf_tvc l -> wf_tvc (TvArr l)
| WfTab m : NoDup (map fst m) -> Forall key_ok (map fst m) -> Forall wf_tvc (map snd m) -> wf_tvc (TvTab m).
Definition wf_entries_tvc (m : list (bytes * tvc)) : Prop := wf_tvc (TvTab m).

Lemma wf_tvc_strong (P : tvc -> Prop) :
  (forall s, scalar_ok (ser_scalar s) -> P (TvLeaf s)) ->
  (forall l, Forall wf_tvc l -> Forall P l -> P (TvArr l)) ->
  (forall m, NoDup (map fst m) -> Forall key_ok (map fst m) -> Forall wf_tvc (map snd m) -> Forall P (map snd m) -> P (TvTab m)) ->
  forall v, wf_tvc v -> P v.
Proof.
  intros H1 H2 H3. fix IH 2. intros v Hv. destruct Hv as [s Hs | l Hl | m Hnd Hk Hm].
  - apply H1, Hs.
  - apply H2; [exact Hl|]. induction Hl; constructor; [apply IH; assumption|assumption].
  - apply H3; try assumption. induction Hm; constructor; [apply IH; assumption|assumption].
Qed.

(* ---- unfolding the serializer ------------------------------------------------------------------------------------ *)
Definition vents (m : list (bytes * tvc)) : list (bytes * tvc * value) := map (fun kv => (fst kv, snd kv, tv_value (snd kv))) m.
Definition ients (m : list (bytes * tvc)) : list (bytes * tvc * item) := map (fun kv => (fst kv, snd kv, tv_item (snd kv))) m.

Lemma tv_value_tab m :
  tv_value (TvTab m) = VInline (mk_inline_items (in_order true (vents m))) REmpty false false decor_default None.
Proof.
  cbn [tv_value]. do 3 f_equal. unfold vents. induction m as [|[k x] m IH]; [reflexivity|]. cbn [map fst snd]. rewrite IH. reflexivity.
Qed.
Lemma tv_item_tab m : tv_item (TvTab m) = ITable (doc_tbl (nonempty_b m) (in_order true (ients m))).
Proof.
  cbn [tv_item]. do 3 f_equal. unfold ients. induction m as [|[k x] m IH]; [reflexivity|]. cbn [map fst snd]. rewrite IH. reflexivity.
Qed.
Definition tab_of (v : tvc) : bool * list (bytes * item) :=
  match v with TvTab m => (nonempty_b m, in_order true (ients m)) | _ => (false, []) end.
Lemma tv_item_aot l : c_aot_able l = true ->
  tv_item (TvArr l) = IAot (map (fun x => Tbl (mk_tbl_items (snd x)) decor_default (fst x) false None None) (map tab_of l)) None.
Proof.
  intro H. cbn [tv_item]. rewrite H. f_equal.
  assert (Hall : forallb tvc_is_table l = true) by (destruct l; [discriminate|exact H]). clear H.
  induction l as [|x l IH]; [reflexivity|]. cbn [forallb] in Hall. apply andb_true_iff in Hall as [Hx Hl].
  destruct x as [s|l0|m]; try discriminate. rewrite tv_item_tab. cbn [map tab_of fst snd]. rewrite (IH Hl). reflexivity.
Qed.
Lemma tv_item_line v : c_is_line v = true -> tv_item v = IValue (tv_value v).
Proof. destruct v as [s|l|m]; cbn [c_is_line tv_item]; [reflexivity| |discriminate]. intro H. apply negb_true_iff in H. rewrite H. reflexivity. Qed.

(* ---- values ---------------------------------------------------------------------------------------------------------- *)
Lemma default_decor_built : decor_built decor_default.
Proof. split; left; reflexivity. Qed.

Lemma in_order_keys {A} three (ent : list (bytes * tvc * A)) :
  Permutation (map fst (in_order three ent)) (map (fun e => fst (fst e)) ent).
Proof. rewrite <- (map_map (fun e => (fst (fst e), snd e)) fst). apply Permutation_map, in_order_perm. Qed.
Lemma in_order_vals {A} three (ent : list (bytes * tvc * A)) :
  Permutation (map snd (in_order three ent)) (map snd ent).
Proof. rewrite <- (map_map (fun e : bytes * tvc * A => (fst (fst e), snd e)) snd). apply Permutation_map, in_order_perm. Qed.

Theorem tv_value_built : forall v, wf_tvc v ->
  BuiltValue scalar_ok key_ok (tv_value v) /\ value_decor (tv_value v) = decor_default.
Proof.
  apply wf_tvc_strong.
  - intros s Hs. split; [|reflexivity]. constructor; [exact Hs|apply default_decor_built].
  - intros l _ IH. split; [|reflexivity]. cbn [tv_value]. unfold array_from_iter. constructor; [apply default_decor_built|].
    apply Forall_forall. intros x Hx. apply in_map_iff in Hx as (v & <- & Hv). rewrite Forall_forall in IH. apply IH, Hv.
  - intros m Hnd Hk _ IH. split; [|rewrite tv_value_tab; reflexivity]. rewrite tv_value_tab. constructor.
    + apply default_decor_built.
    + apply (Permutation_NoDup (Permutation_sym (in_order_keys true (vents m)))). unfold vents. rewrite map_map. exact Hnd.
    + apply (perm_forall _ _ _ (Permutation_sym (in_order_keys true (vents m)))). unfold vents. rewrite map_map. exact Hk.
    + apply (perm_forall _ _ _ (Permutation_sym (in_order_vals true (vents m)))). unfold vents. rewrite map_map.
      apply Forall_forall. intros x Hx. apply in_map_iff in Hx as (kv & <- & Hkv). rewrite Forall_forall in IH.
      apply (IH (snd kv)). apply in_map, Hkv.
Qed.
