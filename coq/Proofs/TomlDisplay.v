(* Proofs/TomlDisplay.v — C06 for toml::Table / toml::Value Display: the document tree Model/TomlDisplay.v builds
   (tv_doc) lies inside the constructed trees of Model/Build.v (tables marked implicit included), so its printed
   text parses back (Proofs/BuiltRTDoc.v); what comes back is the value, its maps listed in the printed order. *)
From TV Require Import Base.Prelude Base.Utf8 Base.Winnow Gen.Consts.
From TV Require Import Model.Datetime Spec.DatetimeSpec Model.Numbers Model.Tree Model.Parse Model.Document Model.Write Model.Encode Model.Build.
From TV Require Import Model.TomlDisplay.
From TV Require Import Proofs.BuiltRTEncode Proofs.BuiltRTValue Proofs.BuiltRTLeaf Proofs.BuiltRTTop Proofs.BuiltRTDocEncode Proofs.BuiltRTDoc.
From Coq Require Import Permutation.
Require Import Lia.

(* ---- induction over values ----------------------------------------------------------------------------------- *)
Lemma tvc_strong (P : tvc -> Prop) :
  (forall s, P (TvLeaf s)) ->
  (forall l, Forall P l -> P (TvArr l)) ->
  (forall m, Forall (fun kv => P (snd kv)) m -> P (TvTab m)) ->
  forall v, P v.
Proof.
  intros H1 H2 H3. fix IH 1. intros [s|l|m].
  - apply H1.
  - apply H2. induction l as [|x l IHl]; constructor; [apply IH|exact IHl].
  - apply H3. induction m as [|[k x] m IHm]; constructor; [apply IH|exact IHm].
Qed.

(* ---- the three loops list every entry exactly once -------------------------------------------------------------- *)
Lemma pass_exclusive v :
  (c_pass1 v = true /\ c_pass2 v = false /\ c_pass3 v = false) \/
  (c_pass1 v = false /\ c_pass2 v = true /\ c_pass3 v = false) \/
  (c_pass1 v = false /\ c_pass2 v = false /\ c_pass3 v = true).
Proof.
  destruct v as [s|l|m]; unfold c_pass1, c_pass2, c_pass3, c_any_table; cbn [tvc_is_table tvc_is_array negb andb orb].
  - left. auto.
  - destruct (existsb tvc_is_table l); cbn; [right; left|left]; auto.
  - right. right. auto.
Qed.

Lemma three_pass_perm {A} (f : A -> tvc) (l : list A) :
  Permutation (filter (fun e => c_pass1 (f e)) l ++ filter (fun e => c_pass2 (f e)) l ++ filter (fun e => c_pass3 (f e)) l) l.
Proof.
  induction l as [|x l IH]; [constructor|]. cbn [filter].
  destruct (pass_exclusive (f x)) as [(-> & -> & ->) | [(-> & -> & ->) | (-> & -> & ->)]].
  - cbn [app]. constructor. exact IH.
  - eapply Permutation_trans; [|apply perm_skip, IH]. symmetry. apply Permutation_middle.
  - eapply Permutation_trans; [|apply perm_skip, IH].
    rewrite app_assoc. symmetry. rewrite app_assoc. apply Permutation_middle.
Qed.

Lemma in_order_perm {A} three (ent : list (bytes * tvc * A)) :
  Permutation (in_order three ent) (map (fun e => (fst (fst e), snd e)) ent).
Proof.
  unfold in_order. destruct three.
  - rewrite <- !map_app. apply Permutation_map. apply (three_pass_perm (fun e => snd (fst e))).
  - assert (E : filter (fun _ : bytes * tvc * A => true) ent = ent) by (induction ent as [|x l IH]; [reflexivity|cbn; rewrite IH; reflexivity]).
    rewrite E. apply Permutation_refl.
Qed.

Lemma perm_forall {A} (P : A -> Prop) l l' : Permutation l l' -> Forall P l -> Forall P l'.
Proof. intros Hp H. rewrite Forall_forall in *. intros x Hx. apply H. apply (Permutation_in _ (Permutation_sym Hp) Hx). Qed.

(* ---- well-formed values ---------------------------------------------------------------------------------------- *)
(* distinct UTF-8 keys in every map (invariants of toml::Map<String, _>); leaves: UTF-8 strings, i64, floats nan / inf /
   the decimal of their text below the overflow threshold, in-range date-times *)
Inductive wf_tvc : tvc -> Prop :=
| WfLeaf s : scalar_ok (ser_scalar s) -> wf_tvc (TvLeaf s)
| WfArr l : Forall wf_tvc l -> wf_tvc (TvArr l)
| WfTab m : NoDup (map fst m) -> Forall key_ok (map fst m) -> Forall wf_tvc (map snd m) -> wf_tvc (TvTab m).
Definition wf_entries_tvc (m : list (bytes * tvc)) : Prop := wf_tvc (TvTab m).

Lemma wf_tvc_strong (P : tvc -> Prop) :
  (forall s, scalar_ok (ser_scalar s) -> P (TvLeaf s)) ->
  (forall l, Forall wf_tvc l -> Forall P l -> P (TvArr l)) ->
  (forall m, NoDup (map fst m) -> Forall key_ok (map fst m) -> Forall wf_tvc (map snd m) -> Forall P (map snd m) -> P (TvTab m)) ->
  forall v, wf_tvc v -> P v.
Proof.
  intros H1 H2 H3. fix IH 2. intros v Hv. destruct Hv as [s Hs | l Hl | m Hnd Hk Hm].
  - apply H1, Hs.
  - apply H2; [exact Hl|]. induction Hl; constructor; [apply IH; assumption|assumption].
  - apply H3; try assumption. induction Hm; constructor; [apply IH; assumption|assumption].
Qed.

(* ---- unfolding the serializer ------------------------------------------------------------------------------------ *)
Definition vents (m : list (bytes * tvc)) : list (bytes * tvc * value) := map (fun kv => (fst kv, snd kv, tv_value (snd kv))) m.
Definition ients (m : list (bytes * tvc)) : list (bytes * tvc * item) := map (fun kv => (fst kv, snd kv, tv_item (snd kv))) m.

Lemma tv_value_tab m :
  tv_value (TvTab m) = VInline (mk_inline_items (in_order true (vents m))) REmpty false false decor_default None.
Proof.
  cbn [tv_value]. do 3 f_equal. unfold vents. induction m as [|[k x] m IH]; [reflexivity|]. cbn [map fst snd]. rewrite IH. reflexivity.
Qed.
Lemma tv_item_tab m : tv_item (TvTab m) = ITable (doc_tbl (nonempty_b m) (in_order true (ients m))).
Proof.
  cbn [tv_item]. do 3 f_equal. unfold ients. induction m as [|[k x] m IH]; [reflexivity|]. cbn [map fst snd]. rewrite IH. reflexivity.
Qed.
Definition tab_of (v : tvc) : bool * list (bytes * item) :=
  match v with TvTab m => (nonempty_b m, in_order true (ients m)) | _ => (false, []) end.
Lemma tv_item_aot l : c_aot_able l = true ->
  tv_item (TvArr l) = IAot (map (fun x => Tbl (mk_tbl_items (snd x)) decor_default (fst x) false None None) (map tab_of l)) None.
Proof.
  intro H. cbn [tv_item]. rewrite H. f_equal.
  assert (Hall : forallb tvc_is_table l = true) by (destruct l; [discriminate|exact H]). clear H.
  induction l as [|x l IH]; [reflexivity|]. cbn [forallb] in Hall. apply andb_true_iff in Hall as [Hx Hl].
  destruct x as [s|l0|m]; try discriminate. rewrite tv_item_tab. cbn [map tab_of fst snd]. rewrite (IH Hl). reflexivity.
Qed.
Lemma tv_item_line v : c_is_line v = true -> tv_item v = IValue (tv_value v).
Proof. destruct v as [s|l|m]; cbn [c_is_line tv_item]; [reflexivity| |discriminate]. intro H. apply negb_true_iff in H. rewrite H. reflexivity. Qed.

(* ---- values ---------------------------------------------------------------------------------------------------------- *)
Lemma default_decor_built : decor_built decor_default.
Proof. split; left; reflexivity. Qed.

Lemma in_order_keys {A} three (ent : list (bytes * tvc * A)) :
  Permutation (map fst (in_order three ent)) (map (fun e => fst (fst e)) ent).
Proof.
  replace (map (fun e : bytes * tvc * A => fst (fst e)) ent) with (map fst (map (fun e : bytes * tvc * A => (fst (fst e), snd e)) ent))
    by (rewrite map_map; reflexivity).
  apply Permutation_map, in_order_perm.
Qed.
Lemma in_order_vals {A} three (ent : list (bytes * tvc * A)) :
  Permutation (map snd (in_order three ent)) (map snd ent).
Proof.
  replace (map snd ent) with (map snd (map (fun e : bytes * tvc * A => (fst (fst e), snd e)) ent))
    by (rewrite map_map; reflexivity).
  apply Permutation_map, in_order_perm.
Qed.

Theorem tv_value_built : forall v, wf_tvc v ->
  BuiltValue scalar_ok key_ok (tv_value v) /\ value_decor (tv_value v) = decor_default.
Proof.
  apply wf_tvc_strong.
  - intros s Hs. split; [|reflexivity]. constructor; [exact Hs|apply default_decor_built].
  - intros l _ IH. split; [|reflexivity]. cbn [tv_value]. unfold array_from_iter. constructor; [apply default_decor_built|].
    apply Forall_forall. intros x Hx. apply in_map_iff in Hx as (v & <- & Hv). rewrite Forall_forall in IH. apply IH, Hv.
  - intros m Hnd Hk _ IH. split; [|rewrite tv_value_tab; reflexivity]. rewrite tv_value_tab. constructor.
    + apply default_decor_built.
    + apply (Permutation_NoDup (Permutation_sym (in_order_keys true (vents m)))). unfold vents. rewrite map_map. exact Hnd.
    + apply (perm_forall _ _ _ (Permutation_sym (in_order_keys true (vents m)))). unfold vents. rewrite map_map. exact Hk.
    + apply (perm_forall _ _ _ (Permutation_sym (in_order_vals true (vents m)))). unfold vents. rewrite map_map.
      apply Forall_forall. intros x Hx. apply in_map_iff in Hx as (kv & <- & Hkv). rewrite Forall_forall in IH.
      apply (IH (snd kv)). apply in_map, Hkv.
Qed.

(* ---- tables, arrays of tables, the document ------------------------------------------------------------------------- *)
Lemma doc_tbl_the b l : doc_tbl b l = the_tbl b l None.
Proof. reflexivity. Qed.

Lemma existsb_all_true {A} (f : A -> bool) l : l <> [] -> Forall (fun x => f x = true) l -> existsb f l = true.
Proof. intros Hne H. destruct H as [|x l Hx _]; [contradiction|]. cbn [existsb]. rewrite Hx. reflexivity. Qed.

Lemma perm_nonempty {A} (l l' : list A) : Permutation l l' -> l' <> [] -> l <> [].
Proof. intros Hp Hne E. subst. apply Permutation_nil in Hp. contradiction. Qed.

(* what is shown of a table value: its entries as the serializer orders them *)
Definition entries_good (three : bool) (m : list (bytes * tvc)) : Prop :=
  BuiltEntries scalar_ok key_ok (in_order three (ients m)) /\
  Forall (fun kv => item_prints (snd kv) = true) (in_order three (ients m)).

Lemma entries_good_of three m :
  NoDup (map fst m) -> Forall key_ok (map fst m) ->
  Forall (fun kv => BuiltItem scalar_ok key_ok (tv_item (snd kv)) /\ item_prints (tv_item (snd kv)) = true) m ->
  entries_good three m.
Proof.
  intros Hnd Hk H. split.
  - constructor.
    + apply (Permutation_NoDup (Permutation_sym (in_order_keys three (ients m)))). unfold ients. rewrite map_map. exact Hnd.
    + apply (perm_forall _ _ _ (Permutation_sym (in_order_keys three (ients m)))). unfold ients. rewrite map_map. exact Hk.
    + apply (perm_forall _ _ _ (Permutation_sym (in_order_vals three (ients m)))). unfold ients. rewrite map_map.
      apply Forall_forall. intros x Hx. apply in_map_iff in Hx as (kv & <- & Hkv). rewrite Forall_forall in H. apply (H kv Hkv).
  - apply (perm_forall _ _ _ (Permutation_sym (in_order_perm three (ients m)))). unfold ients. rewrite map_map. cbn [snd].
    apply Forall_forall. intros x Hx. apply in_map_iff in Hx as (kv & <- & Hkv). rewrite Forall_forall in H. apply (H kv Hkv).
Qed.

Lemma in_order_nonempty {A} three (ent : list (bytes * tvc * A)) : ent <> [] -> in_order three ent <> [].
Proof.
  intro H. apply (perm_nonempty _ _ (in_order_perm three ent)). destruct ent; [contradiction|discriminate].
Qed.

Definition item_good (v : tvc) : Prop :=
  BuiltItem scalar_ok key_ok (tv_item v) /\ item_prints (tv_item v) = true /\
  forall m, v = TvTab m -> entries_good true m.

Lemma table_item_built b (m : list (bytes * tvc)) :
  entries_good true m -> b = nonempty_b m ->
  BuiltItem scalar_ok key_ok (ITable (doc_tbl b (in_order true (ients m)))) /\
  item_prints (ITable (doc_tbl b (in_order true (ients m)))) = true.
Proof.
  intros [HE Hpr] ->.
  assert (Hex : nonempty_b m = true -> existsb (fun kv => item_prints (snd kv)) (in_order true (ients m)) = true).
  { intro Hne. apply existsb_all_true; [|exact Hpr]. apply in_order_nonempty. destruct m; [discriminate|discriminate]. }
  split; [apply (BI_table scalar_ok key_ok (nonempty_b m) _ HE Hex)|].
  cbn [item_prints]. rewrite doc_tbl_the, tbl_prints_the. cbn [t_implicit the_tbl].
  destruct (nonempty_b m) eqn:E; [rewrite (Hex eq_refl); reflexivity|reflexivity].
Qed.

Theorem tv_item_good : forall v, wf_tvc v -> item_good v.
Proof.
  apply wf_tvc_strong.
  - intros s Hs. split; [|split; [reflexivity|discriminate]]. cbn [tv_item]. constructor.
    apply (tv_value_built (TvLeaf s) (WfLeaf s Hs)).
  - intros l Hl IH. split; [|split; [|discriminate]].
    + destruct (c_aot_able l) eqn:Ea.
      * rewrite (tv_item_aot l Ea). constructor. apply Forall_forall. intros x Hx. apply in_map_iff in Hx as (v & <- & Hv).
        assert (Hall : forallb tvc_is_table l = true) by (destruct l; [discriminate|exact Ea]).
        rewrite forallb_forall in Hall. specialize (Hall v Hv). destruct v as [s|l0|m]; try discriminate.
        cbn [tab_of snd]. rewrite Forall_forall in IH. destruct (IH _ Hv) as (_ & _ & Hm). apply (Hm m eq_refl).
      * cbn [tv_item]. rewrite Ea. constructor. apply (tv_value_built (TvArr l) (WfArr l Hl)).
    + destruct (c_aot_able l) eqn:Ea.
      * rewrite (tv_item_aot l Ea). destruct l; [discriminate|reflexivity].
      * cbn [tv_item]. rewrite Ea. reflexivity.
  - intros m Hnd Hk _ IH.
    assert (Hg : entries_good true m).
    { apply entries_good_of; [exact Hnd|exact Hk|]. apply Forall_forall. intros kv Hkv. rewrite Forall_forall in IH.
      destruct (IH (snd kv) (in_map snd _ _ Hkv)) as (H1 & H2 & _). auto. }
    unfold item_good. rewrite tv_item_tab. destruct (table_item_built _ m Hg eq_refl) as [H1 H2].
    split; [exact H1|]. split; [exact H2|]. intros m' E. injection E as <-. exact Hg.
Qed.

Theorem tv_doc_built three m : wf_tvc (TvTab m) -> BuiltTbl scalar_ok key_ok (tv_doc three m).
Proof.
  intro H. inversion H as [| |m' Hnd Hk Hm]; subst.
  exists (in_order three (ients m)), (nonempty_b m), None. split; [|split; [left; reflexivity|reflexivity]].
  apply entries_good_of; [exact Hnd|exact Hk|]. apply Forall_forall. intros kv Hkv. rewrite Forall_forall in Hm.
  destruct (tv_item_good (snd kv) (Hm _ (in_map snd _ _ Hkv))) as (H1 & H2 & _). auto.
Qed.

(* ---- nesting ------------------------------------------------------------------------------------------------------------ *)
Lemma fold_max_bound {A} (f : A -> nat) l B : (forall x, In x l -> f x <= B) -> fold_right (fun x acc => Nat.max (f x) acc) 0 l <= B.
Proof.
  induction l as [|x l IH]; intro H; [cbn; lia|]. cbn [fold_right].
  pose proof (H x (or_introl eq_refl)). specialize (IH (fun y Hy => H y (or_intror Hy))). lia.
Qed.
Lemma fold_max_mem {A} (f : A -> nat) l x : In x l -> f x <= fold_right (fun y acc => Nat.max (f y) acc) 0 l.
Proof. induction l as [|y l IH]; [contradiction|]. cbn [fold_right]. intros [<- | H]; [lia|]. specialize (IH H). lia. Qed.

Lemma value_depth_tv : forall v, value_depth (tv_value v) <= tvc_depth v.
Proof.
  apply tvc_strong.
  - intro s. cbn. lia.
  - intros l IH. cbn [tv_value tvc_depth]. unfold array_from_iter. cbn [value_depth]. apply le_n_S.
    rewrite Forall_forall in IH. induction l as [|x l IHl]; [cbn; lia|]. cbn [map fold_right].
    pose proof (IH x (or_introl eq_refl)). specialize (IHl (fun y Hy => IH y (or_intror Hy))). lia.
  - intros m IH. rewrite tv_value_tab. cbn [value_depth tvc_depth]. apply le_n_S.
    set (B := fold_right (fun kv acc => Nat.max (tvc_depth (snd kv)) acc) 0 m).
    assert (Hall : forall kv, In kv (in_order true (vents m)) -> value_depth (snd kv) <= B).
    { intros kv Hkv. apply (Permutation_in _ (in_order_perm true (vents m))) in Hkv. unfold vents in Hkv. rewrite map_map in Hkv.
      apply in_map_iff in Hkv as (kv0 & <- & Hkv0). cbn [snd]. rewrite Forall_forall in IH. specialize (IH kv0 Hkv0).
      pose proof (fold_max_mem (fun kv : bytes * tvc => tvc_depth (snd kv)) m kv0 Hkv0). unfold B. lia. }
    unfold mk_inline_items. induction (in_order true (vents m)) as [|kv E IHE]; [cbn; lia|]. cbn [map fold_right fst snd].
    pose proof (Hall kv (or_introl eq_refl)). specialize (IHE (fun y Hy => Hall y (or_intror Hy))). lia.
Qed.

Lemma in_order_ients_in three m kv : In kv (in_order three (ients m)) -> exists x, In (fst kv, x) m /\ snd kv = tv_item x.
Proof.
  intro H. apply (Permutation_in _ (in_order_perm three (ients m))) in H. unfold ients in H. rewrite map_map in H.
  apply in_map_iff in H as ([k x] & <- & Hin). cbn [fst snd]. eauto.
Qed.

Lemma item_depths_tv : forall v, item_hdepth (tv_item v) <= tvc_depth v /\ item_vdepth (tv_item v) <= tvc_depth v.
Proof.
  apply tvc_strong.
  - intro s. cbn. lia.
  - intros l IH. destruct (c_aot_able l) eqn:Ea.
    + rewrite (tv_item_aot l Ea). cbn [item_hdepth item_vdepth tvc_depth].
      assert (Hall : forallb tvc_is_table l = true) by (destruct l; [discriminate|exact Ea]).
      rewrite forallb_forall in Hall. rewrite Forall_forall in IH.
      set (B := fold_right (fun x acc => Nat.max (tvc_depth x) acc) 0 l).
      set (ts := map (fun x : bool * list (bytes * item) => Tbl (mk_tbl_items (snd x)) decor_default (fst x) false None None) (map tab_of l)).
      assert (G : forall t, In t ts -> tbl_hdepth t <= B /\ tbl_vdepth t <= B).
      { intros t Ht. unfold ts in Ht. rewrite map_map in Ht. apply in_map_iff in Ht as (x & <- & Hx).
        specialize (Hall x Hx). destruct x as [s|l0|m]; try discriminate.
        destruct (IH _ Hx) as [H1 H2]. rewrite tv_item_tab in H1, H2. cbn [item_hdepth item_vdepth] in H1, H2. cbn [tab_of fst snd].
        pose proof (fold_max_mem tvc_depth l (TvTab m) Hx) as Hm. fold B in Hm. unfold doc_tbl in *. lia. }
      split.
      * apply le_n_S. apply (fold_max_bound tbl_hdepth). intros t Ht. apply G, Ht.
      * apply Nat.le_le_succ_r. apply (fold_max_bound tbl_vdepth). intros t Ht. apply G, Ht.
    + cbn [tv_item]. rewrite Ea. cbn [item_hdepth item_vdepth]. split; [lia|apply value_depth_tv].
  - intros m IH. rewrite tv_item_tab. cbn [item_hdepth item_vdepth tvc_depth]. rewrite doc_tbl_the, hdepth_the, vdepth_the.
    set (B := fold_right (fun kv acc => Nat.max (tvc_depth (snd kv)) acc) 0 m).
    assert (G : forall kv, In kv (in_order true (ients m)) -> item_hdepth (snd kv) <= B /\ item_vdepth (snd kv) <= B).
    { intros kv Hkv. destruct (in_order_ients_in true m kv Hkv) as (x & Hx & ->).
      rewrite Forall_forall in IH. destruct (IH _ Hx) as [H1 H2]. cbn [snd] in H1, H2.
      pose proof (fold_max_mem (fun kv : bytes * tvc => tvc_depth (snd kv)) m _ Hx) as Hm. cbn [snd] in Hm. fold B in Hm. lia. }
    split.
    + apply le_n_S. apply (fold_max_bound (fun kv : bytes * item => item_hdepth (snd kv))). intros kv Hkv. apply G, Hkv.
    + apply Nat.le_le_succ_r. apply (fold_max_bound (fun kv : bytes * item => item_vdepth (snd kv))). intros kv Hkv. apply G, Hkv.
Qed.

Lemma tv_doc_depths three m :
  tvc_depth (TvTab m) <= LIMIT -> tbl_hdepth (tv_doc three m) < LIMIT /\ tbl_vdepth (tv_doc three m) < LIMIT.
Proof.
  intro H. cbn [tvc_depth] in H. unfold tv_doc. rewrite doc_tbl_the, hdepth_the, vdepth_the.
  set (B := fold_right (fun kv acc => Nat.max (tvc_depth (snd kv)) acc) 0 m) in *.
  assert (G : forall kv, In kv (in_order three (ients m)) -> item_hdepth (snd kv) <= B /\ item_vdepth (snd kv) <= B).
  { intros kv Hkv. destruct (in_order_ients_in three m kv Hkv) as (x & Hx & ->).
    destruct (item_depths_tv x) as [H1 H2].
    pose proof (fold_max_mem (fun kv : bytes * tvc => tvc_depth (snd kv)) m _ Hx) as Hm. cbn [snd] in Hm. fold B in Hm. lia. }
  fold (ients m).
  split.
  - apply Nat.le_lt_trans with B; [|lia]. apply (fold_max_bound (fun kv : bytes * item => item_hdepth (snd kv))). intros kv Hkv. apply G, Hkv.
  - apply Nat.le_lt_trans with B; [|lia]. apply (fold_max_bound (fun kv : bytes * item => item_vdepth (snd kv))). intros kv Hkv. apply G, Hkv.
Qed.

(* ---- C06_toml_display, first form: the printed text parses back to the tree of tv_doc, values before tables --------- *)
Theorem toml_display_parses three m :
  wf_tvc (TvTab m) -> tvc_depth (TvTab m) <= LIMIT ->
  exists d, parse_document (display_document (render_tbl float_text (tv_doc three m)) REmpty) = POk d
            /\ abs_tbl (doc_root d) = printed_entries (abs_tbl (tv_doc three m)).
Proof.
  intros Hwf Hd. destruct (tv_doc_depths three m Hd) as [Hh Hv].
  apply document_roundtrip; [apply tv_doc_built, Hwf|exact Hh|exact Hv].
Qed.
