(* Proofs/ContainersRefine.v — forward simulation between the container model
   (Model/Containers.v) and the reference containers (Spec/Ordered.v), property C16.

   abs drops the placeholder entries (`Item::None`).  Every write / entry call first drops the
   placeholder stored under its key (`purge`, Model/Containers.v `prep`: the repair of
   C16-placeholder-residue), which changes neither abs nor the invariant; on the purged state
   the call meets no placeholder (`tsens' = false`), the model's answer equals the reference's
   answer and abs commutes with the step (`tbody_sim`); lifted to ALL histories by induction
   over the list of calls. *)
From TV Require Import Base.Prelude Spec.Ordered Model.Containers Proofs.ContainersOrder.
Require Import Lia ZifyBool ZifyN ZifyNat.
From Coq Require Import Permutation.

(* ==================================================================================== *)
(** * C. association lists: model functions versus reference functions *)

Notation keys c := (map fst c).

Section Assoc.
  Context {V : Type}.
  Implicit Types (c m : list (bytes * V)).

  Lemma im_get_In k c v : im_get k c = Some v -> In k (keys c).
  Proof.
    induction c as [|[k' v'] c IH]; simpl; [discriminate|].
    destruct (bytes_eqb k' k) eqn:E; [apply bytes_eqb_eq in E; auto|auto].
  Qed.

  Lemma im_get_notin k c : ~ In k (keys c) -> im_get k c = None.
  Proof.
    induction c as [|[k' v'] c IH]; simpl; [reflexivity|]. intro H.
    destruct (bytes_eqb k' k) eqn:E; [apply bytes_eqb_eq in E; tauto|apply IH; tauto].
  Qed.

  Lemma im_get_None_notin k c : im_get k c = None -> ~ In k (keys c).
  Proof.
    induction c as [|[k' v'] c IH]; simpl; [tauto|].
    destruct (bytes_eqb k' k) eqn:E; [discriminate|]. apply bytes_eqb_false in E. intros H [H1|H1]; [congruence|].
    apply IH; assumption.
  Qed.

  Lemma om_get_eq k m : om_get k m = im_get k m.
  Proof.
    unfold om_get. induction m as [|[k' v'] m IH]; simpl; [reflexivity|].
    unfold has_key at 1; simpl. destruct (bytes_eqb k' k); [reflexivity|exact IH].
  Qed.

  Lemma om_mem_eq k m : om_mem k m = is_some (im_get k m).
  Proof.
    unfold om_mem. induction m as [|[k' v'] m IH]; simpl; [reflexivity|].
    unfold has_key at 1; simpl. destruct (bytes_eqb k' k); [reflexivity|exact IH].
  Qed.

  Lemma om_remove_notin k m : ~ In k (keys m) -> om_remove k m = m.
  Proof.
    unfold om_remove. induction m as [|[k' v'] m IH]; simpl; [reflexivity|]. intro H.
    unfold has_key at 1; simpl. destruct (bytes_eqb k' k) eqn:E; [apply bytes_eqb_eq in E; tauto|].
    simpl. f_equal. apply IH. tauto.
  Qed.

  Lemma om_remove_cons k k' v' m :
    om_remove k ((k', v') :: m) = if bytes_eqb k' k then om_remove k m else (k', v') :: om_remove k m.
  Proof. unfold om_remove; simpl. unfold has_key at 1; simpl. destruct (bytes_eqb k' k); reflexivity. Qed.

  Lemma map_replace_notin k v m :
    ~ In k (keys m) -> map (fun kv : bytes * V => if has_key k kv then (fst kv, v) else kv) m = m.
  Proof.
    induction m as [|[k' v'] m IH]; simpl; [reflexivity|]. intro H.
    unfold has_key at 1; simpl. destruct (bytes_eqb k' k) eqn:E; [apply bytes_eqb_eq in E; tauto|].
    f_equal. apply IH. tauto.
  Qed.

  Lemma om_insert_cons_ne k v k' v' m :
    bytes_eqb k' k = false -> om_insert k v ((k', v') :: m) = (k', v') :: om_insert k v m.
  Proof.
    intro E. assert (Hk : has_key k (k', v') = false) by exact E.
    unfold om_insert, om_mem. cbn [existsb map]. rewrite Hk. cbn [orb].
    destruct (existsb (has_key k) m); reflexivity.
  Qed.

  Lemma om_insert_cons_eq k v k' v' m :
    bytes_eqb k' k = true -> ~ In k (keys m) -> om_insert k v ((k', v') :: m) = (k', v) :: m.
  Proof.
    intros E H. assert (Hk : has_key k (k', v') = true) by exact E.
    unfold om_insert, om_mem. cbn [existsb map]. rewrite Hk. cbn [orb fst].
    rewrite map_replace_notin by assumption. reflexivity.
  Qed.

  Lemma om_insert_nil k v : om_insert k v ([] : list (bytes * V)) = [(k, v)].
  Proof. reflexivity. Qed.

  (* IndexMap::insert = reference insert on duplicate-free lists *)
  Lemma im_insert_eq k v c : NoDup (keys c) -> im_insert k v c = om_insert k v c.
  Proof.
    induction c as [|[k' v'] c IH]; simpl; intro H; [reflexivity|].
    inversion H as [|? ? Hn Hc]; subst.
    destruct (bytes_eqb k' k) eqn:E.
    - rewrite om_insert_cons_eq; auto. apply bytes_eqb_eq in E. subst. exact Hn.
    - rewrite om_insert_cons_ne by assumption. f_equal. auto.
  Qed.

  Lemma im_shift_remove_eq k c : NoDup (keys c) -> im_shift_remove k c = om_remove k c.
  Proof.
    induction c as [|[k' v'] c IH]; intro H; [reflexivity|]. cbn [im_shift_remove].
    inversion H as [|? ? Hn Hc]; subst. rewrite om_remove_cons.
    destruct (bytes_eqb k' k) eqn:E.
    - apply bytes_eqb_eq in E. subst. symmetry. apply om_remove_notin. exact Hn.
    - f_equal. auto.
  Qed.

  Lemma im_retain_eq f c : im_retain f c = om_retain f c.
  Proof.
    unfold om_retain. induction c as [|[k' v'] c IH]; simpl; [reflexivity|].
    destruct (f k' v'); rewrite IH; reflexivity.
  Qed.

  Lemma im_insert_same k v c : im_get k c = Some v -> im_insert k v c = c.
  Proof.
    induction c as [|[k' v'] c IH]; simpl; [discriminate|].
    destruct (bytes_eqb k' k); [intro H; injection H as ->; reflexivity|].
    intro H. f_equal. auto.
  Qed.

  (* keys, NoDup and value invariants *)
  Lemma keys_insert x k v c : In x (keys (im_insert k v c)) -> x = k \/ In x (keys c).
  Proof.
    induction c as [|[k' v'] c IH]; simpl; [intuition congruence|].
    destruct (bytes_eqb k' k) eqn:E; simpl; [tauto|]. intros [H|H]; [tauto|]. apply IH in H. tauto.
  Qed.

  Lemma NoDup_insert k v c : NoDup (keys c) -> NoDup (keys (im_insert k v c)).
  Proof.
    induction c as [|[k' v'] c IH]; simpl; intro H; [repeat constructor; simpl; tauto|].
    inversion H as [|? ? Hn Hc]; subst.
    destruct (bytes_eqb k' k) eqn:E; simpl; [constructor; assumption|].
    constructor; [|auto]. intro Hin. apply keys_insert in Hin. apply bytes_eqb_false in E.
    destruct Hin; [congruence|tauto].
  Qed.

  Lemma keys_remove x k c : In x (keys (im_shift_remove k c)) -> In x (keys c).
  Proof.
    induction c as [|[k' v'] c IH]; simpl; [tauto|].
    destruct (bytes_eqb k' k); simpl; [tauto|]. intros [H|H]; [tauto|]. auto.
  Qed.

  Lemma NoDup_remove k c : NoDup (keys c) -> NoDup (keys (im_shift_remove k c)).
  Proof.
    induction c as [|[k' v'] c IH]; simpl; intro H; [constructor|].
    inversion H as [|? ? Hn Hc]; subst.
    destruct (bytes_eqb k' k); simpl; [assumption|].
    constructor; [|auto]. intro Hin. apply keys_remove in Hin. tauto.
  Qed.

  Lemma keys_retain x f c : In x (keys (im_retain f c)) -> In x (keys c).
  Proof.
    induction c as [|[k' v'] c IH]; simpl; [tauto|].
    destruct (f k' v'); simpl; [|auto]. intros [H|H]; auto.
  Qed.

  Lemma NoDup_retain f c : NoDup (keys c) -> NoDup (keys (im_retain f c)).
  Proof.
    induction c as [|[k' v'] c IH]; simpl; intro H; [constructor|].
    inversion H as [|? ? Hn Hc]; subst.
    destruct (f k' v'); simpl; [|auto].
    constructor; [|auto]. intro Hin. apply keys_retain in Hin. tauto.
  Qed.

  Lemma NoDup_sort le c : NoDup (keys c) -> NoDup (keys (im_sort_by le c)).
  Proof.
    intro H. rewrite im_sort_by_eq.
    eapply Permutation_NoDup; [|exact H]. apply Permutation_map. symmetry. apply stable_sort_perm.
  Qed.

  Lemma NoDup_extend l c : NoDup (keys c) -> NoDup (keys (im_extend l c)).
  Proof.
    revert c. induction l as [|[k v] l IH]; simpl; intros c H; [assumption|].
    apply IH. apply NoDup_insert. assumption.
  Qed.

  Section ValInv.
    Variable P : V -> Prop.
    Let PE := fun kv : bytes * V => P (snd kv).

    Lemma Forall_get k c v : Forall PE c -> im_get k c = Some v -> P v.
    Proof.
      induction c as [|[k' v'] c IH]; simpl; [discriminate|]. intro H. inversion H; subst.
      destruct (bytes_eqb k' k); [intro E; injection E as <-; assumption|auto].
    Qed.
    Lemma Forall_insert k v c : Forall PE c -> P v -> Forall PE (im_insert k v c).
    Proof.
      intros H Hv. induction c as [|[k' v'] c IH]; simpl; [repeat constructor; exact Hv|].
      inversion H; subst. destruct (bytes_eqb k' k); constructor; auto.
    Qed.
    Lemma Forall_remove k c : Forall PE c -> Forall PE (im_shift_remove k c).
    Proof.
      induction c as [|[k' v'] c IH]; simpl; intro H; [constructor|].
      inversion H; subst. destruct (bytes_eqb k' k); [assumption|constructor; auto].
    Qed.
    Lemma Forall_retain f c : Forall PE c -> Forall PE (im_retain f c).
    Proof.
      induction c as [|[k' v'] c IH]; simpl; intro H; [constructor|].
      inversion H; subst. destruct (f k' v'); [constructor|]; auto.
    Qed.
    Lemma Forall_sort le c : Forall PE c -> Forall PE (im_sort_by le c).
    Proof. intro H. rewrite im_sort_by_eq. apply stable_sort_Forall. exact H. Qed.
    Lemma Forall_extend l c : Forall PE c -> Forall PE l -> Forall PE (im_extend l c).
    Proof.
      revert c. induction l as [|[k v] l IH]; simpl; intros c H Hl; [assumption|].
      inversion Hl; subst. apply IH; [apply Forall_insert|]; assumption.
    Qed.
  End ValInv.
End Assoc.

(* ==================================================================================== *)
(** * D. the abstraction function and its commutation lemmas *)

Definition keep (kv : bytes * item) : option (bytes * pay) :=
  match snd kv with IReal p => Some (fst kv, p) | INone => None end.
Fixpoint abs (c : imap item) : omap pay :=
  match c with
  | [] => []
  | (k, IReal p) :: c' => (k, p) :: abs c'
  | (_, INone) :: c' => abs c'
  end.
Lemma abs_pmap c : abs c = pmap keep c.
Proof. induction c as [|[k [|p]] c IH]; simpl; [reflexivity|exact IH|]. unfold keep at 1; simpl. f_equal. exact IH. Qed.

Lemma abs_cons_real k p c : abs ((k, IReal p) :: c) = (k, p) :: abs c.
Proof. reflexivity. Qed.
Lemma abs_cons_none k c : abs ((k, INone) :: c) = abs c.
Proof. reflexivity. Qed.

Lemma abs_keys x c : In x (keys (abs c)) -> In x (keys c).
Proof.
  induction c as [|[k [|p]] c IH]; simpl; [tauto| |].
  - rewrite ?abs_cons_none. auto.
  - rewrite ?abs_cons_real. simpl. intros [H|H]; auto.
Qed.

Lemma abs_NoDup c : NoDup (keys c) -> NoDup (keys (abs c)).
Proof.
  induction c as [|[k [|p]] c IH]; simpl; intro H; [constructor| |]; inversion H; subst.
  - rewrite ?abs_cons_none. auto.
  - rewrite ?abs_cons_real. simpl. constructor; [|auto]. intro Hin. apply abs_keys in Hin. tauto.
Qed.

Lemma abs_get k c :
  NoDup (keys c) ->
  im_get k (abs c) = match im_get k c with Some (IReal p) => Some p | _ => None end.
Proof.
  induction c as [|[k' [|p]] c IH]; simpl; intro H; [reflexivity| |]; inversion H as [|? ? Hn Hc]; subst.
  - rewrite ?abs_cons_none. destruct (bytes_eqb k' k) eqn:E; [|auto].
    apply bytes_eqb_eq in E. subst. apply im_get_notin. intro Hin. apply abs_keys in Hin. tauto.
  - rewrite ?abs_cons_real. simpl. destruct (bytes_eqb k' k); [reflexivity|auto].
Qed.

Lemma ph_false_get k c : ph k c = false -> im_get k c <> Some INone.
Proof. unfold ph. destruct (im_get k c) as [[|p]|]; congruence. Qed.

Lemma abs_insert_real k p c :
  NoDup (keys c) -> ph k c = false -> abs (im_insert k (IReal p) c) = om_insert k p (abs c).
Proof.
  unfold ph. induction c as [|[k' i] c IH]; simpl; intros H Hp; [reflexivity|].
  inversion H as [|? ? Hn Hc]; subst.
  destruct (bytes_eqb k' k) eqn:E.
  - destruct i as [|q]; [discriminate|]. rewrite ?abs_cons_real.
    rewrite om_insert_cons_eq; auto. apply bytes_eqb_eq in E. subst. intro Hin. apply abs_keys in Hin. tauto.
  - destruct i as [|q].
    + rewrite ?abs_cons_none. auto.
    + rewrite ?abs_cons_real. rewrite om_insert_cons_ne by assumption. f_equal. auto.
Qed.

Lemma abs_insert_none k c : im_get k c = None -> abs (im_insert k INone c) = abs c.
Proof.
  induction c as [|[k' i] c IH]; simpl; intro H; [reflexivity|].
  destruct (bytes_eqb k' k); [discriminate|].
  destruct i as [|q]; [rewrite ?abs_cons_none|rewrite ?abs_cons_real; f_equal]; auto.
Qed.

Lemma abs_remove k c : NoDup (keys c) -> abs (im_shift_remove k c) = om_remove k (abs c).
Proof.
  induction c as [|[k' i] c IH]; simpl; intro H; [reflexivity|].
  inversion H as [|? ? Hn Hc]; subst.
  destruct (bytes_eqb k' k) eqn:E.
  - apply bytes_eqb_eq in E. subst.
    assert (Hk : ~ In k (keys (abs c))) by (intro Hin; apply abs_keys in Hin; tauto).
    destruct i as [|q]; [rewrite ?abs_cons_none|rewrite ?abs_cons_real, om_remove_cons, bytes_eqb_refl];
      symmetry; apply om_remove_notin; assumption.
  - destruct i as [|q]; [rewrite ?abs_cons_none; auto|].
    rewrite ?abs_cons_real, om_remove_cons, E. f_equal. auto.
Qed.

Lemma abs_retain g g' c :
  (forall k p, g k (IReal p) = g' k p) -> abs (im_retain g c) = om_retain g' (abs c).
Proof.
  intro Hg. unfold om_retain. induction c as [|[k' [|q]] c IH]; simpl; [reflexivity| |].
  - rewrite ?abs_cons_none. destruct (g k' INone); [rewrite ?abs_cons_none|]; exact IH.
  - rewrite ?abs_cons_real. simpl. rewrite <- Hg. destruct (g k' (IReal q)); [rewrite ?abs_cons_real; f_equal|]; exact IH.
Qed.

Lemma abs_visible c : map kreal (abs c) = visible c.
Proof.
  unfold visible. induction c as [|[k [|p]] c IH]; simpl; [reflexivity| |].
  - rewrite ?abs_cons_none. exact IH.
  - rewrite ?abs_cons_real. simpl. f_equal. exact IH.
Qed.

Lemma abs_length c : length (abs c) = t_len c.
Proof. unfold t_len. rewrite <- abs_visible, map_length. reflexivity. Qed.

Lemma im_get_insert k p k2 (c0 : imap item) :
  im_get k2 (im_insert k p c0) = if bytes_eqb k k2 then Some p else im_get k2 c0.
Proof.
  induction c0 as [|[k' i] c0 IH0]; simpl.
  - destruct (bytes_eqb k k2); reflexivity.
  - destruct (bytes_eqb k' k) eqn:E1; simpl.
    + apply bytes_eqb_eq in E1. subst. destruct (bytes_eqb k k2); reflexivity.
    + destruct (bytes_eqb k' k2) eqn:E2; [|exact IH0].
      apply bytes_eqb_eq in E2. subst. rewrite bytes_eqb_sym, E1. reflexivity.
Qed.

(* -- dropping a placeholder -- *)
Lemma im_get_remove_same {V} k (c : list (bytes * V)) : NoDup (keys c) -> im_get k (im_shift_remove k c) = None.
Proof.
  induction c as [|[k' v] c IH]; simpl; intro H; [reflexivity|].
  inversion H as [|? ? Hn Hc]; subst.
  destruct (bytes_eqb k' k) eqn:E.
  - apply bytes_eqb_eq in E. subst. apply im_get_notin. exact Hn.
  - simpl. rewrite E. auto.
Qed.

Lemma abs_remove_ph k c : ph k c = true -> abs (im_shift_remove k c) = abs c.
Proof.
  unfold ph. induction c as [|[k' i] c IH]; simpl; [discriminate|].
  destruct (bytes_eqb k' k).
  - destruct i as [|q]; [intros _; reflexivity|discriminate].
  - intro H. destruct i as [|q]; [rewrite ?abs_cons_none|rewrite ?abs_cons_real; f_equal]; auto.
Qed.

Lemma abs_purge k c : abs (purge k c) = abs c.
Proof. unfold purge. destruct (ph k c) eqn:E; [apply abs_remove_ph; exact E|reflexivity]. Qed.

Lemma NoDup_purge k (c : imap item) : NoDup (keys c) -> NoDup (keys (purge k c)).
Proof. unfold purge. destruct (ph k c); [apply NoDup_remove|auto]. Qed.

Lemma ph_purge k c : NoDup (keys c) -> ph k (purge k c) = false.
Proof.
  intro H. unfold purge. destruct (ph k c) eqn:E; [|exact E].
  unfold ph. rewrite im_get_remove_same by exact H. reflexivity.
Qed.

Lemma NoDup_extend_p l (c : imap item) : NoDup (keys c) -> NoDup (keys (im_extend_p l c)).
Proof.
  revert c. induction l as [|[k v] l IH]; simpl; intros c H; [assumption|].
  apply IH. apply NoDup_insert. apply NoDup_purge. assumption.
Qed.

Lemma abs_extend_p (n : pay -> pay) l c :
  NoDup (keys c) ->
  abs (im_extend_p (map (fun kv => (fst kv, IReal (n (snd kv)))) l) c)
  = fold_left (fun acc kv => om_insert (fst kv) (n (snd kv)) acc) l (abs c).
Proof.
  revert c. induction l as [|[k p] l IH]; simpl; intros c H; [reflexivity|].
  rewrite IH by (apply NoDup_insert, NoDup_purge; exact H).
  rewrite abs_insert_real by (first [apply NoDup_purge; exact H | apply ph_purge; exact H]).
  rewrite abs_purge. reflexivity.
Qed.
(* ==================================================================================== *)
(** * E. comparators are total preorders; small facts about items *)

Lemma rank_leb_trans a b c : rank_leb a b = true -> rank_leb b c = true -> rank_leb a c = true.
Proof. unfold rank_leb. lia. Qed.
Lemma rank_leb_total a b : rank_leb a b = false -> rank_leb b a = true.
Proof. unfold rank_leb. lia. Qed.

Definition kasc_le (a b : bytes * item) : bool := key_leb (fst a) (fst b).

Lemma kasc_trans {V} (a b c : bytes * V) :
  key_leb (fst a) (fst b) = true -> key_leb (fst b) (fst c) = true -> key_leb (fst a) (fst c) = true.
Proof. apply key_leb_trans. Qed.
Lemma kasc_total {V} (a b : bytes * V) : key_leb (fst a) (fst b) = false -> key_leb (fst b) (fst a) = true.
Proof. apply key_leb_total. Qed.

Lemma tcmp_le_trans cm a b c : tcmp_le cm a b = true -> tcmp_le cm b c = true -> tcmp_le cm a c = true.
Proof.
  destruct cm; simpl.
  - intros H1 H2. eapply key_leb_trans; eauto.
  - apply rank_leb_trans.
Qed.
Lemma tcmp_le_total cm a b : tcmp_le cm a b = false -> tcmp_le cm b a = true.
Proof. destruct cm; simpl; [apply key_leb_total|apply rank_leb_total]. Qed.

Lemma as_value_is i : as_value i = if is_value i then Some i else None.
Proof. reflexivity. Qed.

Lemma icmp_le_alt cm a b :
  icmp_le cm a b =
  match is_value (snd a), is_value (snd b) with
  | true, true => tcmp_le cm a b
  | true, false => false
  | false, _ => true
  end.
Proof.
  unfold icmp_le. rewrite !as_value_is.
  destruct (is_value (snd a)), (is_value (snd b)); destruct cm; reflexivity.
Qed.

Lemma icmp_le_trans cm a b c : icmp_le cm a b = true -> icmp_le cm b c = true -> icmp_le cm a c = true.
Proof.
  rewrite !icmp_le_alt.
  destruct (is_value (snd a)), (is_value (snd b)), (is_value (snd c)); try congruence.
  apply tcmp_le_trans.
Qed.
Lemma icmp_le_total cm a b : icmp_le cm a b = false -> icmp_le cm b a = true.
Proof.
  rewrite !icmp_le_alt.
  destruct (is_value (snd a)), (is_value (snd b)); try congruence.
  apply tcmp_le_total.
Qed.

Definition notab (i : item) : Prop := i <> IReal PTab.

Lemma is_value_real q : q <> PTab -> is_value (IReal q) = true.
Proof. destruct q; simpl; congruence. Qed.
Lemma as_value_real q : q <> PTab -> as_value (IReal q) = Some (IReal q).
Proof. intro H. unfold as_value. rewrite is_value_real; auto. Qed.
Lemma into_value_real q : q <> PTab -> into_value (IReal q) = Some (IReal q).
Proof. destruct q; simpl; congruence. Qed.
Lemma hack_real q : q <> PTab -> hack (IReal q) = IReal q.
Proof. intro H. unfold hack. rewrite into_value_real; auto. Qed.

Lemma anyph_false_visible c : anyph c = false -> visible c = c.
Proof.
  unfold anyph, visible. induction c as [|[k i] c IH]; simpl; [reflexivity|].
  intro H. apply orb_false_iff in H as [H1 H2]. rewrite H1. simpl. f_equal. auto.
Qed.

Lemma only_values_visible c : Forall (fun kv => notab (snd kv)) c -> only_values c = visible c.
Proof.
  unfold only_values, visible. induction c as [|[k i] c IH]; simpl; intro H; [reflexivity|].
  inversion H as [|? ? Hi Hc]; subst. simpl in Hi. rewrite (IH Hc).
  destruct i as [|[z| |]]; simpl; try reflexivity. exfalso. apply Hi. reflexivity.
Qed.

Lemma im_retain_ext {V} (g g2 : bytes -> V -> bool) c :
  Forall (fun kv => g (fst kv) (snd kv) = g2 (fst kv) (snd kv)) c -> im_retain g c = im_retain g2 c.
Proof.
  induction c as [|[k i] c IH]; simpl; intro H; [reflexivity|].
  inversion H as [|? ? Hi Hc]; subst. simpl in Hi. rewrite Hi, (IH Hc). reflexivity.
Qed.

Lemma emp_eq {A} (m : list A) : (match m with [] => true | _ => false end) = Nat.eqb (length m) 0.
Proof. destruct m; reflexivity. Qed.

Lemma norm_notab kd p : kd = KInline \/ kd = KInlineTL -> norm kd p <> PTab.
Proof. intros [->| ->]; destruct p; simpl; congruence. Qed.

Lemma existsb_ph_nil (l : list (bytes * pay)) : existsb (fun kv => ph (fst kv) []) l = false.
Proof. induction l as [|x l IH]; simpl; [reflexivity|exact IH]. Qed.

(* sorting commutes with abs *)
Lemma abs_sort le le' c :
  (forall a b c0, le a b = true -> le b c0 = true -> le a c0 = true) ->
  (forall a b, le a b = false -> le b a = true) ->
  forall Q : bytes * item -> Prop,
  (forall a b y z, Q a -> Q b -> keep a = Some y -> keep b = Some z -> le' y z = le a b) ->
  Forall Q c ->
  abs (im_sort_by le c) = om_sort_by le' (abs c).
Proof.
  intros Ht Hto Q Hc HQ. unfold om_sort_by. rewrite im_sort_by_eq, !abs_pmap.
  apply (pmap_stable_sort le le' keep Q Ht Hto Hc). exact HQ.
Qed.

Lemma keep_real a y : keep a = Some y -> a = (fst y, IReal (snd y)).
Proof. destruct a as [k [|p]]; unfold keep; simpl; [discriminate|]. intro H. injection H as <-. reflexivity. Qed.
(* ==================================================================================== *)
(** * F. one call: Table / InlineTable / TableLike-for-InlineTable versus the reference map *)

Local Arguments om_insert {V} k v m : simpl never.
Local Arguments om_remove {V} k m : simpl never.
Local Arguments om_get {V} k m : simpl never.
Local Arguments om_mem {V} k m : simpl never.
Local Arguments om_retain {V} f m : simpl never.
Local Arguments om_sort_by {V} le m : simpl never.
Local Arguments om_sort_keys {V} m : simpl never.
Local Arguments norm kd p : simpl never.
Local Arguments visible c : simpl never.
Local Arguments only_values c : simpl never.
Local Arguments t_len c : simpl never.
Local Arguments hack i : simpl never.
Local Arguments as_value i : simpl never.
Local Arguments into_value i : simpl never.
Local Arguments is_value i : simpl never.

Definition tkind (kd : mkind) : Prop := kd = KTable \/ kd = KInline \/ kd = KInlineTL.
Definition Inv (kd : mkind) (c : imap item) : Prop :=
  NoDup (keys c) /\ (kd <> KTable -> Forall (fun kv => notab (snd kv)) c).
Definition sim (kd : mkind) (r : imap item * out) (r' : omap pay * out) : Prop :=
  Inv kd (fst r) /\ abs (fst r) = fst r' /\ snd r = snd r'.

Lemma ref_get k c :
  NoDup (keys c) -> om_get k (abs c) = match im_get k c with Some (IReal p) => Some p | _ => None end.
Proof. intro H. rewrite om_get_eq. apply abs_get. exact H. Qed.
Lemma ref_mem k c :
  NoDup (keys c) -> om_mem k (abs c) = match im_get k c with Some (IReal p) => true | _ => false end.
Proof. intro H. rewrite om_mem_eq, abs_get by assumption. destruct (im_get k c) as [[|p]|]; reflexivity. Qed.

Lemma hack_notab i : notab (hack i).
Proof. unfold notab, hack, into_value. destruct i as [|[z| |]]; congruence. Qed.

Lemma Inv_nil kd : Inv kd [].
Proof. split; [constructor|intros _; constructor]. Qed.
Lemma Inv_insert kd k i c : Inv kd c -> (kd <> KTable -> notab i) -> Inv kd (im_insert k i c).
Proof.
  intros [ND NT] Hi. split; [apply NoDup_insert; exact ND|].
  intro Hk. apply (Forall_insert notab); auto.
Qed.
Lemma Inv_remove kd k c : Inv kd c -> Inv kd (im_shift_remove k c).
Proof.
  intros [ND NT]. split; [apply NoDup_remove; exact ND|].
  intro Hk. apply (Forall_remove notab); auto.
Qed.
Lemma Inv_retain kd f c : Inv kd c -> Inv kd (im_retain f c).
Proof.
  intros [ND NT]. split; [apply NoDup_retain; exact ND|].
  intro Hk. apply (Forall_retain notab); auto.
Qed.
Lemma Inv_sort kd le c : Inv kd c -> Inv kd (im_sort_by le c).
Proof.
  intros [ND NT]. split; [apply NoDup_sort; exact ND|].
  intro Hk. apply (Forall_sort notab); auto.
Qed.
Lemma Inv_purge kd k c : Inv kd c -> Inv kd (purge k c).
Proof. intro HI. unfold purge. destruct (ph k c); [apply Inv_remove|]; exact HI. Qed.
Lemma Inv_extend kd l c :
  Inv kd c -> (kd <> KTable -> Forall (fun kv => notab (snd kv)) l) -> Inv kd (im_extend_p l c).
Proof.
  revert c. induction l as [|[k v] l IH]; simpl; intros c HI Hl; [exact HI|].
  apply IH.
  - apply Inv_insert; [apply Inv_purge; exact HI|]. intro Hn. specialize (Hl Hn). inversion Hl; subst. assumption.
  - intro Hn. specialize (Hl Hn). inversion Hl; subst. assumption.
Qed.

Lemma notab_norm kd p : tkind kd -> kd <> KTable -> notab (IReal (norm kd p)).
Proof.
  intros [->|H] Hk; [congruence|]. unfold notab. pose proof (norm_notab kd p H). congruence.
Qed.
Lemma notab_none : notab INone.
Proof. unfold notab. congruence. Qed.

Lemma ref_insert_t kd : tkind kd -> ref_insert kd = om_insert.
Proof. intros [->|[->| ->]]; reflexivity. Qed.
Lemma is_map_kind_t kd : tkind kd -> is_map_kind kd = false.
Proof. intros [->|[->| ->]]; reflexivity. Qed.

Section OneCall.
  Variable kd : mkind.
  Variable c : imap item.
  Hypothesis Hk : tkind kd.
  Hypothesis HI : Inv kd c.

  Let ND : NoDup (keys c) := proj1 HI.

  Lemma get_notab k q : kd <> KTable -> im_get k c = Some (IReal q) -> q <> PTab.
  Proof.
    intros Hn G. pose proof (Forall_get notab k c _ (proj2 HI Hn) G) as H. unfold notab in H. congruence.
  Qed.

  (* inserting a real item at a key that is not a placeholder *)
  Lemma L_ins k p :
    ph k c = false ->
    Inv kd (im_insert k (IReal (norm kd p)) c) /\
    abs (im_insert k (IReal (norm kd p)) c) = om_insert k (norm kd p) (abs c).
  Proof.
    intros Hp. split.
    - apply Inv_insert; [exact HI|]. intro. apply notab_norm; assumption.
    - apply abs_insert_real; assumption.
  Qed.
  Lemma L_rm k : Inv kd (im_shift_remove k c) /\ abs (im_shift_remove k c) = om_remove k (abs c).
  Proof. split; [apply Inv_remove; exact HI|apply abs_remove; exact ND]. Qed.
  Lemma L_touch k : im_get k c = None -> Inv kd (im_insert k INone c) /\ abs (im_insert k INone c) = abs c.
  Proof.
    intro G. split; [|apply abs_insert_none; exact G].
    apply Inv_insert; [exact HI|]. intro. apply notab_none.
  Qed.
End OneCall.

Lemma retain_inline f c :
  Forall (fun kv => notab (snd kv)) c ->
  im_retain (fun k i => match as_value i with Some v => pred_eval f k v | None => false end) c
  = im_retain (fun k i => negb (is_none i) && pred_eval f k i) c.
Proof.
  intro H. apply im_retain_ext. eapply Forall_impl; [|exact H].
  intros [k [|q]] Hn; simpl in *; [reflexivity|].
  rewrite as_value_real; [reflexivity|]. unfold notab in Hn. congruence.
Qed.

Lemma sort_keys_sim kd c :
  Inv kd c ->
  Inv kd (im_sort_by (fun a b : bytes * item => key_leb (fst a) (fst b)) c) /\
  abs (im_sort_by (fun a b : bytes * item => key_leb (fst a) (fst b)) c) = om_sort_keys (abs c).
Proof.
  intro HI. split; [apply Inv_sort; exact HI|].
  unfold om_sort_keys. apply abs_sort with (Q := fun _ => True).
  - intros a b d. apply key_leb_trans.
  - intros a b. apply key_leb_total.
  - intros a b y z _ _ Ha Hb. apply keep_real in Ha. apply keep_real in Hb. subst. reflexivity.
  - apply Forall_forall. auto.
Qed.

Lemma sort_by_table_sim cm c :
  Inv KTable c ->
  Inv KTable (im_sort_by (tcmp_le cm) c) /\
  abs (im_sort_by (tcmp_le cm) c) = om_sort_by (cmp_le cm) (abs c).
Proof.
  intro HI. split; [apply Inv_sort; exact HI|].
  apply abs_sort with (Q := fun _ => True).
  - apply tcmp_le_trans.
  - apply tcmp_le_total.
  - intros a b y z _ _ Ha Hb. apply keep_real in Ha. apply keep_real in Hb. subst. destruct cm; reflexivity.
  - apply Forall_forall. auto.
Qed.

Lemma sort_by_inline_sim kd cm c :
  kd <> KTable -> Inv kd c ->
  Inv kd (im_sort_by (icmp_le cm) c) /\
  abs (im_sort_by (icmp_le cm) c) = om_sort_by (cmp_le cm) (abs c).
Proof.
  intros Hk HI. split; [apply Inv_sort; exact HI|].
  apply abs_sort with (Q := fun kv => notab (snd kv)).
  - apply icmp_le_trans.
  - apply icmp_le_total.
  - intros a b y z Qa Qb Ha Hb. apply keep_real in Ha. apply keep_real in Hb. subst. simpl in *.
    rewrite icmp_le_alt. simpl.
    rewrite !is_value_real by (unfold notab in *; congruence). destruct cm; reflexivity.
  - exact (proj2 HI Hk).
Qed.

Lemma extend_sim kd l c :
  tkind kd -> Inv kd c ->
  Inv kd (im_extend_p (map (fun kv : bytes * pay => (fst kv, IReal (norm kd (snd kv)))) l) c) /\
  abs (im_extend_p (map (fun kv : bytes * pay => (fst kv, IReal (norm kd (snd kv)))) l) c)
  = fold_left (fun (acc : omap pay) (kv : bytes * pay) => om_insert (fst kv) (norm kd (snd kv)) acc) l (abs c).
Proof.
  intros Hk HI. split.
  - apply Inv_extend; [exact HI|]. intro Hn. apply Forall_forall. intros x Hx.
    apply in_map_iff in Hx as [kv [<- _]]. simpl. apply notab_norm; assumption.
  - apply (abs_extend_p (norm kd)). exact (proj1 HI).
Qed.

(* "this call meets a placeholder under its key": never the case after `prep` *)
Definition tsens' (kd : mkind) (c : imap item) (o : mop) : bool :=
  match o with
  | MIns k _ | MInsF k _ | MEnt k | MEoi k _ | MEins k _ | MErm k | MGoi k _ | MISet k _ | MIoi k _ => ph k c
  | MRm k | MRmE k => match kd with KTable => ph k c | _ => false end
  | _ => false
  end.

Lemma tbody_sim kd c o :
  tkind kd -> Inv kd c -> avail kd o = true -> tsens' kd c o = false ->
  sim kd (tbody kd c o) (ref_step kd (abs c) o).
Proof.
  intros Hk HI Av Hs. pose proof (proj1 HI) as ND.
  unfold sim, tbody, ref_step. unfold tsens' in Hs.
  rewrite (ref_insert_t kd Hk), (is_map_kind_t kd Hk).
  rewrite Av; cbn [negb andb] in *.
  destruct o.
  all: try (pose proof (ref_get k c ND) as G; pose proof (ref_mem k c ND) as M).
  all: try (pose proof (L_ins kd c Hk HI k p) as Li).
  all: try (pose proof (L_rm kd c HI k) as [Lr1 Lr2]).
  all: try (pose proof (L_touch kd c HI k) as Lt).
  all: try (pose proof (get_notab kd c HI k) as Lq).
  all: destruct Hk as [->|[->| ->]]; cbn in Av; try discriminate Av; clear Av.
  all: cbn in Hs; cbn.
  all: try (unfold ph in *; destruct (im_get k c) as [[|q]|] eqn:Gk; try discriminate Hs).
  all: try rewrite G; try rewrite M; cbn.
  all: try (destruct Li as [Li1 Li2]; [reflexivity|]).
  all: try (assert (Hq : q <> PTab) by (apply Lq; [discriminate|reflexivity])).
  all: rewrite ?into_value_real, ?as_value_real, ?hack_real, ?is_value_real by assumption.
  all: unfold real in *.
  all: try (solve [split; [first [assumption | apply Inv_nil] | split; [first [assumption | reflexivity] | first [reflexivity | destruct q; reflexivity || congruence]]]]).
  all: rewrite ?abs_length, ?emp_eq, ?abs_length, ?abs_visible.
  all: try rewrite (only_values_visible c) by (apply (proj2 HI); discriminate).
  all: try rewrite (im_insert_same k (IReal q) c Gk).
  all: try rewrite (retain_inline f c) by (apply (proj2 HI); discriminate).
  all: try (solve [split; [first [assumption | apply Inv_nil] | split; reflexivity]]).
  all: try (solve [split; [apply Inv_retain; assumption | split; [apply abs_retain; reflexivity | reflexivity]]]).
  all: try (solve [destruct (sort_keys_sim _ c HI); auto]).
  all: try (solve [destruct (sort_by_table_sim c0 c HI); auto]).
  all: try (solve [destruct (Lt eq_refl); auto]).
  all: match goal with |- Inv ?K _ /\ _ => assert (HK : tkind K) by (unfold tkind; tauto) end.
  all: try (solve [destruct (extend_sim _ l c HK HI); auto]).
  all: try (solve [destruct (extend_sim _ l [] HK (Inv_nil _)); auto]).
  all: match goal with |- Inv ?K _ /\ _ => assert (HnK : K <> KTable) by discriminate end.
  all: destruct (sort_by_inline_sim _ c0 c HnK HI); auto.
Qed.

(* ---- the call with its `remove_placeholder` ---- *)
Lemma prep_facts kd c o :
  Inv kd c -> Inv kd (prep kd o c) /\ abs (prep kd o c) = abs c /\ tsens' kd (prep kd o c) o = false.
Proof.
  intro HI. pose proof (proj1 HI) as ND.
  assert (P : forall k, Inv kd (purge k c) /\ abs (purge k c) = abs c /\ ph k (purge k c) = false).
  { intro k. split; [apply Inv_purge; exact HI|]. split; [apply abs_purge|apply ph_purge; exact ND]. }
  destruct o; cbn [prep tsens']; try (split; [exact HI|split; reflexivity]); try apply P.
  - destruct kd; first [apply P | (split; [exact HI|split; reflexivity])].
  - destruct kd; first [apply P | (split; [exact HI|split; reflexivity])].
  - (* &mut c[k]: purged, and not a sensitive call *)
    destruct (P k) as [P1 [P2 _]]. auto.
Qed.

Lemma tstep_sim kd c o :
  tkind kd -> Inv kd c -> sim kd (tstep kd c o) (ref_step kd (abs c) o).
Proof.
  intros Hk HI. unfold tstep. destruct (avail kd o) eqn:Av; cbn [negb].
  - destruct (prep_facts kd c o HI) as [HI' [Ha Hs]]. rewrite <- Ha.
    apply tbody_sim; assumption.
  - unfold sim, ref_step. rewrite Av. cbn. auto.
Qed.

(* ---- the final observation ---- *)
Lemma anyph_false_get k c : anyph c = false -> im_get k c <> Some INone.
Proof.
  unfold anyph. induction c as [|[k' i] c IH]; simpl; [congruence|].
  intro H. apply orb_false_iff in H as [H1 H2].
  destruct (bytes_eqb k' k); [destruct i; [discriminate|congruence]|auto].
Qed.

Lemma t_values_table c :
  t_values c = filter (fun kv : bytes * pay => match snd kv with PTab => false | _ => true end) (abs c).
Proof.
  induction c as [|[k [|[z| |]]] c IH]; simpl; rewrite ?IH; reflexivity.
Qed.

Lemma t_values_inline c : Forall (fun kv => notab (snd kv)) c -> t_values c = abs c.
Proof.
  induction c as [|[k [|[z| |]]] c IH]; simpl; intro H; inversion H as [|? ? Hi Hc]; subst;
    try rewrite (IH Hc); try reflexivity.
  exfalso. apply Hi. reflexivity.
Qed.

Lemma tobserve_sim kd ks c :
  tkind kd -> Inv kd c -> tobserve kd ks c = ref_observe kd ks (abs c).
Proof.
  intros Hk HI. pose proof (proj1 HI) as ND.
  unfold tobserve, ref_observe. rewrite abs_length, emp_eq, abs_length, abs_visible.
  f_equal.
  - destruct Hk as [->|[->| ->]]; reflexivity.
  - apply map_ext. intro k. f_equal. rewrite (ref_get k c ND).
    pose proof (get_notab kd c HI k) as Lq.
    destruct Hk as [->|[->| ->]]; cbn; destruct (im_get k c) as [[|q]|] eqn:Gk; cbn; try reflexivity.
    rewrite as_value_real; [reflexivity|]. apply Lq; [discriminate|reflexivity].
  - apply map_ext. intro k. f_equal. rewrite (ref_mem k c ND).
    pose proof (get_notab kd c HI k) as Lq.
    destruct Hk as [->|[->| ->]]; cbn; destruct (im_get k c) as [[|q]|] eqn:Gk; cbn; try reflexivity.
    all: rewrite is_value_real; [reflexivity|]; apply Lq; [discriminate|reflexivity].
  - destruct Hk as [->|[->| ->]]; cbn.
    + apply t_values_table.
    + apply t_values_inline. apply (proj2 HI). discriminate.
    + apply t_values_inline. apply (proj2 HI). discriminate.
Qed.

(* ---- all histories ---- *)
Lemma run_cons {S O R} (step : S -> O -> S * R) s o h :
  run step s (o :: h) = (fst (run step (fst (step s o)) h), snd (step s o) :: snd (run step (fst (step s o)) h)).
Proof. simpl. destruct (step s o) as [s1 r]. simpl. destruct (run step s1 h) as [s2 rs]. reflexivity. Qed.

Lemma trun_sim kd : tkind kd -> forall h c, Inv kd c ->
  Inv kd (fst (run (tstep kd) c h)) /\
  abs (fst (run (tstep kd) c h)) = fst (run (ref_step kd) (abs c) h) /\
  snd (run (tstep kd) c h) = snd (run (ref_step kd) (abs c) h).
Proof.
  intros Hk. induction h as [|o h IH]; intros c HI.
  - simpl. split; [exact HI|]. split; reflexivity.
  - destruct (tstep_sim kd c o Hk HI) as [HI1 [Ha Ho]].
    rewrite !run_cons. cbn [fst snd].
    destruct (IH _ HI1) as [HI2 [Ha2 Ho2]].
    rewrite Ha in Ha2, Ho2. split; [exact HI2|]. split; [exact Ha2|]. congruence.
Qed.

(* EVERY history: what each call returns and what the container shows afterwards are those of
   the plain reference ordered map *)
Theorem table_like_refines kd h :
  tkind kd ->
  snd (run (tstep kd) [] h) = snd (run (ref_step kd) [] h) /\
  forall ks, tobserve kd ks (fst (run (tstep kd) [] h)) = ref_observe kd ks (fst (run (ref_step kd) [] h)).
Proof.
  intros Hk.
  destruct (trun_sim kd Hk h [] (Inv_nil kd)) as [HI [Ha Ho]].
  split; [exact Ho|]. intro ks. change (@nil (bytes * pay)) with (abs []). rewrite <- Ha.
  apply tobserve_sim; assumption.
Qed.

(* ---- invariants hold in every reachable state ---- *)
Lemma tstep_inv kd c o : tkind kd -> Inv kd c -> Inv kd (fst (tstep kd c o)).
Proof. intros Hk HI. exact (proj1 (tstep_sim kd c o Hk HI)). Qed.

Lemma trun_inv kd : tkind kd -> forall h c, Inv kd c -> Inv kd (fst (run (tstep kd) c h)).
Proof. intros Hk h c HI. exact (proj1 (trun_sim kd Hk h c HI)). Qed.

(* the read accessors in ANY reachable state show exactly the real entries *)
Theorem table_like_view kd h ks :
  tkind kd ->
  tobserve kd ks (fst (run (tstep kd) [] h)) = ref_observe kd ks (abs (fst (run (tstep kd) [] h))).
Proof. intro Hk. apply tobserve_sim; [exact Hk|]. apply trun_inv; [exact Hk|apply Inv_nil]. Qed.

(* placeholders are invisible: removing them physically changes no observation *)
Lemma im_get_visible k c : NoDup (keys c) -> im_get k (visible c) = flt (im_get k c).
Proof.
  unfold visible. induction c as [|[k' [|p]] c IH]; simpl; intro H; [reflexivity| |]; inversion H as [|? ? Hn Hc]; subst.
  - destruct (bytes_eqb k' k) eqn:E; [|auto]. apply bytes_eqb_eq in E. subst. simpl.
    apply im_get_notin. intro Hin. apply keys_retain in Hin. tauto.
  - simpl. destruct (bytes_eqb k' k); [reflexivity|auto].
Qed.

Lemma visible_idem c : visible (visible c) = visible c.
Proof.
  unfold visible. induction c as [|[k [|p]] c IH]; simpl; [reflexivity|exact IH|]. f_equal. exact IH.
Qed.

Lemma t_values_visible c : t_values (visible c) = t_values c.
Proof.
  unfold visible. induction c as [|[k [|[z| |]]] c IH]; simpl; rewrite ?IH; reflexivity.
Qed.

Lemma flt_idem o : flt (flt o) = flt o.
Proof. destruct o as [[|p]|]; reflexivity. Qed.

Theorem placeholders_invisible kd ks c :
  tkind kd -> NoDup (keys c) -> tobserve kd ks c = tobserve kd ks (visible c).
Proof.
  intros Hk ND. unfold tobserve, t_len. rewrite visible_idem, t_values_visible. f_equal.
  - destruct Hk as [->|[->| ->]]; cbn; rewrite visible_idem; reflexivity.
  - apply map_ext. intro k. f_equal.
    destruct Hk as [->|[->| ->]]; cbn; rewrite (im_get_visible k c ND); rewrite ?flt_idem; try reflexivity.
    destruct (im_get k c) as [[|p]|]; reflexivity.
  - apply map_ext. intro k. f_equal.
    destruct Hk as [->|[->| ->]]; cbn; rewrite (im_get_visible k c ND); destruct (im_get k c) as [[|p]|]; reflexivity.
Qed.
(* ==================================================================================== *)
(** * G. toml::map::Map: BTreeMap / IndexMap specification versus the reference maps *)

Section Sorted.
  Context {V : Type}.
  Implicit Types (c : list (bytes * V)).

  Definition klt (a b : bytes * V) : Prop := key_ltb (fst a) (fst b) = true.
  Definition ksorted c : Prop := sorted_by klt c.

  Lemma ksorted_NoDup c : ksorted c -> NoDup (keys c).
  Proof.
    induction c as [|[k v] c IH]; simpl; intro H; [constructor|]. destruct H as [Hf Hs].
    constructor; [|apply IH; exact Hs]. intro Hin. apply in_map_iff in Hin as [[k2 v2] [E Hin]]. simpl in E. subst.
    rewrite Forall_forall in Hf. specialize (Hf _ Hin). unfold klt in Hf. simpl in Hf.
    rewrite key_ltb_irrefl in Hf. discriminate.
  Qed.

  Lemma sorted_by_filter (R : bytes * V -> bytes * V -> Prop) f c : sorted_by R c -> sorted_by R (filter f c).
  Proof.
    induction c as [|x c IH]; simpl; intro H; [exact I|]. destruct H as [Hf Hs].
    destruct (f x); simpl; [|auto]. split; [|auto].
    apply Forall_forall. intros y Hy. apply filter_In in Hy as [Hy _]. rewrite Forall_forall in Hf. auto.
  Qed.

  Lemma filter_none f c : Forall (fun x => f x = false) c -> filter f c = [].
  Proof. induction c as [|x c IH]; simpl; intro H; [reflexivity|]. inversion H; subst. rewrite H2. auto. Qed.
  Lemma filter_all f c : Forall (fun x => f x = true) c -> filter f c = c.
  Proof. induction c as [|x c IH]; simpl; intro H; [reflexivity|]. inversion H; subst. rewrite H2. f_equal. auto. Qed.

  Lemma bt_insert_eq k v c : ksorted c -> bt_insert k v c = sm_insert k v c.
  Proof.
    unfold sm_insert. induction c as [|[k' v'] c IH]; simpl; intro H; [reflexivity|]. destruct H as [Hf Hs].
    assert (Hgt : forall x, In x c -> key_ltb k' (fst x) = true).
    { rewrite Forall_forall in Hf. exact Hf. }
    destruct (key_compare k k') eqn:E.
    - (* same key *)
      apply key_compare_eq in E. subst k'. rewrite key_ltb_irrefl. simpl.
      rewrite filter_none, filter_all; [reflexivity| |]; apply Forall_forall; intros x Hx; simpl.
      + apply Hgt. exact Hx.
      + apply key_ltb_asym. apply Hgt. exact Hx.
    - (* k < k' *)
      assert (L : key_ltb k k' = true) by (unfold key_ltb; rewrite E; reflexivity).
      rewrite (key_ltb_asym _ _ L), L. simpl.
      rewrite filter_none, filter_all; [reflexivity| |]; apply Forall_forall; intros x Hx; simpl.
      + eapply key_ltb_trans; [exact L|]. apply Hgt. exact Hx.
      + apply key_ltb_asym. eapply key_ltb_trans; [exact L|]. apply Hgt. exact Hx.
    - (* k' < k *)
      assert (L : key_ltb k' k = true).
      { unfold key_ltb. rewrite (key_compare_antisym k k'), E. reflexivity. }
      rewrite L, (key_ltb_asym _ _ L). simpl. rewrite (IH Hs). reflexivity.
  Qed.

  Lemma bt_insert_Forall (P : bytes -> Prop) k v c :
    Forall (fun kv => P (fst kv)) c -> P k -> Forall (fun kv => P (fst kv)) (bt_insert k v c).
  Proof.
    intros H Hk. induction c as [|[k' v'] c IH]; simpl; [repeat constructor; exact Hk|].
    inversion H; subst. destruct (key_compare k k'); repeat constructor; auto.
  Qed.

  Lemma bt_insert_sorted k v c : ksorted c -> ksorted (bt_insert k v c).
  Proof.
    induction c as [|[k' v'] c IH]; simpl; intro H; [split; [constructor|exact I]|]. destruct H as [Hf Hs].
    destruct (key_compare k k') eqn:E; simpl.
    - split; [exact Hf|exact Hs].
    - assert (L : key_ltb k k' = true) by (unfold key_ltb; rewrite E; reflexivity).
      split; [|split; [exact Hf|exact Hs]]. constructor; [exact L|].
      eapply Forall_impl; [|exact Hf]. intros x Hx. unfold klt in *. simpl in *. eapply key_ltb_trans; eauto.
    - assert (L : key_ltb k' k = true).
      { unfold key_ltb. rewrite (key_compare_antisym k k'), E. reflexivity. }
      split; [|apply IH; exact Hs]. apply (bt_insert_Forall (fun x => key_ltb k' x = true)); [exact Hf|exact L].
  Qed.
End Sorted.

Definition PInv (kd : mkind) (c : imap pay) : Prop :=
  match kd with KMapSorted => ksorted c | _ => NoDup (keys c) end.
Definition pkind (kd : mkind) : Prop := kd = KMapSorted \/ kd = KMapOrdered.

Lemma PInv_NoDup kd c : PInv kd c -> NoDup (keys c).
Proof. destruct kd; simpl; auto using ksorted_NoDup. Qed.

Lemma p_insert_sim kd k p c :
  pkind kd -> PInv kd c -> PInv kd (p_insert kd k p c) /\ p_insert kd k p c = ref_insert kd k p c.
Proof.
  intros [->| ->] HI; simpl in *.
  - split; [apply bt_insert_sorted; exact HI|apply bt_insert_eq; exact HI].
  - split; [apply NoDup_insert; exact HI|apply im_insert_eq; exact HI].
Qed.

Lemma p_remove_sim kd k c :
  pkind kd -> PInv kd c -> PInv kd (im_shift_remove k c) /\ im_shift_remove k c = om_remove k c.
Proof.
  intros Hk HI. pose proof (PInv_NoDup kd c HI) as ND. split; [|apply im_shift_remove_eq; exact ND].
  destruct Hk as [->| ->]; simpl in *.
  - rewrite im_shift_remove_eq by exact ND. apply sorted_by_filter. exact HI.
  - apply NoDup_remove. exact HI.
Qed.

Lemma p_retain_sim kd f c :
  pkind kd -> PInv kd c -> PInv kd (im_retain f c) /\ im_retain f c = om_retain f c.
Proof.
  intros Hk HI. split; [|apply im_retain_eq].
  destruct Hk as [->| ->]; simpl in *.
  - rewrite im_retain_eq. apply sorted_by_filter. exact HI.
  - apply NoDup_retain. exact HI.
Qed.

Lemma p_extend_sim kd l : pkind kd -> forall c, PInv kd c ->
  PInv kd (p_extend kd l c) /\
  p_extend kd l c = fold_left (fun acc kv => ref_insert kd (fst kv) (norm kd (snd kv)) acc) l c.
Proof.
  intros Hk. induction l as [|[k p] l IH]; intros c HI.
  - destruct Hk as [->| ->]; simpl; auto.
  - destruct (p_insert_sim kd k p c Hk HI) as [HI1 E1].
    destruct (IH _ HI1) as [HI2 E2].
    assert (En : norm kd p = p) by (destruct Hk as [->| ->]; reflexivity).
    cbn [fold_left fst snd]. rewrite En, <- E1, <- E2.
    destruct Hk as [->| ->]; simpl in *; auto.
Qed.

Lemma PInv_nil kd : pkind kd -> PInv kd [].
Proof. intros [->| ->]; simpl; [exact I|constructor]. Qed.

Local Arguments om_insert {V} k v m : simpl never.
Local Arguments sm_insert {V} k v m : simpl never.
Local Arguments om_remove {V} k m : simpl never.
Local Arguments om_get {V} k m : simpl never.
Local Arguments om_mem {V} k m : simpl never.
Local Arguments om_retain {V} f m : simpl never.
Local Arguments p_insert kd k p c : simpl never.
Local Arguments p_extend kd l c : simpl never.
Local Arguments ref_insert kd k p m : simpl never.

Lemma pstep_sim kd c o :
  pkind kd -> PInv kd c ->
  PInv kd (fst (pstep kd c o)) /\ fst (pstep kd c o) = fst (ref_step kd c o) /\ snd (pstep kd c o) = snd (ref_step kd c o).
Proof.
  intros Hk HI. unfold pstep, ref_step.
  destruct (avail kd o) eqn:Av; cbn [negb]; [|cbn; auto].
  assert (Hm : is_map_kind kd = true) by (destruct Hk as [->| ->]; reflexivity).
  assert (Hn : forall p, norm kd p = p) by (intro p; destruct Hk as [->| ->]; reflexivity).
  rewrite Hm.
  destruct o.
  all: try (destruct (p_insert_sim kd k p c Hk HI) as [Li1 Li2]).
  all: try (destruct (p_remove_sim kd k c Hk HI) as [Lr1 Lr2]).
  all: try (destruct (p_retain_sim kd (fun k p => pred_eval f k (IReal p)) c Hk HI) as [Lf1 Lf2]).
  all: try (destruct (p_extend_sim kd l Hk c HI) as [Le1 Le2]).
  all: try (destruct (p_extend_sim kd l Hk [] (PInv_nil kd Hk)) as [Lg1 Lg2]).
  all: try (destruct Hk as [->| ->]; discriminate Av).
  all: cbn [fst snd]; rewrite ?Hn, ?om_get_eq, ?om_mem_eq, ?emp_eq; unfold real.
  all: try (destruct (im_get k c) as [q|] eqn:Gk; cbn).
  all: try (solve [repeat split; first [assumption | reflexivity | apply PInv_nil; assumption]]).
Qed.

Lemma prun_sim kd : pkind kd -> forall h c, PInv kd c ->
  PInv kd (fst (run (pstep kd) c h)) /\
  fst (run (pstep kd) c h) = fst (run (ref_step kd) c h) /\
  snd (run (pstep kd) c h) = snd (run (ref_step kd) c h).
Proof.
  intros Hk. induction h as [|o h IH]; intros c HI.
  - simpl. auto.
  - destruct (pstep_sim kd c o Hk HI) as [HI1 [Ha Ho]].
    rewrite !run_cons. cbn [fst snd]. destruct (IH _ HI1) as [HI2 [Ha2 Ho2]].
    rewrite Ha in *. split; [exact HI2|]. split; [exact Ha2|]. congruence.
Qed.

Lemma pobserve_sim kd ks c : pkind kd -> pobserve ks c = ref_observe kd ks c.
Proof.
  intro Hk. unfold pobserve, ref_observe. rewrite emp_eq. f_equal.
  - apply map_ext. intro k. rewrite om_get_eq. reflexivity.
  - apply map_ext. intro k. rewrite om_mem_eq. reflexivity.
  - destruct Hk as [->| ->]; reflexivity.
Qed.

Theorem map_refines kd h :
  pkind kd ->
  snd (run (pstep kd) [] h) = snd (run (ref_step kd) [] h) /\
  forall ks, pobserve ks (fst (run (pstep kd) [] h)) = ref_observe kd ks (fst (run (ref_step kd) [] h)).
Proof.
  intro Hk. destruct (prun_sim kd Hk h [] (PInv_nil kd Hk)) as [_ [Ha Ho]].
  split; [exact Ho|]. intro ks. rewrite <- Ha. apply pobserve_sim. exact Hk.
Qed.
(* ==================================================================================== *)
(** * H. Array / ArrayOfTables: Vec specification versus the reference vector *)

Lemma v_get_eq i : forall v, v_get i v = nth_error v i.
Proof. induction i as [|i IH]; intros [|y v]; simpl; auto. Qed.

Lemma v_insert_eq i x : forall v, v_insert i x v = vec_insert i x v.
Proof.
  unfold vec_insert. induction i as [|i IH]; intros [|y v]; simpl; try reflexivity.
  rewrite IH. destruct (i <=? length v)%nat; reflexivity.
Qed.

Lemma v_remove_eq i : forall v, v_remove i v = vec_remove i v.
Proof.
  unfold vec_remove. induction i as [|i IH]; intros [|y v]; simpl; try reflexivity.
  rewrite IH. destruct (nth_error v i); reflexivity.
Qed.

Lemma v_replace_eq i x : forall v, v_replace i x v = vec_replace i x v.
Proof.
  unfold vec_replace. induction i as [|i IH]; intros [|y v]; simpl; try reflexivity.
  rewrite IH. destruct (nth_error v i); reflexivity.
Qed.

Lemma v_retain_eq f v : v_retain f v = filter f v.
Proof. induction v as [|y v IH]; simpl; [reflexivity|]. rewrite IH. reflexivity. Qed.

Lemma v_ins_sorted_eq le x v : v_ins_sorted le x v = sorted_insert le x v.
Proof. induction v as [|y v IH]; simpl; [reflexivity|]. rewrite IH. reflexivity. Qed.
Lemma v_sort_by_eq le v : v_sort_by le v = stable_sort le v.
Proof. induction v as [|y v IH]; simpl; [reflexivity|]. rewrite v_ins_sorted_eq, IH. reflexivity. Qed.

Lemma v_extend_eq l : forall v, v_extend l v = v ++ l.
Proof.
  induction l as [|x l IH]; intro v; simpl; [rewrite app_nil_r; reflexivity|].
  rewrite IH, <- app_assoc. reflexivity.
Qed.

Lemma v_gets_eq c n : forall i, v_gets n i c = map (fun j => (j, nth_error c j)) (seq i n).
Proof. induction n as [|n IH]; intro i; simpl; [reflexivity|]. rewrite v_get_eq, IH. reflexivity. Qed.

Lemma vstep_eq kd c o : vstep kd c o = vref_step kd c o.
Proof.
  unfold vstep, vref_step. destruct (vavail kd o); cbn [negb]; [|reflexivity].
  destruct o; rewrite ?v_insert_eq, ?v_remove_eq, ?v_replace_eq, ?v_get_eq, ?v_retain_eq, ?v_sort_by_eq,
    ?v_extend_eq, ?emp_eq; reflexivity.
Qed.

Lemma run_ext {S O R} (f g : S -> O -> S * R) : (forall s o, f s o = g s o) -> forall h s, run f s h = run g s h.
Proof. intros E. induction h as [|o h IH]; intro s; simpl; [reflexivity|]. rewrite E. destruct (g s o). rewrite IH. reflexivity. Qed.

Lemma vobserve_eq c : vobserve c = vref_observe c.
Proof. unfold vobserve, vref_observe. rewrite emp_eq, v_gets_eq. reflexivity. Qed.

Theorem vec_refines kd h :
  snd (run (vstep kd) [] h) = snd (run (vref_step kd) [] h) /\
  vobserve (fst (run (vstep kd) [] h)) = vref_observe (fst (run (vref_step kd) [] h)).
Proof.
  rewrite (run_ext (vstep kd) (vref_step kd) (vstep_eq kd)). split; [reflexivity|apply vobserve_eq].
Qed.

(* ==================================================================================== *)
(** * I. no call sees a placeholder; the former witnesses of the placeholder class *)

(* in any reachable state EVERY call (not only the read accessors) answers like the reference map *)
Theorem calls_blind kd h o :
  tkind kd ->
  snd (tstep kd (fst (run (tstep kd) [] h)) o) = snd (ref_step kd (abs (fst (run (tstep kd) [] h))) o).
Proof.
  intros Hk.
  pose proof (trun_inv kd Hk h [] (Inv_nil kd)) as HI.
  destruct (tstep_sim kd _ o Hk HI) as [_ [_ Ho]]. exact Ho.
Qed.

Theorem placeholders_invisible_reachable kd h ks :
  tkind kd ->
  tobserve kd ks (fst (run (tstep kd) [] h)) = tobserve kd ks (visible (fst (run (tstep kd) [] h))).
Proof.
  intro Hk. apply placeholders_invisible; [exact Hk|].
  exact (proj1 (trun_inv kd Hk h [] (Inv_nil kd))).
Qed.

Definition ka : bytes := ["a"%byte].
Definition kb : bytes := ["b"%byte].

(* the histories on which the containers were NOT plain ordered maps before the repair
   (finding C16-placeholder-residue), kept as regression examples *)
(* Table: `let _ = &mut t["a"]; t.insert("a", 1)` returned Some(Item::None) *)
Definition w_table_insert : list mop := [MIdxM ka; MIns ka (PInt 1)].
(* Table: `let _ = &mut t["a"]; t.entry("a").or_insert(1)` returned the none item and stored nothing *)
Definition w_table_or_insert : list mop := [MIdxM ka; MEoi ka (PInt 1); MLen].
(* Table: a placeholder reserved a position: a, b instead of b, a *)
Definition w_table_order : list mop := [MIdxM ka; MISet kb (PInt 1); MISet ka (PInt 2); MIter].
(* InlineTable: `entry("a")` on a placeholder turned it into `{}` *)
Definition w_inline_entry : list mop := [MIdxM ka; MEnt ka; MLen].
(* InlineTable: `get_or_insert("a", 1)` on a placeholder panicked *)
Definition w_inline_goi : list mop := [MIdxM ka; MGoi ka (PInt 1)].
(* TableLike for InlineTable: entry("a") was Occupied(Item::None), or_insert stored nothing *)
Definition w_tl_entry : list mop := [MIdxM ka; MEoi ka (PInt 1); MLen].

Definition agrees (kd : mkind) (h : list mop) : Prop :=
  snd (run (tstep kd) [] h) = snd (run (ref_step kd) [] h).

Lemma w_table_insert_agrees : agrees KTable w_table_insert.
Proof. vm_compute. reflexivity. Qed.
Lemma w_table_or_insert_agrees : agrees KTable w_table_or_insert.
Proof. vm_compute. reflexivity. Qed.
Lemma w_table_order_agrees : agrees KTable w_table_order.
Proof. vm_compute. reflexivity. Qed.
Lemma w_inline_entry_agrees : agrees KInline w_inline_entry.
Proof. vm_compute. reflexivity. Qed.
Lemma w_inline_goi_agrees : agrees KInline w_inline_goi.
Proof. vm_compute. reflexivity. Qed.
Lemma w_tl_entry_agrees : agrees KInlineTL w_tl_entry.
Proof. vm_compute. reflexivity. Qed.
