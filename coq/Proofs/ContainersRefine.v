(* Proofs/ContainersRefine.v — forward simulation between the container model
   (Model/Containers.v) and the reference containers (Spec/Ordered.v), property C16.

   abs drops the placeholder entries (`Item::None`).  For every call that does not meet a
   placeholder in a revealing way (tsens = false) the model's answer equals the reference's
   answer and abs commutes with the step; lifted to all histories by induction over the
   list of calls. *)
From TV Require Import Base.Prelude Spec.Ordered Model.Containers Proofs.ContainersOrder.
Require Import Lia ZifyBool ZifyN ZifyNat.
From Coq Require Import Permutation.

(* ==================================================================================== *)
(** * C. association lists: model functions versus reference functions *)

Notation keys c := (map fst c).

Section Assoc.
  Context {V : Type}.
  Implicit Types (c m : list (bytes * V)).

  Lemma im_get_In k c v : im_get k c = Some v -> In k (keys c).
  Proof.
    induction c as [|[k' v'] c IH]; simpl; [discriminate|].
    destruct (bytes_eqb k' k) eqn:E; [apply bytes_eqb_eq in E; auto|auto].
  Qed.

  Lemma im_get_notin k c : ~ In k (keys c) -> im_get k c = None.
  Proof.
    induction c as [|[k' v'] c IH]; simpl; [reflexivity|]. intro H.
    destruct (bytes_eqb k' k) eqn:E; [apply bytes_eqb_eq in E; tauto|apply IH; tauto].
  Qed.

  Lemma im_get_None_notin k c : im_get k c = None -> ~ In k (keys c).
  Proof.
    induction c as [|[k' v'] c IH]; simpl; [tauto|].
    destruct (bytes_eqb k' k) eqn:E; [discriminate|]. apply bytes_eqb_false in E. intros H [H1|H1]; [congruence|].
    apply IH; assumption.
  Qed.

  Lemma om_get_eq k m : om_get k m = im_get k m.
  Proof.
    unfold om_get. induction m as [|[k' v'] m IH]; simpl; [reflexivity|].
    unfold has_key at 1; simpl. destruct (bytes_eqb k' k); [reflexivity|exact IH].
  Qed.

  Lemma om_mem_eq k m : om_mem k m = is_some (im_get k m).
  Proof.
    unfold om_mem. induction m as [|[k' v'] m IH]; simpl; [reflexivity|].
    unfold has_key at 1; simpl. destruct (bytes_eqb k' k); [reflexivity|exact IH].
  Qed.

  Lemma om_remove_notin k m : ~ In k (keys m) -> om_remove k m = m.
  Proof.
    unfold om_remove. induction m as [|[k' v'] m IH]; simpl; [reflexivity|]. intro H.
    unfold has_key at 1; simpl. destruct (bytes_eqb k' k) eqn:E; [apply bytes_eqb_eq in E; tauto|].
    simpl. f_equal. apply IH. tauto.
  Qed.

  Lemma om_remove_cons k k' v' m :
    om_remove k ((k', v') :: m) = if bytes_eqb k' k then om_remove k m else (k', v') :: om_remove k m.
  Proof. unfold om_remove; simpl. unfold has_key at 1; simpl. destruct (bytes_eqb k' k); reflexivity. Qed.

  Lemma map_replace_notin k v m :
    ~ In k (keys m) -> map (fun kv : bytes * V => if has_key k kv then (fst kv, v) else kv) m = m.
  Proof.
    induction m as [|[k' v'] m IH]; simpl; [reflexivity|]. intro H.
    unfold has_key at 1; simpl. destruct (bytes_eqb k' k) eqn:E; [apply bytes_eqb_eq in E; tauto|].
    f_equal. apply IH. tauto.
  Qed.

  Lemma om_insert_cons_ne k v k' v' m :
    bytes_eqb k' k = false -> om_insert k v ((k', v') :: m) = (k', v') :: om_insert k v m.
  Proof.
    intro E. assert (Hk : has_key k (k', v') = false) by exact E.
    unfold om_insert, om_mem. cbn [existsb map]. rewrite Hk. cbn [orb].
    destruct (existsb (has_key k) m); reflexivity.
  Qed.

  Lemma om_insert_cons_eq k v k' v' m :
    bytes_eqb k' k = true -> ~ In k (keys m) -> om_insert k v ((k', v') :: m) = (k', v) :: m.
  Proof.
    intros E H. assert (Hk : has_key k (k', v') = true) by exact E.
    unfold om_insert, om_mem. cbn [existsb map]. rewrite Hk. cbn [orb fst].
    rewrite map_replace_notin by assumption. reflexivity.
  Qed.

  Lemma om_insert_nil k v : om_insert k v ([] : list (bytes * V)) = [(k, v)].
  Proof. reflexivity. Qed.

  (* IndexMap::insert = reference insert on duplicate-free lists *)
  Lemma im_insert_eq k v c : NoDup (keys c) -> im_insert k v c = om_insert k v c.
  Proof.
    induction c as [|[k' v'] c IH]; simpl; intro H; [reflexivity|].
    inversion H as [|? ? Hn Hc]; subst.
    destruct (bytes_eqb k' k) eqn:E.
    - rewrite om_insert_cons_eq; auto. apply bytes_eqb_eq in E. subst. exact Hn.
    - rewrite om_insert_cons_ne by assumption. f_equal. auto.
  Qed.

  Lemma im_shift_remove_eq k c : NoDup (keys c) -> im_shift_remove k c = om_remove k c.
  Proof.
    induction c as [|[k' v'] c IH]; intro H; [reflexivity|]. cbn [im_shift_remove].
    inversion H as [|? ? Hn Hc]; subst. rewrite om_remove_cons.
    destruct (bytes_eqb k' k) eqn:E.
    - apply bytes_eqb_eq in E. subst. symmetry. apply om_remove_notin. exact Hn.
    - f_equal. auto.
  Qed.

  Lemma im_retain_eq f c : im_retain f c = om_retain f c.
  Proof.
    unfold om_retain. induction c as [|[k' v'] c IH]; simpl; [reflexivity|].
    destruct (f k' v'); rewrite IH; reflexivity.
  Qed.

  Lemma im_insert_same k v c : im_get k c = Some v -> im_insert k v c = c.
  Proof.
    induction c as [|[k' v'] c IH]; simpl; [discriminate|].
    destruct (bytes_eqb k' k); [intro H; injection H as ->; reflexivity|].
    intro H. f_equal. auto.
  Qed.

  (* keys, NoDup and value invariants *)
  Lemma keys_insert x k v c : In x (keys (im_insert k v c)) -> x = k \/ In x (keys c).
  Proof.
    induction c as [|[k' v'] c IH]; simpl; [intuition congruence|].
    destruct (bytes_eqb k' k) eqn:E; simpl; [tauto|]. intros [H|H]; [tauto|]. apply IH in H. tauto.
  Qed.

  Lemma NoDup_insert k v c : NoDup (keys c) -> NoDup (keys (im_insert k v c)).
  Proof.
    induction c as [|[k' v'] c IH]; simpl; intro H; [repeat constructor; simpl; tauto|].
    inversion H as [|? ? Hn Hc]; subst.
    destruct (bytes_eqb k' k) eqn:E; simpl; [constructor; assumption|].
    constructor; [|auto]. intro Hin. apply keys_insert in Hin. apply bytes_eqb_false in E.
    destruct Hin; [congruence|tauto].
  Qed.

  Lemma keys_remove x k c : In x (keys (im_shift_remove k c)) -> In x (keys c).
  Proof.
    induction c as [|[k' v'] c IH]; simpl; [tauto|].
    destruct (bytes_eqb k' k); simpl; [tauto|]. intros [H|H]; [tauto|]. auto.
  Qed.

  Lemma NoDup_remove k c : NoDup (keys c) -> NoDup (keys (im_shift_remove k c)).
  Proof.
    induction c as [|[k' v'] c IH]; simpl; intro H; [constructor|].
    inversion H as [|? ? Hn Hc]; subst.
    destruct (bytes_eqb k' k); simpl; [assumption|].
    constructor; [|auto]. intro Hin. apply keys_remove in Hin. tauto.
  Qed.

  Lemma keys_retain x f c : In x (keys (im_retain f c)) -> In x (keys c).
  Proof.
    induction c as [|[k' v'] c IH]; simpl; [tauto|].
    destruct (f k' v'); simpl; [|auto]. intros [H|H]; auto.
  Qed.

  Lemma NoDup_retain f c : NoDup (keys c) -> NoDup (keys (im_retain f c)).
  Proof.
    induction c as [|[k' v'] c IH]; simpl; intro H; [constructor|].
    inversion H as [|? ? Hn Hc]; subst.
    destruct (f k' v'); simpl; [|auto].
    constructor; [|auto]. intro Hin. apply keys_retain in Hin. tauto.
  Qed.

  Lemma NoDup_sort le c : NoDup (keys c) -> NoDup (keys (im_sort_by le c)).
  Proof.
    intro H. rewrite im_sort_by_eq.
    eapply Permutation_NoDup; [|exact H]. apply Permutation_map. symmetry. apply stable_sort_perm.
  Qed.

  Lemma NoDup_extend l c : NoDup (keys c) -> NoDup (keys (im_extend l c)).
  Proof.
    revert c. induction l as [|[k v] l IH]; simpl; intros c H; [assumption|].
    apply IH. apply NoDup_insert. assumption.
  Qed.

  Section ValInv.
    Variable P : V -> Prop.
    Let PE := fun kv : bytes * V => P (snd kv).

    Lemma Forall_get k c v : Forall PE c -> im_get k c = Some v -> P v.
    Proof.
      induction c as [|[k' v'] c IH]; simpl; [discriminate|]. intro H. inversion H; subst.
      destruct (bytes_eqb k' k); [intro E; injection E as <-; assumption|auto].
    Qed.
    Lemma Forall_insert k v c : Forall PE c -> P v -> Forall PE (im_insert k v c).
    Proof.
      intros H Hv. induction c as [|[k' v'] c IH]; simpl; [repeat constructor; exact Hv|].
      inversion H; subst. destruct (bytes_eqb k' k); constructor; auto.
    Qed.
    Lemma Forall_remove k c : Forall PE c -> Forall PE (im_shift_remove k c).
    Proof.
      induction c as [|[k' v'] c IH]; simpl; intro H; [constructor|].
      inversion H; subst. destruct (bytes_eqb k' k); [assumption|constructor; auto].
    Qed.
    Lemma Forall_retain f c : Forall PE c -> Forall PE (im_retain f c).
    Proof.
      induction c as [|[k' v'] c IH]; simpl; intro H; [constructor|].
      inversion H; subst. destruct (f k' v'); [constructor|]; auto.
    Qed.
    Lemma Forall_sort le c : Forall PE c -> Forall PE (im_sort_by le c).
    Proof. intro H. rewrite im_sort_by_eq. apply stable_sort_Forall. exact H. Qed.
    Lemma Forall_extend l c : Forall PE c -> Forall PE l -> Forall PE (im_extend l c).
    Proof.
      revert c. induction l as [|[k v] l IH]; simpl; intros c H Hl; [assumption|].
      inversion Hl; subst. apply IH; [apply Forall_insert|]; assumption.
    Qed.
  End ValInv.
End Assoc.

(* ==================================================================================== *)
(** * D. the abstraction function and its commutation lemmas *)

Definition keep (kv : bytes * item) : option (bytes * pay) :=
  match snd kv with IReal p => Some (fst kv, p) | INone => None end.
Fixpoint abs (c : imap item) : omap pay :=
  match c with
  | [] => []
  | (k, IReal p) :: c' => (k, p) :: abs c'
  | (_, INone) :: c' => abs c'
  end.
Lemma abs_pmap c : abs c = pmap keep c.
Proof. induction c as [|[k [|p]] c IH]; simpl; [reflexivity|exact IH|]. unfold keep at 1; simpl. f_equal. exact IH. Qed.

Lemma abs_cons_real k p c : abs ((k, IReal p) :: c) = (k, p) :: abs c.
Proof. reflexivity. Qed.
Lemma abs_cons_none k c : abs ((k, INone) :: c) = abs c.
Proof. reflexivity. Qed.

Lemma abs_keys x c : In x (keys (abs c)) -> In x (keys c).
Proof.
  induction c as [|[k [|p]] c IH]; simpl; [tauto| |].
  - rewrite ?abs_cons_none. auto.
  - rewrite ?abs_cons_real. simpl. intros [H|H]; auto.
Qed.

Lemma abs_NoDup c : NoDup (keys c) -> NoDup (keys (abs c)).
Proof.
  induction c as [|[k [|p]] c IH]; simpl; intro H; [constructor| |]; inversion H; subst.
  - rewrite ?abs_cons_none. auto.
  - rewrite ?abs_cons_real. simpl. constructor; [|auto]. intro Hin. apply abs_keys in Hin. tauto.
Qed.

Lemma abs_get k c :
  NoDup (keys c) ->
  im_get k (abs c) = match im_get k c with Some (IReal p) => Some p | _ => None end.
Proof.
  induction c as [|[k' [|p]] c IH]; simpl; intro H; [reflexivity| |]; inversion H as [|? ? Hn Hc]; subst.
  - rewrite ?abs_cons_none. destruct (bytes_eqb k' k) eqn:E; [|auto].
    apply bytes_eqb_eq in E. subst. apply im_get_notin. intro Hin. apply abs_keys in Hin. tauto.
  - rewrite ?abs_cons_real. simpl. destruct (bytes_eqb k' k); [reflexivity|auto].
Qed.

Lemma ph_false_get k c : ph k c = false -> im_get k c <> Some INone.
Proof. unfold ph. destruct (im_get k c) as [[|p]|]; congruence. Qed.

Lemma abs_insert_real k p c :
  NoDup (keys c) -> ph k c = false -> abs (im_insert k (IReal p) c) = om_insert k p (abs c).
Proof.
  unfold ph. induction c as [|[k' i] c IH]; simpl; intros H Hp; [reflexivity|].
  inversion H as [|? ? Hn Hc]; subst.
  destruct (bytes_eqb k' k) eqn:E.
  - destruct i as [|q]; [discriminate|]. rewrite ?abs_cons_real.
    rewrite om_insert_cons_eq; auto. apply bytes_eqb_eq in E. subst. intro Hin. apply abs_keys in Hin. tauto.
  - destruct i as [|q].
    + rewrite ?abs_cons_none. auto.
    + rewrite ?abs_cons_real. rewrite om_insert_cons_ne by assumption. f_equal. auto.
Qed.

Lemma abs_insert_none k c : im_get k c = None -> abs (im_insert k INone c) = abs c.
Proof.
  induction c as [|[k' i] c IH]; simpl; intro H; [reflexivity|].
  destruct (bytes_eqb k' k); [discriminate|].
  destruct i as [|q]; [rewrite ?abs_cons_none|rewrite ?abs_cons_real; f_equal]; auto.
Qed.

Lemma abs_remove k c : NoDup (keys c) -> abs (im_shift_remove k c) = om_remove k (abs c).
Proof.
  induction c as [|[k' i] c IH]; simpl; intro H; [reflexivity|].
  inversion H as [|? ? Hn Hc]; subst.
  destruct (bytes_eqb k' k) eqn:E.
  - apply bytes_eqb_eq in E. subst.
    assert (Hk : ~ In k (keys (abs c))) by (intro Hin; apply abs_keys in Hin; tauto).
    destruct i as [|q]; [rewrite ?abs_cons_none|rewrite ?abs_cons_real, om_remove_cons, bytes_eqb_refl];
      symmetry; apply om_remove_notin; assumption.
  - destruct i as [|q]; [rewrite ?abs_cons_none; auto|].
    rewrite ?abs_cons_real, om_remove_cons, E. f_equal. auto.
Qed.

Lemma abs_retain g g' c :
  (forall k p, g k (IReal p) = g' k p) -> abs (im_retain g c) = om_retain g' (abs c).
Proof.
  intro Hg. unfold om_retain. induction c as [|[k' [|q]] c IH]; simpl; [reflexivity| |].
  - rewrite ?abs_cons_none. destruct (g k' INone); [rewrite ?abs_cons_none|]; exact IH.
  - rewrite ?abs_cons_real. simpl. rewrite <- Hg. destruct (g k' (IReal q)); [rewrite ?abs_cons_real; f_equal|]; exact IH.
Qed.

Lemma abs_visible c : map kreal (abs c) = visible c.
Proof.
  unfold visible. induction c as [|[k [|p]] c IH]; simpl; [reflexivity| |].
  - rewrite ?abs_cons_none. exact IH.
  - rewrite ?abs_cons_real. simpl. f_equal. exact IH.
Qed.

Lemma abs_length c : length (abs c) = t_len c.
Proof. unfold t_len. rewrite <- abs_visible, map_length. reflexivity. Qed.

Lemma im_get_insert k p k2 (c0 : imap item) :
  im_get k2 (im_insert k p c0) = if bytes_eqb k k2 then Some p else im_get k2 c0.
Proof.
  induction c0 as [|[k' i] c0 IH0]; simpl.
  - destruct (bytes_eqb k k2); reflexivity.
  - destruct (bytes_eqb k' k) eqn:E1; simpl.
    + apply bytes_eqb_eq in E1. subst. destruct (bytes_eqb k k2); reflexivity.
    + destruct (bytes_eqb k' k2) eqn:E2; [|exact IH0].
      apply bytes_eqb_eq in E2. subst. rewrite bytes_eqb_sym, E1. reflexivity.
Qed.

Lemma abs_extend (n : pay -> pay) l c :
  NoDup (keys c) -> existsb (fun kv => ph (fst kv) c) l = false ->
  abs (im_extend (map (fun kv => (fst kv, IReal (n (snd kv)))) l) c)
  = fold_left (fun acc kv => om_insert (fst kv) (n (snd kv)) acc) l (abs c).
Proof.
  revert c. induction l as [|[k p] l IH]; simpl; intros c H Hp; [reflexivity|].
  apply orb_false_iff in Hp as [Hk Hl].
  rewrite IH.
  - rewrite abs_insert_real by assumption. reflexivity.
  - apply NoDup_insert. assumption.
  - (* placeholders of c other than k stay placeholders; k is none no more *)
    clear IH. induction l as [|[k2 p2] l IHl]; simpl; [reflexivity|].
    simpl in Hl. apply orb_false_iff in Hl as [H2 Hl]. rewrite (IHl Hl), orb_false_r.
    clear IHl Hl. unfold ph in *. rewrite im_get_insert.
    destruct (bytes_eqb k k2); [reflexivity|]. exact H2.
Qed.
(* ==================================================================================== *)
(** * E. comparators are total preorders; small facts about items *)

Lemma rank_leb_trans a b c : rank_leb a b = true -> rank_leb b c = true -> rank_leb a c = true.
Proof. unfold rank_leb. lia. Qed.
Lemma rank_leb_total a b : rank_leb a b = false -> rank_leb b a = true.
Proof. unfold rank_leb. lia. Qed.

Definition kasc_le (a b : bytes * item) : bool := key_leb (fst a) (fst b).

Lemma kasc_trans {V} (a b c : bytes * V) :
  key_leb (fst a) (fst b) = true -> key_leb (fst b) (fst c) = true -> key_leb (fst a) (fst c) = true.
Proof. apply key_leb_trans. Qed.
Lemma kasc_total {V} (a b : bytes * V) : key_leb (fst a) (fst b) = false -> key_leb (fst b) (fst a) = true.
Proof. apply key_leb_total. Qed.

Lemma tcmp_le_trans cm a b c : tcmp_le cm a b = true -> tcmp_le cm b c = true -> tcmp_le cm a c = true.
Proof.
  destruct cm; simpl.
  - intros H1 H2. eapply key_leb_trans; eauto.
  - apply rank_leb_trans.
Qed.
Lemma tcmp_le_total cm a b : tcmp_le cm a b = false -> tcmp_le cm b a = true.
Proof. destruct cm; simpl; [apply key_leb_total|apply rank_leb_total]. Qed.

Lemma as_value_is i : as_value i = if is_value i then Some i else None.
Proof. reflexivity. Qed.

Lemma icmp_le_alt cm a b :
  icmp_le cm a b =
  match is_value (snd a), is_value (snd b) with
  | true, true => tcmp_le cm a b
  | true, false => false
  | false, _ => true
  end.
Proof.
  unfold icmp_le. rewrite !as_value_is.
  destruct (is_value (snd a)), (is_value (snd b)); destruct cm; reflexivity.
Qed.

Lemma icmp_le_trans cm a b c : icmp_le cm a b = true -> icmp_le cm b c = true -> icmp_le cm a c = true.
Proof.
  rewrite !icmp_le_alt.
  destruct (is_value (snd a)), (is_value (snd b)), (is_value (snd c)); try congruence.
  apply tcmp_le_trans.
Qed.
Lemma icmp_le_total cm a b : icmp_le cm a b = false -> icmp_le cm b a = true.
Proof.
  rewrite !icmp_le_alt.
  destruct (is_value (snd a)), (is_value (snd b)); try congruence.
  apply tcmp_le_total.
Qed.

Definition notab (i : item) : Prop := i <> IReal PTab.

Lemma is_value_real q : q <> PTab -> is_value (IReal q) = true.
Proof. destruct q; simpl; congruence. Qed.
Lemma as_value_real q : q <> PTab -> as_value (IReal q) = Some (IReal q).
Proof. intro H. unfold as_value. rewrite is_value_real; auto. Qed.
Lemma into_value_real q : q <> PTab -> into_value (IReal q) = Some (IReal q).
Proof. destruct q; simpl; congruence. Qed.
Lemma hack_real q : q <> PTab -> hack (IReal q) = IReal q.
Proof. intro H. unfold hack. rewrite into_value_real; auto. Qed.

Lemma anyph_false_visible c : anyph c = false -> visible c = c.
Proof.
  unfold anyph, visible. induction c as [|[k i] c IH]; simpl; [reflexivity|].
  intro H. apply orb_false_iff in H as [H1 H2]. rewrite H1. simpl. f_equal. auto.
Qed.

Lemma only_values_visible c : Forall (fun kv => notab (snd kv)) c -> only_values c = visible c.
Proof.
  unfold only_values, visible. induction c as [|[k i] c IH]; simpl; intro H; [reflexivity|].
  inversion H as [|? ? Hi Hc]; subst. simpl in Hi. rewrite (IH Hc).
  destruct i as [|[z| |]]; simpl; try reflexivity. exfalso. apply Hi. reflexivity.
Qed.

Lemma im_retain_ext {V} (g g2 : bytes -> V -> bool) c :
  Forall (fun kv => g (fst kv) (snd kv) = g2 (fst kv) (snd kv)) c -> im_retain g c = im_retain g2 c.
Proof.
  induction c as [|[k i] c IH]; simpl; intro H; [reflexivity|].
  inversion H as [|? ? Hi Hc]; subst. simpl in Hi. rewrite Hi, (IH Hc). reflexivity.
Qed.

Lemma emp_eq {A} (m : list A) : (match m with [] => true | _ => false end) = Nat.eqb (length m) 0.
Proof. destruct m; reflexivity. Qed.

Lemma norm_notab kd p : kd = KInline \/ kd = KInlineTL -> norm kd p <> PTab.
Proof. intros [->| ->]; destruct p; simpl; congruence. Qed.

Lemma existsb_ph_nil (l : list (bytes * pay)) : existsb (fun kv => ph (fst kv) []) l = false.
Proof. induction l as [|x l IH]; simpl; [reflexivity|exact IH]. Qed.

(* sorting commutes with abs *)
Lemma abs_sort le le' c :
  (forall a b c0, le a b = true -> le b c0 = true -> le a c0 = true) ->
  (forall a b, le a b = false -> le b a = true) ->
  forall Q : bytes * item -> Prop,
  (forall a b y z, Q a -> Q b -> keep a = Some y -> keep b = Some z -> le' y z = le a b) ->
  Forall Q c ->
  abs (im_sort_by le c) = om_sort_by le' (abs c).
Proof.
  intros Ht Hto Q Hc HQ. unfold om_sort_by. rewrite im_sort_by_eq, !abs_pmap.
  apply (pmap_stable_sort le le' keep Q Ht Hto Hc). exact HQ.
Qed.

Lemma keep_real a y : keep a = Some y -> a = (fst y, IReal (snd y)).
Proof. destruct a as [k [|p]]; unfold keep; simpl; [discriminate|]. intro H. injection H as <-. reflexivity. Qed.
