(* Proofs/MacroTails.v — C19: the first of the fourteen value tails that matches, for every token skeleton a
   supported value has (decided by computation; literal contents, the body constructors and the far rest
   stay symbolic), and the rules of the @...datetime helper states.

   What may follow a value:
     at top level   the next statement: it starts with a key token or a `[..]` group, and the token after a
                    key token is `.`, `-` or `=`                                            (`rest_ok`)
     in @table / @array   a comma, then the next pair / element or nothing; an element may start with a sign
                                                                                            (`comma_rest_ok`) *)
From TV Require Import Base.Prelude Model.Macro Proofs.MacroMatch Proofs.MacroRules.

Definition is_plain (t : tt) : bool := match t with TPunct _ => false | _ => true end.

Definition rest_ok (R : list tt) : bool :=
  match R with
  | [] => true
  | t0 :: R1 =>
    is_plain t0 &&
    match R1 with
    | TPunct c :: _ => byte_eqb c c_dot || byte_eqb c c_minus || byte_eqb c c_eq
    | _ => true
    end
  end.

Definition comma_rest_ok (R : list tt) : bool :=
  match R with
  | TPunct c :: _ => byte_eqb c c_minus || byte_eqb c c_plus
  | _ => true
  end.

Ltac byte_cases H :=
  repeat (apply orb_true_iff in H; destruct H as [H|H]); apply byte_eqb_eq in H; subst.

(* all shapes of R that rest_ok allows, two tokens deep *)
Ltac split_rest R H :=
  destruct R as [|[?s|?l|?c|?d ?g] [|[?s|?l|?c|?d ?g] ?R2]]; cbn [rest_ok is_plain andb] in H; try discriminate H;
  try (byte_cases H).
Ltac split_comma_rest R H :=
  destruct R as [|[?s|?l|?c|?d ?g] ?R2]; cbn [comma_rest_ok] in H; try (byte_cases H).

Section Tails.
Variables (ms md : list tpl -> body) (g : body).
Let tls := tails ms md g.

Definition shape (k : nat) : list tpl := snd (nth k dt_shapes ([], [])).

(* ---- sign ---- *)
Lemma sel_minus : forall sfx t R,
  first_tail sfx tls (TPunct c_minus :: t :: R) =
  match seq_match match_pat sfx R with
  | Some (e, rest) => Some (ms [QGroup DParen [Q c_minus; QVar Vv]], [(Vv, BTT t)] ++ e, rest)
  | None => first_tail sfx (tl tls) (TPunct c_minus :: t :: R)
  end.
Proof.
  intros. unfold tls, tails. cbn [app first_tail]. rewrite seq_match_cons. unfold P at 1. cbn [match_pat].
  change (byte_eqb c_minus c_minus) with true. cbv iota. rewrite seq_match_cons, match_tt.
  destruct (seq_match match_pat sfx R) as [[e rest]|]; reflexivity.
Qed.

Lemma sel_minus_top : forall t R,
  first_tail [] tls (TPunct c_minus :: t :: R) = Some (ms [QGroup DParen [Q c_minus; QVar Vv]], [(Vv, BTT t)], R).
Proof. intros. rewrite sel_minus. reflexivity. Qed.
Lemma sel_minus_comma : forall t R,
  first_tail [P c_comma] tls (TPunct c_minus :: t :: TPunct c_comma :: R) = Some (ms [QGroup DParen [Q c_minus; QVar Vv]], [(Vv, BTT t)], R).
Proof. intros. rewrite sel_minus. reflexivity. Qed.
Lemma sel_plus_top : forall t R,
  first_tail [] tls (TPunct c_plus :: t :: R) = Some (ms [QGroup DParen [QVar Vv]], [(Vv, BTT t)], R).
Proof. intros. reflexivity. Qed.
Lemma sel_plus_comma : forall t R,
  first_tail [P c_comma] tls (TPunct c_plus :: t :: TPunct c_comma :: R) = Some (ms [QGroup DParen [QVar Vv]], [(Vv, BTT t)], R).
Proof. intros. reflexivity. Qed.

(* ---- one plain token ---- *)
Lemma sel_plain_top : forall t R, is_plain t = true -> rest_ok R = true ->
  first_tail [] tls (t :: R) = Some (g, [(Vv, BTT t)], R).
Proof.
  intros t R Ht HR. destruct t as [s|l|c|d gg]; try discriminate Ht; split_rest R HR; vm_compute; reflexivity.
Qed.
Lemma sel_plain_comma : forall t R, is_plain t = true -> comma_rest_ok R = true ->
  first_tail [P c_comma] tls (t :: TPunct c_comma :: R) = Some (g, [(Vv, BTT t)], R).
Proof.
  intros t R Ht HR. destruct t as [s|l|c|d gg]; try discriminate Ht; split_comma_rest R HR; vm_compute; reflexivity.
Qed.

(* ---- date-time skeletons ---- *)
Definition sk_date (y m d : lit) : list tt := [TLit y; TPunct c_minus; TLit m; TPunct c_minus; TLit d].
Definition sk_time (h mi s : lit) : list tt := [TLit h; TPunct c_colon; TLit mi; TPunct c_colon; TLit s].
Definition sk_off (oh om : lit) : list tt := [TPunct c_minus; TLit oh; TPunct c_colon; TLit om].

Definition e_date (y m d : lit) : env := [(Vyr, BTT (TLit y)); (Vmo, BTT (TLit m)); (Vday, BTT (TLit d))].
Definition e_time (h mi s : lit) : env := [(Vhr, BTT (TLit h)); (Vmin, BTT (TLit mi)); (Vsec, BTT (TLit s))].
Definition e_dtT (y m dh mi s : lit) : env :=
  [(Vyr, BTT (TLit y)); (Vmo, BTT (TLit m)); (Vdhr, BTT (TLit dh)); (Vmin, BTT (TLit mi)); (Vsec, BTT (TLit s))].
Definition e_dtS (y m d h mi s : lit) : env :=
  [(Vyr, BTT (TLit y)); (Vmo, BTT (TLit m)); (Vday, BTT (TLit d)); (Vhr, BTT (TLit h)); (Vmin, BTT (TLit mi)); (Vsec, BTT (TLit s))].
Definition e_off (oh om : lit) : env := [(Vtzh, BTT (TLit oh)); (Vtzm, BTT (TLit om))].

Lemma sel_date_top : forall y m d R, rest_ok R = true ->
  first_tail [] tls (sk_date y m d ++ R) = Some (md (shape 8), e_date y m d, R).
Proof. intros y m d R HR. split_rest R HR; vm_compute; reflexivity. Qed.
Lemma sel_date_comma : forall y m d R, comma_rest_ok R = true ->
  first_tail [P c_comma] tls (sk_date y m d ++ TPunct c_comma :: R) = Some (md (shape 8), e_date y m d, R).
Proof. intros y m d R HR. split_comma_rest R HR; vm_compute; reflexivity. Qed.

Lemma sel_time_top : forall h mi s R, rest_ok R = true ->
  first_tail [] tls (sk_time h mi s ++ R) = Some (md (shape 10), e_time h mi s, R).
Proof. intros h mi s R HR. split_rest R HR; vm_compute; reflexivity. Qed.
Lemma sel_time_comma : forall h mi s R, comma_rest_ok R = true ->
  first_tail [P c_comma] tls (sk_time h mi s ++ TPunct c_comma :: R) = Some (md (shape 10), e_time h mi s, R).
Proof. intros h mi s R HR. split_comma_rest R HR; vm_compute; reflexivity. Qed.

(* 1979-05-27T07:32:00[Z] : `27T07` is one literal *)
Lemma sel_dtT_top : forall y m dh mi s R, rest_ok R = true ->
  first_tail [] tls ([TLit y; TPunct c_minus; TLit m; TPunct c_minus] ++ sk_time dh mi s ++ R)
  = Some (md (shape 6), e_dtT y m dh mi s, R).
Proof. intros y m dh mi s R HR. split_rest R HR; vm_compute; reflexivity. Qed.
Lemma sel_dtT_comma : forall y m dh mi s R, comma_rest_ok R = true ->
  first_tail [P c_comma] tls ([TLit y; TPunct c_minus; TLit m; TPunct c_minus] ++ sk_time dh mi s ++ TPunct c_comma :: R)
  = Some (md (shape 6), e_dtT y m dh mi s, R).
Proof. intros y m dh mi s R HR. split_comma_rest R HR; vm_compute; reflexivity. Qed.

(* 1979-05-27 07:32:00[Z] *)
Lemma sel_dtS_top : forall y m d h mi s R, rest_ok R = true ->
  first_tail [] tls (sk_date y m d ++ sk_time h mi s ++ R) = Some (md (shape 7), e_dtS y m d h mi s, R).
Proof. intros y m d h mi s R HR. split_rest R HR; vm_compute; reflexivity. Qed.
Lemma sel_dtS_comma : forall y m d h mi s R, comma_rest_ok R = true ->
  first_tail [P c_comma] tls (sk_date y m d ++ sk_time h mi s ++ TPunct c_comma :: R)
  = Some (md (shape 7), e_dtS y m d h mi s, R).
Proof. intros y m d h mi s R HR. split_comma_rest R HR; vm_compute; reflexivity. Qed.

(* 1979-05-27T07:32:00-07:00 *)
Lemma sel_odtT_top : forall y m dh mi s oh om R, rest_ok R = true ->
  first_tail [] tls ([TLit y; TPunct c_minus; TLit m; TPunct c_minus] ++ sk_time dh mi s ++ sk_off oh om ++ R)
  = Some (md (shape 2), e_dtT y m dh mi s ++ e_off oh om, R).
Proof. intros y m dh mi s oh om R HR. split_rest R HR; vm_compute; reflexivity. Qed.
Lemma sel_odtT_comma : forall y m dh mi s oh om R, comma_rest_ok R = true ->
  first_tail [P c_comma] tls ([TLit y; TPunct c_minus; TLit m; TPunct c_minus] ++ sk_time dh mi s ++ sk_off oh om ++ TPunct c_comma :: R)
  = Some (md (shape 2), e_dtT y m dh mi s ++ e_off oh om, R).
Proof. intros y m dh mi s oh om R HR. split_comma_rest R HR; vm_compute; reflexivity. Qed.

(* 1979-05-27 07:32:00-07:00 *)
Lemma sel_odtS_top : forall y m d h mi s oh om R, rest_ok R = true ->
  first_tail [] tls (sk_date y m d ++ sk_time h mi s ++ sk_off oh om ++ R)
  = Some (md (shape 3), e_dtS y m d h mi s ++ e_off oh om, R).
Proof. intros y m d h mi s oh om R HR. split_rest R HR; vm_compute; reflexivity. Qed.
Lemma sel_odtS_comma : forall y m d h mi s oh om R, comma_rest_ok R = true ->
  first_tail [P c_comma] tls (sk_date y m d ++ sk_time h mi s ++ sk_off oh om ++ TPunct c_comma :: R)
  = Some (md (shape 3), e_dtS y m d h mi s ++ e_off oh om, R).
Proof. intros y m d h mi s oh om R HR. split_comma_rest R HR; vm_compute; reflexivity. Qed.

End Tails.

(* ---- the @...datetime helper states ---- *)
Theorem topdt_first_match : forall r pt segs dts R, ident_frag_ok r = true -> segs_ok segs -> dts <> [] ->
  first_match rules (TPunct c_at :: TIdent id_topleveldatetime :: TIdent r :: TGroup DBracket pt ::
                     dot_join segs ++ TPunct c_eq :: TGroup DParen dts :: R)
  = Some (BInsertDt true top_next, E_top r pt segs ++ [(Vdatetime, tts_bnd dts); (Vrest, tts_bnd R)]).
Proof.
  intros r pt segs dts R Hr [Hne Hall] Hd.
  change rules with ((([mkRule top_prefix BNothing] ++ top_kv_rules ++ [rule_arrhdr; rule_tabhdr]) ++ [rule_topdt])
                     ++ rules_path_value ++ rules_table ++ rules_array ++ rules_trailingcomma).
  rewrite first_match_app, first_match_app, skip_kv_for_topdt.
  cbn [app first_match]. unfold rule_topdt at 1, match_rule, match_seq. cbn [r_head pstate app].
  rewrite seq_match_cons, match_punct_same. rewrite seq_match_cons, match_ident_same.
  rewrite seq_match_cons, (match_root r _ Hr). unfold pathG. rewrite seq_match_cons, match_group_star.
  rewrite seq_match_cons, (match_key Vk segs (TPunct c_eq :: TGroup DParen dts :: R) Hne Hall eq_refl eq_refl).
  rewrite seq_match_cons, match_punct_same.
  rewrite seq_match_cons, (match_group_plus DParen Vdatetime dts R Hd).
  rewrite seq_match_cons, match_star. reflexivity.
Qed.

Theorem tabdt_first_match : forall r segs dts R, ident_frag_ok r = true -> segs_ok segs ->
  first_match rules (TPunct c_at :: TIdent id_tabledatetime :: TIdent r ::
                     dot_join segs ++ TPunct c_eq :: TGroup DParen dts :: R)
  = Some (BInsertDt false tab_next, E_tab r segs ++ [(Vdatetime, tts_bnd dts); (Vrest, tts_bnd R)]).
Proof.
  intros r segs dts R Hr [Hne Hall]. rewrite rules_split4.
  rewrite (app_assoc rules_toplevel), first_match_app. rewrite skip_for_tabledatetime.
  rewrite first_match_app, rules_table_eq.
  rewrite (app_assoc [mkRule (pstate id_table ++ [rootP]) BNothing]), first_match_app, skip_kv_for_tabdt.
  cbn [first_match]. unfold rule_tabdt at 1, match_rule, match_seq. cbn [r_head pstate app].
  rewrite seq_match_cons, match_punct_same. rewrite seq_match_cons, match_ident_same.
  rewrite seq_match_cons, (match_root r _ Hr).
  rewrite seq_match_cons, (match_key Vk segs (TPunct c_eq :: TGroup DParen dts :: R) Hne Hall eq_refl eq_refl).
  rewrite seq_match_cons, match_punct_same.
  rewrite seq_match_cons, match_group_star.
  rewrite seq_match_cons, match_star. reflexivity.
Qed.

Theorem arrdt_first_match : forall r dts R, ident_frag_ok r = true ->
  first_match rules (TPunct c_at :: TIdent id_arraydatetime :: TIdent r :: TGroup DParen dts :: R)
  = Some (BArrPushDt arr_next, E_arr r ++ [(Vdatetime, tts_bnd dts); (Vrest, tts_bnd R)]).
Proof.
  intros r dts R Hr. rewrite rules_split4.
  rewrite (app_assoc rules_toplevel), (app_assoc (rules_toplevel ++ rules_path_value)), first_match_app.
  rewrite <- app_assoc. rewrite skip_for_arraydatetime.
  rewrite first_match_app, rules_array_eq.
  rewrite (app_assoc [mkRule (pstate id_array ++ [rootP]) BNothing]), first_match_app, skip_el_for_arrdt.
  cbn [first_match]. unfold rule_arrdt at 1, match_rule, match_seq. cbn [r_head pstate app].
  rewrite seq_match_cons, match_punct_same. rewrite seq_match_cons, match_ident_same.
  rewrite seq_match_cons, (match_root r _ Hr).
  rewrite seq_match_cons, match_group_star.
  rewrite seq_match_cons, match_star. reflexivity.
Qed.
