(* Proofs/EditRefineBase.v — list facts for property C08: the positional reference functions of
   Spec/EditSpec.v (pos / firstn / skipn) against their recursive characterisations, and the
   recursive functions of Model/Tree.v / Model/Edit.v against those, through
   `absl` = the entries of a table after `abs`. *)
From TV Require Import Base.Prelude Spec.Ordered Model.Datetime Model.Numbers Model.Tree.
From TV Require Import Spec.EditSpec Model.Edit Proofs.ContainersOrder.

(* ==================================================================================== *)
(** * A. the positional reference functions, recursively *)

Fixpoint r_upd (k : bytes) (g : plain -> plain) (l : entries) : entries :=
  match l with
  | [] => []
  | (k', v) :: tl => if bytes_eqb k' k then (k', g v) :: tl else (k', v) :: r_upd k g tl
  end.
Fixpoint r_del (k : bytes) (l : entries) : entries :=
  match l with
  | [] => []
  | (k', v) :: tl => if bytes_eqb k' k then tl else (k', v) :: r_del k tl
  end.
Fixpoint r_get (k : bytes) (l : entries) : option plain :=
  match l with
  | [] => None
  | (k', v) :: tl => if bytes_eqb k' k then Some v else r_get k tl
  end.

Lemma pos_from_shift n k l : pos_from (S n) k l = optmap S (pos_from n k l).
Proof.
  revert n. induction l as [|[k' v] l IH]; intro n; simpl; [reflexivity|].
  destruct (bytes_eqb k' k); [reflexivity|]. apply IH.
Qed.

Lemma pos_cons k k' v l :
  pos k ((k', v) :: l) = if bytes_eqb k' k then Some 0 else optmap S (pos k l).
Proof. unfold pos. simpl. destruct (bytes_eqb k' k); [reflexivity|]. apply pos_from_shift. Qed.

Lemma e_upd_rec k g l : e_upd k g l = r_upd k g l.
Proof.
  induction l as [|[k' v] l IH]; [reflexivity|].
  unfold e_upd in *. rewrite pos_cons. simpl r_upd.
  destruct (bytes_eqb k' k) eqn:E; [reflexivity|].
  rewrite <- IH. destruct (pos k l) as [i|]; reflexivity.
Qed.

Lemma e_del_rec k l : e_del k l = r_del k l.
Proof.
  induction l as [|[k' v] l IH]; [reflexivity|].
  unfold e_del in *. rewrite pos_cons. simpl r_del.
  destruct (bytes_eqb k' k) eqn:E; [reflexivity|].
  rewrite <- IH. destruct (pos k l) as [i|]; reflexivity.
Qed.

Lemma e_get_rec k l : e_get k l = r_get k l.
Proof.
  induction l as [|[k' v] l IH]; [reflexivity|].
  unfold e_get in *. rewrite pos_cons. simpl r_get.
  destruct (bytes_eqb k' k) eqn:E; [reflexivity|].
  rewrite <- IH. destruct (pos k l) as [i|]; reflexivity.
Qed.

Lemma pos_none_get k l : pos k l = None <-> r_get k l = None.
Proof.
  induction l as [|[k' v] l IH]; [simpl; tauto|].
  rewrite pos_cons. simpl. destruct (bytes_eqb k' k); [split; discriminate|].
  destruct (pos k l); simpl.
  - split; intro H; [discriminate|]. apply IH in H. discriminate.
  - split; intro H; [apply IH; reflexivity|reflexivity].
Qed.

Lemma e_put0_rec k x l :
  e_put0 k x l = match r_get k l with Some _ => r_upd k (fun _ => x) l | None => l ++ [(k, x)] end.
Proof.
  induction l as [|[k' v] l IH]; [reflexivity|].
  unfold e_put0 in *. rewrite pos_cons. simpl r_get. simpl r_upd.
  destruct (bytes_eqb k' k) eqn:E; [reflexivity|].
  destruct (pos k l) as [i|] eqn:P; simpl.
  - change (((k', v) :: firstn i l ++ map (fun kv => (fst kv, x)) (firstn 1 (skipn i l)) ++ skipn (S i) l)
            = match r_get k l with Some _ => (k', v) :: r_upd k (fun _ => x) l | None => (k', v) :: l ++ [(k, x)] end).
    rewrite IH. destruct (r_get k l); reflexivity.
  - change (((k', v) :: l ++ [(k, x)])
            = match r_get k l with Some _ => (k', v) :: r_upd k (fun _ => x) l | None => (k', v) :: l ++ [(k, x)] end).
    rewrite IH. destruct (r_get k l); reflexivity.
Qed.

Definition r_forget (k : bytes) (l : entries) : entries :=
  match r_get k l with Some PNone => r_del k l | _ => l end.
Lemma e_forget_rec k l : e_forget k l = r_forget k l.
Proof. unfold e_forget, r_forget. rewrite e_get_rec, e_del_rec. reflexivity. Qed.
Lemma e_put_rec k x l :
  e_put k x l = match r_get k (r_forget k l) with
                | Some _ => r_upd k (fun _ => x) (r_forget k l)
                | None => r_forget k l ++ [(k, x)]
                end.
Proof. unfold e_put. rewrite e_put0_rec, e_forget_rec. reflexivity. Qed.
(* no placeholder under k: nothing to forget *)
Lemma r_forget_id k l : r_get k l <> Some PNone -> r_forget k l = l.
Proof. unfold r_forget. destruct (r_get k l) as [[| | |]|]; congruence. Qed.

Lemma r_upd_id k l : r_upd k (fun x => x) l = l.
Proof.
  induction l as [|[k' v] l IH]; simpl; [reflexivity|].
  destruct (bytes_eqb k' k); [reflexivity|]. rewrite IH. reflexivity.
Qed.

Lemma r_upd_ext k g g' l : (forall x, g x = g' x) -> r_upd k g l = r_upd k g' l.
Proof.
  intro H. induction l as [|[k' v] l IH]; simpl; [reflexivity|].
  destruct (bytes_eqb k' k); [rewrite H|rewrite IH]; reflexivity.
Qed.

(* -- vectors -- *)
Fixpoint rv_upd {A} (n : nat) (g : A -> A) (l : list A) : list A :=
  match l, n with
  | [], _ => []
  | x :: tl, O => g x :: tl
  | x :: tl, S n' => x :: rv_upd n' g tl
  end.
Fixpoint rv_del {A} (n : nat) (l : list A) : list A :=
  match l, n with
  | [], _ => []
  | x :: tl, O => tl
  | x :: tl, S n' => x :: rv_del n' tl
  end.

Lemma v_upd_rec {A} n (g : A -> A) l : v_upd n g l = rv_upd n g l.
Proof.
  revert n. induction l as [|x l IH]; intros [|n]; unfold v_upd in *; simpl; try reflexivity.
  - rewrite <- IH. reflexivity.
Qed.
Lemma v_del_rec {A} n (l : list A) : v_del n l = rv_del n l.
Proof.
  revert n. induction l as [|x l IH]; intros [|n]; unfold v_del in *; simpl; try reflexivity.
  - rewrite <- IH. reflexivity.
Qed.
Lemma rv_upd_id {A} n (l : list A) : rv_upd n (fun x => x) l = l.
Proof. revert n. induction l as [|x l IH]; intros [|n]; simpl; try reflexivity. rewrite IH. reflexivity. Qed.

(* ==================================================================================== *)
(** * B. the model's lists under abs *)

Definition abskv (kv : key * item) : bytes * plain := match kv with (k, i) => (k_key k, abs_item i) end.
Definition absl (m : kvs) : entries := map abskv m.

Lemma abs_tbl_eq items d im dt p sp : abs_tbl (Tbl items d im dt p sp) = PTab false dt (absl items).
Proof. reflexivity. Qed.
Lemma abs_inline_eq items pre im dt d sp : abs_value (VInline items pre im dt d sp) = PTab true dt (absl items).
Proof. reflexivity. Qed.

Lemma absl_get m k :
  r_get k (absl m) = match kv_get m k with Some (_, i) => Some (abs_item i) | None => None end.
Proof.
  induction m as [|[k' v] m IH]; simpl; [reflexivity|].
  destruct (bytes_eqb (k_key k') k); [reflexivity|exact IH].
Qed.

Lemma absl_set m k v : absl (kv_set m k v) = r_upd k (fun _ => abs_item v) (absl m).
Proof.
  induction m as [|[k' v'] m IH]; simpl; [reflexivity|].
  destruct (bytes_eqb (k_key k') k); simpl; [reflexivity|]. rewrite IH. reflexivity.
Qed.

Lemma absl_set_fmt m k v : absl (kv_set_fmt m k v) = r_upd k (fun _ => abs_item v) (absl m).
Proof.
  induction m as [|[k' v'] m IH]; simpl; [reflexivity|].
  destruct (bytes_eqb (k_key k') k); simpl; [reflexivity|]. rewrite IH. reflexivity.
Qed.

Lemma absl_push m k v : absl (kv_push m k v) = absl m ++ [(k_key k, abs_item v)].
Proof. unfold kv_push, absl. rewrite map_app. reflexivity. Qed.

Lemma absl_remove m k : absl (kv_remove m k) = r_del k (absl m).
Proof.
  induction m as [|[k' v'] m IH]; simpl; [reflexivity|].
  destruct (bytes_eqb (k_key k') k); simpl; [reflexivity|]. rewrite IH. reflexivity.
Qed.

Lemma absl_kv_upd k f g m m' :
  kv_upd k f m = Some m' ->
  (forall i i', f i = Some i' -> abs_item i' = g (abs_item i)) ->
  absl m' = r_upd k g (absl m).
Proof.
  intros H Hf. revert m' H. induction m as [|[k' v] m IH]; intros m' H; simpl in *; [discriminate|].
  destruct (bytes_eqb (k_key k') k).
  - destruct (f v) as [v'|] eqn:F; simpl in H; [|discriminate].
    injection H as <-. simpl. rewrite (Hf _ _ F). reflexivity.
  - destruct (kv_upd k f m) as [m1|]; simpl in H; [|discriminate].
    injection H as <-. simpl. rewrite (IH m1 eq_refl). reflexivity.
Qed.

Lemma abs_item_none i : abs_item i = PNone <-> i = INone.
Proof.
  destruct i as [|[| |]|[? ? ? ? ? ?]|]; simpl; split; intro H; try reflexivity; discriminate.
Qed.

Lemma absl_purge m k : absl (kv_purge m k) = r_forget k (absl m).
Proof.
  unfold kv_purge, r_forget. rewrite absl_get.
  destruct (kv_get m k) as [[k' i]|]; [|reflexivity].
  destruct i as [|v|t|ts sp]; simpl.
  - apply absl_remove.
  - destruct v; reflexivity.
  - destruct t; reflexivity.
  - reflexivity.
Qed.

Lemma absl_items_insert m k it :
  absl (items_insert m k it) = e_put k (abs_item it) (absl m).
Proof.
  unfold items_insert. rewrite e_put_rec, <- absl_purge, absl_get.
  destruct (kv_get (kv_purge m k) k) as [[k' i]|].
  - apply absl_set_fmt.
  - apply absl_push.
Qed.

Lemma absl_kv_insert m k it :
  absl (kv_insert m k it) = e_put (k_key k) (abs_item it) (absl m).
Proof.
  unfold kv_insert. rewrite e_put_rec, <- absl_purge, absl_get.
  destruct (kv_get (kv_purge m (k_key k)) (k_key k)) as [[k' i]|].
  - apply absl_set.
  - apply absl_push.
Qed.

(* -- sort -- *)
Definition kle (a b : bytes * plain) : bool := key_leb (fst a) (fst b).

Lemma absl_ins_sorted x m : absl (kv_ins_sorted x m) = sorted_insert kle (abskv x) (absl m).
Proof.
  induction m as [|y m IH]; simpl; [reflexivity|].
  unfold kle at 1. destruct x as [kx ix], y as [ky iy]. simpl.
  destruct (key_leb (k_key kx) (k_key ky)); simpl; [reflexivity|].
  rewrite IH. reflexivity.
Qed.

Lemma absl_sort_keys m : absl (kv_sort_keys m) = e_sort (absl m).
Proof.
  induction m as [|x m IH]; simpl; [reflexivity|].
  rewrite absl_ins_sorted, IH. reflexivity.
Qed.

(* -- sort_by: the model's sort is the reference stable sort when the two comparators agree -- *)
Lemma absl_ins_by lem les x m :
  (forall a b, lem a b = les (abskv a) (abskv b)) ->
  absl (kv_ins_by lem x m) = sorted_insert les (abskv x) (absl m).
Proof.
  intro Hc. induction m as [|y m IH]; simpl; [reflexivity|].
  rewrite (Hc x y). destruct (les (abskv x) (abskv y)); simpl; [reflexivity|].
  rewrite IH. reflexivity.
Qed.
Lemma absl_sort_by lem les m :
  (forall a b, lem a b = les (abskv a) (abskv b)) ->
  absl (kv_sort_by lem m) = stable_sort les (absl m).
Proof.
  intro Hc. induction m as [|x m IH]; simpl; [reflexivity|].
  rewrite (absl_ins_by lem les x _ Hc), IH. reflexivity.
Qed.

Lemma tcmp_le_abs c a b : tcmp_le c a b = scmp_le c false (abskv a) (abskv b).
Proof.
  destruct a as [ka ia], b as [kb ib]. destruct c; [reflexivity|]. unfold tcmp_le, scmp_le, scmp_base. simpl.
  assert (R : forall i, item_rank i = plain_rank (abs_item i)).
  { intros [|[[s|z|f|bb|dt] r d|vals tr cm d sp|items pre im dt d sp]|[items d im dt p sp]|ts sp]; reflexivity. }
  rewrite !R. reflexivity.
Qed.
Lemma icmp_le_abs c a b : icmp_le c a b = scmp_le c true (abskv a) (abskv b).
Proof.
  destruct a as [ka ia], b as [kb ib]. unfold icmp_le, scmp_le. simpl.
  assert (V : forall v, is_val (abs_value v) = true) by (intros [| |]; reflexivity).
  assert (N : forall i, match i with IValue _ => False | _ => True end -> is_val (abs_item i) = false).
  { intros [|v|[items d im dt p sp]|ts sp] H; try reflexivity. contradiction. }
  assert (R : forall v, value_rank v = plain_rank (abs_value v)).
  { intros [[s|z|f|bb|dt] r d|vals tr cm d sp|items pre im dt d sp]; reflexivity. }
  destruct ia as [|va|ta|tsa spa].
  - rewrite (N INone I). reflexivity.
  - change (abs_item (IValue va)) with (abs_value va). rewrite V.
    destruct ib as [|vb|tb|tsb spb].
    + rewrite (N INone I). reflexivity.
    + change (abs_item (IValue vb)) with (abs_value vb). rewrite V.
      destruct c; unfold scmp_base; cbn [fst snd]; [reflexivity|]. rewrite !R. reflexivity.
    + rewrite (N (ITable tb) I). reflexivity.
    + rewrite (N (IAot tsb spb) I). reflexivity.
  - rewrite (N (ITable ta) I). reflexivity.
  - rewrite (N (IAot tsa spa) I). reflexivity.
Qed.

(* -- vectors -- *)
Lemma map_nth_upd {A B} (ab : A -> B) n (f : A -> option A) (g : B -> B) l l' :
  nth_upd n f l = Some l' ->
  (forall x x', f x = Some x' -> ab x' = g (ab x)) ->
  map ab l' = rv_upd n g (map ab l).
Proof.
  intros H Hf. revert n l' H. induction l as [|x l IH]; intros [|n] l' H; simpl in *; try discriminate.
  - destruct (f x) as [x'|] eqn:F; simpl in H; [|discriminate]. injection H as <-.
    simpl. rewrite (Hf _ _ F). reflexivity.
  - destruct (nth_upd n f l) as [l1|] eqn:E; simpl in H; [|discriminate]. injection H as <-.
    simpl. rewrite (IH n l1 E). reflexivity.
Qed.

Lemma map_vec_insert {A B} (ab : A -> B) i x l l' :
  vec_insert i x l = Some l' -> map ab l' = v_ins i (ab x) (map ab l).
Proof.
  revert l l'. induction i as [|i IH]; intros l l' H; simpl in H.
  - injection H as <-. reflexivity.
  - destruct l as [|y l]; [discriminate|].
    destruct (vec_insert i x l) as [l1|] eqn:E; simpl in H; [|discriminate]. injection H as <-.
    unfold v_ins in *. simpl. rewrite (IH l l1 E). reflexivity.
Qed.

Lemma map_vec_remove {A B} (ab : A -> B) i l y l' :
  vec_remove i l = Some (y, l') -> map ab l' = rv_del i (map ab l).
Proof.
  revert i y l'. induction l as [|z l IH]; intros [|i] y l' H; simpl in H; try discriminate.
  - injection H as <- <-. reflexivity.
  - destruct (vec_remove i l) as [[y1 l1]|] eqn:E; simpl in H; [|discriminate]. injection H as <- <-.
    simpl. rewrite (IH i y1 l1 E). reflexivity.
Qed.
