(* Proofs/SpansState.v — C14: the ParseState machine (state.rs) only stores spans it was given, or
   unions / widenings of spans that lie in range (range part).

   Invariant `st_in p st` at input position p:
     * the detached current table has a span (a, b) with a <= b <= p, and everything stored in it lies
       in [0, p];
     * everything stored in the root lies in [0, b] (the root is only touched when a header is met: it
       then receives the finished table and the keys of the new header, all left of the end of the
       header = the new b);  this is what makes the union taken for an array of tables well-formed;
     * the pending trailing text lies in [0, p], the path of the current table in [0, b]. *)
From TV Require Import Base.Prelude Base.Utf8 Base.Winnow Gen.Consts.
From TV Require Import Model.Trivia Model.Strings Model.Datetime Model.Numbers Model.Tree Model.Parse Model.Document.
From TV Require Import Proofs.NoPanicBase Proofs.NoPanicState Proofs.SpansDefs Proofs.SpansBase Proofs.SpansLex Proofs.SpansValue.
Require Import Lia ZifyBool ZifyN ZifyNat.

Definition cres_post {X} (Q : tbl -> X -> Prop) (r : cres (tbl * X)) : Prop :=
  match r with COk (t, x) => Q t x | _ => True end.

Lemma tbl_in_set_items lo hi t m :
  tbl_in lo hi t = true -> items_in lo hi m = true -> tbl_in lo hi (t_set_items t m) = true.
Proof.
  rewrite !tbl_in_items. intros H Hm. apply andb3 in H as (_ & H2 & H3). destruct t as [i d im dt p sp].
  cbn [t_set_items t_items t_decor t_span] in *. rewrite Hm, H2, H3. reflexivity.
Qed.
Lemma tbl_in_set_span lo hi t sp :
  tbl_in lo hi t = true -> osp_in lo hi sp = true -> tbl_in lo hi (t_set_span t sp) = true.
Proof.
  rewrite !tbl_in_items. intros H Hs. apply andb3 in H as (H1 & H2 & _). destruct t as [i d im dt p sp0].
  cbn [t_set_span t_items t_decor t_span] in *. rewrite H1, H2, Hs. reflexivity.
Qed.
Lemma tbl_in_get_items lo hi t : tbl_in lo hi t = true -> items_in lo hi (t_items t) = true.
Proof. rewrite tbl_in_items. intro H. apply andb3 in H. tauto. Qed.
Lemma span_set_items t m : t_span (t_set_items t m) = t_span t.
Proof. destruct t; reflexivity. Qed.
Lemma span_set_span t sp : t_span (t_set_span t sp) = sp.
Proof. destruct t; reflexivity. Qed.
Lemma items_set_span t sp : t_items (t_set_span t sp) = t_items t.
Proof. destruct t; reflexivity. Qed.
Lemma dotted_set_span t sp : t_dotted (t_set_span t sp) = t_dotted t.
Proof. destruct t; reflexivity. Qed.

Lemma forallb_tbl_in_mono lo hi hi' ts : (hi <= hi')%N ->
  forallb (tbl_in lo hi) ts = true -> forallb (tbl_in lo hi') ts = true.
Proof.
  intros Hle. apply forallb_Forall_imp. apply Forall_forall. intros t _. apply tbl_in_mono; nlia.
Qed.

(* ---- descend_path ------------------------------------------------------------------------------------------ *)
(* the table is in [lo, hi]; the closure may store spans up to hi' >= hi *)
Lemma wta_in lo hi hi' {X} (Q : X -> Prop) : (hi <= hi')%N ->
  forall path t dotted (f : tbl -> cres (tbl * X)),
  tbl_in lo hi t = true -> keys_in lo hi' path = true ->
  (forall p, tbl_in lo hi p = true -> cres_post (fun p' x => tbl_in lo hi' p' = true /\ Q x) (f p)) ->
  cres_post (fun t' x => tbl_in lo hi' t' = true /\ Q x) (with_table_at t path dotted f).
Proof.
  intros Hle. induction path as [|k ptl IH]; intros t dotted f Ht Hp Hf; cbn [with_table_at]; [apply Hf, Ht|].
  cbn [keys_in forallb] in Hp. apply andb_true_iff in Hp as [Hk Hptl].
  assert (Ht' : tbl_in lo hi' t = true) by (eapply tbl_in_mono; [| |exact Ht]; nlia).
  pose proof (tbl_in_get_items _ _ _ Ht) as Hi. pose proof (tbl_in_get_items _ _ _ Ht') as Hi'.
  destruct (kv_get (t_items t) (k_key k)) as [[k' it]|] eqn:G.
  - destruct (items_in_get _ _ _ _ _ _ Hi G) as [_ Hit]. destruct it as [|v|sub|ts sp]; try exact I.
    + destruct (dotted && negb (t_implicit sub)); [exact I|]. rewrite item_in_table in Hit.
      specialize (IH sub dotted f Hit Hptl Hf). destruct (with_table_at sub ptl dotted f) as [[sub' x]| |]; try exact I.
      destruct IH as [Hs Hq]. cbn [cres_post]. split; [|exact Hq].
      apply tbl_in_set_items; [exact Ht'|]. apply items_in_set; [exact Hi'|]. rewrite item_in_table. exact Hs.
    + destruct (dotted && _); [exact I|]. destruct (rev ts) as [|last rinit] eqn:R; [exact I|].
      rewrite item_in_aot in Hit. apply andb_true_iff in Hit as [Hts Hsp].
      rewrite <- forallb_rev, R in Hts. cbn [forallb] in Hts. apply andb_true_iff in Hts as [Hl Hr].
      specialize (IH last dotted f Hl Hptl Hf). destruct (with_table_at last ptl dotted f) as [[last' x]| |]; try exact I.
      destruct IH as [Hs Hq]. cbn [cres_post]. split; [|exact Hq].
      apply tbl_in_set_items; [exact Ht'|]. apply items_in_set; [exact Hi'|]. rewrite item_in_aot.
      rewrite forallb_rev. cbn [forallb]. rewrite Hs, (forallb_tbl_in_mono _ _ _ _ Hle Hr). cbn [andb].
      eapply osp_in_mono; [| |exact Hsp]; nlia.
  - specialize (IH (Tbl [] decor_default true dotted None None) dotted f eq_refl Hptl Hf).
    destruct (with_table_at _ ptl dotted f) as [[sub' x]| |]; try exact I.
    destruct IH as [Hs Hq]. cbn [cres_post]. split; [|exact Hq].
    apply tbl_in_set_items; [exact Ht'|]. apply items_in_push; [exact Hi'|exact Hk|]. rewrite item_in_table. exact Hs.
Qed.

(* descend_path never touches the span of the table it starts from, if the closure does not *)
Lemma wta_span {X} : forall path t dotted (f : tbl -> cres (tbl * X)) t' x,
  (forall p p' y, f p = COk (p', y) -> t_span p' = t_span p) ->
  with_table_at t path dotted f = COk (t', x) -> t_span t' = t_span t.
Proof.
  induction path as [|k ptl IH]; intros t dotted f t' x Hf E; cbn [with_table_at] in E; [eapply Hf, E|].
  destruct (kv_get (t_items t) (k_key k)) as [[k' it]|].
  - destruct it as [|v|sub|ts sp]; try discriminate E.
    + destruct (dotted && negb (t_implicit sub)); [discriminate|].
      destruct (with_table_at sub ptl dotted f) as [[sub' y]| |]; try discriminate E. inversion E; subst.
      apply span_set_items.
    + destruct (dotted && _); [discriminate|]. destruct (rev ts) as [|last rinit]; [discriminate|].
      destruct (with_table_at last ptl dotted f) as [[last' y]| |]; try discriminate E. inversion E; subst.
      apply span_set_items.
  - destruct (with_table_at _ ptl dotted f) as [[sub' y]| |]; try discriminate E. inversion E; subst.
    apply span_set_items.
Qed.

(* ---- on_keyval ----------------------------------------------------------------------------------------------- *)
Definition st_in (p : N) (st : pstate) : Prop :=
  exists a b, t_span (st_current st) = Some (a, b) /\ (a <= b)%N /\ (b <= p)%N
              /\ tbl_in 0 b (st_root st) = true
              /\ tbl_in 0 p (st_current st) = true
              /\ osp_in 0 p (st_trailing st) = true
              /\ keys_in 0 b (st_path st) = true.

Lemma keys_in_mono lo hi lo' hi' l : (lo' <= lo)%N -> (hi <= hi')%N -> keys_in lo hi l = true -> keys_in lo' hi' l = true.
Proof.
  intros H1 H2. unfold keys_in. apply forallb_Forall_imp. apply Forall_forall. intros k _. apply key_in_mono; assumption.
Qed.

Lemma st_in_mono p p' st : (p <= p')%N -> st_in p st -> st_in p' st.
Proof.
  intros Hle (a & b & S & H1 & H2 & Hr & Hc & Ht & Hp). exists a, b. repeat split; auto; try nlia.
  - eapply tbl_in_mono; [| |exact Hc]; nlia.
  - eapply osp_in_mono; [| |exact Ht]; nlia.
Qed.

Lemma st_in_new : st_in 0 state_new.
Proof. exists 0%N, 0%N. cbn. repeat split; nlia. Qed.

Lemma st_in_on_ws p p' st : st_in p st -> (p <= p')%N -> st_in p' (on_ws st (p, p')).
Proof.
  intros (a & b & S & H1 & H2 & Hr & Hc & Ht & Hp) Hle. exists a, b. unfold on_ws; cbn [st_current st_root st_trailing st_path].
  repeat split; auto; try nlia.
  - eapply tbl_in_mono; [| |exact Hc]; nlia.
  - destruct (st_trailing st) as [old|]; cbn [osp_in] in *; unfold sp_in in *; cbn [fst snd]; nlia.
Qed.

Lemma value_span_in lo hi v sp : item_in lo hi v = true -> item_span v = Some sp -> sp_in lo hi sp = true.
Proof.
  intros H S. destruct (item_end_in lo hi v (snd sp) H) as [_ _]; [unfold item_end; rewrite S; reflexivity|].
  destruct v as [|val|t|ts asp]; cbn [item_span] in S; [discriminate| | |].
  - rewrite item_in_value in H. destruct val as [s r d|vals tr c d sp0|items pre im dt d sp0]; cbn [value_span] in S.
    + destruct r as [r|]; [|discriminate]. rewrite value_in_scalar in H. apply andb_true_iff in H as [H _].
      cbn [oraw_in] in H. unfold raw_in in H. rewrite S in H. exact H.
    + rewrite value_in_array in H. apply andb4 in H as (_ & _ & _ & H). subst sp0. exact H.
    + rewrite inline_in_items in H. apply andb4 in H as (_ & _ & _ & H). subst sp0. exact H.
  - rewrite item_in_table, tbl_in_items in H. apply andb3 in H as (_ & _ & H). rewrite S in H. exact H.
  - rewrite item_in_aot in H. apply andb_true_iff in H as [_ H]. subst asp. exact H.
Qed.

Lemma key_in_leaf_prefix lo hi k r : key_in lo hi k = true -> d_prefix (k_leaf k) = Some r -> raw_in lo hi r = true.
Proof.
  unfold key_in, decor_in. intros H E. apply andb3 in H as (_ & H & _). apply andb_true_iff in H as [H _].
  rewrite E in H. exact H.
Qed.
Lemma key_in_leaf_suffix lo hi k : key_in lo hi k = true -> oraw_in lo hi (d_suffix (k_leaf k)) = true.
Proof. unfold key_in, decor_in. intros H. apply andb3 in H as (_ & H & _). apply andb_true_iff in H as [_ H]. exact H. Qed.

(* the insertion: a key path and key in [p, mid], a value in [mid, p'] *)
Lemma on_keyval_in p mid p' st path k v st' :
  st_in p st -> (p <= mid)%N -> (mid <= p')%N ->
  keys_in p mid path = true -> key_in p mid k = true -> item_in mid p' v = true ->
  on_keyval st path k v = COk st' ->
  st_in p' st' /\ (forall e, item_end v = Some e -> exists a, t_span (st_current st') = Some (a, e)).
Proof.
  intros (a & b & S & H1 & H2 & Hr & Hc & Ht & Hp) L1 L2 Hpath Hk Hv E. unfold on_keyval in E. cbv zeta in E.
  set (kpre := match d_prefix (k_leaf k) with Some r => raw_span r | None => None end) in *.
  set (prefix := match st_trailing st, kpre with
                 | Some p0, Some kk => Some (fst p0, snd kk) | Some p0, None => Some p0
                 | None, Some p0 => Some p0 | None, None => None end) in *.
  set (k' := set_leaf k _) in *.
  set (cur := match t_span (st_current st), item_span v with
              | Some e, Some vs => t_set_span (st_current st) (Some (fst e, snd vs)) | _, _ => st_current st end) in *.
  assert (Hkpre : osp_in p mid kpre = true).
  { subst kpre. destruct (d_prefix (k_leaf k)) as [r|] eqn:D; [|reflexivity]. apply (key_in_leaf_prefix _ _ _ _ Hk D). }
  assert (Hprefix : osp_in 0 p' prefix = true).
  { subst prefix. destruct (st_trailing st) as [p0|], kpre as [kk|]; cbn [osp_in] in *; unfold sp_in in *; cbn [fst snd]; nlia. }
  assert (Hk' : key_in 0 p' k' = true).
  { subst k'. apply key_in_set_leaf; [eapply key_in_mono; [| |exact Hk]; nlia|].
    unfold decor_in; cbn [d_prefix d_suffix oraw_in]. apply andb_true_iff. split.
    - destruct prefix as [sp|]; [apply raw_with_span_in, Hprefix|reflexivity].
    - eapply oraw_in_mono; [| |apply (key_in_leaf_suffix _ _ _ Hk)]; nlia. }
  assert (Hcur : exists b', t_span cur = Some (a, b') /\ (b <= b')%N /\ (b' <= p')%N /\ tbl_in 0 p' cur = true
                            /\ (forall e, item_end v = Some e -> b' = e)).
  { subst cur. rewrite S. assert (Hc' : tbl_in 0 p' (st_current st) = true) by (eapply tbl_in_mono; [| |exact Hc]; nlia).
    unfold item_end. destruct (item_span v) as [vs|] eqn:V.
    - pose proof (value_span_in _ _ _ _ Hv V) as Hvs. unfold sp_in in Hvs. exists (snd vs). rewrite span_set_span. cbn [fst].
      assert (A1 : (b <= snd vs)%N) by (nlia). assert (A2 : (snd vs <= p')%N) by (nlia).
      split; [reflexivity|]. split; [exact A1|]. split; [exact A2|]. split; [|intros e X; inversion X; reflexivity].
      apply tbl_in_set_span; [exact Hc'|]. cbn [osp_in]. apply sp_in_pair; nlia.
    - exists b. split; [exact S|]. split; [nlia|]. split; [nlia|]. split; [exact Hc'|discriminate]. }
  destruct Hcur as (b' & S' & Hb1 & Hb2 & Hcur & Hend).
  match type of E with context [with_table_at cur path true ?f] =>
    pose proof (wta_in 0 p' p' (fun _ : unit => True) (N.le_refl _) path cur true f Hcur) as W;
    pose proof (wta_span path cur true f) as WS end.
  match type of W with ?A -> ?B -> _ => assert (X1 : A); [|assert (X2 : B); [|specialize (W X1 X2)]] end.
  { eapply keys_in_mono; [| |exact Hpath]; nlia. }
  { intros t Ht0. destruct (Bool.eqb _ _); [exact I|]. destruct (kv_get _ _); [exact I|].
    cbn [cres_post]. split; [|exact I]. apply tbl_in_set_items; [exact Ht0|].
    apply items_in_push; [apply tbl_in_get_items, Ht0|exact Hk'|]. eapply item_in_mono; [| |exact Hv]; nlia. }
  match type of E with match ?r with _ => _ end = _ => destruct r as [[cur' u]| |] eqn:R; try discriminate E end.
  inversion E; subst st'. cbn [cres_post] in W. destruct W as [W _].
  assert (S'' : t_span cur' = Some (a, b')).
  { rewrite <- S'. eapply WS; [|reflexivity]. intros t t0 y Y. destruct (Bool.eqb _ _); [discriminate|].
    destruct (kv_get _ _); [discriminate|]. inversion Y; subst. apply span_set_items. }
  cbn [st_current]. split.
  - exists a, b'. cbn [st_current st_root st_trailing st_path]. repeat split; auto; try nlia.
    + eapply tbl_in_mono; [| |exact Hr]; nlia.
    + eapply keys_in_mono; [| |exact Hp]; nlia.
  - intros e He. exists a. rewrite S''. rewrite (Hend e He). reflexivity.
Qed.

(* the span bookkeeping of tables made of dotted keys *)
Lemma set_dotted_spans_in lo mid hi : forall path t ve,
  tbl_in lo hi t = true -> keys_in lo mid path = true -> (mid <= hi)%N ->
  (forall e, ve = Some e -> (mid <= e)%N /\ (e <= hi)%N) ->
  tbl_in lo hi (set_dotted_spans t path ve) = true /\ t_span (set_dotted_spans t path ve) = t_span t.
Proof.
  induction path as [|k ptl IH]; intros t ve Ht Hp Hmid Hve; cbn [set_dotted_spans]; [auto|].
  cbn [keys_in forallb] in Hp. apply andb_true_iff in Hp as [Hk Hptl].
  pose proof (tbl_in_get_items _ _ _ Ht) as Hi.
  destruct (kv_get (t_items t) (k_key k)) as [[k' it]|] eqn:G; [|auto].
  destruct (items_in_get _ _ _ _ _ _ Hi G) as [_ Hit]. destruct it as [|v|sub|ts sp]; auto.
  rewrite item_in_table in Hit. rewrite span_set_items. split; [|reflexivity].
  apply tbl_in_set_items; [exact Ht|]. apply items_in_set; [exact Hi|]. rewrite item_in_table.
  apply IH; auto. destruct (t_dotted sub); [|exact Hit]. destruct (key_span k) as [ks|] eqn:K; [|exact Hit].
  destruct ve as [e|]; [|exact Hit]. destruct (Hve e eq_refl) as [Ha Hb]. pose proof (key_span_in _ _ _ _ Hk K) as Hks.
  apply tbl_in_set_span; [exact Hit|]. rewrite tbl_in_items in Hit. apply andb3 in Hit as (_ & _ & Hsp).
  apply widen_in; [exact Hsp| | |exact Hb]; unfold sp_in in *; nlia.
Qed.

Lemma on_keyval_sp_in p mid p' st path k v st' :
  st_in p st -> (p <= mid)%N -> (mid <= p')%N ->
  keys_in p mid path = true -> key_in p mid k = true -> item_in mid p' v = true ->
  on_keyval_sp st path k v = COk st' -> st_in p' st'.
Proof.
  intros Hst L1 L2 Hpath Hk Hv E. unfold on_keyval_sp in E.
  destruct (on_keyval st path k v) as [st1| |] eqn:R; try discriminate E. inversion E; subst st'. clear E.
  destruct (on_keyval_in _ _ _ _ _ _ _ _ Hst L1 L2 Hpath Hk Hv R) as [(a & b & S & H1 & H2 & Hr & Hc & Ht & Hp) _].
  destruct (set_dotted_spans_in 0 mid p' path (st_current st1) (item_end v) Hc) as [D1 D2].
  - eapply keys_in_mono; [| |exact Hpath]; nlia.
  - exact L2.
  - intros e He. eapply item_end_in in He; [|exact Hv]. exact He.
  - exists a, b. cbn [st_current st_root st_trailing st_path]. rewrite D2. repeat split; auto.
Qed.

(* ---- finalize_table / start_table / start_array_table ------------------------------------------------------------ *)
Lemma f_fin_std_in b p k table parent : (b <= p)%N ->
  tbl_in 0 p table = true -> key_in 0 b k = true -> tbl_in 0 b parent = true ->
  cres_post (fun p' (_ : unit) => tbl_in 0 p p' = true /\ True) (f_fin_std k table parent).
Proof.
  intros Hle Ht Hk Hp. assert (Hp' : tbl_in 0 p parent = true) by (eapply tbl_in_mono; [| |exact Hp]; nlia).
  pose proof (tbl_in_get_items _ _ _ Hp') as Hi. unfold f_fin_std.
  destruct (kv_get (t_items parent) (k_key k)) as [[k' it]|].
  - destruct it as [|v|t|ts sp]; try exact I. destruct (t_implicit t); [|exact I]. cbn [cres_post]. split; [|exact I].
    apply tbl_in_set_items; [exact Hp'|]. apply items_in_set; [exact Hi|]. rewrite item_in_table. exact Ht.
  - cbn [cres_post]. split; [|exact I]. apply tbl_in_set_items; [exact Hp'|].
    apply items_in_push; [exact Hi| |rewrite item_in_table; exact Ht]. eapply key_in_mono; [| |exact Hk]; nlia.
Qed.

Lemma f_fin_aot_in a b p k table parent : (a <= b)%N -> (b <= p)%N ->
  tbl_in 0 p table = true -> t_span table = Some (a, b) -> key_in 0 b k = true -> tbl_in 0 b parent = true ->
  cres_post (fun p' (_ : unit) => tbl_in 0 p p' = true /\ True) (f_fin_aot k table parent).
Proof.
  intros Hab Hle Ht S Hk Hp. assert (Hp' : tbl_in 0 p parent = true) by (eapply tbl_in_mono; [| |exact Hp]; nlia).
  pose proof (tbl_in_get_items _ _ _ Hp') as Hi. pose proof (tbl_in_get_items _ _ _ Hp) as Hib. unfold f_fin_aot.
  destruct (kv_get (t_items parent) (k_key k)) as [[k' it]|] eqn:G.
  - destruct (items_in_get _ _ _ _ _ _ Hib G) as [_ Hit]. destruct it as [|v|t|ts sp]; try exact I. cbv zeta.
    cbn [cres_post]. split; [|exact I]. apply tbl_in_set_items; [exact Hp'|]. apply items_in_set; [exact Hi|].
    rewrite item_in_aot in *. apply andb_true_iff in Hit as [Hts _]. rewrite forallb_app. cbn [forallb].
    rewrite (forallb_tbl_in_mono _ _ _ _ Hle Hts), Ht. cbn [andb].
    destruct ts as [|first tl]; cbn [app].
    + rewrite S. cbn [union_span osp_in fst snd]. unfold sp_in; cbn [fst snd]. nlia.
    + cbn [forallb] in Hts. apply andb_true_iff in Hts as [Hf _]. rewrite tbl_in_items in Hf. apply andb3 in Hf as (_ & _ & Hf).
      rewrite S. destruct (t_span first) as [x|]; [|reflexivity]. cbn [union_span osp_in fst snd] in *.
      unfold sp_in in *; cbn [fst snd]. nlia.
  - cbn [cres_post]. split; [|exact I]. apply tbl_in_set_items; [exact Hp'|].
    apply items_in_push; [exact Hi|eapply key_in_mono; [| |exact Hk]; nlia|].
    rewrite item_in_aot. cbn [forallb]. rewrite Ht, S. cbn [union_span osp_in fst snd andb]. unfold sp_in; cbn [fst snd]. nlia.
Qed.

Lemma pop_key_none (p : list key) : pop_key p = None -> p = [].
Proof.
  unfold pop_key. destruct (rev p) as [|last rinit] eqn:R; [|discriminate]. intros _.
  apply (f_equal (@rev key)) in R. rewrite rev_involutive in R. exact R.
Qed.

Lemma finalize_in p st st' :
  st_in p st -> finalize_table st = COk st' ->
  tbl_in 0 p (st_root st') = true /\ st_trailing st' = st_trailing st /\ st_current st' = tbl_new /\ st_path st' = [].
Proof.
  intros (a & b & S & H1 & H2 & Hr & Hc & Ht & Hp) E. destruct st as [root tr posn cur ia path].
  cbn [st_current st_root st_trailing st_path] in *.
  destruct (pop_key path) as [[ppath k]|] eqn:P.
  - rewrite (finalize_eq _ _ _ _ _ _ _ _ P) in E. destruct (pop_key_in _ _ _ _ _ Hp P) as [Hpp Hk].
    assert (W : cres_post (fun p' (_ : unit) => tbl_in 0 p p' = true /\ True)
                          (with_table_at root ppath false (if ia then f_fin_aot k cur else f_fin_std k cur))).
    { apply (wta_in 0 b p (fun _ : unit => True) H2); [exact Hr|eapply keys_in_mono; [| |exact Hpp]; nlia|].
      intros parent Hpar. destruct ia; [apply (f_fin_aot_in a b p); assumption|apply (f_fin_std_in b p); assumption]. }
    destruct (with_table_at root ppath false _) as [[root' u]| |]; try discriminate E. inversion E; subst st'.
    cbn [cres_post] in W. cbn [st_current st_root st_trailing st_path]. tauto.
  - unfold finalize_table in E. cbn [st_current st_root st_trailing st_path st_is_array st_position] in E. rewrite P in E.
    destruct (tbl_is_empty root); [|discriminate]. inversion E; subst st'. cbn [st_current st_root st_trailing st_path]. auto.
Qed.

(* a header: the state after finalize_table and take_trailing (current = tbl_new, path = []), the header
   keys in [p, e], its span (p, e), the trailing text of the header line in [e, p'] *)
Lemma start_in (ia : bool) p e p' st path dec st' :
  tbl_in 0 p (st_root st) = true -> st_current st = tbl_new -> (p <= e)%N -> (e <= p')%N ->
  keys_in p e path = true -> decor_in 0 p' dec = true ->
  (if ia then start_array_table st path dec (p, e) else start_table st path dec (p, e)) = COk st' ->
  st_trailing st = None -> st_in p' st'.
Proof.
  intros Hr Hc L1 L2 Hpath Hdec E Htr.
  assert (Hpath0 : keys_in 0 e path = true) by (eapply keys_in_mono; [| |exact Hpath]; nlia).
  destruct ia.
  - unfold start_array_table in E. destruct (negb _); [discriminate|]. destruct (st_path st); [|discriminate].
    destruct (pop_key path) as [[ppath k]|] eqn:P; [|discriminate]. destruct (pop_key_in _ _ _ _ _ Hpath0 P) as [Hpp Hk].
    match type of E with context [with_table_at _ ppath false ?f] =>
      pose proof (wta_in 0 p e (fun _ : unit => True) L1 ppath (st_root st) false f Hr Hpp) as W end.
    match type of W with ?B -> _ => assert (X2 : B); [|specialize (W X2)] end.
    { intros parent Hpar. assert (Hpar' : tbl_in 0 e parent = true) by (eapply tbl_in_mono; [| |exact Hpar]; nlia).
      destruct (kv_get (t_items parent) (k_key k)) as [[k' it]|].
      - destruct it; try exact I. cbn [cres_post]. auto.
      - cbn [cres_post]. split; [|exact I]. apply tbl_in_set_items; [exact Hpar'|].
        apply items_in_push; [apply tbl_in_get_items, Hpar'|exact Hk|reflexivity]. }
    match type of E with match ?r with _ => _ end = _ => destruct r as [[root' u]| |]; try discriminate E end.
    inversion E; subst st'. cbn [cres_post] in W. destruct W as [W _]. unfold open_table.
    exists p, e. cbn [st_current st_root st_trailing st_path t_span]. rewrite Hc, Htr. cbn [t_items tbl_new].
    repeat split; auto. cbn [tbl_in forallb]. rewrite Hdec. cbn [andb osp_in]. apply sp_in_pair; nlia.
  - unfold start_table in E. destruct (negb _); [discriminate|]. destruct (st_path st); [|discriminate].
    destruct (pop_key path) as [[ppath k]|] eqn:P; [|discriminate]. destruct (pop_key_in _ _ _ _ _ Hpath0 P) as [Hpp Hk].
    match type of E with context [with_table_at _ ppath false ?f] =>
      pose proof (wta_in 0 p e (fun x : option tbl => match x with Some t => tbl_in 0 p t = true | None => True end)
                         L1 ppath (st_root st) false f Hr Hpp) as W end.
    match type of W with ?B -> _ => assert (X2 : B); [|specialize (W X2)] end.
    { intros parent Hpar. assert (Hpar' : tbl_in 0 e parent = true) by (eapply tbl_in_mono; [| |exact Hpar]; nlia).
      destruct (kv_get (t_items parent) (k_key k)) as [[k' it]|] eqn:G; [|cbn [cres_post]; auto].
      destruct (items_in_get _ _ _ _ _ _ (tbl_in_get_items _ _ _ Hpar) G) as [_ Hit].
      destruct it as [|v|t|ts sp]; try exact I. destruct (t_implicit t && negb (t_dotted t)); [|exact I].
      cbn [cres_post]. split; [|exact Hit]. apply tbl_in_set_items; [exact Hpar'|].
      apply items_in_remove, tbl_in_get_items, Hpar'. }
    match type of E with match ?r with _ => _ end = _ => destruct r as [[root' tk]| |]; try discriminate E end.
    inversion E; subst st'. cbn [cres_post] in W. destruct W as [W Wt]. unfold open_table.
    exists p, e. cbn [st_current st_root st_trailing st_path t_span]. rewrite Htr.
    repeat split; auto. rewrite tbl_in_items. cbn [t_items t_decor t_span]. rewrite Hdec. cbn [osp_in].
    rewrite (sp_in_pair 0 p' p e) by nlia. rewrite !andb_true_r.
    destruct tk as [t|].
    + eapply items_in_mono; [| |apply tbl_in_get_items, Wt]; nlia.
    + rewrite Hc. reflexivity.
Qed.

Lemma on_header_in (ia : bool) p e p' st path trailing st' :
  st_in p st -> (p <= e)%N -> (e <= p')%N -> keys_in p e path = true -> sp_in e p' trailing = true ->
  on_header ia st path trailing (p, e) = COk st' -> st_in p' st'.
Proof.
  intros Hst L1 L2 Hpath Htrail E. unfold on_header in E. destruct path as [|k0 ptl] eqn:Ep; [discriminate|]. rewrite <- Ep in *.
  destruct (finalize_table st) as [st1| |] eqn:F; try discriminate E.
  destruct (finalize_in _ _ _ Hst F) as (Hr & Htr & Hc & Hp). unfold take_trailing in E.
  destruct Hst as (a & b & S & H1 & H2 & _ & _ & Ht & _).
  eapply (start_in ia p e p'); [| | | | | |exact E|]; cbn [st_root st_current st_trailing]; auto.
  apply decor_in_new.
  - rewrite Htr. destruct (st_trailing st) as [sp|]; [|reflexivity]. apply raw_with_span_in.
    cbn [osp_in] in Ht. unfold sp_in in *. nlia.
  - apply raw_with_span_in. unfold sp_in in *. nlia.
Qed.
