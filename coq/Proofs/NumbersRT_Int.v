(* Proofs/NumbersRT_Int.v — C11, integers: the writer's text reads back as the same i64;
   nothing outside the i64 range ever comes out of `integer`. *)
From TV Require Import Base.Prelude Base.Utf8 Base.Winnow Gen.Consts Model.Datetime Model.Strings Model.Numbers Model.Write.
From TV Require Import Proofs.NumbersRT_Lex.
Require Import Lia ZifyBool ZifyN ZifyNat.

(* ---- bytes <-> numbers ------------------------------------------------------------------------ *)
Lemma b2n_n2b x : (x < 256)%N -> b2n (n2b x) = x.
Proof.
  intro H. unfold b2n, n2b. destruct (Byte.of_N x) as [b|] eqn:E.
  - apply Byte.to_of_N. exact E.
  - apply Byte.of_N_None_iff in E. lia.
Qed.

Lemma digit_byte_val d : (d < 10)%N -> b2n (digit_byte d) = (48 + d)%N.
Proof. intro H. unfold digit_byte. apply b2n_n2b. lia. Qed.

Lemma digit_byte_is_digit d : (d < 10)%N -> is_digit (digit_byte d) = true.
Proof. intro H. unfold is_digit. rewrite (digit_byte_val _ H). lia. Qed.

Lemma digit_byte_digit_val d : (d < 10)%N -> digit_val (digit_byte d) = d.
Proof. intro H. unfold digit_val. rewrite (digit_byte_val _ H). lia. Qed.

(* ---- decimal value of digit strings ------------------------------------------------------------ *)
Lemma dec_value_acc_app acc a b :
  dec_value_acc acc (a ++ b) = dec_value_acc (dec_value_acc acc a) b.
Proof. revert acc; induction a as [|x a IH]; intro acc; [reflexivity | apply IH]. Qed.

Lemma dec_value_snoc a b : dec_value (a ++ [b]) = (dec_value a * 10 + digit_val b)%N.
Proof. unfold dec_value. rewrite dec_value_acc_app. reflexivity. Qed.

(* the writer's loop: least significant digit first *)
Definition good_rev (l : bytes) (n : N) : Prop :=
  forallb is_digit (rev l) = true /\ dec_value (rev l) = n /\
  (n <> 0%N -> exists d tl, rev l = d :: tl /\ (49 <=? b2n d)%N = true).

Lemma n_digits_rev_good : forall fuel n, (n < 2 ^ N.of_nat fuel)%N -> good_rev (n_digits_rev fuel n) n.
Proof.
  unfold good_rev. induction fuel as [|fuel IH]; intros n Hn.
  - change (N.of_nat 0) with 0%N in Hn. assert (n = 0%N) by lia. subst. 
    cbn. repeat split. intro H; contradiction.
  - cbn [n_digits_rev]. destruct (n <? 10)%N eqn:E10.
    + assert (H10 : (n < 10)%N) by lia. cbn [rev app].
      repeat split.
      * cbn [forallb]. rewrite (digit_byte_is_digit _ H10). reflexivity.
      * unfold dec_value. cbn [dec_value_acc]. rewrite (digit_byte_digit_val _ H10). lia.
      * intro Hz. exists (digit_byte n), []. split; [reflexivity|]. rewrite (digit_byte_val _ H10). lia.
    + assert (H10 : (10 <= n)%N) by lia.
      assert (Hm : (n mod 10 < 10)%N) by (apply N.mod_lt; lia).
      assert (Hq : (n / 10 < 2 ^ N.of_nat fuel)%N).
      { rewrite Nat2N.inj_succ, N.pow_succ_r' in Hn.
        apply N.div_lt_upper_bound; lia. }
      destruct (IH _ Hq) as (G1 & G2 & G3).
      cbn [rev]. repeat split.
      * rewrite forallb_app, G1. cbn [forallb]. rewrite (digit_byte_is_digit _ Hm). reflexivity.
      * rewrite dec_value_snoc, G2, (digit_byte_digit_val _ Hm).
        pose proof (N.div_mod n 10 ltac:(lia)). lia.
      * intros _. destruct G3 as (d & tl & G3 & G4).
        { intro Hz. assert (n < 10)%N; [|lia].
          pose proof (N.div_mod n 10 ltac:(lia)). lia. }
        exists d, (tl ++ [digit_byte (n mod 10)]). rewrite G3. split; [reflexivity | exact G4].
Qed.

Lemma size_nat_gt n : (n < 2 ^ N.of_nat (N.size_nat n))%N.
Proof.
  destruct n as [|p]; [cbn; lia|]. cbn [N.size_nat].
  induction p as [p IH|p IH|].
  - cbn [Pos.size_nat]. rewrite Nat2N.inj_succ, N.pow_succ_r'. lia.
  - cbn [Pos.size_nat]. rewrite Nat2N.inj_succ, N.pow_succ_r'. lia.
  - cbn. lia.
Qed.

Lemma write_N_good n :
  forallb is_digit (write_N n) = true /\ dec_value (write_N n) = n /\
  (n <> 0%N -> exists d tl, write_N n = d :: tl /\ (49 <=? b2n d)%N = true).
Proof.
  unfold write_N. apply n_digits_rev_good.
  pose proof (size_nat_gt n) as H. rewrite Nat2N.inj_succ, N.pow_succ_r'. lia.
Qed.

(* ---- i64::from_str_radix on decimal digit strings ------------------------------------------------ *)
Lemma radix_digit_dec b : is_digit b = true -> radix_digit 10 b = Some (digit_val b).
Proof.
  intro H. unfold radix_digit, inr, digit_val. unfold is_digit in H.
  replace ((48 <=? b2n b)%N && (b2n b <=? 57)%N) with true by (symmetry; exact H).
  replace (b2n b - 48 <? 10)%N with true by lia. reflexivity.
Qed.

Lemma radix_value_dec s : forall acc, forallb is_digit s = true ->
  radix_value 10 acc s = Some (dec_value_acc acc s).
Proof.
  induction s as [|b s IH]; intros acc H; [reflexivity|].
  cbn [forallb] in H. apply andb_true_iff in H as [Hb Hs].
  cbn [radix_value dec_value_acc]. rewrite (radix_digit_dec _ Hb). apply IH, Hs.
Qed.

Definition not_us (b : byte) : bool := negb (byte_eqb b underscore).

Lemma remove_us_id s : forallb not_us s = true -> remove_us s = s.
Proof.
  induction s as [|b s IH]; [reflexivity|]. cbn [forallb]. intro H.
  apply andb_true_iff in H as [Hb Hs]. unfold remove_us. cbn [filter].
  unfold not_us in Hb. rewrite Hb. f_equal. apply IH, Hs.
Qed.

Lemma forallb_impl {A} (f g : A -> bool) l :
  (forall x, f x = true -> g x = true) -> forallb f l = true -> forallb g l = true.
Proof.
  intro H. induction l as [|x l IH]; [reflexivity|]. cbn [forallb]. intro E.
  apply andb_true_iff in E as [E1 E2]. rewrite (H _ E1), (IH E2). reflexivity.
Qed.

Lemma digit_not_us b : is_digit b = true -> not_us b = true.
Proof.
  unfold not_us. intro H. destruct (byte_eqb b underscore) eqn:E; [|reflexivity].
  apply byte_eqb_eq in E. subst. discriminate H.
Qed.
Lemma digit_not_sign b : is_digit b = true -> byte_eqb b plus = false /\ byte_eqb b dash = false.
Proof.
  intro H. split.
  - destruct (byte_eqb b plus) eqn:E; [apply byte_eqb_eq in E; subst; discriminate H | reflexivity].
  - destruct (byte_eqb b dash) eqn:E; [apply byte_eqb_eq in E; subst; discriminate H | reflexivity].
Qed.

Lemma us_tail_all d s : forallb d s = true -> us_tail d s = Some (length s).
Proof.
  intro H. rewrite <- (app_nil_r s) at 1. rewrite (us_tail_app d [] s (wf_tail_all _ _ H)).
  cbn [us_tail]. f_equal. lia.
Qed.

(* a decimal digit string without leading zero *)
Definition proper_digits (ds : bytes) : Prop :=
  forallb is_digit ds = true /\ exists d tl, ds = d :: tl /\ (49 <=? b2n d)%N = true.

Lemma proper_dec_body ds : proper_digits ds -> dec_body_len ds = LOk (length ds).
Proof.
  intros [Ha (d & tl & -> & Hd)]. cbn [forallb] in Ha. apply andb_true_iff in Ha as [Hd0 Htl].
  unfold dec_body_len.
  assert (E19 : in_class DIGIT1_9 d = true).
  { unfold in_class, DIGIT1_9. cbn [existsb fst snd]. unfold is_digit in Hd0. lia. }
  rewrite E19.
  rewrite (us_tail_all (in_class DIGIT) tl).
  - reflexivity.
  - apply (forallb_impl is_digit); [|exact Htl]. intros x Hx. rewrite DIGIT_is_digit. exact Hx.
Qed.

Lemma i64_from_str_pos ds :
  forallb is_digit ds = true -> ds <> [] -> in_i64 (Z.of_N (dec_value ds)) = true ->
  i64_from_str_radix 10 ds = Some (Z.of_N (dec_value ds)).
Proof.
  intros Ha Hne Hr. unfold i64_from_str_radix.
  destruct ds as [|b t]; [contradiction|].
  assert (Hb : is_digit b = true) by (cbn [forallb] in Ha; apply andb_true_iff in Ha; tauto).
  destruct (digit_not_sign _ Hb) as [-> ->].
  rewrite (radix_value_dec _ 0%N Ha). fold (dec_value (b :: t)). rewrite Hr. reflexivity.
Qed.

Lemma i64_from_str_neg ds :
  forallb is_digit ds = true -> ds <> [] -> in_i64 (- Z.of_N (dec_value ds)) = true ->
  i64_from_str_radix 10 (dash :: ds) = Some (- Z.of_N (dec_value ds))%Z.
Proof.
  intros Ha Hne Hr. unfold i64_from_str_radix.
  change (byte_eqb dash plus) with false. change (byte_eqb dash dash) with true. cbv iota.
  destruct ds as [|b t]; [contradiction|].
  rewrite (radix_value_dec _ 0%N Ha). fold (dec_value (b :: t)). rewrite Hr. reflexivity.
Qed.

(* ---- C11_int_roundtrip, token level ------------------------------------------------------------ *)
Definition end_input (s : bytes) : input := mkIn [] (N.of_nat (length s)) 0.

Lemma advance_all s : advance (length s) (new_input s) = end_input s.
Proof.
  unfold advance, new_input, end_input. cbn [rest pos depth]. f_equal.
  rewrite <- (app_nil_r s) at 2. apply skipn_app_exact.
Qed.

Lemma write_i64_shape z :
  (z = 0%Z /\ write_i64 z = [x30]) \/
  (exists ds, proper_digits ds /\
     ((0 < z)%Z /\ write_i64 z = ds /\ Z.of_N (dec_value ds) = z \/
      (z < 0)%Z /\ write_i64 z = dash :: ds /\ (- Z.of_N (dec_value ds))%Z = z)).
Proof.
  destruct z as [|p|p].
  - left. split; reflexivity.
  - right. destruct (write_N_good (Npos p)) as (G1 & G2 & G3).
    exists (write_N (Npos p)). split; [split; [exact G1 | apply G3; discriminate]|].
    left. cbn [write_i64]. rewrite G2. repeat split; lia.
  - right. destruct (write_N_good (Npos p)) as (G1 & G2 & G3).
    exists (write_N (Npos p)). split; [split; [exact G1 | apply G3; discriminate]|].
    right. cbn [write_i64]. rewrite G2. repeat split; lia.
Qed.

Lemma integer_write_i64 z :
  in_i64 z = true ->
  integer (new_input (write_i64 z)) = Ok z (end_input (write_i64 z)).
Proof.
  intro Hz. destruct (write_i64_shape z) as [[-> ->] | (ds & Hp & H)].
  - vm_compute. reflexivity.
  - pose proof Hp as [Hall (d & tl & Hds & Hd)].
    assert (Hne : ds <> []) by (rewrite Hds; discriminate).
    assert (Hnu : forallb not_us ds = true) by (apply (forallb_impl is_digit); [apply digit_not_us | exact Hall]).
    assert (Hd0 : d <> x30).
    { intro E. subst d. discriminate Hd. }
    destruct H as [(Hpos & Hw & Hv) | (Hneg & Hw & Hv)].
    + rewrite Hw. rewrite integer_dec by (cbn [new_input rest]; rewrite Hds; exact Hd0).
      unfold and_then.
      pose proof (dec_int_spec (new_input ds)) as L. cbn [new_input rest] in L.
      assert (EL : dec_int_len ds = LOk (length ds)).
      { unfold dec_int_len. rewrite Hds. rewrite <- Hds.
        assert (Es : is_sign d = false).
        { unfold is_sign. assert (Hdd : is_digit d = true) by (rewrite Hds in Hall; cbn [forallb] in Hall; apply andb_true_iff in Hall; tauto).
          destruct (digit_not_sign _ Hdd) as [-> ->]. reflexivity. }
        rewrite Es. apply proper_dec_body, Hp. }
      rewrite EL in L. fold (new_input ds) in L. rewrite L.
      rewrite <- (app_nil_r ds) at 2. rewrite firstn_app_exact.
      unfold dec_conv, int_of. rewrite (remove_us_id _ Hnu).
      rewrite (i64_from_str_pos _ Hall Hne) by (rewrite Hv; exact Hz).
      rewrite Hv, advance_all. reflexivity.
    + rewrite Hw. rewrite integer_dec by (cbn [new_input rest]; discriminate).
      unfold and_then.
      pose proof (dec_int_spec (new_input (dash :: ds))) as L. cbn [new_input rest] in L.
      assert (EL : dec_int_len (dash :: ds) = LOk (length (dash :: ds))).
      { unfold dec_int_len. change (is_sign dash) with true. cbv iota.
        rewrite (proper_dec_body _ Hp). reflexivity. }
      rewrite EL in L. fold (new_input (dash :: ds)) in L. rewrite L.
      rewrite <- (app_nil_r (dash :: ds)) at 2. rewrite firstn_app_exact.
      unfold dec_conv, int_of.
      assert (Hnu' : forallb not_us (dash :: ds) = true) by (cbn [forallb]; rewrite Hnu; reflexivity).
      rewrite (remove_us_id _ Hnu').
      rewrite (i64_from_str_neg _ Hall Hne) by (rewrite Hv; exact Hz).
      rewrite Hv, advance_all. reflexivity.
Qed.

(* ---- nothing outside i64 comes out of `integer` (no wrapping, no saturation) ---------------------- *)
Lemma i64_from_str_radix_range r s z : i64_from_str_radix r s = Some z -> in_i64 z = true.
Proof.
  unfold i64_from_str_radix.
  destruct (match s with
            | [] => (false, s)
            | b :: t => if byte_eqb b plus then (false, t) else if byte_eqb b dash then (true, t) else (false, s)
            end) as [neg ds].
  destruct ds as [|b t]; [discriminate|].
  destruct (radix_value r 0 (b :: t)) as [v|]; [|discriminate].
  destruct (in_i64 (if neg then (- Z.of_N v)%Z else Z.of_N v)) eqn:E; [|discriminate].
  intro H; injection H as <-. exact E.
Qed.

Lemma int_of_range r s z : int_of r s = TmOk z -> in_i64 z = true.
Proof.
  unfold int_of. destruct (i64_from_str_radix r (remove_us s)) as [v|] eqn:E; [|discriminate].
  intro H; injection H as <-. apply (i64_from_str_radix_range _ _ _ E).
Qed.

Lemma cut_try_map_range r p i z i' :
  cut_err (try_map (int_of r) p) i = Ok z i' -> in_i64 z = true.
Proof.
  unfold cut_err, try_map. destruct (p i) as [a j|e j|e j|st]; try discriminate.
  destruct (int_of r a) as [v|c|st] eqn:E; try discriminate.
  intro H; injection H as <- _. apply (int_of_range _ _ _ E).
Qed.

Lemma integer_range i z i' : integer i = Ok z i' -> in_i64 z = true.
Proof.
  unfold integer.
  destruct (bytes_eqb (firstn 2 (rest i)) [x30; x78]); [apply cut_try_map_range|].
  destruct (bytes_eqb (firstn 2 (rest i)) [x30; x6f]); [apply cut_try_map_range|].
  destruct (bytes_eqb (firstn 2 (rest i)) [x30; x62]); [apply cut_try_map_range|].
  unfold and_then. destruct (dec_int i) as [a j|e j|e j|st]; try discriminate.
  destruct (int_of 10 a) as [v|c|st] eqn:E; try discriminate.
  intro H; injection H as <- _. apply (int_of_range _ _ _ E).
Qed.

(* ---- C11_int_range: well-formed literals (TOML 1.0 integer grammar, written independently of
        the parser) whose value is outside i64 are refused, whatever follows them ------------------- *)
Inductive base : Set := B2 | B8 | B10 | B16.

Definition radix_of (bs : base) : N := match bs with B2 => 2 | B8 => 8 | B10 => 10 | B16 => 16 end%N.
(* digit classes of the grammar: bin 0-1, oct 0-7, dec 0-9, hex 0-9 A-F a-f *)
Definition base_class (bs : base) : bclass :=
  match bs with
  | B2 => [(48, 49)] | B8 => [(48, 55)] | B10 => [(48, 57)] | B16 => [(48, 57); (65, 70); (97, 102)]
  end%N.
Definition base_digit (bs : base) : byte -> bool := in_class (base_class bs).
Definition base_prefix (bs : base) : bytes :=
  match bs with B2 => [x30; x62] | B8 => [x30; x6f] | B16 => [x30; x78] | B10 => [] end.

(* value of one digit: '0'-'9' -> 0-9, 'A'-'F' -> 10-15, 'a'-'f' -> 10-15 *)
Definition digit_value (c : byte) : N :=
  let n := b2n c in
  if (n <=? 57)%N then (n - 48)%N else if (n <=? 70)%N then (n - 55)%N else (n - 87)%N.
(* value of a digit run with underscores: Horner over the digits *)
Definition run_value (radix : N) (s : bytes) : N :=
  fold_left (fun acc c => (acc * radix + digit_value c)%N) (remove_us s) 0%N.

(* optional sign of a decimal literal *)
Definition split_sign (t : bytes) : bool * bytes :=
  match t with
  | c :: u => if byte_eqb c plus then (false, u) else if byte_eqb c dash then (true, u) else (false, t)
  | [] => (false, t)
  end.

(* unsigned-dec-int = DIGIT / digit1-9 1*( DIGIT / underscore DIGIT ) *)
Definition wf_unsigned_dec (body : bytes) : bool :=
  match body with
  | d :: tl =>
    if byte_eqb d x30 then match tl with [] => true | _ => false end
    else in_class [(49, 57)%N] d && wf_tail (base_digit B10) tl
  | [] => false
  end.
(* prefix HEXDIG *( HEXDIG / underscore HEXDIG ) and the like *)
Definition wf_run (bs : base) (body : bytes) : bool :=
  match body with d :: tl => base_digit bs d && wf_tail (base_digit bs) tl | [] => false end.

Definition wf_lit (bs : base) (t : bytes) : bool :=
  match bs with
  | B10 => wf_unsigned_dec (snd (split_sign t))
  | _ => match strip_prefix (base_prefix bs) t with Some body => wf_run bs body | None => false end
  end.

Definition lit_value (bs : base) (t : bytes) : Z :=
  match bs with
  | B10 => let (neg, body) := split_sign t in
           if neg then (- Z.of_N (run_value 10 body))%Z else Z.of_N (run_value 10 body)
  | _ => match strip_prefix (base_prefix bs) t with
         | Some body => Z.of_N (run_value (radix_of bs) body)
         | None => 0%Z
         end
  end.

(* -- radix_value facts -- *)
Lemma radix_value_app r a : forall acc b,
  radix_value r acc (a ++ b) =
  match radix_value r acc a with Some x => radix_value r x b | None => None end.
Proof.
  induction a as [|c a IH]; intros acc b; [reflexivity|].
  cbn [app radix_value]. destruct (radix_digit r c); [apply IH | reflexivity].
Qed.

Lemma radix_value_mono r s : (1 <= r)%N -> forall acc v, radix_value r acc s = Some v -> (acc <= v)%N.
Proof.
  intro Hr. induction s as [|c s IH]; intros acc v H.
  - injection H as <-. lia.
  - cbn [radix_value] in H. destruct (radix_digit r c) as [d|]; [|discriminate].
    apply IH in H. nia.
Qed.

Lemma radix_digit_base bs c : base_digit bs c = true -> radix_digit (radix_of bs) c = Some (digit_value c).
Proof.
  unfold base_digit, in_class, radix_digit, inr, digit_value.
  destruct bs; cbn [base_class existsb fst snd radix_of]; intro H.
  - replace ((48 <=? b2n c)%N && (b2n c <=? 57)%N) with true by lia.
    replace (b2n c - 48 <? 2)%N with true by lia. replace (b2n c <=? 57)%N with true by lia. reflexivity.
  - replace ((48 <=? b2n c)%N && (b2n c <=? 57)%N) with true by lia.
    replace (b2n c - 48 <? 8)%N with true by lia. replace (b2n c <=? 57)%N with true by lia. reflexivity.
  - replace ((48 <=? b2n c)%N && (b2n c <=? 57)%N) with true by lia.
    replace (b2n c - 48 <? 10)%N with true by lia. replace (b2n c <=? 57)%N with true by lia. reflexivity.
  - destruct ((48 <=? b2n c)%N && (b2n c <=? 57)%N) eqn:E1.
    + replace (b2n c - 48 <? 16)%N with true by lia. replace (b2n c <=? 57)%N with true by lia. reflexivity.
    + destruct ((97 <=? b2n c)%N && (b2n c <=? 122)%N) eqn:E2.
      * replace (b2n c - 87 <? 16)%N with true by lia. replace (b2n c <=? 57)%N with false by lia.
        replace (b2n c <=? 70)%N with false by lia. reflexivity.
      * replace ((65 <=? b2n c)%N && (b2n c <=? 90)%N) with true by lia.
        replace (b2n c - 55 <? 16)%N with true by lia. replace (b2n c <=? 57)%N with false by lia.
        replace (b2n c <=? 70)%N with true by lia. reflexivity.
Qed.

Lemma radix_value_run bs s : forallb (base_digit bs) s = true -> forall acc,
  radix_value (radix_of bs) acc s
  = Some (fold_left (fun a c => (a * radix_of bs + digit_value c)%N) s acc).
Proof.
  induction s as [|c s IH]; intros H acc; [reflexivity|].
  cbn [forallb] in H. apply andb_true_iff in H as [Hc Hs].
  cbn [radix_value fold_left]. rewrite (radix_digit_base _ _ Hc). apply IH, Hs.
Qed.

Lemma remove_us_app a b : remove_us (a ++ b) = remove_us a ++ remove_us b.
Proof. apply filter_app. Qed.

Lemma remove_us_cons_keep c s : byte_eqb c underscore = false -> remove_us (c :: s) = c :: remove_us s.
Proof. intro H. unfold remove_us. cbn [filter]. rewrite H. reflexivity. Qed.

Lemma base_digit_not_us bs c : base_digit bs c = true -> byte_eqb c underscore = false.
Proof.
  intro H. destruct (byte_eqb c underscore) eqn:E; [|reflexivity].
  apply byte_eqb_eq in E. subst. destruct bs; discriminate H.
Qed.

Lemma wf_tail_digits bs s : wf_tail (base_digit bs) s = true -> forallb (base_digit bs) (remove_us s) = true.
Proof.
  induction s as [|b|b c s IH1 IH2] using bytes_ind2; intro H.
  - reflexivity.
  - rewrite wf_tail_cons in H. destruct (base_digit bs b) eqn:Eb.
    + rewrite (remove_us_cons_keep _ _ (base_digit_not_us _ _ Eb)). cbn. rewrite Eb. reflexivity.
    + destruct (byte_eqb underscore b); discriminate.
  - rewrite wf_tail_cons in H. destruct (base_digit bs b) eqn:Eb.
    + rewrite (remove_us_cons_keep _ _ (base_digit_not_us _ _ Eb)). cbn [forallb]. rewrite Eb. apply IH2, H.
    + destruct (byte_eqb underscore b) eqn:Eu; [|discriminate].
      apply byte_eqb_eq in Eu. subst b. apply andb_true_iff in H as [Hc Hs].
      change (remove_us (underscore :: c :: s)) with (remove_us (c :: s)).
      rewrite (remove_us_cons_keep _ _ (base_digit_not_us _ _ Hc)). cbn [forallb]. rewrite Hc. apply IH1, Hs.
Qed.

(* the parser's conversion refuses any text that extends a well-formed out-of-range run *)
Lemma radix_extend_none bs (d : byte) tl m (lo : N) :
  base_digit bs d = true -> wf_tail (base_digit bs) tl = true ->
  (lo <= run_value (radix_of bs) (d :: tl))%N ->
  match radix_value (radix_of bs) 0 (remove_us (d :: tl ++ m)) with
  | Some v => (lo <= v)%N
  | None => True
  end.
Proof.
  intros Hd Htl Hlo.
  change (d :: tl ++ m) with ((d :: tl) ++ m). rewrite remove_us_app, radix_value_app.
  assert (Hall : forallb (base_digit bs) (remove_us (d :: tl)) = true).
  { rewrite (remove_us_cons_keep _ _ (base_digit_not_us _ _ Hd)). cbn [forallb]. rewrite Hd.
    apply wf_tail_digits, Htl. }
  rewrite (radix_value_run _ _ Hall). fold (run_value (radix_of bs) (d :: tl)).
  destruct (radix_value (radix_of bs) (run_value (radix_of bs) (d :: tl)) (remove_us m)) as [v|] eqn:E; [|exact I].
  apply radix_value_mono in E; [lia | destruct bs; cbn; lia].
Qed.

Lemma base_digit_not_sign bs c : base_digit bs c = true -> byte_eqb c plus = false /\ byte_eqb c dash = false.
Proof.
  intro H. split.
  - destruct (byte_eqb c plus) eqn:E; [apply byte_eqb_eq in E; subst; destruct bs; discriminate H | reflexivity].
  - destruct (byte_eqb c dash) eqn:E; [apply byte_eqb_eq in E; subst; destruct bs; discriminate H | reflexivity].
Qed.

Lemma base_digit_ascii bs c : base_digit bs c = true -> ascii c = true.
Proof. unfold base_digit, in_class, ascii. destruct bs; cbn [base_class existsb fst snd]; lia. Qed.

Lemma i64_max_val : i64_max = 9223372036854775807%Z. Proof. reflexivity. Qed.
Lemma i64_min_val : i64_min = (-9223372036854775808)%Z. Proof. reflexivity. Qed.
Definition two63 : N := 9223372036854775808%N.

Lemma in_i64_false_pos v : (two63 <= v)%N -> in_i64 (Z.of_N v) = false.
Proof. unfold in_i64, two63. rewrite i64_max_val, i64_min_val. lia. Qed.
Lemma in_i64_false_neg v : (two63 + 1 <= v)%N -> in_i64 (- Z.of_N v) = false.
Proof. unfold in_i64, two63. rewrite i64_max_val, i64_min_val. lia. Qed.

Lemma from_str_unsigned_none bs d tl m :
  base_digit bs d = true -> wf_tail (base_digit bs) tl = true ->
  (two63 <= run_value (radix_of bs) (d :: tl))%N ->
  i64_from_str_radix (radix_of bs) (remove_us (d :: tl ++ m)) = None.
Proof.
  intros Hd Htl Hv.
  pose proof (radix_extend_none bs d tl m two63 Hd Htl Hv) as H.
  unfold i64_from_str_radix.
  remember (remove_us (d :: tl ++ m)) as s eqn:Es.
  rewrite (remove_us_cons_keep _ _ (base_digit_not_us _ _ Hd)) in Es.
  destruct s as [|c s']; [discriminate|]. injection Es as -> Es'.
  destruct (base_digit_not_sign _ _ Hd) as [-> ->].
  destruct (radix_value (radix_of bs) 0 (d :: s')) as [v|]; [|reflexivity].
  rewrite (in_i64_false_pos _ H). reflexivity.
Qed.

Lemma from_str_plus_none d tl m :
  base_digit B10 d = true -> wf_tail (base_digit B10) tl = true ->
  (two63 <= run_value 10 (d :: tl))%N ->
  i64_from_str_radix 10 (remove_us (plus :: d :: tl ++ m)) = None.
Proof.
  intros Hd Htl Hv.
  pose proof (radix_extend_none B10 d tl m two63 Hd Htl Hv) as H. cbn [radix_of] in H.
  rewrite (remove_us_cons_keep plus _ eq_refl).
  unfold i64_from_str_radix. change (byte_eqb plus plus) with true. cbv iota.
  remember (remove_us (d :: tl ++ m)) as s eqn:Es.
  rewrite (remove_us_cons_keep _ _ (base_digit_not_us _ _ Hd)) in Es.
  destruct s as [|c s']; [discriminate|].
  destruct (radix_value 10 0 (c :: s')) as [v|]; [|reflexivity].
  rewrite (in_i64_false_pos _ H). reflexivity.
Qed.

Lemma from_str_dash_none d tl m :
  base_digit B10 d = true -> wf_tail (base_digit B10) tl = true ->
  (two63 + 1 <= run_value 10 (d :: tl))%N ->
  i64_from_str_radix 10 (remove_us (dash :: d :: tl ++ m)) = None.
Proof.
  intros Hd Htl Hv.
  pose proof (radix_extend_none B10 d tl m (two63 + 1) Hd Htl Hv) as H. cbn [radix_of] in H.
  rewrite (remove_us_cons_keep dash _ eq_refl).
  unfold i64_from_str_radix. change (byte_eqb dash plus) with false. change (byte_eqb dash dash) with true. cbv iota.
  remember (remove_us (d :: tl ++ m)) as s eqn:Es.
  rewrite (remove_us_cons_keep _ _ (base_digit_not_us _ _ Hd)) in Es.
  destruct s as [|c s']; [discriminate|].
  destruct (radix_value 10 0 (c :: s')) as [v|]; [|reflexivity].
  rewrite (in_i64_false_neg _ H). reflexivity.
Qed.

Lemma firstn_run {A} (d : A) tl r n : firstn (S (length tl + n)) (d :: tl ++ r) = d :: tl ++ firstn n r.
Proof. cbn [firstn]. rewrite firstn_app_2. reflexivity. Qed.

(* prefixed literal: hex / oct / bin *)
Lemma prefixed_cut where_ bs prefix d tl r i :
  rest i = prefix ++ (d :: tl ++ r) ->
  base_digit bs d = true -> wf_tail (base_digit bs) tl = true ->
  (two63 <= run_value (radix_of bs) (d :: tl))%N ->
  is_cut (cut_err (try_map (int_of (radix_of bs)) (prefixed_int where_ prefix (one_of (base_digit bs)))) i).
Proof.
  intros Hr Hd Htl Hv.
  pose proof (prefixed_int_spec where_ prefix (base_digit bs) i _ Hr (base_digit_ascii bs)) as H.
  cbv beta iota in H. rewrite Hd in H. rewrite (us_tail_app _ r _ Htl) in H.
  unfold cut_err, try_map.
  destruct (us_tail (base_digit bs) r) as [n|].
  - rewrite H. rewrite firstn_run. unfold int_of.
    rewrite (from_str_unsigned_none bs d tl _ Hd Htl Hv). exact I.
  - destruct (prefixed_int where_ prefix (one_of (base_digit bs)) i); simpl in H; try contradiction. exact I.
Qed.

Lemma strip_prefix_some p t body : strip_prefix p t = Some body -> t = p ++ body.
Proof. apply strip_prefix_spec. Qed.

Lemma run_value_out_pos v : in_i64 (Z.of_N v) = false -> (two63 <= v)%N.
Proof. unfold in_i64, two63. rewrite i64_max_val, i64_min_val. lia. Qed.
Lemma run_value_out_neg v : in_i64 (- Z.of_N v) = false -> (two63 + 1 <= v)%N.
Proof. unfold in_i64, two63. rewrite i64_max_val, i64_min_val. lia. Qed.

Theorem int_range_prefixed bs t r :
  bs <> B10 -> wf_lit bs t = true -> in_i64 (lit_value bs t) = false ->
  is_cut (integer (new_input (t ++ r))).
Proof.
  intros Hb Hwf Hout.
  destruct bs; try contradiction; unfold wf_lit, lit_value in *;
    (destruct (strip_prefix _ t) as [body|] eqn:Es; [|discriminate]);
    apply strip_prefix_some in Es; subst t;
    unfold wf_run in Hwf; (destruct body as [|d tl]; [discriminate|]);
    apply andb_true_iff in Hwf as [Hd Htl];
    apply run_value_out_pos in Hout.
  - assert (Hr : rest (new_input ((base_prefix B2 ++ d :: tl) ++ r)) = BIN_PREFIX ++ (d :: tl ++ r)) by reflexivity.
    rewrite (integer_bin _ _ Hr). exact (prefixed_cut 13 B2 BIN_PREFIX d tl r _ Hr Hd Htl Hout).
  - assert (Hr : rest (new_input ((base_prefix B8 ++ d :: tl) ++ r)) = OCT_PREFIX ++ (d :: tl ++ r)) by reflexivity.
    rewrite (integer_oct _ _ Hr). exact (prefixed_cut 12 B8 OCT_PREFIX d tl r _ Hr Hd Htl Hout).
  - assert (Hr : rest (new_input ((base_prefix B16 ++ d :: tl) ++ r)) = HEX_PREFIX ++ (d :: tl ++ r)) by reflexivity.
    rewrite (integer_hex _ _ Hr). exact (prefixed_cut 11 B16 HEX_PREFIX d tl r _ Hr Hd Htl Hout).
Qed.

(* decimal literal *)
Lemma d19_not_zero d : in_class DIGIT1_9 d = true -> d <> x30.
Proof. intros H E. subst. discriminate H. Qed.
Lemma d19_not_sign d : in_class DIGIT1_9 d = true -> is_sign d = false.
Proof.
  intro H. unfold is_sign.
  destruct (byte_eqb d plus) eqn:E1; [apply byte_eqb_eq in E1; subst; discriminate H|].
  destruct (byte_eqb d dash) eqn:E2; [apply byte_eqb_eq in E2; subst; discriminate H|]. reflexivity.
Qed.

Lemma dec_cut sgn d tl r :
  (sgn = [] \/ sgn = [plus] \/ sgn = [dash]) ->
  in_class DIGIT1_9 d = true -> wf_tail (in_class DIGIT) tl = true ->
  (forall m, i64_from_str_radix 10 (remove_us (sgn ++ d :: tl ++ m)) = None) ->
  is_cut (integer (new_input (sgn ++ d :: tl ++ r))).
Proof.
  intros Hs Hd Htl Hnone.
  assert (Hfirst : match rest (new_input (sgn ++ d :: tl ++ r)) with b :: _ => b <> x30 | [] => True end).
  { cbn [new_input rest]. destruct Hs as [->|[->| ->]]; cbn [app]; [apply d19_not_zero, Hd | discriminate | discriminate]. }
  rewrite (integer_dec _ Hfirst). unfold and_then.
  pose proof (dec_int_spec (new_input (sgn ++ d :: tl ++ r))) as L. cbn [new_input rest] in L.
  fold (new_input (sgn ++ d :: tl ++ r)) in L.
  assert (EL : dec_int_len (sgn ++ d :: tl ++ r) =
               match us_tail (in_class DIGIT) r with
               | Some n => LOk (length sgn + S (length tl + n))
               | None => LCut
               end).
  { assert (EB : dec_body_len (d :: tl ++ r) =
                 match us_tail (in_class DIGIT) r with Some n => LOk (S (length tl + n)) | None => LCut end).
    { unfold dec_body_len. rewrite Hd, (us_tail_app _ r _ Htl). destruct (us_tail (in_class DIGIT) r); reflexivity. }
    destruct Hs as [->|[->| ->]]; cbn [app length plus].
    - unfold dec_int_len. rewrite (d19_not_sign _ Hd). exact EB.
    - unfold dec_int_len. change (is_sign plus) with true. cbv iota. rewrite EB.
      destruct (us_tail (in_class DIGIT) r); reflexivity.
    - unfold dec_int_len. change (is_sign dash) with true. cbv iota. rewrite EB.
      destruct (us_tail (in_class DIGIT) r); reflexivity. }
  rewrite EL in L.
  destruct (us_tail (in_class DIGIT) r) as [n|].
  - rewrite L.
    assert (EF : firstn (length sgn + S (length tl + n)) (sgn ++ d :: tl ++ r) = sgn ++ d :: tl ++ firstn n r).
    { rewrite firstn_app_2, firstn_run. reflexivity. }
    rewrite EF. unfold dec_conv, int_of. rewrite Hnone. exact I.
  - destruct (dec_int (new_input (sgn ++ d :: tl ++ r))); simpl in L; try contradiction. exact I.
Qed.

Theorem int_range_dec t r :
  wf_lit B10 t = true -> in_i64 (lit_value B10 t) = false ->
  is_cut (integer (new_input (t ++ r))).
Proof.
  unfold wf_lit, lit_value. intros Hwf Hout.
  assert (Hcase : exists sgn body, t = sgn ++ body /\ split_sign t = (match sgn with [c] => byte_eqb c dash | _ => false end, body)
                                   /\ (sgn = [] \/ sgn = [plus] \/ sgn = [dash])).
  { unfold split_sign. destruct t as [|c u]; [exists [], []; auto|].
    destruct (byte_eqb c plus) eqn:E1.
    - apply byte_eqb_eq in E1. subst c. exists [plus], u. auto.
    - destruct (byte_eqb c dash) eqn:E2.
      + apply byte_eqb_eq in E2. subst c. exists [dash], u. auto.
      + exists [], (c :: u). auto. }
  destruct Hcase as (sgn & body & -> & Hsp & Hs). rewrite Hsp in Hwf, Hout. cbn [snd] in Hwf.
  unfold wf_unsigned_dec in Hwf. destruct body as [|d tl]; [discriminate|].
  destruct (byte_eqb d x30) eqn:E0.
  { exfalso. apply byte_eqb_eq in E0. subst d. destruct tl; [|discriminate].
    destruct Hs as [->|[->| ->]]; vm_compute in Hout; discriminate. }
  apply andb_true_iff in Hwf as [Hd Htl].
  rewrite <- app_assoc. cbn [app].
  apply dec_cut; [exact Hs | exact Hd | exact Htl |].
  intro m.
  assert (Hd' : base_digit B10 d = true) by (apply DIGIT1_9_DIGIT, Hd).
  destruct Hs as [->|[->| ->]]; cbn [app]; cbv iota beta in Hout.
  - apply (from_str_unsigned_none B10 d tl m Hd' Htl). apply run_value_out_pos, Hout.
  - change (byte_eqb plus dash) with false in Hout. cbv iota in Hout.
    apply (from_str_plus_none d tl m Hd' Htl). apply run_value_out_pos, Hout.
  - change (byte_eqb dash dash) with true in Hout. cbv iota in Hout.
    apply (from_str_dash_none d tl m Hd' Htl). apply run_value_out_neg, Hout.
Qed.

Theorem int_range bs t r :
  wf_lit bs t = true -> in_i64 (lit_value bs t) = false -> is_cut (integer (new_input (t ++ r))).
Proof.
  destruct bs.
  - apply int_range_prefixed; discriminate.
  - apply int_range_prefixed; discriminate.
  - apply int_range_dec.
  - apply int_range_prefixed; discriminate.
Qed.

(* the weaker form asked for as a minimum: plain decimal digit strings at or above 2^63 *)
Corollary int_range_digits ds r :
  forallb is_digit ds = true -> (exists d tl, ds = d :: tl /\ (49 <=? b2n d)%N = true) ->
  (two63 <= dec_value ds)%N -> is_cut (integer (new_input (ds ++ r))).
Proof.
  intros Hall (d & tl & -> & Hd) Hv.
  cbn [forallb] in Hall. apply andb_true_iff in Hall as [Hd0 Htl].
  assert (H19 : in_class DIGIT1_9 d = true).
  { unfold in_class, DIGIT1_9. cbn [existsb fst snd]. unfold is_digit in Hd0. lia. }
  assert (Hcls : forallb (in_class DIGIT) tl = true).
  { apply (forallb_impl is_digit); [|exact Htl]. intros x Hx. rewrite DIGIT_is_digit. exact Hx. }
  apply (dec_cut [] d tl r); [auto | exact H19 | apply wf_tail_all, Hcls |].
  intro m. cbn [app].
  apply (from_str_unsigned_none B10 d tl m (DIGIT1_9_DIGIT _ H19) (wf_tail_all _ _ Hcls)).
  (* run_value on a digit string is dec_value *)
  unfold run_value.
  assert (Hnu : forallb not_us (d :: tl) = true).
  { apply (forallb_impl is_digit); [apply digit_not_us|]. cbn [forallb]. rewrite Hd0, Htl. reflexivity. }
  rewrite (remove_us_id _ Hnu).
  assert (G : forall s acc, forallb is_digit s = true ->
              fold_left (fun a c => (a * radix_of B10 + digit_value c)%N) s acc = dec_value_acc acc s).
  { induction s as [|c s IH]; intros acc Hs; [reflexivity|].
    cbn [forallb] in Hs. apply andb_true_iff in Hs as [Hc Hs].
    cbn [fold_left dec_value_acc]. rewrite (IH _ Hs). f_equal.
    unfold digit_value, digit_val, radix_of. unfold is_digit in Hc.
    replace (b2n c <=? 57)%N with true by lia. reflexivity. }
  rewrite G by (cbn [forallb]; rewrite Hd0, Htl; reflexivity). exact Hv.
Qed.
