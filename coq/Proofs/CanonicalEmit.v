(* Proofs/CanonicalEmit.v — the serializer pipeline of Model/TomlValue.v (three loops, DocumentFormatter,
   visit_nested_tables / visit_table) writes exactly the canonical document of Spec/Canonical.v:
     emit_value_doc ml m = sections_of ml true true m      emit_table_doc ml m = sections_of ml false true m
     emit_struct_doc ml m = sections_of ml false false m   (a serializer that keeps its own order)   *)
From TV Require Import Base.Prelude Spec.Ordered Model.TomlValue Spec.Canonical.
From TV Require Import Proofs.CanonicalBase.

(* ------------------------------------------------------------------------------------------ *)
(** * entry classes *)

Lemma is_aot_any x : is_aot x = true -> arr_any_table x = true.
Proof.
  destruct x as [t|l|m]; try discriminate. destruct l as [|y l]; [discriminate|].
  cbn [is_aot arr_any_table forallb existsb]. intro H. apply andb_true_iff in H as [H _]. rewrite H. reflexivity.
Qed.

Lemma is_plain_pass1 x : is_plain x = pass1 x.
Proof.
  unfold is_plain, is_line, is_mixed, pass1. destruct x as [t|l|m]; try reflexivity.
  cbn [is_table is_array negb andb orb arr_no_table].
  destruct (arr_any_table (TArr l)) eqn:E.
  - cbn [arr_any_table] in E. rewrite E. destruct (is_aot (TArr l)); reflexivity.
  - cbn [arr_any_table] in E. rewrite E.
    destruct (is_aot (TArr l)) eqn:F; [|reflexivity].
    apply is_aot_any in F. cbn [arr_any_table] in F. congruence.
Qed.

Lemma pass2_split x : pass2 x = is_mixed x || is_aot x.
Proof.
  unfold pass2, is_mixed. destruct (is_aot x) eqn:F.
  - rewrite (is_aot_any x F). reflexivity.
  - destruct (arr_any_table x); reflexivity.
Qed.

Lemma pass_cases x :
  (pass1 x = true /\ pass2 x = false /\ pass3 x = false) \/
  (pass1 x = false /\ pass2 x = true /\ pass3 x = false) \/
  (pass1 x = false /\ pass2 x = false /\ pass3 x = true).
Proof.
  destruct x as [t|l|m]; unfold pass1, pass2, pass3; cbn [is_table is_array arr_no_table arr_any_table negb andb orb].
  - auto.
  - destruct (existsb is_table l); cbn; auto.
  - auto.
Qed.

Lemma nonempty_order3 m : nonempty (order3 m) = nonempty m.
Proof.
  destruct m as [|[k x] r]; [reflexivity|]. unfold order3. cbn [filter snd].
  destruct (pass_cases x) as [(A & B & C)|[(A & B & C)|(A & B & C)]]; rewrite A, B, C.
  - reflexivity.
  - rewrite !nonempty_app. cbn [nonempty]. rewrite orb_true_r. reflexivity.
  - rewrite !nonempty_app. cbn [nonempty]. rewrite !orb_true_r. reflexivity.
Qed.

Lemma nonempty_ordn tn m : nonempty (ordn tn m) = nonempty m.
Proof. destruct tn; [apply nonempty_order3|reflexivity]. Qed.

(* ------------------------------------------------------------------------------------------ *)
(** * the stages, one level unfolded *)

Lemma fmt_item_inl ml em :
  fmt_item ml (EInl em) = ITbl (DT (nonempty em) (map (fun kv => (fst kv, fmt_item ml (snd kv))) em)).
Proof.
  cbn [fmt_item]. do 2 f_equal. induction em as [|[k x] r IH]; simpl; [reflexivity|]. rewrite IH. reflexivity.
Qed.

Definition tbl_of_item (it : ditem) : list dt := match it with ITbl t => [t] | _ => [] end.

Lemma fmt_item_arr ml l :
  fmt_item ml (EArr l) =
  if aot_able l then IAot (flat_map (fun x => tbl_of_item (fmt_item ml x)) l) else IVal (fmt_value ml (EArr l)).
Proof.
  cbn [fmt_item]. destruct (aot_able l); [|reflexivity]. f_equal.
  induction l as [|x r IH]; [reflexivity|]. cbn [flat_map]. rewrite <- IH.
  destruct (fmt_item ml x); reflexivity.
Qed.

Definition item_of (ml tn : bool) (kv : bytes * tv) : bytes * ditem := (fst kv, fmt_item ml (ser_g tn (snd kv))).
(* the toml_edit table a table becomes: its entries in the order `three` says, everything below by `tn` *)
Definition tblg (ml three tn : bool) (m : list (bytes * tv)) : dt :=
  DT (nonempty m) (map (item_of ml tn) (ordn three m)).

Lemma fmt_item_tab ml tn m : fmt_item ml (ser_g tn (TTab m)) = ITbl (tblg ml tn tn m).
Proof.
  rewrite ser_g_tab, fmt_item_inl. unfold tblg. rewrite nonempty_map, nonempty_ordn, map_map. reflexivity.
Qed.

Lemma fmt_root_value ml m : fmt_root ml (ser_root_value m) = tblg ml true true m.
Proof.
  unfold fmt_root. rewrite ser_root_value_eq. unfold tblg, ordn. rewrite nonempty_map, nonempty_order3, map_map. reflexivity.
Qed.

Lemma fmt_root_map ml m : fmt_root ml (ser_map m) = tblg ml false true m.
Proof. unfold fmt_root, ser_map, tblg, ordn. rewrite nonempty_map, map_map. reflexivity. Qed.

Lemma fmt_root_plain ml m : fmt_root ml (ser_root_plain m) = tblg ml false false m.
Proof.
  unfold fmt_root, ser_root_plain. rewrite ser_plain_tab. unfold tblg, ordn. rewrite nonempty_map, map_map. reflexivity.
Qed.

(* inline rendering: the spec's inline_of is the formatter applied to the serializer's tree *)
Lemma inline_of_tab ml tn m :
  inline_of ml tn (TTab m) = VInl (map (fun kv => (fst kv, inline_of ml tn (snd kv))) (ordn tn m)).
Proof.
  cbn [inline_of]. f_equal. destruct tn; unfold ordn.
  - unfold order3. rewrite !map_app.
    f_equal; [|f_equal]; induction m as [|[k x] r IH]; simpl; try reflexivity.
    + destruct (pass1 x); simpl; rewrite IH; reflexivity.
    + destruct (pass2 x); simpl; rewrite IH; reflexivity.
    + destruct (pass3 x); simpl; rewrite IH; reflexivity.
  - induction m as [|[k x] r IH]; simpl; [reflexivity|]. rewrite IH. reflexivity.
Qed.

Lemma Forall_ordn {P : bytes * tv -> Prop} tn m : Forall P m -> Forall P (ordn tn m).
Proof.
  intro H. destruct tn; [|exact H]. unfold ordn, order3. rewrite !Forall_app_iff.
  repeat split; apply Forall_filter; exact H.
Qed.

Lemma inline_of_fmt ml tn v : inline_of ml tn v = fmt_value ml (ser_g tn v).
Proof.
  induction v as [t|l IH|m IH] using tv_ind'.
  - rewrite ser_g_leaf. reflexivity.
  - rewrite ser_g_arr. cbn [inline_of fmt_value]. rewrite map_length, map_map. f_equal. apply Forall_map_ext. exact IH.
  - rewrite inline_of_tab, ser_g_tab, fmt_value_inl, map_map. f_equal.
    apply Forall_map_ext. apply Forall_ordn.
    eapply Forall_impl; [|exact IH]. intros [k x] H; unfold ser_kv_g; simpl in *; congruence.
Qed.

Lemma is_inl_ser tn x : is_inl (ser_g tn x) = is_table x.
Proof. destruct tn; destruct x as [t|l|m]; reflexivity. Qed.

Lemma aot_able_ser tn l : aot_able (map (ser_g tn) l) = is_aot (TArr l).
Proof.
  unfold aot_able. rewrite nonempty_map, forallb_map.
  assert (E : forallb (fun x => is_inl (ser_g tn x)) l = forallb is_table l).
  { induction l as [|x r IH]; simpl; [reflexivity|]. rewrite is_inl_ser, IH. reflexivity. }
  rewrite E. destruct l; reflexivity.
Qed.

(* what an entry of a table becomes *)
Lemma item_line ml tn x : is_line x = true -> fmt_item ml (ser_g tn x) = IVal (inline_of ml tn x).
Proof.
  unfold is_line. destruct x as [t|l|m]; cbn [is_table negb andb]; try discriminate; intro H.
  - rewrite ser_g_leaf. reflexivity.
  - rewrite (inline_of_fmt ml tn (TArr l)), ser_g_arr, fmt_item_arr, aot_able_ser. apply negb_true_iff in H. rewrite H.
    reflexivity.
Qed.

Definition elem_tbl (ml tn : bool) (e : tv) : dt := match e with TTab m => tblg ml tn tn m | _ => DT false [] end.

Lemma item_aot ml tn l : is_aot (TArr l) = true -> fmt_item ml (ser_g tn (TArr l)) = IAot (map (elem_tbl ml tn) l).
Proof.
  intro H. rewrite ser_g_arr, fmt_item_arr, aot_able_ser, H. f_equal.
  assert (A : forallb is_table l = true).
  { destruct l as [|y r]; [discriminate|]. exact H. }
  clear H. induction l as [|x r IH]; [reflexivity|].
  cbn [forallb] in A. apply andb_true_iff in A as [A1 A2].
  cbn [map flat_map]. rewrite (IH A2). destruct x as [t|l'|m']; try discriminate.
  rewrite fmt_item_tab. reflexivity.
Qed.

(* ------------------------------------------------------------------------------------------ *)
(** * visit_nested_tables and sections_at, one level unfolded *)

Definition sub_visit (p : path) (kit : bytes * ditem) : list (dt * path * bool) :=
  match snd kit with
  | ITbl t' => visit_nested t' (p ++ [fst kit]) false
  | IAot ts => flat_map (fun t' => visit_nested t' (p ++ [fst kit]) true) ts
  | IVal _ => []
  end.

Lemma visit_nested_eq i items p a :
  visit_nested (DT i items) p a = (DT i items, p, a) :: flat_map (sub_visit p) items.
Proof.
  cbn [visit_nested]. f_equal. induction items as [|[k it] r IH]; [reflexivity|].
  cbn [flat_map]. unfold sub_visit at 1. cbn [fst snd]. destruct it as [v|t'|ts].
  - exact IH.
  - rewrite IH. reflexivity.
  - rewrite IH. f_equal; try (induction ts as [|t' q IHq]; [reflexivity|]; cbn [flat_map]; rewrite IHq; reflexivity).
Qed.

Definition elem_secs (ml tn : bool) (p : path) (k : bytes) (l : list tv) : list section :=
  flat_map (fun e => sections_at ml tn tn e (p ++ [k]) KArr) l.
Definition aot_secs (ml tn : bool) (p : path) (kv : bytes * tv) : list section :=
  if is_aot (snd kv) then match snd kv with TArr l => elem_secs ml tn p (fst kv) l | _ => [] end else [].
Definition tab_secs (ml tn : bool) (p : path) (kv : bytes * tv) : list section :=
  match snd kv with TTab _ => sections_at ml tn tn (snd kv) (p ++ [fst kv]) KStd | _ => [] end.
Definition sub_secs (ml tn : bool) (p : path) (kv : bytes * tv) : list section :=
  match snd kv with
  | TTab _ => sections_at ml tn tn (snd kv) (p ++ [fst kv]) KStd
  | TArr l => if is_aot (snd kv) then elem_secs ml tn p (fst kv) l else []
  | TLeaf _ => []
  end.

Definition own_section (ml three tn : bool) (m : list (bytes * tv)) (p : path) (kind : skind) : list section :=
  if own_visible kind m (own_lines ml three tn m) then [mkSec p kind (own_lines ml three tn m)] else [].

Definition rest_secs (ml three tn : bool) (m : list (bytes * tv)) (p : path) : list section :=
  if three then flat_map (aot_secs ml tn p) m ++ flat_map (tab_secs ml tn p) m else flat_map (sub_secs ml tn p) m.

Lemma sections_at_tab ml three tn m p kind :
  sections_at ml three tn (TTab m) p kind = own_section ml three tn m p kind ++ rest_secs ml three tn m p.
Proof.
  cbn [sections_at]. unfold own_section, rest_secs. f_equal. destruct three.
  - f_equal.
    + induction m as [|[k x] r IH]; [reflexivity|]. cbn [flat_map]. rewrite <- IH. f_equal;
      try (unfold aot_secs; cbn [fst snd]; destruct (is_aot x); [|reflexivity];
           destruct x as [t|l|m']; try reflexivity; unfold elem_secs;
           induction l as [|e q IHq]; [reflexivity|]; cbn [flat_map]; rewrite <- IHq; reflexivity).
    + induction m as [|[k x] r IH]; [reflexivity|]. cbn [flat_map]. rewrite <- IH. reflexivity.
  - induction m as [|[k x] r IH]; [reflexivity|]. cbn [flat_map]. rewrite <- IH. f_equal;
    try (unfold sub_secs; cbn [fst snd]; destruct x as [t|l|m']; try reflexivity;
         destruct (is_aot (TArr l)); [|reflexivity]; unfold elem_secs;
         induction l as [|e q IHq]; [reflexivity|]; cbn [flat_map]; rewrite <- IHq; reflexivity).
Qed.

Lemma sections_at_not_tab ml three tn v p kind : is_table v = false -> sections_at ml three tn v p kind = [].
Proof. destruct v; [reflexivity|reflexivity|discriminate]. Qed.

(* ------------------------------------------------------------------------------------------ *)
(** * the key/value lines of a table *)

Lemma item_cases ml tn x :
  (is_line x = true /\ fmt_item ml (ser_g tn x) = IVal (inline_of ml tn x)) \/
  (exists m', x = TTab m' /\ fmt_item ml (ser_g tn x) = ITbl (tblg ml tn tn m')) \/
  (exists l, x = TArr l /\ is_aot x = true /\ fmt_item ml (ser_g tn x) = IAot (map (elem_tbl ml tn) l)).
Proof.
  destruct x as [t|l|m'].
  - left. split; [reflexivity|]. apply item_line. reflexivity.
  - destruct (is_aot (TArr l)) eqn:E.
    + right. right. exists l. repeat split. apply item_aot. exact E.
    + left. assert (L : is_line (TArr l) = true) by (unfold is_line; rewrite E; reflexivity).
      split; [exact L|]. apply item_line. exact L.
  - right. left. exists m'. split; [reflexivity|]. apply fmt_item_tab.
Qed.

Lemma get_values_items ml tn l : get_values (map (item_of ml tn) l) = lines_where ml tn is_line l.
Proof.
  unfold get_values, lines_where. induction l as [|[k x] r IH]; [reflexivity|].
  cbn [map flat_map filter fst snd]. rewrite IH. unfold item_of at 1. cbn [fst snd].
  destruct (item_cases ml tn x) as [[L E]|[(m' & -> & E)|(l' & -> & A & E)]]; rewrite E.
  - rewrite L. reflexivity.
  - reflexivity.
  - unfold is_line. rewrite A. reflexivity.
Qed.

Lemma filter_filter {A} (f g : A -> bool) l : filter f (filter g l) = filter (fun x => g x && f x) l.
Proof.
  induction l as [|x r IH]; [reflexivity|]. cbn [filter]. destruct (g x); cbn [filter andb]; rewrite IH; reflexivity.
Qed.

Lemma filter_ext' {A} (f g : A -> bool) l : (forall x, f x = g x) -> filter f l = filter g l.
Proof. intro H. induction l as [|x r IH]; [reflexivity|]. cbn [filter]. rewrite H, IH. reflexivity. Qed.

Lemma filter_none {A} (f : A -> bool) l : (forall x, f x = false) -> filter f l = [].
Proof. intro H. induction l as [|x r IH]; [reflexivity|]. cbn [filter]. rewrite H. exact IH. Qed.

Lemma lines_where_app ml tn p l l' : lines_where ml tn p (l ++ l') = lines_where ml tn p l ++ lines_where ml tn p l'.
Proof. unfold lines_where. rewrite filter_app, map_app. reflexivity. Qed.

Lemma line_pass1 x : pass1 x && is_line x = is_plain x.
Proof.
  rewrite is_plain_pass1. destruct (pass1 x) eqn:E; [|reflexivity]. cbn [andb].
  rewrite <- is_plain_pass1 in E. unfold is_plain in E. apply andb_true_iff in E as [E _]. exact E.
Qed.

Lemma line_pass2 x : pass2 x && is_line x = is_mixed x.
Proof.
  unfold pass2, is_mixed, is_line. destruct x as [t|l|m]; try reflexivity.
Qed.

Lemma line_pass3 x : pass3 x && is_line x = false.
Proof. unfold pass3, is_line. destruct (is_table x); reflexivity. Qed.

Lemma own_lines_ordn ml three tn m : lines_where ml tn is_line (ordn three m) = own_lines ml three tn m.
Proof.
  destruct three; [|reflexivity].
  unfold ordn, order3, own_lines. rewrite !lines_where_app. unfold lines_where. rewrite !filter_filter.
  rewrite (filter_ext' _ (fun kv => is_plain (snd kv)) m) by (intro; apply line_pass1).
  rewrite (filter_ext' (fun x => pass2 (snd x) && is_line (snd x)) (fun kv => is_mixed (snd kv)) m) by (intro; apply line_pass2).
  rewrite (filter_none (fun x => pass3 (snd x) && is_line (snd x)) m) by (intro; apply line_pass3).
  cbn [map]. rewrite app_nil_r. reflexivity.
Qed.

(* ------------------------------------------------------------------------------------------ *)
(** * the sub-sections of a table *)

Lemma kind_of_snoc p k a : kind_of (p ++ [k]) a = if a then KArr else KStd.
Proof. destruct p; reflexivity. Qed.

Lemma visit_table_own ml three tn m items p a :
  get_values items = own_lines ml three tn m ->
  visit_table (DT (nonempty m) items, p, a) = own_section ml three tn m p (kind_of p a).
Proof.
  intro H. unfold visit_table, own_section. rewrite H. destruct p as [|k p]; [reflexivity|].
  cbn [kind_of]. destruct a; reflexivity.
Qed.

(* the equation for one table, at any path *)
Definition emit_eq (ml three tn : bool) (m : list (bytes * tv)) : Prop :=
  forall p a, flat_map visit_table (visit_nested (tblg ml three tn m) p a)
              = sections_at ml three tn (TTab m) p (kind_of p a).
Definition emit_ok (ml tn : bool) (v : tv) : Prop :=
  (forall m, v = TTab m -> emit_eq ml tn tn m) /\
  (forall l, v = TArr l -> Forall (fun e => forall m, e = TTab m -> emit_eq ml tn tn m) l).

Definition item_secs (ml tn : bool) (p : path) (kv : bytes * tv) : list section :=
  flat_map visit_table (sub_visit p (item_of ml tn kv)).

Lemma items_secs ml tn p l :
  flat_map visit_table (flat_map (sub_visit p) (map (item_of ml tn) l)) = flat_map (item_secs ml tn p) l.
Proof.
  induction l as [|kv r IH]; [reflexivity|]. cbn [map flat_map]. rewrite flat_map_app, IH. reflexivity.
Qed.

Lemma item_secs_sub ml tn p kv : emit_ok ml tn (snd kv) -> item_secs ml tn p kv = sub_secs ml tn p kv.
Proof.
  destruct kv as [k x]. cbn [snd]. intros [Ht Ha]. unfold item_secs, item_of, sub_visit, sub_secs. cbn [fst snd].
  destruct (item_cases ml tn x) as [[L E]|[(m' & -> & E)|(l' & -> & A & E)]]; rewrite E.
  - cbn [flat_map]. destruct x as [t|l|m']; [reflexivity| |discriminate].
    unfold is_line in L. cbn [is_table negb andb] in L. apply negb_true_iff in L. rewrite L. reflexivity.
  - rewrite (Ht m' eq_refl). rewrite kind_of_snoc. reflexivity.
  - rewrite A. unfold elem_secs. specialize (Ha l' eq_refl).
    assert (T : forallb is_table l' = true) by (destruct l'; [discriminate|exact A]).
    clear A E Ht. induction l' as [|e q IH]; [reflexivity|].
    cbn [forallb] in T. apply andb_true_iff in T as [T1 T2]. inversion Ha as [|? ? He Hq]; subst.
    cbn [map flat_map]. rewrite flat_map_app. rewrite (IH Hq T2). f_equal.
    destruct e as [t|l|m']; try discriminate. cbn [elem_tbl].
    rewrite (He m' eq_refl). rewrite kind_of_snoc. reflexivity.
Qed.

Lemma flat_map_ext_Forall {A B} (f g : A -> list B) l : Forall (fun x => f x = g x) l -> flat_map f l = flat_map g l.
Proof. induction 1 as [|x r H _ IH]; [reflexivity|]. cbn [flat_map]. rewrite H, IH. reflexivity. Qed.

Lemma sub_secs_pass1 ml tn p m : flat_map (sub_secs ml tn p) (filter (fun kv => pass1 (snd kv)) m) = [].
Proof.
  induction m as [|[k x] r IH]; [reflexivity|]. cbn [filter snd]. destruct (pass1 x) eqn:E; [|exact IH].
  cbn [flat_map]. rewrite IH, app_nil_r. unfold sub_secs. cbn [fst snd].
  destruct x as [t|l|m']; [reflexivity| |discriminate].
  destruct (is_aot (TArr l)) eqn:A; [|reflexivity].
  apply is_aot_any in A. unfold pass1 in E. cbn in E, A. rewrite A in E. discriminate.
Qed.

Lemma sub_secs_pass2 ml tn p m :
  flat_map (sub_secs ml tn p) (filter (fun kv => pass2 (snd kv)) m) = flat_map (aot_secs ml tn p) m.
Proof.
  induction m as [|[k x] r IH]; [reflexivity|]. cbn [filter snd flat_map]. rewrite <- IH.
  unfold aot_secs at 1. cbn [fst snd].
  destruct (pass2 x) eqn:E.
  - cbn [flat_map]. f_equal. unfold sub_secs. cbn [fst snd].
    destruct x as [t|l|m']; try discriminate. destruct (is_aot (TArr l)); reflexivity.
  - destruct (is_aot x) eqn:A; [|reflexivity]. apply is_aot_any in A. unfold pass2 in E. congruence.
Qed.

Lemma sub_secs_pass3 ml tn p m :
  flat_map (sub_secs ml tn p) (filter (fun kv => pass3 (snd kv)) m) = flat_map (tab_secs ml tn p) m.
Proof.
  induction m as [|[k x] r IH]; [reflexivity|]. cbn [filter snd flat_map]. rewrite <- IH.
  unfold tab_secs at 1. cbn [fst snd]. destruct x as [t|l|m']; reflexivity.
Qed.

Lemma sub_secs_ordn ml three tn p m : flat_map (sub_secs ml tn p) (ordn three m) = rest_secs ml three tn m p.
Proof.
  unfold rest_secs. destruct three; [|reflexivity].
  unfold ordn, order3. rewrite !flat_map_app, sub_secs_pass1, sub_secs_pass2, sub_secs_pass3. reflexivity.
Qed.

(* one table, whoever ordered its entries, given the equation for the tables below it *)
Lemma emit_level ml three tn m : Forall (fun kv => emit_ok ml tn (snd kv)) m -> emit_eq ml three tn m.
Proof.
  intros IH p a. unfold tblg. rewrite visit_nested_eq. cbn [flat_map]. rewrite sections_at_tab. f_equal.
  - apply visit_table_own. rewrite get_values_items. apply own_lines_ordn.
  - rewrite items_secs. rewrite <- sub_secs_ordn. apply flat_map_ext_Forall. apply Forall_ordn.
    eapply Forall_impl; [|exact IH]. intros kv H. apply item_secs_sub. exact H.
Qed.

Lemma emit_ok_all ml tn v : emit_ok ml tn v.
Proof.
  induction v as [t|l IH|m IH] using tv_ind'.
  - split; intros ? E; discriminate.
  - split; intros ? E; [discriminate|]. injection E as <-.
    eapply Forall_impl; [|exact IH]. intros e [H _]. exact H.
  - split; intros ? E; [|discriminate]. injection E as <-. apply emit_level. exact IH.
Qed.

Lemma emit_eq_all ml three tn m : emit_eq ml three tn m.
Proof. apply emit_level. apply Forall_forall. intros kv _. apply emit_ok_all. Qed.

(* ------------------------------------------------------------------------------------------ *)
(** * the printers write the canonical document *)

Theorem emit_value_doc_canonical ml m : emit_value_doc ml m = sections_of ml true true m.
Proof.
  unfold emit_value_doc, emit_root, sections_of. rewrite fmt_root_value. exact (emit_eq_all ml true true m [] false).
Qed.

Theorem emit_table_doc_canonical ml m : emit_table_doc ml m = sections_of ml false true m.
Proof.
  unfold emit_table_doc, emit_root, sections_of. rewrite fmt_root_map. exact (emit_eq_all ml false true m [] false).
Qed.

Theorem emit_struct_doc_canonical ml m : emit_struct_doc ml m = sections_of ml false false m.
Proof.
  unfold emit_struct_doc, emit_root, sections_of. rewrite fmt_root_plain. exact (emit_eq_all ml false false m [] false).
Qed.
