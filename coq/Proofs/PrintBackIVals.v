(* Proofs/PrintBackIVals.v — C03, dotted keys inside inline tables: the pairs an inline table prints
   (Model/Encode.v inline_values) as a structural function of the value (`ivi`); what inline_insert
   (inline_table.rs descend_path) does to them: one more pair. *)
From TV Require Import Base.Prelude Base.Utf8 Base.Winnow Gen.Consts.
From TV Require Import Model.Datetime Model.Numbers Model.Tree Model.Parse Model.Document Model.Write Model.Encode.
From TV Require Import Proofs.SpansDefs Proofs.PrintBackBase Proofs.PrintBackValue Proofs.PrintBackDoc Proofs.PrintBackSort Proofs.PrintBackEnts
                       Proofs.PrintBackSecs Proofs.PrintBackDVals.
Require Import Lia ZifyBool ZifyN ZifyNat Sorting.Sorted Sorting.Permutation.

(* the pairs below a value at path p: an inline table made by dotted keys stands for its pairs *)
Fixpoint ivv (v : value) (p : list key) {struct v} : list (list key * value) :=
  match v with
  | VInline sub _ _ true _ _ =>
    (fix go (l : list (key * item)) : list (list key * value) :=
       match l with
       | [] => []
       | (k, it) :: tl => (match it with IValue e => ivv e (p ++ [k]) | _ => [] end) ++ go tl
       end) sub
  | _ => [(p, v)]
  end.
Definition ivit (it : item) (p : list key) : list (list key * value) := match it with IValue e => ivv e p | _ => [] end.
Definition ivi (items : list (key * item)) (p : list key) : list (list key * value) :=
  flat_map (fun kv => ivit (snd kv) (p ++ [fst kv])) items.

Lemma ivv_dotted sub pre im d sp p : ivv (VInline sub pre im true d sp) p = ivi sub p.
Proof.
  cbn [ivv]. unfold ivi. induction sub as [|[k it] tl IH]; [reflexivity|]. cbn [flat_map fst snd]. rewrite <- IH. reflexivity.
Qed.
Lemma ivv_leaf v p : undot v = true -> ivv v p = [(p, v)].
Proof. destruct v as [x r d|vs tr c d sp|its pre im dt d sp]; try reflexivity. cbn [undot]. destruct dt; [discriminate|reflexivity]. Qed.
Lemma ivi_app a b p : ivi (a ++ b) p = ivi a p ++ ivi b p.
Proof. apply flat_map_app. Qed.

(* ---- InlineTable::append_values with enough fuel -------------------------------------------------------------------- *)
Definition items_size (m : list (key * item)) : nat :=
  fold_right (fun kv acc => match kv with (_, i0) => item_size i0 + acc end) 0 m.

Lemma inline_values_ivi : forall f items p, items_size items < f -> inline_values f p items = ivi items p.
Proof.
  induction f as [|f IH]; intros items p Hf; [lia|]. cbn [inline_values]. unfold ivi. apply flat_map_in_ext. intros [k it] Hin. cbn [fst snd].
  pose proof (kv_size_in' items (k, it) Hin) as Hsz. cbn [snd] in Hsz. fold (items_size items) in Hsz.
  destruct it as [|v|sub|ts sp]; try reflexivity. cbn [ivit].
  destruct v as [x r d|vs tr c d sp|its pre im dt d sp]; try reflexivity. destruct dt; [|reflexivity].
  rewrite ivv_dotted. apply IH. cbn [item_size value_size] in Hsz. fold (items_size its) in Hsz. lia.
Qed.

(* ---- substitution of spans ----------------------------------------------------------------------------------------------- *)
Lemma ivv_tvalue s :
  (forall v, forall p, ivv (tvalue s v) (map (tkey s) p) = map (tline s) (ivv v p))
  /\ (forall it, forall p, ivit (titem s it) (map (tkey s) p) = map (tline s) (ivit it p))
  /\ (forall t : tbl, True).
Proof.
  apply tree_ind3; try (intros; exact I).
  - intros x r d p. reflexivity.
  - intros vals tr c d sp _ p. cbn [ivv map]. unfold tline. cbn [fst snd]. rewrite !tvalue_array. reflexivity.
  - intros items pre im dt d sp IH p. destruct dt; [|cbn [ivv map]; unfold tline; cbn [fst snd]; rewrite !tvalue_inline; reflexivity]. rewrite tvalue_inline, !ivv_dotted. unfold ivi.
    rewrite !flat_map_concat_map, concat_map, !map_map. f_equal. apply map_ext_Forall. eapply Forall_impl; [|exact IH].
    intros [k it] Hk. unfold tkv. cbn [fst snd] in *. rewrite <- Hk, map_app. reflexivity.
  - intros p. reflexivity.
  - intros v IH p. rewrite titem_value. cbn [ivit]. apply IH.
  - intros t _ p. reflexivity.
  - intros ts sp _ p. reflexivity.
Qed.

Lemma ivi_tkv s items p : ivi (map (tkv s) items) (map (tkey s) p) = map (tline s) (ivi items p).
Proof.
  unfold ivi. rewrite !flat_map_concat_map, concat_map, !map_map. f_equal. apply map_ext. intros [k it]. unfold tkv. cbn [fst snd].
  rewrite <- (proj1 (proj2 (ivv_tvalue s))), map_app. reflexivity.
Qed.

(* ---- the pairs without their paths: key of the pair, value ------------------------------------------------------------- *)
Definition ipf (kv : list key * value) : key * value := (last (fst kv) (mkKey [] None decor_default decor_default), snd kv).

(* every inline table that is only implied by dotted keys is marked dotted (so its pairs are flattened) *)
Fixpoint iwf (v : value) : bool :=
  match v with
  | VInline sub _ im dt _ _ =>
    (if im then dt else true)
    && (if dt then (fix go (l : list (key * item)) : bool := match l with [] => true | (_, it) :: tl => (match it with IValue e => iwf e | _ => false end) && go tl end) sub
        else true)
  | _ => true
  end.
Definition iwfi (m : list (key * item)) : bool := forallb (fun kv => match snd kv with IValue e => iwf e | _ => false end) m.
Lemma iwf_dotted sub pre im d sp : iwf (VInline sub pre im true d sp) = iwfi sub.
Proof.
  cbn [iwf]. destruct im; cbn [andb]; unfold iwfi; induction sub as [|[k it] tl IH]; try reflexivity; cbn [forallb snd]; rewrite <- IH; reflexivity.
Qed.

Lemma last_snoc' {A} (l : list A) x d : last (l ++ [x]) d = x.
Proof. apply last_last. Qed.

(* inline_insert: one more pair *)
Lemma inline_insert_pairs : forall path m dh pe k v m' p,
  inline_insert m dh path pe k (IValue v) = COk m' -> iwfi m = true -> undot v = true -> iwf v = true ->
  iwfi m' = true /\ Permutation (map ipf (ivi m' p)) (map ipf (ivi m p) ++ [(k, v)]).
Proof.
  induction path as [|pk ptl IH]; intros m dh pe k v m' p H Hm Hv Hwv; cbn [inline_insert] in H.
  - destruct (Bool.eqb dh pe); [discriminate|]. destruct (kv_get m (k_key k)); [discriminate|]. injection H as <-. unfold kv_push. split.
    + unfold iwfi. rewrite forallb_app. unfold iwfi in Hm. rewrite Hm. cbn [forallb snd]. rewrite Hwv. reflexivity.
    + rewrite ivi_app, map_app. apply Permutation_app_head. unfold ivi. cbn [flat_map fst snd ivit]. rewrite (ivv_leaf v _ Hv). cbn [app map].
      unfold ipf. cbn [fst snd]. rewrite last_snoc'. reflexivity.
  - destruct (kv_get m (k_key pk)) as [[k0 it]|] eqn:G.
    + destruct it as [|val| |]; try discriminate. destruct val as [x r d|vals tr c d sp|sub pre imp dt dec sp]; try discriminate.
      destruct imp; cbn [negb] in H; [|discriminate].
      destruct (inline_insert sub dt ptl pe k (IValue v)) as [sub'| |] eqn:E; try discriminate. injection H as <-.
      destruct (kv_get_split m (k_key pk) _ _ G) as (A & B & EA & _ & Hs & _). rewrite Hs.
      assert (Hsub : iwf (VInline sub pre true dt dec sp) = true).
      { unfold iwfi in Hm. rewrite EA, forallb_app in Hm. apply andb_true_iff in Hm as [_ Hm]. cbn [forallb snd] in Hm. apply andb_true_iff in Hm as [Hm _]. exact Hm. }
      assert (Edt : dt = true) by (cbn [iwf] in Hsub; apply andb_true_iff in Hsub as [Hd _]; exact Hd). subst dt.
      rewrite iwf_dotted in Hsub. destruct (IH sub true pe k v sub' (p ++ [k0]) E Hsub Hv Hwv) as [Hw' Hp']. split.
      * unfold iwfi in *. rewrite EA, forallb_app in Hm. apply andb_true_iff in Hm as [HA HB]. cbn [forallb snd] in HB. apply andb_true_iff in HB as [_ HB].
        rewrite forallb_app. rewrite HA. cbn [forallb snd andb]. rewrite iwf_dotted. unfold iwfi. rewrite Hw', HB. reflexivity.
      * rewrite EA, !ivi_app, !map_app.
        change (ivi ((k0, IValue (VInline sub' pre true true dec sp)) :: B) p) with (ivv (VInline sub' pre true true dec sp) (p ++ [k0]) ++ ivi B p).
        change (ivi ((k0, IValue (VInline sub pre true true dec sp)) :: B) p) with (ivv (VInline sub pre true true dec sp) (p ++ [k0]) ++ ivi B p).
        rewrite !ivv_dotted, !map_app.
        rewrite <- !app_assoc. apply Permutation_app_head. rewrite Hp'. rewrite <- !app_assoc. apply Permutation_app_head. apply Permutation_app_comm.
    + destruct (inline_insert [] true ptl pe k (IValue v)) as [sub| |] eqn:E; try discriminate. injection H as <-.
      destruct (IH [] true pe k v sub (p ++ [pk]) E eq_refl Hv Hwv) as [Hw' Hp']. unfold kv_push. split.
      * unfold iwfi in *. rewrite forallb_app, Hm. cbn [forallb snd andb]. rewrite iwf_dotted. unfold iwfi. rewrite Hw'. reflexivity.
      * rewrite ivi_app, map_app. apply Permutation_app_head. unfold ivi at 1. cbn [flat_map fst snd ivit]. rewrite ivv_dotted, app_nil_r.
        rewrite Hp'. reflexivity.
Qed.

(* ---- the nodes along the path of a dotted key are inline tables implied by dotted keys ----------------------------- *)
Fixpoint pimp (m : list (key * item)) (path : list key) : Prop :=
  match path with
  | [] => True
  | pk :: ptl => exists k0 sub pre dt dec sp, kv_get m (k_key pk) = Some (k0, IValue (VInline sub pre true dt dec sp)) /\ pimp sub ptl
  end.

Lemma kv_get_app_some A B k x : kv_get A k = Some x -> kv_get (A ++ B) k = Some x.
Proof. induction A as [|[k1 v1] A IH]; cbn [kv_get app]; [discriminate|]. destruct (bytes_eqb (k_key k1) k); auto. Qed.

Lemma kv_get_set_other m k k2 it : bytes_eqb k k2 = false -> kv_get (kv_set m k it) k2 = kv_get m k2.
Proof.
  intro Hne. induction m as [|[k1 v1] m IH]; [reflexivity|]. cbn [kv_set]. destruct (bytes_eqb (k_key k1) k) eqn:E1; cbn [kv_get].
  - apply bytes_eqb_eq in E1. rewrite E1, Hne. reflexivity.
  - destruct (bytes_eqb (k_key k1) k2); [reflexivity|exact IH].
Qed.

Lemma insert_pimp : forall path m dh pe k v m', inline_insert m dh path pe k v = COk m' -> pimp m' path.
Proof.
  induction path as [|pk ptl IH]; intros m dh pe k v m' H; [exact I|]. cbn [inline_insert] in H. cbn [pimp].
  destruct (kv_get m (k_key pk)) as [[k0 it]|] eqn:G.
  - destruct it as [|val| |]; try discriminate. destruct val as [x r d|vals tr c d sp|sub pre imp dt dec sp]; try discriminate.
    destruct imp; cbn [negb] in H; [|discriminate]. destruct (inline_insert sub dt ptl pe k v) as [sub'| |] eqn:E; try discriminate. injection H as <-.
    exists k0, sub', pre, dt, dec, sp. split; [apply (kv_get_set_same _ _ _ _ _ G)|apply (IH _ _ _ _ _ _ E)].
  - destruct (inline_insert [] true ptl pe k v) as [sub| |] eqn:E; try discriminate. injection H as <-.
    exists pk, sub, REmpty, true, decor_default, None. split; [apply (kv_get_push_new _ _ _ G)|apply (IH _ _ _ _ _ _ E)].
Qed.

Lemma insert_keeps_pimp : forall path m dh pe k v m', inline_insert m dh path pe k v = COk m' -> forall q, pimp m q -> pimp m' q.
Proof.
  induction path as [|pk ptl IH]; intros m dh pe k v m' H q Hq; cbn [inline_insert] in H.
  - destruct (Bool.eqb dh pe); [discriminate|]. destruct (kv_get m (k_key k)); [discriminate|]. injection H as <-.
    destruct q as [|qk qtl]; [exact I|]. cbn [pimp] in *. destruct Hq as (k0 & sub & pre & dt & dec & sp & G & Hs).
    exists k0, sub, pre, dt, dec, sp. split; [apply kv_get_app_some, G|exact Hs].
  - destruct q as [|qk qtl]; [exact I|]. cbn [pimp] in *. destruct Hq as (q0 & qsub & qpre & qdt & qdec & qsp & Gq & Hs).
    destruct (kv_get m (k_key pk)) as [[k0 it]|] eqn:G.
    + destruct it as [|val| |]; try discriminate. destruct val as [x r d|vals tr c d sp|sub pre imp dt dec sp]; try discriminate.
      destruct imp; cbn [negb] in H; [|discriminate]. destruct (inline_insert sub dt ptl pe k v) as [sub'| |] eqn:E; try discriminate. injection H as <-.
      destruct (bytes_eqb (k_key pk) (k_key qk)) eqn:Eq.
      * apply bytes_eqb_eq in Eq. rewrite <- Eq in *. rewrite G in Gq. injection Gq as <- <- <- <- <- <-.
        exists k0, sub', pre, dt, dec, sp. split; [apply (kv_get_set_same _ _ _ _ _ G)|apply (IH _ _ _ _ _ _ E _ Hs)].
      * exists q0, qsub, qpre, qdt, qdec, qsp. split; [rewrite (kv_get_set_other _ _ _ _ Eq); exact Gq|exact Hs].
    + destruct (inline_insert [] true ptl pe k v) as [sub| |] eqn:E; try discriminate. injection H as <-.
      exists q0, qsub, qpre, qdt, qdec, qsp. split; [apply kv_get_app_some, Gq|exact Hs].
Qed.

(* ---- the loop of table_from_pairs -------------------------------------------------------------------------------------- *)
Definition pair_ok (x : list key * (key * item)) : Prop := exists v, snd (snd x) = IValue v /\ undot v = true /\ iwf v = true.
Definition pair_kv (x : list key * (key * item)) : list (key * value) :=
  match snd (snd x) with IValue v => [(fst (snd x), v)] | _ => [] end.

Lemma loop_d_pairs : forall pairs m m' p, table_from_pairs_loop_d m pairs = COk m' -> iwfi m = true -> Forall pair_ok pairs ->
  iwfi m' = true /\ Permutation (map ipf (ivi m' p)) (map ipf (ivi m p) ++ flat_map pair_kv pairs)
  /\ Forall (fun x => pimp m' (fst x)) pairs /\ (forall q, pimp m q -> pimp m' q).
Proof.
  induction pairs as [|[path [k it]] tl IH]; intros m m' p H Hm Hok; cbn [table_from_pairs_loop_d] in H.
  - injection H as <-. split; [exact Hm|]. split; [rewrite app_nil_r; reflexivity|]. split; [constructor|auto].
  - destruct (check_depth _); [discriminate|]. inversion Hok as [|? ? (v & Ev & Hv & Hwv) Hok']; subst. cbn [fst snd] in Ev. subst it.
    destruct (inline_insert m false path _ k (IValue v)) as [m1| |] eqn:E; try discriminate.
    destruct (inline_insert_pairs path m false _ k v m1 p E Hm Hv Hwv) as [Hm1 Hp1].
    destruct (IH m1 m' p H Hm1 Hok') as (Hm' & Hp' & Hpi & Hkeep). split; [exact Hm'|]. split.
    + rewrite Hp', Hp1. cbn [flat_map pair_kv fst snd app]. rewrite <- !app_assoc. reflexivity.
    + split; [constructor; [cbn [fst]; apply Hkeep, (insert_pimp _ _ _ _ _ _ _ E)|exact Hpi]|].
      intros q Hq. apply Hkeep, (insert_keeps_pimp _ _ _ _ _ _ _ E _ Hq).
Qed.

(* ---- the span bookkeeping changes no pair ------------------------------------------------------------------------------ *)
Lemma set_spans_ivi : forall path m ve p, iwfi m = true -> pimp m path ->
  ivi (inline_set_spans m path ve) p = ivi m p /\ iwfi (inline_set_spans m path ve) = true /\ (forall q, pimp m q -> pimp (inline_set_spans m path ve) q).
Proof.
  induction path as [|k ptl IH]; intros m ve p Hm Hp; cbn [inline_set_spans]; [auto|]. cbn [pimp] in Hp.
  destruct Hp as (k0 & sub & pre & dt & dec & sp & G & Hs). rewrite G.
  destruct (kv_get_split m (k_key k) _ _ G) as (A & B & EA & _ & Hset & _).
  assert (Hsub : iwf (VInline sub pre true dt dec sp) = true).
  { unfold iwfi in Hm. rewrite EA, forallb_app in Hm. apply andb_true_iff in Hm as [_ Hm]. cbn [forallb snd] in Hm. apply andb_true_iff in Hm as [Hm _]. exact Hm. }
  assert (Edt : dt = true) by (cbn [iwf] in Hsub; apply andb_true_iff in Hsub as [Hd _]; exact Hd). subst dt. rewrite iwf_dotted in Hsub.
  set (sp1 := match key_span k, ve with Some ks, Some e => widen sp ks e | _, _ => sp end).
  destruct (IH sub ve (p ++ [k0]) Hsub Hs) as (Hi & Hw & Hkeep). rewrite Hset. split; [|split].
  - rewrite EA, !ivi_app.
    change (ivi ((k0, IValue (VInline (inline_set_spans sub ptl ve) pre true true dec sp1)) :: B) p)
      with (ivv (VInline (inline_set_spans sub ptl ve) pre true true dec sp1) (p ++ [k0]) ++ ivi B p).
    change (ivi ((k0, IValue (VInline sub pre true true dec sp)) :: B) p) with (ivv (VInline sub pre true true dec sp) (p ++ [k0]) ++ ivi B p).
    rewrite !ivv_dotted, Hi. reflexivity.
  - unfold iwfi in *. rewrite EA, forallb_app in Hm. apply andb_true_iff in Hm as [HA HB]. cbn [forallb snd] in HB. apply andb_true_iff in HB as [_ HB].
    rewrite forallb_app, HA. cbn [forallb snd andb]. rewrite iwf_dotted. unfold iwfi. rewrite Hw, HB. reflexivity.
  - intros q Hq. destruct q as [|qk qtl]; [exact I|]. cbn [pimp] in *. destruct Hq as (q0 & qsub & qpre & qdt & qdec & qsp & Gq & Hqs).
    rewrite <- Hset. destruct (bytes_eqb (k_key k) (k_key qk)) eqn:Eq.
    + apply bytes_eqb_eq in Eq. rewrite <- Eq in *. rewrite G in Gq. injection Gq as <- <- <- <- <- <-.
      eexists _, _, _, _, _, _. split; [apply (kv_get_set_same _ _ _ _ _ G)|apply Hkeep, Hqs].
    + exists q0, qsub, qpre, qdt, qdec, qsp. split; [rewrite (kv_get_set_other _ _ _ _ Eq); exact Gq|exact Hqs].
Qed.

Lemma spans_pass_ivi : forall pairs m p, iwfi m = true -> Forall (fun x => pimp m (fst x)) pairs ->
  ivi (inline_spans_pass m pairs) p = ivi m p /\ iwfi (inline_spans_pass m pairs) = true.
Proof.
  unfold inline_spans_pass. induction pairs as [|[path [k v]] tl IH]; intros m p Hm Hp; cbn [fold_left]; [auto|].
  inversion Hp as [|? ? Hp1 Hp']; subst. cbn [fst] in Hp1. destruct (set_spans_ivi path m (item_end v) p Hm Hp1) as (Hi & Hw & Hkeep).
  destruct (IH (inline_set_spans m path (item_end v)) p Hw) as [Hi' Hw'].
  - eapply Forall_impl; [|exact Hp']. intros x Hx. apply Hkeep, Hx.
  - split; [rewrite Hi', Hi; reflexivity|exact Hw'].
Qed.

(* table_from_pairs: the pairs of the table are the pairs read *)
Theorem from_pairs_ivi pairs m p : table_from_pairs_loop_d [] pairs = COk m -> Forall pair_ok pairs ->
  Permutation (map ipf (ivi (inline_spans_pass m pairs) p)) (flat_map pair_kv pairs) /\ iwfi (inline_spans_pass m pairs) = true.
Proof.
  intros H Hok. destruct (loop_d_pairs pairs [] m p H eq_refl Hok) as (Hm & Hp & Hpi & _).
  destruct (spans_pass_ivi pairs m p Hm Hpi) as [Hi Hw]. split; [rewrite Hi; exact Hp|exact Hw].
Qed.
