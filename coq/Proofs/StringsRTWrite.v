(* Proofs/StringsRTWrite.v — facts about Model/Write.v alone:
   (1) the chunked escaping loop `write_escaped` equals the byte-at-a-time `enc`;
   (2) what the metrics pass (release arithmetic) guarantees about the string when a style
       is offered;  (3) the metrics pass is total in release arithmetic. *)
From TV Require Import Base.Prelude Base.Utf8 Base.Winnow Gen.Consts.
From TV Require Import Model.Trivia Model.Strings Model.Write Proofs.StringsRTDefs Proofs.StringsRTBase.
Require Import Lia ZifyBool ZifyN ZifyNat.

(* ---- (1) write_escaped = enc ---------------------------------------------------------------- *)
Lemma scan_enc is_ml s : forall i seq,
  exists k, fst (scan is_ml s i seq) = i + k /\
    enc is_ml seq s =
      firstn k s ++
      match snd (scan is_ml s i seq) with
      | Some e => e ++ enc is_ml 0 (skipn (S k) s)
      | None => match skipn k s with [] => [] | b :: r => u_escape b ++ enc is_ml 0 r end
      end.
Proof.
  induction s as [|b r IH]; intros i seq.
  - exists 0. cbn. split; [lia|reflexivity].
  - assert (Hpass : forall seq',
              scan is_ml (b :: r) i seq = scan is_ml r (S i) seq' ->
              enc is_ml seq (b :: r) = b :: enc is_ml seq' r ->
              exists k, fst (scan is_ml (b :: r) i seq) = i + k /\
                enc is_ml seq (b :: r) =
                firstn k (b :: r) ++
                match snd (scan is_ml (b :: r) i seq) with
                | Some e => e ++ enc is_ml 0 (skipn (S k) (b :: r))
                | None => match skipn k (b :: r) with [] => [] | b0 :: r0 => u_escape b0 ++ enc is_ml 0 r0 end
                end).
    { intros seq' Hs He. destruct (IH (S i) seq') as [k [Hk Hk2]].
      exists (S k). rewrite Hs, He. split; [lia|]. rewrite Hk2. reflexivity. }
    assert (Hstop : forall e, scan is_ml (b :: r) i seq = (i, Some e) ->
              enc is_ml seq (b :: r) = e ++ enc is_ml 0 r ->
              exists k, fst (scan is_ml (b :: r) i seq) = i + k /\
                enc is_ml seq (b :: r) =
                firstn k (b :: r) ++
                match snd (scan is_ml (b :: r) i seq) with
                | Some e => e ++ enc is_ml 0 (skipn (S k) (b :: r))
                | None => match skipn k (b :: r) with [] => [] | b0 :: r0 => u_escape b0 ++ enc is_ml 0 r0 end
                end).
    { intros e Hs He. exists 0. rewrite Hs, He. split; [cbn; lia|reflexivity]. }
    destruct (byte_eqb b x22) eqn:E22.
    { apply byte_eqb_eq in E22. subst b.
      destruct ((if is_ml then 2 else 0) <? seq + 1)%N eqn:Eq.
      - eapply Hstop; cbn [scan enc]; beq_compute; cbn [andb]; rewrite ?Eq; reflexivity.
      - apply (Hpass (seq + 1)%N); cbn [scan enc]; beq_compute; cbn [andb]; rewrite ?Eq; reflexivity. }
    destruct (byte_eqb b x08) eqn:E08.
    { eapply Hstop; cbn [scan enc]; unfold short_escape; rewrite ?E22, ?E08; reflexivity. }
    destruct (byte_eqb b x09) eqn:E09.
    { eapply Hstop; cbn [scan enc]; unfold short_escape; rewrite ?E22, ?E08, ?E09; reflexivity. }
    destruct (byte_eqb b x0a) eqn:E0a.
    { apply byte_eqb_eq in E0a. subst b. destruct is_ml.
      - apply (Hpass 0%N); reflexivity.
      - eapply Hstop; reflexivity. }
    destruct (byte_eqb b x0c) eqn:E0c.
    { eapply Hstop; cbn [scan enc]; unfold short_escape; rewrite ?E22, ?E08, ?E09, ?E0a, ?E0c; reflexivity. }
    destruct (byte_eqb b x0d) eqn:E0d.
    { eapply Hstop; cbn [scan enc]; unfold short_escape; rewrite ?E22, ?E08, ?E09, ?E0a, ?E0c, ?E0d; reflexivity. }
    destruct (byte_eqb b x5c) eqn:E5c.
    { eapply Hstop; cbn [scan enc]; unfold short_escape; rewrite ?E22, ?E08, ?E09, ?E0a, ?E0c, ?E0d, ?E5c; reflexivity. }
    destruct (is_ctrl b) eqn:Ec.
    { exists 0. cbn [scan enc]. unfold short_escape.
      rewrite ?E22, ?E08, ?E09, ?E0a, ?E0c, ?E0d, ?E5c, ?Ec. cbn [andb fst snd firstn skipn app].
      rewrite ?E22, ?E08, ?E09, ?E0a, ?E0c, ?E0d, ?E5c, ?Ec. split; [lia|reflexivity]. }
    apply (Hpass 0%N); cbn [scan enc]; unfold short_escape;
      rewrite ?E22, ?E08, ?E09, ?E0a, ?E0c, ?E0d, ?E5c, ?Ec; reflexivity.
Qed.

Lemma skipn_length_le {A} n (l : list A) : length (skipn n l) <= length l.
Proof. rewrite skipn_length. lia. Qed.

Lemma write_escaped_enc is_ml : forall fuel s, length s < fuel ->
  write_escaped fuel is_ml s = enc is_ml 0 s.
Proof.
  induction fuel as [|f IH]; intros s Hf; [lia|].
  destruct s as [|b0 r0]; [reflexivity|].
  set (s := b0 :: r0) in *.
  cbn [write_escaped]. unfold s at 1. fold s.
  destruct (scan_enc is_ml s 0 0%N) as [k [Hk He]].
  destruct (scan is_ml s 0 0%N) as [uend esc]. cbn [fst snd] in *. subst uend. cbn [Nat.add].
  rewrite He. destruct esc as [e|].
  - rewrite IH; [reflexivity|]. pose proof (skipn_length_le k r0). unfold s in *. cbn [skipn length] in *. lia.
  - destruct (skipn k s) as [|b r] eqn:Es; [rewrite app_nil_r; reflexivity|].
    rewrite IH; [reflexivity|]. pose proof (skipn_length_le k s) as Hl. rewrite Es in Hl. cbn [length] in *. lia.
Qed.

Lemma write_escaped_is_enc is_ml s : write_escaped (S (length s)) is_ml s = enc is_ml 0 s.
Proof. apply write_escaped_enc. lia. Qed.

(* ---- (2) the metrics pass (saturating u8 counters) ------------------------------------------- *)

Definition m_next (m : vmetrics) (b : byte) (ps' pd' : N) : vmetrics :=
  let m1 := mkVM (if byte_eqb b x27 then N.max (max_seq_single_quotes m) ps' else max_seq_single_quotes m)
                 (if byte_eqb b x22 then N.max (max_seq_double_quotes m) pd' else max_seq_double_quotes m)
                 (vm_escape_codes m) (vm_escape m) (vm_newline m) in
  if byte_eqb b x5c then mkVM (max_seq_single_quotes m1) (max_seq_double_quotes m1) (vm_escape_codes m1) true (vm_newline m1)
  else if byte_eqb b x09 then m1
  else if byte_eqb b x0a then mkVM (max_seq_single_quotes m1) (max_seq_double_quotes m1) (vm_escape_codes m1) (vm_escape m1) true
  else if is_ctrl b then mkVM (max_seq_single_quotes m1) (max_seq_double_quotes m1) true (vm_escape m1) (vm_newline m1)
  else m1.

Lemma vm_loop_cons b r ps pd m :
  vmetrics_loop (b :: r) ps pd m =
  vmetrics_loop r (qnext ps (byte_eqb b x27)) (qnext pd (byte_eqb b x22))
    (m_next m b (qnext ps (byte_eqb b x27)) (qnext pd (byte_eqb b x22))).
Proof.
  cbn [vmetrics_loop]. unfold m_next. reflexivity.
Qed.

(* a byte that forces escape codes: a control character other than tab and LF *)
Definition needs_code (b : byte) : bool :=
  is_ctrl b && negb (byte_eqb b x09) && negb (byte_eqb b x0a).

Lemma m_next_single m b ps' pd' :
  max_seq_single_quotes (m_next m b ps' pd') =
  if byte_eqb b x27 then N.max (max_seq_single_quotes m) ps' else max_seq_single_quotes m.
Proof. unfold m_next. destruct (byte_eqb b x5c), (byte_eqb b x09), (byte_eqb b x0a), (is_ctrl b); reflexivity. Qed.

Lemma m_next_codes m b ps' pd' :
  vm_escape_codes (m_next m b ps' pd') = vm_escape_codes m || needs_code b.
Proof.
  unfold m_next, needs_code.
  destruct (byte_eqb b x5c) eqn:E5c.
  { apply byte_eqb_eq in E5c. subst b. cbn. rewrite orb_false_r. reflexivity. }
  destruct (byte_eqb b x09), (byte_eqb b x0a), (is_ctrl b); cbn; rewrite ?orb_false_r, ?orb_true_r; reflexivity.
Qed.

Lemma m_next_newline m b ps' pd' :
  vm_newline (m_next m b ps' pd') = vm_newline m || byte_eqb b x0a.
Proof.
  unfold m_next.
  destruct (byte_eqb b x5c) eqn:E5c.
  { apply byte_eqb_eq in E5c. subst b. cbn. rewrite orb_false_r. reflexivity. }
  destruct (byte_eqb b x09) eqn:E09.
  { apply byte_eqb_eq in E09. subst b. cbn. rewrite orb_false_r. reflexivity. }
  destruct (byte_eqb b x0a), (is_ctrl b); cbn; rewrite ?orb_false_r, ?orb_true_r; reflexivity.
Qed.

(* no run of three `q` when `k` of them were just seen *)
Fixpoint no3 (q : byte) (k : N) (s : bytes) : bool :=
  match s with
  | [] => true
  | b :: r => if byte_eqb b q then (k <? 2)%N && no3 q (k + 1) r else no3 q 0 r
  end.

Lemma vm_inv : forall s ps pd m m', vmetrics_loop s ps pd m = m' ->
  (ps <= max_seq_single_quotes m)%N ->
  (max_seq_single_quotes m <= max_seq_single_quotes m')%N /\
  (vm_escape_codes m' = false ->
     vm_escape_codes m = false /\ forallb (fun b => negb (needs_code b)) s = true) /\
  (vm_newline m' = false ->
     vm_newline m = false /\ forallb (fun b => negb (byte_eqb b x0a)) s = true) /\
  (max_seq_single_quotes m' = 0%N -> forallb (fun b => negb (byte_eqb b x27)) s = true) /\
  ((max_seq_single_quotes m' <= 2)%N -> (ps <= 2)%N -> no3 x27 ps s = true).
Proof.
  induction s as [|b r IH]; intros ps pd m m' H Hps.
  - cbn in H. subst m'. cbn. repeat split; auto; lia.
  - rewrite vm_loop_cons in H. apply IH in H.
    2:{ rewrite m_next_single. unfold qnext. destruct (byte_eqb b x27); [|lia]. destruct (ps =? 255)%N; lia. }
    destruct H as [H1 [H2 [H3 [H4 H5]]]].
    rewrite m_next_single in H1. rewrite m_next_codes in H2. rewrite m_next_newline in H3.
    cbn [forallb no3]. unfold qnext in *.
    repeat split.
    + destruct (byte_eqb b x27); lia.
    + apply H2 in H. destruct H as [H _]. apply orb_false_iff in H. tauto.
    + apply H2 in H. destruct H as [H H']. apply orb_false_iff in H as [_ H]. rewrite H, H'. reflexivity.
    + apply H3 in H. destruct H as [H _]. apply orb_false_iff in H. tauto.
    + apply H3 in H. destruct H as [H H']. apply orb_false_iff in H as [_ H]. rewrite H, H'. reflexivity.
    + intro H0. rewrite (H4 H0). destruct (byte_eqb b x27) eqn:E27; [|reflexivity].
      rewrite ?E27 in H1. destruct (ps =? 255)%N eqn:E255; lia.
    + intros Hm Hp. destruct (byte_eqb b x27) eqn:E27; rewrite ?E27 in H1.
      * assert (E : (ps =? 255)%N = false) by lia. rewrite E in *.
        assert (Hlt : (ps <? 2)%N = true) by lia. rewrite Hlt. cbn [andb]. apply H5; lia.
      * apply H5; lia.
Qed.

(* what `vmetrics_of true s = WOk m` tells about s *)
Lemma vm_of_codes s m : vmetrics_of s = m -> vm_escape_codes m = false ->
  forallb (fun b => negb (needs_code b)) s = true.
Proof. intros H E. apply vm_inv in H; [|cbn; lia]. apply H in E. tauto. Qed.
Lemma vm_of_newline s m : vmetrics_of s = m -> vm_newline m = false ->
  forallb (fun b => negb (byte_eqb b x0a)) s = true.
Proof. intros H E. apply vm_inv in H; [|cbn; lia]. apply H in E. tauto. Qed.
Lemma vm_of_no_apos s m : vmetrics_of s = m -> (0 <? max_seq_single_quotes m)%N = false ->
  forallb (fun b => negb (byte_eqb b x27)) s = true.
Proof. intros H E. apply vm_inv in H; [|cbn; lia]. apply H. lia. Qed.
Lemma vm_of_no3 s m : vmetrics_of s = m -> (2 <? max_seq_single_quotes m)%N = false ->
  no3 x27 0 s = true.
Proof. intros H E. apply vm_inv in H; [|cbn; lia]. apply H; lia. Qed.

(* ---- (3) keys -------------------------------------------------------------------------------- *)
Definition k_next (m : kmetrics) (b : byte) : kmetrics :=
  let m1 := if is_unquoted_byte b then m else mkKM false (km_single m) (km_double m) (km_escape_codes m) (km_escape m) in
  if byte_eqb b x27 then mkKM (km_unquoted m1) true (km_double m1) (km_escape_codes m1) (km_escape m1)
  else if byte_eqb b x22 then mkKM (km_unquoted m1) (km_single m1) true (km_escape_codes m1) (km_escape m1)
  else if byte_eqb b x5c then mkKM (km_unquoted m1) (km_single m1) (km_double m1) (km_escape_codes m1) true
  else if byte_eqb b x09 then m1
  else if is_ctrl b then mkKM (km_unquoted m1) (km_single m1) (km_double m1) true (km_escape m1)
  else m1.

Lemma k_next_unquoted m b : km_unquoted (k_next m b) = km_unquoted m && is_unquoted_byte b.
Proof.
  unfold k_next. destruct (is_unquoted_byte b);
    destruct (byte_eqb b x27), (byte_eqb b x22), (byte_eqb b x5c), (byte_eqb b x09), (is_ctrl b);
    cbn; rewrite ?andb_true_r, ?andb_false_r; reflexivity.
Qed.
Lemma k_next_single m b : km_single (k_next m b) = km_single m || byte_eqb b x27.
Proof.
  unfold k_next. destruct (byte_eqb b x27) eqn:E.
  { destruct (is_unquoted_byte b); cbn; rewrite orb_true_r; reflexivity. }
  destruct (is_unquoted_byte b);
    destruct (byte_eqb b x22), (byte_eqb b x5c), (byte_eqb b x09), (is_ctrl b);
    cbn; rewrite ?orb_false_r; reflexivity.
Qed.
(* a key byte that forces escape codes: a control character other than tab *)
Definition key_needs_code (b : byte) : bool := is_ctrl b && negb (byte_eqb b x09).
Lemma k_next_codes m b : km_escape_codes (k_next m b) = km_escape_codes m || key_needs_code b.
Proof.
  unfold k_next, key_needs_code.
  destruct (byte_eqb b x27) eqn:E27.
  { apply byte_eqb_eq in E27. subst b. cbn. rewrite orb_false_r. reflexivity. }
  destruct (byte_eqb b x22) eqn:E22.
  { apply byte_eqb_eq in E22. subst b. cbn. rewrite orb_false_r. reflexivity. }
  destruct (byte_eqb b x5c) eqn:E5c.
  { apply byte_eqb_eq in E5c. subst b. cbn. rewrite orb_false_r. reflexivity. }
  destruct (is_unquoted_byte b); destruct (byte_eqb b x09), (is_ctrl b);
    cbn; rewrite ?orb_false_r, ?orb_true_r; reflexivity.
Qed.

Lemma km_inv : forall s m,
  (km_unquoted (kmetrics_loop s m) = true -> km_unquoted m = true /\ forallb is_unquoted_byte s = true) /\
  (km_single (kmetrics_loop s m) = false -> km_single m = false /\ forallb (fun b => negb (byte_eqb b x27)) s = true) /\
  (km_escape_codes (kmetrics_loop s m) = false ->
     km_escape_codes m = false /\ forallb (fun b => negb (key_needs_code b)) s = true).
Proof.
  induction s as [|b r IH]; intros m.
  - cbn. auto.
  - change (kmetrics_loop (b :: r) m) with (kmetrics_loop r (k_next m b)).
    destruct (IH (k_next m b)) as [H1 [H2 H3]].
    rewrite k_next_unquoted in H1. rewrite k_next_single in H2. rewrite k_next_codes in H3.
    cbn [forallb]. repeat split.
    + apply H1 in H. destruct H as [H _]. apply andb_true_iff in H. tauto.
    + apply H1 in H. destruct H as [H H']. apply andb_true_iff in H as [_ H]. rewrite H, H'. reflexivity.
    + apply H2 in H. destruct H as [H _]. apply orb_false_iff in H. tauto.
    + apply H2 in H. destruct H as [H H']. apply orb_false_iff in H as [_ H]. rewrite H, H'. reflexivity.
    + apply H3 in H. destruct H as [H _]. apply orb_false_iff in H. tauto.
    + apply H3 in H. destruct H as [H H']. apply orb_false_iff in H as [_ H]. rewrite H, H'. reflexivity.
Qed.
