(* Proofs/WFOrderState.v — sections in Display's order, part 2: what descend_path, finalize_table, start_table and
   start_array_table (Model/Document.v) do to the positioned sections `Bb` of the tree, as multisets.  Built on eng-c01's
   relational view of descend_path (Proofs/PrintBackDAll.v `dctx_rel`, `wta_dctx`, unique keys `uk2`), with the own
   STATEMENTS of the sections as payload instead of their text. *)
From TV Require Import Base.Prelude Base.Utf8 Base.Winnow Gen.Consts Spec.Abnf Spec.Lex Spec.Defs Spec.DatetimeSpec Spec.Syntax Spec.WF.
From TV Require Import Model.Datetime Model.Numbers Model.Tree Model.Parse Model.Document Model.Write Model.Encode.
From TV Require Import Proofs.DefsEquivBase Proofs.DefsEquivSim Proofs.GrammarBase Proofs.PrintBackSort Proofs.PrintBackSecs Proofs.PrintBackDAll.
From TV Require Import Proofs.WFSem Proofs.WFSemDoc Proofs.WFPrintKey Proofs.WFPrintFlat Proofs.WFTree Proofs.WFPrintDoc Proofs.WFParseBase Proofs.WFParseState Proofs.WFReplay Proofs.WFOrderBase.
Require Import Lia NArith Sorting.Sorted Sorting.Permutation.

(* ---- the lines of a table ------------------------------------------------------------------------------------------------ *)
Definition tfl (p : list key) (m : list (key * item)) : list (list key * value) := flat_map (fun kv => tflat_item p (fst kv) (snd kv)) m.
Lemma tflat_tfl p t : tflat p t = tfl p (t_items t).
Proof. apply tflat_eq. Qed.
Lemma tfl_app p a b : tfl p (a ++ b) = tfl p a ++ tfl p b.
Proof. apply flat_map_app. Qed.
Lemma tfl_set p m k k0 it it' : kv_get m k = Some (k0, it) -> tflat_item p k0 it' = tflat_item p k0 it -> tfl p (kv_set m k it') = tfl p m.
Proof.
  intros G E. destruct (kv_get_split m k k0 it G) as (A & B & -> & _ & Hs & _). rewrite Hs, !tfl_app. unfold tfl at 2 4. cbn [flat_map fst snd]. rewrite E. reflexivity.
Qed.
Lemma tfl_push p m k it : tflat_item p k it = [] -> tfl p (kv_push m k it) = tfl p m.
Proof. intro E. unfold kv_push. rewrite tfl_app. unfold tfl at 2. cbn [flat_map fst snd]. rewrite E. cbn [app]. rewrite ?app_nil_r. reflexivity. Qed.
Lemma tfl_remove p m k k0 it : kv_get m k = Some (k0, it) -> tflat_item p k0 it = [] -> tfl p (kv_remove m k) = tfl p m.
Proof.
  intros G E. destruct (kv_get_split m k k0 it G) as (A & B & -> & _ & _ & Hr). rewrite Hr, !tfl_app. unfold tfl at 4. cbn [flat_map fst snd]. rewrite E. reflexivity.
Qed.

(* only the sub-tables change: flags, position and lines stay *)
Definition lframe (t t' : tbl) : Prop :=
  t_implicit t' = t_implicit t /\ t_dotted t' = t_dotted t /\ t_position t' = t_position t /\ (forall p, tflat p t' = tflat p t).
Lemma lframe_refl t : lframe t t.
Proof. repeat split. Qed.
Lemma lframe_trans a b c : lframe a b -> lframe b c -> lframe a c.
Proof. intros (A1 & A2 & A3 & A4) (B1 & B2 & B3 & B4). split; [congruence|]. split; [congruence|]. split; [congruence|]. intro p. rewrite B4. apply A4. Qed.
Lemma lframe_set_items t m : (forall p, tfl p m = tfl p (t_items t)) -> lframe t (t_set_items t m).
Proof. intro H. destruct t. repeat split. intro p. rewrite !tflat_tfl. apply H. Qed.

Lemma own_b_lframe t t' P a : lframe t t' -> own_b t' P a = own_b t P a.
Proof.
  intros (H1 & _ & _ & H4). unfold own_b, no_lines, line_stmts. rewrite <- !tflat_lines, (H4 []), H1. reflexivity.
Qed.
Lemma own_e_lframe t t' P a : lframe t t' -> own_e t' P a = own_e t P a.
Proof. intros H. pose proof H as (_ & H2 & H3 & _). unfold own_e. rewrite H2, H3, (own_b_lframe _ _ P a H). reflexivity. Qed.

(* ---- descend_path for headers ------------------------------------------------------------------------------------------ *)
Lemma dctx_lframe p r r' par par' : dctx_rel false p r r' par par' -> lframe par par' -> lframe r r'.
Proof.
  induction 1 as [t t'|t k p sub par par' G Hc IH|t k p k0 sub sub' par par' G Hc IH|t k p k0 ts sp last rinit last' par par' G Er Hc IH]; intro Hf.
  - exact Hf.
  - apply lframe_set_items. intro q. apply tfl_push. cbn [tflat_item]. destruct (IH Hf) as (_ & Hd & _). rewrite Hd. reflexivity.
  - apply lframe_set_items. intro q. apply (tfl_set q _ _ _ _ _ G). cbn [tflat_item]. destruct (IH Hf) as (_ & Hd & _ & Ht). rewrite Hd, Ht. reflexivity.
  - apply lframe_set_items. intro q. apply (tfl_set q _ _ _ _ _ G). reflexivity.
Qed.

Lemma BbI_set m k k0 it it' P D1 D2 : kv_get m k = Some (k0, it) ->
  Permutation (Bit P (k0, it') ++ D1) (Bit P (k0, it) ++ D2) -> Permutation (BbI (kv_set m k it') P ++ D1) (BbI m P ++ D2).
Proof.
  intros Hg Hp. destruct (kv_get_split m k k0 it Hg) as (A & B & -> & _ & Hs & _). rewrite Hs, !BbI_app.
  change (BbI ((k0, it') :: B) P) with (Bit P (k0, it') ++ BbI B P). change (BbI ((k0, it) :: B) P) with (Bit P (k0, it) ++ BbI B P).
  rewrite <- !app_assoc. apply Permutation_app_head.
  transitivity (BbI B P ++ Bit P (k0, it') ++ D1); [rewrite !app_assoc; apply Permutation_app_tail, Permutation_app_comm|].
  transitivity (BbI B P ++ Bit P (k0, it) ++ D2); [apply Permutation_app_head, Hp|].
  rewrite !app_assoc. apply Permutation_app_tail, Permutation_app_comm.
Qed.

Lemma keys_cons k p : keys (k :: p) = k_key k :: keys p.
Proof. reflexivity. Qed.

Lemma dctx_permB p r r' par par' : dctx_rel false p r r' par par' -> lframe par par' ->
  forall P D1 D2,
    Permutation (BbI (t_items par') (P ++ keys p) ++ D1) (BbI (t_items par) (P ++ keys p) ++ D2) ->
    Permutation (BbI (t_items r') P ++ D1) (BbI (t_items r) P ++ D2).
Proof.
  induction 1 as [t t'|t k p sub par par' G Hc IH|t k p k0 sub sub' par par' G Hc IH|t k p k0 ts sp last rinit last' par par' G Er Hc IH]; intros Hf P D1 D2 Hp.
  - cbn [keys map] in Hp. rewrite app_nil_r in Hp. exact Hp.
  - rewrite t_items_set. unfold kv_push. rewrite BbI_app. change (BbI [(k, ITable sub)] P) with (Bb sub (P ++ [k_key k]) false ++ []).
    rewrite app_nil_r, Bb_eq. pose proof (dctx_lframe _ _ _ _ _ Hc Hf) as Hl. rewrite (own_e_lframe _ _ _ _ Hl). unfold own_e at 1. cbn [implicitd t_dotted t_position app].
    rewrite <- app_assoc. apply Permutation_app_head. specialize (IH Hf (P ++ [k_key k]) D1 D2). rewrite <- app_assoc in IH. cbn [app] in IH.
    rewrite keys_cons in Hp. specialize (IH Hp). cbn [implicitd t_items BbI flat_map app] in IH. exact IH.
  - rewrite t_items_set. apply (BbI_set _ _ _ _ _ _ _ _ G). unfold Bit. cbn [fst snd]. rewrite !Bb_eq, (own_e_lframe _ _ _ _ (dctx_lframe _ _ _ _ _ Hc Hf)).
    rewrite <- !app_assoc. apply Permutation_app_head. rewrite (kv_get_some_key _ _ _ _ G). apply IH; [exact Hf|]. rewrite <- app_assoc. exact Hp.
  - rewrite t_items_set. apply (BbI_set _ _ _ _ _ _ _ _ G). unfold Bit. cbn [fst snd].
    assert (Ets : ts = rev rinit ++ [last]) by (rewrite <- (rev_involutive ts), Er; reflexivity).
    rewrite Ets. cbn [rev]. rewrite !flat_map_app. cbn [flat_map]. rewrite !app_nil_r, !Bb_eq, (own_e_lframe _ _ _ _ (dctx_lframe _ _ _ _ _ Hc Hf)).
    rewrite <- !app_assoc. apply Permutation_app_head, Permutation_app_head. rewrite (kv_get_some_key _ _ _ _ G). apply IH; [exact Hf|]. rewrite <- app_assoc. exact Hp.
Qed.

(* sections without a position stay silent *)
Lemma no_lines_lframe t t' : lframe t t' -> no_lines t' = no_lines t.
Proof. intros (_ & _ & _ & H). unfold no_lines. rewrite (H []). reflexivity. Qed.

Lemma dctx_hp p r r' par par' : dctx_rel false p r r' par par' -> hp r -> hp par /\ (hp par' -> lframe par par' -> hp r').
Proof.
  induction 1 as [t t'|t k p sub par par' G Hc IH|t k p k0 sub sub' par par' G Hc IH|t k p k0 ts sp last rinit last' par par' G Er Hc IH]; intro Hh.
  - auto.
  - destruct IH as [H1 H2]; [apply hp_eq; exact I|]. split; [exact H1|]. intros Hp Hf. apply hp_eq. rewrite t_items_set. apply hp_eq in Hh.
    apply all_P_push; [exact Hh|]. unfold hentry. cbn [snd]. split; [apply H2; assumption|].
    pose proof (dctx_lframe _ _ _ _ _ Hc Hf) as Hl. destruct Hl as (Hi & _ & Hq & Ht). split; [intros _; exact Hq|].
    intros _ _. split; [exact Hi|]. unfold no_lines. rewrite (Ht []). reflexivity.
  - apply hp_eq in Hh. pose proof (all_P_get _ _ _ _ _ Hh G) as (Hs & Hip & Hc0). cbn [snd] in Hs, Hip, Hc0. destruct (IH Hs) as [H1 H2]. split; [exact H1|].
    intros Hp Hf. apply hp_eq. rewrite t_items_set. apply (all_P_set _ _ _ k0 _ _ Hh G). unfold hentry. cbn [snd]. split; [apply H2; assumption|].
    pose proof (dctx_lframe _ _ _ _ _ Hc Hf) as Hl. pose proof Hl as (Hi & Hd & Hq & _). rewrite Hd, Hq, Hi, (no_lines_lframe _ _ Hl). split; assumption.
  - apply hp_eq in Hh. pose proof (all_P_get _ _ _ _ _ Hh G) as Hts. unfold hentry in Hts. cbn [snd] in Hts.
    assert (Ets : ts = rev rinit ++ [last]) by (rewrite <- (rev_involutive ts), Er; reflexivity).
    rewrite Ets in Hts. apply all_P_app in Hts as [Hinit [[Hl0 Hq0] _]]. destruct (IH Hl0) as [H1 H2]. split; [exact H1|].
    intros Hp Hf. apply hp_eq. rewrite t_items_set. apply (all_P_set _ _ _ k0 _ _ Hh G). unfold hentry. cbn [snd rev]. apply all_P_app.
    split; [exact Hinit|]. split; [|exact I]. split; [apply H2; assumption|]. destruct (dctx_lframe _ _ _ _ _ Hc Hf) as (_ & _ & Hq & _). rewrite Hq. exact Hq0.
Qed.

(* ---- the root ------------------------------------------------------------------------------------------------------------- *)
Lemma Broot_lframe r r' D1 D2 : lframe r r' -> Permutation (BbI (t_items r') [] ++ D1) (BbI (t_items r) [] ++ D2) ->
  Permutation (Broot r' ++ D1) (Broot r ++ D2).
Proof. intros Hf Hp. unfold Broot. rewrite (own_b_lframe _ _ [] false Hf). cbn [app]. apply perm_skip, Hp. Qed.

Lemma perm_nil_r' {A} (l1 l2 : list A) : Permutation (l1 ++ []) (l2 ++ []) -> Permutation l1 l2.
Proof. rewrite !app_nil_r. auto. Qed.

Definition anyk (k : key) : Prop := True.
Local Notation uk2' := (uk2 anyk).
Lemma all_anyk (p : list key) : Forall anyk p.
Proof. apply Forall_forall. intros; exact I. Qed.

(* what is known of the table being filled *)
Definition cur_ok (cur : tbl) : Prop := t_dotted cur = false /\ t_implicit cur = false /\ hp cur /\ uk2' cur.

(* ---- finalize_table below the root ------------------------------------------------------------------------------------- *)
Lemma finalize_B st st' ppath k :
  pop_key (st_path st) = Some (ppath, k) -> finalize_table st = COk st' ->
  uk2' (st_root st) -> hp (st_root st) -> cur_ok (st_current st) -> t_position (st_current st) <> None ->
  (st_is_array st = false -> exists par, reach (st_root st) ppath = Some par /\ kv_get (t_items par) (k_key k) = None) ->
  st' = finalized st (st_root st') /\ lframe (st_root st) (st_root st') /\ uk2' (st_root st') /\ hp (st_root st')
  /\ Permutation (Broot (st_root st')) (Broot (st_root st) ++ Bb (st_current st) (keys (st_path st)) (st_is_array st)).
Proof.
  intros Ep Hf Hur Hhr (Hcd & Hci & Hhc & Huc) Hcp Habs. rewrite finalize_table_eq, Ep in Hf. pose proof (pop_key_some _ _ _ Ep) as Epath.
  destruct (with_table_at (st_root st) ppath false ((if st_is_array st then faf else ftf) k (st_current st))) as [[root' u]| |] eqn:E; try discriminate.
  injection Hf as <-. cbn [finalized st_root]. split; [reflexivity|].
  destruct (wta_dctx false _ _ _ _ _ E) as (par & par' & Hfp & Hc).
  destruct (dctx_uk2 anyk _ _ _ _ _ _ Hc (all_anyk _) Hur) as [Hupar Hup']. apply uk2_eq in Hupar as (Hn & Hs).
  destruct (dctx_hp _ _ _ _ _ Hc Hhr) as [Hhpar Hhp']. apply hp_eq in Hhpar.
  assert (Ekeys : keys (st_path st) = keys ppath ++ [k_key k]) by (rewrite Epath; unfold keys; rewrite map_app; reflexivity).
  destruct (st_is_array st) eqn:Ea.
  - unfold faf in Hfp. destruct (kv_get (t_items par) (k_key k)) as [[k0 it]|] eqn:G.
    + destruct it as [|v|sub|ts sp]; try discriminate. injection Hfp as <-.
      assert (Hfr : lframe par (t_set_items par (kv_set (t_items par) (k_key k) (IAot (ts ++ [st_current st])
                      match ts ++ [st_current st] with first :: _ => union_span (t_span first) (t_span (st_current st)) | [] => None end))))
        by (apply lframe_set_items; intro q; apply (tfl_set q _ _ _ _ _ G); reflexivity).
      split; [apply (dctx_lframe _ _ _ _ _ Hc Hfr)|]. split; [|split].
      * apply Hup'. destruct (uks2_get anyk _ _ _ _ Hs G) as [Hk0 Hts]. apply uki2_aot in Hts.
        apply uk2_set_items; [rewrite keys_set; exact Hn|].
        apply (uks2_set anyk _ _ _ _ _ Hs G); [exact Hk0|]. apply uki2_aot. apply Forall_app. split; [exact Hts|constructor; [exact Huc|constructor]].
      * apply Hhp'; [|exact Hfr]. apply hp_eq. rewrite t_items_set. pose proof (all_P_get _ _ _ _ _ Hhpar G) as Hts. unfold hentry in Hts. cbn [snd] in Hts.
        apply (all_P_set _ _ _ k0 _ _ Hhpar G). unfold hentry. cbn [snd]. apply all_P_app. split; [exact Hts|]. split; [split; assumption|exact I].
      * apply perm_nil_r'. rewrite <- app_assoc. apply (Broot_lframe _ _ _ _ (dctx_lframe _ _ _ _ _ Hc Hfr)).
        apply (dctx_permB _ _ _ _ _ Hc Hfr []). cbn [app]. rewrite t_items_set. apply (BbI_set _ _ _ _ _ _ _ _ G). unfold Bit. cbn [fst snd].
        rewrite flat_map_app. cbn [flat_map]. rewrite !app_nil_r, (kv_get_some_key _ _ _ _ G), Ekeys. reflexivity.
    + injection Hfp as <-.
      assert (Hfr : lframe par (t_set_items par (kv_push (t_items par) k (IAot [st_current st] (union_span (t_span (st_current st)) (t_span (st_current st)))))))
        by (apply lframe_set_items; intro q; apply tfl_push; reflexivity).
      split; [apply (dctx_lframe _ _ _ _ _ Hc Hfr)|]. split; [|split].
      * apply Hup'. apply uk2_set_items; [apply nodup_push; assumption|].
        apply uks2_push; [exact Hs|intros _; exact I|]. apply uki2_aot. constructor; [exact Huc|constructor].
      * apply Hhp'; [|exact Hfr]. apply hp_eq. rewrite t_items_set. apply all_P_push; [exact Hhpar|]. unfold hentry. cbn [snd all_P]. auto.
      * apply perm_nil_r'. rewrite <- app_assoc. apply (Broot_lframe _ _ _ _ (dctx_lframe _ _ _ _ _ Hc Hfr)).
        apply (dctx_permB _ _ _ _ _ Hc Hfr []). cbn [app]. rewrite t_items_set. unfold kv_push. rewrite BbI_app, app_nil_r.
        apply Permutation_app_head. unfold BbI, Bit. cbn [flat_map fst snd]. rewrite !app_nil_r, Ekeys. reflexivity.
  - destruct (Habs eq_refl) as (par0 & Hr & Hg). destruct (dctx_reach _ _ _ _ _ _ Hc) as [_ Hpar]. rewrite (Hpar par0 Hr) in Hg.
    unfold ftf in Hfp. rewrite Hg in Hfp. injection Hfp as <-.
    assert (Hfr : lframe par (t_set_items par (kv_push (t_items par) k (ITable (st_current st)))))
      by (apply lframe_set_items; intro q; apply tfl_push; cbn [tflat_item]; rewrite Hcd; reflexivity).
    split; [apply (dctx_lframe _ _ _ _ _ Hc Hfr)|]. split; [|split].
    + apply Hup'. apply uk2_set_items; [apply nodup_push; assumption|]. apply uks2_push; [exact Hs|intros _; exact I|exact Huc].
    + apply Hhp'; [|exact Hfr]. apply hp_eq. rewrite t_items_set. apply all_P_push; [exact Hhpar|]. unfold hentry. cbn [snd]. split; [exact Hhc|].
      split; [intro Hi; congruence|intros _ Hq; contradiction].
    + apply perm_nil_r'. rewrite <- app_assoc. apply (Broot_lframe _ _ _ _ (dctx_lframe _ _ _ _ _ Hc Hfr)).
      apply (dctx_permB _ _ _ _ _ Hc Hfr []). cbn [app]. rewrite t_items_set. unfold kv_push. rewrite BbI_app, app_nil_r.
      apply Permutation_app_head. unfold BbI, Bit. cbn [flat_map fst snd]. rewrite !app_nil_r, Ekeys. reflexivity.
Qed.

(* ---- start_table ------------------------------------------------------------------------------------------------------------ *)
Lemma start_table_B st path dec sp st' ppath k :
  start_table st path dec sp = COk st' -> pop_key path = Some (ppath, k) -> uk2' (st_root st) -> hp (st_root st) -> t_items (st_current st) = [] ->
  exists T0,
    st' = open_table st (st_root st') (Tbl T0 decor_default false false None None) path dec sp false
    /\ uks2 anyk T0 /\ NoDup (map kk T0) /\ all_P hentry T0 /\ tfl [] T0 = []
    /\ lframe (st_root st) (st_root st') /\ uk2' (st_root st') /\ hp (st_root st')
    /\ Permutation (Broot (st_root st') ++ BbI T0 (keys path)) (Broot (st_root st))
    /\ exists par, reach (st_root st') ppath = Some par /\ kv_get (t_items par) (k_key k) = None.
Proof.
  intros H Ep Hur Hhr Hcur. unfold start_table in H. destruct (negb (tbl_is_empty (st_current st))); [discriminate|].
  destruct (st_path st); [|discriminate]. rewrite Ep in H. pose proof (pop_key_some _ _ _ Ep) as Epath.
  assert (Ekeys : keys path = keys ppath ++ [k_key k]) by (rewrite Epath; unfold keys; rewrite map_app; reflexivity).
  match type of H with match with_table_at _ _ _ ?f with _ => _ end = _ => set (F := f) in * end.
  destruct (with_table_at (st_root st) ppath false F) as [[root' taken_]| |] eqn:E; try discriminate. injection H as <-.
  destruct (wta_dctx false _ _ _ _ _ E) as (par & par' & Hfp & Hc).
  destruct (dctx_uk2 anyk _ _ _ _ _ _ Hc (all_anyk _) Hur) as [Hupar Hup']. pose proof Hupar as Hupar0. apply uk2_eq in Hupar as (Hn & Hs).
  destruct (dctx_hp _ _ _ _ _ Hc Hhr) as [Hhpar Hhp']. pose proof Hhpar as Hhpar0. apply hp_eq in Hhpar.
  destruct (dctx_reach _ _ _ _ _ _ Hc) as [Hreach _]. unfold F in Hfp.
  destruct (kv_get (t_items par) (k_key k)) as [[k0 it]|] eqn:G.
  - destruct it as [|v|t|ts asp]; try discriminate. destruct (t_implicit t && negb (t_dotted t)) eqn:Et; [|discriminate].
    injection Hfp as <- <-. apply andb_true_iff in Et as [Eim Edt]. apply negb_true_iff in Edt.
    destruct (uks2_get anyk _ _ _ _ Hs G) as [_ Hut]. cbn [uki2] in Hut. apply uk2_eq in Hut as (Hnt & Hst).
    destruct (nodup_remove _ _ _ _ Hn G) as [Hn' Hg'].
    pose proof (all_P_get _ _ _ _ _ Hhpar G) as (Hht & Hip & Hct). cbn [snd] in Hht, Hip, Hct.
    pose proof (Hip Eim) as Hq. destruct (Hct Edt Hq) as [_ Hno].
    assert (Hnl : tfl [] (t_items t) = []) by (unfold no_lines in Hno; rewrite tflat_tfl in Hno; destruct (tfl [] (t_items t)); [reflexivity|discriminate]).
    assert (Hfr : lframe par (t_set_items par (kv_remove (t_items par) (k_key k))))
      by (apply lframe_set_items; intro q; apply (tfl_remove q _ _ _ _ G); cbn [tflat_item]; rewrite Edt; reflexivity).
    exists (t_items t). cbn [open_table st_root]. split; [destruct t; reflexivity|].
    split; [exact Hst|]. split; [exact Hnt|]. split; [apply hp_eq, Hht|]. split; [exact Hnl|].
    split; [apply (dctx_lframe _ _ _ _ _ Hc Hfr)|]. split; [|split; [|split]].
    + apply Hup'. apply uk2_set_items; [exact Hn'|apply uks2_remove, Hs].
    + apply Hhp'; [|exact Hfr]. apply hp_eq. rewrite t_items_set. apply all_P_remove, Hhpar.
    + rewrite <- (app_nil_r (Broot (st_root st))). apply (Broot_lframe _ _ _ _ (dctx_lframe _ _ _ _ _ Hc Hfr)).
      apply (dctx_permB _ _ _ _ _ Hc Hfr []). cbn [app]. rewrite t_items_set, app_nil_r.
      destruct (kv_get_split _ _ _ _ G) as (A & B & EA & _ & _ & ER). rewrite ER, EA, !BbI_app.
      change (BbI ((k0, ITable t) :: B) (keys ppath)) with (Bb t (keys ppath ++ [k_key k0]) false ++ BbI B (keys ppath)). rewrite Bb_eq.
      unfold own_e. rewrite Edt, Hq. cbn [app]. rewrite (kv_get_some_key _ _ _ _ G), <- Ekeys. rewrite <- !app_assoc. apply Permutation_app_head, Permutation_app_comm.
    + exists (t_set_items par (kv_remove (t_items par) (k_key k))). split; [exact Hreach|]. rewrite t_items_set. exact Hg'.
  - injection Hfp as <- <-. exists []. cbn [st_root].
    split; [unfold open_table; rewrite Hcur; reflexivity|]. split; [constructor|]. split; [constructor|]. split; [exact I|]. split; [reflexivity|].
    split; [apply (dctx_lframe _ _ _ _ _ Hc (lframe_refl par))|]. split; [apply Hup', Hupar0|]. split; [apply Hhp'; [exact Hhpar0|apply lframe_refl]|]. split.
    + cbn [BbI flat_map]. rewrite <- (app_nil_r (Broot (st_root st))).
      apply (Broot_lframe _ _ _ _ (dctx_lframe _ _ _ _ _ Hc (lframe_refl par))). apply (dctx_permB _ _ _ _ _ Hc (lframe_refl par) []). reflexivity.
    + exists par. split; [exact Hreach|exact G].
Qed.

(* ---- start_array_table ---------------------------------------------------------------------------------------------------- *)
Lemma start_array_B st path dec sp st' ppath k :
  start_array_table st path dec sp = COk st' -> pop_key path = Some (ppath, k) -> uk2' (st_root st) -> hp (st_root st) ->
  st' = open_table st (st_root st') (st_current st) path dec sp true
  /\ lframe (st_root st) (st_root st') /\ uk2' (st_root st') /\ hp (st_root st')
  /\ Permutation (Broot (st_root st')) (Broot (st_root st)).
Proof.
  intros H Ep Hur Hhr. unfold start_array_table in H. destruct (negb (tbl_is_empty (st_current st))); [discriminate|].
  destruct (st_path st); [|discriminate]. rewrite Ep in H.
  match type of H with match with_table_at _ _ _ ?f with _ => _ end = _ => set (F := f) in * end.
  destruct (with_table_at (st_root st) ppath false F) as [[root' u]| |] eqn:E; try discriminate. injection H as <-.
  destruct (wta_dctx false _ _ _ _ _ E) as (par & par' & Hfp & Hc).
  destruct (dctx_uk2 anyk _ _ _ _ _ _ Hc (all_anyk _) Hur) as [Hupar Hup']. pose proof Hupar as Hupar0. apply uk2_eq in Hupar as (Hn & Hs).
  destruct (dctx_hp _ _ _ _ _ Hc Hhr) as [Hhpar Hhp']. pose proof Hhpar as Hhpar0. apply hp_eq in Hhpar.
  unfold F in Hfp. cbn [open_table st_root]. split; [reflexivity|].
  destruct (kv_get (t_items par) (k_key k)) as [[k0 it]|] eqn:G.
  - destruct it as [|v|t|ts asp]; try discriminate. injection Hfp as <-.
    split; [apply (dctx_lframe _ _ _ _ _ Hc (lframe_refl par))|]. split; [apply Hup', Hupar0|]. split; [apply Hhp'; [exact Hhpar0|apply lframe_refl]|].
    rewrite <- (app_nil_r (Broot root')), <- (app_nil_r (Broot (st_root st))).
    apply (Broot_lframe _ _ _ _ (dctx_lframe _ _ _ _ _ Hc (lframe_refl par))). apply (dctx_permB _ _ _ _ _ Hc (lframe_refl par) []). reflexivity.
  - injection Hfp as <-.
    assert (Hfr : lframe par (t_set_items par (kv_push (t_items par) k (IAot [] None)))) by (apply lframe_set_items; intro q; apply tfl_push; reflexivity).
    split; [apply (dctx_lframe _ _ _ _ _ Hc Hfr)|]. split; [|split].
    + apply Hup'. apply uk2_set_items; [apply nodup_push; assumption|].
      apply uks2_push; [exact Hs|intros _; exact I|]. apply uki2_aot. constructor.
    + apply Hhp'; [|exact Hfr]. apply hp_eq. rewrite t_items_set. apply all_P_push; [exact Hhpar|]. exact I.
    + rewrite <- (app_nil_r (Broot root')), <- (app_nil_r (Broot (st_root st))).
      apply (Broot_lframe _ _ _ _ (dctx_lframe _ _ _ _ _ Hc Hfr)). apply (dctx_permB _ _ _ _ _ Hc Hfr []). cbn [app].
      rewrite t_items_set. unfold kv_push. rewrite BbI_app. unfold BbI at 2. cbn [flat_map Bit snd app]. rewrite !app_nil_r. reflexivity.
Qed.
