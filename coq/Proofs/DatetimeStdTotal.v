(* Proofs/DatetimeStdTotal.v — C04 for the standalone date-time parser and printer
   (crates/toml_datetime/src/datetime.rs), on the checked model Model/DatetimeStdChk.v:
     chk_refines          wherever the checked model does not panic it returns what Model/DatetimeStd.v returns
     frac_loop_safe       the fraction loop with bound `b` and top exponent `e` reaches no overflow site
                          whenever b <= e + 1 and e <= 8   (the source has b = 9, e = 8)
     from_str_chk_panics  for EVERY byte string the only reachable site is the slice `whole[end..]`, and only if
                          the bytes are not UTF-8
     from_str_chk_total   for every &str (valid UTF-8) no site is reachable
     display_chk_total / display_chk_refuted   Display reaches a site exactly for Offset::Custom { minutes: i16::MIN } *)
From TV Require Import Base.Prelude Base.Utf8 Gen.Consts Model.Datetime Model.DatetimeStd Model.DatetimeStdChk.
Require Import Lia ZifyBool ZifyN ZifyNat.

(* ------------------------------------------------------------------------------------------ *)
(* bytes                                                                                      *)
(* ------------------------------------------------------------------------------------------ *)
Definition ascii_b (b : byte) : bool := (b2n b <=? 127)%N.

Lemma digit_range : forall b, is_digit b = true -> (48 <= b2n b <= 57)%N.
Proof. intros b H. unfold is_digit in H. lia. Qed.
Lemma digit_ascii : forall b, is_digit b = true -> ascii_b b = true.
Proof. intros b H. apply digit_range in H. unfold ascii_b. lia. Qed.
Lemma eqb_ascii : forall b c, byte_eqb b c = true -> ascii_b c = true -> ascii_b b = true.
Proof. intros b c H Hc. apply byte_eqb_eq in H. subst. exact Hc. Qed.

Lemma utf8_cons_ascii : forall b s, ascii_b b = true -> utf8_valid_b (b :: s) = utf8_valid_b s.
Proof. intros b s H. cbn [utf8_valid_b]. unfold ascii_b in H. rewrite H. reflexivity. Qed.

Lemma valid_head_not_cont : forall b s, utf8_valid_b (b :: s) = true -> is_cont b = false.
Proof.
  intros b s H. cbn [utf8_valid_b] in H. cbv zeta in H. unfold is_cont.
  destruct (b2n b <=? 127)%N eqn:E0; [lia|].
  destruct (inr 194 223 b) eqn:E1; [unfold inr in E1; lia|].
  destruct (inr 224 239 b) eqn:E2; [unfold inr in E2; lia|].
  destruct (inr 240 244 b) eqn:E3; [unfold inr in E3; lia|discriminate].
Qed.

(* r is what remains of s after an all-ASCII prefix *)
Definition apre (s r : bytes) : Prop := exists pre, s = pre ++ r /\ forallb ascii_b pre = true.

Lemma apre_refl : forall s, apre s s.
Proof. intro s. exists []. split; reflexivity. Qed.
Lemma apre_cons : forall b s r, ascii_b b = true -> apre s r -> apre (b :: s) r.
Proof. intros b s r Hb [pre [-> Hp]]. exists (b :: pre). split; [reflexivity|]. cbn [forallb]. rewrite Hb. exact Hp. Qed.
Lemma apre_trans : forall a b c, apre a b -> apre b c -> apre a c.
Proof.
  intros a b c [p1 [-> H1]] [p2 [-> H2]]. exists (p1 ++ p2). split; [apply app_assoc|].
  rewrite forallb_app, H1, H2. reflexivity.
Qed.
Lemma apre_valid : forall s r, apre s r -> utf8_valid_b s = true -> utf8_valid_b r = true.
Proof.
  intros s r [pre [-> Hp]]. induction pre as [|b pre IH]; intro H; [exact H|].
  cbn [forallb] in Hp. apply andb_true_iff in Hp as [Hb Hp]. cbn [app] in H. rewrite (utf8_cons_ascii b _ Hb) in H.
  apply IH; assumption.
Qed.

(* ------------------------------------------------------------------------------------------ *)
(* the primitive cursors against Model/DatetimeStd.v                                          *)
(* ------------------------------------------------------------------------------------------ *)
Lemma cdigit_eq : forall s, cdigit s = Done (sdigit s).
Proof.
  intros [|b r]; [reflexivity|]. unfold cdigit, sdigit. destruct (is_digit b) eqn:E; [|reflexivity].
  apply digit_range in E. unfold usub. replace (48 <=? b2n b)%N with true by lia. reflexivity.
Qed.
Lemma cexpect_eq : forall c s, cexpect c s = Done (sexpect c s).
Proof. intros c [|b r]; [reflexivity|]. unfold cexpect, sexpect. destruct (byte_eqb b c); reflexivity. Qed.
Lemma cpeek_eq : forall s, cpeek s = Done (speek s).
Proof. reflexivity. Qed.
Lemma cnext_eq : forall s, cnext s = Done (snext s).
Proof. reflexivity. Qed.

Lemma sdigit_some : forall s v r, sdigit s = Some (v, r) ->
  exists b, s = b :: r /\ is_digit b = true /\ v = digit_val b /\ (v <= 9)%N.
Proof.
  intros [|b s] v r H; [discriminate|]. unfold sdigit in H. destruct (is_digit b) eqn:E; [|discriminate].
  injection H as <- <-. exists b. pose proof (digit_range b E). unfold digit_val. repeat split; try assumption; lia.
Qed.
Lemma sexpect_some : forall c s u r, sexpect c s = Some (u, r) -> s = c :: r.
Proof.
  intros c [|b s] u r H; [discriminate|]. unfold sexpect in H. destruct (byte_eqb b c) eqn:E; [|discriminate].
  apply byte_eqb_eq in E. subst. injection H as _ <-. reflexivity.
Qed.

(* two decimal digits never leave u8 / i16, four never leave u16 *)
Lemma two_u8_done : forall a b, (a <= 9)%N -> (b <= 9)%N -> two_u8 a b = Done (a * 10 + b)%N.
Proof.
  intros a b Ha Hb. unfold two_u8, umul, uadd, cbind, U8_MAX.
  replace (a * 10 <=? 255)%N with true by lia. replace (a * 10 + b <=? 255)%N with true by lia. reflexivity.
Qed.

Lemma year_done : forall y1 y2 y3 y4, (y1 <= 9)%N -> (y2 <= 9)%N -> (y3 <= 9)%N -> (y4 <= 9)%N ->
  cbind (umul U16_MAX PYearMul y1 1000) (fun a =>
  cbind (umul U16_MAX PYearMul y2 100) (fun b =>
  cbind (uadd U16_MAX PYearAdd a b) (fun ab =>
  cbind (umul U16_MAX PYearMul y3 10) (fun c =>
  cbind (uadd U16_MAX PYearAdd ab c) (fun abc =>
  uadd U16_MAX PYearAdd abc y4))))) = Done (y1 * 1000 + y2 * 100 + y3 * 10 + y4)%N.
Proof.
  intros y1 y2 y3 y4 H1 H2 H3 H4. unfold umul, uadd, cbind, U16_MAX.
  replace (y1 * 1000 <=? 65535)%N with true by lia. replace (y2 * 100 <=? 65535)%N with true by lia.
  replace (y1 * 1000 + y2 * 100 <=? 65535)%N with true by lia. replace (y3 * 10 <=? 65535)%N with true by lia.
  replace (y1 * 1000 + y2 * 100 + y3 * 10 <=? 65535)%N with true by lia.
  replace (y1 * 1000 + y2 * 100 + y3 * 10 + y4 <=? 65535)%N with true by lia. reflexivity.
Qed.

Lemma two_i16_done : forall a b, (a <= 9)%N -> (b <= 9)%N ->
  cbind (imul POffMul (Z.of_N a) 10) (fun t => iadd POffAdd t (Z.of_N b)) = Done (Z.of_N (a * 10 + b)).
Proof.
  intros a b Ha Hb. unfold imul, iadd, cbind, in_i16, I16_MIN, I16_MAX.
  replace ((-32768 <=? Z.of_N a * 10) && (Z.of_N a * 10 <=? 32767))%Z with true by lia.
  replace ((-32768 <=? Z.of_N a * 10 + Z.of_N b) && (Z.of_N a * 10 + Z.of_N b <=? 32767))%Z with true by lia.
  f_equal. lia.
Qed.

(* ------------------------------------------------------------------------------------------ *)
(* the date: never panics, equals std_date, consumes ASCII                                    *)
(* ------------------------------------------------------------------------------------------ *)
Ltac step_digit H :=
  match goal with
  | |- context [sdigit ?x] =>
    let v := fresh "v" in let r := fresh "r" in let E := fresh "E" in
    destruct (sdigit x) as [[v r]|] eqn:E; [apply sdigit_some in E as [? [-> [? [-> ?]]]]|try exact H]
  end.
Ltac step_expect c H :=
  match goal with
  | |- context [sexpect c ?x] =>
    let u := fresh "u" in let r := fresh "r" in let E := fresh "E" in
    destruct (sexpect c x) as [[u r]|] eqn:E; [apply sexpect_some in E as ->|try exact H]
  end.

Lemma date_chk_eq : forall s, date_chk s = Done (std_date s).
Proof.
  intro s. unfold date_chk, std_date, two, cpbind, sbind, sret, sfail, cfail, cret. rewrite !cdigit_eq.
  assert (HN : Done (@None (date * bytes)) = Done None) by reflexivity.
  step_digit HN. rewrite cdigit_eq. step_digit HN. rewrite cdigit_eq. step_digit HN. rewrite cdigit_eq. step_digit HN.
  rewrite cexpect_eq. step_expect dash HN. rewrite cdigit_eq. step_digit HN. rewrite cdigit_eq. step_digit HN.
  rewrite cexpect_eq. step_expect dash HN. rewrite cdigit_eq. step_digit HN. rewrite cdigit_eq. step_digit HN.
  unfold clift. rewrite year_done by assumption. rewrite !two_u8_done by assumption.
  destruct (_ || _); [exact HN|]. destruct (_ || _); [exact HN|]. reflexivity.
Qed.

Lemma std_date_apre : forall s d r, std_date s = Some (d, r) -> apre s r.
Proof.
  intros s d r H. unfold std_date, two, sbind, sret, sfail in H.
  repeat match type of H with
         | context [sdigit ?x] =>
           let E := fresh "E" in destruct (sdigit x) as [[? ?]|] eqn:E; [apply sdigit_some in E as [? [-> [? [-> ?]]]]|discriminate H]
         | context [sexpect dash ?x] =>
           let E := fresh "E" in destruct (sexpect dash x) as [[? ?]|] eqn:E; [apply sexpect_some in E as ->|discriminate H]
         end.
  destruct (_ || _) in H; [discriminate|]. destruct (_ || _) in H; [discriminate|]. injection H as _ <-.
  repeat (apply apre_cons; [first [apply digit_ascii; assumption|reflexivity]|]). apply apre_refl.
Qed.

(* ------------------------------------------------------------------------------------------ *)
(* the fraction loop                                                                          *)
(* ------------------------------------------------------------------------------------------ *)
Lemma pow10_succ : forall k, (10 ^ N.of_nat (S k) = 10 * 10 ^ N.of_nat k)%N.
Proof. intro k. rewrite Nat2N.inj_succ, N.pow_succ_r'. reflexivity. Qed.

(* with bound <= top + 1 and top <= 8 no arithmetic site is reachable, whatever the digits *)
Lemma frac_loop_safe : forall bound top, bound <= S top -> top <= 8 ->
  forall s i acc, (i <= bound -> (acc + 10 ^ N.of_nat (S top - i) <= 10 ^ N.of_nat (S top))%N) ->
  exists acc' e ds rest,
    frac_loop_chk bound top i acc s = Done (acc', e, rest) /\ s = ds ++ rest /\ forallb is_digit ds = true
    /\ e = i + List.length ds /\ match rest with b :: _ => is_digit b = false | [] => True end.
Proof.
  intros bound top Hb Ht. induction s as [|b s IH]; intros i acc Hinv.
  - exists acc, i, [], []. cbn. repeat split; try lia.
  - cbn [frac_loop_chk]. destruct (is_digit b) eqn:Ed.
    2:{ exists acc, i, [], (b :: s). cbn. repeat split; try lia; try exact Ed. }
    assert (Hnext : forall acc', (S i <= bound -> (acc' + 10 ^ N.of_nat (S top - S i) <= 10 ^ N.of_nat (S top))%N) ->
              exists acc'' e ds rest,
                frac_loop_chk bound top (S i) acc' s = Done (acc'', e, rest) /\ b :: s = ds ++ rest
                /\ forallb is_digit ds = true /\ e = i + List.length ds
                /\ match rest with b0 :: _ => is_digit b0 = false | [] => True end).
    { intros acc' H'. destruct (IH (S i) acc' H') as [a2 [e [ds [rest [E1 [E2 [E3 [E4 E5]]]]]]]].
      exists a2, e, (b :: ds), rest. cbn [app forallb List.length]. rewrite Ed, E3. subst s. repeat split; try assumption; lia. }
    destruct (Nat.ltb i bound) eqn:El.
    + apply Nat.ltb_lt in El. specialize (Hinv ltac:(lia)).
      pose proof (digit_range b Ed) as Hd.
      assert (Hi : (N.of_nat i mod 4294967296 = N.of_nat i)%N) by (apply N.mod_small; lia).
      replace (S top - i) with (S (top - i)) in Hinv by lia. rewrite pow10_succ in Hinv.
      assert (Hp9 : (10 ^ N.of_nat (S top) <= 10 ^ 9)%N) by (apply N.pow_le_mono_r; lia).
      change (10 ^ 9)%N with 1000000000%N in Hp9.
      assert (He : (N.of_nat top - N.of_nat i = N.of_nat (top - i))%N) by lia.
      unfold usub, upow, umul, uadd, cbind, U32_MAX. rewrite Hi.
      replace (N.of_nat i <=? N.of_nat top)%N with true by lia. rewrite He.
      set (P := (10 ^ N.of_nat (top - i))%N) in *.
      replace (P <=? 4294967295)%N with true by lia.
      replace (48 <=? b2n b)%N with true by lia.
      replace (P * (b2n b - 48) <=? 4294967295)%N with true by nia.
      replace (acc + P * (b2n b - 48) <=? 4294967295)%N with true by nia.
      apply Hnext. intros _. replace (S top - S i) with (top - i) by lia. fold P. nia.
    + apply Nat.ltb_ge in El. apply Hnext. intro H. lia.
Qed.

(* against the unchecked loop, for the bound and exponent it has built in *)
Lemma frac_loop_refines : forall s i acc x, frac_loop_chk 9 8 i acc s = Done x -> frac_loop i acc s = x.
Proof.
  induction s as [|b s IH]; intros i acc x H; cbn [frac_loop_chk frac_loop] in *; [injection H as <-; reflexivity|].
  destruct (is_digit b) eqn:Ed; [|injection H as <-; reflexivity].
  destruct (Nat.ltb i 9) eqn:El; [|apply IH; exact H].
  apply Nat.ltb_lt in El.
  assert (Hi : (N.of_nat i mod 4294967296 = N.of_nat i)%N) by (apply N.mod_small; lia).
  unfold usub, upow, umul, uadd, cbind in H. rewrite Hi in H.
  destruct (N.of_nat i <=? N.of_nat 8)%N; [|discriminate].
  destruct (10 ^ (N.of_nat 8 - N.of_nat i) <=? U32_MAX)%N; [|discriminate].
  destruct (48 <=? b2n b)%N; [|discriminate].
  destruct (_ <=? U32_MAX)%N; [|discriminate]. destruct (_ <=? U32_MAX)%N; [|discriminate].
  apply IH in H. exact H.
Qed.

(* ------------------------------------------------------------------------------------------ *)
(* the time                                                                                   *)
(* ------------------------------------------------------------------------------------------ *)
(* what a checked cursor may do on input s: fail, return with an ASCII prefix consumed, or stop at the slice
   on bytes that are not UTF-8 *)
Definition safe_on {A} (s : bytes) (r : chk (option (A * bytes))) : Prop :=
  match r with
  | Panic site => site = PSlice /\ utf8_valid_b s = false
  | Done None => True
  | Done (Some (_, rest)) => apre s rest
  end.

Ltac sdn b :=
  match goal with
  | |- context [sdigit ?x] =>
    let E := fresh "E" in
    destruct (sdigit x) as [[? ?]|] eqn:E; [apply sdigit_some in E as [b [-> [? [-> ?]]]]|cbv beta iota; try exact I; try reflexivity]
  end.
Ltac se c :=
  match goal with
  | |- context [sexpect c ?x] =>
    let E := fresh "E" in
    destruct (sexpect c x) as [[? ?]|] eqn:E; [apply sexpect_some in E as ->|cbv beta iota; try exact I; try reflexivity]
  end.

Lemma time_chk_safe : forall bound top, bound <= S top -> top <= 8 -> forall s, safe_on s (time_chk bound top s).
Proof.
  intros bound top Hb Ht s. unfold time_chk, cpbind. rewrite cdigit_eq. sdn x. rewrite cdigit_eq. sdn x0. rewrite cexpect_eq. se colon.
  rewrite cdigit_eq. sdn x1. rewrite cdigit_eq. sdn x2. rewrite cexpect_eq. se colon. rewrite cdigit_eq. sdn x3. rewrite cdigit_eq. sdn x4.
  match goal with |- safe_on (_ :: _ :: _ :: _ :: _ :: _ :: _ :: _ :: ?R) _ => rename R into rest0 end.
  (* the eight bytes read so far *)
  match goal with |- safe_on ?S _ => set (s0 := S) end.
  assert (Hpre : apre s0 rest0).
  { unfold s0. repeat (apply apre_cons; [first [apply digit_ascii; assumption|reflexivity]|]). apply apre_refl. }
  assert (Hfin : forall ns r, apre s0 r ->
            safe_on s0 ((h <-- clift (two_u8 (digit_val x) (digit_val x0)) ;;
                         mi <-- clift (two_u8 (digit_val x1) (digit_val x2)) ;;
                         sec <-- clift (two_u8 (digit_val x3) (digit_val x4)) ;;
                         if (SD_HOUR_MAX <? h)%N then cfail
                         else if (SD_MINUTE_MAX <? mi)%N then cfail
                         else if (SD_SECOND_MAX <? sec)%N then cfail
                         else if (SD_NANO_MAX <? ns)%N then cfail
                         else cret (mkTime h mi sec ns)) r)).
  { intros ns r Hr. unfold cpbind, clift. rewrite !two_u8_done by assumption.
    destruct (_ <? _)%N; [exact I|]. destruct (_ <? _)%N; [exact I|]. destruct (_ <? _)%N; [exact I|]. destruct (_ <? _)%N; [exact I|].
    exact Hr. }
  cbn [cpeek]. destruct rest0 as [|b rest1]; [apply Hfin; exact Hpre|].
  destruct (byte_eqb b dot) eqn:Edot; [|apply Hfin; exact Hpre].
  cbn [cnext tl]. apply byte_eqb_eq in Edot. subst b.
  destruct (frac_loop_safe bound top Hb Ht rest1 0 0%N) as [acc [e [ds [rest [EL [Es [Hds [He Hrest]]]]]]]].
  { intros _. rewrite Nat.sub_0_r. lia. }
  rewrite EL. destruct (Nat.eqb e 0); [exact I|].
  assert (Hpre2 : apre s0 rest).
  { eapply apre_trans; [exact Hpre|]. exists (dot :: ds). split; [cbn [app]; rewrite Es; reflexivity|].
    cbn [forallb]. change (ascii_b dot) with true. cbn [andb].
    clear -Hds. induction ds as [|d ds IH]; [reflexivity|]. cbn [forallb] in *. apply andb_true_iff in Hds as [Hd Hds].
    rewrite (digit_ascii d Hd). apply IH. exact Hds. }
  unfold slice_from. destruct rest as [|b2 rest2]; [apply Hfin; exact Hpre2|].
  destruct (is_cont b2) eqn:Ec; [|apply Hfin; exact Hpre2].
  cbn [safe_on]. split; [reflexivity|].
  destruct (utf8_valid_b s0) eqn:Ev; [|reflexivity].
  pose proof (apre_valid _ _ Hpre2 Ev) as Hv. apply valid_head_not_cont in Hv. congruence.
Qed.

Lemma time_chk_refines : forall s res, time_chk 9 8 s = Done res -> std_time s = res.
Proof.
  intros s res. unfold time_chk, std_time, two, cpbind, sbind, sret, sfail, cfail, cret.
  rewrite cdigit_eq. sdn x; [|congruence]. rewrite cdigit_eq. sdn x0; [|congruence]. rewrite cexpect_eq. se colon; [|congruence].
  rewrite cdigit_eq. sdn x1; [|congruence]. rewrite cdigit_eq. sdn x2; [|congruence]. rewrite cexpect_eq. se colon; [|congruence].
  rewrite cdigit_eq. sdn x3; [|congruence]. rewrite cdigit_eq. sdn x4; [|congruence].
  unfold clift. rewrite !two_u8_done by assumption.
  cbn [cpeek speek].
  match goal with |- context [match ?R with [] => None | _ :: _ => _ end] => destruct R as [|b rest1] end.
  - intro HH. destruct (_ <? _)%N; [congruence|]. destruct (_ <? _)%N; [congruence|]. destruct (_ <? _)%N; [congruence|].
    destruct (_ <? _)%N; congruence.
  - destruct (byte_eqb b dot).
    + cbn [cnext snext tl].
      destruct (frac_loop_chk 9 8 0 0%N rest1) as [[[acc e] rest]|site] eqn:EL; [|discriminate].
      rewrite (frac_loop_refines _ _ _ _ EL).
      destruct (Nat.eqb e 0); [congruence|].
      destruct (slice_from rest) as [r'|site] eqn:Esl; [|discriminate].
      assert (r' = rest) by (unfold slice_from in Esl; destruct rest as [|b2 ?]; [congruence|destruct (is_cont b2); congruence]). subst r'.
      intro HH. destruct (_ <? _)%N; [congruence|]. destruct (_ <? _)%N; [congruence|]. destruct (_ <? _)%N; [congruence|].
      destruct (_ <? _)%N; congruence.
    + intro HH. destruct (_ <? _)%N; [congruence|]. destruct (_ <? _)%N; [congruence|]. destruct (_ <? _)%N; [congruence|].
      destruct (_ <? _)%N; congruence.
Qed.

(* ------------------------------------------------------------------------------------------ *)
(* the offset: two decimal digits each, so hours * 60 + minutes <= 99 * 60 + 99 whatever the range checks say *)
(* ------------------------------------------------------------------------------------------ *)
Lemma total_done : forall sign H M, (sign = 1 \/ sign = -1)%Z -> (H <= 99)%N -> (M <= 99)%N ->
  cbind (imul POffMul (Z.of_N H) 60) (fun t => cbind (iadd POffAdd t (Z.of_N M)) (fun u => imul POffMul sign u))
  = Done (sign * Z.of_N (H * 60 + M))%Z.
Proof.
  intros sign H M Hs HH HM. unfold imul, iadd, cbind, in_i16, I16_MIN, I16_MAX.
  replace ((-32768 <=? Z.of_N H * 60) && (Z.of_N H * 60 <=? 32767))%Z with true by lia.
  replace ((-32768 <=? Z.of_N H * 60 + Z.of_N M) && (Z.of_N H * 60 + Z.of_N M <=? 32767))%Z with true by lia.
  replace ((-32768 <=? sign * (Z.of_N H * 60 + Z.of_N M)) && (sign * (Z.of_N H * 60 + Z.of_N M) <=? 32767))%Z with true by lia.
  f_equal. lia.
Qed.

Lemma ltb_N2Z : forall a b, (Z.of_N a <? Z.of_N b)%Z = (a <? b)%N.
Proof. intros a b. destruct (a <? b)%N eqn:E; lia. Qed.

Lemma offset_chk_eq : forall s, offset_chk s = Done (std_offset s).
Proof.
  intro s. unfold offset_chk, std_offset, two, cpbind, sbind, sret, sfail, cfail, cret. cbn [cpeek speek].
  destruct s as [|b r]; [reflexivity|].
  destruct (byte_eqb b x5a || byte_eqb b x7a); [reflexivity|].
  assert (Hsign : forall sign, (sign = 1 \/ sign = -1)%Z ->
    match cnext (b :: r) with
    | Done (Some (_, r0)) =>
        match cdigit r0 with
        | Done (Some (a0, r1)) =>
            match cdigit r1 with
            | Done (Some (a1, r2)) =>
                match cexpect colon r2 with
                | Done (Some (_, r3)) =>
                    match cdigit r3 with
                    | Done (Some (a3, r4)) =>
                        match cdigit r4 with
                        | Done (Some (a4, r5)) =>
                            match clift (cbind (imul POffMul (Z.of_N a0) 10) (fun t : Z => iadd POffAdd t (Z.of_N a1))) r5 with
                            | Done (Some (a5, r6)) =>
                                match clift (cbind (imul POffMul (Z.of_N a3) 10) (fun t : Z => iadd POffAdd t (Z.of_N a4))) r6 with
                                | Done (Some (a6, r7)) =>
                                    (if (Z.of_N SD_OFFSET_HOUR_MAX <? a5)%Z || (Z.of_N SD_OFFSET_MINUTE_MAX <? a6)%Z
                                     then fun _ : bytes => Done None
                                     else
                                      fun s0 : bytes =>
                                      match clift (cbind (imul POffMul a5 60) (fun t : Z => cbind (iadd POffAdd t a6) (fun u : Z => imul POffMul sign u))) s0 with
                                      | Done (Some (a7, r8)) =>
                                          (if (SD_OFFSET_MIN <=? a7)%Z && (a7 <=? SD_OFFSET_MAX)%Z
                                           then fun s1 : bytes => Done (Some (Some (OffCustom a7), s1))
                                           else fun _ : bytes => Done None) r8
                                      | Done None => Done None
                                      | Panic x => Panic x
                                      end) r7
                                | Done None => Done None
                                | Panic x => Panic x
                                end
                            | Done None => Done None
                            | Panic x => Panic x
                            end
                        | Done None => Done None
                        | Panic x => Panic x
                        end
                    | Done None => Done None
                    | Panic x => Panic x
                    end
                | Done None => Done None
                | Panic x => Panic x
                end
            | Done None => Done None
            | Panic x => Panic x
            end
        | Done None => Done None
        | Panic x => Panic x
        end
    | Done None => Done None
    | Panic x => Panic x
    end =
    Done
      match snext (b :: r) with
      | Some (_, r0) =>
          match match sdigit r0 with
                | Some (a0, r1) => match sdigit r1 with Some (a1, r2) => Some ((a0 * 10 + a1)%N, r2) | None => None end
                | None => None
                end with
          | Some (a0, r1) =>
              match sexpect colon r1 with
              | Some (_, r2) =>
                  match match sdigit r2 with
                        | Some (a2, r3) => match sdigit r3 with Some (a3, r4) => Some ((a2 * 10 + a3)%N, r4) | None => None end
                        | None => None
                        end with
                  | Some (a2, r3) =>
                      (if (SD_OFFSET_HOUR_MAX <? a0)%N || (SD_OFFSET_MINUTE_MAX <? a2)%N
                       then fun _ : bytes => None
                       else
                        if (SD_OFFSET_MIN <=? sign * Z.of_N (a0 * 60 + a2))%Z && (sign * Z.of_N (a0 * 60 + a2) <=? SD_OFFSET_MAX)%Z
                        then fun s0 : bytes => Some (Some (OffCustom (sign * Z.of_N (a0 * 60 + a2))), s0)
                        else fun _ : bytes => None) r3
                  | None => None
                  end
              | None => None
              end
          | None => None
          end
      | None => None
      end).
  { intros sign Hs. cbn [cnext snext tl]. rewrite cdigit_eq. sdn h1. rewrite cdigit_eq. sdn h2. rewrite cexpect_eq. se colon.
    rewrite cdigit_eq. sdn m1. rewrite cdigit_eq. sdn m2.
    unfold clift. rewrite !two_i16_done by assumption. rewrite !ltb_N2Z.
    destruct (_ || _); [reflexivity|]. rewrite total_done by (try assumption; lia). destruct (_ && _); reflexivity. }
  destruct (byte_eqb b plus); [apply Hsign; lia|]. destruct (byte_eqb b dash); [apply Hsign; lia|]. reflexivity.
Qed.

Lemma std_offset_apre : forall s o r, std_offset s = Some (o, r) -> apre s r.
Proof.
  intros s o r H. unfold std_offset, two, sbind, sret, sfail in H. cbn [speek] in H.
  destruct s as [|b s']; [injection H as _ <-; apply apre_refl|].
  destruct (byte_eqb b x5a || byte_eqb b x7a) eqn:Ez.
  - cbn [snext tl] in H. injection H as _ <-. apply apre_cons; [|apply apre_refl].
    apply orb_true_iff in Ez as [Ez|Ez]; eapply eqb_ascii; try exact Ez; reflexivity.
  - assert (Hb : ascii_b b = true \/ (byte_eqb b plus = false /\ byte_eqb b dash = false)).
    { destruct (byte_eqb b plus) eqn:E1; [left; eapply eqb_ascii; [exact E1|reflexivity]|].
      destruct (byte_eqb b dash) eqn:E2; [left; eapply eqb_ascii; [exact E2|reflexivity]|]. right. split; reflexivity. }
    destruct Hb as [Hb|[E1 E2]]; [|rewrite E1, E2 in H; discriminate].
    assert (Hgen : forall sign,
      match snext (b :: s') with
      | Some (_, r0) =>
          match match sdigit r0 with
                | Some (a0, r1) => match sdigit r1 with Some (a1, r2) => Some ((a0 * 10 + a1)%N, r2) | None => None end
                | None => None
                end with
          | Some (a0, r1) =>
              match sexpect colon r1 with
              | Some (_, r2) =>
                  match match sdigit r2 with
                        | Some (a2, r3) => match sdigit r3 with Some (a3, r4) => Some ((a2 * 10 + a3)%N, r4) | None => None end
                        | None => None
                        end with
                  | Some (a2, r3) =>
                      (if (SD_OFFSET_HOUR_MAX <? a0)%N || (SD_OFFSET_MINUTE_MAX <? a2)%N
                       then fun _ : bytes => None
                       else
                        if (SD_OFFSET_MIN <=? sign * Z.of_N (a0 * 60 + a2))%Z && (sign * Z.of_N (a0 * 60 + a2) <=? SD_OFFSET_MAX)%Z
                        then fun s0 : bytes => Some (Some (OffCustom (sign * Z.of_N (a0 * 60 + a2))), s0)
                        else fun _ : bytes => None) r3
                  | None => None
                  end
              | None => None
              end
          | None => None
          end
      | None => None
      end = Some (o, r) -> apre (b :: s') r).
    { intros sign HH. cbn [snext tl] in HH.
      repeat match type of HH with
             | context [sdigit ?x] =>
               let E := fresh "E" in destruct (sdigit x) as [[? ?]|] eqn:E; [apply sdigit_some in E as [? [-> [? [-> ?]]]]|discriminate HH]
             | context [sexpect colon ?x] =>
               let E := fresh "E" in destruct (sexpect colon x) as [[? ?]|] eqn:E; [apply sexpect_some in E as ->|discriminate HH]
             end.
      destruct (_ || _) in HH; [discriminate|]. destruct (_ && _) in HH; [|discriminate]. injection HH as _ <-.
      apply apre_cons; [exact Hb|]. repeat (apply apre_cons; [first [apply digit_ascii; assumption|reflexivity]|]). apply apre_refl. }
    destruct (byte_eqb b plus); [exact (Hgen _ H)|]. destruct (byte_eqb b dash); [exact (Hgen _ H)|]. discriminate.
Qed.

(* ------------------------------------------------------------------------------------------ *)
(* Datetime::from_str                                                                         *)
(* ------------------------------------------------------------------------------------------ *)
Lemma apre_invalid : forall s r, apre s r -> utf8_valid_b r = false -> utf8_valid_b s = false.
Proof.
  intros s r H Hr. destruct (utf8_valid_b s) eqn:E; [|reflexivity]. rewrite (apre_valid s r H E) in Hr. discriminate.
Qed.

Theorem from_str_chk_with_panics : forall bound top, bound <= S top -> top <= 8 ->
  forall s site, from_str_chk_with bound top s = Panic site -> site = PSlice /\ utf8_valid_b s = false.
Proof.
  intros bound top Hb Ht s site. unfold from_str_chk_with.
  destruct (Nat.ltb (List.length s) SD_MIN_LEN); [discriminate|]. cbv zeta.
  destruct (match nth_error s 2 with Some b => byte_eqb b colon | None => false end).
  - unfold cpbind. pose proof (time_chk_safe bound top Hb Ht s) as Hs.
    destruct (time_chk bound top s) as [[[t r]|]|site'].
    + unfold cret. destruct r; discriminate.
    + discriminate.
    + intro H. injection H as <-. exact Hs.
  - unfold cpbind. rewrite date_chk_eq. destruct (std_date s) as [[d r]|] eqn:Ed; [|discriminate].
    pose proof (std_date_apre s d r Ed) as Hpre. cbn [cpeek].
    destruct r as [|b r']; [unfold cret; discriminate|].
    destruct (byte_eqb b x54 || byte_eqb b x74 || byte_eqb b x20) eqn:Edel; [|unfold cret; discriminate].
    cbn [cnext tl].
    assert (Hb' : ascii_b b = true).
    { apply orb_true_iff in Edel as [Edel|Edel]; [apply orb_true_iff in Edel as [Edel|Edel]|];
        eapply eqb_ascii; try exact Edel; reflexivity. }
    assert (Hpre' : apre s r').
    { eapply apre_trans; [exact Hpre|]. apply apre_cons; [exact Hb'|apply apre_refl]. }
    pose proof (time_chk_safe bound top Hb Ht r') as Hs.
    destruct (time_chk bound top r') as [[[t r2]|]|site'].
    + rewrite offset_chk_eq. destruct (std_offset r2) as [[o r3]|]; [unfold cret; destruct r3; discriminate|discriminate].
    + discriminate.
    + intro H. injection H as <-. destruct Hs as [-> Hinv]. split; [reflexivity|]. exact (apre_invalid s r' Hpre' Hinv).
Qed.

(* every byte string: only the slice site, and only on bytes that are not UTF-8 *)
Theorem from_str_chk_panics : forall s site, from_str_chk s = Panic site -> site = PSlice /\ utf8_valid_b s = false.
Proof.
  intros s site. unfold from_str_chk.
  (* the two side conditions are COMPUTED from the constants: a changed bound or exponent in the source
     (FRAC_DIGITS / FRAC_TOP_EXP, to be the generated SD_FRAC_DIGITS / SD_FRAC_TOP_EXP) breaks this proof *)
  apply from_str_chk_with_panics; apply Nat.leb_le; reflexivity.
Qed.

(* every &str: no site at all *)
Theorem from_str_chk_total : forall s, utf8_valid_b s = true -> forall site, from_str_chk s <> Panic site.
Proof. intros s Hv site H. apply from_str_chk_panics in H as [_ H]. congruence. Qed.

(* the arithmetic sites are unreachable on every byte string *)
Corollary from_str_chk_no_overflow : forall s site, from_str_chk s = Panic site -> site = PSlice.
Proof. intros s site H. exact (proj1 (from_str_chk_panics s site H)). Qed.

(* the checked model and Model/DatetimeStd.v (what the driver runs) agree wherever the checked one returns *)
Theorem chk_refines : forall s r, from_str_chk s = Done r -> std_from_str s = r.
Proof.
  intros s res. unfold from_str_chk, from_str_chk_with, std_from_str.
  (* Model/DatetimeStd.v has 9 and 8 built in: the constants must be convertible with them *)
  change FRAC_DIGITS with 9. change FRAC_TOP_EXP with 8.
  destruct (Nat.ltb (List.length s) SD_MIN_LEN); [congruence|]. cbv zeta.
  destruct (match nth_error s 2 with Some b => byte_eqb b colon | None => false end).
  - unfold cpbind, sbind. destruct (time_chk 9 8 s) as [x|site] eqn:Et; [|discriminate].
    rewrite (time_chk_refines s x Et). destruct x as [[t r]|]; [|congruence].
    unfold cret, sret. destruct r; congruence.
  - unfold cpbind, sbind. rewrite date_chk_eq. destruct (std_date s) as [[d r]|]; [|congruence].
    cbn [cpeek speek]. destruct r as [|b r']; [unfold cret, sret; congruence|].
    destruct (byte_eqb b x54 || byte_eqb b x74 || byte_eqb b x20); [|unfold cret, sret; congruence].
    cbn [cnext snext tl].
    destruct (time_chk 9 8 r') as [x|site] eqn:Et; [|discriminate].
    rewrite (time_chk_refines r' x Et). destruct x as [[t r2]|]; [|congruence].
    rewrite offset_chk_eq. destruct (std_offset r2) as [[o r3]|]; [|congruence].
    unfold cret, sret. destruct r3; congruence.
Qed.

(* ------------------------------------------------------------------------------------------ *)
(* Display                                                                                    *)
(* ------------------------------------------------------------------------------------------ *)
Theorem display_chk_total : forall d, rust_datetime d ->
  d_offset d <> Some (OffCustom I16_MIN) -> exists t, display_chk d = Done t.
Proof.
  intros d [_ [_ Ho]] Hne. unfold display_chk. destruct (d_offset d) as [[|m]|]; cbn [cbind display_offset_chk]; eauto.
  cbn [rust_offset] in Ho. unfold in_i16, I16_MIN, I16_MAX in *.
  destruct (m <? 0)%Z eqn:Em; cbn [cbind]; [|eauto].
  unfold imul, in_i16, I16_MIN, I16_MAX.
  assert (m <> -32768)%Z by (intro; subst; apply Hne; reflexivity).
  replace ((-32768 <=? m * -1) && (m * -1 <=? 32767))%Z with true by lia. cbn [cbind]. eauto.
Qed.

(* ... and exactly that value reaches the overflow site of `minutes *= -1` *)
Theorem display_chk_refuted :
  exists d, rust_datetime d /\ display_chk d = Panic PDispNeg.
Proof.
  exists (mkDT None None (Some (OffCustom I16_MIN))). split; [|reflexivity].
  unfold rust_datetime. cbn. repeat split.
Qed.

Theorem display_chk_panics : forall d site, rust_datetime d -> display_chk d = Panic site ->
  site = PDispNeg /\ d_offset d = Some (OffCustom I16_MIN).
Proof.
  intros d site Hr H. destruct (d_offset d) as [[|m]|] eqn:Eo.
  - unfold display_chk in H. rewrite Eo in H. discriminate.
  - destruct (Z.eq_dec m I16_MIN) as [->|Hne].
    + split; [|reflexivity]. unfold display_chk in H. rewrite Eo in H.
      assert (E : display_offset_chk (OffCustom I16_MIN) = Panic PDispNeg) by reflexivity. rewrite E in H. cbn [cbind] in H. congruence.
    + destruct (display_chk_total d Hr) as [t Ht]; [rewrite Eo; congruence|congruence].
  - unfold display_chk in H. rewrite Eo in H. discriminate.
Qed.

(* where it returns, the checked printer prints what Model/DatetimeStd.v prints *)
Theorem display_chk_refines : forall d t, display_chk d = Done t -> display_datetime d = t.
Proof.
  intros d t. unfold display_chk, display_datetime. destruct (d_offset d) as [[|m]|]; cbn [cbind display_offset_chk display_offset].
  - intro H. injection H as <-. reflexivity.
  - destruct (m <? 0)%Z eqn:Em; cbn [cbind].
    + unfold imul. destruct (in_i16 (m * -1)); [|discriminate]. cbn [cbind]. intro H. injection H as <-.
      replace (Z.to_N (m * -1 / 60)) with (Z.to_N (Z.abs m) / 60)%N.
      2:{ rewrite Z.abs_neq by lia. replace (m * -1)%Z with (- m)%Z by lia. rewrite Z2N.inj_div by lia. reflexivity. }
      replace (Z.to_N ((m * -1) mod 60)) with (Z.to_N (Z.abs m) mod 60)%N.
      2:{ rewrite Z.abs_neq by lia. replace (m * -1)%Z with (- m)%Z by lia. rewrite Z2N.inj_mod by lia. reflexivity. }
      reflexivity.
    + intro H. injection H as <-.
      replace (Z.to_N (m / 60)) with (Z.to_N (Z.abs m) / 60)%N.
      2:{ rewrite Z.abs_eq by lia. rewrite Z2N.inj_div by lia. reflexivity. }
      replace (Z.to_N (m mod 60)) with (Z.to_N (Z.abs m) mod 60)%N.
      2:{ rewrite Z.abs_eq by lia. rewrite Z2N.inj_mod by lia. reflexivity. }
      reflexivity.
  - intro H. injection H as <-. reflexivity.
Qed.
