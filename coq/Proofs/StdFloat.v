(* Proofs/StdFloat.v — ONE statement of what is assumed about Rust's std float printing (`{}` on f64) and parsing
   (`str::parse::<f64>`) across C06, C07 and C11.

   Props/C11.v states it on the TEXT: `std_roundtrip_hyp classify64 is_inf shortest back` (Proofs/NumbersRT_Float.v):
   for every finite non-zero f64 pattern b, the text `shortest b` std prints has the shape ["-"] ip ["." fp] without
   an exponent, a fraction iff the value is not integral, denotes a decimal below the parser's overflow threshold, and
   `back` (the f64 the parser computes from the exact decimal) returns b.
   Model/SerDoc.v (C07 through text) and Model/Build.v (C06) state it on the DECIMAL: `float_oracle fd back`, where
   `fd b` is the leaf the tree holds and `float_text (fd b)` the text printed for it.

   Here: with `fd_std shortest b` := the decimal (nan / inf / zero) the writer's text `write_f64 b (shortest b)`
   (Model/WriteFloat.v) denotes,
       float_text (fd_std shortest b) = write_f64 b (shortest b)        the text printed IS the writer model's text
       float_oracle (fd_std shortest) back                              C07's hypothesis follows from C11's
   under `std_float shortest back` = C11's hypothesis plus the three things it leaves out because they are not about
   finite non-zero values (see `std_float` below). *)
From TV Require Import Base.Prelude Base.Utf8 Base.Winnow Gen.Consts.
From TV Require Import Model.Datetime Model.Numbers Model.Tree Model.Write Model.WriteFloat Model.Build.
From TV Require Import Spec.SerdeData Model.SerDoc.
From TV Require Import Proofs.LexEquivBase Proofs.NumbersRT_Int Proofs.NumbersRT_Float Proofs.NumbersRT_Widen Proofs.BuiltRTLeaf.
Require Import Lia ZifyBool ZifyN ZifyNat.

(* ---- a digit string is determined by its length and its value ------------------------------------------------- *)
Lemma digit_val_inj x y : is_digit x = true -> is_digit y = true -> digit_val x = digit_val y -> x = y.
Proof. unfold is_digit, digit_val. intros Hx Hy E. apply b2n_inj. lia. Qed.

Lemma digit_val_lt x : is_digit x = true -> (digit_val x < 10)%N.
Proof. unfold is_digit, digit_val. lia. Qed.

Lemma dec_value_inj : forall a b, length a = length b -> forallb is_digit a = true -> forallb is_digit b = true ->
  dec_value a = dec_value b -> a = b.
Proof.
  induction a as [|x a IH] using rev_ind; intros b Hl Ha Hb E.
  - destruct b; [reflexivity|discriminate].
  - destruct (exists_last (l := b)) as (b' & y & ->).
    { intro Eb. subst b. rewrite app_length in Hl. cbn in Hl. lia. }
    rewrite !app_length in Hl. cbn [length] in Hl.
    rewrite forallb_app in Ha, Hb. cbn [forallb] in Ha, Hb.
    apply andb_true_iff in Ha as [Ha Hx]. apply andb_true_iff in Hb as [Hb Hy].
    rewrite andb_true_r in Hx, Hy.
    rewrite !dec_value_snoc in E.
    pose proof (digit_val_lt x Hx). pose proof (digit_val_lt y Hy).
    assert (E1 : dec_value a = dec_value b') by lia. assert (E2 : digit_val x = digit_val y) by lia.
    rewrite (IH b' ltac:(lia) Ha Hb E1), (digit_val_inj x y Hx Hy E2). reflexivity.
Qed.

Lemma zero_digit : is_digit x30 = true. Proof. reflexivity. Qed.

(* two canonical spellings (no leading zero in the integer part unless it is "0") with the same number of fraction
   digits and the same value are the same spelling *)
Definition canon_ip (ip : bytes) : Prop := proper_digits ip \/ ip = [x30].

Lemma canon_head0 ip tl : canon_ip ip -> ip = x30 :: tl -> tl = [].
Proof.
  intros [[_ (d & t & E & Hd)] | E] H.
  - rewrite E in H. injection H as -> _. discriminate Hd.
  - rewrite E in H. injection H as <-. reflexivity.
Qed.

Lemma spelling_unique ip1 fp1 ip2 fp2 :
  canon_ip ip1 -> canon_ip ip2 -> forallb is_digit fp1 = true -> forallb is_digit fp2 = true ->
  length fp1 = length fp2 -> dec_value (ip1 ++ fp1) = dec_value (ip2 ++ fp2) -> ip1 = ip2 /\ fp1 = fp2.
Proof.
  assert (W : forall ip1 fp1 ip2 fp2,
             canon_ip ip1 -> canon_ip ip2 -> forallb is_digit fp1 = true -> forallb is_digit fp2 = true ->
             length fp1 = length fp2 -> dec_value (ip1 ++ fp1) = dec_value (ip2 ++ fp2) ->
             length ip1 <= length ip2 -> ip1 = ip2 /\ fp1 = fp2).
  { clear. intros ip1 fp1 ip2 fp2 C1 C2 F1 F2 Hl E Hle.
    destruct (ip_digits ip1 C1) as [D1 N1]. destruct (ip_digits ip2 C2) as [D2 N2].
    set (j := length ip2 - length ip1).
    assert (Epad : repeat x30 j ++ ip1 ++ fp1 = ip2 ++ fp2).
    { apply dec_value_inj.
      - rewrite !app_length, repeat_length. unfold j. lia.
      - rewrite !forallb_app, D1, F1, forallb_repeat by reflexivity. reflexivity.
      - rewrite forallb_app, D2, F2. reflexivity.
      - rewrite dec_value_zeros. exact E. }
    destruct j as [|j'] eqn:Ej.
    - cbn [repeat app] in Epad. assert (Hlen : length ip1 = length ip2) by (unfold j in Ej; lia).
      assert (Ei : ip1 = ip2 /\ fp1 = fp2).
      { clear - Epad Hlen. revert ip2 Hlen Epad. induction ip1 as [|a ip1 IH]; intros [|b ip2] Hlen Epad; try discriminate.
        - split; [reflexivity|exact Epad].
        - cbn [app] in Epad. injection Epad as -> Epad. destruct (IH ip2 ltac:(cbn in Hlen; lia) Epad) as [-> ->]. auto. }
      exact Ei.
    - (* ip2 would start with a zero and be longer than one digit *)
      exfalso. cbn [repeat app] in Epad. destruct ip2 as [|b tl]; [contradiction|].
      cbn [app] in Epad. injection Epad as <- Epad.
      pose proof (canon_head0 _ tl C2 eq_refl) as ->. cbn [length] in Ej. unfold j in Ej. cbn [length] in Ej.
      destruct ip1; [contradiction|]. cbn [length] in Ej. lia. }
  intros C1 C2 F1 F2 Hl E. destruct (Nat.le_ge_cases (length ip1) (length ip2)) as [H|H].
  - apply W; assumption.
  - destruct (W ip2 fp2 ip1 fp1 C2 C1 F2 F1 (eq_sym Hl) (eq_sym E) H) as [-> ->]. auto.
Qed.

(* the positional text of a decimal given by a canonical spelling is that spelling *)
Theorem float_text_plain neg ip fp :
  canon_ip ip -> forallb is_digit fp = true -> fp <> [] ->
  float_text (FDec neg (dec_value (ip ++ fp)) (0 - Z.of_nat (length fp)))
  = (if neg then [dash] else []) ++ ip ++ dot :: fp.
Proof.
  intros Ci Hf Hne.
  assert (He : (0 - Z.of_nat (length fp) < 0)%Z) by (destruct fp; [contradiction|cbn [length]; lia]).
  destruct (float_text_dec neg (dec_value (ip ++ fp)) _ He) as (ip2 & fp2 & Et & C2 & F2 & _ & Ev & El).
  assert (Hl : length fp2 = length fp) by lia.
  destruct (spelling_unique ip2 fp2 ip fp C2 Ci F2 Hf Hl Ev) as [-> ->]. exact Et.
Qed.

(* ---- the leaf a float is kept as: the decimal the writer's text denotes ---------------------------------------- *)
Definition is_inf64 (b : N) : bool := ((b / 2 ^ 52) mod 2 ^ 11 =? 2047)%N && (b mod 2 ^ 52 =? 0)%N.

Section Std.
  Variable shortest : N -> bytes.     (* ORACLE: std's `{}` text of the f64 with this bit pattern *)
  Variable back : fval -> N.          (* ORACLE: the f64 `str::parse::<f64>` computes from the exact decimal; f64::NAN /
                                         f64::INFINITY with the sign for the words nan / inf (toml_edit's parser) *)

  Definition fd_std (b : N) : fval :=
    let c := classify64 b in
    if fc_nan c then FNan (fc_neg c)
    else if fc_zero c then FDec (fc_neg c) 0 (-1)
    else if is_inf64 b then FInf (fc_neg c)
    else fdec_of_text (write_f64 b (shortest b)).

  (* C11's hypothesis, and what it leaves out (it speaks about finite non-zero values only):
       - std prints the infinities as "inf" / "-inf";
       - parsing "0.0" / "-0.0" gives the zero of that sign (std), `inf` / `-inf` the infinity of that sign and
         `nan` / `-nan` some NaN (toml_edit's parser: f64::INFINITY, f64::NAN, negated for "-") *)
  Record std_float : Prop := mkStdFloat {
    sf_finite : std_roundtrip_hyp classify64 is_inf64 shortest back;
    sf_inf_text : forall b, is_inf64 b = true -> shortest b = t_inf (fc_neg (classify64 b));
    sf_back_zero : forall neg, back (FDec neg 0 (-1)) = (if neg then 2 ^ 63 else 0)%N;
    sf_back_inf : forall neg, back (FInf neg) = ((if neg then 2 ^ 63 else 0) + 2047 * 2 ^ 52)%N;
    sf_back_nan : forall neg, is_nan64 (back (FNan neg)) = true
  }.

  Hypothesis H : std_float.

  (* the finite non-zero case, from C11's hypothesis *)
  Lemma fd_std_finite b : fc_nan (classify64 b) = false -> fc_zero (classify64 b) = false -> is_inf64 b = false ->
    exists ip fp,
      std_finite_shape (classify64 b) (shortest b) ip fp /\
      fd_std b = FDec (fc_neg (classify64 b)) (dec_value (ip ++ toml_frac fp)) (0 - Z.of_nat (length (toml_frac fp))) /\
      overflows (dec_value (ip ++ toml_frac fp)) (0 - Z.of_nat (length (toml_frac fp))) = false /\
      back (fd_std b) = b /\
      write_f64 b (shortest b) = ((if fc_neg (classify64 b) then [dash] else []) ++ ip) ++ dot :: toml_frac fp.
  Proof.
    intros Hn Hz Hi. destruct (sf_finite H b Hn Hz Hi) as (ip & fp & Hs & Ho & Hb).
    exists ip, fp. pose proof (write_float_finite _ _ _ _ Hn Hz Hs) as Ew. fold (write_f64 b (shortest b)) in Ew.
    assert (Efd : fd_std b = FDec (fc_neg (classify64 b)) (dec_value (ip ++ toml_frac fp)) (0 - Z.of_nat (length (toml_frac fp)))).
    { unfold fd_std. cbv zeta. rewrite Hn, Hz, Hi. rewrite Ew, <- app_assoc.
      destruct (ip_digits ip (sh_ip _ _ _ _ Hs)) as [Hd Hne].
      apply fdec_of_plain; [exact Hd|exact Hne|].
      destruct fp; [reflexivity|exact (sh_fp _ _ _ _ Hs)]. }
    split; [exact Hs|]. split; [exact Efd|]. split; [exact Ho|]. split; [rewrite Efd; exact Hb|exact Ew].
  Qed.

  (* 1. the text printed for the leaf is the writer model's text *)
  Theorem float_text_is_writer b : float_text (fd_std b) = write_f64 b (shortest b).
  Proof.
    destruct (fc_nan (classify64 b)) eqn:Hn.
    - unfold fd_std, write_f64, write_float. cbv zeta. rewrite Hn. destruct (fc_neg (classify64 b)); reflexivity.
    - destruct (fc_zero (classify64 b)) eqn:Hz.
      + unfold fd_std, write_f64, write_float. cbv zeta. rewrite Hn, Hz. destruct (fc_neg (classify64 b)); reflexivity.
      + destruct (is_inf64 b) eqn:Hi.
        * unfold fd_std, write_f64, write_float. cbv zeta. rewrite Hn, Hz, Hi, (sf_inf_text H b Hi).
          assert (Hint : fc_integral (classify64 b) = false).
          { unfold is_inf64 in Hi. apply andb_true_iff in Hi as [He _]. apply N.eqb_eq in He.
            unfold classify64, classify. cbn [fc_integral]. change (2 ^ 11 - 1)%N with 2047%N. rewrite He. reflexivity. }
          rewrite Hint. destruct (fc_neg (classify64 b)); reflexivity.
        * destruct (fd_std_finite b Hn Hz Hi) as (ip & fp & Hs & Efd & _ & _ & Ew).
          rewrite Efd, Ew, <- app_assoc. apply float_text_plain.
          -- exact (sh_ip _ _ _ _ Hs).
          -- destruct fp; [reflexivity|exact (sh_fp _ _ _ _ Hs)].
          -- destruct fp; discriminate.
  Qed.

  (* the fields of a 64-bit pattern *)
  Ltac Zify.zify_post_hook ::= Z.div_mod_to_equations.
  Lemma zero_bits b : (b < 2 ^ 64)%N -> fc_zero (classify64 b) = true -> b = (if fc_neg (classify64 b) then 2 ^ 63 else 0)%N.
  Proof.
    intros Hb Hz. rewrite classify64_zero in Hz. rewrite classify64_neg, testbit_div.
    unfold ex64, mant64, p52 in Hz. apply andb_true_iff in Hz as [H1 H2]. apply N.eqb_eq in H1, H2.
    change (2 ^ 64)%N with 18446744073709551616%N in Hb. change (2 ^ 63)%N with 9223372036854775808%N.
    change (2 ^ 52)%N with 4503599627370496%N in *. change (2 ^ 11)%N with 2048%N in *.
    destruct ((b / 9223372036854775808) mod 2 =? 1)%N eqn:E; lia.
  Qed.
  Lemma inf_bits b : (b < 2 ^ 64)%N -> is_inf64 b = true ->
    b = ((if fc_neg (classify64 b) then 2 ^ 63 else 0) + 2047 * 2 ^ 52)%N.
  Proof.
    intros Hb Hi. rewrite classify64_neg, testbit_div.
    unfold is_inf64 in Hi. apply andb_true_iff in Hi as [H1 H2]. apply N.eqb_eq in H1, H2.
    change (2 ^ 64)%N with 18446744073709551616%N in Hb. change (2 ^ 63)%N with 9223372036854775808%N.
    change (2 ^ 52)%N with 4503599627370496%N in *. change (2 ^ 11)%N with 2048%N in *.
    destruct ((b / 9223372036854775808) mod 2 =? 1)%N eqn:E; lia.
  Qed.
  Ltac Zify.zify_post_hook ::= idtac.

  (* 2. C07's oracle (Model/SerDoc.v) follows *)
  Theorem float_oracle_from_std : float_oracle fd_std back.
  Proof.
    intros b Hb.
    destruct (fc_nan (classify64 b)) eqn:Hn.
    - assert (E : fd_std b = FNan (fc_neg (classify64 b))) by (unfold fd_std; cbv zeta; rewrite Hn; reflexivity).
      rewrite E. split; [exact I|]. right. split; [|apply (sf_back_nan H)].
      rewrite classify64_nan in Hn. exact Hn.
    - destruct (fc_zero (classify64 b)) eqn:Hz.
      + assert (E : fd_std b = FDec (fc_neg (classify64 b)) 0 (-1)) by (unfold fd_std; cbv zeta; rewrite Hn, Hz; reflexivity).
        rewrite E. split; [split; [lia|reflexivity]|]. left. rewrite (sf_back_zero H). apply zero_bits; assumption.
      + destruct (is_inf64 b) eqn:Hi.
        * assert (E : fd_std b = FInf (fc_neg (classify64 b))) by (unfold fd_std; cbv zeta; rewrite Hn, Hz, Hi; reflexivity).
          rewrite E. split; [exact I|]. left. rewrite (sf_back_inf H). apply inf_bits; assumption.
        * destruct (fd_std_finite b Hn Hz Hi) as (ip & fp & _ & Efd & Ho & Hbk & _).
          split; [|left; symmetry; exact Hbk]. rewrite Efd. split; [|exact Ho].
          destruct fp; cbn [toml_frac length]; lia.
  Qed.

  (* the leaf predicate of C06 (Proofs/BuiltRTTop.v scalar_ok) holds of every such leaf *)
  Corollary fd_std_leaf b : (b < 2 ^ 64)%N -> float_leaf (fd_std b).
  Proof. intro Hb. exact (proj1 (float_oracle_from_std b Hb)). Qed.
End Std.
